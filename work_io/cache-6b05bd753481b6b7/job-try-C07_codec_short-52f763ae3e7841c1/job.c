#include "v_rt.h"
struct S0_class_std__ios_base__Init;
struct S1;
struct S2;
struct S3;
struct S4;
struct S5;
struct S6;
struct S7;
struct S8;
struct S9;
struct S10_class_std___Rb_tree;
struct S11_struct_std___Rb_tree_node_base;
struct S12_struct_std___Rb_tree_node;
struct S13_class_std___Sp_counted_base;
struct S14_struct_std___Rb_tree_node_64;
struct S15_class_OpenVolumeMesh__detail__Tracked;
struct S16_class_OpenVolumeMesh__PropertyStorageBas;
struct S17_class_std__basic_ostream;
struct S18_class_std__basic_istream;
struct S19_class_std__bad_cast;
struct S20_class_std__runtime_error;
struct S21_class_OpenVolumeMesh__IO__PropertyDecode;
struct S22_class_std__ctype;
struct S23;
struct S24_class_std__enable_shared_from_this;
struct S25_class_std__shared_ptr_19;
struct S26_class_std__map;
struct S27_class_std____cxx11__basic_string;
struct S28_class_std__shared_ptr_25;
struct S29_class_std__tuple_166;
struct S30;
struct S31_struct_std___Rb_tree_std____cxx11__basic;
struct S32_class_OpenVolumeMesh__IO__detail__parse_;
struct S33_class_std__weak_ptr;
struct S34_class_std____weak_ptr;
struct S35_struct_std___Rb_tree_node_84;
struct S36_class_OpenVolumeMesh__IO__PropertyEncode;
struct S37_class_OpenVolumeMesh__IO__PropertyCodecs;
struct S38_class_OpenVolumeMesh__PropertyStorageT_3;
struct S39_class_OpenVolumeMesh__detail__Tracker;
struct S40_class_std__vector_322;
struct S41_class_std__unique_ptr;
struct S42_class_anon_445;
struct S43_class_std____shared_ptr_349;
struct S44_class_OpenVolumeMesh__PropertyPtr_431;
struct S45_class_OpenVolumeMesh__PropertyStoragePtr;
struct S46_class_OpenVolumeMesh__HandleIndexing_432;
struct S47_class_std___Sp_counted_ptr_inplace_70;
struct S48_class_std__type_info;
struct S49_class_std___Sp_counted_ptr_inplace;
struct S50_class_std____shared_ptr;
struct S51_class_std____shared_ptr_23;
struct S52_class_OpenVolumeMesh__ResourceManager;
struct S53_class_std__vector;
struct S54_class_OpenVolumeMesh__IO__detail__Decode;
struct S55_class_std__shared_ptr_348;
struct S56_class_anon_351;
struct S57_class_std__optional_433;
struct S58_struct_std___Optional_base_434;
struct S59_class_std___Sp_counted_ptr_inplace_41;
struct S60_class_OpenVolumeMesh__IO__PropertyEncode;
struct S61_class_OpenVolumeMesh__IO__detail__WriteB;
struct S62_class_OpenVolumeMesh__IO__detail__Encode;
struct S63;
struct S64_struct___gnu_cxx____aligned_membuf;
struct S65_struct___gnu_cxx____aligned_membuf_65;
struct S66_union_anon;
struct S67_struct___gnu_cxx____aligned_membuf_85;
struct S68_class_std__basic_streambuf;
struct S69;
struct S70_class_std____weak_count;
struct S71_struct___gnu_cxx____aligned_buffer_71;
struct S72_class_std__shared_ptr;
struct S73_class_std__shared_ptr_22;
struct S74_struct___gnu_cxx____aligned_buffer;
struct S75_struct___gnu_cxx____aligned_buffer_42;
struct A0;
struct A1;
struct A2;
struct A3;
struct A4;
struct A5;
struct A6;
struct A7;
struct A8;
struct A9;
struct A10;
struct A11;
struct A12;
struct A13;
struct A14;
struct A15;
struct A16;
struct A17;
struct A18;
struct A19;
struct A20;
struct A21;
struct A22;
struct A23;
struct A24;
struct A25;
struct A26;
struct S0_class_std__ios_base__Init { u8 f0; };
struct S1 { u8* f0; u8* f1; };
struct S2 { u8* f0; u8* f1; u8* f2; };
struct A27 { u8* e[7]; };
struct S3 { struct A27 f0; };
struct A28 { u8* e[6]; };
struct S4 { struct A28 f0; };
struct A29 { u8* e[5]; };
struct S5 { struct A29 f0; };
struct S6 { u8* f0; u8* f1; u32 f2; u32 f3; u8* f4; u64 f5; u8* f6; u64 f7; };
struct A30 { u8* e[19]; };
struct S7 { struct A30 f0; };
struct A31 { u8* e[4]; };
struct S8 { struct A31 f0; };
struct S9 { struct A29 f0; struct A29 f1; };
struct S76_struct_std___Rb_tree_key_compare { struct S0_class_std__ios_base__Init f0; };
struct S11_struct_std___Rb_tree_node_base { u32 f0; struct S11_struct_std___Rb_tree_node_base* f1; struct S11_struct_std___Rb_tree_node_base* f2; struct S11_struct_std___Rb_tree_node_base* f3; };
struct S77_struct_std___Rb_tree_header { struct S11_struct_std___Rb_tree_node_base f0; u64 f1; };
struct S78_struct_std___Rb_tree_std____cxx11__basic { struct S76_struct_std___Rb_tree_key_compare f0; struct S77_struct_std___Rb_tree_header f1; };
struct S10_class_std___Rb_tree { struct S78_struct_std___Rb_tree_std____cxx11__basic f0; };
struct A32 { u8 e[48]; };
struct S64_struct___gnu_cxx____aligned_membuf { struct A32 f0; };
struct S12_struct_std___Rb_tree_node { struct S11_struct_std___Rb_tree_node_base f0; struct S64_struct___gnu_cxx____aligned_membuf f1; };
struct S13_class_std___Sp_counted_base { fnptr_t* f0; u32 f1; u32 f2; };
struct A33 { u8 e[8]; };
struct S65_struct___gnu_cxx____aligned_membuf_65 { struct A33 f0; };
struct S14_struct_std___Rb_tree_node_64 { struct S11_struct_std___Rb_tree_node_base f0; struct S65_struct___gnu_cxx____aligned_membuf_65 f1; };
struct S15_class_OpenVolumeMesh__detail__Tracked { fnptr_t* f0; struct S39_class_OpenVolumeMesh__detail__Tracker* f1; };
struct S70_class_std____weak_count { struct S13_class_std___Sp_counted_base* f0; };
struct S34_class_std____weak_ptr { struct S16_class_OpenVolumeMesh__PropertyStorageBas* f0; struct S70_class_std____weak_count f1; };
struct S33_class_std__weak_ptr { struct S34_class_std____weak_ptr f0; };
struct S24_class_std__enable_shared_from_this { struct S33_class_std__weak_ptr f0; };
struct S79_struct_std____cxx11__basic_string_char__ { u8* f0; };
struct A6 { u8 e[16]; };
struct S66_union_anon { struct A6 f0; };
struct S27_class_std____cxx11__basic_string { struct S79_struct_std____cxx11__basic_string_char__ f0; u64 f1; struct S66_union_anon f2; };
struct A34 { u8 e[5]; };
struct S16_class_OpenVolumeMesh__PropertyStorageBas { struct S15_class_OpenVolumeMesh__detail__Tracked f0; struct S24_class_std__enable_shared_from_this f1; struct S27_class_std____cxx11__basic_string f2; struct S27_class_std____cxx11__basic_string f3; u8 f4; u8 f5; u8 f6; struct A34 f7; } __attribute__((packed));
struct S80_struct_std__ios_base___Words { u8* f0; u64 f1; };
struct A35 { struct S80_struct_std__ios_base___Words e[8]; };
struct S81_class_std__locale { struct S82_class_std__locale___Impl* f0; };
struct S83_class_std__ios_base { fnptr_t* f0; u64 f1; u64 f2; u32 f3; u32 f4; u32 f5; struct S84_struct_std__ios_base___Callback_list* f6; struct S80_struct_std__ios_base___Words f7; struct A35 f8; u32 f9; struct S80_struct_std__ios_base___Words* f10; struct S81_class_std__locale f11; };
struct S85_class_std__basic_ios { struct S83_class_std__ios_base f0; struct S17_class_std__basic_ostream* f1; u8 f2; u8 f3; struct S68_class_std__basic_streambuf* f4; struct S22_class_std__ctype* f5; struct S86_class_std__num_put* f6; struct S86_class_std__num_put* f7; };
struct S17_class_std__basic_ostream { fnptr_t* f0; struct S85_class_std__basic_ios f1; };
struct S18_class_std__basic_istream { fnptr_t* f0; u64 f1; struct S85_class_std__basic_ios f2; };
struct S21_class_OpenVolumeMesh__IO__PropertyDecode { fnptr_t* f0; };
struct S19_class_std__bad_cast { struct S21_class_OpenVolumeMesh__IO__PropertyDecode f0; };
struct S87_struct_std____cow_string { struct S79_struct_std____cxx11__basic_string_char__ f0; };
struct S20_class_std__runtime_error { struct S21_class_OpenVolumeMesh__IO__PropertyDecode f0; struct S87_struct_std____cow_string f1; };
struct S88_class_std__locale__facet_base { fnptr_t* f0; u32 f1; } __attribute__((packed));
struct A9 { u8 e[4]; };
struct A36 { u8 e[7]; };
struct A37 { u8 e[256]; };
struct A38 { u8 e[6]; };
struct S22_class_std__ctype { struct S88_class_std__locale__facet_base f0; struct A9 f1; struct S89_struct___locale_struct* f2; u8 f3; struct A36 f4; u32* f5; u32* f6; u16* f7; u8 f8; struct A37 f9; struct A37 f10; u8 f11; struct A38 f12; } __attribute__((packed));
struct S23 { struct S11_struct_std___Rb_tree_node_base* f0; u8 f1; };
struct S90_class_std____shared_ptr_20 { struct S36_class_OpenVolumeMesh__IO__PropertyEncode* f0; struct S70_class_std____weak_count f1; };
struct S25_class_std__shared_ptr_19 { struct S90_class_std____shared_ptr_20 f0; };
struct S26_class_std__map { struct S10_class_std___Rb_tree f0; };
struct S91_class_std____shared_ptr_26 { struct S21_class_OpenVolumeMesh__IO__PropertyDecode* f0; struct S70_class_std____weak_count f1; };
struct S28_class_std__shared_ptr_25 { struct S91_class_std____shared_ptr_26 f0; };
struct S92_struct_std___Head_base_168 { struct S27_class_std____cxx11__basic_string* f0; };
struct S93_struct_std___Tuple_impl_167 { struct S92_struct_std___Head_base_168 f0; };
struct S29_class_std__tuple_166 { struct S93_struct_std___Tuple_impl_167 f0; };
struct S30 { struct S11_struct_std___Rb_tree_node_base* f0; struct S11_struct_std___Rb_tree_node_base* f1; };
struct S31_struct_std___Rb_tree_std____cxx11__basic { struct S10_class_std___Rb_tree* f0; struct S12_struct_std___Rb_tree_node* f1; };
struct S94_class_OpenVolumeMesh__IO__detail__io_err { struct S20_class_std__runtime_error f0; };
struct S32_class_OpenVolumeMesh__IO__detail__parse_ { struct S94_class_OpenVolumeMesh__IO__detail__io_err f0; };
struct S67_struct___gnu_cxx____aligned_membuf_85 { struct A6 f0; };
struct S35_struct_std___Rb_tree_node_84 { struct S11_struct_std___Rb_tree_node_base f0; struct S67_struct___gnu_cxx____aligned_membuf_85 f1; };
struct S36_class_OpenVolumeMesh__IO__PropertyEncode { fnptr_t* f0; struct S27_class_std____cxx11__basic_string f1; };
struct S37_class_OpenVolumeMesh__IO__PropertyCodecs { struct S26_class_std__map f0; struct S26_class_std__map f1; };
struct S95_class_OpenVolumeMesh__PropertyStorageBas { struct S15_class_OpenVolumeMesh__detail__Tracked f0; struct S24_class_std__enable_shared_from_this f1; struct S27_class_std____cxx11__basic_string f2; struct S27_class_std____cxx11__basic_string f3; u8 f4; u8 f5; u8 f6; } __attribute__((packed));
struct S96_struct_std___Vector_base_unsigned_int__s { u32* f0; u32* f1; u32* f2; };
struct S97_struct_std___Vector_base_unsigned_int__s { struct S96_struct_std___Vector_base_unsigned_int__s f0; };
struct S98_struct_std___Vector_base_323 { struct S97_struct_std___Vector_base_unsigned_int__s f0; };
struct S40_class_std__vector_322 { struct S98_struct_std___Vector_base_323 f0; };
struct S38_class_OpenVolumeMesh__PropertyStorageT_3 { struct S95_class_OpenVolumeMesh__PropertyStorageBas f0; struct A34 f1; struct S40_class_std__vector_322 f2; u32 f3; struct A9 f4; } __attribute__((packed));
struct S39_class_OpenVolumeMesh__detail__Tracker { fnptr_t* f0; struct S26_class_std__map f1; };
struct S99_struct_std___Head_base_178 { struct S21_class_OpenVolumeMesh__IO__PropertyDecode* f0; };
struct S100_struct_std___Tuple_impl_175 { struct S99_struct_std___Head_base_178 f0; };
struct S101_class_std__tuple_174 { struct S100_struct_std___Tuple_impl_175 f0; };
struct S102_class_std____uniq_ptr_impl { struct S101_class_std__tuple_174 f0; };
struct S103_struct_std____uniq_ptr_data { struct S102_class_std____uniq_ptr_impl f0; };
struct S41_class_std__unique_ptr { struct S103_struct_std____uniq_ptr_data f0; };
struct S42_class_anon_445 { struct S38_class_OpenVolumeMesh__PropertyStorageT_3* f0; };
struct S43_class_std____shared_ptr_349 { struct S38_class_OpenVolumeMesh__PropertyStorageT_3* f0; struct S70_class_std____weak_count f1; };
struct S55_class_std__shared_ptr_348 { struct S43_class_std____shared_ptr_349 f0; };
struct S45_class_OpenVolumeMesh__PropertyStoragePtr { fnptr_t* f0; struct S55_class_std__shared_ptr_348 f1; };
struct S46_class_OpenVolumeMesh__HandleIndexing_432 { struct S45_class_OpenVolumeMesh__PropertyStoragePtr f0; };
struct S44_class_OpenVolumeMesh__PropertyPtr_431 { struct S46_class_OpenVolumeMesh__HandleIndexing_432 f0; struct S21_class_OpenVolumeMesh__IO__PropertyDecode f1; };
struct S71_struct___gnu_cxx____aligned_buffer_71 { struct S38_class_OpenVolumeMesh__PropertyStorageT_3 f0; };
struct S104_class_std___Sp_counted_ptr_inplace_OpenV { struct S71_struct___gnu_cxx____aligned_buffer_71 f0; };
struct S47_class_std___Sp_counted_ptr_inplace_70 { struct S13_class_std___Sp_counted_base f0; struct S104_class_std___Sp_counted_ptr_inplace_OpenV f1; };
struct S48_class_std__type_info { fnptr_t* f0; u8* f1; };
struct S60_class_OpenVolumeMesh__IO__PropertyEncode { struct S36_class_OpenVolumeMesh__IO__PropertyEncode f0; };
struct S74_struct___gnu_cxx____aligned_buffer { struct S60_class_OpenVolumeMesh__IO__PropertyEncode f0; };
struct S105_class_std___Sp_counted_ptr_inplace_OpenV { struct S74_struct___gnu_cxx____aligned_buffer f0; };
struct S49_class_std___Sp_counted_ptr_inplace { struct S13_class_std___Sp_counted_base f0; struct S105_class_std___Sp_counted_ptr_inplace_OpenV f1; };
struct S50_class_std____shared_ptr { struct S60_class_OpenVolumeMesh__IO__PropertyEncode* f0; struct S70_class_std____weak_count f1; };
struct S51_class_std____shared_ptr_23 { struct S19_class_std__bad_cast* f0; struct S70_class_std____weak_count f1; };
struct A39 { struct S26_class_std__map e[7]; };
struct S106_struct_std__array { struct A39 f0; };
struct S107_class_OpenVolumeMesh__PerEntity { struct S106_struct_std__array f0; };
struct A40 { struct S39_class_OpenVolumeMesh__detail__Tracker e[7]; };
struct S108_struct_std__array_54 { struct A40 f0; };
struct S109_class_OpenVolumeMesh__PerEntity_53 { struct S108_struct_std__array_54 f0; };
struct S52_class_OpenVolumeMesh__ResourceManager { fnptr_t* f0; struct S107_class_OpenVolumeMesh__PerEntity f1; struct S109_class_OpenVolumeMesh__PerEntity_53 f2; };
struct S110_struct_std___Vector_base_unsigned_char__ { u8* f0; u8* f1; u8* f2; };
struct S111_struct_std___Vector_base_unsigned_char__ { struct S110_struct_std___Vector_base_unsigned_char__ f0; };
struct S112_struct_std___Vector_base { struct S111_struct_std___Vector_base_unsigned_char__ f0; };
struct S53_class_std__vector { struct S112_struct_std___Vector_base f0; };
struct S54_class_OpenVolumeMesh__IO__detail__Decode { struct S53_class_std__vector f0; u8* f1; u8* f2; };
struct S56_class_anon_351 { struct S52_class_OpenVolumeMesh__ResourceManager* f0; struct S27_class_std____cxx11__basic_string* f1; u32* f2; };
struct S113_union_std___Optional_payload_base_OpenVo { struct S44_class_OpenVolumeMesh__PropertyPtr_431 f0; };
struct S114_struct_std___Optional_payload_base_base_ { struct S113_union_std___Optional_payload_base_OpenVo f0; u8 f1; } __attribute__((packed));
struct S115_struct_std___Optional_payload_base_440 { struct S114_struct_std___Optional_payload_base_base_ f0; };
struct S116_struct_std___Optional_payload_436 { struct S115_struct_std___Optional_payload_base_440 f0; struct A36 f1; };
struct S58_struct_std___Optional_base_434 { struct S116_struct_std___Optional_payload_436 f0; };
struct S57_class_std__optional_433 { struct S58_struct_std___Optional_base_434 f0; };
struct S75_struct___gnu_cxx____aligned_buffer_42 { struct S19_class_std__bad_cast f0; };
struct S117_class_std___Sp_counted_ptr_inplace_OpenV { struct S75_struct___gnu_cxx____aligned_buffer_42 f0; };
struct S59_class_std___Sp_counted_ptr_inplace_41 { struct S13_class_std___Sp_counted_base f0; struct S117_class_std___Sp_counted_ptr_inplace_OpenV f1; };
struct S61_class_OpenVolumeMesh__IO__detail__WriteB { struct S53_class_std__vector f0; u64 f1; };
struct S62_class_OpenVolumeMesh__IO__detail__Encode { struct S61_class_OpenVolumeMesh__IO__detail__WriteB* f0; };
struct S63 { u8* f0; u32 f1; };
struct S68_class_std__basic_streambuf { fnptr_t* f0; u8* f1; u8* f2; u8* f3; u8* f4; u8* f5; u8* f6; struct S81_class_std__locale f7; };
struct S69 { u32 f0; u1 f1; };
struct S72_class_std__shared_ptr { struct S50_class_std____shared_ptr f0; };
struct S73_class_std__shared_ptr_22 { struct S51_class_std____shared_ptr_23 f0; };
struct S82_class_std__locale___Impl { u32 f0; struct S118_class_std__locale__facet** f1; u64 f2; struct S118_class_std__locale__facet** f3; u8** f4; };
struct S84_struct_std__ios_base___Callback_list { struct S84_struct_std__ios_base___Callback_list* f0; fnptr_t f1; u32 f2; u32 f3; };
struct S86_class_std__num_put { struct S88_class_std__locale__facet_base f0; struct A9 f1; };
struct A41 { struct S119_struct___locale_data* e[13]; };
struct A42 { u8* e[13]; };
struct S89_struct___locale_struct { struct A41 f0; u16* f1; u32* f2; u32* f3; struct A42 f4; };
struct S118_class_std__locale__facet { fnptr_t* f0; u32 f1; struct A9 f2; } __attribute__((packed));
struct A0 { u8 e[136]; };
struct A1 { u8 e[52]; };
struct A2 { u8 e[37]; };
struct A3 { u8 e[38]; };
struct A4 { u8 e[51]; };
struct A5 { u8 e[19]; };
struct A7 { u8 e[26]; };
struct A8 { u8 e[23]; };
struct A10 { u8 e[47]; };
struct A11 { u8 e[43]; };
struct A12 { u8 e[24]; };
struct A13 { u8 e[36]; };
struct A14 { u8 e[40]; };
struct A15 { u8 e[69]; };
struct A16 { u8 e[61]; };
struct A17 { u8 e[155]; };
struct A18 { u8 e[92]; };
struct A19 { u8 e[53]; };
struct A20 { u8 e[82]; };
struct A21 { u8 e[42]; };
struct A22 { u8 e[103]; };
struct A23 { u8 e[80]; };
struct A24 { u8 e[55]; };
struct A25 { u8 e[84]; };
struct A26 { u8 e[50]; };
typedef void (*FT0)(struct S13_class_std___Sp_counted_base*);
typedef void (*FT1)(struct S21_class_OpenVolumeMesh__IO__PropertyDecode*, struct S16_class_OpenVolumeMesh__PropertyStorageBas*, struct S54_class_OpenVolumeMesh__IO__detail__Decode*, u64, u64);
typedef u8 (*FT2)(struct S22_class_std__ctype*, u8);
typedef void (*FT3)(struct S38_class_OpenVolumeMesh__PropertyStorageT_3*);
typedef void (*FT4)(struct S19_class_std__bad_cast*);
typedef void (*FT5)(struct S60_class_OpenVolumeMesh__IO__PropertyEncode*);
typedef u64 (*FT6)(struct S52_class_OpenVolumeMesh__ResourceManager*);
extern struct S0_class_std__ios_base__Init _ZStL8__ioinit;
extern struct A0 _ZL5g_raw;
extern struct A1 _str;
extern struct A2 _str_2;
extern struct A3 _str_3;
extern struct A4 _str_4;
extern struct A5 _str_5;
extern struct A6 _str_8;
extern struct A7 _str_9;
extern struct A8 _str_10;
extern struct A9 _str_16;
extern struct A1 _ZTSSt16_Sp_counted_baseILN9__gnu_cxx12_Lock_policyE2EE;
extern struct A10 _ZTSSt11_Mutex_baseILN9__gnu_cxx12_Lock_policyE2EE;
extern struct S1 _ZTISt11_Mutex_baseILN9__gnu_cxx12_Lock_policyE2EE;
extern struct S2 _ZTISt16_Sp_counted_baseILN9__gnu_cxx12_Lock_policyE2EE;
extern struct S3 _ZTVSt16_Sp_counted_baseILN9__gnu_cxx12_Lock_policyE2EE;
extern struct A11 _ZTSN14OpenVolumeMesh2IO19PropertyEncoderBaseE;
extern struct S1 _ZTIN14OpenVolumeMesh2IO19PropertyEncoderBaseE;
extern struct S4 _ZTVN14OpenVolumeMesh2IO19PropertyEncoderBaseE;
extern u8* _ZTISt8bad_cast;
extern struct S5 _ZTVSt8bad_cast;
extern struct A12 _ZTSSt19_Sp_make_shared_tag;
extern struct A6 _ZZNSt19_Sp_make_shared_tag5_S_tiEvE5__tag;
extern struct S0_class_std__ios_base__Init _ZSt19piecewise_construct;
extern struct A11 _ZTSN14OpenVolumeMesh2IO19PropertyDecoderBaseE;
extern struct S1 _ZTIN14OpenVolumeMesh2IO19PropertyDecoderBaseE;
extern u8* _ZTVN10__cxxabiv121__vmi_class_type_infoE;
extern struct A13 _ZTSN14OpenVolumeMesh15BasePropertyPtrE;
extern struct S1 _ZTIN14OpenVolumeMesh15BasePropertyPtrE;
extern struct S5 _ZTVN14OpenVolumeMesh15BasePropertyPtrE;
extern struct A14 _ZTSN14OpenVolumeMesh19PropertyStorageBaseE;
extern struct A15 _ZTSSt23enable_shared_from_thisIN14OpenVolumeMesh19PropertyStorageBaseEE;
extern struct S1 _ZTISt23enable_shared_from_thisIN14OpenVolumeMesh19PropertyStorageBaseEE;
extern struct A16 _ZTSN14OpenVolumeMesh6detail7TrackedINS_19PropertyStorageBaseEEE;
extern struct S1 _ZTIN14OpenVolumeMesh6detail7TrackedINS_19PropertyStorageBaseEEE;
extern struct S6 _ZTIN14OpenVolumeMesh19PropertyStorageBaseE;
extern struct S7 _ZTVN14OpenVolumeMesh19PropertyStorageBaseE;
extern struct S8 _ZTVN14OpenVolumeMesh6detail7TrackedINS_19PropertyStorageBaseEEE;
extern struct S3 _ZTVSt23_Sp_counted_ptr_inplaceIN14OpenVolumeMesh2IO16PropertyEncoderTIjNS1_6Codecs15SimplePropCodecINS3_9PrimitiveIjEEEEEESaIvELN9__gnu_cxx12_Lock_policyE2EE;
extern struct A17 _ZTSSt23_Sp_counted_ptr_inplaceIN14OpenVolumeMesh2IO16PropertyEncoderTIjNS1_6Codecs15SimplePropCodecINS3_9PrimitiveIjEEEEEESaIvELN9__gnu_cxx12_Lock_policyE2EE;
extern struct S2 _ZTISt23_Sp_counted_ptr_inplaceIN14OpenVolumeMesh2IO16PropertyEncoderTIjNS1_6Codecs15SimplePropCodecINS3_9PrimitiveIjEEEEEESaIvELN9__gnu_cxx12_Lock_policyE2EE;
extern struct S4 _ZTVN14OpenVolumeMesh2IO16PropertyEncoderTIjNS0_6Codecs15SimplePropCodecINS2_9PrimitiveIjEEEEEE;
extern struct A18 _ZTSN14OpenVolumeMesh2IO16PropertyEncoderTIjNS0_6Codecs15SimplePropCodecINS2_9PrimitiveIjEEEEEE;
extern struct S2 _ZTIN14OpenVolumeMesh2IO16PropertyEncoderTIjNS0_6Codecs15SimplePropCodecINS2_9PrimitiveIjEEEEEE;
extern u8* _ZTIj[2];
extern struct S3 _ZTVSt23_Sp_counted_ptr_inplaceIN14OpenVolumeMesh2IO16PropertyDecoderTIjNS1_6Codecs15SimplePropCodecINS3_9PrimitiveIjEEEEEESaIvELN9__gnu_cxx12_Lock_policyE2EE;
extern struct A17 _ZTSSt23_Sp_counted_ptr_inplaceIN14OpenVolumeMesh2IO16PropertyDecoderTIjNS1_6Codecs15SimplePropCodecINS3_9PrimitiveIjEEEEEESaIvELN9__gnu_cxx12_Lock_policyE2EE;
extern struct S2 _ZTISt23_Sp_counted_ptr_inplaceIN14OpenVolumeMesh2IO16PropertyDecoderTIjNS1_6Codecs15SimplePropCodecINS3_9PrimitiveIjEEEEEESaIvELN9__gnu_cxx12_Lock_policyE2EE;
extern struct S4 _ZTVN14OpenVolumeMesh2IO16PropertyDecoderTIjNS0_6Codecs15SimplePropCodecINS2_9PrimitiveIjEEEEEE;
extern struct A18 _ZTSN14OpenVolumeMesh2IO16PropertyDecoderTIjNS0_6Codecs15SimplePropCodecINS2_9PrimitiveIjEEEEEE;
extern struct S2 _ZTIN14OpenVolumeMesh2IO16PropertyDecoderTIjNS0_6Codecs15SimplePropCodecINS2_9PrimitiveIjEEEEEE;
extern struct S9 _ZTVN14OpenVolumeMesh11PropertyPtrIjNS_6Entity6VertexEEE;
extern struct A19 _ZTSN14OpenVolumeMesh11PropertyPtrIjNS_6Entity6VertexEEE;
extern struct A20 _ZTSN14OpenVolumeMesh14HandleIndexingINS_6Entity6VertexENS_18PropertyStoragePtrIjEEEE;
extern struct A21 _ZTSN14OpenVolumeMesh18PropertyStoragePtrIjEE;
extern struct S1 _ZTIN14OpenVolumeMesh18PropertyStoragePtrIjEE;
extern struct S2 _ZTIN14OpenVolumeMesh14HandleIndexingINS_6Entity6VertexENS_18PropertyStoragePtrIjEEEE;
extern struct S6 _ZTIN14OpenVolumeMesh11PropertyPtrIjNS_6Entity6VertexEEE;
extern struct S8 _ZTVN14OpenVolumeMesh14HandleIndexingINS_6Entity6VertexENS_18PropertyStoragePtrIjEEEE;
extern struct S8 _ZTVN14OpenVolumeMesh18PropertyStoragePtrIjEE;
extern struct S3 _ZTVSt23_Sp_counted_ptr_inplaceIN14OpenVolumeMesh16PropertyStorageTIjEESaIvELN9__gnu_cxx12_Lock_policyE2EE;
extern struct A22 _ZTSSt23_Sp_counted_ptr_inplaceIN14OpenVolumeMesh16PropertyStorageTIjEESaIvELN9__gnu_cxx12_Lock_policyE2EE;
extern struct S2 _ZTISt23_Sp_counted_ptr_inplaceIN14OpenVolumeMesh16PropertyStorageTIjEESaIvELN9__gnu_cxx12_Lock_policyE2EE;
extern struct S7 _ZTVN14OpenVolumeMesh16PropertyStorageTIjEE;
extern struct A14 _ZTSN14OpenVolumeMesh16PropertyStorageTIjEE;
extern struct S2 _ZTIN14OpenVolumeMesh16PropertyStorageTIjEE;
extern struct S9 _ZTVN14OpenVolumeMesh11PropertyPtrIjNS_6Entity4EdgeEEE;
extern struct A4 _ZTSN14OpenVolumeMesh11PropertyPtrIjNS_6Entity4EdgeEEE;
extern struct A23 _ZTSN14OpenVolumeMesh14HandleIndexingINS_6Entity4EdgeENS_18PropertyStoragePtrIjEEEE;
extern struct S2 _ZTIN14OpenVolumeMesh14HandleIndexingINS_6Entity4EdgeENS_18PropertyStoragePtrIjEEEE;
extern struct S6 _ZTIN14OpenVolumeMesh11PropertyPtrIjNS_6Entity4EdgeEEE;
extern struct S8 _ZTVN14OpenVolumeMesh14HandleIndexingINS_6Entity4EdgeENS_18PropertyStoragePtrIjEEEE;
extern struct S9 _ZTVN14OpenVolumeMesh11PropertyPtrIjNS_6Entity8HalfEdgeEEE;
extern struct A24 _ZTSN14OpenVolumeMesh11PropertyPtrIjNS_6Entity8HalfEdgeEEE;
extern struct A25 _ZTSN14OpenVolumeMesh14HandleIndexingINS_6Entity8HalfEdgeENS_18PropertyStoragePtrIjEEEE;
extern struct S2 _ZTIN14OpenVolumeMesh14HandleIndexingINS_6Entity8HalfEdgeENS_18PropertyStoragePtrIjEEEE;
extern struct S6 _ZTIN14OpenVolumeMesh11PropertyPtrIjNS_6Entity8HalfEdgeEEE;
extern struct S8 _ZTVN14OpenVolumeMesh14HandleIndexingINS_6Entity8HalfEdgeENS_18PropertyStoragePtrIjEEEE;
extern struct S9 _ZTVN14OpenVolumeMesh11PropertyPtrIjNS_6Entity4FaceEEE;
extern struct A4 _ZTSN14OpenVolumeMesh11PropertyPtrIjNS_6Entity4FaceEEE;
extern struct A23 _ZTSN14OpenVolumeMesh14HandleIndexingINS_6Entity4FaceENS_18PropertyStoragePtrIjEEEE;
extern struct S2 _ZTIN14OpenVolumeMesh14HandleIndexingINS_6Entity4FaceENS_18PropertyStoragePtrIjEEEE;
extern struct S6 _ZTIN14OpenVolumeMesh11PropertyPtrIjNS_6Entity4FaceEEE;
extern struct S8 _ZTVN14OpenVolumeMesh14HandleIndexingINS_6Entity4FaceENS_18PropertyStoragePtrIjEEEE;
extern struct S9 _ZTVN14OpenVolumeMesh11PropertyPtrIjNS_6Entity8HalfFaceEEE;
extern struct A24 _ZTSN14OpenVolumeMesh11PropertyPtrIjNS_6Entity8HalfFaceEEE;
extern struct A25 _ZTSN14OpenVolumeMesh14HandleIndexingINS_6Entity8HalfFaceENS_18PropertyStoragePtrIjEEEE;
extern struct S2 _ZTIN14OpenVolumeMesh14HandleIndexingINS_6Entity8HalfFaceENS_18PropertyStoragePtrIjEEEE;
extern struct S6 _ZTIN14OpenVolumeMesh11PropertyPtrIjNS_6Entity8HalfFaceEEE;
extern struct S8 _ZTVN14OpenVolumeMesh14HandleIndexingINS_6Entity8HalfFaceENS_18PropertyStoragePtrIjEEEE;
extern struct S9 _ZTVN14OpenVolumeMesh11PropertyPtrIjNS_6Entity4CellEEE;
extern struct A4 _ZTSN14OpenVolumeMesh11PropertyPtrIjNS_6Entity4CellEEE;
extern struct A23 _ZTSN14OpenVolumeMesh14HandleIndexingINS_6Entity4CellENS_18PropertyStoragePtrIjEEEE;
extern struct S2 _ZTIN14OpenVolumeMesh14HandleIndexingINS_6Entity4CellENS_18PropertyStoragePtrIjEEEE;
extern struct S6 _ZTIN14OpenVolumeMesh11PropertyPtrIjNS_6Entity4CellEEE;
extern struct S8 _ZTVN14OpenVolumeMesh14HandleIndexingINS_6Entity4CellENS_18PropertyStoragePtrIjEEEE;
extern struct S9 _ZTVN14OpenVolumeMesh11PropertyPtrIjNS_6Entity4MeshEEE;
extern struct A4 _ZTSN14OpenVolumeMesh11PropertyPtrIjNS_6Entity4MeshEEE;
extern struct A23 _ZTSN14OpenVolumeMesh14HandleIndexingINS_6Entity4MeshENS_18PropertyStoragePtrIjEEEE;
extern struct S2 _ZTIN14OpenVolumeMesh14HandleIndexingINS_6Entity4MeshENS_18PropertyStoragePtrIjEEEE;
extern struct S6 _ZTIN14OpenVolumeMesh11PropertyPtrIjNS_6Entity4MeshEEE;
extern struct S8 _ZTVN14OpenVolumeMesh14HandleIndexingINS_6Entity4MeshENS_18PropertyStoragePtrIjEEEE;
extern struct S0_class_std__ios_base__Init _ZStL8__ioinit_12;
extern struct A21 _ZTSN14OpenVolumeMesh2IO6detail11parse_errorE;
extern struct S2 _ZTIN14OpenVolumeMesh2IO6detail11parse_errorE;
extern struct S5 _ZTVN14OpenVolumeMesh2IO6detail11parse_errorE;
extern struct S0_class_std__ios_base__Init _ZStL8__ioinit_32;
extern u8* _ZTVN10__cxxabiv120__si_class_type_infoE;
extern struct A3 _ZTSN14OpenVolumeMesh2IO6detail8io_errorE;
extern u8* _ZTISt13runtime_error;
extern struct S2 _ZTIN14OpenVolumeMesh2IO6detail8io_errorE;
extern struct S0_class_std__ios_base__Init _ZStL8__ioinit_49;
extern struct A7 _str_50;
extern struct S0_class_std__ios_base__Init _ZStL8__ioinit_57;
extern u8* _ZTVN10__cxxabiv117__class_type_infoE;
extern u8 __libc_single_threaded;
extern u8* _ZTISt12bad_weak_ptr;
extern struct S5 _ZTVSt12bad_weak_ptr;
extern struct S0_class_std__ios_base__Init _ZStL8__ioinit_73;
extern u8 __dso_handle;
extern struct A26 _str_76;
void _GLOBAL__sub_I_C07_codec_short_cpp(void);
void _ZNSt8ios_base4InitC1Ev(struct S0_class_std__ios_base__Init*);
void _ZNSt8ios_base4InitD1Ev(struct S0_class_std__ios_base__Init*);
u32 __cxa_atexit(fnptr_t, u8*, u8*);
u32 __gxx_personality_v0(void);
void v_assert(u1, u8*);
void _ZdlPv(u8*);
u8* __cxa_begin_catch(u8*);
void __cxa_end_catch(void);
void v_witness(u8*);
void _ZNSt8_Rb_treeIPN14OpenVolumeMesh19PropertyStorageBaseES2_St9_IdentityIS2_ESt4lessIS2_ESaIS2_EE12_M_erase_auxESt23_Rb_tree_const_iteratorIS2_ESA_(struct S10_class_std___Rb_tree*, struct S11_struct_std___Rb_tree_node_base*, struct S11_struct_std___Rb_tree_node_base*);
void __clang_call_terminate(u8*);
void _ZNSt8_Rb_treeINSt7__cxx1112basic_stringIcSt11char_traitsIcESaIcEEESt4pairIKS5_St10shared_ptrIN14OpenVolumeMesh2IO19PropertyEncoderBaseEEESt10_Select1stISD_ESt4lessIS5_ESaISD_EE8_M_eraseEPSt13_Rb_tree_nodeISD_E(struct S10_class_std___Rb_tree*, struct S12_struct_std___Rb_tree_node*);
void _ZNSt8_Rb_treeINSt7__cxx1112basic_stringIcSt11char_traitsIcESaIcEEESt4pairIKS5_St10shared_ptrIN14OpenVolumeMesh2IO19PropertyDecoderBaseEEESt10_Select1stISD_ESt4lessIS5_ESaISD_EE8_M_eraseEPSt13_Rb_tree_nodeISD_E(struct S10_class_std___Rb_tree*, struct S12_struct_std___Rb_tree_node*);
void _ZNSt16_Sp_counted_baseILN9__gnu_cxx12_Lock_policyE2EE24_M_release_last_use_coldEv(struct S13_class_std___Sp_counted_base*);
void _ZSt9terminatev(void);
void _ZNSt8_Rb_treeIPN14OpenVolumeMesh19PropertyStorageBaseES2_St9_IdentityIS2_ESt4lessIS2_ESaIS2_EE8_M_eraseEPSt13_Rb_tree_nodeIS2_E(struct S10_class_std___Rb_tree*, struct S14_struct_std___Rb_tree_node_64*);
void _ZN14OpenVolumeMesh6detail7TrackedINS_19PropertyStorageBaseEED2Ev(struct S15_class_OpenVolumeMesh__detail__Tracked*);
void _ZN14OpenVolumeMesh6detail7TrackedINS_19PropertyStorageBaseEED0Ev(struct S15_class_OpenVolumeMesh__detail__Tracked*);
void _ZN14OpenVolumeMesh19PropertyStorageBaseD2Ev(struct S16_class_OpenVolumeMesh__PropertyStorageBas*);
void _ZN14OpenVolumeMesh19PropertyStorageBaseD0Ev(struct S16_class_OpenVolumeMesh__PropertyStorageBas*);
void __cxa_pure_virtual(void);
void _ZNK14OpenVolumeMesh19PropertyStorageBase9serializeERSo(struct S16_class_OpenVolumeMesh__PropertyStorageBas*, struct S17_class_std__basic_ostream*);
void _ZN14OpenVolumeMesh19PropertyStorageBase11deserializeERSi(struct S16_class_OpenVolumeMesh__PropertyStorageBas*, struct S18_class_std__basic_istream*);
u8* _Znwm(u64);
u32 bcmp(u8*, u8*, u64);
u8* __cxa_allocate_exception(u64);
void _ZNSt8bad_castD1Ev(struct S19_class_std__bad_cast*);
void __cxa_throw(u8*, u8*, u8*);
void _ZNSt13runtime_errorC1EPKc(struct S20_class_std__runtime_error*, u8*);
void _ZNSt13runtime_errorD1Ev(struct S20_class_std__runtime_error*);
void __cxa_free_exception(u8*);
void _ZNSt12bad_weak_ptrD1Ev(struct S19_class_std__bad_cast*);
void _ZN14OpenVolumeMesh15BasePropertyPtrD2Ev(struct S21_class_OpenVolumeMesh__IO__PropertyDecode*);
void _ZN14OpenVolumeMesh15BasePropertyPtrD0Ev(struct S21_class_OpenVolumeMesh__IO__PropertyDecode*);
struct S17_class_std__basic_ostream* _ZNSo3putEc(struct S17_class_std__basic_ostream*, u8);
void _ZSt16__throw_bad_castv(void);
void _ZNKSt5ctypeIcE13_M_widen_initEv(struct S22_class_std__ctype*);
struct S17_class_std__basic_ostream* _ZNSo5flushEv(struct S17_class_std__basic_ostream*);
void _ZN14OpenVolumeMesh19PropertyStorageBaseC2ERKS0_(struct S16_class_OpenVolumeMesh__PropertyStorageBas*, struct S16_class_OpenVolumeMesh__PropertyStorageBas*);
struct S23 _ZNSt8_Rb_treeIPN14OpenVolumeMesh19PropertyStorageBaseES2_St9_IdentityIS2_ESt4lessIS2_ESaIS2_EE16_M_insert_uniqueIRKS2_EESt4pairISt17_Rb_tree_iteratorIS2_EbEOT_(struct S10_class_std___Rb_tree*, struct S16_class_OpenVolumeMesh__PropertyStorageBas**);
void _ZNSt23enable_shared_from_thisIN14OpenVolumeMesh19PropertyStorageBaseEED2Ev(struct S24_class_std__enable_shared_from_this*);
void _ZNSt16_Sp_counted_baseILN9__gnu_cxx12_Lock_policyE2EED2Ev(struct S13_class_std___Sp_counted_base*);
u32 strcmp(u8*, u8*);
void _ZNSt16_Sp_counted_baseILN9__gnu_cxx12_Lock_policyE2EED0Ev(struct S13_class_std___Sp_counted_base*);
void _ZNSt16_Sp_counted_baseILN9__gnu_cxx12_Lock_policyE2EE10_M_destroyEv(struct S13_class_std___Sp_counted_base*);
struct S25_class_std__shared_ptr_19* _ZNSt3mapINSt7__cxx1112basic_stringIcSt11char_traitsIcESaIcEEESt10shared_ptrIN14OpenVolumeMesh2IO19PropertyEncoderBaseEESt4lessIS5_ESaISt4pairIKS5_SA_EEEixEOS5_(struct S26_class_std__map*, struct S27_class_std____cxx11__basic_string*);
struct S28_class_std__shared_ptr_25* _ZNSt3mapINSt7__cxx1112basic_stringIcSt11char_traitsIcESaIcEEESt10shared_ptrIN14OpenVolumeMesh2IO19PropertyDecoderBaseEESt4lessIS5_ESaISt4pairIKS5_SA_EEEixERSE_(struct S26_class_std__map*, struct S27_class_std____cxx11__basic_string*);
u32 memcmp(u8*, u8*, u64);
struct S11_struct_std___Rb_tree_node_base* _ZNSt8_Rb_treeINSt7__cxx1112basic_stringIcSt11char_traitsIcESaIcEEESt4pairIKS5_St10shared_ptrIN14OpenVolumeMesh2IO19PropertyDecoderBaseEEESt10_Select1stISD_ESt4lessIS5_ESaISD_EE22_M_emplace_hint_uniqueIJRKSt21piecewise_construct_tSt5tupleIJRS7_EESO_IJEEEEESt17_Rb_tree_iteratorISD_ESt23_Rb_tree_const_iteratorISD_EDpOT_(struct S10_class_std___Rb_tree*, struct S11_struct_std___Rb_tree_node_base*, struct S0_class_std__ios_base__Init*, struct S29_class_std__tuple_166*, struct S0_class_std__ios_base__Init*);
void _ZNSt8_Rb_treeINSt7__cxx1112basic_stringIcSt11char_traitsIcESaIcEEESt4pairIKS5_St10shared_ptrIN14OpenVolumeMesh2IO19PropertyDecoderBaseEEESt10_Select1stISD_ESt4lessIS5_ESaISD_EE17_M_construct_nodeIJRKSt21piecewise_construct_tSt5tupleIJRS7_EESO_IJEEEEEvPSt13_Rb_tree_nodeISD_EDpOT_(struct S10_class_std___Rb_tree*, struct S12_struct_std___Rb_tree_node*, struct S0_class_std__ios_base__Init*, struct S29_class_std__tuple_166*, struct S0_class_std__ios_base__Init*);
struct S30 _ZNSt8_Rb_treeINSt7__cxx1112basic_stringIcSt11char_traitsIcESaIcEEESt4pairIKS5_St10shared_ptrIN14OpenVolumeMesh2IO19PropertyDecoderBaseEEESt10_Select1stISD_ESt4lessIS5_ESaISD_EE29_M_get_insert_hint_unique_posESt23_Rb_tree_const_iteratorISD_ERS7_(struct S10_class_std___Rb_tree*, struct S11_struct_std___Rb_tree_node_base*, struct S27_class_std____cxx11__basic_string*);
void _ZNSt8_Rb_treeINSt7__cxx1112basic_stringIcSt11char_traitsIcESaIcEEESt4pairIKS5_St10shared_ptrIN14OpenVolumeMesh2IO19PropertyDecoderBaseEEESt10_Select1stISD_ESt4lessIS5_ESaISD_EE10_Auto_nodeD2Ev(struct S31_struct_std___Rb_tree_std____cxx11__basic*);
struct S30 _ZNSt8_Rb_treeINSt7__cxx1112basic_stringIcSt11char_traitsIcESaIcEEESt4pairIKS5_St10shared_ptrIN14OpenVolumeMesh2IO19PropertyDecoderBaseEEESt10_Select1stISD_ESt4lessIS5_ESaISD_EE24_M_get_insert_unique_posERS7_(struct S10_class_std___Rb_tree*, struct S27_class_std____cxx11__basic_string*);
void __cxa_rethrow(void);
void _ZN14OpenVolumeMesh2IO19PropertyDecoderBaseD2Ev(struct S21_class_OpenVolumeMesh__IO__PropertyDecode*);
void _ZN14OpenVolumeMesh2IO6detail11parse_errorCI2St13runtime_errorEPKc(struct S32_class_OpenVolumeMesh__IO__detail__parse_*, u8*);
void _ZNSt13runtime_errorD2Ev(struct S20_class_std__runtime_error*);
void _ZNSt13runtime_errorC2EPKc(struct S20_class_std__runtime_error*, u8*);
void _ZN14OpenVolumeMesh2IO6detail11parse_errorD0Ev(struct S32_class_OpenVolumeMesh__IO__detail__parse_*);
u8* _ZNKSt13runtime_error4whatEv(struct S20_class_std__runtime_error*);
struct S23 _ZNSt8_Rb_treeISt10shared_ptrIN14OpenVolumeMesh19PropertyStorageBaseEES3_St9_IdentityIS3_ESt4lessIS3_ESaIS3_EE16_M_insert_uniqueIRKS3_EESt4pairISt17_Rb_tree_iteratorIS3_EbEOT_(struct S10_class_std___Rb_tree*, struct S33_class_std__weak_ptr*);
void _ZNSt8_Rb_treeISt10shared_ptrIN14OpenVolumeMesh19PropertyStorageBaseEES3_St9_IdentityIS3_ESt4lessIS3_ESaIS3_EE12_M_erase_auxESt23_Rb_tree_const_iteratorIS3_ESB_(struct S10_class_std___Rb_tree*, struct S11_struct_std___Rb_tree_node_base*, struct S11_struct_std___Rb_tree_node_base*);
void _ZNSt12__shared_ptrIN14OpenVolumeMesh19PropertyStorageBaseELN9__gnu_cxx12_Lock_policyE2EED2Ev(struct S34_class_std____weak_ptr*);
void _ZNSt8_Rb_treeISt10shared_ptrIN14OpenVolumeMesh19PropertyStorageBaseEES3_St9_IdentityIS3_ESt4lessIS3_ESaIS3_EE8_M_eraseEPSt13_Rb_tree_nodeIS3_E(struct S10_class_std___Rb_tree*, struct S35_struct_std___Rb_tree_node_84*);
struct S11_struct_std___Rb_tree_node_base* _ZNSt8_Rb_treeINSt7__cxx1112basic_stringIcSt11char_traitsIcESaIcEEESt4pairIKS5_St10shared_ptrIN14OpenVolumeMesh2IO19PropertyEncoderBaseEEESt10_Select1stISD_ESt4lessIS5_ESaISD_EE22_M_emplace_hint_uniqueIJRKSt21piecewise_construct_tSt5tupleIJOS5_EESO_IJEEEEESt17_Rb_tree_iteratorISD_ESt23_Rb_tree_const_iteratorISD_EDpOT_(struct S10_class_std___Rb_tree*, struct S11_struct_std___Rb_tree_node_base*, struct S0_class_std__ios_base__Init*, struct S29_class_std__tuple_166*, struct S0_class_std__ios_base__Init*);
struct S30 _ZNSt8_Rb_treeINSt7__cxx1112basic_stringIcSt11char_traitsIcESaIcEEESt4pairIKS5_St10shared_ptrIN14OpenVolumeMesh2IO19PropertyEncoderBaseEEESt10_Select1stISD_ESt4lessIS5_ESaISD_EE29_M_get_insert_hint_unique_posESt23_Rb_tree_const_iteratorISD_ERS7_(struct S10_class_std___Rb_tree*, struct S11_struct_std___Rb_tree_node_base*, struct S27_class_std____cxx11__basic_string*);
void _ZNSt8_Rb_treeINSt7__cxx1112basic_stringIcSt11char_traitsIcESaIcEEESt4pairIKS5_St10shared_ptrIN14OpenVolumeMesh2IO19PropertyEncoderBaseEEESt10_Select1stISD_ESt4lessIS5_ESaISD_EE10_Auto_nodeD2Ev(struct S31_struct_std___Rb_tree_std____cxx11__basic*);
struct S30 _ZNSt8_Rb_treeINSt7__cxx1112basic_stringIcSt11char_traitsIcESaIcEEESt4pairIKS5_St10shared_ptrIN14OpenVolumeMesh2IO19PropertyEncoderBaseEEESt10_Select1stISD_ESt4lessIS5_ESaISD_EE24_M_get_insert_unique_posERS7_(struct S10_class_std___Rb_tree*, struct S27_class_std____cxx11__basic_string*);
void _ZN14OpenVolumeMesh2IO19PropertyEncoderBaseD2Ev(struct S36_class_OpenVolumeMesh__IO__PropertyEncode*);
void _ZN14OpenVolumeMesh2IO19PropertyEncoderBaseD0Ev(struct S36_class_OpenVolumeMesh__IO__PropertyEncode*);
u8 v_nondet_u8(void);
struct S17_class_std__basic_ostream* _ZNSo9_M_insertImEERSoT_(struct S17_class_std__basic_ostream*, u64);
void harness_deser_short_u32(void);
struct S21_class_OpenVolumeMesh__IO__PropertyDecode* _ZL9lookup_idILi3EEPKN14OpenVolumeMesh2IO19PropertyDecoderBaseERNS1_14PropertyCodecsE(struct S37_class_OpenVolumeMesh__IO__PropertyCodecs*);
void _ZN14OpenVolumeMesh16PropertyStorageTIjEC2EPNS_6detail7TrackerINS_19PropertyStorageBaseEEENSt7__cxx1112basic_stringIcSt11char_traitsIcESaIcEEENS_10EntityTypeEjb(struct S38_class_OpenVolumeMesh__PropertyStorageT_3*, struct S39_class_OpenVolumeMesh__detail__Tracker*, struct S27_class_std____cxx11__basic_string*, u8, u32, u1);
void _ZNSt6vectorIjSaIjEE14_M_fill_insertEN9__gnu_cxx17__normal_iteratorIPjS1_EEmRKj(struct S40_class_std__vector_322*, u32*, u64, u32*);
void _ZN14OpenVolumeMesh16PropertyStorageTIjED2Ev(struct S38_class_OpenVolumeMesh__PropertyStorageT_3*);
void _ZN14OpenVolumeMesh16PropertyStorageTIjED0Ev(struct S38_class_OpenVolumeMesh__PropertyStorageT_3*);
void _ZN14OpenVolumeMesh16PropertyStorageTIjE7reserveEm(struct S38_class_OpenVolumeMesh__PropertyStorageT_3*, u64);
void _ZN14OpenVolumeMesh16PropertyStorageTIjE6resizeEm(struct S38_class_OpenVolumeMesh__PropertyStorageT_3*, u64);
u64 _ZNK14OpenVolumeMesh16PropertyStorageTIjE4sizeEv(struct S38_class_OpenVolumeMesh__PropertyStorageT_3*);
void _ZN14OpenVolumeMesh16PropertyStorageTIjE5clearEv(struct S38_class_OpenVolumeMesh__PropertyStorageT_3*);
void _ZN14OpenVolumeMesh16PropertyStorageTIjE9push_backEv(struct S38_class_OpenVolumeMesh__PropertyStorageT_3*);
void _ZN14OpenVolumeMesh16PropertyStorageTIjE4swapEmm(struct S38_class_OpenVolumeMesh__PropertyStorageT_3*, u64, u64);
void _ZN14OpenVolumeMesh16PropertyStorageTIjE4copyEmm(struct S38_class_OpenVolumeMesh__PropertyStorageT_3*, u64, u64);
void _ZN14OpenVolumeMesh16PropertyStorageTIjE14delete_elementEm(struct S38_class_OpenVolumeMesh__PropertyStorageT_3*, u64);
void _ZNK14OpenVolumeMesh16PropertyStorageTIjE5cloneEv(struct S33_class_std__weak_ptr*, struct S38_class_OpenVolumeMesh__PropertyStorageT_3*);
void _ZNK14OpenVolumeMesh16PropertyStorageTIjE15typeNameWrapperB5cxx11Ev(struct S27_class_std____cxx11__basic_string*, struct S38_class_OpenVolumeMesh__PropertyStorageT_3*);
void _ZNK14OpenVolumeMesh16PropertyStorageTIjE9serializeERSo(struct S38_class_OpenVolumeMesh__PropertyStorageT_3*, struct S17_class_std__basic_ostream*);
void _ZN14OpenVolumeMesh16PropertyStorageTIjE11deserializeERSi(struct S38_class_OpenVolumeMesh__PropertyStorageT_3*, struct S18_class_std__basic_istream*);
void _ZN14OpenVolumeMesh16PropertyStorageTIjE17make_property_ptrEv(struct S41_class_std__unique_ptr*, struct S38_class_OpenVolumeMesh__PropertyStorageT_3*);
void _ZN14OpenVolumeMesh16PropertyStorageTIjE18assign_values_fromEPKNS_19PropertyStorageBaseE(struct S38_class_OpenVolumeMesh__PropertyStorageT_3*, struct S16_class_OpenVolumeMesh__PropertyStorageBas*);
void _ZN14OpenVolumeMesh16PropertyStorageTIjE16move_values_fromEPNS_19PropertyStorageBaseE(struct S38_class_OpenVolumeMesh__PropertyStorageT_3*, struct S16_class_OpenVolumeMesh__PropertyStorageBas*);
struct S38_class_OpenVolumeMesh__PropertyStorageT_3* _ZN14OpenVolumeMesh19PropertyStorageBase16cast_to_StorageTIjEEPNS_16PropertyStorageTIT_EEv(struct S16_class_OpenVolumeMesh__PropertyStorageBas*);
struct S40_class_std__vector_322* _ZNSt6vectorIjSaIjEEaSERKS1_(struct S40_class_std__vector_322*, struct S40_class_std__vector_322*);
struct S38_class_OpenVolumeMesh__PropertyStorageT_3* _ZNK14OpenVolumeMesh19PropertyStorageBase16cast_to_StorageTIjEEPKNS_16PropertyStorageTIT_EEv(struct S16_class_OpenVolumeMesh__PropertyStorageBas*);
void _ZN14OpenVolumeMesh18entitytag_dispatchIZNS_16PropertyStorageTIjE17make_property_ptrEvEUlT_E_JEEEDaNS_10EntityTypeES3_DpT0_(struct S41_class_std__unique_ptr*, u8, struct S38_class_OpenVolumeMesh__PropertyStorageT_3*);
void _ZZN14OpenVolumeMesh16PropertyStorageTIjE17make_property_ptrEvENKUlT_E_clINS_6Entity6VertexEEEDaS2_(struct S41_class_std__unique_ptr*, struct S42_class_anon_445*);
void _ZZN14OpenVolumeMesh16PropertyStorageTIjE17make_property_ptrEvENKUlT_E_clINS_6Entity4EdgeEEEDaS2_(struct S41_class_std__unique_ptr*, struct S42_class_anon_445*);
void _ZZN14OpenVolumeMesh16PropertyStorageTIjE17make_property_ptrEvENKUlT_E_clINS_6Entity8HalfEdgeEEEDaS2_(struct S41_class_std__unique_ptr*, struct S42_class_anon_445*);
void _ZZN14OpenVolumeMesh16PropertyStorageTIjE17make_property_ptrEvENKUlT_E_clINS_6Entity4FaceEEEDaS2_(struct S41_class_std__unique_ptr*, struct S42_class_anon_445*);
void _ZZN14OpenVolumeMesh16PropertyStorageTIjE17make_property_ptrEvENKUlT_E_clINS_6Entity8HalfFaceEEEDaS2_(struct S41_class_std__unique_ptr*, struct S42_class_anon_445*);
void _ZZN14OpenVolumeMesh16PropertyStorageTIjE17make_property_ptrEvENKUlT_E_clINS_6Entity4CellEEEDaS2_(struct S41_class_std__unique_ptr*, struct S42_class_anon_445*);
void _ZZN14OpenVolumeMesh16PropertyStorageTIjE17make_property_ptrEvENKUlT_E_clINS_6Entity4MeshEEEDaS2_(struct S41_class_std__unique_ptr*, struct S42_class_anon_445*);
void _ZNSt12__shared_ptrIN14OpenVolumeMesh16PropertyStorageTIjEELN9__gnu_cxx12_Lock_policyE2EED2Ev(struct S43_class_std____shared_ptr_349*);
void _ZN14OpenVolumeMesh11PropertyPtrIjNS_6Entity4MeshEED2Ev(struct S44_class_OpenVolumeMesh__PropertyPtr_431*);
void _ZN14OpenVolumeMesh11PropertyPtrIjNS_6Entity4MeshEED0Ev(struct S44_class_OpenVolumeMesh__PropertyPtr_431*);
struct S27_class_std____cxx11__basic_string* _ZNKR14OpenVolumeMesh11PropertyPtrIjNS_6Entity4MeshEE4nameB5cxx11Ev(struct S44_class_OpenVolumeMesh__PropertyPtr_431*);
void _ZThn24_N14OpenVolumeMesh11PropertyPtrIjNS_6Entity4MeshEED1Ev(struct S44_class_OpenVolumeMesh__PropertyPtr_431*);
void _ZThn24_N14OpenVolumeMesh11PropertyPtrIjNS_6Entity4MeshEED0Ev(struct S44_class_OpenVolumeMesh__PropertyPtr_431*);
struct S27_class_std____cxx11__basic_string* _ZThn24_NKR14OpenVolumeMesh11PropertyPtrIjNS_6Entity4MeshEE4nameB5cxx11Ev(struct S44_class_OpenVolumeMesh__PropertyPtr_431*);
void _ZN14OpenVolumeMesh18PropertyStoragePtrIjED2Ev(struct S45_class_OpenVolumeMesh__PropertyStoragePtr*);
void _ZN14OpenVolumeMesh14HandleIndexingINS_6Entity4MeshENS_18PropertyStoragePtrIjEEED0Ev(struct S46_class_OpenVolumeMesh__HandleIndexing_432*);
void _ZN14OpenVolumeMesh18PropertyStoragePtrIjED0Ev(struct S45_class_OpenVolumeMesh__PropertyStoragePtr*);
void _ZN14OpenVolumeMesh11PropertyPtrIjNS_6Entity4CellEED2Ev(struct S44_class_OpenVolumeMesh__PropertyPtr_431*);
void _ZN14OpenVolumeMesh11PropertyPtrIjNS_6Entity4CellEED0Ev(struct S44_class_OpenVolumeMesh__PropertyPtr_431*);
struct S27_class_std____cxx11__basic_string* _ZNKR14OpenVolumeMesh11PropertyPtrIjNS_6Entity4CellEE4nameB5cxx11Ev(struct S44_class_OpenVolumeMesh__PropertyPtr_431*);
void _ZThn24_N14OpenVolumeMesh11PropertyPtrIjNS_6Entity4CellEED1Ev(struct S44_class_OpenVolumeMesh__PropertyPtr_431*);
void _ZThn24_N14OpenVolumeMesh11PropertyPtrIjNS_6Entity4CellEED0Ev(struct S44_class_OpenVolumeMesh__PropertyPtr_431*);
struct S27_class_std____cxx11__basic_string* _ZThn24_NKR14OpenVolumeMesh11PropertyPtrIjNS_6Entity4CellEE4nameB5cxx11Ev(struct S44_class_OpenVolumeMesh__PropertyPtr_431*);
void _ZN14OpenVolumeMesh14HandleIndexingINS_6Entity4CellENS_18PropertyStoragePtrIjEEED0Ev(struct S46_class_OpenVolumeMesh__HandleIndexing_432*);
void _ZN14OpenVolumeMesh11PropertyPtrIjNS_6Entity8HalfFaceEED2Ev(struct S44_class_OpenVolumeMesh__PropertyPtr_431*);
void _ZN14OpenVolumeMesh11PropertyPtrIjNS_6Entity8HalfFaceEED0Ev(struct S44_class_OpenVolumeMesh__PropertyPtr_431*);
struct S27_class_std____cxx11__basic_string* _ZNKR14OpenVolumeMesh11PropertyPtrIjNS_6Entity8HalfFaceEE4nameB5cxx11Ev(struct S44_class_OpenVolumeMesh__PropertyPtr_431*);
void _ZThn24_N14OpenVolumeMesh11PropertyPtrIjNS_6Entity8HalfFaceEED1Ev(struct S44_class_OpenVolumeMesh__PropertyPtr_431*);
void _ZThn24_N14OpenVolumeMesh11PropertyPtrIjNS_6Entity8HalfFaceEED0Ev(struct S44_class_OpenVolumeMesh__PropertyPtr_431*);
struct S27_class_std____cxx11__basic_string* _ZThn24_NKR14OpenVolumeMesh11PropertyPtrIjNS_6Entity8HalfFaceEE4nameB5cxx11Ev(struct S44_class_OpenVolumeMesh__PropertyPtr_431*);
void _ZN14OpenVolumeMesh14HandleIndexingINS_6Entity8HalfFaceENS_18PropertyStoragePtrIjEEED0Ev(struct S46_class_OpenVolumeMesh__HandleIndexing_432*);
void _ZN14OpenVolumeMesh11PropertyPtrIjNS_6Entity4FaceEED2Ev(struct S44_class_OpenVolumeMesh__PropertyPtr_431*);
void _ZN14OpenVolumeMesh11PropertyPtrIjNS_6Entity4FaceEED0Ev(struct S44_class_OpenVolumeMesh__PropertyPtr_431*);
struct S27_class_std____cxx11__basic_string* _ZNKR14OpenVolumeMesh11PropertyPtrIjNS_6Entity4FaceEE4nameB5cxx11Ev(struct S44_class_OpenVolumeMesh__PropertyPtr_431*);
void _ZThn24_N14OpenVolumeMesh11PropertyPtrIjNS_6Entity4FaceEED1Ev(struct S44_class_OpenVolumeMesh__PropertyPtr_431*);
void _ZThn24_N14OpenVolumeMesh11PropertyPtrIjNS_6Entity4FaceEED0Ev(struct S44_class_OpenVolumeMesh__PropertyPtr_431*);
struct S27_class_std____cxx11__basic_string* _ZThn24_NKR14OpenVolumeMesh11PropertyPtrIjNS_6Entity4FaceEE4nameB5cxx11Ev(struct S44_class_OpenVolumeMesh__PropertyPtr_431*);
void _ZN14OpenVolumeMesh14HandleIndexingINS_6Entity4FaceENS_18PropertyStoragePtrIjEEED0Ev(struct S46_class_OpenVolumeMesh__HandleIndexing_432*);
void _ZN14OpenVolumeMesh11PropertyPtrIjNS_6Entity8HalfEdgeEED2Ev(struct S44_class_OpenVolumeMesh__PropertyPtr_431*);
void _ZN14OpenVolumeMesh11PropertyPtrIjNS_6Entity8HalfEdgeEED0Ev(struct S44_class_OpenVolumeMesh__PropertyPtr_431*);
struct S27_class_std____cxx11__basic_string* _ZNKR14OpenVolumeMesh11PropertyPtrIjNS_6Entity8HalfEdgeEE4nameB5cxx11Ev(struct S44_class_OpenVolumeMesh__PropertyPtr_431*);
void _ZThn24_N14OpenVolumeMesh11PropertyPtrIjNS_6Entity8HalfEdgeEED1Ev(struct S44_class_OpenVolumeMesh__PropertyPtr_431*);
void _ZThn24_N14OpenVolumeMesh11PropertyPtrIjNS_6Entity8HalfEdgeEED0Ev(struct S44_class_OpenVolumeMesh__PropertyPtr_431*);
struct S27_class_std____cxx11__basic_string* _ZThn24_NKR14OpenVolumeMesh11PropertyPtrIjNS_6Entity8HalfEdgeEE4nameB5cxx11Ev(struct S44_class_OpenVolumeMesh__PropertyPtr_431*);
void _ZN14OpenVolumeMesh14HandleIndexingINS_6Entity8HalfEdgeENS_18PropertyStoragePtrIjEEED0Ev(struct S46_class_OpenVolumeMesh__HandleIndexing_432*);
void _ZN14OpenVolumeMesh11PropertyPtrIjNS_6Entity4EdgeEED2Ev(struct S44_class_OpenVolumeMesh__PropertyPtr_431*);
void _ZN14OpenVolumeMesh11PropertyPtrIjNS_6Entity4EdgeEED0Ev(struct S44_class_OpenVolumeMesh__PropertyPtr_431*);
struct S27_class_std____cxx11__basic_string* _ZNKR14OpenVolumeMesh11PropertyPtrIjNS_6Entity4EdgeEE4nameB5cxx11Ev(struct S44_class_OpenVolumeMesh__PropertyPtr_431*);
void _ZThn24_N14OpenVolumeMesh11PropertyPtrIjNS_6Entity4EdgeEED1Ev(struct S44_class_OpenVolumeMesh__PropertyPtr_431*);
void _ZThn24_N14OpenVolumeMesh11PropertyPtrIjNS_6Entity4EdgeEED0Ev(struct S44_class_OpenVolumeMesh__PropertyPtr_431*);
struct S27_class_std____cxx11__basic_string* _ZThn24_NKR14OpenVolumeMesh11PropertyPtrIjNS_6Entity4EdgeEE4nameB5cxx11Ev(struct S44_class_OpenVolumeMesh__PropertyPtr_431*);
void _ZN14OpenVolumeMesh14HandleIndexingINS_6Entity4EdgeENS_18PropertyStoragePtrIjEEED0Ev(struct S46_class_OpenVolumeMesh__HandleIndexing_432*);
void _ZN14OpenVolumeMesh11PropertyPtrIjNS_6Entity6VertexEED2Ev(struct S44_class_OpenVolumeMesh__PropertyPtr_431*);
void _ZN14OpenVolumeMesh11PropertyPtrIjNS_6Entity6VertexEED0Ev(struct S44_class_OpenVolumeMesh__PropertyPtr_431*);
struct S27_class_std____cxx11__basic_string* _ZNKR14OpenVolumeMesh11PropertyPtrIjNS_6Entity6VertexEE4nameB5cxx11Ev(struct S44_class_OpenVolumeMesh__PropertyPtr_431*);
void _ZThn24_N14OpenVolumeMesh11PropertyPtrIjNS_6Entity6VertexEED1Ev(struct S44_class_OpenVolumeMesh__PropertyPtr_431*);
void _ZThn24_N14OpenVolumeMesh11PropertyPtrIjNS_6Entity6VertexEED0Ev(struct S44_class_OpenVolumeMesh__PropertyPtr_431*);
struct S27_class_std____cxx11__basic_string* _ZThn24_NKR14OpenVolumeMesh11PropertyPtrIjNS_6Entity6VertexEE4nameB5cxx11Ev(struct S44_class_OpenVolumeMesh__PropertyPtr_431*);
void _ZN14OpenVolumeMesh14HandleIndexingINS_6Entity6VertexENS_18PropertyStoragePtrIjEEED0Ev(struct S46_class_OpenVolumeMesh__HandleIndexing_432*);
struct S18_class_std__basic_istream* _ZNSi10_M_extractIjEERSiRT_(struct S18_class_std__basic_istream*, u32*);
void _ZN14OpenVolumeMesh8typeNameIjEEKNSt7__cxx1112basic_stringIcSt11char_traitsIcESaIcEEEv(struct S27_class_std____cxx11__basic_string*);
void _ZNSt12__shared_ptrIN14OpenVolumeMesh16PropertyStorageTIjEELN9__gnu_cxx12_Lock_policyE2EEC2ISaIvEJRKS2_EEESt20_Sp_alloc_shared_tagIT_EDpOT0_(struct S43_class_std____shared_ptr_349*, struct S0_class_std__ios_base__Init*, struct S38_class_OpenVolumeMesh__PropertyStorageT_3*);
void _ZSt10_ConstructIN14OpenVolumeMesh16PropertyStorageTIjEEJRKS2_EEvPT_DpOT0_(struct S38_class_OpenVolumeMesh__PropertyStorageT_3*, struct S38_class_OpenVolumeMesh__PropertyStorageT_3*);
void _ZNSt23_Sp_counted_ptr_inplaceIN14OpenVolumeMesh16PropertyStorageTIjEESaIvELN9__gnu_cxx12_Lock_policyE2EED0Ev(struct S47_class_std___Sp_counted_ptr_inplace_70*);
void _ZNSt23_Sp_counted_ptr_inplaceIN14OpenVolumeMesh16PropertyStorageTIjEESaIvELN9__gnu_cxx12_Lock_policyE2EE10_M_disposeEv(struct S47_class_std___Sp_counted_ptr_inplace_70*);
void _ZNSt23_Sp_counted_ptr_inplaceIN14OpenVolumeMesh16PropertyStorageTIjEESaIvELN9__gnu_cxx12_Lock_policyE2EE10_M_destroyEv(struct S47_class_std___Sp_counted_ptr_inplace_70*);
u8* _ZNSt23_Sp_counted_ptr_inplaceIN14OpenVolumeMesh16PropertyStorageTIjEESaIvELN9__gnu_cxx12_Lock_policyE2EE14_M_get_deleterERKSt9type_info(struct S47_class_std___Sp_counted_ptr_inplace_70*, struct S48_class_std__type_info*);
void _ZNSt6vectorIjSaIjEE17_M_realloc_insertIJRKjEEEvN9__gnu_cxx17__normal_iteratorIPjS1_EEDpOT_(struct S40_class_std__vector_322*, u32*, u32*);
void _ZN14OpenVolumeMesh2IO14PropertyCodecs14register_codecINS0_6Codecs15SimplePropCodecINS3_9PrimitiveIjEEEEEEvRKNSt7__cxx1112basic_stringIcSt11char_traitsIcESaIcEEE(struct S37_class_OpenVolumeMesh__IO__PropertyCodecs*, struct S27_class_std____cxx11__basic_string*);
void _ZNSt23_Sp_counted_ptr_inplaceIN14OpenVolumeMesh2IO16PropertyEncoderTIjNS1_6Codecs15SimplePropCodecINS3_9PrimitiveIjEEEEEESaIvELN9__gnu_cxx12_Lock_policyE2EEC2IJRKNSt7__cxx1112basic_stringIcSt11char_traitsIcESaIcEEEEEES9_DpOT_(struct S49_class_std___Sp_counted_ptr_inplace*, struct S27_class_std____cxx11__basic_string*);
void _ZNSt12__shared_ptrIN14OpenVolumeMesh2IO16PropertyEncoderTIjNS1_6Codecs15SimplePropCodecINS3_9PrimitiveIjEEEEEELN9__gnu_cxx12_Lock_policyE2EED2Ev(struct S50_class_std____shared_ptr*);
void _ZNSt12__shared_ptrIN14OpenVolumeMesh2IO16PropertyDecoderTIjNS1_6Codecs15SimplePropCodecINS3_9PrimitiveIjEEEEEELN9__gnu_cxx12_Lock_policyE2EED2Ev(struct S51_class_std____shared_ptr_23*);
void _ZN14OpenVolumeMesh2IO16PropertyDecoderTIjNS0_6Codecs15SimplePropCodecINS2_9PrimitiveIjEEEEED0Ev(struct S19_class_std__bad_cast*);
void _ZNK14OpenVolumeMesh2IO16PropertyDecoderTIjNS0_6Codecs15SimplePropCodecINS2_9PrimitiveIjEEEEE16request_propertyERNS_15ResourceManagerENS_10EntityTypeERKNSt7__cxx1112basic_stringIcSt11char_traitsIcESaIcEEERKSt6vectorIhSaIhEE(struct S33_class_std__weak_ptr*, struct S19_class_std__bad_cast*, struct S52_class_OpenVolumeMesh__ResourceManager*, u8, struct S27_class_std____cxx11__basic_string*, struct S53_class_std__vector*);
void _ZNK14OpenVolumeMesh2IO16PropertyDecoderTIjNS0_6Codecs15SimplePropCodecINS2_9PrimitiveIjEEEEE11deserializeEPNS_19PropertyStorageBaseERNS0_6detail7DecoderEmm(struct S19_class_std__bad_cast*, struct S16_class_OpenVolumeMesh__PropertyStorageBas*, struct S54_class_OpenVolumeMesh__IO__detail__Decode*, u64, u64);
void _ZN14OpenVolumeMesh18entitytag_dispatchIZNKS_2IO16PropertyDecoderTIjNS1_6Codecs15SimplePropCodecINS3_9PrimitiveIjEEEEE16request_propertyERNS_15ResourceManagerENS_10EntityTypeERKNSt7__cxx1112basic_stringIcSt11char_traitsIcESaIcEEERKSt6vectorIhSaIhEEEUlT_E_JEEEDaSB_SP_DpT0_(struct S55_class_std__shared_ptr_348*, u8, struct S56_class_anon_351*);
void _ZZNK14OpenVolumeMesh2IO16PropertyDecoderTIjNS0_6Codecs15SimplePropCodecINS2_9PrimitiveIjEEEEE16request_propertyERNS_15ResourceManagerENS_10EntityTypeERKNSt7__cxx1112basic_stringIcSt11char_traitsIcESaIcEEERKSt6vectorIhSaIhEEENKUlT_E_clINS_6Entity6VertexEEEDaSO_(struct S55_class_std__shared_ptr_348*, struct S56_class_anon_351*);
void _ZZNK14OpenVolumeMesh2IO16PropertyDecoderTIjNS0_6Codecs15SimplePropCodecINS2_9PrimitiveIjEEEEE16request_propertyERNS_15ResourceManagerENS_10EntityTypeERKNSt7__cxx1112basic_stringIcSt11char_traitsIcESaIcEEERKSt6vectorIhSaIhEEENKUlT_E_clINS_6Entity4EdgeEEEDaSO_(struct S55_class_std__shared_ptr_348*, struct S56_class_anon_351*);
void _ZZNK14OpenVolumeMesh2IO16PropertyDecoderTIjNS0_6Codecs15SimplePropCodecINS2_9PrimitiveIjEEEEE16request_propertyERNS_15ResourceManagerENS_10EntityTypeERKNSt7__cxx1112basic_stringIcSt11char_traitsIcESaIcEEERKSt6vectorIhSaIhEEENKUlT_E_clINS_6Entity8HalfEdgeEEEDaSO_(struct S55_class_std__shared_ptr_348*, struct S56_class_anon_351*);
void _ZZNK14OpenVolumeMesh2IO16PropertyDecoderTIjNS0_6Codecs15SimplePropCodecINS2_9PrimitiveIjEEEEE16request_propertyERNS_15ResourceManagerENS_10EntityTypeERKNSt7__cxx1112basic_stringIcSt11char_traitsIcESaIcEEERKSt6vectorIhSaIhEEENKUlT_E_clINS_6Entity4FaceEEEDaSO_(struct S55_class_std__shared_ptr_348*, struct S56_class_anon_351*);
void _ZZNK14OpenVolumeMesh2IO16PropertyDecoderTIjNS0_6Codecs15SimplePropCodecINS2_9PrimitiveIjEEEEE16request_propertyERNS_15ResourceManagerENS_10EntityTypeERKNSt7__cxx1112basic_stringIcSt11char_traitsIcESaIcEEERKSt6vectorIhSaIhEEENKUlT_E_clINS_6Entity8HalfFaceEEEDaSO_(struct S55_class_std__shared_ptr_348*, struct S56_class_anon_351*);
void _ZZNK14OpenVolumeMesh2IO16PropertyDecoderTIjNS0_6Codecs15SimplePropCodecINS2_9PrimitiveIjEEEEE16request_propertyERNS_15ResourceManagerENS_10EntityTypeERKNSt7__cxx1112basic_stringIcSt11char_traitsIcESaIcEEERKSt6vectorIhSaIhEEENKUlT_E_clINS_6Entity4CellEEEDaSO_(struct S55_class_std__shared_ptr_348*, struct S56_class_anon_351*);
void _ZZNK14OpenVolumeMesh2IO16PropertyDecoderTIjNS0_6Codecs15SimplePropCodecINS2_9PrimitiveIjEEEEE16request_propertyERNS_15ResourceManagerENS_10EntityTypeERKNSt7__cxx1112basic_stringIcSt11char_traitsIcESaIcEEERKSt6vectorIhSaIhEEENKUlT_E_clINS_6Entity4MeshEEEDaSO_(struct S55_class_std__shared_ptr_348*, struct S56_class_anon_351*);
void _ZN14OpenVolumeMesh15ResourceManager16request_propertyIjNS_6Entity4MeshEEENS_11PropertyPtrIT_T0_EERKNSt7__cxx1112basic_stringIcSt11char_traitsIcESaIcEEERKS5_(struct S44_class_OpenVolumeMesh__PropertyPtr_431*, struct S52_class_OpenVolumeMesh__ResourceManager*, struct S27_class_std____cxx11__basic_string*, u32*);
void _ZN14OpenVolumeMesh15ResourceManager14set_persistentIjNS_6Entity4MeshEEEvRNS_11PropertyPtrIT_T0_EEb(struct S52_class_OpenVolumeMesh__ResourceManager*, struct S44_class_OpenVolumeMesh__PropertyPtr_431*, u1);
void _ZNK14OpenVolumeMesh15ResourceManager22internal_find_propertyIjNS_6Entity4MeshEEESt8optionalINS_11PropertyPtrIT_T0_EEERKNSt7__cxx1112basic_stringIcSt11char_traitsIcESaIcEEE(struct S57_class_std__optional_433*, struct S52_class_OpenVolumeMesh__ResourceManager*, struct S27_class_std____cxx11__basic_string*);
void _ZNK14OpenVolumeMesh15ResourceManager24internal_create_propertyIjNS_6Entity4MeshEEENS_11PropertyPtrIT_T0_EENSt7__cxx1112basic_stringIcSt11char_traitsIcESaIcEEERKS5_b(struct S44_class_OpenVolumeMesh__PropertyPtr_431*, struct S52_class_OpenVolumeMesh__ResourceManager*, struct S27_class_std____cxx11__basic_string*, u32*, u1);
void _ZNSt14_Optional_baseIN14OpenVolumeMesh11PropertyPtrIjNS0_6Entity4MeshEEELb0ELb0EED2Ev(struct S58_struct_std___Optional_base_434*);
void _ZNSt12__shared_ptrIN14OpenVolumeMesh16PropertyStorageTIjEELN9__gnu_cxx12_Lock_policyE2EEC2ISaIvEJPNS0_6detail7TrackerINS0_19PropertyStorageBaseEEENSt7__cxx1112basic_stringIcSt11char_traitsIcESaIcEEENS0_10EntityTypeERKjRbEEESt20_Sp_alloc_shared_tagIT_EDpOT0_(struct S43_class_std____shared_ptr_349*, struct S0_class_std__ios_base__Init*, struct S39_class_OpenVolumeMesh__detail__Tracker**, struct S27_class_std____cxx11__basic_string*, u8*, u32*, u8*);
void _ZNSt23_Sp_counted_ptr_inplaceIN14OpenVolumeMesh16PropertyStorageTIjEESaIvELN9__gnu_cxx12_Lock_policyE2EEC2IJPNS0_6detail7TrackerINS0_19PropertyStorageBaseEEENSt7__cxx1112basic_stringIcSt11char_traitsIcESaIcEEENS0_10EntityTypeERKjRbEEES3_DpOT_(struct S47_class_std___Sp_counted_ptr_inplace_70*, struct S39_class_OpenVolumeMesh__detail__Tracker**, struct S27_class_std____cxx11__basic_string*, u8*, u32*, u8*);
void _ZN14OpenVolumeMesh15ResourceManager21prop_ptr_from_storageIjNS_6Entity4MeshEEENS_11PropertyPtrIT_T0_EEPNS_19PropertyStorageBaseE(struct S44_class_OpenVolumeMesh__PropertyPtr_431*, struct S16_class_OpenVolumeMesh__PropertyStorageBas*);
void _ZN14OpenVolumeMesh15ResourceManager16request_propertyIjNS_6Entity4CellEEENS_11PropertyPtrIT_T0_EERKNSt7__cxx1112basic_stringIcSt11char_traitsIcESaIcEEERKS5_(struct S44_class_OpenVolumeMesh__PropertyPtr_431*, struct S52_class_OpenVolumeMesh__ResourceManager*, struct S27_class_std____cxx11__basic_string*, u32*);
void _ZN14OpenVolumeMesh15ResourceManager14set_persistentIjNS_6Entity4CellEEEvRNS_11PropertyPtrIT_T0_EEb(struct S52_class_OpenVolumeMesh__ResourceManager*, struct S44_class_OpenVolumeMesh__PropertyPtr_431*, u1);
void _ZNK14OpenVolumeMesh15ResourceManager22internal_find_propertyIjNS_6Entity4CellEEESt8optionalINS_11PropertyPtrIT_T0_EEERKNSt7__cxx1112basic_stringIcSt11char_traitsIcESaIcEEE(struct S57_class_std__optional_433*, struct S52_class_OpenVolumeMesh__ResourceManager*, struct S27_class_std____cxx11__basic_string*);
void _ZNK14OpenVolumeMesh15ResourceManager24internal_create_propertyIjNS_6Entity4CellEEENS_11PropertyPtrIT_T0_EENSt7__cxx1112basic_stringIcSt11char_traitsIcESaIcEEERKS5_b(struct S44_class_OpenVolumeMesh__PropertyPtr_431*, struct S52_class_OpenVolumeMesh__ResourceManager*, struct S27_class_std____cxx11__basic_string*, u32*, u1);
void _ZNSt14_Optional_baseIN14OpenVolumeMesh11PropertyPtrIjNS0_6Entity4CellEEELb0ELb0EED2Ev(struct S58_struct_std___Optional_base_434*);
void _ZN14OpenVolumeMesh15ResourceManager21prop_ptr_from_storageIjNS_6Entity4CellEEENS_11PropertyPtrIT_T0_EEPNS_19PropertyStorageBaseE(struct S44_class_OpenVolumeMesh__PropertyPtr_431*, struct S16_class_OpenVolumeMesh__PropertyStorageBas*);
void _ZN14OpenVolumeMesh15ResourceManager16request_propertyIjNS_6Entity8HalfFaceEEENS_11PropertyPtrIT_T0_EERKNSt7__cxx1112basic_stringIcSt11char_traitsIcESaIcEEERKS5_(struct S44_class_OpenVolumeMesh__PropertyPtr_431*, struct S52_class_OpenVolumeMesh__ResourceManager*, struct S27_class_std____cxx11__basic_string*, u32*);
void _ZN14OpenVolumeMesh15ResourceManager14set_persistentIjNS_6Entity8HalfFaceEEEvRNS_11PropertyPtrIT_T0_EEb(struct S52_class_OpenVolumeMesh__ResourceManager*, struct S44_class_OpenVolumeMesh__PropertyPtr_431*, u1);
void _ZNK14OpenVolumeMesh15ResourceManager22internal_find_propertyIjNS_6Entity8HalfFaceEEESt8optionalINS_11PropertyPtrIT_T0_EEERKNSt7__cxx1112basic_stringIcSt11char_traitsIcESaIcEEE(struct S57_class_std__optional_433*, struct S52_class_OpenVolumeMesh__ResourceManager*, struct S27_class_std____cxx11__basic_string*);
void _ZNK14OpenVolumeMesh15ResourceManager24internal_create_propertyIjNS_6Entity8HalfFaceEEENS_11PropertyPtrIT_T0_EENSt7__cxx1112basic_stringIcSt11char_traitsIcESaIcEEERKS5_b(struct S44_class_OpenVolumeMesh__PropertyPtr_431*, struct S52_class_OpenVolumeMesh__ResourceManager*, struct S27_class_std____cxx11__basic_string*, u32*, u1);
void _ZNSt14_Optional_baseIN14OpenVolumeMesh11PropertyPtrIjNS0_6Entity8HalfFaceEEELb0ELb0EED2Ev(struct S58_struct_std___Optional_base_434*);
void _ZN14OpenVolumeMesh15ResourceManager21prop_ptr_from_storageIjNS_6Entity8HalfFaceEEENS_11PropertyPtrIT_T0_EEPNS_19PropertyStorageBaseE(struct S44_class_OpenVolumeMesh__PropertyPtr_431*, struct S16_class_OpenVolumeMesh__PropertyStorageBas*);
void _ZN14OpenVolumeMesh15ResourceManager16request_propertyIjNS_6Entity4FaceEEENS_11PropertyPtrIT_T0_EERKNSt7__cxx1112basic_stringIcSt11char_traitsIcESaIcEEERKS5_(struct S44_class_OpenVolumeMesh__PropertyPtr_431*, struct S52_class_OpenVolumeMesh__ResourceManager*, struct S27_class_std____cxx11__basic_string*, u32*);
void _ZN14OpenVolumeMesh15ResourceManager14set_persistentIjNS_6Entity4FaceEEEvRNS_11PropertyPtrIT_T0_EEb(struct S52_class_OpenVolumeMesh__ResourceManager*, struct S44_class_OpenVolumeMesh__PropertyPtr_431*, u1);
void _ZNK14OpenVolumeMesh15ResourceManager22internal_find_propertyIjNS_6Entity4FaceEEESt8optionalINS_11PropertyPtrIT_T0_EEERKNSt7__cxx1112basic_stringIcSt11char_traitsIcESaIcEEE(struct S57_class_std__optional_433*, struct S52_class_OpenVolumeMesh__ResourceManager*, struct S27_class_std____cxx11__basic_string*);
void _ZNK14OpenVolumeMesh15ResourceManager24internal_create_propertyIjNS_6Entity4FaceEEENS_11PropertyPtrIT_T0_EENSt7__cxx1112basic_stringIcSt11char_traitsIcESaIcEEERKS5_b(struct S44_class_OpenVolumeMesh__PropertyPtr_431*, struct S52_class_OpenVolumeMesh__ResourceManager*, struct S27_class_std____cxx11__basic_string*, u32*, u1);
void _ZNSt14_Optional_baseIN14OpenVolumeMesh11PropertyPtrIjNS0_6Entity4FaceEEELb0ELb0EED2Ev(struct S58_struct_std___Optional_base_434*);
void _ZN14OpenVolumeMesh15ResourceManager21prop_ptr_from_storageIjNS_6Entity4FaceEEENS_11PropertyPtrIT_T0_EEPNS_19PropertyStorageBaseE(struct S44_class_OpenVolumeMesh__PropertyPtr_431*, struct S16_class_OpenVolumeMesh__PropertyStorageBas*);
void _ZN14OpenVolumeMesh15ResourceManager16request_propertyIjNS_6Entity8HalfEdgeEEENS_11PropertyPtrIT_T0_EERKNSt7__cxx1112basic_stringIcSt11char_traitsIcESaIcEEERKS5_(struct S44_class_OpenVolumeMesh__PropertyPtr_431*, struct S52_class_OpenVolumeMesh__ResourceManager*, struct S27_class_std____cxx11__basic_string*, u32*);
void _ZN14OpenVolumeMesh15ResourceManager14set_persistentIjNS_6Entity8HalfEdgeEEEvRNS_11PropertyPtrIT_T0_EEb(struct S52_class_OpenVolumeMesh__ResourceManager*, struct S44_class_OpenVolumeMesh__PropertyPtr_431*, u1);
void _ZNK14OpenVolumeMesh15ResourceManager22internal_find_propertyIjNS_6Entity8HalfEdgeEEESt8optionalINS_11PropertyPtrIT_T0_EEERKNSt7__cxx1112basic_stringIcSt11char_traitsIcESaIcEEE(struct S57_class_std__optional_433*, struct S52_class_OpenVolumeMesh__ResourceManager*, struct S27_class_std____cxx11__basic_string*);
void _ZNK14OpenVolumeMesh15ResourceManager24internal_create_propertyIjNS_6Entity8HalfEdgeEEENS_11PropertyPtrIT_T0_EENSt7__cxx1112basic_stringIcSt11char_traitsIcESaIcEEERKS5_b(struct S44_class_OpenVolumeMesh__PropertyPtr_431*, struct S52_class_OpenVolumeMesh__ResourceManager*, struct S27_class_std____cxx11__basic_string*, u32*, u1);
void _ZNSt14_Optional_baseIN14OpenVolumeMesh11PropertyPtrIjNS0_6Entity8HalfEdgeEEELb0ELb0EED2Ev(struct S58_struct_std___Optional_base_434*);
void _ZN14OpenVolumeMesh15ResourceManager21prop_ptr_from_storageIjNS_6Entity8HalfEdgeEEENS_11PropertyPtrIT_T0_EEPNS_19PropertyStorageBaseE(struct S44_class_OpenVolumeMesh__PropertyPtr_431*, struct S16_class_OpenVolumeMesh__PropertyStorageBas*);
void _ZN14OpenVolumeMesh15ResourceManager16request_propertyIjNS_6Entity4EdgeEEENS_11PropertyPtrIT_T0_EERKNSt7__cxx1112basic_stringIcSt11char_traitsIcESaIcEEERKS5_(struct S44_class_OpenVolumeMesh__PropertyPtr_431*, struct S52_class_OpenVolumeMesh__ResourceManager*, struct S27_class_std____cxx11__basic_string*, u32*);
void _ZN14OpenVolumeMesh15ResourceManager14set_persistentIjNS_6Entity4EdgeEEEvRNS_11PropertyPtrIT_T0_EEb(struct S52_class_OpenVolumeMesh__ResourceManager*, struct S44_class_OpenVolumeMesh__PropertyPtr_431*, u1);
void _ZNK14OpenVolumeMesh15ResourceManager22internal_find_propertyIjNS_6Entity4EdgeEEESt8optionalINS_11PropertyPtrIT_T0_EEERKNSt7__cxx1112basic_stringIcSt11char_traitsIcESaIcEEE(struct S57_class_std__optional_433*, struct S52_class_OpenVolumeMesh__ResourceManager*, struct S27_class_std____cxx11__basic_string*);
void _ZNK14OpenVolumeMesh15ResourceManager24internal_create_propertyIjNS_6Entity4EdgeEEENS_11PropertyPtrIT_T0_EENSt7__cxx1112basic_stringIcSt11char_traitsIcESaIcEEERKS5_b(struct S44_class_OpenVolumeMesh__PropertyPtr_431*, struct S52_class_OpenVolumeMesh__ResourceManager*, struct S27_class_std____cxx11__basic_string*, u32*, u1);
void _ZNSt14_Optional_baseIN14OpenVolumeMesh11PropertyPtrIjNS0_6Entity4EdgeEEELb0ELb0EED2Ev(struct S58_struct_std___Optional_base_434*);
void _ZN14OpenVolumeMesh15ResourceManager21prop_ptr_from_storageIjNS_6Entity4EdgeEEENS_11PropertyPtrIT_T0_EEPNS_19PropertyStorageBaseE(struct S44_class_OpenVolumeMesh__PropertyPtr_431*, struct S16_class_OpenVolumeMesh__PropertyStorageBas*);
void _ZN14OpenVolumeMesh15ResourceManager16request_propertyIjNS_6Entity6VertexEEENS_11PropertyPtrIT_T0_EERKNSt7__cxx1112basic_stringIcSt11char_traitsIcESaIcEEERKS5_(struct S44_class_OpenVolumeMesh__PropertyPtr_431*, struct S52_class_OpenVolumeMesh__ResourceManager*, struct S27_class_std____cxx11__basic_string*, u32*);
void _ZN14OpenVolumeMesh15ResourceManager14set_persistentIjNS_6Entity6VertexEEEvRNS_11PropertyPtrIT_T0_EEb(struct S52_class_OpenVolumeMesh__ResourceManager*, struct S44_class_OpenVolumeMesh__PropertyPtr_431*, u1);
void _ZNK14OpenVolumeMesh15ResourceManager22internal_find_propertyIjNS_6Entity6VertexEEESt8optionalINS_11PropertyPtrIT_T0_EEERKNSt7__cxx1112basic_stringIcSt11char_traitsIcESaIcEEE(struct S57_class_std__optional_433*, struct S52_class_OpenVolumeMesh__ResourceManager*, struct S27_class_std____cxx11__basic_string*);
void _ZNK14OpenVolumeMesh15ResourceManager24internal_create_propertyIjNS_6Entity6VertexEEENS_11PropertyPtrIT_T0_EENSt7__cxx1112basic_stringIcSt11char_traitsIcESaIcEEERKS5_b(struct S44_class_OpenVolumeMesh__PropertyPtr_431*, struct S52_class_OpenVolumeMesh__ResourceManager*, struct S27_class_std____cxx11__basic_string*, u32*, u1);
void _ZNSt14_Optional_baseIN14OpenVolumeMesh11PropertyPtrIjNS0_6Entity6VertexEEELb0ELb0EED2Ev(struct S58_struct_std___Optional_base_434*);
void _ZN14OpenVolumeMesh15ResourceManager21prop_ptr_from_storageIjNS_6Entity6VertexEEENS_11PropertyPtrIT_T0_EEPNS_19PropertyStorageBaseE(struct S44_class_OpenVolumeMesh__PropertyPtr_431*, struct S16_class_OpenVolumeMesh__PropertyStorageBas*);
void _ZNSt23_Sp_counted_ptr_inplaceIN14OpenVolumeMesh2IO16PropertyDecoderTIjNS1_6Codecs15SimplePropCodecINS3_9PrimitiveIjEEEEEESaIvELN9__gnu_cxx12_Lock_policyE2EED0Ev(struct S59_class_std___Sp_counted_ptr_inplace_41*);
void _ZNSt23_Sp_counted_ptr_inplaceIN14OpenVolumeMesh2IO16PropertyDecoderTIjNS1_6Codecs15SimplePropCodecINS3_9PrimitiveIjEEEEEESaIvELN9__gnu_cxx12_Lock_policyE2EE10_M_disposeEv(struct S59_class_std___Sp_counted_ptr_inplace_41*);
void _ZNSt23_Sp_counted_ptr_inplaceIN14OpenVolumeMesh2IO16PropertyDecoderTIjNS1_6Codecs15SimplePropCodecINS3_9PrimitiveIjEEEEEESaIvELN9__gnu_cxx12_Lock_policyE2EE10_M_destroyEv(struct S59_class_std___Sp_counted_ptr_inplace_41*);
u8* _ZNSt23_Sp_counted_ptr_inplaceIN14OpenVolumeMesh2IO16PropertyDecoderTIjNS1_6Codecs15SimplePropCodecINS3_9PrimitiveIjEEEEEESaIvELN9__gnu_cxx12_Lock_policyE2EE14_M_get_deleterERKSt9type_info(struct S59_class_std___Sp_counted_ptr_inplace_41*, struct S48_class_std__type_info*);
void _ZN14OpenVolumeMesh2IO16PropertyEncoderTIjNS0_6Codecs15SimplePropCodecINS2_9PrimitiveIjEEEEED0Ev(struct S60_class_OpenVolumeMesh__IO__PropertyEncode*);
void _ZNK14OpenVolumeMesh2IO16PropertyEncoderTIjNS0_6Codecs15SimplePropCodecINS2_9PrimitiveIjEEEEE17serialize_defaultEPKNS_19PropertyStorageBaseERNS0_6detail11WriteBufferE(struct S60_class_OpenVolumeMesh__IO__PropertyEncode*, struct S16_class_OpenVolumeMesh__PropertyStorageBas*, struct S61_class_OpenVolumeMesh__IO__detail__WriteB*);
void _ZNK14OpenVolumeMesh2IO16PropertyEncoderTIjNS0_6Codecs15SimplePropCodecINS2_9PrimitiveIjEEEEE9serializeEPKNS_19PropertyStorageBaseERNS0_6detail11WriteBufferEmm(struct S60_class_OpenVolumeMesh__IO__PropertyEncode*, struct S16_class_OpenVolumeMesh__PropertyStorageBas*, struct S61_class_OpenVolumeMesh__IO__detail__WriteB*, u64, u64);
void _ZNSt23_Sp_counted_ptr_inplaceIN14OpenVolumeMesh2IO16PropertyEncoderTIjNS1_6Codecs15SimplePropCodecINS3_9PrimitiveIjEEEEEESaIvELN9__gnu_cxx12_Lock_policyE2EED0Ev(struct S49_class_std___Sp_counted_ptr_inplace*);
void _ZNSt23_Sp_counted_ptr_inplaceIN14OpenVolumeMesh2IO16PropertyEncoderTIjNS1_6Codecs15SimplePropCodecINS3_9PrimitiveIjEEEEEESaIvELN9__gnu_cxx12_Lock_policyE2EE10_M_disposeEv(struct S49_class_std___Sp_counted_ptr_inplace*);
void _ZNSt23_Sp_counted_ptr_inplaceIN14OpenVolumeMesh2IO16PropertyEncoderTIjNS1_6Codecs15SimplePropCodecINS3_9PrimitiveIjEEEEEESaIvELN9__gnu_cxx12_Lock_policyE2EE10_M_destroyEv(struct S49_class_std___Sp_counted_ptr_inplace*);
u8* _ZNSt23_Sp_counted_ptr_inplaceIN14OpenVolumeMesh2IO16PropertyEncoderTIjNS1_6Codecs15SimplePropCodecINS3_9PrimitiveIjEEEEEESaIvELN9__gnu_cxx12_Lock_policyE2EE14_M_get_deleterERKSt9type_info(struct S49_class_std___Sp_counted_ptr_inplace*, struct S48_class_std__type_info*);
struct S21_class_OpenVolumeMesh__IO__PropertyDecode* _ZNK14OpenVolumeMesh2IO14PropertyCodecs11get_decoderERKNSt7__cxx1112basic_stringIcSt11char_traitsIcESaIcEEE(struct S37_class_OpenVolumeMesh__IO__PropertyCodecs*, struct S27_class_std____cxx11__basic_string*);
struct S11_struct_std___Rb_tree_node_base* _ZNKSt8_Rb_treeINSt7__cxx1112basic_stringIcSt11char_traitsIcESaIcEEESt4pairIKS5_St10shared_ptrIN14OpenVolumeMesh2IO19PropertyDecoderBaseEEESt10_Select1stISD_ESt4lessIS5_ESaISD_EE4findERS7_(struct S10_class_std___Rb_tree*, struct S27_class_std____cxx11__basic_string*);
void _GLOBAL__sub_I_Decoder_cc(void);
u32 _ZN14OpenVolumeMesh2IO6detail7Decoder3u32Ev(struct S54_class_OpenVolumeMesh__IO__detail__Decode*);
void _GLOBAL__sub_I_Encoder_cc(void);
void _ZN14OpenVolumeMesh2IO6detail7Encoder3u32Ej(struct S62_class_OpenVolumeMesh__IO__detail__Encode*, u32);
void _GLOBAL__sub_I_WriteBuffer_cc(void);
void _ZNSt6vectorIhSaIhEE17_M_default_appendEm(struct S53_class_std__vector*, u64);
u8* _ZN14OpenVolumeMesh2IO6detail11WriteBuffer14bytes_to_writeEm(struct S61_class_OpenVolumeMesh__IO__detail__WriteB*, u64);
void _GLOBAL__sub_I_ResourceManager_cc(void);
u64 _ZNK14OpenVolumeMesh15ResourceManager1nINS_6Entity6VertexEEEmv(struct S52_class_OpenVolumeMesh__ResourceManager*);
u64 _ZNK14OpenVolumeMesh15ResourceManager1nINS_6Entity4EdgeEEEmv(struct S52_class_OpenVolumeMesh__ResourceManager*);
u64 _ZNK14OpenVolumeMesh15ResourceManager1nINS_6Entity8HalfEdgeEEEmv(struct S52_class_OpenVolumeMesh__ResourceManager*);
u64 _ZNK14OpenVolumeMesh15ResourceManager1nINS_6Entity4FaceEEEmv(struct S52_class_OpenVolumeMesh__ResourceManager*);
u64 _ZNK14OpenVolumeMesh15ResourceManager1nINS_6Entity8HalfFaceEEEmv(struct S52_class_OpenVolumeMesh__ResourceManager*);
u64 _ZNK14OpenVolumeMesh15ResourceManager1nINS_6Entity4CellEEEmv(struct S52_class_OpenVolumeMesh__ResourceManager*);
u64 _ZNK14OpenVolumeMesh15ResourceManager1nINS_6Entity4MeshEEEmv(struct S52_class_OpenVolumeMesh__ResourceManager*);
void _GLOBAL__sub_I_PropertyStorageBase_cc(void);
void _ZN14OpenVolumeMesh6detail18internal_type_nameB5cxx11ERKSt9type_info(struct S27_class_std____cxx11__basic_string*, struct S48_class_std__type_info*);
u64 strlen(u8*);
struct S11_struct_std___Rb_tree_node_base* _ZSt18_Rb_tree_incrementPSt18_Rb_tree_node_base(struct S11_struct_std___Rb_tree_node_base*);
struct S11_struct_std___Rb_tree_node_base* _ZSt18_Rb_tree_incrementPKSt18_Rb_tree_node_base(struct S11_struct_std___Rb_tree_node_base*);
struct S11_struct_std___Rb_tree_node_base* _ZSt18_Rb_tree_decrementPSt18_Rb_tree_node_base(struct S11_struct_std___Rb_tree_node_base*);
void _ZSt29_Rb_tree_insert_and_rebalancebPSt18_Rb_tree_node_baseS0_RS_(u1, struct S11_struct_std___Rb_tree_node_base*, struct S11_struct_std___Rb_tree_node_base*, struct S11_struct_std___Rb_tree_node_base*);
struct S11_struct_std___Rb_tree_node_base* _ZSt28_Rb_tree_rebalance_for_erasePSt18_Rb_tree_node_baseRS_(struct S11_struct_std___Rb_tree_node_base*, struct S11_struct_std___Rb_tree_node_base*);
void _ZSt20__throw_length_errorPKc(u8*);
void v_throw_std(u32);
void _ZSt17__throw_bad_allocv(void);
void _ZSt28__throw_bad_array_new_lengthv(void);
void _ZSt19__throw_logic_errorPKc(u8*);
u8* _ZNSt7__cxx1112basic_stringIcSt11char_traitsIcESaIcEE9_M_createERmm(struct S27_class_std____cxx11__basic_string*, u64*, u64);
void v_run_static_init(void);
static u8 _ZTIj_name[2] = {106, 0};
u8* _ZTIj[2] = {(u8*)0, _ZTIj_name};
struct S0_class_std__ios_base__Init _ZStL8__ioinit = {0};
struct A0 _ZL5g_raw = {0};
struct A1 _str = {{((u8)100ULL), ((u8)32ULL), ((u8)33ULL), ((u8)61ULL), ((u8)32ULL), ((u8)110ULL), ((u8)117ULL), ((u8)108ULL), ((u8)108ULL), ((u8)112ULL), ((u8)116ULL), ((u8)114ULL), ((u8)32ULL), ((u8)64ULL), ((u8)47ULL), ((u8)118ULL), ((u8)101ULL), ((u8)114ULL), ((u8)105ULL), ((u8)102ULL), ((u8)47ULL), ((u8)104ULL), ((u8)97ULL), ((u8)114ULL), ((u8)110ULL), ((u8)101ULL), ((u8)115ULL), ((u8)115ULL), ((u8)47ULL), ((u8)67ULL), ((u8)48ULL), ((u8)55ULL), ((u8)95ULL), ((u8)99ULL), ((u8)111ULL), ((u8)100ULL), ((u8)101ULL), ((u8)99ULL), ((u8)95ULL), ((u8)115ULL), ((u8)104ULL), ((u8)111ULL), ((u8)114ULL), ((u8)116ULL), ((u8)46ULL), ((u8)99ULL), ((u8)112ULL), ((u8)112ULL), ((u8)58ULL), ((u8)50ULL), ((u8)55ULL), ((u8)0ULL)}};
struct A2 _str_2 = {{((u8)100ULL), ((u8)101ULL), ((u8)115ULL), ((u8)101ULL), ((u8)114ULL), ((u8)105ULL), ((u8)97ULL), ((u8)108ULL), ((u8)105ULL), ((u8)122ULL), ((u8)101ULL), ((u8)40ULL), ((u8)115ULL), ((u8)104ULL), ((u8)111ULL), ((u8)114ULL), ((u8)116ULL), ((u8)32ULL), ((u8)112ULL), ((u8)97ULL), ((u8)121ULL), ((u8)108ULL), ((u8)111ULL), ((u8)97ULL), ((u8)100ULL), ((u8)41ULL), ((u8)58ULL), ((u8)32ULL), ((u8)114ULL), ((u8)101ULL), ((u8)116ULL), ((u8)117ULL), ((u8)114ULL), ((u8)110ULL), ((u8)101ULL), ((u8)100ULL), ((u8)0ULL)}};
struct A3 _str_3 = {{((u8)101ULL), ((u8)110ULL), ((u8)116ULL), ((u8)105ULL), ((u8)116ULL), ((u8)121ULL), ((u8)116ULL), ((u8)97ULL), ((u8)103ULL), ((u8)95ULL), ((u8)100ULL), ((u8)105ULL), ((u8)115ULL), ((u8)112ULL), ((u8)97ULL), ((u8)116ULL), ((u8)99ULL), ((u8)104ULL), ((u8)40ULL), ((u8)41ULL), ((u8)58ULL), ((u8)32ULL), ((u8)117ULL), ((u8)110ULL), ((u8)107ULL), ((u8)110ULL), ((u8)111ULL), ((u8)119ULL), ((u8)110ULL), ((u8)32ULL), ((u8)101ULL), ((u8)110ULL), ((u8)116ULL), ((u8)105ULL), ((u8)116ULL), ((u8)121ULL), ((u8)46ULL), ((u8)0ULL)}};
struct A4 _str_4 = {{((u8)80ULL), ((u8)101ULL), ((u8)114ULL), ((u8)115ULL), ((u8)105ULL), ((u8)115ULL), ((u8)116ULL), ((u8)101ULL), ((u8)110ULL), ((u8)116ULL), ((u8)32ULL), ((u8)112ULL), ((u8)114ULL), ((u8)111ULL), ((u8)112ULL), ((u8)101ULL), ((u8)114ULL), ((u8)116ULL), ((u8)105ULL), ((u8)101ULL), ((u8)115ULL), ((u8)32ULL), ((u8)109ULL), ((u8)117ULL), ((u8)115ULL), ((u8)116ULL), ((u8)32ULL), ((u8)98ULL), ((u8)101ULL), ((u8)32ULL), ((u8)115ULL), ((u8)104ULL), ((u8)97ULL), ((u8)114ULL), ((u8)101ULL), ((u8)100ULL), ((u8)32ULL), ((u8)40ULL), ((u8)115ULL), ((u8)101ULL), ((u8)116ULL), ((u8)95ULL), ((u8)115ULL), ((u8)104ULL), ((u8)97ULL), ((u8)114ULL), ((u8)101ULL), ((u8)100ULL), ((u8)41ULL), ((u8)46ULL), ((u8)0ULL)}};
struct A5 _str_5 = {{((u8)105ULL), ((u8)110ULL), ((u8)118ULL), ((u8)97ULL), ((u8)108ULL), ((u8)105ULL), ((u8)100ULL), ((u8)32ULL), ((u8)112ULL), ((u8)114ULL), ((u8)111ULL), ((u8)112ULL), ((u8)32ULL), ((u8)114ULL), ((u8)97ULL), ((u8)110ULL), ((u8)103ULL), ((u8)101ULL), ((u8)0ULL)}};
struct A6 _str_8 = {{((u8)118ULL), ((u8)101ULL), ((u8)99ULL), ((u8)116ULL), ((u8)111ULL), ((u8)114ULL), ((u8)58ULL), ((u8)58ULL), ((u8)114ULL), ((u8)101ULL), ((u8)115ULL), ((u8)101ULL), ((u8)114ULL), ((u8)118ULL), ((u8)101ULL), ((u8)0ULL)}};
struct A7 _str_9 = {{((u8)118ULL), ((u8)101ULL), ((u8)99ULL), ((u8)116ULL), ((u8)111ULL), ((u8)114ULL), ((u8)58ULL), ((u8)58ULL), ((u8)95ULL), ((u8)77ULL), ((u8)95ULL), ((u8)114ULL), ((u8)101ULL), ((u8)97ULL), ((u8)108ULL), ((u8)108ULL), ((u8)111ULL), ((u8)99ULL), ((u8)95ULL), ((u8)105ULL), ((u8)110ULL), ((u8)115ULL), ((u8)101ULL), ((u8)114ULL), ((u8)116ULL), ((u8)0ULL)}};
struct A8 _str_10 = {{((u8)118ULL), ((u8)101ULL), ((u8)99ULL), ((u8)116ULL), ((u8)111ULL), ((u8)114ULL), ((u8)58ULL), ((u8)58ULL), ((u8)95ULL), ((u8)77ULL), ((u8)95ULL), ((u8)102ULL), ((u8)105ULL), ((u8)108ULL), ((u8)108ULL), ((u8)95ULL), ((u8)105ULL), ((u8)110ULL), ((u8)115ULL), ((u8)101ULL), ((u8)114ULL), ((u8)116ULL), ((u8)0ULL)}};
struct A9 _str_16 = {{((u8)117ULL), ((u8)51ULL), ((u8)50ULL), ((u8)0ULL)}};
struct A1 _ZTSSt16_Sp_counted_baseILN9__gnu_cxx12_Lock_policyE2EE = {{((u8)83ULL), ((u8)116ULL), ((u8)49ULL), ((u8)54ULL), ((u8)95ULL), ((u8)83ULL), ((u8)112ULL), ((u8)95ULL), ((u8)99ULL), ((u8)111ULL), ((u8)117ULL), ((u8)110ULL), ((u8)116ULL), ((u8)101ULL), ((u8)100ULL), ((u8)95ULL), ((u8)98ULL), ((u8)97ULL), ((u8)115ULL), ((u8)101ULL), ((u8)73ULL), ((u8)76ULL), ((u8)78ULL), ((u8)57ULL), ((u8)95ULL), ((u8)95ULL), ((u8)103ULL), ((u8)110ULL), ((u8)117ULL), ((u8)95ULL), ((u8)99ULL), ((u8)120ULL), ((u8)120ULL), ((u8)49ULL), ((u8)50ULL), ((u8)95ULL), ((u8)76ULL), ((u8)111ULL), ((u8)99ULL), ((u8)107ULL), ((u8)95ULL), ((u8)112ULL), ((u8)111ULL), ((u8)108ULL), ((u8)105ULL), ((u8)99ULL), ((u8)121ULL), ((u8)69ULL), ((u8)50ULL), ((u8)69ULL), ((u8)69ULL), ((u8)0ULL)}};
struct A10 _ZTSSt11_Mutex_baseILN9__gnu_cxx12_Lock_policyE2EE = {{((u8)83ULL), ((u8)116ULL), ((u8)49ULL), ((u8)49ULL), ((u8)95ULL), ((u8)77ULL), ((u8)117ULL), ((u8)116ULL), ((u8)101ULL), ((u8)120ULL), ((u8)95ULL), ((u8)98ULL), ((u8)97ULL), ((u8)115ULL), ((u8)101ULL), ((u8)73ULL), ((u8)76ULL), ((u8)78ULL), ((u8)57ULL), ((u8)95ULL), ((u8)95ULL), ((u8)103ULL), ((u8)110ULL), ((u8)117ULL), ((u8)95ULL), ((u8)99ULL), ((u8)120ULL), ((u8)120ULL), ((u8)49ULL), ((u8)50ULL), ((u8)95ULL), ((u8)76ULL), ((u8)111ULL), ((u8)99ULL), ((u8)107ULL), ((u8)95ULL), ((u8)112ULL), ((u8)111ULL), ((u8)108ULL), ((u8)105ULL), ((u8)99ULL), ((u8)121ULL), ((u8)69ULL), ((u8)50ULL), ((u8)69ULL), ((u8)69ULL), ((u8)0ULL)}};
struct S1 _ZTISt11_Mutex_baseILN9__gnu_cxx12_Lock_policyE2EE = {((u8*)((u8**)((&_ZTVN10__cxxabiv117__class_type_infoE) + (s64)((s64)((u64)2ULL))))), ((u8*)(&(*(&_ZTSSt11_Mutex_baseILN9__gnu_cxx12_Lock_policyE2EE)).e[(s64)((s32)((u32)0ULL))]))};
struct S2 _ZTISt16_Sp_counted_baseILN9__gnu_cxx12_Lock_policyE2EE = {((u8*)((u8**)((&_ZTVN10__cxxabiv120__si_class_type_infoE) + (s64)((s64)((u64)2ULL))))), ((u8*)(&(*(&_ZTSSt16_Sp_counted_baseILN9__gnu_cxx12_Lock_policyE2EE)).e[(s64)((s32)((u32)0ULL))])), ((u8*)(&_ZTISt11_Mutex_baseILN9__gnu_cxx12_Lock_policyE2EE))};
struct S3 _ZTVSt16_Sp_counted_baseILN9__gnu_cxx12_Lock_policyE2EE = {{{((u8*)0), ((u8*)(&_ZTISt16_Sp_counted_baseILN9__gnu_cxx12_Lock_policyE2EE)), ((u8*)((fnptr_t)_ZNSt16_Sp_counted_baseILN9__gnu_cxx12_Lock_policyE2EED2Ev)), ((u8*)((fnptr_t)_ZNSt16_Sp_counted_baseILN9__gnu_cxx12_Lock_policyE2EED0Ev)), ((u8*)((fnptr_t)__cxa_pure_virtual)), ((u8*)((fnptr_t)_ZNSt16_Sp_counted_baseILN9__gnu_cxx12_Lock_policyE2EE10_M_destroyEv)), ((u8*)((fnptr_t)__cxa_pure_virtual))}}};
struct A11 _ZTSN14OpenVolumeMesh2IO19PropertyEncoderBaseE = {{((u8)78ULL), ((u8)49ULL), ((u8)52ULL), ((u8)79ULL), ((u8)112ULL), ((u8)101ULL), ((u8)110ULL), ((u8)86ULL), ((u8)111ULL), ((u8)108ULL), ((u8)117ULL), ((u8)109ULL), ((u8)101ULL), ((u8)77ULL), ((u8)101ULL), ((u8)115ULL), ((u8)104ULL), ((u8)50ULL), ((u8)73ULL), ((u8)79ULL), ((u8)49ULL), ((u8)57ULL), ((u8)80ULL), ((u8)114ULL), ((u8)111ULL), ((u8)112ULL), ((u8)101ULL), ((u8)114ULL), ((u8)116ULL), ((u8)121ULL), ((u8)69ULL), ((u8)110ULL), ((u8)99ULL), ((u8)111ULL), ((u8)100ULL), ((u8)101ULL), ((u8)114ULL), ((u8)66ULL), ((u8)97ULL), ((u8)115ULL), ((u8)101ULL), ((u8)69ULL), ((u8)0ULL)}};
struct S1 _ZTIN14OpenVolumeMesh2IO19PropertyEncoderBaseE = {((u8*)((u8**)((&_ZTVN10__cxxabiv117__class_type_infoE) + (s64)((s64)((u64)2ULL))))), ((u8*)(&(*(&_ZTSN14OpenVolumeMesh2IO19PropertyEncoderBaseE)).e[(s64)((s32)((u32)0ULL))]))};
struct S4 _ZTVN14OpenVolumeMesh2IO19PropertyEncoderBaseE = {{{((u8*)0), ((u8*)(&_ZTIN14OpenVolumeMesh2IO19PropertyEncoderBaseE)), ((u8*)((fnptr_t)_ZN14OpenVolumeMesh2IO19PropertyEncoderBaseD2Ev)), ((u8*)((fnptr_t)_ZN14OpenVolumeMesh2IO19PropertyEncoderBaseD0Ev)), ((u8*)((fnptr_t)__cxa_pure_virtual)), ((u8*)((fnptr_t)__cxa_pure_virtual))}}};
struct A12 _ZTSSt19_Sp_make_shared_tag = {{((u8)83ULL), ((u8)116ULL), ((u8)49ULL), ((u8)57ULL), ((u8)95ULL), ((u8)83ULL), ((u8)112ULL), ((u8)95ULL), ((u8)109ULL), ((u8)97ULL), ((u8)107ULL), ((u8)101ULL), ((u8)95ULL), ((u8)115ULL), ((u8)104ULL), ((u8)97ULL), ((u8)114ULL), ((u8)101ULL), ((u8)100ULL), ((u8)95ULL), ((u8)116ULL), ((u8)97ULL), ((u8)103ULL), ((u8)0ULL)}};
struct A6 _ZZNSt19_Sp_make_shared_tag5_S_tiEvE5__tag = {0};
struct S0_class_std__ios_base__Init _ZSt19piecewise_construct = {0};
struct A11 _ZTSN14OpenVolumeMesh2IO19PropertyDecoderBaseE = {{((u8)78ULL), ((u8)49ULL), ((u8)52ULL), ((u8)79ULL), ((u8)112ULL), ((u8)101ULL), ((u8)110ULL), ((u8)86ULL), ((u8)111ULL), ((u8)108ULL), ((u8)117ULL), ((u8)109ULL), ((u8)101ULL), ((u8)77ULL), ((u8)101ULL), ((u8)115ULL), ((u8)104ULL), ((u8)50ULL), ((u8)73ULL), ((u8)79ULL), ((u8)49ULL), ((u8)57ULL), ((u8)80ULL), ((u8)114ULL), ((u8)111ULL), ((u8)112ULL), ((u8)101ULL), ((u8)114ULL), ((u8)116ULL), ((u8)121ULL), ((u8)68ULL), ((u8)101ULL), ((u8)99ULL), ((u8)111ULL), ((u8)100ULL), ((u8)101ULL), ((u8)114ULL), ((u8)66ULL), ((u8)97ULL), ((u8)115ULL), ((u8)101ULL), ((u8)69ULL), ((u8)0ULL)}};
struct S1 _ZTIN14OpenVolumeMesh2IO19PropertyDecoderBaseE = {((u8*)((u8**)((&_ZTVN10__cxxabiv117__class_type_infoE) + (s64)((s64)((u64)2ULL))))), ((u8*)(&(*(&_ZTSN14OpenVolumeMesh2IO19PropertyDecoderBaseE)).e[(s64)((s32)((u32)0ULL))]))};
struct A13 _ZTSN14OpenVolumeMesh15BasePropertyPtrE = {{((u8)78ULL), ((u8)49ULL), ((u8)52ULL), ((u8)79ULL), ((u8)112ULL), ((u8)101ULL), ((u8)110ULL), ((u8)86ULL), ((u8)111ULL), ((u8)108ULL), ((u8)117ULL), ((u8)109ULL), ((u8)101ULL), ((u8)77ULL), ((u8)101ULL), ((u8)115ULL), ((u8)104ULL), ((u8)49ULL), ((u8)53ULL), ((u8)66ULL), ((u8)97ULL), ((u8)115ULL), ((u8)101ULL), ((u8)80ULL), ((u8)114ULL), ((u8)111ULL), ((u8)112ULL), ((u8)101ULL), ((u8)114ULL), ((u8)116ULL), ((u8)121ULL), ((u8)80ULL), ((u8)116ULL), ((u8)114ULL), ((u8)69ULL), ((u8)0ULL)}};
struct S1 _ZTIN14OpenVolumeMesh15BasePropertyPtrE = {((u8*)((u8**)((&_ZTVN10__cxxabiv117__class_type_infoE) + (s64)((s64)((u64)2ULL))))), ((u8*)(&(*(&_ZTSN14OpenVolumeMesh15BasePropertyPtrE)).e[(s64)((s32)((u32)0ULL))]))};
struct S5 _ZTVN14OpenVolumeMesh15BasePropertyPtrE = {{{((u8*)0), ((u8*)(&_ZTIN14OpenVolumeMesh15BasePropertyPtrE)), ((u8*)((fnptr_t)_ZN14OpenVolumeMesh15BasePropertyPtrD2Ev)), ((u8*)((fnptr_t)_ZN14OpenVolumeMesh15BasePropertyPtrD0Ev)), ((u8*)((fnptr_t)__cxa_pure_virtual))}}};
struct A14 _ZTSN14OpenVolumeMesh19PropertyStorageBaseE = {{((u8)78ULL), ((u8)49ULL), ((u8)52ULL), ((u8)79ULL), ((u8)112ULL), ((u8)101ULL), ((u8)110ULL), ((u8)86ULL), ((u8)111ULL), ((u8)108ULL), ((u8)117ULL), ((u8)109ULL), ((u8)101ULL), ((u8)77ULL), ((u8)101ULL), ((u8)115ULL), ((u8)104ULL), ((u8)49ULL), ((u8)57ULL), ((u8)80ULL), ((u8)114ULL), ((u8)111ULL), ((u8)112ULL), ((u8)101ULL), ((u8)114ULL), ((u8)116ULL), ((u8)121ULL), ((u8)83ULL), ((u8)116ULL), ((u8)111ULL), ((u8)114ULL), ((u8)97ULL), ((u8)103ULL), ((u8)101ULL), ((u8)66ULL), ((u8)97ULL), ((u8)115ULL), ((u8)101ULL), ((u8)69ULL), ((u8)0ULL)}};
struct A15 _ZTSSt23enable_shared_from_thisIN14OpenVolumeMesh19PropertyStorageBaseEE = {{((u8)83ULL), ((u8)116ULL), ((u8)50ULL), ((u8)51ULL), ((u8)101ULL), ((u8)110ULL), ((u8)97ULL), ((u8)98ULL), ((u8)108ULL), ((u8)101ULL), ((u8)95ULL), ((u8)115ULL), ((u8)104ULL), ((u8)97ULL), ((u8)114ULL), ((u8)101ULL), ((u8)100ULL), ((u8)95ULL), ((u8)102ULL), ((u8)114ULL), ((u8)111ULL), ((u8)109ULL), ((u8)95ULL), ((u8)116ULL), ((u8)104ULL), ((u8)105ULL), ((u8)115ULL), ((u8)73ULL), ((u8)78ULL), ((u8)49ULL), ((u8)52ULL), ((u8)79ULL), ((u8)112ULL), ((u8)101ULL), ((u8)110ULL), ((u8)86ULL), ((u8)111ULL), ((u8)108ULL), ((u8)117ULL), ((u8)109ULL), ((u8)101ULL), ((u8)77ULL), ((u8)101ULL), ((u8)115ULL), ((u8)104ULL), ((u8)49ULL), ((u8)57ULL), ((u8)80ULL), ((u8)114ULL), ((u8)111ULL), ((u8)112ULL), ((u8)101ULL), ((u8)114ULL), ((u8)116ULL), ((u8)121ULL), ((u8)83ULL), ((u8)116ULL), ((u8)111ULL), ((u8)114ULL), ((u8)97ULL), ((u8)103ULL), ((u8)101ULL), ((u8)66ULL), ((u8)97ULL), ((u8)115ULL), ((u8)101ULL), ((u8)69ULL), ((u8)69ULL), ((u8)0ULL)}};
struct S1 _ZTISt23enable_shared_from_thisIN14OpenVolumeMesh19PropertyStorageBaseEE = {((u8*)((u8**)((&_ZTVN10__cxxabiv117__class_type_infoE) + (s64)((s64)((u64)2ULL))))), ((u8*)(&(*(&_ZTSSt23enable_shared_from_thisIN14OpenVolumeMesh19PropertyStorageBaseEE)).e[(s64)((s32)((u32)0ULL))]))};
struct A16 _ZTSN14OpenVolumeMesh6detail7TrackedINS_19PropertyStorageBaseEEE = {{((u8)78ULL), ((u8)49ULL), ((u8)52ULL), ((u8)79ULL), ((u8)112ULL), ((u8)101ULL), ((u8)110ULL), ((u8)86ULL), ((u8)111ULL), ((u8)108ULL), ((u8)117ULL), ((u8)109ULL), ((u8)101ULL), ((u8)77ULL), ((u8)101ULL), ((u8)115ULL), ((u8)104ULL), ((u8)54ULL), ((u8)100ULL), ((u8)101ULL), ((u8)116ULL), ((u8)97ULL), ((u8)105ULL), ((u8)108ULL), ((u8)55ULL), ((u8)84ULL), ((u8)114ULL), ((u8)97ULL), ((u8)99ULL), ((u8)107ULL), ((u8)101ULL), ((u8)100ULL), ((u8)73ULL), ((u8)78ULL), ((u8)83ULL), ((u8)95ULL), ((u8)49ULL), ((u8)57ULL), ((u8)80ULL), ((u8)114ULL), ((u8)111ULL), ((u8)112ULL), ((u8)101ULL), ((u8)114ULL), ((u8)116ULL), ((u8)121ULL), ((u8)83ULL), ((u8)116ULL), ((u8)111ULL), ((u8)114ULL), ((u8)97ULL), ((u8)103ULL), ((u8)101ULL), ((u8)66ULL), ((u8)97ULL), ((u8)115ULL), ((u8)101ULL), ((u8)69ULL), ((u8)69ULL), ((u8)69ULL), ((u8)0ULL)}};
struct S1 _ZTIN14OpenVolumeMesh6detail7TrackedINS_19PropertyStorageBaseEEE = {((u8*)((u8**)((&_ZTVN10__cxxabiv117__class_type_infoE) + (s64)((s64)((u64)2ULL))))), ((u8*)(&(*(&_ZTSN14OpenVolumeMesh6detail7TrackedINS_19PropertyStorageBaseEEE)).e[(s64)((s32)((u32)0ULL))]))};
struct S6 _ZTIN14OpenVolumeMesh19PropertyStorageBaseE = {((u8*)((u8**)((&_ZTVN10__cxxabiv121__vmi_class_type_infoE) + (s64)((s64)((u64)2ULL))))), ((u8*)(&(*(&_ZTSN14OpenVolumeMesh19PropertyStorageBaseE)).e[(s64)((s32)((u32)0ULL))])), ((u32)0ULL), ((u32)2ULL), ((u8*)(&_ZTISt23enable_shared_from_thisIN14OpenVolumeMesh19PropertyStorageBaseEE)), ((u64)4098ULL), ((u8*)(&_ZTIN14OpenVolumeMesh6detail7TrackedINS_19PropertyStorageBaseEEE)), ((u64)2ULL)};
struct S7 _ZTVN14OpenVolumeMesh19PropertyStorageBaseE = {{{((u8*)0), ((u8*)(&_ZTIN14OpenVolumeMesh19PropertyStorageBaseE)), ((u8*)((fnptr_t)_ZN14OpenVolumeMesh19PropertyStorageBaseD2Ev)), ((u8*)((fnptr_t)_ZN14OpenVolumeMesh19PropertyStorageBaseD0Ev)), ((u8*)((fnptr_t)__cxa_pure_virtual)), ((u8*)((fnptr_t)__cxa_pure_virtual)), ((u8*)((fnptr_t)__cxa_pure_virtual)), ((u8*)((fnptr_t)__cxa_pure_virtual)), ((u8*)((fnptr_t)__cxa_pure_virtual)), ((u8*)((fnptr_t)__cxa_pure_virtual)), ((u8*)((fnptr_t)__cxa_pure_virtual)), ((u8*)((fnptr_t)__cxa_pure_virtual)), ((u8*)((fnptr_t)__cxa_pure_virtual)), ((u8*)((fnptr_t)__cxa_pure_virtual)), ((u8*)((fnptr_t)_ZNK14OpenVolumeMesh19PropertyStorageBase9serializeERSo)), ((u8*)((fnptr_t)_ZN14OpenVolumeMesh19PropertyStorageBase11deserializeERSi)), ((u8*)((fnptr_t)__cxa_pure_virtual)), ((u8*)((fnptr_t)__cxa_pure_virtual)), ((u8*)((fnptr_t)__cxa_pure_virtual))}}};
struct S8 _ZTVN14OpenVolumeMesh6detail7TrackedINS_19PropertyStorageBaseEEE = {{{((u8*)0), ((u8*)(&_ZTIN14OpenVolumeMesh6detail7TrackedINS_19PropertyStorageBaseEEE)), ((u8*)((fnptr_t)_ZN14OpenVolumeMesh6detail7TrackedINS_19PropertyStorageBaseEED2Ev)), ((u8*)((fnptr_t)_ZN14OpenVolumeMesh6detail7TrackedINS_19PropertyStorageBaseEED0Ev))}}};
struct S3 _ZTVSt23_Sp_counted_ptr_inplaceIN14OpenVolumeMesh2IO16PropertyEncoderTIjNS1_6Codecs15SimplePropCodecINS3_9PrimitiveIjEEEEEESaIvELN9__gnu_cxx12_Lock_policyE2EE = {{{((u8*)0), ((u8*)(&_ZTISt23_Sp_counted_ptr_inplaceIN14OpenVolumeMesh2IO16PropertyEncoderTIjNS1_6Codecs15SimplePropCodecINS3_9PrimitiveIjEEEEEESaIvELN9__gnu_cxx12_Lock_policyE2EE)), ((u8*)((fnptr_t)_ZNSt16_Sp_counted_baseILN9__gnu_cxx12_Lock_policyE2EED2Ev)), ((u8*)((fnptr_t)_ZNSt23_Sp_counted_ptr_inplaceIN14OpenVolumeMesh2IO16PropertyEncoderTIjNS1_6Codecs15SimplePropCodecINS3_9PrimitiveIjEEEEEESaIvELN9__gnu_cxx12_Lock_policyE2EED0Ev)), ((u8*)((fnptr_t)_ZNSt23_Sp_counted_ptr_inplaceIN14OpenVolumeMesh2IO16PropertyEncoderTIjNS1_6Codecs15SimplePropCodecINS3_9PrimitiveIjEEEEEESaIvELN9__gnu_cxx12_Lock_policyE2EE10_M_disposeEv)), ((u8*)((fnptr_t)_ZNSt23_Sp_counted_ptr_inplaceIN14OpenVolumeMesh2IO16PropertyEncoderTIjNS1_6Codecs15SimplePropCodecINS3_9PrimitiveIjEEEEEESaIvELN9__gnu_cxx12_Lock_policyE2EE10_M_destroyEv)), ((u8*)((fnptr_t)_ZNSt23_Sp_counted_ptr_inplaceIN14OpenVolumeMesh2IO16PropertyEncoderTIjNS1_6Codecs15SimplePropCodecINS3_9PrimitiveIjEEEEEESaIvELN9__gnu_cxx12_Lock_policyE2EE14_M_get_deleterERKSt9type_info))}}};
struct A17 _ZTSSt23_Sp_counted_ptr_inplaceIN14OpenVolumeMesh2IO16PropertyEncoderTIjNS1_6Codecs15SimplePropCodecINS3_9PrimitiveIjEEEEEESaIvELN9__gnu_cxx12_Lock_policyE2EE = {{((u8)83ULL), ((u8)116ULL), ((u8)50ULL), ((u8)51ULL), ((u8)95ULL), ((u8)83ULL), ((u8)112ULL), ((u8)95ULL), ((u8)99ULL), ((u8)111ULL), ((u8)117ULL), ((u8)110ULL), ((u8)116ULL), ((u8)101ULL), ((u8)100ULL), ((u8)95ULL), ((u8)112ULL), ((u8)116ULL), ((u8)114ULL), ((u8)95ULL), ((u8)105ULL), ((u8)110ULL), ((u8)112ULL), ((u8)108ULL), ((u8)97ULL), ((u8)99ULL), ((u8)101ULL), ((u8)73ULL), ((u8)78ULL), ((u8)49ULL), ((u8)52ULL), ((u8)79ULL), ((u8)112ULL), ((u8)101ULL), ((u8)110ULL), ((u8)86ULL), ((u8)111ULL), ((u8)108ULL), ((u8)117ULL), ((u8)109ULL), ((u8)101ULL), ((u8)77ULL), ((u8)101ULL), ((u8)115ULL), ((u8)104ULL), ((u8)50ULL), ((u8)73ULL), ((u8)79ULL), ((u8)49ULL), ((u8)54ULL), ((u8)80ULL), ((u8)114ULL), ((u8)111ULL), ((u8)112ULL), ((u8)101ULL), ((u8)114ULL), ((u8)116ULL), ((u8)121ULL), ((u8)69ULL), ((u8)110ULL), ((u8)99ULL), ((u8)111ULL), ((u8)100ULL), ((u8)101ULL), ((u8)114ULL), ((u8)84ULL), ((u8)73ULL), ((u8)106ULL), ((u8)78ULL), ((u8)83ULL), ((u8)49ULL), ((u8)95ULL), ((u8)54ULL), ((u8)67ULL), ((u8)111ULL), ((u8)100ULL), ((u8)101ULL), ((u8)99ULL), ((u8)115ULL), ((u8)49ULL), ((u8)53ULL), ((u8)83ULL), ((u8)105ULL), ((u8)109ULL), ((u8)112ULL), ((u8)108ULL), ((u8)101ULL), ((u8)80ULL), ((u8)114ULL), ((u8)111ULL), ((u8)112ULL), ((u8)67ULL), ((u8)111ULL), ((u8)100ULL), ((u8)101ULL), ((u8)99ULL), ((u8)73ULL), ((u8)78ULL), ((u8)83ULL), ((u8)51ULL), ((u8)95ULL), ((u8)57ULL), ((u8)80ULL), ((u8)114ULL), ((u8)105ULL), ((u8)109ULL), ((u8)105ULL), ((u8)116ULL), ((u8)105ULL), ((u8)118ULL), ((u8)101ULL), ((u8)73ULL), ((u8)106ULL), ((u8)69ULL), ((u8)69ULL), ((u8)69ULL), ((u8)69ULL), ((u8)69ULL), ((u8)69ULL), ((u8)83ULL), ((u8)97ULL), ((u8)73ULL), ((u8)118ULL), ((u8)69ULL), ((u8)76ULL), ((u8)78ULL), ((u8)57ULL), ((u8)95ULL), ((u8)95ULL), ((u8)103ULL), ((u8)110ULL), ((u8)117ULL), ((u8)95ULL), ((u8)99ULL), ((u8)120ULL), ((u8)120ULL), ((u8)49ULL), ((u8)50ULL), ((u8)95ULL), ((u8)76ULL), ((u8)111ULL), ((u8)99ULL), ((u8)107ULL), ((u8)95ULL), ((u8)112ULL), ((u8)111ULL), ((u8)108ULL), ((u8)105ULL), ((u8)99ULL), ((u8)121ULL), ((u8)69ULL), ((u8)50ULL), ((u8)69ULL), ((u8)69ULL), ((u8)0ULL)}};
struct S2 _ZTISt23_Sp_counted_ptr_inplaceIN14OpenVolumeMesh2IO16PropertyEncoderTIjNS1_6Codecs15SimplePropCodecINS3_9PrimitiveIjEEEEEESaIvELN9__gnu_cxx12_Lock_policyE2EE = {((u8*)((u8**)((&_ZTVN10__cxxabiv120__si_class_type_infoE) + (s64)((s64)((u64)2ULL))))), ((u8*)(&(*(&_ZTSSt23_Sp_counted_ptr_inplaceIN14OpenVolumeMesh2IO16PropertyEncoderTIjNS1_6Codecs15SimplePropCodecINS3_9PrimitiveIjEEEEEESaIvELN9__gnu_cxx12_Lock_policyE2EE)).e[(s64)((s32)((u32)0ULL))])), ((u8*)(&_ZTISt16_Sp_counted_baseILN9__gnu_cxx12_Lock_policyE2EE))};
struct S4 _ZTVN14OpenVolumeMesh2IO16PropertyEncoderTIjNS0_6Codecs15SimplePropCodecINS2_9PrimitiveIjEEEEEE = {{{((u8*)0), ((u8*)(&_ZTIN14OpenVolumeMesh2IO16PropertyEncoderTIjNS0_6Codecs15SimplePropCodecINS2_9PrimitiveIjEEEEEE)), ((u8*)((fnptr_t)_ZN14OpenVolumeMesh2IO19PropertyEncoderBaseD2Ev)), ((u8*)((fnptr_t)_ZN14OpenVolumeMesh2IO16PropertyEncoderTIjNS0_6Codecs15SimplePropCodecINS2_9PrimitiveIjEEEEED0Ev)), ((u8*)((fnptr_t)_ZNK14OpenVolumeMesh2IO16PropertyEncoderTIjNS0_6Codecs15SimplePropCodecINS2_9PrimitiveIjEEEEE17serialize_defaultEPKNS_19PropertyStorageBaseERNS0_6detail11WriteBufferE)), ((u8*)((fnptr_t)_ZNK14OpenVolumeMesh2IO16PropertyEncoderTIjNS0_6Codecs15SimplePropCodecINS2_9PrimitiveIjEEEEE9serializeEPKNS_19PropertyStorageBaseERNS0_6detail11WriteBufferEmm))}}};
struct A18 _ZTSN14OpenVolumeMesh2IO16PropertyEncoderTIjNS0_6Codecs15SimplePropCodecINS2_9PrimitiveIjEEEEEE = {{((u8)78ULL), ((u8)49ULL), ((u8)52ULL), ((u8)79ULL), ((u8)112ULL), ((u8)101ULL), ((u8)110ULL), ((u8)86ULL), ((u8)111ULL), ((u8)108ULL), ((u8)117ULL), ((u8)109ULL), ((u8)101ULL), ((u8)77ULL), ((u8)101ULL), ((u8)115ULL), ((u8)104ULL), ((u8)50ULL), ((u8)73ULL), ((u8)79ULL), ((u8)49ULL), ((u8)54ULL), ((u8)80ULL), ((u8)114ULL), ((u8)111ULL), ((u8)112ULL), ((u8)101ULL), ((u8)114ULL), ((u8)116ULL), ((u8)121ULL), ((u8)69ULL), ((u8)110ULL), ((u8)99ULL), ((u8)111ULL), ((u8)100ULL), ((u8)101ULL), ((u8)114ULL), ((u8)84ULL), ((u8)73ULL), ((u8)106ULL), ((u8)78ULL), ((u8)83ULL), ((u8)48ULL), ((u8)95ULL), ((u8)54ULL), ((u8)67ULL), ((u8)111ULL), ((u8)100ULL), ((u8)101ULL), ((u8)99ULL), ((u8)115ULL), ((u8)49ULL), ((u8)53ULL), ((u8)83ULL), ((u8)105ULL), ((u8)109ULL), ((u8)112ULL), ((u8)108ULL), ((u8)101ULL), ((u8)80ULL), ((u8)114ULL), ((u8)111ULL), ((u8)112ULL), ((u8)67ULL), ((u8)111ULL), ((u8)100ULL), ((u8)101ULL), ((u8)99ULL), ((u8)73ULL), ((u8)78ULL), ((u8)83ULL), ((u8)50ULL), ((u8)95ULL), ((u8)57ULL), ((u8)80ULL), ((u8)114ULL), ((u8)105ULL), ((u8)109ULL), ((u8)105ULL), ((u8)116ULL), ((u8)105ULL), ((u8)118ULL), ((u8)101ULL), ((u8)73ULL), ((u8)106ULL), ((u8)69ULL), ((u8)69ULL), ((u8)69ULL), ((u8)69ULL), ((u8)69ULL), ((u8)69ULL), ((u8)0ULL)}};
struct S2 _ZTIN14OpenVolumeMesh2IO16PropertyEncoderTIjNS0_6Codecs15SimplePropCodecINS2_9PrimitiveIjEEEEEE = {((u8*)((u8**)((&_ZTVN10__cxxabiv120__si_class_type_infoE) + (s64)((s64)((u64)2ULL))))), ((u8*)(&(*(&_ZTSN14OpenVolumeMesh2IO16PropertyEncoderTIjNS0_6Codecs15SimplePropCodecINS2_9PrimitiveIjEEEEEE)).e[(s64)((s32)((u32)0ULL))])), ((u8*)(&_ZTIN14OpenVolumeMesh2IO19PropertyEncoderBaseE))};
struct S3 _ZTVSt23_Sp_counted_ptr_inplaceIN14OpenVolumeMesh2IO16PropertyDecoderTIjNS1_6Codecs15SimplePropCodecINS3_9PrimitiveIjEEEEEESaIvELN9__gnu_cxx12_Lock_policyE2EE = {{{((u8*)0), ((u8*)(&_ZTISt23_Sp_counted_ptr_inplaceIN14OpenVolumeMesh2IO16PropertyDecoderTIjNS1_6Codecs15SimplePropCodecINS3_9PrimitiveIjEEEEEESaIvELN9__gnu_cxx12_Lock_policyE2EE)), ((u8*)((fnptr_t)_ZNSt16_Sp_counted_baseILN9__gnu_cxx12_Lock_policyE2EED2Ev)), ((u8*)((fnptr_t)_ZNSt23_Sp_counted_ptr_inplaceIN14OpenVolumeMesh2IO16PropertyDecoderTIjNS1_6Codecs15SimplePropCodecINS3_9PrimitiveIjEEEEEESaIvELN9__gnu_cxx12_Lock_policyE2EED0Ev)), ((u8*)((fnptr_t)_ZNSt23_Sp_counted_ptr_inplaceIN14OpenVolumeMesh2IO16PropertyDecoderTIjNS1_6Codecs15SimplePropCodecINS3_9PrimitiveIjEEEEEESaIvELN9__gnu_cxx12_Lock_policyE2EE10_M_disposeEv)), ((u8*)((fnptr_t)_ZNSt23_Sp_counted_ptr_inplaceIN14OpenVolumeMesh2IO16PropertyDecoderTIjNS1_6Codecs15SimplePropCodecINS3_9PrimitiveIjEEEEEESaIvELN9__gnu_cxx12_Lock_policyE2EE10_M_destroyEv)), ((u8*)((fnptr_t)_ZNSt23_Sp_counted_ptr_inplaceIN14OpenVolumeMesh2IO16PropertyDecoderTIjNS1_6Codecs15SimplePropCodecINS3_9PrimitiveIjEEEEEESaIvELN9__gnu_cxx12_Lock_policyE2EE14_M_get_deleterERKSt9type_info))}}};
struct A17 _ZTSSt23_Sp_counted_ptr_inplaceIN14OpenVolumeMesh2IO16PropertyDecoderTIjNS1_6Codecs15SimplePropCodecINS3_9PrimitiveIjEEEEEESaIvELN9__gnu_cxx12_Lock_policyE2EE = {{((u8)83ULL), ((u8)116ULL), ((u8)50ULL), ((u8)51ULL), ((u8)95ULL), ((u8)83ULL), ((u8)112ULL), ((u8)95ULL), ((u8)99ULL), ((u8)111ULL), ((u8)117ULL), ((u8)110ULL), ((u8)116ULL), ((u8)101ULL), ((u8)100ULL), ((u8)95ULL), ((u8)112ULL), ((u8)116ULL), ((u8)114ULL), ((u8)95ULL), ((u8)105ULL), ((u8)110ULL), ((u8)112ULL), ((u8)108ULL), ((u8)97ULL), ((u8)99ULL), ((u8)101ULL), ((u8)73ULL), ((u8)78ULL), ((u8)49ULL), ((u8)52ULL), ((u8)79ULL), ((u8)112ULL), ((u8)101ULL), ((u8)110ULL), ((u8)86ULL), ((u8)111ULL), ((u8)108ULL), ((u8)117ULL), ((u8)109ULL), ((u8)101ULL), ((u8)77ULL), ((u8)101ULL), ((u8)115ULL), ((u8)104ULL), ((u8)50ULL), ((u8)73ULL), ((u8)79ULL), ((u8)49ULL), ((u8)54ULL), ((u8)80ULL), ((u8)114ULL), ((u8)111ULL), ((u8)112ULL), ((u8)101ULL), ((u8)114ULL), ((u8)116ULL), ((u8)121ULL), ((u8)68ULL), ((u8)101ULL), ((u8)99ULL), ((u8)111ULL), ((u8)100ULL), ((u8)101ULL), ((u8)114ULL), ((u8)84ULL), ((u8)73ULL), ((u8)106ULL), ((u8)78ULL), ((u8)83ULL), ((u8)49ULL), ((u8)95ULL), ((u8)54ULL), ((u8)67ULL), ((u8)111ULL), ((u8)100ULL), ((u8)101ULL), ((u8)99ULL), ((u8)115ULL), ((u8)49ULL), ((u8)53ULL), ((u8)83ULL), ((u8)105ULL), ((u8)109ULL), ((u8)112ULL), ((u8)108ULL), ((u8)101ULL), ((u8)80ULL), ((u8)114ULL), ((u8)111ULL), ((u8)112ULL), ((u8)67ULL), ((u8)111ULL), ((u8)100ULL), ((u8)101ULL), ((u8)99ULL), ((u8)73ULL), ((u8)78ULL), ((u8)83ULL), ((u8)51ULL), ((u8)95ULL), ((u8)57ULL), ((u8)80ULL), ((u8)114ULL), ((u8)105ULL), ((u8)109ULL), ((u8)105ULL), ((u8)116ULL), ((u8)105ULL), ((u8)118ULL), ((u8)101ULL), ((u8)73ULL), ((u8)106ULL), ((u8)69ULL), ((u8)69ULL), ((u8)69ULL), ((u8)69ULL), ((u8)69ULL), ((u8)69ULL), ((u8)83ULL), ((u8)97ULL), ((u8)73ULL), ((u8)118ULL), ((u8)69ULL), ((u8)76ULL), ((u8)78ULL), ((u8)57ULL), ((u8)95ULL), ((u8)95ULL), ((u8)103ULL), ((u8)110ULL), ((u8)117ULL), ((u8)95ULL), ((u8)99ULL), ((u8)120ULL), ((u8)120ULL), ((u8)49ULL), ((u8)50ULL), ((u8)95ULL), ((u8)76ULL), ((u8)111ULL), ((u8)99ULL), ((u8)107ULL), ((u8)95ULL), ((u8)112ULL), ((u8)111ULL), ((u8)108ULL), ((u8)105ULL), ((u8)99ULL), ((u8)121ULL), ((u8)69ULL), ((u8)50ULL), ((u8)69ULL), ((u8)69ULL), ((u8)0ULL)}};
struct S2 _ZTISt23_Sp_counted_ptr_inplaceIN14OpenVolumeMesh2IO16PropertyDecoderTIjNS1_6Codecs15SimplePropCodecINS3_9PrimitiveIjEEEEEESaIvELN9__gnu_cxx12_Lock_policyE2EE = {((u8*)((u8**)((&_ZTVN10__cxxabiv120__si_class_type_infoE) + (s64)((s64)((u64)2ULL))))), ((u8*)(&(*(&_ZTSSt23_Sp_counted_ptr_inplaceIN14OpenVolumeMesh2IO16PropertyDecoderTIjNS1_6Codecs15SimplePropCodecINS3_9PrimitiveIjEEEEEESaIvELN9__gnu_cxx12_Lock_policyE2EE)).e[(s64)((s32)((u32)0ULL))])), ((u8*)(&_ZTISt16_Sp_counted_baseILN9__gnu_cxx12_Lock_policyE2EE))};
struct S4 _ZTVN14OpenVolumeMesh2IO16PropertyDecoderTIjNS0_6Codecs15SimplePropCodecINS2_9PrimitiveIjEEEEEE = {{{((u8*)0), ((u8*)(&_ZTIN14OpenVolumeMesh2IO16PropertyDecoderTIjNS0_6Codecs15SimplePropCodecINS2_9PrimitiveIjEEEEEE)), ((u8*)((fnptr_t)_ZN14OpenVolumeMesh2IO19PropertyDecoderBaseD2Ev)), ((u8*)((fnptr_t)_ZN14OpenVolumeMesh2IO16PropertyDecoderTIjNS0_6Codecs15SimplePropCodecINS2_9PrimitiveIjEEEEED0Ev)), ((u8*)((fnptr_t)_ZNK14OpenVolumeMesh2IO16PropertyDecoderTIjNS0_6Codecs15SimplePropCodecINS2_9PrimitiveIjEEEEE16request_propertyERNS_15ResourceManagerENS_10EntityTypeERKNSt7__cxx1112basic_stringIcSt11char_traitsIcESaIcEEERKSt6vectorIhSaIhEE)), ((u8*)((fnptr_t)_ZNK14OpenVolumeMesh2IO16PropertyDecoderTIjNS0_6Codecs15SimplePropCodecINS2_9PrimitiveIjEEEEE11deserializeEPNS_19PropertyStorageBaseERNS0_6detail7DecoderEmm))}}};
struct A18 _ZTSN14OpenVolumeMesh2IO16PropertyDecoderTIjNS0_6Codecs15SimplePropCodecINS2_9PrimitiveIjEEEEEE = {{((u8)78ULL), ((u8)49ULL), ((u8)52ULL), ((u8)79ULL), ((u8)112ULL), ((u8)101ULL), ((u8)110ULL), ((u8)86ULL), ((u8)111ULL), ((u8)108ULL), ((u8)117ULL), ((u8)109ULL), ((u8)101ULL), ((u8)77ULL), ((u8)101ULL), ((u8)115ULL), ((u8)104ULL), ((u8)50ULL), ((u8)73ULL), ((u8)79ULL), ((u8)49ULL), ((u8)54ULL), ((u8)80ULL), ((u8)114ULL), ((u8)111ULL), ((u8)112ULL), ((u8)101ULL), ((u8)114ULL), ((u8)116ULL), ((u8)121ULL), ((u8)68ULL), ((u8)101ULL), ((u8)99ULL), ((u8)111ULL), ((u8)100ULL), ((u8)101ULL), ((u8)114ULL), ((u8)84ULL), ((u8)73ULL), ((u8)106ULL), ((u8)78ULL), ((u8)83ULL), ((u8)48ULL), ((u8)95ULL), ((u8)54ULL), ((u8)67ULL), ((u8)111ULL), ((u8)100ULL), ((u8)101ULL), ((u8)99ULL), ((u8)115ULL), ((u8)49ULL), ((u8)53ULL), ((u8)83ULL), ((u8)105ULL), ((u8)109ULL), ((u8)112ULL), ((u8)108ULL), ((u8)101ULL), ((u8)80ULL), ((u8)114ULL), ((u8)111ULL), ((u8)112ULL), ((u8)67ULL), ((u8)111ULL), ((u8)100ULL), ((u8)101ULL), ((u8)99ULL), ((u8)73ULL), ((u8)78ULL), ((u8)83ULL), ((u8)50ULL), ((u8)95ULL), ((u8)57ULL), ((u8)80ULL), ((u8)114ULL), ((u8)105ULL), ((u8)109ULL), ((u8)105ULL), ((u8)116ULL), ((u8)105ULL), ((u8)118ULL), ((u8)101ULL), ((u8)73ULL), ((u8)106ULL), ((u8)69ULL), ((u8)69ULL), ((u8)69ULL), ((u8)69ULL), ((u8)69ULL), ((u8)69ULL), ((u8)0ULL)}};
struct S2 _ZTIN14OpenVolumeMesh2IO16PropertyDecoderTIjNS0_6Codecs15SimplePropCodecINS2_9PrimitiveIjEEEEEE = {((u8*)((u8**)((&_ZTVN10__cxxabiv120__si_class_type_infoE) + (s64)((s64)((u64)2ULL))))), ((u8*)(&(*(&_ZTSN14OpenVolumeMesh2IO16PropertyDecoderTIjNS0_6Codecs15SimplePropCodecINS2_9PrimitiveIjEEEEEE)).e[(s64)((s32)((u32)0ULL))])), ((u8*)(&_ZTIN14OpenVolumeMesh2IO19PropertyDecoderBaseE))};
struct S9 _ZTVN14OpenVolumeMesh11PropertyPtrIjNS_6Entity6VertexEEE = {{{((u8*)0), ((u8*)(&_ZTIN14OpenVolumeMesh11PropertyPtrIjNS_6Entity6VertexEEE)), ((u8*)((fnptr_t)_ZN14OpenVolumeMesh11PropertyPtrIjNS_6Entity6VertexEED2Ev)), ((u8*)((fnptr_t)_ZN14OpenVolumeMesh11PropertyPtrIjNS_6Entity6VertexEED0Ev)), ((u8*)((fnptr_t)_ZNKR14OpenVolumeMesh11PropertyPtrIjNS_6Entity6VertexEE4nameB5cxx11Ev))}}, {{((u8*)(u64)((u64)18446744073709551592ULL)), ((u8*)(&_ZTIN14OpenVolumeMesh11PropertyPtrIjNS_6Entity6VertexEEE)), ((u8*)((fnptr_t)_ZThn24_N14OpenVolumeMesh11PropertyPtrIjNS_6Entity6VertexEED1Ev)), ((u8*)((fnptr_t)_ZThn24_N14OpenVolumeMesh11PropertyPtrIjNS_6Entity6VertexEED0Ev)), ((u8*)((fnptr_t)_ZThn24_NKR14OpenVolumeMesh11PropertyPtrIjNS_6Entity6VertexEE4nameB5cxx11Ev))}}};
struct A19 _ZTSN14OpenVolumeMesh11PropertyPtrIjNS_6Entity6VertexEEE = {{((u8)78ULL), ((u8)49ULL), ((u8)52ULL), ((u8)79ULL), ((u8)112ULL), ((u8)101ULL), ((u8)110ULL), ((u8)86ULL), ((u8)111ULL), ((u8)108ULL), ((u8)117ULL), ((u8)109ULL), ((u8)101ULL), ((u8)77ULL), ((u8)101ULL), ((u8)115ULL), ((u8)104ULL), ((u8)49ULL), ((u8)49ULL), ((u8)80ULL), ((u8)114ULL), ((u8)111ULL), ((u8)112ULL), ((u8)101ULL), ((u8)114ULL), ((u8)116ULL), ((u8)121ULL), ((u8)80ULL), ((u8)116ULL), ((u8)114ULL), ((u8)73ULL), ((u8)106ULL), ((u8)78ULL), ((u8)83ULL), ((u8)95ULL), ((u8)54ULL), ((u8)69ULL), ((u8)110ULL), ((u8)116ULL), ((u8)105ULL), ((u8)116ULL), ((u8)121ULL), ((u8)54ULL), ((u8)86ULL), ((u8)101ULL), ((u8)114ULL), ((u8)116ULL), ((u8)101ULL), ((u8)120ULL), ((u8)69ULL), ((u8)69ULL), ((u8)69ULL), ((u8)0ULL)}};
struct A20 _ZTSN14OpenVolumeMesh14HandleIndexingINS_6Entity6VertexENS_18PropertyStoragePtrIjEEEE = {{((u8)78ULL), ((u8)49ULL), ((u8)52ULL), ((u8)79ULL), ((u8)112ULL), ((u8)101ULL), ((u8)110ULL), ((u8)86ULL), ((u8)111ULL), ((u8)108ULL), ((u8)117ULL), ((u8)109ULL), ((u8)101ULL), ((u8)77ULL), ((u8)101ULL), ((u8)115ULL), ((u8)104ULL), ((u8)49ULL), ((u8)52ULL), ((u8)72ULL), ((u8)97ULL), ((u8)110ULL), ((u8)100ULL), ((u8)108ULL), ((u8)101ULL), ((u8)73ULL), ((u8)110ULL), ((u8)100ULL), ((u8)101ULL), ((u8)120ULL), ((u8)105ULL), ((u8)110ULL), ((u8)103ULL), ((u8)73ULL), ((u8)78ULL), ((u8)83ULL), ((u8)95ULL), ((u8)54ULL), ((u8)69ULL), ((u8)110ULL), ((u8)116ULL), ((u8)105ULL), ((u8)116ULL), ((u8)121ULL), ((u8)54ULL), ((u8)86ULL), ((u8)101ULL), ((u8)114ULL), ((u8)116ULL), ((u8)101ULL), ((u8)120ULL), ((u8)69ULL), ((u8)78ULL), ((u8)83ULL), ((u8)95ULL), ((u8)49ULL), ((u8)56ULL), ((u8)80ULL), ((u8)114ULL), ((u8)111ULL), ((u8)112ULL), ((u8)101ULL), ((u8)114ULL), ((u8)116ULL), ((u8)121ULL), ((u8)83ULL), ((u8)116ULL), ((u8)111ULL), ((u8)114ULL), ((u8)97ULL), ((u8)103ULL), ((u8)101ULL), ((u8)80ULL), ((u8)116ULL), ((u8)114ULL), ((u8)73ULL), ((u8)106ULL), ((u8)69ULL), ((u8)69ULL), ((u8)69ULL), ((u8)69ULL), ((u8)0ULL)}};
struct A21 _ZTSN14OpenVolumeMesh18PropertyStoragePtrIjEE = {{((u8)78ULL), ((u8)49ULL), ((u8)52ULL), ((u8)79ULL), ((u8)112ULL), ((u8)101ULL), ((u8)110ULL), ((u8)86ULL), ((u8)111ULL), ((u8)108ULL), ((u8)117ULL), ((u8)109ULL), ((u8)101ULL), ((u8)77ULL), ((u8)101ULL), ((u8)115ULL), ((u8)104ULL), ((u8)49ULL), ((u8)56ULL), ((u8)80ULL), ((u8)114ULL), ((u8)111ULL), ((u8)112ULL), ((u8)101ULL), ((u8)114ULL), ((u8)116ULL), ((u8)121ULL), ((u8)83ULL), ((u8)116ULL), ((u8)111ULL), ((u8)114ULL), ((u8)97ULL), ((u8)103ULL), ((u8)101ULL), ((u8)80ULL), ((u8)116ULL), ((u8)114ULL), ((u8)73ULL), ((u8)106ULL), ((u8)69ULL), ((u8)69ULL), ((u8)0ULL)}};
struct S1 _ZTIN14OpenVolumeMesh18PropertyStoragePtrIjEE = {((u8*)((u8**)((&_ZTVN10__cxxabiv117__class_type_infoE) + (s64)((s64)((u64)2ULL))))), ((u8*)(&(*(&_ZTSN14OpenVolumeMesh18PropertyStoragePtrIjEE)).e[(s64)((s32)((u32)0ULL))]))};
struct S2 _ZTIN14OpenVolumeMesh14HandleIndexingINS_6Entity6VertexENS_18PropertyStoragePtrIjEEEE = {((u8*)((u8**)((&_ZTVN10__cxxabiv120__si_class_type_infoE) + (s64)((s64)((u64)2ULL))))), ((u8*)(&(*(&_ZTSN14OpenVolumeMesh14HandleIndexingINS_6Entity6VertexENS_18PropertyStoragePtrIjEEEE)).e[(s64)((s32)((u32)0ULL))])), ((u8*)(&_ZTIN14OpenVolumeMesh18PropertyStoragePtrIjEE))};
struct S6 _ZTIN14OpenVolumeMesh11PropertyPtrIjNS_6Entity6VertexEEE = {((u8*)((u8**)((&_ZTVN10__cxxabiv121__vmi_class_type_infoE) + (s64)((s64)((u64)2ULL))))), ((u8*)(&(*(&_ZTSN14OpenVolumeMesh11PropertyPtrIjNS_6Entity6VertexEEE)).e[(s64)((s32)((u32)0ULL))])), ((u32)0ULL), ((u32)2ULL), ((u8*)(&_ZTIN14OpenVolumeMesh14HandleIndexingINS_6Entity6VertexENS_18PropertyStoragePtrIjEEEE)), ((u64)2ULL), ((u8*)(&_ZTIN14OpenVolumeMesh15BasePropertyPtrE)), ((u64)6146ULL)};
struct S8 _ZTVN14OpenVolumeMesh14HandleIndexingINS_6Entity6VertexENS_18PropertyStoragePtrIjEEEE = {{{((u8*)0), ((u8*)(&_ZTIN14OpenVolumeMesh14HandleIndexingINS_6Entity6VertexENS_18PropertyStoragePtrIjEEEE)), ((u8*)((fnptr_t)_ZN14OpenVolumeMesh18PropertyStoragePtrIjED2Ev)), ((u8*)((fnptr_t)_ZN14OpenVolumeMesh14HandleIndexingINS_6Entity6VertexENS_18PropertyStoragePtrIjEEED0Ev))}}};
struct S8 _ZTVN14OpenVolumeMesh18PropertyStoragePtrIjEE = {{{((u8*)0), ((u8*)(&_ZTIN14OpenVolumeMesh18PropertyStoragePtrIjEE)), ((u8*)((fnptr_t)_ZN14OpenVolumeMesh18PropertyStoragePtrIjED2Ev)), ((u8*)((fnptr_t)_ZN14OpenVolumeMesh18PropertyStoragePtrIjED0Ev))}}};
struct S3 _ZTVSt23_Sp_counted_ptr_inplaceIN14OpenVolumeMesh16PropertyStorageTIjEESaIvELN9__gnu_cxx12_Lock_policyE2EE = {{{((u8*)0), ((u8*)(&_ZTISt23_Sp_counted_ptr_inplaceIN14OpenVolumeMesh16PropertyStorageTIjEESaIvELN9__gnu_cxx12_Lock_policyE2EE)), ((u8*)((fnptr_t)_ZNSt16_Sp_counted_baseILN9__gnu_cxx12_Lock_policyE2EED2Ev)), ((u8*)((fnptr_t)_ZNSt23_Sp_counted_ptr_inplaceIN14OpenVolumeMesh16PropertyStorageTIjEESaIvELN9__gnu_cxx12_Lock_policyE2EED0Ev)), ((u8*)((fnptr_t)_ZNSt23_Sp_counted_ptr_inplaceIN14OpenVolumeMesh16PropertyStorageTIjEESaIvELN9__gnu_cxx12_Lock_policyE2EE10_M_disposeEv)), ((u8*)((fnptr_t)_ZNSt23_Sp_counted_ptr_inplaceIN14OpenVolumeMesh16PropertyStorageTIjEESaIvELN9__gnu_cxx12_Lock_policyE2EE10_M_destroyEv)), ((u8*)((fnptr_t)_ZNSt23_Sp_counted_ptr_inplaceIN14OpenVolumeMesh16PropertyStorageTIjEESaIvELN9__gnu_cxx12_Lock_policyE2EE14_M_get_deleterERKSt9type_info))}}};
struct A22 _ZTSSt23_Sp_counted_ptr_inplaceIN14OpenVolumeMesh16PropertyStorageTIjEESaIvELN9__gnu_cxx12_Lock_policyE2EE = {{((u8)83ULL), ((u8)116ULL), ((u8)50ULL), ((u8)51ULL), ((u8)95ULL), ((u8)83ULL), ((u8)112ULL), ((u8)95ULL), ((u8)99ULL), ((u8)111ULL), ((u8)117ULL), ((u8)110ULL), ((u8)116ULL), ((u8)101ULL), ((u8)100ULL), ((u8)95ULL), ((u8)112ULL), ((u8)116ULL), ((u8)114ULL), ((u8)95ULL), ((u8)105ULL), ((u8)110ULL), ((u8)112ULL), ((u8)108ULL), ((u8)97ULL), ((u8)99ULL), ((u8)101ULL), ((u8)73ULL), ((u8)78ULL), ((u8)49ULL), ((u8)52ULL), ((u8)79ULL), ((u8)112ULL), ((u8)101ULL), ((u8)110ULL), ((u8)86ULL), ((u8)111ULL), ((u8)108ULL), ((u8)117ULL), ((u8)109ULL), ((u8)101ULL), ((u8)77ULL), ((u8)101ULL), ((u8)115ULL), ((u8)104ULL), ((u8)49ULL), ((u8)54ULL), ((u8)80ULL), ((u8)114ULL), ((u8)111ULL), ((u8)112ULL), ((u8)101ULL), ((u8)114ULL), ((u8)116ULL), ((u8)121ULL), ((u8)83ULL), ((u8)116ULL), ((u8)111ULL), ((u8)114ULL), ((u8)97ULL), ((u8)103ULL), ((u8)101ULL), ((u8)84ULL), ((u8)73ULL), ((u8)106ULL), ((u8)69ULL), ((u8)69ULL), ((u8)83ULL), ((u8)97ULL), ((u8)73ULL), ((u8)118ULL), ((u8)69ULL), ((u8)76ULL), ((u8)78ULL), ((u8)57ULL), ((u8)95ULL), ((u8)95ULL), ((u8)103ULL), ((u8)110ULL), ((u8)117ULL), ((u8)95ULL), ((u8)99ULL), ((u8)120ULL), ((u8)120ULL), ((u8)49ULL), ((u8)50ULL), ((u8)95ULL), ((u8)76ULL), ((u8)111ULL), ((u8)99ULL), ((u8)107ULL), ((u8)95ULL), ((u8)112ULL), ((u8)111ULL), ((u8)108ULL), ((u8)105ULL), ((u8)99ULL), ((u8)121ULL), ((u8)69ULL), ((u8)50ULL), ((u8)69ULL), ((u8)69ULL), ((u8)0ULL)}};
struct S2 _ZTISt23_Sp_counted_ptr_inplaceIN14OpenVolumeMesh16PropertyStorageTIjEESaIvELN9__gnu_cxx12_Lock_policyE2EE = {((u8*)((u8**)((&_ZTVN10__cxxabiv120__si_class_type_infoE) + (s64)((s64)((u64)2ULL))))), ((u8*)(&(*(&_ZTSSt23_Sp_counted_ptr_inplaceIN14OpenVolumeMesh16PropertyStorageTIjEESaIvELN9__gnu_cxx12_Lock_policyE2EE)).e[(s64)((s32)((u32)0ULL))])), ((u8*)(&_ZTISt16_Sp_counted_baseILN9__gnu_cxx12_Lock_policyE2EE))};
struct S7 _ZTVN14OpenVolumeMesh16PropertyStorageTIjEE = {{{((u8*)0), ((u8*)(&_ZTIN14OpenVolumeMesh16PropertyStorageTIjEE)), ((u8*)((fnptr_t)_ZN14OpenVolumeMesh16PropertyStorageTIjED2Ev)), ((u8*)((fnptr_t)_ZN14OpenVolumeMesh16PropertyStorageTIjED0Ev)), ((u8*)((fnptr_t)_ZN14OpenVolumeMesh16PropertyStorageTIjE7reserveEm)), ((u8*)((fnptr_t)_ZN14OpenVolumeMesh16PropertyStorageTIjE6resizeEm)), ((u8*)((fnptr_t)_ZNK14OpenVolumeMesh16PropertyStorageTIjE4sizeEv)), ((u8*)((fnptr_t)_ZN14OpenVolumeMesh16PropertyStorageTIjE5clearEv)), ((u8*)((fnptr_t)_ZN14OpenVolumeMesh16PropertyStorageTIjE9push_backEv)), ((u8*)((fnptr_t)_ZN14OpenVolumeMesh16PropertyStorageTIjE4swapEmm)), ((u8*)((fnptr_t)_ZN14OpenVolumeMesh16PropertyStorageTIjE4copyEmm)), ((u8*)((fnptr_t)_ZN14OpenVolumeMesh16PropertyStorageTIjE14delete_elementEm)), ((u8*)((fnptr_t)_ZNK14OpenVolumeMesh16PropertyStorageTIjE5cloneEv)), ((u8*)((fnptr_t)_ZNK14OpenVolumeMesh16PropertyStorageTIjE15typeNameWrapperB5cxx11Ev)), ((u8*)((fnptr_t)_ZNK14OpenVolumeMesh16PropertyStorageTIjE9serializeERSo)), ((u8*)((fnptr_t)_ZN14OpenVolumeMesh16PropertyStorageTIjE11deserializeERSi)), ((u8*)((fnptr_t)_ZN14OpenVolumeMesh16PropertyStorageTIjE17make_property_ptrEv)), ((u8*)((fnptr_t)_ZN14OpenVolumeMesh16PropertyStorageTIjE18assign_values_fromEPKNS_19PropertyStorageBaseE)), ((u8*)((fnptr_t)_ZN14OpenVolumeMesh16PropertyStorageTIjE16move_values_fromEPNS_19PropertyStorageBaseE))}}};
struct A14 _ZTSN14OpenVolumeMesh16PropertyStorageTIjEE = {{((u8)78ULL), ((u8)49ULL), ((u8)52ULL), ((u8)79ULL), ((u8)112ULL), ((u8)101ULL), ((u8)110ULL), ((u8)86ULL), ((u8)111ULL), ((u8)108ULL), ((u8)117ULL), ((u8)109ULL), ((u8)101ULL), ((u8)77ULL), ((u8)101ULL), ((u8)115ULL), ((u8)104ULL), ((u8)49ULL), ((u8)54ULL), ((u8)80ULL), ((u8)114ULL), ((u8)111ULL), ((u8)112ULL), ((u8)101ULL), ((u8)114ULL), ((u8)116ULL), ((u8)121ULL), ((u8)83ULL), ((u8)116ULL), ((u8)111ULL), ((u8)114ULL), ((u8)97ULL), ((u8)103ULL), ((u8)101ULL), ((u8)84ULL), ((u8)73ULL), ((u8)106ULL), ((u8)69ULL), ((u8)69ULL), ((u8)0ULL)}};
struct S2 _ZTIN14OpenVolumeMesh16PropertyStorageTIjEE = {((u8*)((u8**)((&_ZTVN10__cxxabiv120__si_class_type_infoE) + (s64)((s64)((u64)2ULL))))), ((u8*)(&(*(&_ZTSN14OpenVolumeMesh16PropertyStorageTIjEE)).e[(s64)((s32)((u32)0ULL))])), ((u8*)(&_ZTIN14OpenVolumeMesh19PropertyStorageBaseE))};
struct S9 _ZTVN14OpenVolumeMesh11PropertyPtrIjNS_6Entity4EdgeEEE = {{{((u8*)0), ((u8*)(&_ZTIN14OpenVolumeMesh11PropertyPtrIjNS_6Entity4EdgeEEE)), ((u8*)((fnptr_t)_ZN14OpenVolumeMesh11PropertyPtrIjNS_6Entity4EdgeEED2Ev)), ((u8*)((fnptr_t)_ZN14OpenVolumeMesh11PropertyPtrIjNS_6Entity4EdgeEED0Ev)), ((u8*)((fnptr_t)_ZNKR14OpenVolumeMesh11PropertyPtrIjNS_6Entity4EdgeEE4nameB5cxx11Ev))}}, {{((u8*)(u64)((u64)18446744073709551592ULL)), ((u8*)(&_ZTIN14OpenVolumeMesh11PropertyPtrIjNS_6Entity4EdgeEEE)), ((u8*)((fnptr_t)_ZThn24_N14OpenVolumeMesh11PropertyPtrIjNS_6Entity4EdgeEED1Ev)), ((u8*)((fnptr_t)_ZThn24_N14OpenVolumeMesh11PropertyPtrIjNS_6Entity4EdgeEED0Ev)), ((u8*)((fnptr_t)_ZThn24_NKR14OpenVolumeMesh11PropertyPtrIjNS_6Entity4EdgeEE4nameB5cxx11Ev))}}};
struct A4 _ZTSN14OpenVolumeMesh11PropertyPtrIjNS_6Entity4EdgeEEE = {{((u8)78ULL), ((u8)49ULL), ((u8)52ULL), ((u8)79ULL), ((u8)112ULL), ((u8)101ULL), ((u8)110ULL), ((u8)86ULL), ((u8)111ULL), ((u8)108ULL), ((u8)117ULL), ((u8)109ULL), ((u8)101ULL), ((u8)77ULL), ((u8)101ULL), ((u8)115ULL), ((u8)104ULL), ((u8)49ULL), ((u8)49ULL), ((u8)80ULL), ((u8)114ULL), ((u8)111ULL), ((u8)112ULL), ((u8)101ULL), ((u8)114ULL), ((u8)116ULL), ((u8)121ULL), ((u8)80ULL), ((u8)116ULL), ((u8)114ULL), ((u8)73ULL), ((u8)106ULL), ((u8)78ULL), ((u8)83ULL), ((u8)95ULL), ((u8)54ULL), ((u8)69ULL), ((u8)110ULL), ((u8)116ULL), ((u8)105ULL), ((u8)116ULL), ((u8)121ULL), ((u8)52ULL), ((u8)69ULL), ((u8)100ULL), ((u8)103ULL), ((u8)101ULL), ((u8)69ULL), ((u8)69ULL), ((u8)69ULL), ((u8)0ULL)}};
struct A23 _ZTSN14OpenVolumeMesh14HandleIndexingINS_6Entity4EdgeENS_18PropertyStoragePtrIjEEEE = {{((u8)78ULL), ((u8)49ULL), ((u8)52ULL), ((u8)79ULL), ((u8)112ULL), ((u8)101ULL), ((u8)110ULL), ((u8)86ULL), ((u8)111ULL), ((u8)108ULL), ((u8)117ULL), ((u8)109ULL), ((u8)101ULL), ((u8)77ULL), ((u8)101ULL), ((u8)115ULL), ((u8)104ULL), ((u8)49ULL), ((u8)52ULL), ((u8)72ULL), ((u8)97ULL), ((u8)110ULL), ((u8)100ULL), ((u8)108ULL), ((u8)101ULL), ((u8)73ULL), ((u8)110ULL), ((u8)100ULL), ((u8)101ULL), ((u8)120ULL), ((u8)105ULL), ((u8)110ULL), ((u8)103ULL), ((u8)73ULL), ((u8)78ULL), ((u8)83ULL), ((u8)95ULL), ((u8)54ULL), ((u8)69ULL), ((u8)110ULL), ((u8)116ULL), ((u8)105ULL), ((u8)116ULL), ((u8)121ULL), ((u8)52ULL), ((u8)69ULL), ((u8)100ULL), ((u8)103ULL), ((u8)101ULL), ((u8)69ULL), ((u8)78ULL), ((u8)83ULL), ((u8)95ULL), ((u8)49ULL), ((u8)56ULL), ((u8)80ULL), ((u8)114ULL), ((u8)111ULL), ((u8)112ULL), ((u8)101ULL), ((u8)114ULL), ((u8)116ULL), ((u8)121ULL), ((u8)83ULL), ((u8)116ULL), ((u8)111ULL), ((u8)114ULL), ((u8)97ULL), ((u8)103ULL), ((u8)101ULL), ((u8)80ULL), ((u8)116ULL), ((u8)114ULL), ((u8)73ULL), ((u8)106ULL), ((u8)69ULL), ((u8)69ULL), ((u8)69ULL), ((u8)69ULL), ((u8)0ULL)}};
struct S2 _ZTIN14OpenVolumeMesh14HandleIndexingINS_6Entity4EdgeENS_18PropertyStoragePtrIjEEEE = {((u8*)((u8**)((&_ZTVN10__cxxabiv120__si_class_type_infoE) + (s64)((s64)((u64)2ULL))))), ((u8*)(&(*(&_ZTSN14OpenVolumeMesh14HandleIndexingINS_6Entity4EdgeENS_18PropertyStoragePtrIjEEEE)).e[(s64)((s32)((u32)0ULL))])), ((u8*)(&_ZTIN14OpenVolumeMesh18PropertyStoragePtrIjEE))};
struct S6 _ZTIN14OpenVolumeMesh11PropertyPtrIjNS_6Entity4EdgeEEE = {((u8*)((u8**)((&_ZTVN10__cxxabiv121__vmi_class_type_infoE) + (s64)((s64)((u64)2ULL))))), ((u8*)(&(*(&_ZTSN14OpenVolumeMesh11PropertyPtrIjNS_6Entity4EdgeEEE)).e[(s64)((s32)((u32)0ULL))])), ((u32)0ULL), ((u32)2ULL), ((u8*)(&_ZTIN14OpenVolumeMesh14HandleIndexingINS_6Entity4EdgeENS_18PropertyStoragePtrIjEEEE)), ((u64)2ULL), ((u8*)(&_ZTIN14OpenVolumeMesh15BasePropertyPtrE)), ((u64)6146ULL)};
struct S8 _ZTVN14OpenVolumeMesh14HandleIndexingINS_6Entity4EdgeENS_18PropertyStoragePtrIjEEEE = {{{((u8*)0), ((u8*)(&_ZTIN14OpenVolumeMesh14HandleIndexingINS_6Entity4EdgeENS_18PropertyStoragePtrIjEEEE)), ((u8*)((fnptr_t)_ZN14OpenVolumeMesh18PropertyStoragePtrIjED2Ev)), ((u8*)((fnptr_t)_ZN14OpenVolumeMesh14HandleIndexingINS_6Entity4EdgeENS_18PropertyStoragePtrIjEEED0Ev))}}};
struct S9 _ZTVN14OpenVolumeMesh11PropertyPtrIjNS_6Entity8HalfEdgeEEE = {{{((u8*)0), ((u8*)(&_ZTIN14OpenVolumeMesh11PropertyPtrIjNS_6Entity8HalfEdgeEEE)), ((u8*)((fnptr_t)_ZN14OpenVolumeMesh11PropertyPtrIjNS_6Entity8HalfEdgeEED2Ev)), ((u8*)((fnptr_t)_ZN14OpenVolumeMesh11PropertyPtrIjNS_6Entity8HalfEdgeEED0Ev)), ((u8*)((fnptr_t)_ZNKR14OpenVolumeMesh11PropertyPtrIjNS_6Entity8HalfEdgeEE4nameB5cxx11Ev))}}, {{((u8*)(u64)((u64)18446744073709551592ULL)), ((u8*)(&_ZTIN14OpenVolumeMesh11PropertyPtrIjNS_6Entity8HalfEdgeEEE)), ((u8*)((fnptr_t)_ZThn24_N14OpenVolumeMesh11PropertyPtrIjNS_6Entity8HalfEdgeEED1Ev)), ((u8*)((fnptr_t)_ZThn24_N14OpenVolumeMesh11PropertyPtrIjNS_6Entity8HalfEdgeEED0Ev)), ((u8*)((fnptr_t)_ZThn24_NKR14OpenVolumeMesh11PropertyPtrIjNS_6Entity8HalfEdgeEE4nameB5cxx11Ev))}}};
struct A24 _ZTSN14OpenVolumeMesh11PropertyPtrIjNS_6Entity8HalfEdgeEEE = {{((u8)78ULL), ((u8)49ULL), ((u8)52ULL), ((u8)79ULL), ((u8)112ULL), ((u8)101ULL), ((u8)110ULL), ((u8)86ULL), ((u8)111ULL), ((u8)108ULL), ((u8)117ULL), ((u8)109ULL), ((u8)101ULL), ((u8)77ULL), ((u8)101ULL), ((u8)115ULL), ((u8)104ULL), ((u8)49ULL), ((u8)49ULL), ((u8)80ULL), ((u8)114ULL), ((u8)111ULL), ((u8)112ULL), ((u8)101ULL), ((u8)114ULL), ((u8)116ULL), ((u8)121ULL), ((u8)80ULL), ((u8)116ULL), ((u8)114ULL), ((u8)73ULL), ((u8)106ULL), ((u8)78ULL), ((u8)83ULL), ((u8)95ULL), ((u8)54ULL), ((u8)69ULL), ((u8)110ULL), ((u8)116ULL), ((u8)105ULL), ((u8)116ULL), ((u8)121ULL), ((u8)56ULL), ((u8)72ULL), ((u8)97ULL), ((u8)108ULL), ((u8)102ULL), ((u8)69ULL), ((u8)100ULL), ((u8)103ULL), ((u8)101ULL), ((u8)69ULL), ((u8)69ULL), ((u8)69ULL), ((u8)0ULL)}};
struct A25 _ZTSN14OpenVolumeMesh14HandleIndexingINS_6Entity8HalfEdgeENS_18PropertyStoragePtrIjEEEE = {{((u8)78ULL), ((u8)49ULL), ((u8)52ULL), ((u8)79ULL), ((u8)112ULL), ((u8)101ULL), ((u8)110ULL), ((u8)86ULL), ((u8)111ULL), ((u8)108ULL), ((u8)117ULL), ((u8)109ULL), ((u8)101ULL), ((u8)77ULL), ((u8)101ULL), ((u8)115ULL), ((u8)104ULL), ((u8)49ULL), ((u8)52ULL), ((u8)72ULL), ((u8)97ULL), ((u8)110ULL), ((u8)100ULL), ((u8)108ULL), ((u8)101ULL), ((u8)73ULL), ((u8)110ULL), ((u8)100ULL), ((u8)101ULL), ((u8)120ULL), ((u8)105ULL), ((u8)110ULL), ((u8)103ULL), ((u8)73ULL), ((u8)78ULL), ((u8)83ULL), ((u8)95ULL), ((u8)54ULL), ((u8)69ULL), ((u8)110ULL), ((u8)116ULL), ((u8)105ULL), ((u8)116ULL), ((u8)121ULL), ((u8)56ULL), ((u8)72ULL), ((u8)97ULL), ((u8)108ULL), ((u8)102ULL), ((u8)69ULL), ((u8)100ULL), ((u8)103ULL), ((u8)101ULL), ((u8)69ULL), ((u8)78ULL), ((u8)83ULL), ((u8)95ULL), ((u8)49ULL), ((u8)56ULL), ((u8)80ULL), ((u8)114ULL), ((u8)111ULL), ((u8)112ULL), ((u8)101ULL), ((u8)114ULL), ((u8)116ULL), ((u8)121ULL), ((u8)83ULL), ((u8)116ULL), ((u8)111ULL), ((u8)114ULL), ((u8)97ULL), ((u8)103ULL), ((u8)101ULL), ((u8)80ULL), ((u8)116ULL), ((u8)114ULL), ((u8)73ULL), ((u8)106ULL), ((u8)69ULL), ((u8)69ULL), ((u8)69ULL), ((u8)69ULL), ((u8)0ULL)}};
struct S2 _ZTIN14OpenVolumeMesh14HandleIndexingINS_6Entity8HalfEdgeENS_18PropertyStoragePtrIjEEEE = {((u8*)((u8**)((&_ZTVN10__cxxabiv120__si_class_type_infoE) + (s64)((s64)((u64)2ULL))))), ((u8*)(&(*(&_ZTSN14OpenVolumeMesh14HandleIndexingINS_6Entity8HalfEdgeENS_18PropertyStoragePtrIjEEEE)).e[(s64)((s32)((u32)0ULL))])), ((u8*)(&_ZTIN14OpenVolumeMesh18PropertyStoragePtrIjEE))};
struct S6 _ZTIN14OpenVolumeMesh11PropertyPtrIjNS_6Entity8HalfEdgeEEE = {((u8*)((u8**)((&_ZTVN10__cxxabiv121__vmi_class_type_infoE) + (s64)((s64)((u64)2ULL))))), ((u8*)(&(*(&_ZTSN14OpenVolumeMesh11PropertyPtrIjNS_6Entity8HalfEdgeEEE)).e[(s64)((s32)((u32)0ULL))])), ((u32)0ULL), ((u32)2ULL), ((u8*)(&_ZTIN14OpenVolumeMesh14HandleIndexingINS_6Entity8HalfEdgeENS_18PropertyStoragePtrIjEEEE)), ((u64)2ULL), ((u8*)(&_ZTIN14OpenVolumeMesh15BasePropertyPtrE)), ((u64)6146ULL)};
struct S8 _ZTVN14OpenVolumeMesh14HandleIndexingINS_6Entity8HalfEdgeENS_18PropertyStoragePtrIjEEEE = {{{((u8*)0), ((u8*)(&_ZTIN14OpenVolumeMesh14HandleIndexingINS_6Entity8HalfEdgeENS_18PropertyStoragePtrIjEEEE)), ((u8*)((fnptr_t)_ZN14OpenVolumeMesh18PropertyStoragePtrIjED2Ev)), ((u8*)((fnptr_t)_ZN14OpenVolumeMesh14HandleIndexingINS_6Entity8HalfEdgeENS_18PropertyStoragePtrIjEEED0Ev))}}};
struct S9 _ZTVN14OpenVolumeMesh11PropertyPtrIjNS_6Entity4FaceEEE = {{{((u8*)0), ((u8*)(&_ZTIN14OpenVolumeMesh11PropertyPtrIjNS_6Entity4FaceEEE)), ((u8*)((fnptr_t)_ZN14OpenVolumeMesh11PropertyPtrIjNS_6Entity4FaceEED2Ev)), ((u8*)((fnptr_t)_ZN14OpenVolumeMesh11PropertyPtrIjNS_6Entity4FaceEED0Ev)), ((u8*)((fnptr_t)_ZNKR14OpenVolumeMesh11PropertyPtrIjNS_6Entity4FaceEE4nameB5cxx11Ev))}}, {{((u8*)(u64)((u64)18446744073709551592ULL)), ((u8*)(&_ZTIN14OpenVolumeMesh11PropertyPtrIjNS_6Entity4FaceEEE)), ((u8*)((fnptr_t)_ZThn24_N14OpenVolumeMesh11PropertyPtrIjNS_6Entity4FaceEED1Ev)), ((u8*)((fnptr_t)_ZThn24_N14OpenVolumeMesh11PropertyPtrIjNS_6Entity4FaceEED0Ev)), ((u8*)((fnptr_t)_ZThn24_NKR14OpenVolumeMesh11PropertyPtrIjNS_6Entity4FaceEE4nameB5cxx11Ev))}}};
struct A4 _ZTSN14OpenVolumeMesh11PropertyPtrIjNS_6Entity4FaceEEE = {{((u8)78ULL), ((u8)49ULL), ((u8)52ULL), ((u8)79ULL), ((u8)112ULL), ((u8)101ULL), ((u8)110ULL), ((u8)86ULL), ((u8)111ULL), ((u8)108ULL), ((u8)117ULL), ((u8)109ULL), ((u8)101ULL), ((u8)77ULL), ((u8)101ULL), ((u8)115ULL), ((u8)104ULL), ((u8)49ULL), ((u8)49ULL), ((u8)80ULL), ((u8)114ULL), ((u8)111ULL), ((u8)112ULL), ((u8)101ULL), ((u8)114ULL), ((u8)116ULL), ((u8)121ULL), ((u8)80ULL), ((u8)116ULL), ((u8)114ULL), ((u8)73ULL), ((u8)106ULL), ((u8)78ULL), ((u8)83ULL), ((u8)95ULL), ((u8)54ULL), ((u8)69ULL), ((u8)110ULL), ((u8)116ULL), ((u8)105ULL), ((u8)116ULL), ((u8)121ULL), ((u8)52ULL), ((u8)70ULL), ((u8)97ULL), ((u8)99ULL), ((u8)101ULL), ((u8)69ULL), ((u8)69ULL), ((u8)69ULL), ((u8)0ULL)}};
struct A23 _ZTSN14OpenVolumeMesh14HandleIndexingINS_6Entity4FaceENS_18PropertyStoragePtrIjEEEE = {{((u8)78ULL), ((u8)49ULL), ((u8)52ULL), ((u8)79ULL), ((u8)112ULL), ((u8)101ULL), ((u8)110ULL), ((u8)86ULL), ((u8)111ULL), ((u8)108ULL), ((u8)117ULL), ((u8)109ULL), ((u8)101ULL), ((u8)77ULL), ((u8)101ULL), ((u8)115ULL), ((u8)104ULL), ((u8)49ULL), ((u8)52ULL), ((u8)72ULL), ((u8)97ULL), ((u8)110ULL), ((u8)100ULL), ((u8)108ULL), ((u8)101ULL), ((u8)73ULL), ((u8)110ULL), ((u8)100ULL), ((u8)101ULL), ((u8)120ULL), ((u8)105ULL), ((u8)110ULL), ((u8)103ULL), ((u8)73ULL), ((u8)78ULL), ((u8)83ULL), ((u8)95ULL), ((u8)54ULL), ((u8)69ULL), ((u8)110ULL), ((u8)116ULL), ((u8)105ULL), ((u8)116ULL), ((u8)121ULL), ((u8)52ULL), ((u8)70ULL), ((u8)97ULL), ((u8)99ULL), ((u8)101ULL), ((u8)69ULL), ((u8)78ULL), ((u8)83ULL), ((u8)95ULL), ((u8)49ULL), ((u8)56ULL), ((u8)80ULL), ((u8)114ULL), ((u8)111ULL), ((u8)112ULL), ((u8)101ULL), ((u8)114ULL), ((u8)116ULL), ((u8)121ULL), ((u8)83ULL), ((u8)116ULL), ((u8)111ULL), ((u8)114ULL), ((u8)97ULL), ((u8)103ULL), ((u8)101ULL), ((u8)80ULL), ((u8)116ULL), ((u8)114ULL), ((u8)73ULL), ((u8)106ULL), ((u8)69ULL), ((u8)69ULL), ((u8)69ULL), ((u8)69ULL), ((u8)0ULL)}};
struct S2 _ZTIN14OpenVolumeMesh14HandleIndexingINS_6Entity4FaceENS_18PropertyStoragePtrIjEEEE = {((u8*)((u8**)((&_ZTVN10__cxxabiv120__si_class_type_infoE) + (s64)((s64)((u64)2ULL))))), ((u8*)(&(*(&_ZTSN14OpenVolumeMesh14HandleIndexingINS_6Entity4FaceENS_18PropertyStoragePtrIjEEEE)).e[(s64)((s32)((u32)0ULL))])), ((u8*)(&_ZTIN14OpenVolumeMesh18PropertyStoragePtrIjEE))};
struct S6 _ZTIN14OpenVolumeMesh11PropertyPtrIjNS_6Entity4FaceEEE = {((u8*)((u8**)((&_ZTVN10__cxxabiv121__vmi_class_type_infoE) + (s64)((s64)((u64)2ULL))))), ((u8*)(&(*(&_ZTSN14OpenVolumeMesh11PropertyPtrIjNS_6Entity4FaceEEE)).e[(s64)((s32)((u32)0ULL))])), ((u32)0ULL), ((u32)2ULL), ((u8*)(&_ZTIN14OpenVolumeMesh14HandleIndexingINS_6Entity4FaceENS_18PropertyStoragePtrIjEEEE)), ((u64)2ULL), ((u8*)(&_ZTIN14OpenVolumeMesh15BasePropertyPtrE)), ((u64)6146ULL)};
struct S8 _ZTVN14OpenVolumeMesh14HandleIndexingINS_6Entity4FaceENS_18PropertyStoragePtrIjEEEE = {{{((u8*)0), ((u8*)(&_ZTIN14OpenVolumeMesh14HandleIndexingINS_6Entity4FaceENS_18PropertyStoragePtrIjEEEE)), ((u8*)((fnptr_t)_ZN14OpenVolumeMesh18PropertyStoragePtrIjED2Ev)), ((u8*)((fnptr_t)_ZN14OpenVolumeMesh14HandleIndexingINS_6Entity4FaceENS_18PropertyStoragePtrIjEEED0Ev))}}};
struct S9 _ZTVN14OpenVolumeMesh11PropertyPtrIjNS_6Entity8HalfFaceEEE = {{{((u8*)0), ((u8*)(&_ZTIN14OpenVolumeMesh11PropertyPtrIjNS_6Entity8HalfFaceEEE)), ((u8*)((fnptr_t)_ZN14OpenVolumeMesh11PropertyPtrIjNS_6Entity8HalfFaceEED2Ev)), ((u8*)((fnptr_t)_ZN14OpenVolumeMesh11PropertyPtrIjNS_6Entity8HalfFaceEED0Ev)), ((u8*)((fnptr_t)_ZNKR14OpenVolumeMesh11PropertyPtrIjNS_6Entity8HalfFaceEE4nameB5cxx11Ev))}}, {{((u8*)(u64)((u64)18446744073709551592ULL)), ((u8*)(&_ZTIN14OpenVolumeMesh11PropertyPtrIjNS_6Entity8HalfFaceEEE)), ((u8*)((fnptr_t)_ZThn24_N14OpenVolumeMesh11PropertyPtrIjNS_6Entity8HalfFaceEED1Ev)), ((u8*)((fnptr_t)_ZThn24_N14OpenVolumeMesh11PropertyPtrIjNS_6Entity8HalfFaceEED0Ev)), ((u8*)((fnptr_t)_ZThn24_NKR14OpenVolumeMesh11PropertyPtrIjNS_6Entity8HalfFaceEE4nameB5cxx11Ev))}}};
struct A24 _ZTSN14OpenVolumeMesh11PropertyPtrIjNS_6Entity8HalfFaceEEE = {{((u8)78ULL), ((u8)49ULL), ((u8)52ULL), ((u8)79ULL), ((u8)112ULL), ((u8)101ULL), ((u8)110ULL), ((u8)86ULL), ((u8)111ULL), ((u8)108ULL), ((u8)117ULL), ((u8)109ULL), ((u8)101ULL), ((u8)77ULL), ((u8)101ULL), ((u8)115ULL), ((u8)104ULL), ((u8)49ULL), ((u8)49ULL), ((u8)80ULL), ((u8)114ULL), ((u8)111ULL), ((u8)112ULL), ((u8)101ULL), ((u8)114ULL), ((u8)116ULL), ((u8)121ULL), ((u8)80ULL), ((u8)116ULL), ((u8)114ULL), ((u8)73ULL), ((u8)106ULL), ((u8)78ULL), ((u8)83ULL), ((u8)95ULL), ((u8)54ULL), ((u8)69ULL), ((u8)110ULL), ((u8)116ULL), ((u8)105ULL), ((u8)116ULL), ((u8)121ULL), ((u8)56ULL), ((u8)72ULL), ((u8)97ULL), ((u8)108ULL), ((u8)102ULL), ((u8)70ULL), ((u8)97ULL), ((u8)99ULL), ((u8)101ULL), ((u8)69ULL), ((u8)69ULL), ((u8)69ULL), ((u8)0ULL)}};
struct A25 _ZTSN14OpenVolumeMesh14HandleIndexingINS_6Entity8HalfFaceENS_18PropertyStoragePtrIjEEEE = {{((u8)78ULL), ((u8)49ULL), ((u8)52ULL), ((u8)79ULL), ((u8)112ULL), ((u8)101ULL), ((u8)110ULL), ((u8)86ULL), ((u8)111ULL), ((u8)108ULL), ((u8)117ULL), ((u8)109ULL), ((u8)101ULL), ((u8)77ULL), ((u8)101ULL), ((u8)115ULL), ((u8)104ULL), ((u8)49ULL), ((u8)52ULL), ((u8)72ULL), ((u8)97ULL), ((u8)110ULL), ((u8)100ULL), ((u8)108ULL), ((u8)101ULL), ((u8)73ULL), ((u8)110ULL), ((u8)100ULL), ((u8)101ULL), ((u8)120ULL), ((u8)105ULL), ((u8)110ULL), ((u8)103ULL), ((u8)73ULL), ((u8)78ULL), ((u8)83ULL), ((u8)95ULL), ((u8)54ULL), ((u8)69ULL), ((u8)110ULL), ((u8)116ULL), ((u8)105ULL), ((u8)116ULL), ((u8)121ULL), ((u8)56ULL), ((u8)72ULL), ((u8)97ULL), ((u8)108ULL), ((u8)102ULL), ((u8)70ULL), ((u8)97ULL), ((u8)99ULL), ((u8)101ULL), ((u8)69ULL), ((u8)78ULL), ((u8)83ULL), ((u8)95ULL), ((u8)49ULL), ((u8)56ULL), ((u8)80ULL), ((u8)114ULL), ((u8)111ULL), ((u8)112ULL), ((u8)101ULL), ((u8)114ULL), ((u8)116ULL), ((u8)121ULL), ((u8)83ULL), ((u8)116ULL), ((u8)111ULL), ((u8)114ULL), ((u8)97ULL), ((u8)103ULL), ((u8)101ULL), ((u8)80ULL), ((u8)116ULL), ((u8)114ULL), ((u8)73ULL), ((u8)106ULL), ((u8)69ULL), ((u8)69ULL), ((u8)69ULL), ((u8)69ULL), ((u8)0ULL)}};
struct S2 _ZTIN14OpenVolumeMesh14HandleIndexingINS_6Entity8HalfFaceENS_18PropertyStoragePtrIjEEEE = {((u8*)((u8**)((&_ZTVN10__cxxabiv120__si_class_type_infoE) + (s64)((s64)((u64)2ULL))))), ((u8*)(&(*(&_ZTSN14OpenVolumeMesh14HandleIndexingINS_6Entity8HalfFaceENS_18PropertyStoragePtrIjEEEE)).e[(s64)((s32)((u32)0ULL))])), ((u8*)(&_ZTIN14OpenVolumeMesh18PropertyStoragePtrIjEE))};
struct S6 _ZTIN14OpenVolumeMesh11PropertyPtrIjNS_6Entity8HalfFaceEEE = {((u8*)((u8**)((&_ZTVN10__cxxabiv121__vmi_class_type_infoE) + (s64)((s64)((u64)2ULL))))), ((u8*)(&(*(&_ZTSN14OpenVolumeMesh11PropertyPtrIjNS_6Entity8HalfFaceEEE)).e[(s64)((s32)((u32)0ULL))])), ((u32)0ULL), ((u32)2ULL), ((u8*)(&_ZTIN14OpenVolumeMesh14HandleIndexingINS_6Entity8HalfFaceENS_18PropertyStoragePtrIjEEEE)), ((u64)2ULL), ((u8*)(&_ZTIN14OpenVolumeMesh15BasePropertyPtrE)), ((u64)6146ULL)};
struct S8 _ZTVN14OpenVolumeMesh14HandleIndexingINS_6Entity8HalfFaceENS_18PropertyStoragePtrIjEEEE = {{{((u8*)0), ((u8*)(&_ZTIN14OpenVolumeMesh14HandleIndexingINS_6Entity8HalfFaceENS_18PropertyStoragePtrIjEEEE)), ((u8*)((fnptr_t)_ZN14OpenVolumeMesh18PropertyStoragePtrIjED2Ev)), ((u8*)((fnptr_t)_ZN14OpenVolumeMesh14HandleIndexingINS_6Entity8HalfFaceENS_18PropertyStoragePtrIjEEED0Ev))}}};
struct S9 _ZTVN14OpenVolumeMesh11PropertyPtrIjNS_6Entity4CellEEE = {{{((u8*)0), ((u8*)(&_ZTIN14OpenVolumeMesh11PropertyPtrIjNS_6Entity4CellEEE)), ((u8*)((fnptr_t)_ZN14OpenVolumeMesh11PropertyPtrIjNS_6Entity4CellEED2Ev)), ((u8*)((fnptr_t)_ZN14OpenVolumeMesh11PropertyPtrIjNS_6Entity4CellEED0Ev)), ((u8*)((fnptr_t)_ZNKR14OpenVolumeMesh11PropertyPtrIjNS_6Entity4CellEE4nameB5cxx11Ev))}}, {{((u8*)(u64)((u64)18446744073709551592ULL)), ((u8*)(&_ZTIN14OpenVolumeMesh11PropertyPtrIjNS_6Entity4CellEEE)), ((u8*)((fnptr_t)_ZThn24_N14OpenVolumeMesh11PropertyPtrIjNS_6Entity4CellEED1Ev)), ((u8*)((fnptr_t)_ZThn24_N14OpenVolumeMesh11PropertyPtrIjNS_6Entity4CellEED0Ev)), ((u8*)((fnptr_t)_ZThn24_NKR14OpenVolumeMesh11PropertyPtrIjNS_6Entity4CellEE4nameB5cxx11Ev))}}};
struct A4 _ZTSN14OpenVolumeMesh11PropertyPtrIjNS_6Entity4CellEEE = {{((u8)78ULL), ((u8)49ULL), ((u8)52ULL), ((u8)79ULL), ((u8)112ULL), ((u8)101ULL), ((u8)110ULL), ((u8)86ULL), ((u8)111ULL), ((u8)108ULL), ((u8)117ULL), ((u8)109ULL), ((u8)101ULL), ((u8)77ULL), ((u8)101ULL), ((u8)115ULL), ((u8)104ULL), ((u8)49ULL), ((u8)49ULL), ((u8)80ULL), ((u8)114ULL), ((u8)111ULL), ((u8)112ULL), ((u8)101ULL), ((u8)114ULL), ((u8)116ULL), ((u8)121ULL), ((u8)80ULL), ((u8)116ULL), ((u8)114ULL), ((u8)73ULL), ((u8)106ULL), ((u8)78ULL), ((u8)83ULL), ((u8)95ULL), ((u8)54ULL), ((u8)69ULL), ((u8)110ULL), ((u8)116ULL), ((u8)105ULL), ((u8)116ULL), ((u8)121ULL), ((u8)52ULL), ((u8)67ULL), ((u8)101ULL), ((u8)108ULL), ((u8)108ULL), ((u8)69ULL), ((u8)69ULL), ((u8)69ULL), ((u8)0ULL)}};
struct A23 _ZTSN14OpenVolumeMesh14HandleIndexingINS_6Entity4CellENS_18PropertyStoragePtrIjEEEE = {{((u8)78ULL), ((u8)49ULL), ((u8)52ULL), ((u8)79ULL), ((u8)112ULL), ((u8)101ULL), ((u8)110ULL), ((u8)86ULL), ((u8)111ULL), ((u8)108ULL), ((u8)117ULL), ((u8)109ULL), ((u8)101ULL), ((u8)77ULL), ((u8)101ULL), ((u8)115ULL), ((u8)104ULL), ((u8)49ULL), ((u8)52ULL), ((u8)72ULL), ((u8)97ULL), ((u8)110ULL), ((u8)100ULL), ((u8)108ULL), ((u8)101ULL), ((u8)73ULL), ((u8)110ULL), ((u8)100ULL), ((u8)101ULL), ((u8)120ULL), ((u8)105ULL), ((u8)110ULL), ((u8)103ULL), ((u8)73ULL), ((u8)78ULL), ((u8)83ULL), ((u8)95ULL), ((u8)54ULL), ((u8)69ULL), ((u8)110ULL), ((u8)116ULL), ((u8)105ULL), ((u8)116ULL), ((u8)121ULL), ((u8)52ULL), ((u8)67ULL), ((u8)101ULL), ((u8)108ULL), ((u8)108ULL), ((u8)69ULL), ((u8)78ULL), ((u8)83ULL), ((u8)95ULL), ((u8)49ULL), ((u8)56ULL), ((u8)80ULL), ((u8)114ULL), ((u8)111ULL), ((u8)112ULL), ((u8)101ULL), ((u8)114ULL), ((u8)116ULL), ((u8)121ULL), ((u8)83ULL), ((u8)116ULL), ((u8)111ULL), ((u8)114ULL), ((u8)97ULL), ((u8)103ULL), ((u8)101ULL), ((u8)80ULL), ((u8)116ULL), ((u8)114ULL), ((u8)73ULL), ((u8)106ULL), ((u8)69ULL), ((u8)69ULL), ((u8)69ULL), ((u8)69ULL), ((u8)0ULL)}};
struct S2 _ZTIN14OpenVolumeMesh14HandleIndexingINS_6Entity4CellENS_18PropertyStoragePtrIjEEEE = {((u8*)((u8**)((&_ZTVN10__cxxabiv120__si_class_type_infoE) + (s64)((s64)((u64)2ULL))))), ((u8*)(&(*(&_ZTSN14OpenVolumeMesh14HandleIndexingINS_6Entity4CellENS_18PropertyStoragePtrIjEEEE)).e[(s64)((s32)((u32)0ULL))])), ((u8*)(&_ZTIN14OpenVolumeMesh18PropertyStoragePtrIjEE))};
struct S6 _ZTIN14OpenVolumeMesh11PropertyPtrIjNS_6Entity4CellEEE = {((u8*)((u8**)((&_ZTVN10__cxxabiv121__vmi_class_type_infoE) + (s64)((s64)((u64)2ULL))))), ((u8*)(&(*(&_ZTSN14OpenVolumeMesh11PropertyPtrIjNS_6Entity4CellEEE)).e[(s64)((s32)((u32)0ULL))])), ((u32)0ULL), ((u32)2ULL), ((u8*)(&_ZTIN14OpenVolumeMesh14HandleIndexingINS_6Entity4CellENS_18PropertyStoragePtrIjEEEE)), ((u64)2ULL), ((u8*)(&_ZTIN14OpenVolumeMesh15BasePropertyPtrE)), ((u64)6146ULL)};
struct S8 _ZTVN14OpenVolumeMesh14HandleIndexingINS_6Entity4CellENS_18PropertyStoragePtrIjEEEE = {{{((u8*)0), ((u8*)(&_ZTIN14OpenVolumeMesh14HandleIndexingINS_6Entity4CellENS_18PropertyStoragePtrIjEEEE)), ((u8*)((fnptr_t)_ZN14OpenVolumeMesh18PropertyStoragePtrIjED2Ev)), ((u8*)((fnptr_t)_ZN14OpenVolumeMesh14HandleIndexingINS_6Entity4CellENS_18PropertyStoragePtrIjEEED0Ev))}}};
struct S9 _ZTVN14OpenVolumeMesh11PropertyPtrIjNS_6Entity4MeshEEE = {{{((u8*)0), ((u8*)(&_ZTIN14OpenVolumeMesh11PropertyPtrIjNS_6Entity4MeshEEE)), ((u8*)((fnptr_t)_ZN14OpenVolumeMesh11PropertyPtrIjNS_6Entity4MeshEED2Ev)), ((u8*)((fnptr_t)_ZN14OpenVolumeMesh11PropertyPtrIjNS_6Entity4MeshEED0Ev)), ((u8*)((fnptr_t)_ZNKR14OpenVolumeMesh11PropertyPtrIjNS_6Entity4MeshEE4nameB5cxx11Ev))}}, {{((u8*)(u64)((u64)18446744073709551592ULL)), ((u8*)(&_ZTIN14OpenVolumeMesh11PropertyPtrIjNS_6Entity4MeshEEE)), ((u8*)((fnptr_t)_ZThn24_N14OpenVolumeMesh11PropertyPtrIjNS_6Entity4MeshEED1Ev)), ((u8*)((fnptr_t)_ZThn24_N14OpenVolumeMesh11PropertyPtrIjNS_6Entity4MeshEED0Ev)), ((u8*)((fnptr_t)_ZThn24_NKR14OpenVolumeMesh11PropertyPtrIjNS_6Entity4MeshEE4nameB5cxx11Ev))}}};
struct A4 _ZTSN14OpenVolumeMesh11PropertyPtrIjNS_6Entity4MeshEEE = {{((u8)78ULL), ((u8)49ULL), ((u8)52ULL), ((u8)79ULL), ((u8)112ULL), ((u8)101ULL), ((u8)110ULL), ((u8)86ULL), ((u8)111ULL), ((u8)108ULL), ((u8)117ULL), ((u8)109ULL), ((u8)101ULL), ((u8)77ULL), ((u8)101ULL), ((u8)115ULL), ((u8)104ULL), ((u8)49ULL), ((u8)49ULL), ((u8)80ULL), ((u8)114ULL), ((u8)111ULL), ((u8)112ULL), ((u8)101ULL), ((u8)114ULL), ((u8)116ULL), ((u8)121ULL), ((u8)80ULL), ((u8)116ULL), ((u8)114ULL), ((u8)73ULL), ((u8)106ULL), ((u8)78ULL), ((u8)83ULL), ((u8)95ULL), ((u8)54ULL), ((u8)69ULL), ((u8)110ULL), ((u8)116ULL), ((u8)105ULL), ((u8)116ULL), ((u8)121ULL), ((u8)52ULL), ((u8)77ULL), ((u8)101ULL), ((u8)115ULL), ((u8)104ULL), ((u8)69ULL), ((u8)69ULL), ((u8)69ULL), ((u8)0ULL)}};
struct A23 _ZTSN14OpenVolumeMesh14HandleIndexingINS_6Entity4MeshENS_18PropertyStoragePtrIjEEEE = {{((u8)78ULL), ((u8)49ULL), ((u8)52ULL), ((u8)79ULL), ((u8)112ULL), ((u8)101ULL), ((u8)110ULL), ((u8)86ULL), ((u8)111ULL), ((u8)108ULL), ((u8)117ULL), ((u8)109ULL), ((u8)101ULL), ((u8)77ULL), ((u8)101ULL), ((u8)115ULL), ((u8)104ULL), ((u8)49ULL), ((u8)52ULL), ((u8)72ULL), ((u8)97ULL), ((u8)110ULL), ((u8)100ULL), ((u8)108ULL), ((u8)101ULL), ((u8)73ULL), ((u8)110ULL), ((u8)100ULL), ((u8)101ULL), ((u8)120ULL), ((u8)105ULL), ((u8)110ULL), ((u8)103ULL), ((u8)73ULL), ((u8)78ULL), ((u8)83ULL), ((u8)95ULL), ((u8)54ULL), ((u8)69ULL), ((u8)110ULL), ((u8)116ULL), ((u8)105ULL), ((u8)116ULL), ((u8)121ULL), ((u8)52ULL), ((u8)77ULL), ((u8)101ULL), ((u8)115ULL), ((u8)104ULL), ((u8)69ULL), ((u8)78ULL), ((u8)83ULL), ((u8)95ULL), ((u8)49ULL), ((u8)56ULL), ((u8)80ULL), ((u8)114ULL), ((u8)111ULL), ((u8)112ULL), ((u8)101ULL), ((u8)114ULL), ((u8)116ULL), ((u8)121ULL), ((u8)83ULL), ((u8)116ULL), ((u8)111ULL), ((u8)114ULL), ((u8)97ULL), ((u8)103ULL), ((u8)101ULL), ((u8)80ULL), ((u8)116ULL), ((u8)114ULL), ((u8)73ULL), ((u8)106ULL), ((u8)69ULL), ((u8)69ULL), ((u8)69ULL), ((u8)69ULL), ((u8)0ULL)}};
struct S2 _ZTIN14OpenVolumeMesh14HandleIndexingINS_6Entity4MeshENS_18PropertyStoragePtrIjEEEE = {((u8*)((u8**)((&_ZTVN10__cxxabiv120__si_class_type_infoE) + (s64)((s64)((u64)2ULL))))), ((u8*)(&(*(&_ZTSN14OpenVolumeMesh14HandleIndexingINS_6Entity4MeshENS_18PropertyStoragePtrIjEEEE)).e[(s64)((s32)((u32)0ULL))])), ((u8*)(&_ZTIN14OpenVolumeMesh18PropertyStoragePtrIjEE))};
struct S6 _ZTIN14OpenVolumeMesh11PropertyPtrIjNS_6Entity4MeshEEE = {((u8*)((u8**)((&_ZTVN10__cxxabiv121__vmi_class_type_infoE) + (s64)((s64)((u64)2ULL))))), ((u8*)(&(*(&_ZTSN14OpenVolumeMesh11PropertyPtrIjNS_6Entity4MeshEEE)).e[(s64)((s32)((u32)0ULL))])), ((u32)0ULL), ((u32)2ULL), ((u8*)(&_ZTIN14OpenVolumeMesh14HandleIndexingINS_6Entity4MeshENS_18PropertyStoragePtrIjEEEE)), ((u64)2ULL), ((u8*)(&_ZTIN14OpenVolumeMesh15BasePropertyPtrE)), ((u64)6146ULL)};
struct S8 _ZTVN14OpenVolumeMesh14HandleIndexingINS_6Entity4MeshENS_18PropertyStoragePtrIjEEEE = {{{((u8*)0), ((u8*)(&_ZTIN14OpenVolumeMesh14HandleIndexingINS_6Entity4MeshENS_18PropertyStoragePtrIjEEEE)), ((u8*)((fnptr_t)_ZN14OpenVolumeMesh18PropertyStoragePtrIjED2Ev)), ((u8*)((fnptr_t)_ZN14OpenVolumeMesh14HandleIndexingINS_6Entity4MeshENS_18PropertyStoragePtrIjEEED0Ev))}}};
struct S0_class_std__ios_base__Init _ZStL8__ioinit_12 = {0};
struct A21 _ZTSN14OpenVolumeMesh2IO6detail11parse_errorE = {{((u8)78ULL), ((u8)49ULL), ((u8)52ULL), ((u8)79ULL), ((u8)112ULL), ((u8)101ULL), ((u8)110ULL), ((u8)86ULL), ((u8)111ULL), ((u8)108ULL), ((u8)117ULL), ((u8)109ULL), ((u8)101ULL), ((u8)77ULL), ((u8)101ULL), ((u8)115ULL), ((u8)104ULL), ((u8)50ULL), ((u8)73ULL), ((u8)79ULL), ((u8)54ULL), ((u8)100ULL), ((u8)101ULL), ((u8)116ULL), ((u8)97ULL), ((u8)105ULL), ((u8)108ULL), ((u8)49ULL), ((u8)49ULL), ((u8)112ULL), ((u8)97ULL), ((u8)114ULL), ((u8)115ULL), ((u8)101ULL), ((u8)95ULL), ((u8)101ULL), ((u8)114ULL), ((u8)114ULL), ((u8)111ULL), ((u8)114ULL), ((u8)69ULL), ((u8)0ULL)}};
struct S2 _ZTIN14OpenVolumeMesh2IO6detail11parse_errorE = {((u8*)((u8**)((&_ZTVN10__cxxabiv120__si_class_type_infoE) + (s64)((s64)((u64)2ULL))))), ((u8*)(&(*(&_ZTSN14OpenVolumeMesh2IO6detail11parse_errorE)).e[(s64)((s32)((u32)0ULL))])), ((u8*)(&_ZTIN14OpenVolumeMesh2IO6detail8io_errorE))};
struct S5 _ZTVN14OpenVolumeMesh2IO6detail11parse_errorE = {{{((u8*)0), ((u8*)(&_ZTIN14OpenVolumeMesh2IO6detail11parse_errorE)), ((u8*)((fnptr_t)_ZNSt13runtime_errorD2Ev)), ((u8*)((fnptr_t)_ZN14OpenVolumeMesh2IO6detail11parse_errorD0Ev)), ((u8*)((fnptr_t)_ZNKSt13runtime_error4whatEv))}}};
struct S0_class_std__ios_base__Init _ZStL8__ioinit_32 = {0};
struct A3 _ZTSN14OpenVolumeMesh2IO6detail8io_errorE = {{((u8)78ULL), ((u8)49ULL), ((u8)52ULL), ((u8)79ULL), ((u8)112ULL), ((u8)101ULL), ((u8)110ULL), ((u8)86ULL), ((u8)111ULL), ((u8)108ULL), ((u8)117ULL), ((u8)109ULL), ((u8)101ULL), ((u8)77ULL), ((u8)101ULL), ((u8)115ULL), ((u8)104ULL), ((u8)50ULL), ((u8)73ULL), ((u8)79ULL), ((u8)54ULL), ((u8)100ULL), ((u8)101ULL), ((u8)116ULL), ((u8)97ULL), ((u8)105ULL), ((u8)108ULL), ((u8)56ULL), ((u8)105ULL), ((u8)111ULL), ((u8)95ULL), ((u8)101ULL), ((u8)114ULL), ((u8)114ULL), ((u8)111ULL), ((u8)114ULL), ((u8)69ULL), ((u8)0ULL)}};
struct S2 _ZTIN14OpenVolumeMesh2IO6detail8io_errorE = {((u8*)((u8**)((&_ZTVN10__cxxabiv120__si_class_type_infoE) + (s64)((s64)((u64)2ULL))))), ((u8*)(&(*(&_ZTSN14OpenVolumeMesh2IO6detail8io_errorE)).e[(s64)((s32)((u32)0ULL))])), ((u8*)(&_ZTISt13runtime_error))};
struct S0_class_std__ios_base__Init _ZStL8__ioinit_49 = {0};
struct A7 _str_50 = {{((u8)118ULL), ((u8)101ULL), ((u8)99ULL), ((u8)116ULL), ((u8)111ULL), ((u8)114ULL), ((u8)58ULL), ((u8)58ULL), ((u8)95ULL), ((u8)77ULL), ((u8)95ULL), ((u8)100ULL), ((u8)101ULL), ((u8)102ULL), ((u8)97ULL), ((u8)117ULL), ((u8)108ULL), ((u8)116ULL), ((u8)95ULL), ((u8)97ULL), ((u8)112ULL), ((u8)112ULL), ((u8)101ULL), ((u8)110ULL), ((u8)100ULL), ((u8)0ULL)}};
struct S0_class_std__ios_base__Init _ZStL8__ioinit_57 = {0};
struct S0_class_std__ios_base__Init _ZStL8__ioinit_73 = {0};
struct A26 _str_76 = {{((u8)98ULL), ((u8)97ULL), ((u8)115ULL), ((u8)105ULL), ((u8)99ULL), ((u8)95ULL), ((u8)115ULL), ((u8)116ULL), ((u8)114ULL), ((u8)105ULL), ((u8)110ULL), ((u8)103ULL), ((u8)58ULL), ((u8)32ULL), ((u8)99ULL), ((u8)111ULL), ((u8)110ULL), ((u8)115ULL), ((u8)116ULL), ((u8)114ULL), ((u8)117ULL), ((u8)99ULL), ((u8)116ULL), ((u8)105ULL), ((u8)111ULL), ((u8)110ULL), ((u8)32ULL), ((u8)102ULL), ((u8)114ULL), ((u8)111ULL), ((u8)109ULL), ((u8)32ULL), ((u8)110ULL), ((u8)117ULL), ((u8)108ULL), ((u8)108ULL), ((u8)32ULL), ((u8)105ULL), ((u8)115ULL), ((u8)32ULL), ((u8)110ULL), ((u8)111ULL), ((u8)116ULL), ((u8)32ULL), ((u8)118ULL), ((u8)97ULL), ((u8)108ULL), ((u8)105ULL), ((u8)100ULL), ((u8)0ULL)}};
void _GLOBAL__sub_I_C07_codec_short_cpp(void) {
  u32 v0;
L0: ;
  _ZNSt8ios_base4InitC1Ev((&_ZStL8__ioinit));
  if (v_exc) return;
  v0 = __cxa_atexit(((fnptr_t)((fnptr_t)_ZNSt8ios_base4InitD1Ev)), ((u8*)(&(*(&_ZStL8__ioinit)).f0)), (&__dso_handle));
  return;
}

void _ZNSt8_Rb_treeIPN14OpenVolumeMesh19PropertyStorageBaseES2_St9_IdentityIS2_ESt4lessIS2_ESaIS2_EE12_M_erase_auxESt23_Rb_tree_const_iteratorIS2_ESA_(struct S10_class_std___Rb_tree* a0, struct S11_struct_std___Rb_tree_node_base* a1, struct S11_struct_std___Rb_tree_node_base* a2) {
  u8* v0;
  u8* v1;
  struct S11_struct_std___Rb_tree_node_base** v2;
  struct S11_struct_std___Rb_tree_node_base* v3;
  u1 v4;
  u8* v5;
  struct S11_struct_std___Rb_tree_node_base* v6;
  u1 v7;
  u8* v8;
  struct S14_struct_std___Rb_tree_node_64** v9;
  struct S14_struct_std___Rb_tree_node_64* v10;
  struct S63 v11;
  u8* v12;
  struct S11_struct_std___Rb_tree_node_base** v13;
  u8** v14;
  u8* v15;
  u8** v16;
  u8* v17;
  u64* v18;
  u1 v19;
  u8* v20;
  struct S11_struct_std___Rb_tree_node_base* v21;
  u8* v22;
  u64* v23;
  struct S11_struct_std___Rb_tree_node_base* v24; struct S11_struct_std___Rb_tree_node_base* v24_t;
  struct S11_struct_std___Rb_tree_node_base* v25;
  struct S11_struct_std___Rb_tree_node_base* v26;
  u8* v27;
  u64 v28;
  u64 v29;
  u1 v30;
L0: ;
  v0 = (u8*)(&(*a0).f0.f0.f0.f0);
  v1 = (u8*)&(*a0).f0.f1.f0.f2;
  v2 = (struct S11_struct_std___Rb_tree_node_base**)&(*a0).f0.f1.f0.f2;
  v3 = *v2;
  v4 = ((u8*)v3 == (u8*)a1);
  if (v4) {
    goto L1;
  } else {
    goto L5;
  }
L1: ;
  v5 = (u8*)&(*a0).f0.f1.f0.f0;
  v6 = (struct S11_struct_std___Rb_tree_node_base*)&(*a0).f0.f1.f0;
  v7 = ((u8*)v6 == (u8*)a2);
  if (v7) {
    goto L2;
  } else {
    goto L5;
  }
L2: ;
  v8 = (u8*)&(*a0).f0.f1.f0.f1;
  v9 = (struct S14_struct_std___Rb_tree_node_64**)&(*a0).f0.f1.f0.f1;
  v10 = *v9;
  _ZNSt8_Rb_treeIPN14OpenVolumeMesh19PropertyStorageBaseES2_St9_IdentityIS2_ESt4lessIS2_ESaIS2_EE8_M_eraseEPSt13_Rb_tree_nodeIS2_E(a0, v10);
  if (v_exc) {
    goto L3;
  }
  goto L4;
L3: ;
  v11.f0 = v_exc_obj;
  v11.f1 = 0;
  if (v11.f1 == 0) v11.f1 = 9999;
  if (v11.f1 == 0) return;
  v_exc = 0;
  v12 = v11.f0;
  __clang_call_terminate(v12);
  __CPROVER_assume(0);
L4: ;
  v13 = (struct S11_struct_std___Rb_tree_node_base**)&(*a0).f0.f1.f0.f1;
  *v13 = ((struct S11_struct_std___Rb_tree_node_base*)0);
  v14 = (u8**)&(*a0).f0.f1.f0.f2;
  *v14 = v5;
  v15 = (u8*)&(*a0).f0.f1.f0.f3;
  v16 = (u8**)&(*a0).f0.f1.f0.f3;
  *v16 = v5;
  v17 = (u8*)&(*a0).f0.f1.f1;
  v18 = (u64*)&(*a0).f0.f1.f1;
  *v18 = ((u64)0ULL);
  goto L8;
L5: ;
  v19 = ((u8*)a1 == (u8*)a2);
  if (v19) {
    goto L8;
  } else {
    goto L6;
  }
L6: ;
  v20 = (u8*)&(*a0).f0.f1.f0.f0;
  v21 = (struct S11_struct_std___Rb_tree_node_base*)&(*a0).f0.f1.f0;
  v22 = (u8*)&(*a0).f0.f1.f1;
  v23 = (u64*)&(*a0).f0.f1.f1;
  v24 = a1;
  goto L7;
L7: ;
  v25 = _ZSt18_Rb_tree_incrementPKSt18_Rb_tree_node_base(v24);
  v26 = _ZSt28_Rb_tree_rebalance_for_erasePSt18_Rb_tree_node_baseRS_(v24, v21);
  v27 = (u8*)v26;
  _ZdlPv(v27);
  v28 = *v23;
  v29 = ((u64)(v28 + ((u64)18446744073709551615ULL)));
  *v23 = v29;
  v30 = ((u8*)v25 == (u8*)a2);
  if (v30) {
    goto L8;
  } else {
    v24 = v25;
    goto L7;
  }
L8: ;
  return;
}

void __clang_call_terminate(u8* a0) {
  u8* v0;
L0: ;
  v0 = __cxa_begin_catch(a0);
  _ZSt9terminatev();
  __CPROVER_assume(0);
}

void _ZNSt8_Rb_treeINSt7__cxx1112basic_stringIcSt11char_traitsIcESaIcEEESt4pairIKS5_St10shared_ptrIN14OpenVolumeMesh2IO19PropertyEncoderBaseEEESt10_Select1stISD_ESt4lessIS5_ESaISD_EE8_M_eraseEPSt13_Rb_tree_nodeISD_E(struct S10_class_std___Rb_tree* a0, struct S12_struct_std___Rb_tree_node* a1) {
  u1 v0;
  struct S12_struct_std___Rb_tree_node* v1; struct S12_struct_std___Rb_tree_node* v1_t;
  struct S11_struct_std___Rb_tree_node_base** v2;
  struct S12_struct_std___Rb_tree_node** v3;
  struct S12_struct_std___Rb_tree_node* v4;
  struct S11_struct_std___Rb_tree_node_base** v5;
  struct S12_struct_std___Rb_tree_node** v6;
  struct S12_struct_std___Rb_tree_node* v7;
  struct S64_struct___gnu_cxx____aligned_membuf* v8;
  u8* v9;
  struct S13_class_std___Sp_counted_base** v10;
  struct S13_class_std___Sp_counted_base* v11;
  u1 v12;
  u32* v13;
  u64* v14;
  u64 v15;
  u1 v16;
  u32* v17;
  fnptr_t** v18;
  fnptr_t* v19;
  fnptr_t* v20;
  fnptr_t v21;
  fnptr_t* v22;
  fnptr_t* v23;
  fnptr_t v24;
  u8 v25;
  u1 v26;
  u32 v27;
  u32 v28;
  u32 v29;
  u32 v30;
  u32 v31; u32 v31_t;
  u1 v32;
  u8** v33;
  u8* v34;
  u8* v35;
  u1 v36;
  u8* v37;
  u1 v38;
L0: ;
  v0 = ((u8*)a1 == (u8*)((struct S12_struct_std___Rb_tree_node*)0));
  if (v0) {
    goto L12;
  } else {
    v1 = a1;
    goto L1;
  }
L1: ;
  v2 = (struct S11_struct_std___Rb_tree_node_base**)(&(*v1).f0.f3);
  v3 = (struct S12_struct_std___Rb_tree_node**)&(*v1).f0.f3;
  v4 = *v3;
  _ZNSt8_Rb_treeINSt7__cxx1112basic_stringIcSt11char_traitsIcESaIcEEESt4pairIKS5_St10shared_ptrIN14OpenVolumeMesh2IO19PropertyEncoderBaseEEESt10_Select1stISD_ESt4lessIS5_ESaISD_EE8_M_eraseEPSt13_Rb_tree_nodeISD_E(a0, v4);
  if (v_exc) return;
  v5 = (struct S11_struct_std___Rb_tree_node_base**)(&(*v1).f0.f2);
  v6 = (struct S12_struct_std___Rb_tree_node**)&(*v1).f0.f2;
  v7 = *v6;
  v8 = (struct S64_struct___gnu_cxx____aligned_membuf*)(&(*v1).f1);
  v9 = (u8*)(&(*v1).f1.f0.e[(s64)((s64)((u64)40ULL))]);
  v10 = (struct S13_class_std___Sp_counted_base**)v9;
  v11 = *v10;
  v12 = ((u8*)v11 == (u8*)((struct S13_class_std___Sp_counted_base*)0));
  if (v12) {
    goto L9;
  } else {
    goto L2;
  }
L2: ;
  v13 = (u32*)(&(*v11).f1);
  v14 = (u64*)v13;
  v15 = (((u64)(*v11).f1 << 0) | ((u64)(*v11).f2 << 32));
  v16 = (v15 == ((u64)4294967297ULL));
  if (v16) {
    goto L3;
  } else {
    goto L4;
  }
L3: ;
  *v13 = ((u32)0ULL);
  v17 = (u32*)(&(*v11).f2);
  *v17 = ((u32)0ULL);
  v18 = (fnptr_t**)&(*v11).f0;
  v19 = *v18;
  v20 = (fnptr_t*)(v19 + (s64)((s64)((u64)2ULL)));
  v21 = *v20;
  ((FT0)v21)(v11);
  v22 = *v18;
  v23 = (fnptr_t*)(v22 + (s64)((s64)((u64)3ULL)));
  v24 = *v23;
  ((FT0)v24)(v11);
  goto L9;
L4: ;
  v25 = *(&__libc_single_threaded);
  v26 = (v25 == ((u8)0ULL));
  if (v26) {
    goto L6;
  } else {
    goto L5;
  }
L5: ;
  v27 = *v13;
  v28 = ((u32)(v27 + ((u32)4294967295ULL)));
  *v13 = v28;
  v31 = v27;
  goto L7;
L6: ;
  v29 = *v13;
  v30 = ((u32)(v29 + ((u32)4294967295ULL)));
  *v13 = v30;
  v31 = v29;
  goto L7;
L7: ;
  v32 = (v31 == ((u32)1ULL));
  if (v32) {
    goto L8;
  } else {
    goto L9;
  }
L8: ;
  _ZNSt16_Sp_counted_baseILN9__gnu_cxx12_Lock_policyE2EE24_M_release_last_use_coldEv(v11);
  goto L9;
L9: ;
  v33 = (u8**)v8;
  v34 = *v33;
  v35 = (u8*)(&(*v1).f1.f0.e[(s64)((s64)((u64)16ULL))]);
  v36 = ((u8*)v34 == (u8*)v35);
  if (v36) {
    goto L11;
  } else {
    goto L10;
  }
L10: ;
  _ZdlPv(v34);
  goto L11;
L11: ;
  v37 = (u8*)v1;
  _ZdlPv(v37);
  v38 = ((u8*)v7 == (u8*)((struct S12_struct_std___Rb_tree_node*)0));
  if (v38) {
    goto L12;
  } else {
    v1 = v7;
    goto L1;
  }
L12: ;
  return;
}

void _ZNSt8_Rb_treeINSt7__cxx1112basic_stringIcSt11char_traitsIcESaIcEEESt4pairIKS5_St10shared_ptrIN14OpenVolumeMesh2IO19PropertyDecoderBaseEEESt10_Select1stISD_ESt4lessIS5_ESaISD_EE8_M_eraseEPSt13_Rb_tree_nodeISD_E(struct S10_class_std___Rb_tree* a0, struct S12_struct_std___Rb_tree_node* a1) {
  u1 v0;
  struct S12_struct_std___Rb_tree_node* v1; struct S12_struct_std___Rb_tree_node* v1_t;
  struct S11_struct_std___Rb_tree_node_base** v2;
  struct S12_struct_std___Rb_tree_node** v3;
  struct S12_struct_std___Rb_tree_node* v4;
  struct S11_struct_std___Rb_tree_node_base** v5;
  struct S12_struct_std___Rb_tree_node** v6;
  struct S12_struct_std___Rb_tree_node* v7;
  struct S64_struct___gnu_cxx____aligned_membuf* v8;
  u8* v9;
  struct S13_class_std___Sp_counted_base** v10;
  struct S13_class_std___Sp_counted_base* v11;
  u1 v12;
  u32* v13;
  u64* v14;
  u64 v15;
  u1 v16;
  u32* v17;
  fnptr_t** v18;
  fnptr_t* v19;
  fnptr_t* v20;
  fnptr_t v21;
  fnptr_t* v22;
  fnptr_t* v23;
  fnptr_t v24;
  u8 v25;
  u1 v26;
  u32 v27;
  u32 v28;
  u32 v29;
  u32 v30;
  u32 v31; u32 v31_t;
  u1 v32;
  u8** v33;
  u8* v34;
  u8* v35;
  u1 v36;
  u8* v37;
  u1 v38;
L0: ;
  v0 = ((u8*)a1 == (u8*)((struct S12_struct_std___Rb_tree_node*)0));
  if (v0) {
    goto L12;
  } else {
    v1 = a1;
    goto L1;
  }
L1: ;
  v2 = (struct S11_struct_std___Rb_tree_node_base**)(&(*v1).f0.f3);
  v3 = (struct S12_struct_std___Rb_tree_node**)&(*v1).f0.f3;
  v4 = *v3;
  _ZNSt8_Rb_treeINSt7__cxx1112basic_stringIcSt11char_traitsIcESaIcEEESt4pairIKS5_St10shared_ptrIN14OpenVolumeMesh2IO19PropertyDecoderBaseEEESt10_Select1stISD_ESt4lessIS5_ESaISD_EE8_M_eraseEPSt13_Rb_tree_nodeISD_E(a0, v4);
  if (v_exc) return;
  v5 = (struct S11_struct_std___Rb_tree_node_base**)(&(*v1).f0.f2);
  v6 = (struct S12_struct_std___Rb_tree_node**)&(*v1).f0.f2;
  v7 = *v6;
  v8 = (struct S64_struct___gnu_cxx____aligned_membuf*)(&(*v1).f1);
  v9 = (u8*)(&(*v1).f1.f0.e[(s64)((s64)((u64)40ULL))]);
  v10 = (struct S13_class_std___Sp_counted_base**)v9;
  v11 = *v10;
  v12 = ((u8*)v11 == (u8*)((struct S13_class_std___Sp_counted_base*)0));
  if (v12) {
    goto L9;
  } else {
    goto L2;
  }
L2: ;
  v13 = (u32*)(&(*v11).f1);
  v14 = (u64*)v13;
  v15 = (((u64)(*v11).f1 << 0) | ((u64)(*v11).f2 << 32));
  v16 = (v15 == ((u64)4294967297ULL));
  if (v16) {
    goto L3;
  } else {
    goto L4;
  }
L3: ;
  *v13 = ((u32)0ULL);
  v17 = (u32*)(&(*v11).f2);
  *v17 = ((u32)0ULL);
  v18 = (fnptr_t**)&(*v11).f0;
  v19 = *v18;
  v20 = (fnptr_t*)(v19 + (s64)((s64)((u64)2ULL)));
  v21 = *v20;
  ((FT0)v21)(v11);
  v22 = *v18;
  v23 = (fnptr_t*)(v22 + (s64)((s64)((u64)3ULL)));
  v24 = *v23;
  ((FT0)v24)(v11);
  goto L9;
L4: ;
  v25 = *(&__libc_single_threaded);
  v26 = (v25 == ((u8)0ULL));
  if (v26) {
    goto L6;
  } else {
    goto L5;
  }
L5: ;
  v27 = *v13;
  v28 = ((u32)(v27 + ((u32)4294967295ULL)));
  *v13 = v28;
  v31 = v27;
  goto L7;
L6: ;
  v29 = *v13;
  v30 = ((u32)(v29 + ((u32)4294967295ULL)));
  *v13 = v30;
  v31 = v29;
  goto L7;
L7: ;
  v32 = (v31 == ((u32)1ULL));
  if (v32) {
    goto L8;
  } else {
    goto L9;
  }
L8: ;
  _ZNSt16_Sp_counted_baseILN9__gnu_cxx12_Lock_policyE2EE24_M_release_last_use_coldEv(v11);
  goto L9;
L9: ;
  v33 = (u8**)v8;
  v34 = *v33;
  v35 = (u8*)(&(*v1).f1.f0.e[(s64)((s64)((u64)16ULL))]);
  v36 = ((u8*)v34 == (u8*)v35);
  if (v36) {
    goto L11;
  } else {
    goto L10;
  }
L10: ;
  _ZdlPv(v34);
  goto L11;
L11: ;
  v37 = (u8*)v1;
  _ZdlPv(v37);
  v38 = ((u8*)v7 == (u8*)((struct S12_struct_std___Rb_tree_node*)0));
  if (v38) {
    goto L12;
  } else {
    v1 = v7;
    goto L1;
  }
L12: ;
  return;
}

void _ZNSt16_Sp_counted_baseILN9__gnu_cxx12_Lock_policyE2EE24_M_release_last_use_coldEv(struct S13_class_std___Sp_counted_base* a0) {
  fnptr_t** v0;
  fnptr_t* v1;
  fnptr_t* v2;
  fnptr_t v3;
  u32* v4;
  u8 v5;
  u1 v6;
  u32 v7;
  u32 v8;
  u32 v9;
  u32 v10;
  u32 v11; u32 v11_t;
  u1 v12;
  fnptr_t* v13;
  fnptr_t* v14;
  fnptr_t v15;
L0: ;
  v0 = (fnptr_t**)&(*a0).f0;
  v1 = *v0;
  v2 = (fnptr_t*)(v1 + (s64)((s64)((u64)2ULL)));
  v3 = *v2;
  ((FT0)v3)(a0);
  v4 = (u32*)(&(*a0).f2);
  v5 = *(&__libc_single_threaded);
  v6 = (v5 == ((u8)0ULL));
  if (v6) {
    goto L2;
  } else {
    goto L1;
  }
L1: ;
  v7 = *v4;
  v8 = ((u32)(v7 + ((u32)4294967295ULL)));
  *v4 = v8;
  v11 = v7;
  goto L3;
L2: ;
  v9 = *v4;
  v10 = ((u32)(v9 + ((u32)4294967295ULL)));
  *v4 = v10;
  v11 = v9;
  goto L3;
L3: ;
  v12 = (v11 == ((u32)1ULL));
  if (v12) {
    goto L4;
  } else {
    goto L5;
  }
L4: ;
  v13 = *v0;
  v14 = (fnptr_t*)(v13 + (s64)((s64)((u64)3ULL)));
  v15 = *v14;
  ((FT0)v15)(a0);
  goto L5;
L5: ;
  return;
}

void _ZNSt8_Rb_treeIPN14OpenVolumeMesh19PropertyStorageBaseES2_St9_IdentityIS2_ESt4lessIS2_ESaIS2_EE8_M_eraseEPSt13_Rb_tree_nodeIS2_E(struct S10_class_std___Rb_tree* a0, struct S14_struct_std___Rb_tree_node_64* a1) {
  u1 v0;
  struct S14_struct_std___Rb_tree_node_64* v1; struct S14_struct_std___Rb_tree_node_64* v1_t;
  struct S11_struct_std___Rb_tree_node_base** v2;
  struct S14_struct_std___Rb_tree_node_64** v3;
  struct S14_struct_std___Rb_tree_node_64* v4;
  struct S11_struct_std___Rb_tree_node_base** v5;
  struct S14_struct_std___Rb_tree_node_64** v6;
  struct S14_struct_std___Rb_tree_node_64* v7;
  u8* v8;
  u1 v9;
L0: ;
  v0 = ((u8*)a1 == (u8*)((struct S14_struct_std___Rb_tree_node_64*)0));
  if (v0) {
    goto L2;
  } else {
    v1 = a1;
    goto L1;
  }
L1: ;
  v2 = (struct S11_struct_std___Rb_tree_node_base**)(&(*v1).f0.f3);
  v3 = (struct S14_struct_std___Rb_tree_node_64**)&(*v1).f0.f3;
  v4 = *v3;
  _ZNSt8_Rb_treeIPN14OpenVolumeMesh19PropertyStorageBaseES2_St9_IdentityIS2_ESt4lessIS2_ESaIS2_EE8_M_eraseEPSt13_Rb_tree_nodeIS2_E(a0, v4);
  if (v_exc) return;
  v5 = (struct S11_struct_std___Rb_tree_node_base**)(&(*v1).f0.f2);
  v6 = (struct S14_struct_std___Rb_tree_node_64**)&(*v1).f0.f2;
  v7 = *v6;
  v8 = (u8*)v1;
  _ZdlPv(v8);
  v9 = ((u8*)v7 == (u8*)((struct S14_struct_std___Rb_tree_node_64*)0));
  if (v9) {
    goto L2;
  } else {
    v1 = v7;
    goto L1;
  }
L2: ;
  return;
}

void _ZN14OpenVolumeMesh6detail7TrackedINS_19PropertyStorageBaseEED2Ev(struct S15_class_OpenVolumeMesh__detail__Tracked* a0) {
  fnptr_t** v0;
  struct S39_class_OpenVolumeMesh__detail__Tracker** v1;
  struct S39_class_OpenVolumeMesh__detail__Tracker* v2;
  u1 v3;
  struct S16_class_OpenVolumeMesh__PropertyStorageBas* v4;
  struct S26_class_std__map* v5;
  u8* v6;
  u8* v7;
  struct S14_struct_std___Rb_tree_node_64** v8;
  u8* v9;
  struct S11_struct_std___Rb_tree_node_base* v10;
  struct S14_struct_std___Rb_tree_node_64* v11;
  u1 v12;
  struct S14_struct_std___Rb_tree_node_64* v13; struct S14_struct_std___Rb_tree_node_64* v13_t;
  struct S11_struct_std___Rb_tree_node_base* v14; struct S11_struct_std___Rb_tree_node_base* v14_t;
  struct S65_struct___gnu_cxx____aligned_membuf_65* v15;
  struct S16_class_OpenVolumeMesh__PropertyStorageBas** v16;
  struct S16_class_OpenVolumeMesh__PropertyStorageBas* v17;
  u1 v18;
  struct S11_struct_std___Rb_tree_node_base** v19;
  u1 v20;
  struct S11_struct_std___Rb_tree_node_base* v21;
  struct S11_struct_std___Rb_tree_node_base** v22;
  struct S14_struct_std___Rb_tree_node_64** v23;
  struct S14_struct_std___Rb_tree_node_64* v24;
  struct S11_struct_std___Rb_tree_node_base** v25;
  struct S14_struct_std___Rb_tree_node_64** v26;
  struct S14_struct_std___Rb_tree_node_64* v27;
  u1 v28;
  struct S14_struct_std___Rb_tree_node_64* v29; struct S14_struct_std___Rb_tree_node_64* v29_t;
  struct S11_struct_std___Rb_tree_node_base* v30; struct S11_struct_std___Rb_tree_node_base* v30_t;
  struct S65_struct___gnu_cxx____aligned_membuf_65* v31;
  struct S16_class_OpenVolumeMesh__PropertyStorageBas** v32;
  struct S16_class_OpenVolumeMesh__PropertyStorageBas* v33;
  u1 v34;
  struct S11_struct_std___Rb_tree_node_base** v35;
  struct S11_struct_std___Rb_tree_node_base* v36;
  struct S11_struct_std___Rb_tree_node_base** v37;
  struct S11_struct_std___Rb_tree_node_base* v38;
  struct S11_struct_std___Rb_tree_node_base** v39;
  struct S14_struct_std___Rb_tree_node_64** v40;
  struct S14_struct_std___Rb_tree_node_64* v41;
  u1 v42;
  struct S11_struct_std___Rb_tree_node_base* v43; struct S11_struct_std___Rb_tree_node_base* v43_t;
  u1 v44;
  struct S14_struct_std___Rb_tree_node_64* v45; struct S14_struct_std___Rb_tree_node_64* v45_t;
  struct S11_struct_std___Rb_tree_node_base* v46; struct S11_struct_std___Rb_tree_node_base* v46_t;
  struct S65_struct___gnu_cxx____aligned_membuf_65* v47;
  struct S16_class_OpenVolumeMesh__PropertyStorageBas** v48;
  struct S16_class_OpenVolumeMesh__PropertyStorageBas* v49;
  u1 v50;
  struct S11_struct_std___Rb_tree_node_base* v51;
  struct S11_struct_std___Rb_tree_node_base** v52;
  struct S11_struct_std___Rb_tree_node_base** v53;
  struct S11_struct_std___Rb_tree_node_base* v54;
  struct S11_struct_std___Rb_tree_node_base** v55;
  struct S14_struct_std___Rb_tree_node_64** v56;
  struct S14_struct_std___Rb_tree_node_64* v57;
  u1 v58;
  struct S11_struct_std___Rb_tree_node_base* v59; struct S11_struct_std___Rb_tree_node_base* v59_t;
  struct S11_struct_std___Rb_tree_node_base** v60; struct S11_struct_std___Rb_tree_node_base** v60_t;
  struct S14_struct_std___Rb_tree_node_64** v61;
  struct S14_struct_std___Rb_tree_node_64* v62;
  u1 v63;
  struct S11_struct_std___Rb_tree_node_base* v64; struct S11_struct_std___Rb_tree_node_base* v64_t;
  struct S11_struct_std___Rb_tree_node_base* v65; struct S11_struct_std___Rb_tree_node_base* v65_t;
  struct S10_class_std___Rb_tree* v66;
  struct S63 v67;
  u8* v68;
L0: ;
  v0 = (fnptr_t**)(&(*a0).f0);
  *v0 = ((fnptr_t*)((u8**)(&(*(&_ZTVN14OpenVolumeMesh6detail7TrackedINS_19PropertyStorageBaseEEE)).f0.e[(s64)((s64)((u64)2ULL))])));
  v1 = (struct S39_class_OpenVolumeMesh__detail__Tracker**)(&(*a0).f1);
  v2 = *v1;
  v3 = ((u8*)v2 == (u8*)((struct S39_class_OpenVolumeMesh__detail__Tracker*)0));
  if (v3) {
    goto L11;
  } else {
    goto L1;
  }
L1: ;
  v4 = (struct S16_class_OpenVolumeMesh__PropertyStorageBas*)a0;
  v5 = (struct S26_class_std__map*)(&(*v2).f1);
  v6 = (u8*)(&(*v5).f0.f0.f0.f0.f0);
  v7 = (u8*)&(*v2).f1.f0.f0.f1.f0.f1;
  v8 = (struct S14_struct_std___Rb_tree_node_64**)&(*v2).f1.f0.f0.f1.f0.f1;
  v9 = (u8*)&(*v2).f1.f0.f0.f1.f0.f0;
  v10 = (struct S11_struct_std___Rb_tree_node_base*)&(*v2).f1.f0.f0.f1.f0;
  v11 = *v8;
  v12 = ((u8*)v11 == (u8*)((struct S14_struct_std___Rb_tree_node_64*)0));
  if (v12) {
    v64_t = v10;
    v65_t = v10;
    v64 = v64_t;
    v65 = v65_t;
    goto L10;
  } else {
    v13_t = v11;
    v14_t = v10;
    v13 = v13_t;
    v14 = v14_t;
    goto L2;
  }
L2: ;
  v15 = (struct S65_struct___gnu_cxx____aligned_membuf_65*)(&(*v13).f1);
  v16 = (struct S16_class_OpenVolumeMesh__PropertyStorageBas**)v15;
  v17 = *v16;
  v18 = v_plt((u8*)v17, (u8*)v4);
  if (v18) {
    goto L3;
  } else {
    goto L4;
  }
L3: ;
  v19 = (struct S11_struct_std___Rb_tree_node_base**)(&(*v13).f0.f3);
  v59_t = v14;
  v60_t = v19;
  v59 = v59_t;
  v60 = v60_t;
  goto L9;
L4: ;
  v20 = v_plt((u8*)v4, (u8*)v17);
  v21 = (struct S11_struct_std___Rb_tree_node_base*)(&(*v13).f0);
  v22 = (struct S11_struct_std___Rb_tree_node_base**)(&(*v13).f0.f2);
  if (v20) {
    v59_t = v21;
    v60_t = v22;
    v59 = v59_t;
    v60 = v60_t;
    goto L9;
  } else {
    goto L5;
  }
L5: ;
  v23 = (struct S14_struct_std___Rb_tree_node_64**)&(*v13).f0.f2;
  v24 = *v23;
  v25 = (struct S11_struct_std___Rb_tree_node_base**)(&(*v13).f0.f3);
  v26 = (struct S14_struct_std___Rb_tree_node_64**)&(*v13).f0.f3;
  v27 = *v26;
  v28 = ((u8*)v24 == (u8*)((struct S14_struct_std___Rb_tree_node_64*)0));
  if (v28) {
    v43 = v21;
    goto L7;
  } else {
    v29_t = v24;
    v30_t = v21;
    v29 = v29_t;
    v30 = v30_t;
    goto L6;
  }
L6: ;
  v31 = (struct S65_struct___gnu_cxx____aligned_membuf_65*)(&(*v29).f1);
  v32 = (struct S16_class_OpenVolumeMesh__PropertyStorageBas**)v31;
  v33 = *v32;
  v34 = v_plt((u8*)v33, (u8*)v4);
  v35 = (struct S11_struct_std___Rb_tree_node_base**)(&(*v29).f0.f3);
  v36 = (struct S11_struct_std___Rb_tree_node_base*)(&(*v29).f0);
  v37 = (struct S11_struct_std___Rb_tree_node_base**)(&(*v29).f0.f2);
  v38 = (v34 ? v30 : v36);
  v39 = (v34 ? v35 : v37);
  v40 = (struct S14_struct_std___Rb_tree_node_64**)v39;
  v41 = *v40;
  v42 = ((u8*)v41 == (u8*)((struct S14_struct_std___Rb_tree_node_64*)0));
  if (v42) {
    v43 = v38;
    goto L7;
  } else {
    v29_t = v41;
    v30_t = v38;
    v29 = v29_t;
    v30 = v30_t;
    goto L6;
  }
L7: ;
  v44 = ((u8*)v27 == (u8*)((struct S14_struct_std___Rb_tree_node_64*)0));
  if (v44) {
    v64_t = v43;
    v65_t = v14;
    v64 = v64_t;
    v65 = v65_t;
    goto L10;
  } else {
    v45_t = v27;
    v46_t = v14;
    v45 = v45_t;
    v46 = v46_t;
    goto L8;
  }
L8: ;
  v47 = (struct S65_struct___gnu_cxx____aligned_membuf_65*)(&(*v45).f1);
  v48 = (struct S16_class_OpenVolumeMesh__PropertyStorageBas**)v47;
  v49 = *v48;
  v50 = v_plt((u8*)v4, (u8*)v49);
  v51 = (struct S11_struct_std___Rb_tree_node_base*)(&(*v45).f0);
  v52 = (struct S11_struct_std___Rb_tree_node_base**)(&(*v45).f0.f2);
  v53 = (struct S11_struct_std___Rb_tree_node_base**)(&(*v45).f0.f3);
  v54 = (v50 ? v51 : v46);
  v55 = (v50 ? v52 : v53);
  v56 = (struct S14_struct_std___Rb_tree_node_64**)v55;
  v57 = *v56;
  v58 = ((u8*)v57 == (u8*)((struct S14_struct_std___Rb_tree_node_64*)0));
  if (v58) {
    v64_t = v43;
    v65_t = v54;
    v64 = v64_t;
    v65 = v65_t;
    goto L10;
  } else {
    v45_t = v57;
    v46_t = v54;
    v45 = v45_t;
    v46 = v46_t;
    goto L8;
  }
L9: ;
  v61 = (struct S14_struct_std___Rb_tree_node_64**)v60;
  v62 = *v61;
  v63 = ((u8*)v62 == (u8*)((struct S14_struct_std___Rb_tree_node_64*)0));
  if (v63) {
    v64_t = v59;
    v65_t = v59;
    v64 = v64_t;
    v65 = v65_t;
    goto L10;
  } else {
    v13_t = v62;
    v14_t = v59;
    v13 = v13_t;
    v14 = v14_t;
    goto L2;
  }
L10: ;
  v66 = (struct S10_class_std___Rb_tree*)(&(*v5).f0);
  _ZNSt8_Rb_treeIPN14OpenVolumeMesh19PropertyStorageBaseES2_St9_IdentityIS2_ESt4lessIS2_ESaIS2_EE12_M_erase_auxESt23_Rb_tree_const_iteratorIS2_ESA_(v66, v64, v65);
  if (v_exc) {
    goto L12;
  }
  goto L11;
L11: ;
  *v1 = ((struct S39_class_OpenVolumeMesh__detail__Tracker*)0);
  return;
L12: ;
  v67.f0 = v_exc_obj;
  v67.f1 = 0;
  if (v67.f1 == 0) v67.f1 = 9999;
  if (v67.f1 == 0) return;
  v_exc = 0;
  v68 = v67.f0;
  __clang_call_terminate(v68);
  __CPROVER_assume(0);
}

void _ZN14OpenVolumeMesh6detail7TrackedINS_19PropertyStorageBaseEED0Ev(struct S15_class_OpenVolumeMesh__detail__Tracked* a0) {
  u8* v0;
L0: ;
  _ZN14OpenVolumeMesh6detail7TrackedINS_19PropertyStorageBaseEED2Ev(a0);
  v0 = (u8*)a0;
  _ZdlPv(v0);
  return;
}

void _ZN14OpenVolumeMesh19PropertyStorageBaseD2Ev(struct S16_class_OpenVolumeMesh__PropertyStorageBas* a0) {
  fnptr_t** v0;
  u8** v1;
  u8* v2;
  struct S66_union_anon* v3;
  u8* v4;
  u1 v5;
  u8** v6;
  u8* v7;
  struct S66_union_anon* v8;
  u8* v9;
  u1 v10;
  struct S15_class_OpenVolumeMesh__detail__Tracked* v11;
  struct S13_class_std___Sp_counted_base** v12;
  struct S13_class_std___Sp_counted_base* v13;
  u1 v14;
  u32* v15;
  u8 v16;
  u1 v17;
  u32 v18;
  u32 v19;
  u32 v20;
  u32 v21;
  u32 v22; u32 v22_t;
  u1 v23;
  fnptr_t** v24;
  fnptr_t* v25;
  fnptr_t* v26;
  fnptr_t v27;
L0: ;
  v0 = (fnptr_t**)(&(*a0).f0.f0);
  *v0 = ((fnptr_t*)((u8**)(&(*(&_ZTVN14OpenVolumeMesh19PropertyStorageBaseE)).f0.e[(s64)((s64)((u64)2ULL))])));
  v1 = (u8**)(&(*a0).f3.f0.f0);
  v2 = *v1;
  v3 = (struct S66_union_anon*)(&(*a0).f3.f2);
  v4 = (u8*)v3;
  v5 = ((u8*)v2 == (u8*)v4);
  if (v5) {
    goto L2;
  } else {
    goto L1;
  }
L1: ;
  _ZdlPv(v2);
  goto L2;
L2: ;
  v6 = (u8**)(&(*a0).f2.f0.f0);
  v7 = *v6;
  v8 = (struct S66_union_anon*)(&(*a0).f2.f2);
  v9 = (u8*)v8;
  v10 = ((u8*)v7 == (u8*)v9);
  if (v10) {
    goto L4;
  } else {
    goto L3;
  }
L3: ;
  _ZdlPv(v7);
  goto L4;
L4: ;
  v11 = (struct S15_class_OpenVolumeMesh__detail__Tracked*)(&(*a0).f0);
  _ZN14OpenVolumeMesh6detail7TrackedINS_19PropertyStorageBaseEED2Ev(v11);
  v12 = (struct S13_class_std___Sp_counted_base**)(&(*a0).f1.f0.f0.f1.f0);
  v13 = *v12;
  v14 = ((u8*)v13 == (u8*)((struct S13_class_std___Sp_counted_base*)0));
  if (v14) {
    goto L10;
  } else {
    goto L5;
  }
L5: ;
  v15 = (u32*)(&(*v13).f2);
  v16 = *(&__libc_single_threaded);
  v17 = (v16 == ((u8)0ULL));
  if (v17) {
    goto L7;
  } else {
    goto L6;
  }
L6: ;
  v18 = *v15;
  v19 = ((u32)(v18 + ((u32)4294967295ULL)));
  *v15 = v19;
  v22 = v18;
  goto L8;
L7: ;
  v20 = *v15;
  v21 = ((u32)(v20 + ((u32)4294967295ULL)));
  *v15 = v21;
  v22 = v20;
  goto L8;
L8: ;
  v23 = (v22 == ((u32)1ULL));
  if (v23) {
    goto L9;
  } else {
    goto L10;
  }
L9: ;
  v24 = (fnptr_t**)&(*v13).f0;
  v25 = *v24;
  v26 = (fnptr_t*)(v25 + (s64)((s64)((u64)3ULL)));
  v27 = *v26;
  ((FT0)v27)(v13);
  goto L10;
L10: ;
  return;
}

void _ZN14OpenVolumeMesh19PropertyStorageBaseD0Ev(struct S16_class_OpenVolumeMesh__PropertyStorageBas* a0) {
L0: ;
  __CPROVER_assert(0, "llvm.trap"); __CPROVER_assume(0);
  __CPROVER_assume(0);
}

void _ZNK14OpenVolumeMesh19PropertyStorageBase9serializeERSo(struct S16_class_OpenVolumeMesh__PropertyStorageBas* a0, struct S17_class_std__basic_ostream* a1) {
L0: ;
  return;
}

void _ZN14OpenVolumeMesh19PropertyStorageBase11deserializeERSi(struct S16_class_OpenVolumeMesh__PropertyStorageBas* a0, struct S18_class_std__basic_istream* a1) {
L0: ;
  return;
}

void _ZN14OpenVolumeMesh15BasePropertyPtrD2Ev(struct S21_class_OpenVolumeMesh__IO__PropertyDecode* a0) {
L0: ;
  return;
}

void _ZN14OpenVolumeMesh15BasePropertyPtrD0Ev(struct S21_class_OpenVolumeMesh__IO__PropertyDecode* a0) {
L0: ;
  __CPROVER_assert(0, "llvm.trap"); __CPROVER_assume(0);
  __CPROVER_assume(0);
}

void _ZN14OpenVolumeMesh19PropertyStorageBaseC2ERKS0_(struct S16_class_OpenVolumeMesh__PropertyStorageBas* a0, struct S16_class_OpenVolumeMesh__PropertyStorageBas* a1) {
  u64* v0; u64 v0_m;
  u64* v1; u64 v1_m;
  struct S16_class_OpenVolumeMesh__PropertyStorageBas** v2; struct S16_class_OpenVolumeMesh__PropertyStorageBas* v2_m;
  struct S24_class_std__enable_shared_from_this* v3;
  u8* v4;
  struct S15_class_OpenVolumeMesh__detail__Tracked* v5;
  fnptr_t** v6;
  struct S39_class_OpenVolumeMesh__detail__Tracker** v7;
  struct S39_class_OpenVolumeMesh__detail__Tracker** v8;
  struct S39_class_OpenVolumeMesh__detail__Tracker* v9;
  u1 v10;
  u8* v11;
  struct S15_class_OpenVolumeMesh__detail__Tracked** v12;
  struct S10_class_std___Rb_tree* v13;
  struct S23 v14;
  fnptr_t** v15;
  struct S27_class_std____cxx11__basic_string* v16;
  struct S66_union_anon* v17;
  struct S66_union_anon** v18;
  u8** v19;
  u8* v20;
  u64* v21;
  u64 v22;
  u8* v23;
  u1 v24;
  u8* v25;
  u8** v26;
  u64 v27;
  u64* v28;
  u8** v29;
  u8* v30;
  u8 v31;
  u64 v32;
  u64* v33;
  u8* v34;
  u8* v35;
  struct S27_class_std____cxx11__basic_string* v36;
  struct S66_union_anon* v37;
  struct S66_union_anon** v38;
  u8** v39;
  u8* v40;
  u64* v41;
  u64 v42;
  u8* v43;
  u1 v44;
  u8* v45;
  u8** v46;
  u64 v47;
  u64* v48;
  u8** v49;
  u8* v50;
  u8 v51;
  u64 v52;
  u64* v53;
  u8* v54;
  u8* v55;
  u8* v56;
  u8* v57;
  struct S63 v58;
  struct S63 v59;
  struct S63 v60;
  u8* v61;
  u8* v62;
  u1 v63;
  struct S63 v64; struct S63 v64_t;
  struct S63 v65; struct S63 v65_t;
L0: ;
  v0 = &v0_m;
  v1 = &v1_m;
  v2 = &v2_m;
  v3 = (struct S24_class_std__enable_shared_from_this*)(&(*a0).f1);
  v4 = (u8*)v3;
  (*a0).f1.f0.f0.f0 = (struct S16_class_OpenVolumeMesh__PropertyStorageBas*)0;
  (*a0).f1.f0.f0.f1.f0 = (struct S13_class_std___Sp_counted_base*)0;
  v5 = (struct S15_class_OpenVolumeMesh__detail__Tracked*)(&(*a0).f0);
  v6 = (fnptr_t**)(&(*a0).f0.f0);
  *v6 = ((fnptr_t*)((u8**)(&(*(&_ZTVN14OpenVolumeMesh6detail7TrackedINS_19PropertyStorageBaseEEE)).f0.e[(s64)((s64)((u64)2ULL))])));
  v7 = (struct S39_class_OpenVolumeMesh__detail__Tracker**)(&(*a0).f0.f1);
  v8 = (struct S39_class_OpenVolumeMesh__detail__Tracker**)(&(*a1).f0.f1);
  v9 = *v8;
  *v7 = v9;
  v10 = ((u8*)v9 == (u8*)((struct S39_class_OpenVolumeMesh__detail__Tracker*)0));
  if (v10) {
    goto L3;
  } else {
    goto L1;
  }
L1: ;
  v11 = (u8*)v2;
  v12 = (struct S15_class_OpenVolumeMesh__detail__Tracked**)v2;
  *v12 = v5;
  v13 = (struct S10_class_std___Rb_tree*)(&(*v9).f1.f0);
  v14 = _ZNSt8_Rb_treeIPN14OpenVolumeMesh19PropertyStorageBaseES2_St9_IdentityIS2_ESt4lessIS2_ESaIS2_EE16_M_insert_uniqueIRKS2_EESt4pairISt17_Rb_tree_iteratorIS2_EbEOT_(v13, v2);
  if (v_exc) {
    goto L16;
  }
  goto L2;
L2: ;
  goto L3;
L3: ;
  v15 = (fnptr_t**)(&(*a0).f0.f0);
  *v15 = ((fnptr_t*)((u8**)(&(*(&_ZTVN14OpenVolumeMesh19PropertyStorageBaseE)).f0.e[(s64)((s64)((u64)2ULL))])));
  v16 = (struct S27_class_std____cxx11__basic_string*)(&(*a0).f2);
  v17 = (struct S66_union_anon*)(&(*a0).f2.f2);
  v18 = (struct S66_union_anon**)&(*a0).f2.f0.f0;
  *v18 = v17;
  v19 = (u8**)(&(*a1).f2.f0.f0);
  v20 = *v19;
  v21 = (u64*)(&(*a1).f2.f1);
  v22 = *v21;
  v23 = (u8*)v1;
  *v1 = v22;
  v24 = (v22 > ((u64)15ULL));
  if (v24) {
    goto L4;
  } else {
    goto L6;
  }
L4: ;
  v25 = _ZNSt7__cxx1112basic_stringIcSt11char_traitsIcESaIcEE9_M_createERmm(v16, v1, ((u64)0ULL));
  if (v_exc) {
    goto L17;
  }
  goto L5;
L5: ;
  v26 = (u8**)(&(*v16).f0.f0);
  *v26 = v25;
  v27 = *v1;
  v28 = (u64*)(&(*a0).f2.f2.f0.e[0]);
  *v28 = v27;
  goto L6;
L6: ;
  v29 = (u8**)(&(*v16).f0.f0);
  v30 = *v29;
  switch (v22) {
  case ((u64)1ULL): {
    goto L7;
  }
  case ((u64)0ULL): {
    goto L9;
  }
  default: {
    goto L8;
  }
  }
L7: ;
  v31 = *v20;
  *v30 = v31;
  goto L9;
L8: ;
  v_memcpy((u8*)v30, (u8*)v20, (u64)v22);
  goto L9;
L9: ;
  v32 = *v1;
  v33 = (u64*)(&(*a0).f2.f1);
  *v33 = v32;
  v34 = *v29;
  v35 = (u8*)(v34 + (s64)((s64)v32));
  *v35 = ((u8)0ULL);
  v36 = (struct S27_class_std____cxx11__basic_string*)(&(*a0).f3);
  v37 = (struct S66_union_anon*)(&(*a0).f3.f2);
  v38 = (struct S66_union_anon**)&(*a0).f3.f0.f0;
  *v38 = v37;
  v39 = (u8**)(&(*a1).f3.f0.f0);
  v40 = *v39;
  v41 = (u64*)(&(*a1).f3.f1);
  v42 = *v41;
  v43 = (u8*)v0;
  *v0 = v42;
  v44 = (v42 > ((u64)15ULL));
  if (v44) {
    goto L10;
  } else {
    goto L12;
  }
L10: ;
  v45 = _ZNSt7__cxx1112basic_stringIcSt11char_traitsIcESaIcEE9_M_createERmm(v36, v0, ((u64)0ULL));
  if (v_exc) {
    goto L18;
  }
  goto L11;
L11: ;
  v46 = (u8**)(&(*v36).f0.f0);
  *v46 = v45;
  v47 = *v0;
  v48 = (u64*)(&(*a0).f3.f2.f0.e[0]);
  *v48 = v47;
  goto L12;
L12: ;
  v49 = (u8**)(&(*v36).f0.f0);
  v50 = *v49;
  switch (v42) {
  case ((u64)1ULL): {
    goto L13;
  }
  case ((u64)0ULL): {
    goto L15;
  }
  default: {
    goto L14;
  }
  }
L13: ;
  v51 = *v40;
  *v50 = v51;
  goto L15;
L14: ;
  v_memcpy((u8*)v50, (u8*)v40, (u64)v42);
  goto L15;
L15: ;
  v52 = *v0;
  v53 = (u64*)(&(*a0).f3.f1);
  *v53 = v52;
  v54 = *v49;
  v55 = (u8*)(v54 + (s64)((s64)v52));
  *v55 = ((u8)0ULL);
  v56 = (u8*)(&(*a0).f4);
  v57 = (u8*)(&(*a1).f4);
  (*a0).f4 = (u8)(*a1).f4;
  (*a0).f5 = (u8)(*a1).f5;
  (*a0).f6 = (u8)(*a1).f6;
  return;
L16: ;
  v58.f0 = v_exc_obj;
  v58.f1 = 0;
  v_exc = 0;
  v65 = v58;
  goto L21;
L17: ;
  v59.f0 = v_exc_obj;
  v59.f1 = 0;
  v_exc = 0;
  v64 = v59;
  goto L20;
L18: ;
  v60.f0 = v_exc_obj;
  v60.f1 = 0;
  v_exc = 0;
  v61 = *v29;
  v62 = (u8*)v17;
  v63 = ((u8*)v61 == (u8*)v62);
  if (v63) {
    v64 = v60;
    goto L20;
  } else {
    goto L19;
  }
L19: ;
  _ZdlPv(v61);
  v64 = v60;
  goto L20;
L20: ;
  _ZN14OpenVolumeMesh6detail7TrackedINS_19PropertyStorageBaseEED2Ev(v5);
  v65 = v64;
  goto L21;
L21: ;
  _ZNSt23enable_shared_from_thisIN14OpenVolumeMesh19PropertyStorageBaseEED2Ev(v3);
  v_exc = 1; return;
}

struct S23 _ZNSt8_Rb_treeIPN14OpenVolumeMesh19PropertyStorageBaseES2_St9_IdentityIS2_ESt4lessIS2_ESaIS2_EE16_M_insert_uniqueIRKS2_EESt4pairISt17_Rb_tree_iteratorIS2_EbEOT_(struct S10_class_std___Rb_tree* a0, struct S16_class_OpenVolumeMesh__PropertyStorageBas** a1) {
  u8* v0;
  u8* v1;
  struct S14_struct_std___Rb_tree_node_64** v2;
  u8* v3;
  struct S11_struct_std___Rb_tree_node_base* v4;
  struct S14_struct_std___Rb_tree_node_64* v5;
  u1 v6;
  struct S16_class_OpenVolumeMesh__PropertyStorageBas* v7;
  struct S14_struct_std___Rb_tree_node_64* v8; struct S14_struct_std___Rb_tree_node_64* v8_t;
  struct S65_struct___gnu_cxx____aligned_membuf_65* v9;
  struct S16_class_OpenVolumeMesh__PropertyStorageBas** v10;
  struct S16_class_OpenVolumeMesh__PropertyStorageBas* v11;
  u1 v12;
  struct S11_struct_std___Rb_tree_node_base** v13;
  struct S11_struct_std___Rb_tree_node_base** v14;
  struct S11_struct_std___Rb_tree_node_base** v15;
  struct S14_struct_std___Rb_tree_node_64** v16;
  struct S14_struct_std___Rb_tree_node_64* v17;
  u1 v18;
  struct S11_struct_std___Rb_tree_node_base* v19;
  struct S11_struct_std___Rb_tree_node_base* v20; struct S11_struct_std___Rb_tree_node_base* v20_t;
  u1 v21; u1 v21_t;
  struct S14_struct_std___Rb_tree_node_64* v22; struct S14_struct_std___Rb_tree_node_64* v22_t;
  u8* v23;
  struct S11_struct_std___Rb_tree_node_base** v24;
  struct S11_struct_std___Rb_tree_node_base* v25;
  u1 v26;
  struct S11_struct_std___Rb_tree_node_base* v27;
  struct S11_struct_std___Rb_tree_node_base* v28;
  struct S11_struct_std___Rb_tree_node_base* v29; struct S11_struct_std___Rb_tree_node_base* v29_t;
  struct S11_struct_std___Rb_tree_node_base* v30;
  struct S16_class_OpenVolumeMesh__PropertyStorageBas** v31;
  struct S16_class_OpenVolumeMesh__PropertyStorageBas* v32;
  struct S16_class_OpenVolumeMesh__PropertyStorageBas* v33;
  u1 v34;
  struct S11_struct_std___Rb_tree_node_base* v35;
  struct S11_struct_std___Rb_tree_node_base* v36;
  struct S11_struct_std___Rb_tree_node_base* v37;
  struct S11_struct_std___Rb_tree_node_base* v38; struct S11_struct_std___Rb_tree_node_base* v38_t;
  struct S11_struct_std___Rb_tree_node_base* v39; struct S11_struct_std___Rb_tree_node_base* v39_t;
  u1 v40;
  u1 v41;
  u1 v42;
  u1 v43;
  struct S16_class_OpenVolumeMesh__PropertyStorageBas* v44;
  struct S11_struct_std___Rb_tree_node_base* v45;
  struct S16_class_OpenVolumeMesh__PropertyStorageBas** v46;
  struct S16_class_OpenVolumeMesh__PropertyStorageBas* v47;
  u1 v48;
  u1 v49; u1 v49_t;
  u8* v50;
  struct S14_struct_std___Rb_tree_node_64* v51;
  struct S65_struct___gnu_cxx____aligned_membuf_65* v52;
  struct S16_class_OpenVolumeMesh__PropertyStorageBas** v53;
  struct S16_class_OpenVolumeMesh__PropertyStorageBas* v54;
  struct S11_struct_std___Rb_tree_node_base* v55;
  u8* v56;
  u64* v57;
  u64 v58;
  u64 v59;
  struct S11_struct_std___Rb_tree_node_base* v60; struct S11_struct_std___Rb_tree_node_base* v60_t;
  u8 v61; u8 v61_t;
  struct S23 v62;
  struct S23 v63;
L0: ;
  v0 = (u8*)(&(*a0).f0.f0.f0.f0);
  v1 = (u8*)&(*a0).f0.f1.f0.f1;
  v2 = (struct S14_struct_std___Rb_tree_node_64**)&(*a0).f0.f1.f0.f1;
  v3 = (u8*)&(*a0).f0.f1.f0.f0;
  v4 = (struct S11_struct_std___Rb_tree_node_base*)&(*a0).f0.f1.f0;
  v5 = *v2;
  v6 = ((u8*)v5 == (u8*)((struct S14_struct_std___Rb_tree_node_64*)0));
  if (v6) {
    v20_t = v4;
    v21_t = ((u1)1ULL);
    v22_t = v5;
    v20 = v20_t;
    v21 = v21_t;
    v22 = v22_t;
    goto L4;
  } else {
    goto L1;
  }
L1: ;
  v7 = *a1;
  v8 = v5;
  goto L2;
L2: ;
  v9 = (struct S65_struct___gnu_cxx____aligned_membuf_65*)(&(*v8).f1);
  v10 = (struct S16_class_OpenVolumeMesh__PropertyStorageBas**)v9;
  v11 = *v10;
  v12 = v_plt((u8*)v7, (u8*)v11);
  v13 = (struct S11_struct_std___Rb_tree_node_base**)(&(*v8).f0.f2);
  v14 = (struct S11_struct_std___Rb_tree_node_base**)(&(*v8).f0.f3);
  v15 = (v12 ? v13 : v14);
  v16 = (struct S14_struct_std___Rb_tree_node_64**)v15;
  v17 = *v16;
  v18 = ((u8*)v17 == (u8*)((struct S14_struct_std___Rb_tree_node_64*)0));
  if (v18) {
    goto L3;
  } else {
    v8 = v17;
    goto L2;
  }
L3: ;
  v19 = (struct S11_struct_std___Rb_tree_node_base*)(&(*v8).f0);
  v20_t = v19;
  v21_t = v12;
  v22_t = v17;
  v20 = v20_t;
  v21 = v21_t;
  v22 = v22_t;
  goto L4;
L4: ;
  if (v21) {
    goto L5;
  } else {
    v29 = v20;
    goto L8;
  }
L5: ;
  v23 = (u8*)&(*a0).f0.f1.f0.f2;
  v24 = (struct S11_struct_std___Rb_tree_node_base**)&(*a0).f0.f1.f0.f2;
  v25 = *v24;
  v26 = ((u8*)v20 == (u8*)v25);
  if (v26) {
    goto L6;
  } else {
    goto L7;
  }
L6: ;
  v27 = (struct S11_struct_std___Rb_tree_node_base*)(&(*v22).f0);
  v38_t = v27;
  v39_t = v20;
  v38 = v38_t;
  v39 = v39_t;
  goto L9;
L7: ;
  v28 = _ZSt18_Rb_tree_decrementPSt18_Rb_tree_node_base(v20);
  v29 = v28;
  goto L8;
L8: ;
  v30 = (struct S11_struct_std___Rb_tree_node_base*)(v29 + (s64)((s64)((u64)1ULL)));
  v31 = (struct S16_class_OpenVolumeMesh__PropertyStorageBas**)v30;
  v32 = *v31;
  v33 = *a1;
  v34 = v_plt((u8*)v32, (u8*)v33);
  v35 = (struct S11_struct_std___Rb_tree_node_base*)(&(*v22).f0);
  v36 = (v34 ? v35 : v29);
  v37 = (v34 ? v20 : ((struct S11_struct_std___Rb_tree_node_base*)0));
  v38_t = v36;
  v39_t = v37;
  v38 = v38_t;
  v39 = v39_t;
  goto L9;
L9: ;
  v40 = ((u8*)v39 == (u8*)((struct S11_struct_std___Rb_tree_node_base*)0));
  if (v40) {
    v60_t = v38;
    v61_t = ((u8)0ULL);
    v60 = v60_t;
    v61 = v61_t;
    goto L13;
  } else {
    goto L10;
  }
L10: ;
  v41 = ((u8*)v38 != (u8*)((struct S11_struct_std___Rb_tree_node_base*)0));
  v42 = ((u8*)v39 == (u8*)v4);
  v43 = (v41 ? ((u1)1ULL) : v42);
  if (v43) {
    v49 = ((u1)1ULL);
    goto L12;
  } else {
    goto L11;
  }
L11: ;
  v44 = *a1;
  v45 = (struct S11_struct_std___Rb_tree_node_base*)(v39 + (s64)((s64)((u64)1ULL)));
  v46 = (struct S16_class_OpenVolumeMesh__PropertyStorageBas**)v45;
  v47 = *v46;
  v48 = v_plt((u8*)v44, (u8*)v47);
  v49 = v48;
  goto L12;
L12: ;
  v50 = (u8*)((((u64)40ULL) % sizeof(struct S14_struct_std___Rb_tree_node_64) == 0) ? __CPROVER_allocate(sizeof(struct S14_struct_std___Rb_tree_node_64) * (((u64)40ULL) / sizeof(struct S14_struct_std___Rb_tree_node_64)), 0) : __CPROVER_allocate(((u64)40ULL), 0));
  v_alloc_note((u8*)v50);
  v51 = (struct S14_struct_std___Rb_tree_node_64*)v50;
  v52 = (struct S65_struct___gnu_cxx____aligned_membuf_65*)(&(*v51).f1);
  v53 = (struct S16_class_OpenVolumeMesh__PropertyStorageBas**)v52;
  v54 = *a1;
  *v53 = v54;
  v55 = (struct S11_struct_std___Rb_tree_node_base*)(&(*v51).f0);
  _ZSt29_Rb_tree_insert_and_rebalancebPSt18_Rb_tree_node_baseS0_RS_(v49, v55, v39, v4);
  v56 = (u8*)&(*a0).f0.f1.f1;
  v57 = (u64*)&(*a0).f0.f1.f1;
  v58 = *v57;
  v59 = ((u64)(v58 + ((u64)1ULL)));
  *v57 = v59;
  v60_t = v55;
  v61_t = ((u8)1ULL);
  v60 = v60_t;
  v61 = v61_t;
  goto L13;
L13: ;
  v62.f0 = v60;
  v63 = v62;
  v63.f1 = v61;
  return v63;
}

void _ZNSt23enable_shared_from_thisIN14OpenVolumeMesh19PropertyStorageBaseEED2Ev(struct S24_class_std__enable_shared_from_this* a0) {
  struct S13_class_std___Sp_counted_base** v0;
  struct S13_class_std___Sp_counted_base* v1;
  u1 v2;
  u32* v3;
  u8 v4;
  u1 v5;
  u32 v6;
  u32 v7;
  u32 v8;
  u32 v9;
  u32 v10; u32 v10_t;
  u1 v11;
  fnptr_t** v12;
  fnptr_t* v13;
  fnptr_t* v14;
  fnptr_t v15;
L0: ;
  v0 = (struct S13_class_std___Sp_counted_base**)(&(*a0).f0.f0.f1.f0);
  v1 = *v0;
  v2 = ((u8*)v1 == (u8*)((struct S13_class_std___Sp_counted_base*)0));
  if (v2) {
    goto L6;
  } else {
    goto L1;
  }
L1: ;
  v3 = (u32*)(&(*v1).f2);
  v4 = *(&__libc_single_threaded);
  v5 = (v4 == ((u8)0ULL));
  if (v5) {
    goto L3;
  } else {
    goto L2;
  }
L2: ;
  v6 = *v3;
  v7 = ((u32)(v6 + ((u32)4294967295ULL)));
  *v3 = v7;
  v10 = v6;
  goto L4;
L3: ;
  v8 = *v3;
  v9 = ((u32)(v8 + ((u32)4294967295ULL)));
  *v3 = v9;
  v10 = v8;
  goto L4;
L4: ;
  v11 = (v10 == ((u32)1ULL));
  if (v11) {
    goto L5;
  } else {
    goto L6;
  }
L5: ;
  v12 = (fnptr_t**)&(*v1).f0;
  v13 = *v12;
  v14 = (fnptr_t*)(v13 + (s64)((s64)((u64)3ULL)));
  v15 = *v14;
  ((FT0)v15)(v1);
  goto L6;
L6: ;
  return;
}

void _ZNSt16_Sp_counted_baseILN9__gnu_cxx12_Lock_policyE2EED2Ev(struct S13_class_std___Sp_counted_base* a0) {
L0: ;
  return;
}

void _ZNSt16_Sp_counted_baseILN9__gnu_cxx12_Lock_policyE2EED0Ev(struct S13_class_std___Sp_counted_base* a0) {
L0: ;
  __CPROVER_assert(0, "llvm.trap"); __CPROVER_assume(0);
  __CPROVER_assume(0);
}

void _ZNSt16_Sp_counted_baseILN9__gnu_cxx12_Lock_policyE2EE10_M_destroyEv(struct S13_class_std___Sp_counted_base* a0) {
  fnptr_t** v0;
  fnptr_t* v1;
  fnptr_t* v2;
  fnptr_t v3;
L0: ;
  v0 = (fnptr_t**)&(*a0).f0;
  v1 = *v0;
  v2 = (fnptr_t*)(v1 + (s64)((s64)((u64)1ULL)));
  v3 = *v2;
  ((FT0)v3)(a0);
  return;
}

struct S25_class_std__shared_ptr_19* _ZNSt3mapINSt7__cxx1112basic_stringIcSt11char_traitsIcESaIcEEESt10shared_ptrIN14OpenVolumeMesh2IO19PropertyEncoderBaseEESt4lessIS5_ESaISt4pairIKS5_SA_EEEixEOS5_(struct S26_class_std__map* a0, struct S27_class_std____cxx11__basic_string* a1) {
  struct S29_class_std__tuple_166* v0; struct S29_class_std__tuple_166 v0_m;
  struct S0_class_std__ios_base__Init* v1; struct S0_class_std__ios_base__Init v1_m;
  u8* v2;
  u8* v3;
  struct S12_struct_std___Rb_tree_node** v4;
  struct S12_struct_std___Rb_tree_node* v5;
  u8* v6;
  struct S11_struct_std___Rb_tree_node_base* v7;
  u1 v8;
  u64* v9;
  u64 v10;
  u8** v11;
  u8* v12;
  struct S12_struct_std___Rb_tree_node* v13; struct S12_struct_std___Rb_tree_node* v13_t;
  struct S11_struct_std___Rb_tree_node_base* v14; struct S11_struct_std___Rb_tree_node_base* v14_t;
  u8* v15;
  u64* v16;
  u64 v17;
  u1 v18;
  u64 v19;
  u1 v20;
  struct S64_struct___gnu_cxx____aligned_membuf* v21;
  u8** v22;
  u8* v23;
  u32 v24;
  u32 v25; u32 v25_t;
  u1 v26;
  u64 v27;
  u1 v28;
  u64 v29;
  u1 v30;
  u64 v31;
  u32 v32;
  u32 v33; u32 v33_t;
  u1 v34;
  struct S11_struct_std___Rb_tree_node_base** v35;
  struct S11_struct_std___Rb_tree_node_base* v36;
  struct S11_struct_std___Rb_tree_node_base** v37;
  struct S11_struct_std___Rb_tree_node_base* v38;
  struct S11_struct_std___Rb_tree_node_base** v39;
  struct S12_struct_std___Rb_tree_node** v40;
  struct S12_struct_std___Rb_tree_node* v41;
  u1 v42;
  struct S11_struct_std___Rb_tree_node_base* v43; struct S11_struct_std___Rb_tree_node_base* v43_t;
  u1 v44;
  u64* v45;
  u64 v46;
  struct S11_struct_std___Rb_tree_node_base** v47;
  u64* v48;
  u64 v49;
  u1 v50;
  u64 v51;
  u1 v52;
  struct S11_struct_std___Rb_tree_node_base* v53;
  u8** v54;
  u8* v55;
  u8** v56;
  u8* v57;
  u32 v58;
  u32 v59; u32 v59_t;
  u1 v60;
  u64 v61;
  u1 v62;
  u64 v63;
  u1 v64;
  u64 v65;
  u32 v66;
  u32 v67; u32 v67_t;
  u1 v68;
  struct S10_class_std___Rb_tree* v69;
  u8* v70;
  struct S27_class_std____cxx11__basic_string** v71;
  u8* v72;
  struct S11_struct_std___Rb_tree_node_base* v73;
  struct S11_struct_std___Rb_tree_node_base* v74; struct S11_struct_std___Rb_tree_node_base* v74_t;
  struct S11_struct_std___Rb_tree_node_base* v75;
  struct S25_class_std__shared_ptr_19* v76;
L0: ;
  v0 = &v0_m;
  v1 = &v1_m;
  v2 = (u8*)(&(*a0).f0.f0.f0.f0.f0);
  v3 = (u8*)&(*a0).f0.f0.f1.f0.f1;
  v4 = (struct S12_struct_std___Rb_tree_node**)&(*a0).f0.f0.f1.f0.f1;
  v5 = *v4;
  v6 = (u8*)&(*a0).f0.f0.f1.f0.f0;
  v7 = (struct S11_struct_std___Rb_tree_node_base*)&(*a0).f0.f0.f1.f0;
  v8 = ((u8*)v5 == (u8*)((struct S12_struct_std___Rb_tree_node*)0));
  if (v8) {
    v43 = v7;
    goto L7;
  } else {
    goto L1;
  }
L1: ;
  v9 = (u64*)(&(*a1).f1);
  v10 = *v9;
  v11 = (u8**)(&(*a1).f0.f0);
  v12 = *v11;
  v13_t = v5;
  v14_t = v7;
  v13 = v13_t;
  v14 = v14_t;
  goto L2;
L2: ;
  v15 = (u8*)(&(*v13).f1.f0.e[(s64)((s64)((u64)8ULL))]);
  v16 = (u64*)v15;
  v17 = (((u64)(*v13).f1.f0.e[8] << 0) | ((u64)(*v13).f1.f0.e[9] << 8) | ((u64)(*v13).f1.f0.e[10] << 16) | ((u64)(*v13).f1.f0.e[11] << 24) | ((u64)(*v13).f1.f0.e[12] << 32) | ((u64)(*v13).f1.f0.e[13] << 40) | ((u64)(*v13).f1.f0.e[14] << 48) | ((u64)(*v13).f1.f0.e[15] << 56));
  v18 = (v17 > v10);
  v19 = (v18 ? v10 : v17);
  v20 = (v19 == ((u64)0ULL));
  if (v20) {
    v25 = ((u32)0ULL);
    goto L4;
  } else {
    goto L3;
  }
L3: ;
  v21 = (struct S64_struct___gnu_cxx____aligned_membuf*)(&(*v13).f1);
  v22 = (u8**)v21;
  v23 = *v22;
  v24 = memcmp(v23, v12, v19);
  v25 = v24;
  goto L4;
L4: ;
  v26 = (v25 == ((u32)0ULL));
  if (v26) {
    goto L5;
  } else {
    v33 = v25;
    goto L6;
  }
L5: ;
  v27 = ((u64)(v17 - v10));
  v28 = (((s64)v27) > ((s64)((u64)18446744071562067968ULL)));
  v29 = (v28 ? v27 : ((u64)18446744071562067968ULL));
  v30 = (((s64)v29) < ((s64)((u64)2147483647ULL)));
  v31 = (v30 ? v29 : ((u64)2147483647ULL));
  v32 = ((u32)(v31));
  v33 = v32;
  goto L6;
L6: ;
  v34 = (((s32)v33) < ((s32)((u32)0ULL)));
  v35 = (struct S11_struct_std___Rb_tree_node_base**)(&(*v13).f0.f3);
  v36 = (struct S11_struct_std___Rb_tree_node_base*)(&(*v13).f0);
  v37 = (struct S11_struct_std___Rb_tree_node_base**)(&(*v13).f0.f2);
  v38 = (v34 ? v14 : v36);
  v39 = (v34 ? v35 : v37);
  v40 = (struct S12_struct_std___Rb_tree_node**)v39;
  v41 = *v40;
  v42 = ((u8*)v41 == (u8*)((struct S12_struct_std___Rb_tree_node*)0));
  if (v42) {
    v43 = v38;
    goto L7;
  } else {
    v13_t = v41;
    v14_t = v38;
    v13 = v13_t;
    v14 = v14_t;
    goto L2;
  }
L7: ;
  v44 = ((u8*)v43 == (u8*)v7);
  if (v44) {
    goto L13;
  } else {
    goto L8;
  }
L8: ;
  v45 = (u64*)(&(*a1).f1);
  v46 = *v45;
  v47 = (struct S11_struct_std___Rb_tree_node_base**)(&(v43)[(s64)((s64)((u64)1ULL))].f1);
  v48 = (u64*)v47;
  v49 = *v48;
  v50 = (v46 > v49);
  v51 = (v50 ? v49 : v46);
  v52 = (v51 == ((u64)0ULL));
  if (v52) {
    v59 = ((u32)0ULL);
    goto L10;
  } else {
    goto L9;
  }
L9: ;
  v53 = (struct S11_struct_std___Rb_tree_node_base*)(v43 + (s64)((s64)((u64)1ULL)));
  v54 = (u8**)v53;
  v55 = *v54;
  v56 = (u8**)(&(*a1).f0.f0);
  v57 = *v56;
  v58 = memcmp(v57, v55, v51);
  v59 = v58;
  goto L10;
L10: ;
  v60 = (v59 == ((u32)0ULL));
  if (v60) {
    goto L11;
  } else {
    v67 = v59;
    goto L12;
  }
L11: ;
  v61 = ((u64)(v46 - v49));
  v62 = (((s64)v61) > ((s64)((u64)18446744071562067968ULL)));
  v63 = (v62 ? v61 : ((u64)18446744071562067968ULL));
  v64 = (((s64)v63) < ((s64)((u64)2147483647ULL)));
  v65 = (v64 ? v63 : ((u64)2147483647ULL));
  v66 = ((u32)(v65));
  v67 = v66;
  goto L12;
L12: ;
  v68 = (((s32)v67) < ((s32)((u32)0ULL)));
  if (v68) {
    goto L13;
  } else {
    v74 = v43;
    goto L14;
  }
L13: ;
  v69 = (struct S10_class_std___Rb_tree*)(&(*a0).f0);
  v70 = (u8*)v0;
  v71 = (struct S27_class_std____cxx11__basic_string**)(&(*v0).f0.f0.f0);
  *v71 = a1;
  v72 = (u8*)(&(*v1).f0);
  v73 = _ZNSt8_Rb_treeINSt7__cxx1112basic_stringIcSt11char_traitsIcESaIcEEESt4pairIKS5_St10shared_ptrIN14OpenVolumeMesh2IO19PropertyEncoderBaseEEESt10_Select1stISD_ESt4lessIS5_ESaISD_EE22_M_emplace_hint_uniqueIJRKSt21piecewise_construct_tSt5tupleIJOS5_EESO_IJEEEEESt17_Rb_tree_iteratorISD_ESt23_Rb_tree_const_iteratorISD_EDpOT_(v69, v43, (&_ZSt19piecewise_construct), v0, v1);
  if (v_exc) return (struct S25_class_std__shared_ptr_19*)0;
  v74 = v73;
  goto L14;
L14: ;
  v75 = (struct S11_struct_std___Rb_tree_node_base*)(v74 + (s64)((s64)((u64)2ULL)));
  v76 = (struct S25_class_std__shared_ptr_19*)v75;
  return v76;
}

struct S28_class_std__shared_ptr_25* _ZNSt3mapINSt7__cxx1112basic_stringIcSt11char_traitsIcESaIcEEESt10shared_ptrIN14OpenVolumeMesh2IO19PropertyDecoderBaseEESt4lessIS5_ESaISt4pairIKS5_SA_EEEixERSE_(struct S26_class_std__map* a0, struct S27_class_std____cxx11__basic_string* a1) {
  struct S29_class_std__tuple_166* v0; struct S29_class_std__tuple_166 v0_m;
  struct S0_class_std__ios_base__Init* v1; struct S0_class_std__ios_base__Init v1_m;
  u8* v2;
  u8* v3;
  struct S12_struct_std___Rb_tree_node** v4;
  struct S12_struct_std___Rb_tree_node* v5;
  u8* v6;
  struct S11_struct_std___Rb_tree_node_base* v7;
  u1 v8;
  u64* v9;
  u64 v10;
  u8** v11;
  u8* v12;
  struct S12_struct_std___Rb_tree_node* v13; struct S12_struct_std___Rb_tree_node* v13_t;
  struct S11_struct_std___Rb_tree_node_base* v14; struct S11_struct_std___Rb_tree_node_base* v14_t;
  u8* v15;
  u64* v16;
  u64 v17;
  u1 v18;
  u64 v19;
  u1 v20;
  struct S64_struct___gnu_cxx____aligned_membuf* v21;
  u8** v22;
  u8* v23;
  u32 v24;
  u32 v25; u32 v25_t;
  u1 v26;
  u64 v27;
  u1 v28;
  u64 v29;
  u1 v30;
  u64 v31;
  u32 v32;
  u32 v33; u32 v33_t;
  u1 v34;
  struct S11_struct_std___Rb_tree_node_base** v35;
  struct S11_struct_std___Rb_tree_node_base* v36;
  struct S11_struct_std___Rb_tree_node_base** v37;
  struct S11_struct_std___Rb_tree_node_base* v38;
  struct S11_struct_std___Rb_tree_node_base** v39;
  struct S12_struct_std___Rb_tree_node** v40;
  struct S12_struct_std___Rb_tree_node* v41;
  u1 v42;
  struct S11_struct_std___Rb_tree_node_base* v43; struct S11_struct_std___Rb_tree_node_base* v43_t;
  u1 v44;
  u64* v45;
  u64 v46;
  struct S11_struct_std___Rb_tree_node_base** v47;
  u64* v48;
  u64 v49;
  u1 v50;
  u64 v51;
  u1 v52;
  struct S11_struct_std___Rb_tree_node_base* v53;
  u8** v54;
  u8* v55;
  u8** v56;
  u8* v57;
  u32 v58;
  u32 v59; u32 v59_t;
  u1 v60;
  u64 v61;
  u1 v62;
  u64 v63;
  u1 v64;
  u64 v65;
  u32 v66;
  u32 v67; u32 v67_t;
  u1 v68;
  struct S10_class_std___Rb_tree* v69;
  u8* v70;
  struct S27_class_std____cxx11__basic_string** v71;
  u8* v72;
  struct S11_struct_std___Rb_tree_node_base* v73;
  struct S11_struct_std___Rb_tree_node_base* v74; struct S11_struct_std___Rb_tree_node_base* v74_t;
  struct S11_struct_std___Rb_tree_node_base* v75;
  struct S28_class_std__shared_ptr_25* v76;
L0: ;
  v0 = &v0_m;
  v1 = &v1_m;
  v2 = (u8*)(&(*a0).f0.f0.f0.f0.f0);
  v3 = (u8*)&(*a0).f0.f0.f1.f0.f1;
  v4 = (struct S12_struct_std___Rb_tree_node**)&(*a0).f0.f0.f1.f0.f1;
  v5 = *v4;
  v6 = (u8*)&(*a0).f0.f0.f1.f0.f0;
  v7 = (struct S11_struct_std___Rb_tree_node_base*)&(*a0).f0.f0.f1.f0;
  v8 = ((u8*)v5 == (u8*)((struct S12_struct_std___Rb_tree_node*)0));
  if (v8) {
    v43 = v7;
    goto L7;
  } else {
    goto L1;
  }
L1: ;
  v9 = (u64*)(&(*a1).f1);
  v10 = *v9;
  v11 = (u8**)(&(*a1).f0.f0);
  v12 = *v11;
  v13_t = v5;
  v14_t = v7;
  v13 = v13_t;
  v14 = v14_t;
  goto L2;
L2: ;
  v15 = (u8*)(&(*v13).f1.f0.e[(s64)((s64)((u64)8ULL))]);
  v16 = (u64*)v15;
  v17 = (((u64)(*v13).f1.f0.e[8] << 0) | ((u64)(*v13).f1.f0.e[9] << 8) | ((u64)(*v13).f1.f0.e[10] << 16) | ((u64)(*v13).f1.f0.e[11] << 24) | ((u64)(*v13).f1.f0.e[12] << 32) | ((u64)(*v13).f1.f0.e[13] << 40) | ((u64)(*v13).f1.f0.e[14] << 48) | ((u64)(*v13).f1.f0.e[15] << 56));
  v18 = (v17 > v10);
  v19 = (v18 ? v10 : v17);
  v20 = (v19 == ((u64)0ULL));
  if (v20) {
    v25 = ((u32)0ULL);
    goto L4;
  } else {
    goto L3;
  }
L3: ;
  v21 = (struct S64_struct___gnu_cxx____aligned_membuf*)(&(*v13).f1);
  v22 = (u8**)v21;
  v23 = *v22;
  v24 = memcmp(v23, v12, v19);
  v25 = v24;
  goto L4;
L4: ;
  v26 = (v25 == ((u32)0ULL));
  if (v26) {
    goto L5;
  } else {
    v33 = v25;
    goto L6;
  }
L5: ;
  v27 = ((u64)(v17 - v10));
  v28 = (((s64)v27) > ((s64)((u64)18446744071562067968ULL)));
  v29 = (v28 ? v27 : ((u64)18446744071562067968ULL));
  v30 = (((s64)v29) < ((s64)((u64)2147483647ULL)));
  v31 = (v30 ? v29 : ((u64)2147483647ULL));
  v32 = ((u32)(v31));
  v33 = v32;
  goto L6;
L6: ;
  v34 = (((s32)v33) < ((s32)((u32)0ULL)));
  v35 = (struct S11_struct_std___Rb_tree_node_base**)(&(*v13).f0.f3);
  v36 = (struct S11_struct_std___Rb_tree_node_base*)(&(*v13).f0);
  v37 = (struct S11_struct_std___Rb_tree_node_base**)(&(*v13).f0.f2);
  v38 = (v34 ? v14 : v36);
  v39 = (v34 ? v35 : v37);
  v40 = (struct S12_struct_std___Rb_tree_node**)v39;
  v41 = *v40;
  v42 = ((u8*)v41 == (u8*)((struct S12_struct_std___Rb_tree_node*)0));
  if (v42) {
    v43 = v38;
    goto L7;
  } else {
    v13_t = v41;
    v14_t = v38;
    v13 = v13_t;
    v14 = v14_t;
    goto L2;
  }
L7: ;
  v44 = ((u8*)v43 == (u8*)v7);
  if (v44) {
    goto L13;
  } else {
    goto L8;
  }
L8: ;
  v45 = (u64*)(&(*a1).f1);
  v46 = *v45;
  v47 = (struct S11_struct_std___Rb_tree_node_base**)(&(v43)[(s64)((s64)((u64)1ULL))].f1);
  v48 = (u64*)v47;
  v49 = *v48;
  v50 = (v46 > v49);
  v51 = (v50 ? v49 : v46);
  v52 = (v51 == ((u64)0ULL));
  if (v52) {
    v59 = ((u32)0ULL);
    goto L10;
  } else {
    goto L9;
  }
L9: ;
  v53 = (struct S11_struct_std___Rb_tree_node_base*)(v43 + (s64)((s64)((u64)1ULL)));
  v54 = (u8**)v53;
  v55 = *v54;
  v56 = (u8**)(&(*a1).f0.f0);
  v57 = *v56;
  v58 = memcmp(v57, v55, v51);
  v59 = v58;
  goto L10;
L10: ;
  v60 = (v59 == ((u32)0ULL));
  if (v60) {
    goto L11;
  } else {
    v67 = v59;
    goto L12;
  }
L11: ;
  v61 = ((u64)(v46 - v49));
  v62 = (((s64)v61) > ((s64)((u64)18446744071562067968ULL)));
  v63 = (v62 ? v61 : ((u64)18446744071562067968ULL));
  v64 = (((s64)v63) < ((s64)((u64)2147483647ULL)));
  v65 = (v64 ? v63 : ((u64)2147483647ULL));
  v66 = ((u32)(v65));
  v67 = v66;
  goto L12;
L12: ;
  v68 = (((s32)v67) < ((s32)((u32)0ULL)));
  if (v68) {
    goto L13;
  } else {
    v74 = v43;
    goto L14;
  }
L13: ;
  v69 = (struct S10_class_std___Rb_tree*)(&(*a0).f0);
  v70 = (u8*)v0;
  v71 = (struct S27_class_std____cxx11__basic_string**)(&(*v0).f0.f0.f0);
  *v71 = a1;
  v72 = (u8*)(&(*v1).f0);
  v73 = _ZNSt8_Rb_treeINSt7__cxx1112basic_stringIcSt11char_traitsIcESaIcEEESt4pairIKS5_St10shared_ptrIN14OpenVolumeMesh2IO19PropertyDecoderBaseEEESt10_Select1stISD_ESt4lessIS5_ESaISD_EE22_M_emplace_hint_uniqueIJRKSt21piecewise_construct_tSt5tupleIJRS7_EESO_IJEEEEESt17_Rb_tree_iteratorISD_ESt23_Rb_tree_const_iteratorISD_EDpOT_(v69, v43, (&_ZSt19piecewise_construct), v0, v1);
  if (v_exc) return (struct S28_class_std__shared_ptr_25*)0;
  v74 = v73;
  goto L14;
L14: ;
  v75 = (struct S11_struct_std___Rb_tree_node_base*)(v74 + (s64)((s64)((u64)2ULL)));
  v76 = (struct S28_class_std__shared_ptr_25*)v75;
  return v76;
}

struct S11_struct_std___Rb_tree_node_base* _ZNSt8_Rb_treeINSt7__cxx1112basic_stringIcSt11char_traitsIcESaIcEEESt4pairIKS5_St10shared_ptrIN14OpenVolumeMesh2IO19PropertyDecoderBaseEEESt10_Select1stISD_ESt4lessIS5_ESaISD_EE22_M_emplace_hint_uniqueIJRKSt21piecewise_construct_tSt5tupleIJRS7_EESO_IJEEEEESt17_Rb_tree_iteratorISD_ESt23_Rb_tree_const_iteratorISD_EDpOT_(struct S10_class_std___Rb_tree* a0, struct S11_struct_std___Rb_tree_node_base* a1, struct S0_class_std__ios_base__Init* a2, struct S29_class_std__tuple_166* a3, struct S0_class_std__ios_base__Init* a4) {
  struct S31_struct_std___Rb_tree_std____cxx11__basic* v0; struct S31_struct_std___Rb_tree_std____cxx11__basic v0_m;
  u8* v1;
  struct S10_class_std___Rb_tree** v2;
  struct S12_struct_std___Rb_tree_node** v3;
  u8* v4;
  struct S12_struct_std___Rb_tree_node* v5;
  u8** v6;
  struct S12_struct_std___Rb_tree_node* v7;
  struct S64_struct___gnu_cxx____aligned_membuf* v8;
  struct S27_class_std____cxx11__basic_string* v9;
  struct S30 v10;
  struct S11_struct_std___Rb_tree_node_base* v11;
  struct S11_struct_std___Rb_tree_node_base* v12;
  u1 v13;
  struct S10_class_std___Rb_tree* v14;
  struct S12_struct_std___Rb_tree_node* v15;
  u1 v16;
  u8* v17;
  u8* v18;
  struct S11_struct_std___Rb_tree_node_base* v19;
  u1 v20;
  u1 v21;
  u8* v22;
  u64* v23;
  u64 v24;
  struct S11_struct_std___Rb_tree_node_base** v25;
  u64* v26;
  u64 v27;
  u1 v28;
  u64 v29;
  u1 v30;
  struct S11_struct_std___Rb_tree_node_base* v31;
  struct S64_struct___gnu_cxx____aligned_membuf* v32;
  u8** v33;
  u8* v34;
  u8** v35;
  u8* v36;
  u32 v37;
  u32 v38; u32 v38_t;
  u1 v39;
  u64 v40;
  u1 v41;
  u64 v42;
  u1 v43;
  u64 v44;
  u32 v45;
  u32 v46; u32 v46_t;
  u1 v47;
  u1 v48; u1 v48_t;
  struct S11_struct_std___Rb_tree_node_base* v49;
  u8* v50;
  u64* v51;
  u64 v52;
  u64 v53;
  struct S63 v54;
  struct S11_struct_std___Rb_tree_node_base* v55; struct S11_struct_std___Rb_tree_node_base* v55_t;
  struct S12_struct_std___Rb_tree_node* v56;
  u1 v57;
  struct S64_struct___gnu_cxx____aligned_membuf* v58;
  u8* v59;
  struct S13_class_std___Sp_counted_base** v60;
  struct S13_class_std___Sp_counted_base* v61;
  u1 v62;
  u32* v63;
  u64* v64;
  u64 v65;
  u1 v66;
  u32* v67;
  fnptr_t** v68;
  fnptr_t* v69;
  fnptr_t* v70;
  fnptr_t v71;
  fnptr_t* v72;
  fnptr_t* v73;
  fnptr_t v74;
  u8 v75;
  u1 v76;
  u32 v77;
  u32 v78;
  u32 v79;
  u32 v80;
  u32 v81; u32 v81_t;
  u1 v82;
  u8** v83;
  u8* v84;
  u8* v85;
  u1 v86;
  u8* v87;
L0: ;
  v0 = &v0_m;
  v1 = (u8*)v0;
  v2 = (struct S10_class_std___Rb_tree**)(&(*v0).f0);
  *v2 = a0;
  v3 = (struct S12_struct_std___Rb_tree_node**)(&(*v0).f1);
  v4 = (u8*)((((u64)80ULL) % sizeof(struct S12_struct_std___Rb_tree_node) == 0) ? __CPROVER_allocate(sizeof(struct S12_struct_std___Rb_tree_node) * (((u64)80ULL) / sizeof(struct S12_struct_std___Rb_tree_node)), 0) : __CPROVER_allocate(((u64)80ULL), 0));
  v_alloc_note((u8*)v4);
  v5 = (struct S12_struct_std___Rb_tree_node*)v4;
  _ZNSt8_Rb_treeINSt7__cxx1112basic_stringIcSt11char_traitsIcESaIcEEESt4pairIKS5_St10shared_ptrIN14OpenVolumeMesh2IO19PropertyDecoderBaseEEESt10_Select1stISD_ESt4lessIS5_ESaISD_EE17_M_construct_nodeIJRKSt21piecewise_construct_tSt5tupleIJRS7_EESO_IJEEEEEvPSt13_Rb_tree_nodeISD_EDpOT_(a0, v5, a2, a3, a4);
  if (v_exc) return (struct S11_struct_std___Rb_tree_node_base*)0;
  v6 = (u8**)&(*v0).f1;
  *v6 = v4;
  v7 = (struct S12_struct_std___Rb_tree_node*)v4;
  v8 = (struct S64_struct___gnu_cxx____aligned_membuf*)(&(*v7).f1);
  v9 = (struct S27_class_std____cxx11__basic_string*)v8;
  v10 = _ZNSt8_Rb_treeINSt7__cxx1112basic_stringIcSt11char_traitsIcESaIcEEESt4pairIKS5_St10shared_ptrIN14OpenVolumeMesh2IO19PropertyDecoderBaseEEESt10_Select1stISD_ESt4lessIS5_ESaISD_EE29_M_get_insert_hint_unique_posESt23_Rb_tree_const_iteratorISD_ERS7_(a0, a1, v9);
  if (v_exc) {
    goto L9;
  }
  goto L1;
L1: ;
  v11 = v10.f0;
  v12 = v10.f1;
  v13 = ((u8*)v12 == (u8*)((struct S11_struct_std___Rb_tree_node_base*)0));
  if (v13) {
    v55 = v11;
    goto L10;
  } else {
    goto L2;
  }
L2: ;
  v14 = *v2;
  v15 = *v3;
  v16 = ((u8*)v11 != (u8*)((struct S11_struct_std___Rb_tree_node_base*)0));
  v17 = (u8*)(&(*v14).f0.f0.f0.f0);
  v18 = (u8*)&(*v14).f0.f1.f0.f0;
  v19 = (struct S11_struct_std___Rb_tree_node_base*)&(*v14).f0.f1.f0;
  v20 = ((u8*)v12 == (u8*)v19);
  v21 = (v16 ? ((u1)1ULL) : v20);
  if (v21) {
    v48 = ((u1)1ULL);
    goto L8;
  } else {
    goto L3;
  }
L3: ;
  v22 = (u8*)(&(*v15).f1.f0.e[(s64)((s64)((u64)8ULL))]);
  v23 = (u64*)v22;
  v24 = (((u64)(*v15).f1.f0.e[8] << 0) | ((u64)(*v15).f1.f0.e[9] << 8) | ((u64)(*v15).f1.f0.e[10] << 16) | ((u64)(*v15).f1.f0.e[11] << 24) | ((u64)(*v15).f1.f0.e[12] << 32) | ((u64)(*v15).f1.f0.e[13] << 40) | ((u64)(*v15).f1.f0.e[14] << 48) | ((u64)(*v15).f1.f0.e[15] << 56));
  v25 = (struct S11_struct_std___Rb_tree_node_base**)(&(v12)[(s64)((s64)((u64)1ULL))].f1);
  v26 = (u64*)v25;
  v27 = *v26;
  v28 = (v24 > v27);
  v29 = (v28 ? v27 : v24);
  v30 = (v29 == ((u64)0ULL));
  if (v30) {
    v38 = ((u32)0ULL);
    goto L5;
  } else {
    goto L4;
  }
L4: ;
  v31 = (struct S11_struct_std___Rb_tree_node_base*)(v12 + (s64)((s64)((u64)1ULL)));
  v32 = (struct S64_struct___gnu_cxx____aligned_membuf*)(&(*v15).f1);
  v33 = (u8**)v31;
  v34 = *v33;
  v35 = (u8**)v32;
  v36 = *v35;
  v37 = memcmp(v36, v34, v29);
  v38 = v37;
  goto L5;
L5: ;
  v39 = (v38 == ((u32)0ULL));
  if (v39) {
    goto L6;
  } else {
    v46 = v38;
    goto L7;
  }
L6: ;
  v40 = ((u64)(v24 - v27));
  v41 = (((s64)v40) > ((s64)((u64)18446744071562067968ULL)));
  v42 = (v41 ? v40 : ((u64)18446744071562067968ULL));
  v43 = (((s64)v42) < ((s64)((u64)2147483647ULL)));
  v44 = (v43 ? v42 : ((u64)2147483647ULL));
  v45 = ((u32)(v44));
  v46 = v45;
  goto L7;
L7: ;
  v47 = (((s32)v46) < ((s32)((u32)0ULL)));
  v48 = v47;
  goto L8;
L8: ;
  v49 = (struct S11_struct_std___Rb_tree_node_base*)(&(*v15).f0);
  _ZSt29_Rb_tree_insert_and_rebalancebPSt18_Rb_tree_node_baseS0_RS_(v48, v49, v12, v19);
  v50 = (u8*)&(*v14).f0.f1.f1;
  v51 = (u64*)&(*v14).f0.f1.f1;
  v52 = *v51;
  v53 = ((u64)(v52 + ((u64)1ULL)));
  *v51 = v53;
  *v3 = ((struct S12_struct_std___Rb_tree_node*)0);
  v55 = v49;
  goto L10;
L9: ;
  v54.f0 = v_exc_obj;
  v54.f1 = 0;
  v_exc = 0;
  _ZNSt8_Rb_treeINSt7__cxx1112basic_stringIcSt11char_traitsIcESaIcEEESt4pairIKS5_St10shared_ptrIN14OpenVolumeMesh2IO19PropertyDecoderBaseEEESt10_Select1stISD_ESt4lessIS5_ESaISD_EE10_Auto_nodeD2Ev(v0);
  v_exc = 1; return (struct S11_struct_std___Rb_tree_node_base*)0;
L10: ;
  v56 = *v3;
  v57 = ((u8*)v56 == (u8*)((struct S12_struct_std___Rb_tree_node*)0));
  if (v57) {
    goto L22;
  } else {
    goto L11;
  }
L11: ;
  v58 = (struct S64_struct___gnu_cxx____aligned_membuf*)(&(*v56).f1);
  v59 = (u8*)(&(*v56).f1.f0.e[(s64)((s64)((u64)40ULL))]);
  v60 = (struct S13_class_std___Sp_counted_base**)v59;
  v61 = *v60;
  v62 = ((u8*)v61 == (u8*)((struct S13_class_std___Sp_counted_base*)0));
  if (v62) {
    goto L19;
  } else {
    goto L12;
  }
L12: ;
  v63 = (u32*)(&(*v61).f1);
  v64 = (u64*)v63;
  v65 = (((u64)(*v61).f1 << 0) | ((u64)(*v61).f2 << 32));
  v66 = (v65 == ((u64)4294967297ULL));
  if (v66) {
    goto L13;
  } else {
    goto L14;
  }
L13: ;
  *v63 = ((u32)0ULL);
  v67 = (u32*)(&(*v61).f2);
  *v67 = ((u32)0ULL);
  v68 = (fnptr_t**)&(*v61).f0;
  v69 = *v68;
  v70 = (fnptr_t*)(v69 + (s64)((s64)((u64)2ULL)));
  v71 = *v70;
  ((FT0)v71)(v61);
  v72 = *v68;
  v73 = (fnptr_t*)(v72 + (s64)((s64)((u64)3ULL)));
  v74 = *v73;
  ((FT0)v74)(v61);
  goto L19;
L14: ;
  v75 = *(&__libc_single_threaded);
  v76 = (v75 == ((u8)0ULL));
  if (v76) {
    goto L16;
  } else {
    goto L15;
  }
L15: ;
  v77 = *v63;
  v78 = ((u32)(v77 + ((u32)4294967295ULL)));
  *v63 = v78;
  v81 = v77;
  goto L17;
L16: ;
  v79 = *v63;
  v80 = ((u32)(v79 + ((u32)4294967295ULL)));
  *v63 = v80;
  v81 = v79;
  goto L17;
L17: ;
  v82 = (v81 == ((u32)1ULL));
  if (v82) {
    goto L18;
  } else {
    goto L19;
  }
L18: ;
  _ZNSt16_Sp_counted_baseILN9__gnu_cxx12_Lock_policyE2EE24_M_release_last_use_coldEv(v61);
  goto L19;
L19: ;
  v83 = (u8**)v58;
  v84 = *v83;
  v85 = (u8*)(&(*v56).f1.f0.e[(s64)((s64)((u64)16ULL))]);
  v86 = ((u8*)v84 == (u8*)v85);
  if (v86) {
    goto L21;
  } else {
    goto L20;
  }
L20: ;
  _ZdlPv(v84);
  goto L21;
L21: ;
  v87 = (u8*)v56;
  _ZdlPv(v87);
  goto L22;
L22: ;
  return v55;
}

void _ZNSt8_Rb_treeINSt7__cxx1112basic_stringIcSt11char_traitsIcESaIcEEESt4pairIKS5_St10shared_ptrIN14OpenVolumeMesh2IO19PropertyDecoderBaseEEESt10_Select1stISD_ESt4lessIS5_ESaISD_EE17_M_construct_nodeIJRKSt21piecewise_construct_tSt5tupleIJRS7_EESO_IJEEEEEvPSt13_Rb_tree_nodeISD_EDpOT_(struct S10_class_std___Rb_tree* a0, struct S12_struct_std___Rb_tree_node* a1, struct S0_class_std__ios_base__Init* a2, struct S29_class_std__tuple_166* a3, struct S0_class_std__ios_base__Init* a4) {
  u64* v0; u64 v0_m;
  struct S64_struct___gnu_cxx____aligned_membuf* v1;
  u64* v2;
  u64 v3;
  struct S27_class_std____cxx11__basic_string* v4;
  u8* v5;
  u8** v6;
  u8** v7;
  u8* v8;
  u64* v9;
  u64 v10;
  u8* v11;
  u1 v12;
  struct S27_class_std____cxx11__basic_string* v13;
  u8* v14;
  u8** v15;
  u64 v16;
  u8* v17;
  u64* v18;
  u8** v19;
  u8* v20;
  u8 v21;
  u64 v22;
  u8* v23;
  u64* v24;
  u8* v25;
  u8* v26;
  u8* v27;
  struct S63 v28;
  u8* v29;
  u8* v30;
  u8* v31;
  struct S63 v32;
  struct S63 v33;
  u8* v34;
L0: ;
  v0 = &v0_m;
  v1 = (struct S64_struct___gnu_cxx____aligned_membuf*)(&(*a1).f1);
  v2 = (u64*)a3;
  v3 = *v2;
  v4 = (struct S27_class_std____cxx11__basic_string*)(u64)v3;
  v5 = (u8*)(&(*a1).f1.f0.e[(s64)((s64)((u64)16ULL))]);
  v6 = (u8**)v1;
  *v6 = v5;
  v7 = (u8**)(&(*v4).f0.f0);
  v8 = *v7;
  v9 = (u64*)(&(*v4).f1);
  v10 = *v9;
  v11 = (u8*)v0;
  *v0 = v10;
  v12 = (v10 > ((u64)15ULL));
  if (v12) {
    goto L1;
  } else {
    goto L3;
  }
L1: ;
  v13 = (struct S27_class_std____cxx11__basic_string*)v1;
  v14 = _ZNSt7__cxx1112basic_stringIcSt11char_traitsIcESaIcEE9_M_createERmm(v13, v0, ((u64)0ULL));
  if (v_exc) {
    goto L7;
  }
  goto L2;
L2: ;
  v15 = (u8**)v1;
  *v15 = v14;
  v16 = *v0;
  v17 = (u8*)(&(*a1).f1.f0.e[(s64)((s64)((u64)16ULL))]);
  v18 = (u64*)v17;
  (*a1).f1.f0.e[16] = (u8)(v16 >> 0);
  (*a1).f1.f0.e[17] = (u8)(v16 >> 8);
  (*a1).f1.f0.e[18] = (u8)(v16 >> 16);
  (*a1).f1.f0.e[19] = (u8)(v16 >> 24);
  (*a1).f1.f0.e[20] = (u8)(v16 >> 32);
  (*a1).f1.f0.e[21] = (u8)(v16 >> 40);
  (*a1).f1.f0.e[22] = (u8)(v16 >> 48);
  (*a1).f1.f0.e[23] = (u8)(v16 >> 56);
  goto L3;
L3: ;
  v19 = (u8**)v1;
  v20 = *v19;
  switch (v10) {
  case ((u64)1ULL): {
    goto L4;
  }
  case ((u64)0ULL): {
    goto L6;
  }
  default: {
    goto L5;
  }
  }
L4: ;
  v21 = *v8;
  *v20 = v21;
  goto L6;
L5: ;
  v_memcpy((u8*)v20, (u8*)v8, (u64)v10);
  goto L6;
L6: ;
  v22 = *v0;
  v23 = (u8*)(&(*a1).f1.f0.e[(s64)((s64)((u64)8ULL))]);
  v24 = (u64*)v23;
  (*a1).f1.f0.e[8] = (u8)(v22 >> 0);
  (*a1).f1.f0.e[9] = (u8)(v22 >> 8);
  (*a1).f1.f0.e[10] = (u8)(v22 >> 16);
  (*a1).f1.f0.e[11] = (u8)(v22 >> 24);
  (*a1).f1.f0.e[12] = (u8)(v22 >> 32);
  (*a1).f1.f0.e[13] = (u8)(v22 >> 40);
  (*a1).f1.f0.e[14] = (u8)(v22 >> 48);
  (*a1).f1.f0.e[15] = (u8)(v22 >> 56);
  v25 = *v19;
  v26 = (u8*)(v25 + (s64)((s64)v22));
  *v26 = ((u8)0ULL);
  v27 = (u8*)(&(*a1).f1.f0.e[(s64)((s64)((u64)32ULL))]);
  (*a1).f1.f0.e[32] = ((u8)0ULL);
  (*a1).f1.f0.e[33] = ((u8)0ULL);
  (*a1).f1.f0.e[34] = ((u8)0ULL);
  (*a1).f1.f0.e[35] = ((u8)0ULL);
  (*a1).f1.f0.e[36] = ((u8)0ULL);
  (*a1).f1.f0.e[37] = ((u8)0ULL);
  (*a1).f1.f0.e[38] = ((u8)0ULL);
  (*a1).f1.f0.e[39] = ((u8)0ULL);
  (*a1).f1.f0.e[40] = ((u8)0ULL);
  (*a1).f1.f0.e[41] = ((u8)0ULL);
  (*a1).f1.f0.e[42] = ((u8)0ULL);
  (*a1).f1.f0.e[43] = ((u8)0ULL);
  (*a1).f1.f0.e[44] = ((u8)0ULL);
  (*a1).f1.f0.e[45] = ((u8)0ULL);
  (*a1).f1.f0.e[46] = ((u8)0ULL);
  (*a1).f1.f0.e[47] = ((u8)0ULL);
  return;
L7: ;
  v28.f0 = v_exc_obj;
  v28.f1 = 0;
  if (v28.f1 == 0) v28.f1 = 9999;
  if (v28.f1 == 0) return;
  v_exc = 0;
  v29 = v28.f0;
  v30 = __cxa_begin_catch(v29);
  v31 = (u8*)a1;
  _ZdlPv(v31);
  __cxa_rethrow();
  if (v_exc) {
    goto L8;
  }
  goto L11;
L8: ;
  v32.f0 = v_exc_obj;
  v32.f1 = 0;
  v_exc = 0;
  __cxa_end_catch();
  if (v_exc) {
    goto L10;
  }
  goto L9;
L9: ;
  v_exc = 1; return;
L10: ;
  v33.f0 = v_exc_obj;
  v33.f1 = 0;
  if (v33.f1 == 0) v33.f1 = 9999;
  if (v33.f1 == 0) return;
  v_exc = 0;
  v34 = v33.f0;
  __clang_call_terminate(v34);
  __CPROVER_assume(0);
L11: ;
  __CPROVER_assume(0);
}

struct S30 _ZNSt8_Rb_treeINSt7__cxx1112basic_stringIcSt11char_traitsIcESaIcEEESt4pairIKS5_St10shared_ptrIN14OpenVolumeMesh2IO19PropertyDecoderBaseEEESt10_Select1stISD_ESt4lessIS5_ESaISD_EE29_M_get_insert_hint_unique_posESt23_Rb_tree_const_iteratorISD_ERS7_(struct S10_class_std___Rb_tree* a0, struct S11_struct_std___Rb_tree_node_base* a1, struct S27_class_std____cxx11__basic_string* a2) {
  u8* v0;
  u8* v1;
  struct S11_struct_std___Rb_tree_node_base* v2;
  u1 v3;
  u8* v4;
  u64* v5;
  u64 v6;
  u1 v7;
  u8* v8;
  struct S11_struct_std___Rb_tree_node_base** v9;
  struct S11_struct_std___Rb_tree_node_base* v10;
  struct S11_struct_std___Rb_tree_node_base** v11;
  u64* v12;
  u64 v13;
  u64* v14;
  u64 v15;
  u1 v16;
  u64 v17;
  u1 v18;
  struct S11_struct_std___Rb_tree_node_base* v19;
  u8** v20;
  u8* v21;
  u8** v22;
  u8* v23;
  u32 v24;
  u32 v25; u32 v25_t;
  u1 v26;
  u64 v27;
  u1 v28;
  u64 v29;
  u1 v30;
  u64 v31;
  u32 v32;
  u32 v33; u32 v33_t;
  u1 v34;
  struct S30 v35;
  struct S11_struct_std___Rb_tree_node_base* v36;
  struct S11_struct_std___Rb_tree_node_base* v37;
  struct S11_struct_std___Rb_tree_node_base* v38;
  u64* v39;
  u64 v40;
  struct S11_struct_std___Rb_tree_node_base** v41;
  u64* v42;
  u64 v43;
  u1 v44;
  u64 v45;
  u1 v46;
  u8** v47;
  u8* v48;
  u8** v49;
  u8* v50;
  u32 v51;
  u32 v52; u32 v52_t;
  u1 v53;
  u64 v54;
  u1 v55;
  u64 v56;
  u1 v57;
  u64 v58;
  u32 v59;
  u32 v60; u32 v60_t;
  u1 v61;
  u8* v62;
  struct S11_struct_std___Rb_tree_node_base** v63;
  struct S11_struct_std___Rb_tree_node_base* v64;
  u1 v65;
  struct S11_struct_std___Rb_tree_node_base* v66;
  struct S11_struct_std___Rb_tree_node_base** v67;
  u64* v68;
  u64 v69;
  u1 v70;
  u64 v71;
  u1 v72;
  struct S11_struct_std___Rb_tree_node_base* v73;
  u8** v74;
  u8* v75;
  u8** v76;
  u8* v77;
  u32 v78;
  u32 v79; u32 v79_t;
  u1 v80;
  u64 v81;
  u1 v82;
  u64 v83;
  u1 v84;
  u64 v85;
  u32 v86;
  u32 v87; u32 v87_t;
  u1 v88;
  struct S11_struct_std___Rb_tree_node_base** v89;
  struct S12_struct_std___Rb_tree_node** v90;
  struct S12_struct_std___Rb_tree_node* v91;
  u1 v92;
  struct S11_struct_std___Rb_tree_node_base* v93;
  struct S11_struct_std___Rb_tree_node_base* v94;
  struct S30 v95;
  struct S11_struct_std___Rb_tree_node_base* v96;
  struct S11_struct_std___Rb_tree_node_base* v97;
  u8** v98;
  u8* v99;
  u8** v100;
  u8* v101;
  u32 v102;
  u32 v103; u32 v103_t;
  u1 v104;
  u64 v105;
  u1 v106;
  u64 v107;
  u1 v108;
  u64 v109;
  u32 v110;
  u32 v111; u32 v111_t;
  u1 v112;
  u8* v113;
  struct S11_struct_std___Rb_tree_node_base** v114;
  struct S11_struct_std___Rb_tree_node_base* v115;
  u1 v116;
  struct S11_struct_std___Rb_tree_node_base* v117;
  struct S11_struct_std___Rb_tree_node_base** v118;
  u64* v119;
  u64 v120;
  u1 v121;
  u64 v122;
  u1 v123;
  struct S11_struct_std___Rb_tree_node_base* v124;
  u8** v125;
  u8* v126;
  u8** v127;
  u8* v128;
  u32 v129;
  u32 v130; u32 v130_t;
  u1 v131;
  u64 v132;
  u1 v133;
  u64 v134;
  u1 v135;
  u64 v136;
  u32 v137;
  u32 v138; u32 v138_t;
  u1 v139;
  struct S11_struct_std___Rb_tree_node_base** v140;
  struct S12_struct_std___Rb_tree_node** v141;
  struct S12_struct_std___Rb_tree_node* v142;
  u1 v143;
  struct S11_struct_std___Rb_tree_node_base* v144;
  struct S11_struct_std___Rb_tree_node_base* v145;
  struct S30 v146;
  struct S11_struct_std___Rb_tree_node_base* v147;
  struct S11_struct_std___Rb_tree_node_base* v148;
  struct S11_struct_std___Rb_tree_node_base* v149; struct S11_struct_std___Rb_tree_node_base* v149_t;
  struct S11_struct_std___Rb_tree_node_base* v150; struct S11_struct_std___Rb_tree_node_base* v150_t;
  struct S30 v151;
  struct S30 v152;
L0: ;
  v0 = (u8*)(&(*a0).f0.f0.f0.f0);
  v1 = (u8*)&(*a0).f0.f1.f0.f0;
  v2 = (struct S11_struct_std___Rb_tree_node_base*)&(*a0).f0.f1.f0;
  v3 = ((u8*)v2 == (u8*)a1);
  if (v3) {
    goto L1;
  } else {
    goto L8;
  }
L1: ;
  v4 = (u8*)&(*a0).f0.f1.f1;
  v5 = (u64*)&(*a0).f0.f1.f1;
  v6 = *v5;
  v7 = (v6 == ((u64)0ULL));
  if (v7) {
    goto L7;
  } else {
    goto L2;
  }
L2: ;
  v8 = (u8*)&(*a0).f0.f1.f0.f3;
  v9 = (struct S11_struct_std___Rb_tree_node_base**)&(*a0).f0.f1.f0.f3;
  v10 = *v9;
  v11 = (struct S11_struct_std___Rb_tree_node_base**)(&(v10)[(s64)((s64)((u64)1ULL))].f1);
  v12 = (u64*)v11;
  v13 = *v12;
  v14 = (u64*)(&(*a2).f1);
  v15 = *v14;
  v16 = (v13 > v15);
  v17 = (v16 ? v15 : v13);
  v18 = (v17 == ((u64)0ULL));
  if (v18) {
    v25 = ((u32)0ULL);
    goto L4;
  } else {
    goto L3;
  }
L3: ;
  v19 = (struct S11_struct_std___Rb_tree_node_base*)(v10 + (s64)((s64)((u64)1ULL)));
  v20 = (u8**)(&(*a2).f0.f0);
  v21 = *v20;
  v22 = (u8**)v19;
  v23 = *v22;
  v24 = memcmp(v23, v21, v17);
  v25 = v24;
  goto L4;
L4: ;
  v26 = (v25 == ((u32)0ULL));
  if (v26) {
    goto L5;
  } else {
    v33 = v25;
    goto L6;
  }
L5: ;
  v27 = ((u64)(v13 - v15));
  v28 = (((s64)v27) > ((s64)((u64)18446744071562067968ULL)));
  v29 = (v28 ? v27 : ((u64)18446744071562067968ULL));
  v30 = (((s64)v29) < ((s64)((u64)2147483647ULL)));
  v31 = (v30 ? v29 : ((u64)2147483647ULL));
  v32 = ((u32)(v31));
  v33 = v32;
  goto L6;
L6: ;
  v34 = (((s32)v33) < ((s32)((u32)0ULL)));
  if (v34) {
    v149_t = ((struct S11_struct_std___Rb_tree_node_base*)0);
    v150_t = v10;
    v149 = v149_t;
    v150 = v150_t;
    goto L34;
  } else {
    goto L7;
  }
L7: ;
  v35 = _ZNSt8_Rb_treeINSt7__cxx1112basic_stringIcSt11char_traitsIcESaIcEEESt4pairIKS5_St10shared_ptrIN14OpenVolumeMesh2IO19PropertyDecoderBaseEEESt10_Select1stISD_ESt4lessIS5_ESaISD_EE24_M_get_insert_unique_posERS7_(a0, a2);
  if (v_exc) { struct S30 _d = {0}; return _d; }
  v36 = v35.f0;
  v37 = v35.f1;
  v149_t = v36;
  v150_t = v37;
  v149 = v149_t;
  v150 = v150_t;
  goto L34;
L8: ;
  v38 = (struct S11_struct_std___Rb_tree_node_base*)(a1 + (s64)((s64)((u64)1ULL)));
  v39 = (u64*)(&(*a2).f1);
  v40 = *v39;
  v41 = (struct S11_struct_std___Rb_tree_node_base**)(&(a1)[(s64)((s64)((u64)1ULL))].f1);
  v42 = (u64*)v41;
  v43 = *v42;
  v44 = (v40 > v43);
  v45 = (v44 ? v43 : v40);
  v46 = (v45 == ((u64)0ULL));
  if (v46) {
    v52 = ((u32)0ULL);
    goto L10;
  } else {
    goto L9;
  }
L9: ;
  v47 = (u8**)v38;
  v48 = *v47;
  v49 = (u8**)(&(*a2).f0.f0);
  v50 = *v49;
  v51 = memcmp(v50, v48, v45);
  v52 = v51;
  goto L10;
L10: ;
  v53 = (v52 == ((u32)0ULL));
  if (v53) {
    goto L11;
  } else {
    v60 = v52;
    goto L12;
  }
L11: ;
  v54 = ((u64)(v40 - v43));
  v55 = (((s64)v54) > ((s64)((u64)18446744071562067968ULL)));
  v56 = (v55 ? v54 : ((u64)18446744071562067968ULL));
  v57 = (((s64)v56) < ((s64)((u64)2147483647ULL)));
  v58 = (v57 ? v56 : ((u64)2147483647ULL));
  v59 = ((u32)(v58));
  v60 = v59;
  goto L12;
L12: ;
  v61 = (((s32)v60) < ((s32)((u32)0ULL)));
  if (v61) {
    goto L13;
  } else {
    goto L21;
  }
L13: ;
  v62 = (u8*)&(*a0).f0.f1.f0.f2;
  v63 = (struct S11_struct_std___Rb_tree_node_base**)&(*a0).f0.f1.f0.f2;
  v64 = *v63;
  v65 = ((u8*)v64 == (u8*)a1);
  if (v65) {
    v149_t = v64;
    v150_t = v64;
    v149 = v149_t;
    v150 = v150_t;
    goto L34;
  } else {
    goto L14;
  }
L14: ;
  v66 = _ZSt18_Rb_tree_decrementPSt18_Rb_tree_node_base(a1);
  v67 = (struct S11_struct_std___Rb_tree_node_base**)(&(v66)[(s64)((s64)((u64)1ULL))].f1);
  v68 = (u64*)v67;
  v69 = *v68;
  v70 = (v69 > v40);
  v71 = (v70 ? v40 : v69);
  v72 = (v71 == ((u64)0ULL));
  if (v72) {
    v79 = ((u32)0ULL);
    goto L16;
  } else {
    goto L15;
  }
L15: ;
  v73 = (struct S11_struct_std___Rb_tree_node_base*)(v66 + (s64)((s64)((u64)1ULL)));
  v74 = (u8**)(&(*a2).f0.f0);
  v75 = *v74;
  v76 = (u8**)v73;
  v77 = *v76;
  v78 = memcmp(v77, v75, v71);
  v79 = v78;
  goto L16;
L16: ;
  v80 = (v79 == ((u32)0ULL));
  if (v80) {
    goto L17;
  } else {
    v87 = v79;
    goto L18;
  }
L17: ;
  v81 = ((u64)(v69 - v40));
  v82 = (((s64)v81) > ((s64)((u64)18446744071562067968ULL)));
  v83 = (v82 ? v81 : ((u64)18446744071562067968ULL));
  v84 = (((s64)v83) < ((s64)((u64)2147483647ULL)));
  v85 = (v84 ? v83 : ((u64)2147483647ULL));
  v86 = ((u32)(v85));
  v87 = v86;
  goto L18;
L18: ;
  v88 = (((s32)v87) < ((s32)((u32)0ULL)));
  if (v88) {
    goto L19;
  } else {
    goto L20;
  }
L19: ;
  v89 = (struct S11_struct_std___Rb_tree_node_base**)(&(*v66).f3);
  v90 = (struct S12_struct_std___Rb_tree_node**)&(*v66).f3;
  v91 = *v90;
  v92 = ((u8*)v91 == (u8*)((struct S12_struct_std___Rb_tree_node*)0));
  v93 = (v92 ? ((struct S11_struct_std___Rb_tree_node_base*)0) : a1);
  v94 = (v92 ? v66 : a1);
  v149_t = v93;
  v150_t = v94;
  v149 = v149_t;
  v150 = v150_t;
  goto L34;
L20: ;
  v95 = _ZNSt8_Rb_treeINSt7__cxx1112basic_stringIcSt11char_traitsIcESaIcEEESt4pairIKS5_St10shared_ptrIN14OpenVolumeMesh2IO19PropertyDecoderBaseEEESt10_Select1stISD_ESt4lessIS5_ESaISD_EE24_M_get_insert_unique_posERS7_(a0, a2);
  if (v_exc) { struct S30 _d = {0}; return _d; }
  v96 = v95.f0;
  v97 = v95.f1;
  v149_t = v96;
  v150_t = v97;
  v149 = v149_t;
  v150 = v150_t;
  goto L34;
L21: ;
  if (v46) {
    v103 = ((u32)0ULL);
    goto L23;
  } else {
    goto L22;
  }
L22: ;
  v98 = (u8**)(&(*a2).f0.f0);
  v99 = *v98;
  v100 = (u8**)v38;
  v101 = *v100;
  v102 = memcmp(v101, v99, v45);
  v103 = v102;
  goto L23;
L23: ;
  v104 = (v103 == ((u32)0ULL));
  if (v104) {
    goto L24;
  } else {
    v111 = v103;
    goto L25;
  }
L24: ;
  v105 = ((u64)(v43 - v40));
  v106 = (((s64)v105) > ((s64)((u64)18446744071562067968ULL)));
  v107 = (v106 ? v105 : ((u64)18446744071562067968ULL));
  v108 = (((s64)v107) < ((s64)((u64)2147483647ULL)));
  v109 = (v108 ? v107 : ((u64)2147483647ULL));
  v110 = ((u32)(v109));
  v111 = v110;
  goto L25;
L25: ;
  v112 = (((s32)v111) < ((s32)((u32)0ULL)));
  if (v112) {
    goto L26;
  } else {
    v149_t = a1;
    v150_t = ((struct S11_struct_std___Rb_tree_node_base*)0);
    v149 = v149_t;
    v150 = v150_t;
    goto L34;
  }
L26: ;
  v113 = (u8*)&(*a0).f0.f1.f0.f3;
  v114 = (struct S11_struct_std___Rb_tree_node_base**)&(*a0).f0.f1.f0.f3;
  v115 = *v114;
  v116 = ((u8*)v115 == (u8*)a1);
  if (v116) {
    v149_t = ((struct S11_struct_std___Rb_tree_node_base*)0);
    v150_t = v115;
    v149 = v149_t;
    v150 = v150_t;
    goto L34;
  } else {
    goto L27;
  }
L27: ;
  v117 = _ZSt18_Rb_tree_incrementPSt18_Rb_tree_node_base(a1);
  v118 = (struct S11_struct_std___Rb_tree_node_base**)(&(v117)[(s64)((s64)((u64)1ULL))].f1);
  v119 = (u64*)v118;
  v120 = *v119;
  v121 = (v40 > v120);
  v122 = (v121 ? v120 : v40);
  v123 = (v122 == ((u64)0ULL));
  if (v123) {
    v130 = ((u32)0ULL);
    goto L29;
  } else {
    goto L28;
  }
L28: ;
  v124 = (struct S11_struct_std___Rb_tree_node_base*)(v117 + (s64)((s64)((u64)1ULL)));
  v125 = (u8**)v124;
  v126 = *v125;
  v127 = (u8**)(&(*a2).f0.f0);
  v128 = *v127;
  v129 = memcmp(v128, v126, v122);
  v130 = v129;
  goto L29;
L29: ;
  v131 = (v130 == ((u32)0ULL));
  if (v131) {
    goto L30;
  } else {
    v138 = v130;
    goto L31;
  }
L30: ;
  v132 = ((u64)(v40 - v120));
  v133 = (((s64)v132) > ((s64)((u64)18446744071562067968ULL)));
  v134 = (v133 ? v132 : ((u64)18446744071562067968ULL));
  v135 = (((s64)v134) < ((s64)((u64)2147483647ULL)));
  v136 = (v135 ? v134 : ((u64)2147483647ULL));
  v137 = ((u32)(v136));
  v138 = v137;
  goto L31;
L31: ;
  v139 = (((s32)v138) < ((s32)((u32)0ULL)));
  if (v139) {
    goto L32;
  } else {
    goto L33;
  }
L32: ;
  v140 = (struct S11_struct_std___Rb_tree_node_base**)(&(*a1).f3);
  v141 = (struct S12_struct_std___Rb_tree_node**)&(*a1).f3;
  v142 = *v141;
  v143 = ((u8*)v142 == (u8*)((struct S12_struct_std___Rb_tree_node*)0));
  v144 = (v143 ? ((struct S11_struct_std___Rb_tree_node_base*)0) : v117);
  v145 = (v143 ? a1 : v117);
  v149_t = v144;
  v150_t = v145;
  v149 = v149_t;
  v150 = v150_t;
  goto L34;
L33: ;
  v146 = _ZNSt8_Rb_treeINSt7__cxx1112basic_stringIcSt11char_traitsIcESaIcEEESt4pairIKS5_St10shared_ptrIN14OpenVolumeMesh2IO19PropertyDecoderBaseEEESt10_Select1stISD_ESt4lessIS5_ESaISD_EE24_M_get_insert_unique_posERS7_(a0, a2);
  if (v_exc) { struct S30 _d = {0}; return _d; }
  v147 = v146.f0;
  v148 = v146.f1;
  v149_t = v147;
  v150_t = v148;
  v149 = v149_t;
  v150 = v150_t;
  goto L34;
L34: ;
  v151.f0 = v149;
  v152 = v151;
  v152.f1 = v150;
  return v152;
}

void _ZNSt8_Rb_treeINSt7__cxx1112basic_stringIcSt11char_traitsIcESaIcEEESt4pairIKS5_St10shared_ptrIN14OpenVolumeMesh2IO19PropertyDecoderBaseEEESt10_Select1stISD_ESt4lessIS5_ESaISD_EE10_Auto_nodeD2Ev(struct S31_struct_std___Rb_tree_std____cxx11__basic* a0) {
  struct S12_struct_std___Rb_tree_node** v0;
  struct S12_struct_std___Rb_tree_node* v1;
  u1 v2;
  struct S64_struct___gnu_cxx____aligned_membuf* v3;
  u8* v4;
  struct S13_class_std___Sp_counted_base** v5;
  struct S13_class_std___Sp_counted_base* v6;
  u1 v7;
  u32* v8;
  u64* v9;
  u64 v10;
  u1 v11;
  u32* v12;
  fnptr_t** v13;
  fnptr_t* v14;
  fnptr_t* v15;
  fnptr_t v16;
  fnptr_t* v17;
  fnptr_t* v18;
  fnptr_t v19;
  u8 v20;
  u1 v21;
  u32 v22;
  u32 v23;
  u32 v24;
  u32 v25;
  u32 v26; u32 v26_t;
  u1 v27;
  u8** v28;
  u8* v29;
  u8* v30;
  u1 v31;
  u8* v32;
L0: ;
  v0 = (struct S12_struct_std___Rb_tree_node**)(&(*a0).f1);
  v1 = *v0;
  v2 = ((u8*)v1 == (u8*)((struct S12_struct_std___Rb_tree_node*)0));
  if (v2) {
    goto L12;
  } else {
    goto L1;
  }
L1: ;
  v3 = (struct S64_struct___gnu_cxx____aligned_membuf*)(&(*v1).f1);
  v4 = (u8*)(&(*v1).f1.f0.e[(s64)((s64)((u64)40ULL))]);
  v5 = (struct S13_class_std___Sp_counted_base**)v4;
  v6 = *v5;
  v7 = ((u8*)v6 == (u8*)((struct S13_class_std___Sp_counted_base*)0));
  if (v7) {
    goto L9;
  } else {
    goto L2;
  }
L2: ;
  v8 = (u32*)(&(*v6).f1);
  v9 = (u64*)v8;
  v10 = (((u64)(*v6).f1 << 0) | ((u64)(*v6).f2 << 32));
  v11 = (v10 == ((u64)4294967297ULL));
  if (v11) {
    goto L3;
  } else {
    goto L4;
  }
L3: ;
  *v8 = ((u32)0ULL);
  v12 = (u32*)(&(*v6).f2);
  *v12 = ((u32)0ULL);
  v13 = (fnptr_t**)&(*v6).f0;
  v14 = *v13;
  v15 = (fnptr_t*)(v14 + (s64)((s64)((u64)2ULL)));
  v16 = *v15;
  ((FT0)v16)(v6);
  v17 = *v13;
  v18 = (fnptr_t*)(v17 + (s64)((s64)((u64)3ULL)));
  v19 = *v18;
  ((FT0)v19)(v6);
  goto L9;
L4: ;
  v20 = *(&__libc_single_threaded);
  v21 = (v20 == ((u8)0ULL));
  if (v21) {
    goto L6;
  } else {
    goto L5;
  }
L5: ;
  v22 = *v8;
  v23 = ((u32)(v22 + ((u32)4294967295ULL)));
  *v8 = v23;
  v26 = v22;
  goto L7;
L6: ;
  v24 = *v8;
  v25 = ((u32)(v24 + ((u32)4294967295ULL)));
  *v8 = v25;
  v26 = v24;
  goto L7;
L7: ;
  v27 = (v26 == ((u32)1ULL));
  if (v27) {
    goto L8;
  } else {
    goto L9;
  }
L8: ;
  _ZNSt16_Sp_counted_baseILN9__gnu_cxx12_Lock_policyE2EE24_M_release_last_use_coldEv(v6);
  goto L9;
L9: ;
  v28 = (u8**)v3;
  v29 = *v28;
  v30 = (u8*)(&(*v1).f1.f0.e[(s64)((s64)((u64)16ULL))]);
  v31 = ((u8*)v29 == (u8*)v30);
  if (v31) {
    goto L11;
  } else {
    goto L10;
  }
L10: ;
  _ZdlPv(v29);
  goto L11;
L11: ;
  v32 = (u8*)v1;
  _ZdlPv(v32);
  goto L12;
L12: ;
  return;
}

struct S30 _ZNSt8_Rb_treeINSt7__cxx1112basic_stringIcSt11char_traitsIcESaIcEEESt4pairIKS5_St10shared_ptrIN14OpenVolumeMesh2IO19PropertyDecoderBaseEEESt10_Select1stISD_ESt4lessIS5_ESaISD_EE24_M_get_insert_unique_posERS7_(struct S10_class_std___Rb_tree* a0, struct S27_class_std____cxx11__basic_string* a1) {
  u8* v0;
  u8* v1;
  struct S12_struct_std___Rb_tree_node** v2;
  u8* v3;
  struct S11_struct_std___Rb_tree_node_base* v4;
  struct S12_struct_std___Rb_tree_node* v5;
  u1 v6;
  u64* v7;
  u64 v8;
  u8** v9;
  u8* v10;
  struct S12_struct_std___Rb_tree_node* v11; struct S12_struct_std___Rb_tree_node* v11_t;
  u8* v12;
  u64* v13;
  u64 v14;
  u1 v15;
  u64 v16;
  u1 v17;
  struct S64_struct___gnu_cxx____aligned_membuf* v18;
  u8** v19;
  u8* v20;
  u32 v21;
  u32 v22; u32 v22_t;
  u1 v23;
  u64 v24;
  u1 v25;
  u64 v26;
  u1 v27;
  u64 v28;
  u32 v29;
  u32 v30; u32 v30_t;
  u1 v31;
  struct S11_struct_std___Rb_tree_node_base** v32;
  struct S11_struct_std___Rb_tree_node_base** v33;
  struct S11_struct_std___Rb_tree_node_base** v34;
  struct S12_struct_std___Rb_tree_node** v35;
  struct S12_struct_std___Rb_tree_node* v36;
  u1 v37;
  struct S11_struct_std___Rb_tree_node_base* v38;
  struct S11_struct_std___Rb_tree_node_base* v39; struct S11_struct_std___Rb_tree_node_base* v39_t;
  u1 v40; u1 v40_t;
  struct S12_struct_std___Rb_tree_node* v41; struct S12_struct_std___Rb_tree_node* v41_t;
  u8* v42;
  struct S11_struct_std___Rb_tree_node_base** v43;
  struct S11_struct_std___Rb_tree_node_base* v44;
  u1 v45;
  struct S11_struct_std___Rb_tree_node_base* v46;
  struct S11_struct_std___Rb_tree_node_base* v47;
  struct S11_struct_std___Rb_tree_node_base* v48; struct S11_struct_std___Rb_tree_node_base* v48_t;
  struct S11_struct_std___Rb_tree_node_base** v49;
  u64* v50;
  u64 v51;
  u64* v52;
  u64 v53;
  u1 v54;
  u64 v55;
  u1 v56;
  struct S11_struct_std___Rb_tree_node_base* v57;
  u8** v58;
  u8* v59;
  u8** v60;
  u8* v61;
  u32 v62;
  u32 v63; u32 v63_t;
  u1 v64;
  u64 v65;
  u1 v66;
  u64 v67;
  u1 v68;
  u64 v69;
  u32 v70;
  u32 v71; u32 v71_t;
  u1 v72;
  struct S11_struct_std___Rb_tree_node_base* v73;
  struct S11_struct_std___Rb_tree_node_base* v74;
  struct S11_struct_std___Rb_tree_node_base* v75;
  struct S11_struct_std___Rb_tree_node_base* v76; struct S11_struct_std___Rb_tree_node_base* v76_t;
  struct S11_struct_std___Rb_tree_node_base* v77; struct S11_struct_std___Rb_tree_node_base* v77_t;
  struct S30 v78;
  struct S30 v79;
L0: ;
  v0 = (u8*)(&(*a0).f0.f0.f0.f0);
  v1 = (u8*)&(*a0).f0.f1.f0.f1;
  v2 = (struct S12_struct_std___Rb_tree_node**)&(*a0).f0.f1.f0.f1;
  v3 = (u8*)&(*a0).f0.f1.f0.f0;
  v4 = (struct S11_struct_std___Rb_tree_node_base*)&(*a0).f0.f1.f0;
  v5 = *v2;
  v6 = ((u8*)v5 == (u8*)((struct S12_struct_std___Rb_tree_node*)0));
  if (v6) {
    v39_t = v4;
    v40_t = ((u1)1ULL);
    v41_t = v5;
    v39 = v39_t;
    v40 = v40_t;
    v41 = v41_t;
    goto L8;
  } else {
    goto L1;
  }
L1: ;
  v7 = (u64*)(&(*a1).f1);
  v8 = *v7;
  v9 = (u8**)(&(*a1).f0.f0);
  v10 = *v9;
  v11 = v5;
  goto L2;
L2: ;
  v12 = (u8*)(&(*v11).f1.f0.e[(s64)((s64)((u64)8ULL))]);
  v13 = (u64*)v12;
  v14 = (((u64)(*v11).f1.f0.e[8] << 0) | ((u64)(*v11).f1.f0.e[9] << 8) | ((u64)(*v11).f1.f0.e[10] << 16) | ((u64)(*v11).f1.f0.e[11] << 24) | ((u64)(*v11).f1.f0.e[12] << 32) | ((u64)(*v11).f1.f0.e[13] << 40) | ((u64)(*v11).f1.f0.e[14] << 48) | ((u64)(*v11).f1.f0.e[15] << 56));
  v15 = (v8 > v14);
  v16 = (v15 ? v14 : v8);
  v17 = (v16 == ((u64)0ULL));
  if (v17) {
    v22 = ((u32)0ULL);
    goto L4;
  } else {
    goto L3;
  }
L3: ;
  v18 = (struct S64_struct___gnu_cxx____aligned_membuf*)(&(*v11).f1);
  v19 = (u8**)v18;
  v20 = *v19;
  v21 = memcmp(v10, v20, v16);
  v22 = v21;
  goto L4;
L4: ;
  v23 = (v22 == ((u32)0ULL));
  if (v23) {
    goto L5;
  } else {
    v30 = v22;
    goto L6;
  }
L5: ;
  v24 = ((u64)(v8 - v14));
  v25 = (((s64)v24) > ((s64)((u64)18446744071562067968ULL)));
  v26 = (v25 ? v24 : ((u64)18446744071562067968ULL));
  v27 = (((s64)v26) < ((s64)((u64)2147483647ULL)));
  v28 = (v27 ? v26 : ((u64)2147483647ULL));
  v29 = ((u32)(v28));
  v30 = v29;
  goto L6;
L6: ;
  v31 = (((s32)v30) < ((s32)((u32)0ULL)));
  v32 = (struct S11_struct_std___Rb_tree_node_base**)(&(*v11).f0.f2);
  v33 = (struct S11_struct_std___Rb_tree_node_base**)(&(*v11).f0.f3);
  v34 = (v31 ? v32 : v33);
  v35 = (struct S12_struct_std___Rb_tree_node**)v34;
  v36 = *v35;
  v37 = ((u8*)v36 == (u8*)((struct S12_struct_std___Rb_tree_node*)0));
  if (v37) {
    goto L7;
  } else {
    v11 = v36;
    goto L2;
  }
L7: ;
  v38 = (struct S11_struct_std___Rb_tree_node_base*)(&(*v11).f0);
  v39_t = v38;
  v40_t = v31;
  v41_t = v36;
  v39 = v39_t;
  v40 = v40_t;
  v41 = v41_t;
  goto L8;
L8: ;
  if (v40) {
    goto L9;
  } else {
    v48 = v39;
    goto L12;
  }
L9: ;
  v42 = (u8*)&(*a0).f0.f1.f0.f2;
  v43 = (struct S11_struct_std___Rb_tree_node_base**)&(*a0).f0.f1.f0.f2;
  v44 = *v43;
  v45 = ((u8*)v39 == (u8*)v44);
  if (v45) {
    goto L10;
  } else {
    goto L11;
  }
L10: ;
  v46 = (struct S11_struct_std___Rb_tree_node_base*)(&(*v41).f0);
  v76_t = v46;
  v77_t = v39;
  v76 = v76_t;
  v77 = v77_t;
  goto L17;
L11: ;
  v47 = _ZSt18_Rb_tree_decrementPSt18_Rb_tree_node_base(v39);
  v48 = v47;
  goto L12;
L12: ;
  v49 = (struct S11_struct_std___Rb_tree_node_base**)(&(v48)[(s64)((s64)((u64)1ULL))].f1);
  v50 = (u64*)v49;
  v51 = *v50;
  v52 = (u64*)(&(*a1).f1);
  v53 = *v52;
  v54 = (v51 > v53);
  v55 = (v54 ? v53 : v51);
  v56 = (v55 == ((u64)0ULL));
  if (v56) {
    v63 = ((u32)0ULL);
    goto L14;
  } else {
    goto L13;
  }
L13: ;
  v57 = (struct S11_struct_std___Rb_tree_node_base*)(v48 + (s64)((s64)((u64)1ULL)));
  v58 = (u8**)(&(*a1).f0.f0);
  v59 = *v58;
  v60 = (u8**)v57;
  v61 = *v60;
  v62 = memcmp(v61, v59, v55);
  v63 = v62;
  goto L14;
L14: ;
  v64 = (v63 == ((u32)0ULL));
  if (v64) {
    goto L15;
  } else {
    v71 = v63;
    goto L16;
  }
L15: ;
  v65 = ((u64)(v51 - v53));
  v66 = (((s64)v65) > ((s64)((u64)18446744071562067968ULL)));
  v67 = (v66 ? v65 : ((u64)18446744071562067968ULL));
  v68 = (((s64)v67) < ((s64)((u64)2147483647ULL)));
  v69 = (v68 ? v67 : ((u64)2147483647ULL));
  v70 = ((u32)(v69));
  v71 = v70;
  goto L16;
L16: ;
  v72 = (((s32)v71) < ((s32)((u32)0ULL)));
  v73 = (struct S11_struct_std___Rb_tree_node_base*)(&(*v41).f0);
  v74 = (v72 ? v73 : v48);
  v75 = (v72 ? v39 : ((struct S11_struct_std___Rb_tree_node_base*)0));
  v76_t = v74;
  v77_t = v75;
  v76 = v76_t;
  v77 = v77_t;
  goto L17;
L17: ;
  v78.f0 = v76;
  v79 = v78;
  v79.f1 = v77;
  return v79;
}

void _ZN14OpenVolumeMesh2IO19PropertyDecoderBaseD2Ev(struct S21_class_OpenVolumeMesh__IO__PropertyDecode* a0) {
L0: ;
  return;
}

void _ZN14OpenVolumeMesh2IO6detail11parse_errorCI2St13runtime_errorEPKc(struct S32_class_OpenVolumeMesh__IO__detail__parse_* a0, u8* a1) {
  struct S20_class_std__runtime_error* v0;
  fnptr_t** v1;
L0: ;
  v0 = (struct S20_class_std__runtime_error*)(&(*a0).f0.f0);
  _ZNSt13runtime_errorC2EPKc(v0, a1);
  if (v_exc) return;
  v1 = (fnptr_t**)(&(*a0).f0.f0.f0.f0);
  *v1 = ((fnptr_t*)((u8**)(&(*(&_ZTVN14OpenVolumeMesh2IO6detail11parse_errorE)).f0.e[(s64)((s64)((u64)2ULL))])));
  return;
}

void _ZN14OpenVolumeMesh2IO6detail11parse_errorD0Ev(struct S32_class_OpenVolumeMesh__IO__detail__parse_* a0) {
  struct S20_class_std__runtime_error* v0;
  u8* v1;
L0: ;
  v0 = (struct S20_class_std__runtime_error*)(&(*a0).f0.f0);
  _ZNSt13runtime_errorD2Ev(v0);
  v1 = (u8*)a0;
  _ZdlPv(v1);
  return;
}

struct S23 _ZNSt8_Rb_treeISt10shared_ptrIN14OpenVolumeMesh19PropertyStorageBaseEES3_St9_IdentityIS3_ESt4lessIS3_ESaIS3_EE16_M_insert_uniqueIRKS3_EESt4pairISt17_Rb_tree_iteratorIS3_EbEOT_(struct S10_class_std___Rb_tree* a0, struct S33_class_std__weak_ptr* a1) {
  u8* v0;
  u8* v1;
  struct S35_struct_std___Rb_tree_node_84** v2;
  u8* v3;
  struct S11_struct_std___Rb_tree_node_base* v4;
  struct S35_struct_std___Rb_tree_node_84* v5;
  u1 v6;
  struct S16_class_OpenVolumeMesh__PropertyStorageBas** v7;
  struct S16_class_OpenVolumeMesh__PropertyStorageBas* v8;
  struct S35_struct_std___Rb_tree_node_84* v9; struct S35_struct_std___Rb_tree_node_84* v9_t;
  struct S67_struct___gnu_cxx____aligned_membuf_85* v10;
  struct S16_class_OpenVolumeMesh__PropertyStorageBas** v11;
  struct S16_class_OpenVolumeMesh__PropertyStorageBas* v12;
  u1 v13;
  struct S11_struct_std___Rb_tree_node_base** v14;
  struct S11_struct_std___Rb_tree_node_base** v15;
  struct S11_struct_std___Rb_tree_node_base** v16;
  struct S35_struct_std___Rb_tree_node_84** v17;
  struct S35_struct_std___Rb_tree_node_84* v18;
  u1 v19;
  struct S11_struct_std___Rb_tree_node_base* v20;
  struct S11_struct_std___Rb_tree_node_base* v21; struct S11_struct_std___Rb_tree_node_base* v21_t;
  u1 v22; u1 v22_t;
  struct S35_struct_std___Rb_tree_node_84* v23; struct S35_struct_std___Rb_tree_node_84* v23_t;
  u8* v24;
  struct S11_struct_std___Rb_tree_node_base** v25;
  struct S11_struct_std___Rb_tree_node_base* v26;
  u1 v27;
  struct S11_struct_std___Rb_tree_node_base* v28;
  struct S11_struct_std___Rb_tree_node_base* v29;
  struct S11_struct_std___Rb_tree_node_base* v30; struct S11_struct_std___Rb_tree_node_base* v30_t;
  struct S11_struct_std___Rb_tree_node_base* v31;
  struct S16_class_OpenVolumeMesh__PropertyStorageBas** v32;
  struct S16_class_OpenVolumeMesh__PropertyStorageBas* v33;
  struct S16_class_OpenVolumeMesh__PropertyStorageBas** v34;
  struct S16_class_OpenVolumeMesh__PropertyStorageBas* v35;
  u1 v36;
  struct S11_struct_std___Rb_tree_node_base* v37;
  struct S11_struct_std___Rb_tree_node_base* v38;
  struct S11_struct_std___Rb_tree_node_base* v39;
  struct S11_struct_std___Rb_tree_node_base* v40; struct S11_struct_std___Rb_tree_node_base* v40_t;
  struct S11_struct_std___Rb_tree_node_base* v41; struct S11_struct_std___Rb_tree_node_base* v41_t;
  u1 v42;
  u1 v43;
  u1 v44;
  u1 v45;
  struct S11_struct_std___Rb_tree_node_base* v46;
  struct S16_class_OpenVolumeMesh__PropertyStorageBas** v47;
  struct S16_class_OpenVolumeMesh__PropertyStorageBas* v48;
  struct S16_class_OpenVolumeMesh__PropertyStorageBas** v49;
  struct S16_class_OpenVolumeMesh__PropertyStorageBas* v50;
  u1 v51;
  u1 v52; u1 v52_t;
  u8* v53;
  struct S35_struct_std___Rb_tree_node_84* v54;
  struct S67_struct___gnu_cxx____aligned_membuf_85* v55;
  struct S16_class_OpenVolumeMesh__PropertyStorageBas** v56;
  struct S16_class_OpenVolumeMesh__PropertyStorageBas** v57;
  struct S16_class_OpenVolumeMesh__PropertyStorageBas* v58;
  u8* v59;
  struct S13_class_std___Sp_counted_base** v60;
  struct S13_class_std___Sp_counted_base** v61;
  struct S13_class_std___Sp_counted_base* v62;
  u1 v63;
  u32* v64;
  u8 v65;
  u1 v66;
  u32 v67;
  u32 v68;
  u32 v69;
  u32 v70;
  struct S11_struct_std___Rb_tree_node_base* v71;
  u8* v72;
  u64* v73;
  u64 v74;
  u64 v75;
  struct S11_struct_std___Rb_tree_node_base* v76; struct S11_struct_std___Rb_tree_node_base* v76_t;
  u8 v77; u8 v77_t;
  struct S23 v78;
  struct S23 v79;
L0: ;
  v0 = (u8*)(&(*a0).f0.f0.f0.f0);
  v1 = (u8*)&(*a0).f0.f1.f0.f1;
  v2 = (struct S35_struct_std___Rb_tree_node_84**)&(*a0).f0.f1.f0.f1;
  v3 = (u8*)&(*a0).f0.f1.f0.f0;
  v4 = (struct S11_struct_std___Rb_tree_node_base*)&(*a0).f0.f1.f0;
  v5 = *v2;
  v6 = ((u8*)v5 == (u8*)((struct S35_struct_std___Rb_tree_node_84*)0));
  if (v6) {
    v21_t = v4;
    v22_t = ((u1)1ULL);
    v23_t = v5;
    v21 = v21_t;
    v22 = v22_t;
    v23 = v23_t;
    goto L4;
  } else {
    goto L1;
  }
L1: ;
  v7 = (struct S16_class_OpenVolumeMesh__PropertyStorageBas**)(&(*a1).f0.f0);
  v8 = *v7;
  v9 = v5;
  goto L2;
L2: ;
  v10 = (struct S67_struct___gnu_cxx____aligned_membuf_85*)(&(*v9).f1);
  v11 = (struct S16_class_OpenVolumeMesh__PropertyStorageBas**)v10;
  v12 = *v11;
  v13 = v_plt((u8*)v8, (u8*)v12);
  v14 = (struct S11_struct_std___Rb_tree_node_base**)(&(*v9).f0.f2);
  v15 = (struct S11_struct_std___Rb_tree_node_base**)(&(*v9).f0.f3);
  v16 = (v13 ? v14 : v15);
  v17 = (struct S35_struct_std___Rb_tree_node_84**)v16;
  v18 = *v17;
  v19 = ((u8*)v18 == (u8*)((struct S35_struct_std___Rb_tree_node_84*)0));
  if (v19) {
    goto L3;
  } else {
    v9 = v18;
    goto L2;
  }
L3: ;
  v20 = (struct S11_struct_std___Rb_tree_node_base*)(&(*v9).f0);
  v21_t = v20;
  v22_t = v13;
  v23_t = v18;
  v21 = v21_t;
  v22 = v22_t;
  v23 = v23_t;
  goto L4;
L4: ;
  if (v22) {
    goto L5;
  } else {
    v30 = v21;
    goto L8;
  }
L5: ;
  v24 = (u8*)&(*a0).f0.f1.f0.f2;
  v25 = (struct S11_struct_std___Rb_tree_node_base**)&(*a0).f0.f1.f0.f2;
  v26 = *v25;
  v27 = ((u8*)v21 == (u8*)v26);
  if (v27) {
    goto L6;
  } else {
    goto L7;
  }
L6: ;
  v28 = (struct S11_struct_std___Rb_tree_node_base*)(&(*v23).f0);
  v40_t = v28;
  v41_t = v21;
  v40 = v40_t;
  v41 = v41_t;
  goto L9;
L7: ;
  v29 = _ZSt18_Rb_tree_decrementPSt18_Rb_tree_node_base(v21);
  v30 = v29;
  goto L8;
L8: ;
  v31 = (struct S11_struct_std___Rb_tree_node_base*)(v30 + (s64)((s64)((u64)1ULL)));
  v32 = (struct S16_class_OpenVolumeMesh__PropertyStorageBas**)v31;
  v33 = *v32;
  v34 = (struct S16_class_OpenVolumeMesh__PropertyStorageBas**)(&(*a1).f0.f0);
  v35 = *v34;
  v36 = v_plt((u8*)v33, (u8*)v35);
  v37 = (struct S11_struct_std___Rb_tree_node_base*)(&(*v23).f0);
  v38 = (v36 ? v37 : v30);
  v39 = (v36 ? v21 : ((struct S11_struct_std___Rb_tree_node_base*)0));
  v40_t = v38;
  v41_t = v39;
  v40 = v40_t;
  v41 = v41_t;
  goto L9;
L9: ;
  v42 = ((u8*)v41 == (u8*)((struct S11_struct_std___Rb_tree_node_base*)0));
  if (v42) {
    v76_t = v40;
    v77_t = ((u8)0ULL);
    v76 = v76_t;
    v77 = v77_t;
    goto L17;
  } else {
    goto L10;
  }
L10: ;
  v43 = ((u8*)v40 != (u8*)((struct S11_struct_std___Rb_tree_node_base*)0));
  v44 = ((u8*)v41 == (u8*)v4);
  v45 = (v43 ? ((u1)1ULL) : v44);
  if (v45) {
    v52 = ((u1)1ULL);
    goto L12;
  } else {
    goto L11;
  }
L11: ;
  v46 = (struct S11_struct_std___Rb_tree_node_base*)(v41 + (s64)((s64)((u64)1ULL)));
  v47 = (struct S16_class_OpenVolumeMesh__PropertyStorageBas**)(&(*a1).f0.f0);
  v48 = *v47;
  v49 = (struct S16_class_OpenVolumeMesh__PropertyStorageBas**)v46;
  v50 = *v49;
  v51 = v_plt((u8*)v48, (u8*)v50);
  v52 = v51;
  goto L12;
L12: ;
  v53 = (u8*)((((u64)48ULL) % sizeof(struct S35_struct_std___Rb_tree_node_84) == 0) ? __CPROVER_allocate(sizeof(struct S35_struct_std___Rb_tree_node_84) * (((u64)48ULL) / sizeof(struct S35_struct_std___Rb_tree_node_84)), 0) : __CPROVER_allocate(((u64)48ULL), 0));
  v_alloc_note((u8*)v53);
  v54 = (struct S35_struct_std___Rb_tree_node_84*)v53;
  v55 = (struct S67_struct___gnu_cxx____aligned_membuf_85*)(&(*v54).f1);
  v56 = (struct S16_class_OpenVolumeMesh__PropertyStorageBas**)v55;
  v57 = (struct S16_class_OpenVolumeMesh__PropertyStorageBas**)(&(*a1).f0.f0);
  v58 = *v57;
  *v56 = v58;
  v59 = (u8*)(&(*v54).f1.f0.e[(s64)((s64)((u64)8ULL))]);
  v60 = (struct S13_class_std___Sp_counted_base**)v59;
  v61 = (struct S13_class_std___Sp_counted_base**)(&(*a1).f0.f1.f0);
  v62 = *v61;
  *v60 = v62;
  v63 = ((u8*)v62 == (u8*)((struct S13_class_std___Sp_counted_base*)0));
  if (v63) {
    goto L16;
  } else {
    goto L13;
  }
L13: ;
  v64 = (u32*)(&(*v62).f1);
  v65 = *(&__libc_single_threaded);
  v66 = (v65 == ((u8)0ULL));
  if (v66) {
    goto L15;
  } else {
    goto L14;
  }
L14: ;
  v67 = *v64;
  v68 = ((u32)(v67 + ((u32)1ULL)));
  *v64 = v68;
  goto L16;
L15: ;
  v69 = *v64;
  v70 = ((u32)(v69 + ((u32)1ULL)));
  *v64 = v70;
  goto L16;
L16: ;
  v71 = (struct S11_struct_std___Rb_tree_node_base*)(&(*v54).f0);
  _ZSt29_Rb_tree_insert_and_rebalancebPSt18_Rb_tree_node_baseS0_RS_(v52, v71, v41, v4);
  v72 = (u8*)&(*a0).f0.f1.f1;
  v73 = (u64*)&(*a0).f0.f1.f1;
  v74 = *v73;
  v75 = ((u64)(v74 + ((u64)1ULL)));
  *v73 = v75;
  v76_t = v71;
  v77_t = ((u8)1ULL);
  v76 = v76_t;
  v77 = v77_t;
  goto L17;
L17: ;
  v78.f0 = v76;
  v79 = v78;
  v79.f1 = v77;
  return v79;
}

void _ZNSt8_Rb_treeISt10shared_ptrIN14OpenVolumeMesh19PropertyStorageBaseEES3_St9_IdentityIS3_ESt4lessIS3_ESaIS3_EE12_M_erase_auxESt23_Rb_tree_const_iteratorIS3_ESB_(struct S10_class_std___Rb_tree* a0, struct S11_struct_std___Rb_tree_node_base* a1, struct S11_struct_std___Rb_tree_node_base* a2) {
  u8* v0;
  u8* v1;
  struct S11_struct_std___Rb_tree_node_base** v2;
  struct S11_struct_std___Rb_tree_node_base* v3;
  u1 v4;
  u8* v5;
  struct S11_struct_std___Rb_tree_node_base* v6;
  u1 v7;
  u8* v8;
  struct S35_struct_std___Rb_tree_node_84** v9;
  struct S35_struct_std___Rb_tree_node_84* v10;
  struct S63 v11;
  u8* v12;
  struct S11_struct_std___Rb_tree_node_base** v13;
  u8** v14;
  u8* v15;
  u8** v16;
  u8* v17;
  u64* v18;
  u1 v19;
  u8* v20;
  struct S11_struct_std___Rb_tree_node_base* v21;
  u8* v22;
  u64* v23;
  struct S11_struct_std___Rb_tree_node_base* v24; struct S11_struct_std___Rb_tree_node_base* v24_t;
  struct S11_struct_std___Rb_tree_node_base* v25;
  struct S11_struct_std___Rb_tree_node_base* v26;
  struct S11_struct_std___Rb_tree_node_base** v27;
  struct S13_class_std___Sp_counted_base** v28;
  struct S13_class_std___Sp_counted_base* v29;
  u1 v30;
  u32* v31;
  u64* v32;
  u64 v33;
  u1 v34;
  u32* v35;
  fnptr_t** v36;
  fnptr_t* v37;
  fnptr_t* v38;
  fnptr_t v39;
  fnptr_t* v40;
  fnptr_t* v41;
  fnptr_t v42;
  u8 v43;
  u1 v44;
  u32 v45;
  u32 v46;
  u32 v47;
  u32 v48;
  u32 v49; u32 v49_t;
  u1 v50;
  u8* v51;
  u64 v52;
  u64 v53;
  u1 v54;
L0: ;
  v0 = (u8*)(&(*a0).f0.f0.f0.f0);
  v1 = (u8*)&(*a0).f0.f1.f0.f2;
  v2 = (struct S11_struct_std___Rb_tree_node_base**)&(*a0).f0.f1.f0.f2;
  v3 = *v2;
  v4 = ((u8*)v3 == (u8*)a1);
  if (v4) {
    goto L1;
  } else {
    goto L5;
  }
L1: ;
  v5 = (u8*)&(*a0).f0.f1.f0.f0;
  v6 = (struct S11_struct_std___Rb_tree_node_base*)&(*a0).f0.f1.f0;
  v7 = ((u8*)v6 == (u8*)a2);
  if (v7) {
    goto L2;
  } else {
    goto L5;
  }
L2: ;
  v8 = (u8*)&(*a0).f0.f1.f0.f1;
  v9 = (struct S35_struct_std___Rb_tree_node_84**)&(*a0).f0.f1.f0.f1;
  v10 = *v9;
  _ZNSt8_Rb_treeISt10shared_ptrIN14OpenVolumeMesh19PropertyStorageBaseEES3_St9_IdentityIS3_ESt4lessIS3_ESaIS3_EE8_M_eraseEPSt13_Rb_tree_nodeIS3_E(a0, v10);
  if (v_exc) {
    goto L3;
  }
  goto L4;
L3: ;
  v11.f0 = v_exc_obj;
  v11.f1 = 0;
  if (v11.f1 == 0) v11.f1 = 9999;
  if (v11.f1 == 0) return;
  v_exc = 0;
  v12 = v11.f0;
  __clang_call_terminate(v12);
  __CPROVER_assume(0);
L4: ;
  v13 = (struct S11_struct_std___Rb_tree_node_base**)&(*a0).f0.f1.f0.f1;
  *v13 = ((struct S11_struct_std___Rb_tree_node_base*)0);
  v14 = (u8**)&(*a0).f0.f1.f0.f2;
  *v14 = v5;
  v15 = (u8*)&(*a0).f0.f1.f0.f3;
  v16 = (u8**)&(*a0).f0.f1.f0.f3;
  *v16 = v5;
  v17 = (u8*)&(*a0).f0.f1.f1;
  v18 = (u64*)&(*a0).f0.f1.f1;
  *v18 = ((u64)0ULL);
  goto L16;
L5: ;
  v19 = ((u8*)a1 == (u8*)a2);
  if (v19) {
    goto L16;
  } else {
    goto L6;
  }
L6: ;
  v20 = (u8*)&(*a0).f0.f1.f0.f0;
  v21 = (struct S11_struct_std___Rb_tree_node_base*)&(*a0).f0.f1.f0;
  v22 = (u8*)&(*a0).f0.f1.f1;
  v23 = (u64*)&(*a0).f0.f1.f1;
  v24 = a1;
  goto L7;
L7: ;
  v25 = _ZSt18_Rb_tree_incrementPKSt18_Rb_tree_node_base(v24);
  v26 = _ZSt28_Rb_tree_rebalance_for_erasePSt18_Rb_tree_node_baseRS_(v24, v21);
  v27 = (struct S11_struct_std___Rb_tree_node_base**)(&(v26)[(s64)((s64)((u64)1ULL))].f1);
  v28 = (struct S13_class_std___Sp_counted_base**)v27;
  v29 = *v28;
  v30 = ((u8*)v29 == (u8*)((struct S13_class_std___Sp_counted_base*)0));
  if (v30) {
    goto L15;
  } else {
    goto L8;
  }
L8: ;
  v31 = (u32*)(&(*v29).f1);
  v32 = (u64*)v31;
  v33 = (((u64)(*v29).f1 << 0) | ((u64)(*v29).f2 << 32));
  v34 = (v33 == ((u64)4294967297ULL));
  if (v34) {
    goto L9;
  } else {
    goto L10;
  }
L9: ;
  *v31 = ((u32)0ULL);
  v35 = (u32*)(&(*v29).f2);
  *v35 = ((u32)0ULL);
  v36 = (fnptr_t**)&(*v29).f0;
  v37 = *v36;
  v38 = (fnptr_t*)(v37 + (s64)((s64)((u64)2ULL)));
  v39 = *v38;
  ((FT0)v39)(v29);
  v40 = *v36;
  v41 = (fnptr_t*)(v40 + (s64)((s64)((u64)3ULL)));
  v42 = *v41;
  ((FT0)v42)(v29);
  goto L15;
L10: ;
  v43 = *(&__libc_single_threaded);
  v44 = (v43 == ((u8)0ULL));
  if (v44) {
    goto L12;
  } else {
    goto L11;
  }
L11: ;
  v45 = *v31;
  v46 = ((u32)(v45 + ((u32)4294967295ULL)));
  *v31 = v46;
  v49 = v45;
  goto L13;
L12: ;
  v47 = *v31;
  v48 = ((u32)(v47 + ((u32)4294967295ULL)));
  *v31 = v48;
  v49 = v47;
  goto L13;
L13: ;
  v50 = (v49 == ((u32)1ULL));
  if (v50) {
    goto L14;
  } else {
    goto L15;
  }
L14: ;
  _ZNSt16_Sp_counted_baseILN9__gnu_cxx12_Lock_policyE2EE24_M_release_last_use_coldEv(v29);
  goto L15;
L15: ;
  v51 = (u8*)v26;
  _ZdlPv(v51);
  v52 = *v23;
  v53 = ((u64)(v52 + ((u64)18446744073709551615ULL)));
  *v23 = v53;
  v54 = ((u8*)v25 == (u8*)a2);
  if (v54) {
    goto L16;
  } else {
    v24 = v25;
    goto L7;
  }
L16: ;
  return;
}

void _ZNSt12__shared_ptrIN14OpenVolumeMesh19PropertyStorageBaseELN9__gnu_cxx12_Lock_policyE2EED2Ev(struct S34_class_std____weak_ptr* a0) {
  struct S13_class_std___Sp_counted_base** v0;
  struct S13_class_std___Sp_counted_base* v1;
  u1 v2;
  u32* v3;
  u64* v4;
  u64 v5;
  u1 v6;
  u32* v7;
  fnptr_t** v8;
  fnptr_t* v9;
  fnptr_t* v10;
  fnptr_t v11;
  fnptr_t* v12;
  fnptr_t* v13;
  fnptr_t v14;
  u8 v15;
  u1 v16;
  u32 v17;
  u32 v18;
  u32 v19;
  u32 v20;
  u32 v21; u32 v21_t;
  u1 v22;
L0: ;
  v0 = (struct S13_class_std___Sp_counted_base**)(&(*a0).f1.f0);
  v1 = *v0;
  v2 = ((u8*)v1 == (u8*)((struct S13_class_std___Sp_counted_base*)0));
  if (v2) {
    goto L8;
  } else {
    goto L1;
  }
L1: ;
  v3 = (u32*)(&(*v1).f1);
  v4 = (u64*)v3;
  v5 = (((u64)(*v1).f1 << 0) | ((u64)(*v1).f2 << 32));
  v6 = (v5 == ((u64)4294967297ULL));
  if (v6) {
    goto L2;
  } else {
    goto L3;
  }
L2: ;
  *v3 = ((u32)0ULL);
  v7 = (u32*)(&(*v1).f2);
  *v7 = ((u32)0ULL);
  v8 = (fnptr_t**)&(*v1).f0;
  v9 = *v8;
  v10 = (fnptr_t*)(v9 + (s64)((s64)((u64)2ULL)));
  v11 = *v10;
  ((FT0)v11)(v1);
  v12 = *v8;
  v13 = (fnptr_t*)(v12 + (s64)((s64)((u64)3ULL)));
  v14 = *v13;
  ((FT0)v14)(v1);
  goto L8;
L3: ;
  v15 = *(&__libc_single_threaded);
  v16 = (v15 == ((u8)0ULL));
  if (v16) {
    goto L5;
  } else {
    goto L4;
  }
L4: ;
  v17 = *v3;
  v18 = ((u32)(v17 + ((u32)4294967295ULL)));
  *v3 = v18;
  v21 = v17;
  goto L6;
L5: ;
  v19 = *v3;
  v20 = ((u32)(v19 + ((u32)4294967295ULL)));
  *v3 = v20;
  v21 = v19;
  goto L6;
L6: ;
  v22 = (v21 == ((u32)1ULL));
  if (v22) {
    goto L7;
  } else {
    goto L8;
  }
L7: ;
  _ZNSt16_Sp_counted_baseILN9__gnu_cxx12_Lock_policyE2EE24_M_release_last_use_coldEv(v1);
  goto L8;
L8: ;
  return;
}

void _ZNSt8_Rb_treeISt10shared_ptrIN14OpenVolumeMesh19PropertyStorageBaseEES3_St9_IdentityIS3_ESt4lessIS3_ESaIS3_EE8_M_eraseEPSt13_Rb_tree_nodeIS3_E(struct S10_class_std___Rb_tree* a0, struct S35_struct_std___Rb_tree_node_84* a1) {
  u1 v0;
  struct S35_struct_std___Rb_tree_node_84* v1; struct S35_struct_std___Rb_tree_node_84* v1_t;
  struct S11_struct_std___Rb_tree_node_base** v2;
  struct S35_struct_std___Rb_tree_node_84** v3;
  struct S35_struct_std___Rb_tree_node_84* v4;
  struct S11_struct_std___Rb_tree_node_base** v5;
  struct S35_struct_std___Rb_tree_node_84** v6;
  struct S35_struct_std___Rb_tree_node_84* v7;
  u8* v8;
  struct S13_class_std___Sp_counted_base** v9;
  struct S13_class_std___Sp_counted_base* v10;
  u1 v11;
  u32* v12;
  u64* v13;
  u64 v14;
  u1 v15;
  u32* v16;
  fnptr_t** v17;
  fnptr_t* v18;
  fnptr_t* v19;
  fnptr_t v20;
  fnptr_t* v21;
  fnptr_t* v22;
  fnptr_t v23;
  u8 v24;
  u1 v25;
  u32 v26;
  u32 v27;
  u32 v28;
  u32 v29;
  u32 v30; u32 v30_t;
  u1 v31;
  u8* v32;
  u1 v33;
L0: ;
  v0 = ((u8*)a1 == (u8*)((struct S35_struct_std___Rb_tree_node_84*)0));
  if (v0) {
    goto L10;
  } else {
    v1 = a1;
    goto L1;
  }
L1: ;
  v2 = (struct S11_struct_std___Rb_tree_node_base**)(&(*v1).f0.f3);
  v3 = (struct S35_struct_std___Rb_tree_node_84**)&(*v1).f0.f3;
  v4 = *v3;
  _ZNSt8_Rb_treeISt10shared_ptrIN14OpenVolumeMesh19PropertyStorageBaseEES3_St9_IdentityIS3_ESt4lessIS3_ESaIS3_EE8_M_eraseEPSt13_Rb_tree_nodeIS3_E(a0, v4);
  if (v_exc) return;
  v5 = (struct S11_struct_std___Rb_tree_node_base**)(&(*v1).f0.f2);
  v6 = (struct S35_struct_std___Rb_tree_node_84**)&(*v1).f0.f2;
  v7 = *v6;
  v8 = (u8*)(&(*v1).f1.f0.e[(s64)((s64)((u64)8ULL))]);
  v9 = (struct S13_class_std___Sp_counted_base**)v8;
  v10 = *v9;
  v11 = ((u8*)v10 == (u8*)((struct S13_class_std___Sp_counted_base*)0));
  if (v11) {
    goto L9;
  } else {
    goto L2;
  }
L2: ;
  v12 = (u32*)(&(*v10).f1);
  v13 = (u64*)v12;
  v14 = (((u64)(*v10).f1 << 0) | ((u64)(*v10).f2 << 32));
  v15 = (v14 == ((u64)4294967297ULL));
  if (v15) {
    goto L3;
  } else {
    goto L4;
  }
L3: ;
  *v12 = ((u32)0ULL);
  v16 = (u32*)(&(*v10).f2);
  *v16 = ((u32)0ULL);
  v17 = (fnptr_t**)&(*v10).f0;
  v18 = *v17;
  v19 = (fnptr_t*)(v18 + (s64)((s64)((u64)2ULL)));
  v20 = *v19;
  ((FT0)v20)(v10);
  v21 = *v17;
  v22 = (fnptr_t*)(v21 + (s64)((s64)((u64)3ULL)));
  v23 = *v22;
  ((FT0)v23)(v10);
  goto L9;
L4: ;
  v24 = *(&__libc_single_threaded);
  v25 = (v24 == ((u8)0ULL));
  if (v25) {
    goto L6;
  } else {
    goto L5;
  }
L5: ;
  v26 = *v12;
  v27 = ((u32)(v26 + ((u32)4294967295ULL)));
  *v12 = v27;
  v30 = v26;
  goto L7;
L6: ;
  v28 = *v12;
  v29 = ((u32)(v28 + ((u32)4294967295ULL)));
  *v12 = v29;
  v30 = v28;
  goto L7;
L7: ;
  v31 = (v30 == ((u32)1ULL));
  if (v31) {
    goto L8;
  } else {
    goto L9;
  }
L8: ;
  _ZNSt16_Sp_counted_baseILN9__gnu_cxx12_Lock_policyE2EE24_M_release_last_use_coldEv(v10);
  goto L9;
L9: ;
  v32 = (u8*)v1;
  _ZdlPv(v32);
  v33 = ((u8*)v7 == (u8*)((struct S35_struct_std___Rb_tree_node_84*)0));
  if (v33) {
    goto L10;
  } else {
    v1 = v7;
    goto L1;
  }
L10: ;
  return;
}

struct S11_struct_std___Rb_tree_node_base* _ZNSt8_Rb_treeINSt7__cxx1112basic_stringIcSt11char_traitsIcESaIcEEESt4pairIKS5_St10shared_ptrIN14OpenVolumeMesh2IO19PropertyEncoderBaseEEESt10_Select1stISD_ESt4lessIS5_ESaISD_EE22_M_emplace_hint_uniqueIJRKSt21piecewise_construct_tSt5tupleIJOS5_EESO_IJEEEEESt17_Rb_tree_iteratorISD_ESt23_Rb_tree_const_iteratorISD_EDpOT_(struct S10_class_std___Rb_tree* a0, struct S11_struct_std___Rb_tree_node_base* a1, struct S0_class_std__ios_base__Init* a2, struct S29_class_std__tuple_166* a3, struct S0_class_std__ios_base__Init* a4) {
  struct S31_struct_std___Rb_tree_std____cxx11__basic* v0; struct S31_struct_std___Rb_tree_std____cxx11__basic v0_m;
  u8* v1;
  struct S10_class_std___Rb_tree** v2;
  u8* v3;
  struct S12_struct_std___Rb_tree_node* v4;
  struct S64_struct___gnu_cxx____aligned_membuf* v5;
  u64* v6;
  u64 v7;
  struct S27_class_std____cxx11__basic_string* v8;
  u8* v9;
  u8** v10;
  u8** v11;
  u8* v12;
  struct S66_union_anon* v13;
  u8* v14;
  u1 v15;
  u64* v16;
  u64 v17;
  u64 v18;
  u1 v19;
  u64* v20;
  u64 v21;
  u64* v22;
  struct S12_struct_std___Rb_tree_node** v23;
  u64* v24;
  u64 v25;
  u8* v26;
  u64* v27;
  struct S66_union_anon** v28;
  u8* v29;
  u8** v30;
  struct S12_struct_std___Rb_tree_node* v31;
  struct S64_struct___gnu_cxx____aligned_membuf* v32;
  struct S27_class_std____cxx11__basic_string* v33;
  struct S30 v34;
  struct S11_struct_std___Rb_tree_node_base* v35;
  struct S11_struct_std___Rb_tree_node_base* v36;
  u1 v37;
  struct S10_class_std___Rb_tree* v38;
  struct S12_struct_std___Rb_tree_node* v39;
  u1 v40;
  u8* v41;
  u8* v42;
  struct S11_struct_std___Rb_tree_node_base* v43;
  u1 v44;
  u1 v45;
  u8* v46;
  u64* v47;
  u64 v48;
  struct S11_struct_std___Rb_tree_node_base** v49;
  u64* v50;
  u64 v51;
  u1 v52;
  u64 v53;
  u1 v54;
  struct S11_struct_std___Rb_tree_node_base* v55;
  struct S64_struct___gnu_cxx____aligned_membuf* v56;
  u8** v57;
  u8* v58;
  u8** v59;
  u8* v60;
  u32 v61;
  u32 v62; u32 v62_t;
  u1 v63;
  u64 v64;
  u1 v65;
  u64 v66;
  u1 v67;
  u64 v68;
  u32 v69;
  u32 v70; u32 v70_t;
  u1 v71;
  u1 v72; u1 v72_t;
  struct S11_struct_std___Rb_tree_node_base* v73;
  u8* v74;
  u64* v75;
  u64 v76;
  u64 v77;
  struct S63 v78;
  struct S11_struct_std___Rb_tree_node_base* v79; struct S11_struct_std___Rb_tree_node_base* v79_t;
  struct S12_struct_std___Rb_tree_node* v80;
  u1 v81;
  struct S64_struct___gnu_cxx____aligned_membuf* v82;
  u8* v83;
  struct S13_class_std___Sp_counted_base** v84;
  struct S13_class_std___Sp_counted_base* v85;
  u1 v86;
  u32* v87;
  u64* v88;
  u64 v89;
  u1 v90;
  u32* v91;
  fnptr_t** v92;
  fnptr_t* v93;
  fnptr_t* v94;
  fnptr_t v95;
  fnptr_t* v96;
  fnptr_t* v97;
  fnptr_t v98;
  u8 v99;
  u1 v100;
  u32 v101;
  u32 v102;
  u32 v103;
  u32 v104;
  u32 v105; u32 v105_t;
  u1 v106;
  u8** v107;
  u8* v108;
  u8* v109;
  u1 v110;
  u8* v111;
L0: ;
  v0 = &v0_m;
  v1 = (u8*)v0;
  v2 = (struct S10_class_std___Rb_tree**)(&(*v0).f0);
  *v2 = a0;
  v3 = (u8*)((((u64)80ULL) % sizeof(struct S12_struct_std___Rb_tree_node) == 0) ? __CPROVER_allocate(sizeof(struct S12_struct_std___Rb_tree_node) * (((u64)80ULL) / sizeof(struct S12_struct_std___Rb_tree_node)), 0) : __CPROVER_allocate(((u64)80ULL), 0));
  v_alloc_note((u8*)v3);
  v4 = (struct S12_struct_std___Rb_tree_node*)v3;
  v5 = (struct S64_struct___gnu_cxx____aligned_membuf*)(&(*v4).f1);
  v6 = (u64*)a3;
  v7 = *v6;
  v8 = (struct S27_class_std____cxx11__basic_string*)(u64)v7;
  v9 = (u8*)(&(*v4).f1.f0.e[(s64)((s64)((u64)16ULL))]);
  v10 = (u8**)v5;
  *v10 = v9;
  v11 = (u8**)(&(*v8).f0.f0);
  v12 = *v11;
  v13 = (struct S66_union_anon*)(&(*v8).f2);
  v14 = (u8*)v13;
  v15 = ((u8*)v12 == (u8*)v14);
  if (v15) {
    goto L1;
  } else {
    goto L3;
  }
L1: ;
  v16 = (u64*)(&(*v8).f1);
  v17 = *v16;
  v18 = ((u64)(v17 + ((u64)1ULL)));
  v19 = (v18 == ((u64)0ULL));
  if (v19) {
    goto L4;
  } else {
    goto L2;
  }
L2: ;
  v_memcpy((u8*)v9, (u8*)v14, (u64)v18);
  goto L4;
L3: ;
  *v10 = v12;
  v20 = (u64*)(&(*v8).f2.f0.e[0]);
  v21 = *v20;
  v22 = (u64*)v9;
  (*v4).f1.f0.e[16] = (u8)(v21 >> 0);
  (*v4).f1.f0.e[17] = (u8)(v21 >> 8);
  (*v4).f1.f0.e[18] = (u8)(v21 >> 16);
  (*v4).f1.f0.e[19] = (u8)(v21 >> 24);
  (*v4).f1.f0.e[20] = (u8)(v21 >> 32);
  (*v4).f1.f0.e[21] = (u8)(v21 >> 40);
  (*v4).f1.f0.e[22] = (u8)(v21 >> 48);
  (*v4).f1.f0.e[23] = (u8)(v21 >> 56);
  goto L4;
L4: ;
  v23 = (struct S12_struct_std___Rb_tree_node**)(&(*v0).f1);
  v24 = (u64*)(&(*v8).f1);
  v25 = *v24;
  v26 = (u8*)(&(*v4).f1.f0.e[(s64)((s64)((u64)8ULL))]);
  v27 = (u64*)v26;
  (*v4).f1.f0.e[8] = (u8)(v25 >> 0);
  (*v4).f1.f0.e[9] = (u8)(v25 >> 8);
  (*v4).f1.f0.e[10] = (u8)(v25 >> 16);
  (*v4).f1.f0.e[11] = (u8)(v25 >> 24);
  (*v4).f1.f0.e[12] = (u8)(v25 >> 32);
  (*v4).f1.f0.e[13] = (u8)(v25 >> 40);
  (*v4).f1.f0.e[14] = (u8)(v25 >> 48);
  (*v4).f1.f0.e[15] = (u8)(v25 >> 56);
  v28 = (struct S66_union_anon**)(u64)v7;
  *v28 = v13;
  *v24 = ((u64)0ULL);
  *v14 = ((u8)0ULL);
  v29 = (u8*)(&(*v4).f1.f0.e[(s64)((s64)((u64)32ULL))]);
  (*v4).f1.f0.e[32] = ((u8)0ULL);
  (*v4).f1.f0.e[33] = ((u8)0ULL);
  (*v4).f1.f0.e[34] = ((u8)0ULL);
  (*v4).f1.f0.e[35] = ((u8)0ULL);
  (*v4).f1.f0.e[36] = ((u8)0ULL);
  (*v4).f1.f0.e[37] = ((u8)0ULL);
  (*v4).f1.f0.e[38] = ((u8)0ULL);
  (*v4).f1.f0.e[39] = ((u8)0ULL);
  (*v4).f1.f0.e[40] = ((u8)0ULL);
  (*v4).f1.f0.e[41] = ((u8)0ULL);
  (*v4).f1.f0.e[42] = ((u8)0ULL);
  (*v4).f1.f0.e[43] = ((u8)0ULL);
  (*v4).f1.f0.e[44] = ((u8)0ULL);
  (*v4).f1.f0.e[45] = ((u8)0ULL);
  (*v4).f1.f0.e[46] = ((u8)0ULL);
  (*v4).f1.f0.e[47] = ((u8)0ULL);
  v30 = (u8**)&(*v0).f1;
  *v30 = v3;
  v31 = (struct S12_struct_std___Rb_tree_node*)v3;
  v32 = (struct S64_struct___gnu_cxx____aligned_membuf*)(&(*v31).f1);
  v33 = (struct S27_class_std____cxx11__basic_string*)v32;
  v34 = _ZNSt8_Rb_treeINSt7__cxx1112basic_stringIcSt11char_traitsIcESaIcEEESt4pairIKS5_St10shared_ptrIN14OpenVolumeMesh2IO19PropertyEncoderBaseEEESt10_Select1stISD_ESt4lessIS5_ESaISD_EE29_M_get_insert_hint_unique_posESt23_Rb_tree_const_iteratorISD_ERS7_(a0, a1, v33);
  if (v_exc) {
    goto L13;
  }
  goto L5;
L5: ;
  v35 = v34.f0;
  v36 = v34.f1;
  v37 = ((u8*)v36 == (u8*)((struct S11_struct_std___Rb_tree_node_base*)0));
  if (v37) {
    v79 = v35;
    goto L14;
  } else {
    goto L6;
  }
L6: ;
  v38 = *v2;
  v39 = *v23;
  v40 = ((u8*)v35 != (u8*)((struct S11_struct_std___Rb_tree_node_base*)0));
  v41 = (u8*)(&(*v38).f0.f0.f0.f0);
  v42 = (u8*)&(*v38).f0.f1.f0.f0;
  v43 = (struct S11_struct_std___Rb_tree_node_base*)&(*v38).f0.f1.f0;
  v44 = ((u8*)v36 == (u8*)v43);
  v45 = (v40 ? ((u1)1ULL) : v44);
  if (v45) {
    v72 = ((u1)1ULL);
    goto L12;
  } else {
    goto L7;
  }
L7: ;
  v46 = (u8*)(&(*v39).f1.f0.e[(s64)((s64)((u64)8ULL))]);
  v47 = (u64*)v46;
  v48 = (((u64)(*v39).f1.f0.e[8] << 0) | ((u64)(*v39).f1.f0.e[9] << 8) | ((u64)(*v39).f1.f0.e[10] << 16) | ((u64)(*v39).f1.f0.e[11] << 24) | ((u64)(*v39).f1.f0.e[12] << 32) | ((u64)(*v39).f1.f0.e[13] << 40) | ((u64)(*v39).f1.f0.e[14] << 48) | ((u64)(*v39).f1.f0.e[15] << 56));
  v49 = (struct S11_struct_std___Rb_tree_node_base**)(&(v36)[(s64)((s64)((u64)1ULL))].f1);
  v50 = (u64*)v49;
  v51 = *v50;
  v52 = (v48 > v51);
  v53 = (v52 ? v51 : v48);
  v54 = (v53 == ((u64)0ULL));
  if (v54) {
    v62 = ((u32)0ULL);
    goto L9;
  } else {
    goto L8;
  }
L8: ;
  v55 = (struct S11_struct_std___Rb_tree_node_base*)(v36 + (s64)((s64)((u64)1ULL)));
  v56 = (struct S64_struct___gnu_cxx____aligned_membuf*)(&(*v39).f1);
  v57 = (u8**)v55;
  v58 = *v57;
  v59 = (u8**)v56;
  v60 = *v59;
  v61 = memcmp(v60, v58, v53);
  v62 = v61;
  goto L9;
L9: ;
  v63 = (v62 == ((u32)0ULL));
  if (v63) {
    goto L10;
  } else {
    v70 = v62;
    goto L11;
  }
L10: ;
  v64 = ((u64)(v48 - v51));
  v65 = (((s64)v64) > ((s64)((u64)18446744071562067968ULL)));
  v66 = (v65 ? v64 : ((u64)18446744071562067968ULL));
  v67 = (((s64)v66) < ((s64)((u64)2147483647ULL)));
  v68 = (v67 ? v66 : ((u64)2147483647ULL));
  v69 = ((u32)(v68));
  v70 = v69;
  goto L11;
L11: ;
  v71 = (((s32)v70) < ((s32)((u32)0ULL)));
  v72 = v71;
  goto L12;
L12: ;
  v73 = (struct S11_struct_std___Rb_tree_node_base*)(&(*v39).f0);
  _ZSt29_Rb_tree_insert_and_rebalancebPSt18_Rb_tree_node_baseS0_RS_(v72, v73, v36, v43);
  v74 = (u8*)&(*v38).f0.f1.f1;
  v75 = (u64*)&(*v38).f0.f1.f1;
  v76 = *v75;
  v77 = ((u64)(v76 + ((u64)1ULL)));
  *v75 = v77;
  *v23 = ((struct S12_struct_std___Rb_tree_node*)0);
  v79 = v73;
  goto L14;
L13: ;
  v78.f0 = v_exc_obj;
  v78.f1 = 0;
  v_exc = 0;
  _ZNSt8_Rb_treeINSt7__cxx1112basic_stringIcSt11char_traitsIcESaIcEEESt4pairIKS5_St10shared_ptrIN14OpenVolumeMesh2IO19PropertyEncoderBaseEEESt10_Select1stISD_ESt4lessIS5_ESaISD_EE10_Auto_nodeD2Ev(v0);
  v_exc = 1; return (struct S11_struct_std___Rb_tree_node_base*)0;
L14: ;
  v80 = *v23;
  v81 = ((u8*)v80 == (u8*)((struct S12_struct_std___Rb_tree_node*)0));
  if (v81) {
    goto L26;
  } else {
    goto L15;
  }
L15: ;
  v82 = (struct S64_struct___gnu_cxx____aligned_membuf*)(&(*v80).f1);
  v83 = (u8*)(&(*v80).f1.f0.e[(s64)((s64)((u64)40ULL))]);
  v84 = (struct S13_class_std___Sp_counted_base**)v83;
  v85 = *v84;
  v86 = ((u8*)v85 == (u8*)((struct S13_class_std___Sp_counted_base*)0));
  if (v86) {
    goto L23;
  } else {
    goto L16;
  }
L16: ;
  v87 = (u32*)(&(*v85).f1);
  v88 = (u64*)v87;
  v89 = (((u64)(*v85).f1 << 0) | ((u64)(*v85).f2 << 32));
  v90 = (v89 == ((u64)4294967297ULL));
  if (v90) {
    goto L17;
  } else {
    goto L18;
  }
L17: ;
  *v87 = ((u32)0ULL);
  v91 = (u32*)(&(*v85).f2);
  *v91 = ((u32)0ULL);
  v92 = (fnptr_t**)&(*v85).f0;
  v93 = *v92;
  v94 = (fnptr_t*)(v93 + (s64)((s64)((u64)2ULL)));
  v95 = *v94;
  ((FT0)v95)(v85);
  v96 = *v92;
  v97 = (fnptr_t*)(v96 + (s64)((s64)((u64)3ULL)));
  v98 = *v97;
  ((FT0)v98)(v85);
  goto L23;
L18: ;
  v99 = *(&__libc_single_threaded);
  v100 = (v99 == ((u8)0ULL));
  if (v100) {
    goto L20;
  } else {
    goto L19;
  }
L19: ;
  v101 = *v87;
  v102 = ((u32)(v101 + ((u32)4294967295ULL)));
  *v87 = v102;
  v105 = v101;
  goto L21;
L20: ;
  v103 = *v87;
  v104 = ((u32)(v103 + ((u32)4294967295ULL)));
  *v87 = v104;
  v105 = v103;
  goto L21;
L21: ;
  v106 = (v105 == ((u32)1ULL));
  if (v106) {
    goto L22;
  } else {
    goto L23;
  }
L22: ;
  _ZNSt16_Sp_counted_baseILN9__gnu_cxx12_Lock_policyE2EE24_M_release_last_use_coldEv(v85);
  goto L23;
L23: ;
  v107 = (u8**)v82;
  v108 = *v107;
  v109 = (u8*)(&(*v80).f1.f0.e[(s64)((s64)((u64)16ULL))]);
  v110 = ((u8*)v108 == (u8*)v109);
  if (v110) {
    goto L25;
  } else {
    goto L24;
  }
L24: ;
  _ZdlPv(v108);
  goto L25;
L25: ;
  v111 = (u8*)v80;
  _ZdlPv(v111);
  goto L26;
L26: ;
  return v79;
}

struct S30 _ZNSt8_Rb_treeINSt7__cxx1112basic_stringIcSt11char_traitsIcESaIcEEESt4pairIKS5_St10shared_ptrIN14OpenVolumeMesh2IO19PropertyEncoderBaseEEESt10_Select1stISD_ESt4lessIS5_ESaISD_EE29_M_get_insert_hint_unique_posESt23_Rb_tree_const_iteratorISD_ERS7_(struct S10_class_std___Rb_tree* a0, struct S11_struct_std___Rb_tree_node_base* a1, struct S27_class_std____cxx11__basic_string* a2) {
  u8* v0;
  u8* v1;
  struct S11_struct_std___Rb_tree_node_base* v2;
  u1 v3;
  u8* v4;
  u64* v5;
  u64 v6;
  u1 v7;
  u8* v8;
  struct S11_struct_std___Rb_tree_node_base** v9;
  struct S11_struct_std___Rb_tree_node_base* v10;
  struct S11_struct_std___Rb_tree_node_base** v11;
  u64* v12;
  u64 v13;
  u64* v14;
  u64 v15;
  u1 v16;
  u64 v17;
  u1 v18;
  struct S11_struct_std___Rb_tree_node_base* v19;
  u8** v20;
  u8* v21;
  u8** v22;
  u8* v23;
  u32 v24;
  u32 v25; u32 v25_t;
  u1 v26;
  u64 v27;
  u1 v28;
  u64 v29;
  u1 v30;
  u64 v31;
  u32 v32;
  u32 v33; u32 v33_t;
  u1 v34;
  struct S30 v35;
  struct S11_struct_std___Rb_tree_node_base* v36;
  struct S11_struct_std___Rb_tree_node_base* v37;
  struct S11_struct_std___Rb_tree_node_base* v38;
  u64* v39;
  u64 v40;
  struct S11_struct_std___Rb_tree_node_base** v41;
  u64* v42;
  u64 v43;
  u1 v44;
  u64 v45;
  u1 v46;
  u8** v47;
  u8* v48;
  u8** v49;
  u8* v50;
  u32 v51;
  u32 v52; u32 v52_t;
  u1 v53;
  u64 v54;
  u1 v55;
  u64 v56;
  u1 v57;
  u64 v58;
  u32 v59;
  u32 v60; u32 v60_t;
  u1 v61;
  u8* v62;
  struct S11_struct_std___Rb_tree_node_base** v63;
  struct S11_struct_std___Rb_tree_node_base* v64;
  u1 v65;
  struct S11_struct_std___Rb_tree_node_base* v66;
  struct S11_struct_std___Rb_tree_node_base** v67;
  u64* v68;
  u64 v69;
  u1 v70;
  u64 v71;
  u1 v72;
  struct S11_struct_std___Rb_tree_node_base* v73;
  u8** v74;
  u8* v75;
  u8** v76;
  u8* v77;
  u32 v78;
  u32 v79; u32 v79_t;
  u1 v80;
  u64 v81;
  u1 v82;
  u64 v83;
  u1 v84;
  u64 v85;
  u32 v86;
  u32 v87; u32 v87_t;
  u1 v88;
  struct S11_struct_std___Rb_tree_node_base** v89;
  struct S12_struct_std___Rb_tree_node** v90;
  struct S12_struct_std___Rb_tree_node* v91;
  u1 v92;
  struct S11_struct_std___Rb_tree_node_base* v93;
  struct S11_struct_std___Rb_tree_node_base* v94;
  struct S30 v95;
  struct S11_struct_std___Rb_tree_node_base* v96;
  struct S11_struct_std___Rb_tree_node_base* v97;
  u8** v98;
  u8* v99;
  u8** v100;
  u8* v101;
  u32 v102;
  u32 v103; u32 v103_t;
  u1 v104;
  u64 v105;
  u1 v106;
  u64 v107;
  u1 v108;
  u64 v109;
  u32 v110;
  u32 v111; u32 v111_t;
  u1 v112;
  u8* v113;
  struct S11_struct_std___Rb_tree_node_base** v114;
  struct S11_struct_std___Rb_tree_node_base* v115;
  u1 v116;
  struct S11_struct_std___Rb_tree_node_base* v117;
  struct S11_struct_std___Rb_tree_node_base** v118;
  u64* v119;
  u64 v120;
  u1 v121;
  u64 v122;
  u1 v123;
  struct S11_struct_std___Rb_tree_node_base* v124;
  u8** v125;
  u8* v126;
  u8** v127;
  u8* v128;
  u32 v129;
  u32 v130; u32 v130_t;
  u1 v131;
  u64 v132;
  u1 v133;
  u64 v134;
  u1 v135;
  u64 v136;
  u32 v137;
  u32 v138; u32 v138_t;
  u1 v139;
  struct S11_struct_std___Rb_tree_node_base** v140;
  struct S12_struct_std___Rb_tree_node** v141;
  struct S12_struct_std___Rb_tree_node* v142;
  u1 v143;
  struct S11_struct_std___Rb_tree_node_base* v144;
  struct S11_struct_std___Rb_tree_node_base* v145;
  struct S30 v146;
  struct S11_struct_std___Rb_tree_node_base* v147;
  struct S11_struct_std___Rb_tree_node_base* v148;
  struct S11_struct_std___Rb_tree_node_base* v149; struct S11_struct_std___Rb_tree_node_base* v149_t;
  struct S11_struct_std___Rb_tree_node_base* v150; struct S11_struct_std___Rb_tree_node_base* v150_t;
  struct S30 v151;
  struct S30 v152;
L0: ;
  v0 = (u8*)(&(*a0).f0.f0.f0.f0);
  v1 = (u8*)&(*a0).f0.f1.f0.f0;
  v2 = (struct S11_struct_std___Rb_tree_node_base*)&(*a0).f0.f1.f0;
  v3 = ((u8*)v2 == (u8*)a1);
  if (v3) {
    goto L1;
  } else {
    goto L8;
  }
L1: ;
  v4 = (u8*)&(*a0).f0.f1.f1;
  v5 = (u64*)&(*a0).f0.f1.f1;
  v6 = *v5;
  v7 = (v6 == ((u64)0ULL));
  if (v7) {
    goto L7;
  } else {
    goto L2;
  }
L2: ;
  v8 = (u8*)&(*a0).f0.f1.f0.f3;
  v9 = (struct S11_struct_std___Rb_tree_node_base**)&(*a0).f0.f1.f0.f3;
  v10 = *v9;
  v11 = (struct S11_struct_std___Rb_tree_node_base**)(&(v10)[(s64)((s64)((u64)1ULL))].f1);
  v12 = (u64*)v11;
  v13 = *v12;
  v14 = (u64*)(&(*a2).f1);
  v15 = *v14;
  v16 = (v13 > v15);
  v17 = (v16 ? v15 : v13);
  v18 = (v17 == ((u64)0ULL));
  if (v18) {
    v25 = ((u32)0ULL);
    goto L4;
  } else {
    goto L3;
  }
L3: ;
  v19 = (struct S11_struct_std___Rb_tree_node_base*)(v10 + (s64)((s64)((u64)1ULL)));
  v20 = (u8**)(&(*a2).f0.f0);
  v21 = *v20;
  v22 = (u8**)v19;
  v23 = *v22;
  v24 = memcmp(v23, v21, v17);
  v25 = v24;
  goto L4;
L4: ;
  v26 = (v25 == ((u32)0ULL));
  if (v26) {
    goto L5;
  } else {
    v33 = v25;
    goto L6;
  }
L5: ;
  v27 = ((u64)(v13 - v15));
  v28 = (((s64)v27) > ((s64)((u64)18446744071562067968ULL)));
  v29 = (v28 ? v27 : ((u64)18446744071562067968ULL));
  v30 = (((s64)v29) < ((s64)((u64)2147483647ULL)));
  v31 = (v30 ? v29 : ((u64)2147483647ULL));
  v32 = ((u32)(v31));
  v33 = v32;
  goto L6;
L6: ;
  v34 = (((s32)v33) < ((s32)((u32)0ULL)));
  if (v34) {
    v149_t = ((struct S11_struct_std___Rb_tree_node_base*)0);
    v150_t = v10;
    v149 = v149_t;
    v150 = v150_t;
    goto L34;
  } else {
    goto L7;
  }
L7: ;
  v35 = _ZNSt8_Rb_treeINSt7__cxx1112basic_stringIcSt11char_traitsIcESaIcEEESt4pairIKS5_St10shared_ptrIN14OpenVolumeMesh2IO19PropertyEncoderBaseEEESt10_Select1stISD_ESt4lessIS5_ESaISD_EE24_M_get_insert_unique_posERS7_(a0, a2);
  if (v_exc) { struct S30 _d = {0}; return _d; }
  v36 = v35.f0;
  v37 = v35.f1;
  v149_t = v36;
  v150_t = v37;
  v149 = v149_t;
  v150 = v150_t;
  goto L34;
L8: ;
  v38 = (struct S11_struct_std___Rb_tree_node_base*)(a1 + (s64)((s64)((u64)1ULL)));
  v39 = (u64*)(&(*a2).f1);
  v40 = *v39;
  v41 = (struct S11_struct_std___Rb_tree_node_base**)(&(a1)[(s64)((s64)((u64)1ULL))].f1);
  v42 = (u64*)v41;
  v43 = *v42;
  v44 = (v40 > v43);
  v45 = (v44 ? v43 : v40);
  v46 = (v45 == ((u64)0ULL));
  if (v46) {
    v52 = ((u32)0ULL);
    goto L10;
  } else {
    goto L9;
  }
L9: ;
  v47 = (u8**)v38;
  v48 = *v47;
  v49 = (u8**)(&(*a2).f0.f0);
  v50 = *v49;
  v51 = memcmp(v50, v48, v45);
  v52 = v51;
  goto L10;
L10: ;
  v53 = (v52 == ((u32)0ULL));
  if (v53) {
    goto L11;
  } else {
    v60 = v52;
    goto L12;
  }
L11: ;
  v54 = ((u64)(v40 - v43));
  v55 = (((s64)v54) > ((s64)((u64)18446744071562067968ULL)));
  v56 = (v55 ? v54 : ((u64)18446744071562067968ULL));
  v57 = (((s64)v56) < ((s64)((u64)2147483647ULL)));
  v58 = (v57 ? v56 : ((u64)2147483647ULL));
  v59 = ((u32)(v58));
  v60 = v59;
  goto L12;
L12: ;
  v61 = (((s32)v60) < ((s32)((u32)0ULL)));
  if (v61) {
    goto L13;
  } else {
    goto L21;
  }
L13: ;
  v62 = (u8*)&(*a0).f0.f1.f0.f2;
  v63 = (struct S11_struct_std___Rb_tree_node_base**)&(*a0).f0.f1.f0.f2;
  v64 = *v63;
  v65 = ((u8*)v64 == (u8*)a1);
  if (v65) {
    v149_t = v64;
    v150_t = v64;
    v149 = v149_t;
    v150 = v150_t;
    goto L34;
  } else {
    goto L14;
  }
L14: ;
  v66 = _ZSt18_Rb_tree_decrementPSt18_Rb_tree_node_base(a1);
  v67 = (struct S11_struct_std___Rb_tree_node_base**)(&(v66)[(s64)((s64)((u64)1ULL))].f1);
  v68 = (u64*)v67;
  v69 = *v68;
  v70 = (v69 > v40);
  v71 = (v70 ? v40 : v69);
  v72 = (v71 == ((u64)0ULL));
  if (v72) {
    v79 = ((u32)0ULL);
    goto L16;
  } else {
    goto L15;
  }
L15: ;
  v73 = (struct S11_struct_std___Rb_tree_node_base*)(v66 + (s64)((s64)((u64)1ULL)));
  v74 = (u8**)(&(*a2).f0.f0);
  v75 = *v74;
  v76 = (u8**)v73;
  v77 = *v76;
  v78 = memcmp(v77, v75, v71);
  v79 = v78;
  goto L16;
L16: ;
  v80 = (v79 == ((u32)0ULL));
  if (v80) {
    goto L17;
  } else {
    v87 = v79;
    goto L18;
  }
L17: ;
  v81 = ((u64)(v69 - v40));
  v82 = (((s64)v81) > ((s64)((u64)18446744071562067968ULL)));
  v83 = (v82 ? v81 : ((u64)18446744071562067968ULL));
  v84 = (((s64)v83) < ((s64)((u64)2147483647ULL)));
  v85 = (v84 ? v83 : ((u64)2147483647ULL));
  v86 = ((u32)(v85));
  v87 = v86;
  goto L18;
L18: ;
  v88 = (((s32)v87) < ((s32)((u32)0ULL)));
  if (v88) {
    goto L19;
  } else {
    goto L20;
  }
L19: ;
  v89 = (struct S11_struct_std___Rb_tree_node_base**)(&(*v66).f3);
  v90 = (struct S12_struct_std___Rb_tree_node**)&(*v66).f3;
  v91 = *v90;
  v92 = ((u8*)v91 == (u8*)((struct S12_struct_std___Rb_tree_node*)0));
  v93 = (v92 ? ((struct S11_struct_std___Rb_tree_node_base*)0) : a1);
  v94 = (v92 ? v66 : a1);
  v149_t = v93;
  v150_t = v94;
  v149 = v149_t;
  v150 = v150_t;
  goto L34;
L20: ;
  v95 = _ZNSt8_Rb_treeINSt7__cxx1112basic_stringIcSt11char_traitsIcESaIcEEESt4pairIKS5_St10shared_ptrIN14OpenVolumeMesh2IO19PropertyEncoderBaseEEESt10_Select1stISD_ESt4lessIS5_ESaISD_EE24_M_get_insert_unique_posERS7_(a0, a2);
  if (v_exc) { struct S30 _d = {0}; return _d; }
  v96 = v95.f0;
  v97 = v95.f1;
  v149_t = v96;
  v150_t = v97;
  v149 = v149_t;
  v150 = v150_t;
  goto L34;
L21: ;
  if (v46) {
    v103 = ((u32)0ULL);
    goto L23;
  } else {
    goto L22;
  }
L22: ;
  v98 = (u8**)(&(*a2).f0.f0);
  v99 = *v98;
  v100 = (u8**)v38;
  v101 = *v100;
  v102 = memcmp(v101, v99, v45);
  v103 = v102;
  goto L23;
L23: ;
  v104 = (v103 == ((u32)0ULL));
  if (v104) {
    goto L24;
  } else {
    v111 = v103;
    goto L25;
  }
L24: ;
  v105 = ((u64)(v43 - v40));
  v106 = (((s64)v105) > ((s64)((u64)18446744071562067968ULL)));
  v107 = (v106 ? v105 : ((u64)18446744071562067968ULL));
  v108 = (((s64)v107) < ((s64)((u64)2147483647ULL)));
  v109 = (v108 ? v107 : ((u64)2147483647ULL));
  v110 = ((u32)(v109));
  v111 = v110;
  goto L25;
L25: ;
  v112 = (((s32)v111) < ((s32)((u32)0ULL)));
  if (v112) {
    goto L26;
  } else {
    v149_t = a1;
    v150_t = ((struct S11_struct_std___Rb_tree_node_base*)0);
    v149 = v149_t;
    v150 = v150_t;
    goto L34;
  }
L26: ;
  v113 = (u8*)&(*a0).f0.f1.f0.f3;
  v114 = (struct S11_struct_std___Rb_tree_node_base**)&(*a0).f0.f1.f0.f3;
  v115 = *v114;
  v116 = ((u8*)v115 == (u8*)a1);
  if (v116) {
    v149_t = ((struct S11_struct_std___Rb_tree_node_base*)0);
    v150_t = v115;
    v149 = v149_t;
    v150 = v150_t;
    goto L34;
  } else {
    goto L27;
  }
L27: ;
  v117 = _ZSt18_Rb_tree_incrementPSt18_Rb_tree_node_base(a1);
  v118 = (struct S11_struct_std___Rb_tree_node_base**)(&(v117)[(s64)((s64)((u64)1ULL))].f1);
  v119 = (u64*)v118;
  v120 = *v119;
  v121 = (v40 > v120);
  v122 = (v121 ? v120 : v40);
  v123 = (v122 == ((u64)0ULL));
  if (v123) {
    v130 = ((u32)0ULL);
    goto L29;
  } else {
    goto L28;
  }
L28: ;
  v124 = (struct S11_struct_std___Rb_tree_node_base*)(v117 + (s64)((s64)((u64)1ULL)));
  v125 = (u8**)v124;
  v126 = *v125;
  v127 = (u8**)(&(*a2).f0.f0);
  v128 = *v127;
  v129 = memcmp(v128, v126, v122);
  v130 = v129;
  goto L29;
L29: ;
  v131 = (v130 == ((u32)0ULL));
  if (v131) {
    goto L30;
  } else {
    v138 = v130;
    goto L31;
  }
L30: ;
  v132 = ((u64)(v40 - v120));
  v133 = (((s64)v132) > ((s64)((u64)18446744071562067968ULL)));
  v134 = (v133 ? v132 : ((u64)18446744071562067968ULL));
  v135 = (((s64)v134) < ((s64)((u64)2147483647ULL)));
  v136 = (v135 ? v134 : ((u64)2147483647ULL));
  v137 = ((u32)(v136));
  v138 = v137;
  goto L31;
L31: ;
  v139 = (((s32)v138) < ((s32)((u32)0ULL)));
  if (v139) {
    goto L32;
  } else {
    goto L33;
  }
L32: ;
  v140 = (struct S11_struct_std___Rb_tree_node_base**)(&(*a1).f3);
  v141 = (struct S12_struct_std___Rb_tree_node**)&(*a1).f3;
  v142 = *v141;
  v143 = ((u8*)v142 == (u8*)((struct S12_struct_std___Rb_tree_node*)0));
  v144 = (v143 ? ((struct S11_struct_std___Rb_tree_node_base*)0) : v117);
  v145 = (v143 ? a1 : v117);
  v149_t = v144;
  v150_t = v145;
  v149 = v149_t;
  v150 = v150_t;
  goto L34;
L33: ;
  v146 = _ZNSt8_Rb_treeINSt7__cxx1112basic_stringIcSt11char_traitsIcESaIcEEESt4pairIKS5_St10shared_ptrIN14OpenVolumeMesh2IO19PropertyEncoderBaseEEESt10_Select1stISD_ESt4lessIS5_ESaISD_EE24_M_get_insert_unique_posERS7_(a0, a2);
  if (v_exc) { struct S30 _d = {0}; return _d; }
  v147 = v146.f0;
  v148 = v146.f1;
  v149_t = v147;
  v150_t = v148;
  v149 = v149_t;
  v150 = v150_t;
  goto L34;
L34: ;
  v151.f0 = v149;
  v152 = v151;
  v152.f1 = v150;
  return v152;
}

void _ZNSt8_Rb_treeINSt7__cxx1112basic_stringIcSt11char_traitsIcESaIcEEESt4pairIKS5_St10shared_ptrIN14OpenVolumeMesh2IO19PropertyEncoderBaseEEESt10_Select1stISD_ESt4lessIS5_ESaISD_EE10_Auto_nodeD2Ev(struct S31_struct_std___Rb_tree_std____cxx11__basic* a0) {
  struct S12_struct_std___Rb_tree_node** v0;
  struct S12_struct_std___Rb_tree_node* v1;
  u1 v2;
  struct S64_struct___gnu_cxx____aligned_membuf* v3;
  u8* v4;
  struct S13_class_std___Sp_counted_base** v5;
  struct S13_class_std___Sp_counted_base* v6;
  u1 v7;
  u32* v8;
  u64* v9;
  u64 v10;
  u1 v11;
  u32* v12;
  fnptr_t** v13;
  fnptr_t* v14;
  fnptr_t* v15;
  fnptr_t v16;
  fnptr_t* v17;
  fnptr_t* v18;
  fnptr_t v19;
  u8 v20;
  u1 v21;
  u32 v22;
  u32 v23;
  u32 v24;
  u32 v25;
  u32 v26; u32 v26_t;
  u1 v27;
  u8** v28;
  u8* v29;
  u8* v30;
  u1 v31;
  u8* v32;
L0: ;
  v0 = (struct S12_struct_std___Rb_tree_node**)(&(*a0).f1);
  v1 = *v0;
  v2 = ((u8*)v1 == (u8*)((struct S12_struct_std___Rb_tree_node*)0));
  if (v2) {
    goto L12;
  } else {
    goto L1;
  }
L1: ;
  v3 = (struct S64_struct___gnu_cxx____aligned_membuf*)(&(*v1).f1);
  v4 = (u8*)(&(*v1).f1.f0.e[(s64)((s64)((u64)40ULL))]);
  v5 = (struct S13_class_std___Sp_counted_base**)v4;
  v6 = *v5;
  v7 = ((u8*)v6 == (u8*)((struct S13_class_std___Sp_counted_base*)0));
  if (v7) {
    goto L9;
  } else {
    goto L2;
  }
L2: ;
  v8 = (u32*)(&(*v6).f1);
  v9 = (u64*)v8;
  v10 = (((u64)(*v6).f1 << 0) | ((u64)(*v6).f2 << 32));
  v11 = (v10 == ((u64)4294967297ULL));
  if (v11) {
    goto L3;
  } else {
    goto L4;
  }
L3: ;
  *v8 = ((u32)0ULL);
  v12 = (u32*)(&(*v6).f2);
  *v12 = ((u32)0ULL);
  v13 = (fnptr_t**)&(*v6).f0;
  v14 = *v13;
  v15 = (fnptr_t*)(v14 + (s64)((s64)((u64)2ULL)));
  v16 = *v15;
  ((FT0)v16)(v6);
  v17 = *v13;
  v18 = (fnptr_t*)(v17 + (s64)((s64)((u64)3ULL)));
  v19 = *v18;
  ((FT0)v19)(v6);
  goto L9;
L4: ;
  v20 = *(&__libc_single_threaded);
  v21 = (v20 == ((u8)0ULL));
  if (v21) {
    goto L6;
  } else {
    goto L5;
  }
L5: ;
  v22 = *v8;
  v23 = ((u32)(v22 + ((u32)4294967295ULL)));
  *v8 = v23;
  v26 = v22;
  goto L7;
L6: ;
  v24 = *v8;
  v25 = ((u32)(v24 + ((u32)4294967295ULL)));
  *v8 = v25;
  v26 = v24;
  goto L7;
L7: ;
  v27 = (v26 == ((u32)1ULL));
  if (v27) {
    goto L8;
  } else {
    goto L9;
  }
L8: ;
  _ZNSt16_Sp_counted_baseILN9__gnu_cxx12_Lock_policyE2EE24_M_release_last_use_coldEv(v6);
  goto L9;
L9: ;
  v28 = (u8**)v3;
  v29 = *v28;
  v30 = (u8*)(&(*v1).f1.f0.e[(s64)((s64)((u64)16ULL))]);
  v31 = ((u8*)v29 == (u8*)v30);
  if (v31) {
    goto L11;
  } else {
    goto L10;
  }
L10: ;
  _ZdlPv(v29);
  goto L11;
L11: ;
  v32 = (u8*)v1;
  _ZdlPv(v32);
  goto L12;
L12: ;
  return;
}

struct S30 _ZNSt8_Rb_treeINSt7__cxx1112basic_stringIcSt11char_traitsIcESaIcEEESt4pairIKS5_St10shared_ptrIN14OpenVolumeMesh2IO19PropertyEncoderBaseEEESt10_Select1stISD_ESt4lessIS5_ESaISD_EE24_M_get_insert_unique_posERS7_(struct S10_class_std___Rb_tree* a0, struct S27_class_std____cxx11__basic_string* a1) {
  u8* v0;
  u8* v1;
  struct S12_struct_std___Rb_tree_node** v2;
  u8* v3;
  struct S11_struct_std___Rb_tree_node_base* v4;
  struct S12_struct_std___Rb_tree_node* v5;
  u1 v6;
  u64* v7;
  u64 v8;
  u8** v9;
  u8* v10;
  struct S12_struct_std___Rb_tree_node* v11; struct S12_struct_std___Rb_tree_node* v11_t;
  u8* v12;
  u64* v13;
  u64 v14;
  u1 v15;
  u64 v16;
  u1 v17;
  struct S64_struct___gnu_cxx____aligned_membuf* v18;
  u8** v19;
  u8* v20;
  u32 v21;
  u32 v22; u32 v22_t;
  u1 v23;
  u64 v24;
  u1 v25;
  u64 v26;
  u1 v27;
  u64 v28;
  u32 v29;
  u32 v30; u32 v30_t;
  u1 v31;
  struct S11_struct_std___Rb_tree_node_base** v32;
  struct S11_struct_std___Rb_tree_node_base** v33;
  struct S11_struct_std___Rb_tree_node_base** v34;
  struct S12_struct_std___Rb_tree_node** v35;
  struct S12_struct_std___Rb_tree_node* v36;
  u1 v37;
  struct S11_struct_std___Rb_tree_node_base* v38;
  struct S11_struct_std___Rb_tree_node_base* v39; struct S11_struct_std___Rb_tree_node_base* v39_t;
  u1 v40; u1 v40_t;
  struct S12_struct_std___Rb_tree_node* v41; struct S12_struct_std___Rb_tree_node* v41_t;
  u8* v42;
  struct S11_struct_std___Rb_tree_node_base** v43;
  struct S11_struct_std___Rb_tree_node_base* v44;
  u1 v45;
  struct S11_struct_std___Rb_tree_node_base* v46;
  struct S11_struct_std___Rb_tree_node_base* v47;
  struct S11_struct_std___Rb_tree_node_base* v48; struct S11_struct_std___Rb_tree_node_base* v48_t;
  struct S11_struct_std___Rb_tree_node_base** v49;
  u64* v50;
  u64 v51;
  u64* v52;
  u64 v53;
  u1 v54;
  u64 v55;
  u1 v56;
  struct S11_struct_std___Rb_tree_node_base* v57;
  u8** v58;
  u8* v59;
  u8** v60;
  u8* v61;
  u32 v62;
  u32 v63; u32 v63_t;
  u1 v64;
  u64 v65;
  u1 v66;
  u64 v67;
  u1 v68;
  u64 v69;
  u32 v70;
  u32 v71; u32 v71_t;
  u1 v72;
  struct S11_struct_std___Rb_tree_node_base* v73;
  struct S11_struct_std___Rb_tree_node_base* v74;
  struct S11_struct_std___Rb_tree_node_base* v75;
  struct S11_struct_std___Rb_tree_node_base* v76; struct S11_struct_std___Rb_tree_node_base* v76_t;
  struct S11_struct_std___Rb_tree_node_base* v77; struct S11_struct_std___Rb_tree_node_base* v77_t;
  struct S30 v78;
  struct S30 v79;
L0: ;
  v0 = (u8*)(&(*a0).f0.f0.f0.f0);
  v1 = (u8*)&(*a0).f0.f1.f0.f1;
  v2 = (struct S12_struct_std___Rb_tree_node**)&(*a0).f0.f1.f0.f1;
  v3 = (u8*)&(*a0).f0.f1.f0.f0;
  v4 = (struct S11_struct_std___Rb_tree_node_base*)&(*a0).f0.f1.f0;
  v5 = *v2;
  v6 = ((u8*)v5 == (u8*)((struct S12_struct_std___Rb_tree_node*)0));
  if (v6) {
    v39_t = v4;
    v40_t = ((u1)1ULL);
    v41_t = v5;
    v39 = v39_t;
    v40 = v40_t;
    v41 = v41_t;
    goto L8;
  } else {
    goto L1;
  }
L1: ;
  v7 = (u64*)(&(*a1).f1);
  v8 = *v7;
  v9 = (u8**)(&(*a1).f0.f0);
  v10 = *v9;
  v11 = v5;
  goto L2;
L2: ;
  v12 = (u8*)(&(*v11).f1.f0.e[(s64)((s64)((u64)8ULL))]);
  v13 = (u64*)v12;
  v14 = (((u64)(*v11).f1.f0.e[8] << 0) | ((u64)(*v11).f1.f0.e[9] << 8) | ((u64)(*v11).f1.f0.e[10] << 16) | ((u64)(*v11).f1.f0.e[11] << 24) | ((u64)(*v11).f1.f0.e[12] << 32) | ((u64)(*v11).f1.f0.e[13] << 40) | ((u64)(*v11).f1.f0.e[14] << 48) | ((u64)(*v11).f1.f0.e[15] << 56));
  v15 = (v8 > v14);
  v16 = (v15 ? v14 : v8);
  v17 = (v16 == ((u64)0ULL));
  if (v17) {
    v22 = ((u32)0ULL);
    goto L4;
  } else {
    goto L3;
  }
L3: ;
  v18 = (struct S64_struct___gnu_cxx____aligned_membuf*)(&(*v11).f1);
  v19 = (u8**)v18;
  v20 = *v19;
  v21 = memcmp(v10, v20, v16);
  v22 = v21;
  goto L4;
L4: ;
  v23 = (v22 == ((u32)0ULL));
  if (v23) {
    goto L5;
  } else {
    v30 = v22;
    goto L6;
  }
L5: ;
  v24 = ((u64)(v8 - v14));
  v25 = (((s64)v24) > ((s64)((u64)18446744071562067968ULL)));
  v26 = (v25 ? v24 : ((u64)18446744071562067968ULL));
  v27 = (((s64)v26) < ((s64)((u64)2147483647ULL)));
  v28 = (v27 ? v26 : ((u64)2147483647ULL));
  v29 = ((u32)(v28));
  v30 = v29;
  goto L6;
L6: ;
  v31 = (((s32)v30) < ((s32)((u32)0ULL)));
  v32 = (struct S11_struct_std___Rb_tree_node_base**)(&(*v11).f0.f2);
  v33 = (struct S11_struct_std___Rb_tree_node_base**)(&(*v11).f0.f3);
  v34 = (v31 ? v32 : v33);
  v35 = (struct S12_struct_std___Rb_tree_node**)v34;
  v36 = *v35;
  v37 = ((u8*)v36 == (u8*)((struct S12_struct_std___Rb_tree_node*)0));
  if (v37) {
    goto L7;
  } else {
    v11 = v36;
    goto L2;
  }
L7: ;
  v38 = (struct S11_struct_std___Rb_tree_node_base*)(&(*v11).f0);
  v39_t = v38;
  v40_t = v31;
  v41_t = v36;
  v39 = v39_t;
  v40 = v40_t;
  v41 = v41_t;
  goto L8;
L8: ;
  if (v40) {
    goto L9;
  } else {
    v48 = v39;
    goto L12;
  }
L9: ;
  v42 = (u8*)&(*a0).f0.f1.f0.f2;
  v43 = (struct S11_struct_std___Rb_tree_node_base**)&(*a0).f0.f1.f0.f2;
  v44 = *v43;
  v45 = ((u8*)v39 == (u8*)v44);
  if (v45) {
    goto L10;
  } else {
    goto L11;
  }
L10: ;
  v46 = (struct S11_struct_std___Rb_tree_node_base*)(&(*v41).f0);
  v76_t = v46;
  v77_t = v39;
  v76 = v76_t;
  v77 = v77_t;
  goto L17;
L11: ;
  v47 = _ZSt18_Rb_tree_decrementPSt18_Rb_tree_node_base(v39);
  v48 = v47;
  goto L12;
L12: ;
  v49 = (struct S11_struct_std___Rb_tree_node_base**)(&(v48)[(s64)((s64)((u64)1ULL))].f1);
  v50 = (u64*)v49;
  v51 = *v50;
  v52 = (u64*)(&(*a1).f1);
  v53 = *v52;
  v54 = (v51 > v53);
  v55 = (v54 ? v53 : v51);
  v56 = (v55 == ((u64)0ULL));
  if (v56) {
    v63 = ((u32)0ULL);
    goto L14;
  } else {
    goto L13;
  }
L13: ;
  v57 = (struct S11_struct_std___Rb_tree_node_base*)(v48 + (s64)((s64)((u64)1ULL)));
  v58 = (u8**)(&(*a1).f0.f0);
  v59 = *v58;
  v60 = (u8**)v57;
  v61 = *v60;
  v62 = memcmp(v61, v59, v55);
  v63 = v62;
  goto L14;
L14: ;
  v64 = (v63 == ((u32)0ULL));
  if (v64) {
    goto L15;
  } else {
    v71 = v63;
    goto L16;
  }
L15: ;
  v65 = ((u64)(v51 - v53));
  v66 = (((s64)v65) > ((s64)((u64)18446744071562067968ULL)));
  v67 = (v66 ? v65 : ((u64)18446744071562067968ULL));
  v68 = (((s64)v67) < ((s64)((u64)2147483647ULL)));
  v69 = (v68 ? v67 : ((u64)2147483647ULL));
  v70 = ((u32)(v69));
  v71 = v70;
  goto L16;
L16: ;
  v72 = (((s32)v71) < ((s32)((u32)0ULL)));
  v73 = (struct S11_struct_std___Rb_tree_node_base*)(&(*v41).f0);
  v74 = (v72 ? v73 : v48);
  v75 = (v72 ? v39 : ((struct S11_struct_std___Rb_tree_node_base*)0));
  v76_t = v74;
  v77_t = v75;
  v76 = v76_t;
  v77 = v77_t;
  goto L17;
L17: ;
  v78.f0 = v76;
  v79 = v78;
  v79.f1 = v77;
  return v79;
}

void _ZN14OpenVolumeMesh2IO19PropertyEncoderBaseD2Ev(struct S36_class_OpenVolumeMesh__IO__PropertyEncode* a0) {
  fnptr_t** v0;
  u8** v1;
  u8* v2;
  struct S66_union_anon* v3;
  u8* v4;
  u1 v5;
L0: ;
  v0 = (fnptr_t**)(&(*a0).f0);
  *v0 = ((fnptr_t*)((u8**)(&(*(&_ZTVN14OpenVolumeMesh2IO19PropertyEncoderBaseE)).f0.e[(s64)((s64)((u64)2ULL))])));
  v1 = (u8**)(&(*a0).f1.f0.f0);
  v2 = *v1;
  v3 = (struct S66_union_anon*)(&(*a0).f1.f2);
  v4 = (u8*)v3;
  v5 = ((u8*)v2 == (u8*)v4);
  if (v5) {
    goto L2;
  } else {
    goto L1;
  }
L1: ;
  _ZdlPv(v2);
  goto L2;
L2: ;
  return;
}

void _ZN14OpenVolumeMesh2IO19PropertyEncoderBaseD0Ev(struct S36_class_OpenVolumeMesh__IO__PropertyEncode* a0) {
L0: ;
  __CPROVER_assert(0, "llvm.trap"); __CPROVER_assume(0);
  __CPROVER_assume(0);
}

void harness_deser_short_u32(void) {
  v_run_static_init();
  struct S37_class_OpenVolumeMesh__IO__PropertyCodecs* v0; struct S37_class_OpenVolumeMesh__IO__PropertyCodecs v0_m;
  struct S38_class_OpenVolumeMesh__PropertyStorageT_3* v1; struct S38_class_OpenVolumeMesh__PropertyStorageT_3 v1_m;
  struct S27_class_std____cxx11__basic_string* v2; struct S27_class_std____cxx11__basic_string v2_m;
  struct S54_class_OpenVolumeMesh__IO__detail__Decode* v3; struct S54_class_OpenVolumeMesh__IO__detail__Decode v3_m;
  u8* v4;
  u8* v5;
  u8* v6;
  u32* v7;
  u8* v8;
  struct S11_struct_std___Rb_tree_node_base** v9;
  u8* v10;
  u8** v11;
  u8* v12;
  u8** v13;
  u8* v14;
  u64* v15;
  u8* v16;
  u8* v17;
  u32* v18;
  u8* v19;
  struct S11_struct_std___Rb_tree_node_base** v20;
  u8* v21;
  u8** v22;
  u8* v23;
  u8** v24;
  u8* v25;
  u64* v26;
  struct S21_class_OpenVolumeMesh__IO__PropertyDecode* v27;
  u64 v28; u64 v28_t;
  u8 v29;
  u8* v30;
  u64 v31;
  u1 v32;
  u1 v33;
  u8* v34;
  struct S66_union_anon* v35;
  struct S66_union_anon** v36;
  u8** v37;
  u8* v38;
  u64* v39;
  u8* v40;
  u8* v41;
  u1 v42;
  struct S40_class_std__vector_322* v43;
  u32** v44;
  u32* v45;
  u32** v46;
  u32* v47;
  u64 v48;
  u64 v49;
  u64 v50;
  u1 v51;
  u64 v52;
  u32* v53;
  u64 v54;
  u1 v55;
  u32* v56;
  u1 v57;
  u8* v58;
  struct S63 v59;
  u8* v60;
  u8* v61;
  u8** v62;
  u8** v63;
  u8** v64;
  u8** v65;
  u8** v66;
  struct S16_class_OpenVolumeMesh__PropertyStorageBas* v67;
  fnptr_t** v68;
  fnptr_t* v69;
  fnptr_t* v70;
  fnptr_t v71;
  struct S63 v72;
  struct S63 v73;
  u8* v74;
  u1 v75;
  struct S63 v76;
  struct S63 v77;
  u8* v78;
  u32 v79;
  u32 v80;
  u1 v81;
  u8* v82;
  u8* v83;
  u1 v84;
  fnptr_t** v85;
  u32** v86;
  u32* v87;
  u1 v88;
  u8* v89;
  u8** v90;
  u8* v91;
  struct S66_union_anon* v92;
  u8* v93;
  u1 v94;
  u8** v95;
  u8* v96;
  struct S66_union_anon* v97;
  u8* v98;
  u1 v99;
  struct S39_class_OpenVolumeMesh__detail__Tracker** v100;
  struct S39_class_OpenVolumeMesh__detail__Tracker* v101;
  u1 v102;
  struct S26_class_std__map* v103;
  u8* v104;
  u8* v105;
  struct S14_struct_std___Rb_tree_node_64** v106;
  u8* v107;
  struct S11_struct_std___Rb_tree_node_base* v108;
  struct S14_struct_std___Rb_tree_node_64* v109;
  u1 v110;
  struct S14_struct_std___Rb_tree_node_64* v111; struct S14_struct_std___Rb_tree_node_64* v111_t;
  struct S11_struct_std___Rb_tree_node_base* v112; struct S11_struct_std___Rb_tree_node_base* v112_t;
  struct S65_struct___gnu_cxx____aligned_membuf_65* v113;
  struct S16_class_OpenVolumeMesh__PropertyStorageBas** v114;
  struct S16_class_OpenVolumeMesh__PropertyStorageBas* v115;
  u1 v116;
  struct S11_struct_std___Rb_tree_node_base** v117;
  u1 v118;
  struct S11_struct_std___Rb_tree_node_base* v119;
  struct S11_struct_std___Rb_tree_node_base** v120;
  struct S14_struct_std___Rb_tree_node_64** v121;
  struct S14_struct_std___Rb_tree_node_64* v122;
  struct S11_struct_std___Rb_tree_node_base** v123;
  struct S14_struct_std___Rb_tree_node_64** v124;
  struct S14_struct_std___Rb_tree_node_64* v125;
  u1 v126;
  struct S14_struct_std___Rb_tree_node_64* v127; struct S14_struct_std___Rb_tree_node_64* v127_t;
  struct S11_struct_std___Rb_tree_node_base* v128; struct S11_struct_std___Rb_tree_node_base* v128_t;
  struct S65_struct___gnu_cxx____aligned_membuf_65* v129;
  struct S16_class_OpenVolumeMesh__PropertyStorageBas** v130;
  struct S16_class_OpenVolumeMesh__PropertyStorageBas* v131;
  u1 v132;
  struct S11_struct_std___Rb_tree_node_base** v133;
  struct S11_struct_std___Rb_tree_node_base* v134;
  struct S11_struct_std___Rb_tree_node_base** v135;
  struct S11_struct_std___Rb_tree_node_base* v136;
  struct S11_struct_std___Rb_tree_node_base** v137;
  struct S14_struct_std___Rb_tree_node_64** v138;
  struct S14_struct_std___Rb_tree_node_64* v139;
  u1 v140;
  struct S11_struct_std___Rb_tree_node_base* v141; struct S11_struct_std___Rb_tree_node_base* v141_t;
  u1 v142;
  struct S14_struct_std___Rb_tree_node_64* v143; struct S14_struct_std___Rb_tree_node_64* v143_t;
  struct S11_struct_std___Rb_tree_node_base* v144; struct S11_struct_std___Rb_tree_node_base* v144_t;
  struct S65_struct___gnu_cxx____aligned_membuf_65* v145;
  struct S16_class_OpenVolumeMesh__PropertyStorageBas** v146;
  struct S16_class_OpenVolumeMesh__PropertyStorageBas* v147;
  u1 v148;
  struct S11_struct_std___Rb_tree_node_base* v149;
  struct S11_struct_std___Rb_tree_node_base** v150;
  struct S11_struct_std___Rb_tree_node_base** v151;
  struct S11_struct_std___Rb_tree_node_base* v152;
  struct S11_struct_std___Rb_tree_node_base** v153;
  struct S14_struct_std___Rb_tree_node_64** v154;
  struct S14_struct_std___Rb_tree_node_64* v155;
  u1 v156;
  struct S11_struct_std___Rb_tree_node_base* v157; struct S11_struct_std___Rb_tree_node_base* v157_t;
  struct S11_struct_std___Rb_tree_node_base** v158; struct S11_struct_std___Rb_tree_node_base** v158_t;
  struct S14_struct_std___Rb_tree_node_64** v159;
  struct S14_struct_std___Rb_tree_node_64* v160;
  u1 v161;
  struct S11_struct_std___Rb_tree_node_base* v162; struct S11_struct_std___Rb_tree_node_base* v162_t;
  struct S11_struct_std___Rb_tree_node_base* v163; struct S11_struct_std___Rb_tree_node_base* v163_t;
  struct S10_class_std___Rb_tree* v164;
  struct S63 v165;
  u8* v166;
  struct S13_class_std___Sp_counted_base** v167;
  struct S13_class_std___Sp_counted_base* v168;
  u1 v169;
  u32* v170;
  u8 v171;
  u1 v172;
  u32 v173;
  u32 v174;
  u32 v175;
  u32 v176;
  u32 v177; u32 v177_t;
  u1 v178;
  fnptr_t** v179;
  fnptr_t* v180;
  fnptr_t* v181;
  fnptr_t v182;
  struct S26_class_std__map* v183;
  struct S10_class_std___Rb_tree* v184;
  u8* v185;
  u8* v186;
  struct S12_struct_std___Rb_tree_node** v187;
  struct S12_struct_std___Rb_tree_node* v188;
  struct S63 v189;
  u8* v190;
  struct S10_class_std___Rb_tree* v191;
  struct S12_struct_std___Rb_tree_node** v192;
  struct S12_struct_std___Rb_tree_node* v193;
  struct S63 v194;
  u8* v195;
  struct S63 v196;
  struct S63 v197;
  struct S63 v198; struct S63 v198_t;
  u8* v199;
  u1 v200;
  struct S63 v201; struct S63 v201_t;
  fnptr_t** v202;
  u32** v203;
  u32* v204;
  u1 v205;
  u8* v206;
  u8** v207;
  u8* v208;
  struct S66_union_anon* v209;
  u8* v210;
  u1 v211;
  u8** v212;
  u8* v213;
  struct S66_union_anon* v214;
  u8* v215;
  u1 v216;
  fnptr_t** v217;
  struct S39_class_OpenVolumeMesh__detail__Tracker** v218;
  struct S39_class_OpenVolumeMesh__detail__Tracker* v219;
  u1 v220;
  struct S16_class_OpenVolumeMesh__PropertyStorageBas* v221;
  struct S26_class_std__map* v222;
  u8* v223;
  u8* v224;
  struct S14_struct_std___Rb_tree_node_64** v225;
  u8* v226;
  struct S11_struct_std___Rb_tree_node_base* v227;
  struct S14_struct_std___Rb_tree_node_64* v228;
  u1 v229;
  struct S14_struct_std___Rb_tree_node_64* v230; struct S14_struct_std___Rb_tree_node_64* v230_t;
  struct S11_struct_std___Rb_tree_node_base* v231; struct S11_struct_std___Rb_tree_node_base* v231_t;
  struct S65_struct___gnu_cxx____aligned_membuf_65* v232;
  struct S16_class_OpenVolumeMesh__PropertyStorageBas** v233;
  struct S16_class_OpenVolumeMesh__PropertyStorageBas* v234;
  u1 v235;
  struct S11_struct_std___Rb_tree_node_base** v236;
  u1 v237;
  struct S11_struct_std___Rb_tree_node_base* v238;
  struct S11_struct_std___Rb_tree_node_base** v239;
  struct S14_struct_std___Rb_tree_node_64** v240;
  struct S14_struct_std___Rb_tree_node_64* v241;
  struct S11_struct_std___Rb_tree_node_base** v242;
  struct S14_struct_std___Rb_tree_node_64** v243;
  struct S14_struct_std___Rb_tree_node_64* v244;
  u1 v245;
  struct S14_struct_std___Rb_tree_node_64* v246; struct S14_struct_std___Rb_tree_node_64* v246_t;
  struct S11_struct_std___Rb_tree_node_base* v247; struct S11_struct_std___Rb_tree_node_base* v247_t;
  struct S65_struct___gnu_cxx____aligned_membuf_65* v248;
  struct S16_class_OpenVolumeMesh__PropertyStorageBas** v249;
  struct S16_class_OpenVolumeMesh__PropertyStorageBas* v250;
  u1 v251;
  struct S11_struct_std___Rb_tree_node_base** v252;
  struct S11_struct_std___Rb_tree_node_base* v253;
  struct S11_struct_std___Rb_tree_node_base** v254;
  struct S11_struct_std___Rb_tree_node_base* v255;
  struct S11_struct_std___Rb_tree_node_base** v256;
  struct S14_struct_std___Rb_tree_node_64** v257;
  struct S14_struct_std___Rb_tree_node_64* v258;
  u1 v259;
  struct S11_struct_std___Rb_tree_node_base* v260; struct S11_struct_std___Rb_tree_node_base* v260_t;
  u1 v261;
  struct S14_struct_std___Rb_tree_node_64* v262; struct S14_struct_std___Rb_tree_node_64* v262_t;
  struct S11_struct_std___Rb_tree_node_base* v263; struct S11_struct_std___Rb_tree_node_base* v263_t;
  struct S65_struct___gnu_cxx____aligned_membuf_65* v264;
  struct S16_class_OpenVolumeMesh__PropertyStorageBas** v265;
  struct S16_class_OpenVolumeMesh__PropertyStorageBas* v266;
  u1 v267;
  struct S11_struct_std___Rb_tree_node_base* v268;
  struct S11_struct_std___Rb_tree_node_base** v269;
  struct S11_struct_std___Rb_tree_node_base** v270;
  struct S11_struct_std___Rb_tree_node_base* v271;
  struct S11_struct_std___Rb_tree_node_base** v272;
  struct S14_struct_std___Rb_tree_node_64** v273;
  struct S14_struct_std___Rb_tree_node_64* v274;
  u1 v275;
  struct S11_struct_std___Rb_tree_node_base* v276; struct S11_struct_std___Rb_tree_node_base* v276_t;
  struct S11_struct_std___Rb_tree_node_base** v277; struct S11_struct_std___Rb_tree_node_base** v277_t;
  struct S14_struct_std___Rb_tree_node_64** v278;
  struct S14_struct_std___Rb_tree_node_64* v279;
  u1 v280;
  struct S11_struct_std___Rb_tree_node_base* v281; struct S11_struct_std___Rb_tree_node_base* v281_t;
  struct S11_struct_std___Rb_tree_node_base* v282; struct S11_struct_std___Rb_tree_node_base* v282_t;
  struct S10_class_std___Rb_tree* v283;
  struct S63 v284;
  u8* v285;
  struct S13_class_std___Sp_counted_base** v286;
  struct S13_class_std___Sp_counted_base* v287;
  u1 v288;
  u32* v289;
  u8 v290;
  u1 v291;
  u32 v292;
  u32 v293;
  u32 v294;
  u32 v295;
  u32 v296; u32 v296_t;
  u1 v297;
  fnptr_t** v298;
  fnptr_t* v299;
  fnptr_t* v300;
  fnptr_t v301;
  struct S63 v302; struct S63 v302_t;
  struct S63 v303; struct S63 v303_t;
  struct S26_class_std__map* v304;
  struct S10_class_std___Rb_tree* v305;
  u8* v306;
  u8* v307;
  struct S12_struct_std___Rb_tree_node** v308;
  struct S12_struct_std___Rb_tree_node* v309;
  struct S63 v310;
  u8* v311;
  struct S10_class_std___Rb_tree* v312;
  struct S12_struct_std___Rb_tree_node** v313;
  struct S12_struct_std___Rb_tree_node* v314;
  struct S63 v315;
  u8* v316;
L0: ;
  v0 = &v0_m;
  v1 = &v1_m;
  v2 = &v2_m;
  v3 = &v3_m;
  v4 = (u8*)v2;
  v28 = ((u64)0ULL);
  goto L2;
L1: ;
  v5 = (u8*)(&(*v0).f0.f0.f0.f0.f0.f0);
  v6 = (u8*)&(*v0).f0.f0.f0.f1.f0.f0;
  v7 = (u32*)&(*v0).f0.f0.f0.f1.f0.f0;
  *v7 = ((u32)0ULL);
  v8 = (u8*)&(*v0).f0.f0.f0.f1.f0.f1;
  v9 = (struct S11_struct_std___Rb_tree_node_base**)&(*v0).f0.f0.f0.f1.f0.f1;
  *v9 = ((struct S11_struct_std___Rb_tree_node_base*)0);
  v10 = (u8*)&(*v0).f0.f0.f0.f1.f0.f2;
  v11 = (u8**)&(*v0).f0.f0.f0.f1.f0.f2;
  *v11 = v6;
  v12 = (u8*)&(*v0).f0.f0.f0.f1.f0.f3;
  v13 = (u8**)&(*v0).f0.f0.f0.f1.f0.f3;
  *v13 = v6;
  v14 = (u8*)&(*v0).f0.f0.f0.f1.f1;
  v15 = (u64*)&(*v0).f0.f0.f0.f1.f1;
  *v15 = ((u64)0ULL);
  v16 = (u8*)(&(*v0).f1.f0.f0.f0.f0.f0);
  v17 = (u8*)&(*v0).f1.f0.f0.f1.f0.f0;
  v18 = (u32*)&(*v0).f1.f0.f0.f1.f0.f0;
  *v18 = ((u32)0ULL);
  v19 = (u8*)&(*v0).f1.f0.f0.f1.f0.f1;
  v20 = (struct S11_struct_std___Rb_tree_node_base**)&(*v0).f1.f0.f0.f1.f0.f1;
  *v20 = ((struct S11_struct_std___Rb_tree_node_base*)0);
  v21 = (u8*)&(*v0).f1.f0.f0.f1.f0.f2;
  v22 = (u8**)&(*v0).f1.f0.f0.f1.f0.f2;
  *v22 = v17;
  v23 = (u8*)&(*v0).f1.f0.f0.f1.f0.f3;
  v24 = (u8**)&(*v0).f1.f0.f0.f1.f0.f3;
  *v24 = v17;
  v25 = (u8*)&(*v0).f1.f0.f0.f1.f1;
  v26 = (u64*)&(*v0).f1.f0.f0.f1.f1;
  *v26 = ((u64)0ULL);
  v27 = _ZL9lookup_idILi3EEPKN14OpenVolumeMesh2IO19PropertyDecoderBaseERNS1_14PropertyCodecsE(v0);
  if (v_exc) {
    goto L15;
  }
  goto L3;
L2: ;
  v29 = v_nondet_u8();
  if (v_exc) return;
  v30 = (u8*)(&(*(&_ZL5g_raw)).e[(s64)((s64)v28)]);
  (*(&_ZL5g_raw)).e[(s64)((s64)v28)] = v29;
  v31 = ((u64)(v28 + ((u64)1ULL)));
  v32 = (v31 == ((u64)3ULL));
  if (v32) {
    goto L1;
  } else {
    v28 = v31;
    goto L2;
  }
L3: ;
  v33 = ((u8*)v27 != (u8*)((struct S21_class_OpenVolumeMesh__IO__PropertyDecode*)0));
  __CPROVER_assert(v33, "d != nullptr @/verif/harness/C07_codec_short.cpp:27 [harness_deser_short_u32]");
  if (v_exc) {
    goto L15;
  }
  goto L4;
L4: ;
  v34 = (u8*)v1;
  v35 = (struct S66_union_anon*)(&(*v2).f2);
  v36 = (struct S66_union_anon**)&(*v2).f0.f0;
  *v36 = v35;
  v37 = (u8**)(&(*v2).f0.f0);
  v38 = (u8*)v35;
  *v38 = ((u8)112ULL);
  v39 = (u64*)(&(*v2).f1);
  *v39 = ((u64)1ULL);
  v40 = (u8*)&(*v2).f2.f0.e[1];
  *v40 = ((u8)0ULL);
  _ZN14OpenVolumeMesh16PropertyStorageTIjEC2EPNS_6detail7TrackerINS_19PropertyStorageBaseEEENSt7__cxx1112basic_stringIcSt11char_traitsIcESaIcEEENS_10EntityTypeEjb(v1, ((struct S39_class_OpenVolumeMesh__detail__Tracker*)0), v2, ((u8)0ULL), ((u32)0ULL), ((u1)1ULL));
  if (v_exc) {
    goto L16;
  }
  goto L5;
L5: ;
  v41 = *v37;
  v42 = ((u8*)v41 == (u8*)v38);
  if (v42) {
    goto L7;
  } else {
    goto L6;
  }
L6: ;
  _ZdlPv(v41);
  goto L7;
L7: ;
  v43 = (struct S40_class_std__vector_322*)(&(*v1).f2);
  v44 = (u32**)(&(*v1).f2.f0.f0.f0.f1);
  v45 = *v44;
  v46 = (u32**)(&(*v43).f0.f0.f0.f0);
  v47 = *v46;
  v48 = ((u64)((u64)v45));
  v49 = ((u64)((u64)v47));
  v50 = v_pdiff((u8*)v45, (u8*)v47);
  v51 = (v50 < ((u64)8ULL));
  if (v51) {
    goto L8;
  } else {
    goto L9;
  }
L8: ;
  v52 = ((u64)(((s64)v50) >> ((u64)2ULL)));
  v53 = (u32*)(&(*v1).f3);
  v54 = ((u64)(((u64)2ULL) - v52));
  _ZNSt6vectorIjSaIjEE14_M_fill_insertEN9__gnu_cxx17__normal_iteratorIPjS1_EEmRKj(v43, v45, v54, v53);
  if (v_exc) {
    goto L18;
  }
  goto L12;
L9: ;
  v55 = (v50 == ((u64)8ULL));
  if (v55) {
    goto L12;
  } else {
    goto L10;
  }
L10: ;
  v56 = (u32*)(v47 + (s64)((s64)((u64)2ULL)));
  v57 = ((u8*)v45 == (u8*)v56);
  if (v57) {
    goto L12;
  } else {
    goto L11;
  }
L11: ;
  *v44 = v56;
  goto L12;
L12: ;
  v58 = _Znwm(((u64)3ULL));
  if (v_exc) {
    goto L13;
  }
  goto L14;
L13: ;
  v59.f0 = v_exc_obj;
  v59.f1 = 0;
  v_exc = 0;
  v201 = v59;
  goto L58;
L14: ;
  v60 = (u8*)(v58 + (s64)((s64)((u64)3ULL)));
  v_memcpy((u8*)v58, (u8*)((u8*)(&(*(&_ZL5g_raw)).e[(s64)((s64)((u64)0ULL))])), (u64)((u64)3ULL));
  v61 = (u8*)v3;
  v62 = (u8**)(&(*v3).f0.f0.f0.f0.f0);
  *v62 = v58;
  v63 = (u8**)(&(*v3).f0.f0.f0.f0.f1);
  *v63 = v60;
  v64 = (u8**)(&(*v3).f0.f0.f0.f0.f2);
  *v64 = v60;
  v65 = (u8**)(&(*v3).f1);
  *v65 = v58;
  v66 = (u8**)(&(*v3).f2);
  *v66 = v60;
  v67 = (struct S16_class_OpenVolumeMesh__PropertyStorageBas*)v1;
  v68 = (fnptr_t**)&(*v27).f0;
  v69 = *v68;
  v70 = (fnptr_t*)(v69 + (s64)((s64)((u64)3ULL)));
  v71 = *v70;
  ((FT1)v71)(v27, v67, v3, ((u64)0ULL), ((u64)1ULL));
  if (v_exc) {
    goto L19;
  }
  goto L21;
L15: ;
  v72.f0 = v_exc_obj;
  v72.f1 = 0;
  v_exc = 0;
  v303 = v72;
  goto L83;
L16: ;
  v73.f0 = v_exc_obj;
  v73.f1 = 0;
  v_exc = 0;
  v74 = *v37;
  v75 = ((u8*)v74 == (u8*)v38);
  if (v75) {
    v302 = v73;
    goto L82;
  } else {
    goto L17;
  }
L17: ;
  _ZdlPv(v74);
  v302 = v73;
  goto L82;
L18: ;
  v76.f0 = v_exc_obj;
  v76.f1 = 0;
  v_exc = 0;
  v201 = v76;
  goto L58;
L19: ;
  v77.f0 = v_exc_obj;
  v77.f1 = 0;
  if (v77.f1 == 0 && v_exc_match((u8*)((u8*)(&_ZTIN14OpenVolumeMesh2IO6detail11parse_errorE)))) v77.f1 = 1;
  if (v77.f1 == 0) v77.f1 = 9999;
  if (v77.f1 == 0) return;
  v_exc = 0;
  v78 = v77.f0;
  v79 = v77.f1;
  v80 = 1;
  v81 = (v79 == v80);
  v82 = __cxa_begin_catch(v78);
  if (v81) {
    goto L20;
  } else {
    goto L52;
  }
L20: ;
  __cxa_end_catch();
  if (v_exc) {
    goto L54;
  }
  goto L21;
L21: ;
  __CPROVER_assert(0, "WITNESS:deserialize(short payload): returned [harness_deser_short_u32]");
  if (v_exc) {
    goto L53;
  }
  goto L22;
L22: ;
  v83 = *v62;
  v84 = ((u8*)v83 == (u8*)((u8*)0));
  if (v84) {
    goto L24;
  } else {
    goto L23;
  }
L23: ;
  _ZdlPv(v83);
  goto L24;
L24: ;
  v85 = (fnptr_t**)(&(*v1).f0.f0.f0);
  *v85 = ((fnptr_t*)((u8**)(&(*(&_ZTVN14OpenVolumeMesh16PropertyStorageTIjEE)).f0.e[(s64)((s64)((u64)2ULL))])));
  v86 = (u32**)(&(*v1).f2.f0.f0.f0.f0);
  v87 = *v86;
  v88 = ((u8*)v87 == (u8*)((u32*)0));
  if (v88) {
    goto L26;
  } else {
    goto L25;
  }
L25: ;
  v89 = (u8*)v87;
  _ZdlPv(v89);
  goto L26;
L26: ;
  *v85 = ((fnptr_t*)((u8**)(&(*(&_ZTVN14OpenVolumeMesh19PropertyStorageBaseE)).f0.e[(s64)((s64)((u64)2ULL))])));
  v90 = (u8**)(&(*v1).f0.f3.f0.f0);
  v91 = *v90;
  v92 = (struct S66_union_anon*)(&(*v1).f0.f3.f2);
  v93 = (u8*)v92;
  v94 = ((u8*)v91 == (u8*)v93);
  if (v94) {
    goto L28;
  } else {
    goto L27;
  }
L27: ;
  _ZdlPv(v91);
  goto L28;
L28: ;
  v95 = (u8**)(&(*v1).f0.f2.f0.f0);
  v96 = *v95;
  v97 = (struct S66_union_anon*)(&(*v1).f0.f2.f2);
  v98 = (u8*)v97;
  v99 = ((u8*)v96 == (u8*)v98);
  if (v99) {
    goto L30;
  } else {
    goto L29;
  }
L29: ;
  _ZdlPv(v96);
  goto L30;
L30: ;
  *v85 = ((fnptr_t*)((u8**)(&(*(&_ZTVN14OpenVolumeMesh6detail7TrackedINS_19PropertyStorageBaseEEE)).f0.e[(s64)((s64)((u64)2ULL))])));
  v100 = (struct S39_class_OpenVolumeMesh__detail__Tracker**)(&(*v1).f0.f0.f1);
  v101 = *v100;
  v102 = ((u8*)v101 == (u8*)((struct S39_class_OpenVolumeMesh__detail__Tracker*)0));
  if (v102) {
    goto L42;
  } else {
    goto L31;
  }
L31: ;
  v103 = (struct S26_class_std__map*)(&(*v101).f1);
  v104 = (u8*)(&(*v103).f0.f0.f0.f0.f0);
  v105 = (u8*)&(*v101).f1.f0.f0.f1.f0.f1;
  v106 = (struct S14_struct_std___Rb_tree_node_64**)&(*v101).f1.f0.f0.f1.f0.f1;
  v107 = (u8*)&(*v101).f1.f0.f0.f1.f0.f0;
  v108 = (struct S11_struct_std___Rb_tree_node_base*)&(*v101).f1.f0.f0.f1.f0;
  v109 = *v106;
  v110 = ((u8*)v109 == (u8*)((struct S14_struct_std___Rb_tree_node_64*)0));
  if (v110) {
    v162_t = v108;
    v163_t = v108;
    v162 = v162_t;
    v163 = v163_t;
    goto L40;
  } else {
    v111_t = v109;
    v112_t = v108;
    v111 = v111_t;
    v112 = v112_t;
    goto L32;
  }
L32: ;
  v113 = (struct S65_struct___gnu_cxx____aligned_membuf_65*)(&(*v111).f1);
  v114 = (struct S16_class_OpenVolumeMesh__PropertyStorageBas**)v113;
  v115 = *v114;
  v116 = v_plt((u8*)v115, (u8*)v67);
  if (v116) {
    goto L33;
  } else {
    goto L34;
  }
L33: ;
  v117 = (struct S11_struct_std___Rb_tree_node_base**)(&(*v111).f0.f3);
  v157_t = v112;
  v158_t = v117;
  v157 = v157_t;
  v158 = v158_t;
  goto L39;
L34: ;
  v118 = v_plt((u8*)v67, (u8*)v115);
  v119 = (struct S11_struct_std___Rb_tree_node_base*)(&(*v111).f0);
  v120 = (struct S11_struct_std___Rb_tree_node_base**)(&(*v111).f0.f2);
  if (v118) {
    v157_t = v119;
    v158_t = v120;
    v157 = v157_t;
    v158 = v158_t;
    goto L39;
  } else {
    goto L35;
  }
L35: ;
  v121 = (struct S14_struct_std___Rb_tree_node_64**)&(*v111).f0.f2;
  v122 = *v121;
  v123 = (struct S11_struct_std___Rb_tree_node_base**)(&(*v111).f0.f3);
  v124 = (struct S14_struct_std___Rb_tree_node_64**)&(*v111).f0.f3;
  v125 = *v124;
  v126 = ((u8*)v122 == (u8*)((struct S14_struct_std___Rb_tree_node_64*)0));
  if (v126) {
    v141 = v119;
    goto L37;
  } else {
    v127_t = v122;
    v128_t = v119;
    v127 = v127_t;
    v128 = v128_t;
    goto L36;
  }
L36: ;
  v129 = (struct S65_struct___gnu_cxx____aligned_membuf_65*)(&(*v127).f1);
  v130 = (struct S16_class_OpenVolumeMesh__PropertyStorageBas**)v129;
  v131 = *v130;
  v132 = v_plt((u8*)v131, (u8*)v67);
  v133 = (struct S11_struct_std___Rb_tree_node_base**)(&(*v127).f0.f3);
  v134 = (struct S11_struct_std___Rb_tree_node_base*)(&(*v127).f0);
  v135 = (struct S11_struct_std___Rb_tree_node_base**)(&(*v127).f0.f2);
  v136 = (v132 ? v128 : v134);
  v137 = (v132 ? v133 : v135);
  v138 = (struct S14_struct_std___Rb_tree_node_64**)v137;
  v139 = *v138;
  v140 = ((u8*)v139 == (u8*)((struct S14_struct_std___Rb_tree_node_64*)0));
  if (v140) {
    v141 = v136;
    goto L37;
  } else {
    v127_t = v139;
    v128_t = v136;
    v127 = v127_t;
    v128 = v128_t;
    goto L36;
  }
L37: ;
  v142 = ((u8*)v125 == (u8*)((struct S14_struct_std___Rb_tree_node_64*)0));
  if (v142) {
    v162_t = v141;
    v163_t = v112;
    v162 = v162_t;
    v163 = v163_t;
    goto L40;
  } else {
    v143_t = v125;
    v144_t = v112;
    v143 = v143_t;
    v144 = v144_t;
    goto L38;
  }
L38: ;
  v145 = (struct S65_struct___gnu_cxx____aligned_membuf_65*)(&(*v143).f1);
  v146 = (struct S16_class_OpenVolumeMesh__PropertyStorageBas**)v145;
  v147 = *v146;
  v148 = v_plt((u8*)v67, (u8*)v147);
  v149 = (struct S11_struct_std___Rb_tree_node_base*)(&(*v143).f0);
  v150 = (struct S11_struct_std___Rb_tree_node_base**)(&(*v143).f0.f2);
  v151 = (struct S11_struct_std___Rb_tree_node_base**)(&(*v143).f0.f3);
  v152 = (v148 ? v149 : v144);
  v153 = (v148 ? v150 : v151);
  v154 = (struct S14_struct_std___Rb_tree_node_64**)v153;
  v155 = *v154;
  v156 = ((u8*)v155 == (u8*)((struct S14_struct_std___Rb_tree_node_64*)0));
  if (v156) {
    v162_t = v141;
    v163_t = v152;
    v162 = v162_t;
    v163 = v163_t;
    goto L40;
  } else {
    v143_t = v155;
    v144_t = v152;
    v143 = v143_t;
    v144 = v144_t;
    goto L38;
  }
L39: ;
  v159 = (struct S14_struct_std___Rb_tree_node_64**)v158;
  v160 = *v159;
  v161 = ((u8*)v160 == (u8*)((struct S14_struct_std___Rb_tree_node_64*)0));
  if (v161) {
    v162_t = v157;
    v163_t = v157;
    v162 = v162_t;
    v163 = v163_t;
    goto L40;
  } else {
    v111_t = v160;
    v112_t = v157;
    v111 = v111_t;
    v112 = v112_t;
    goto L32;
  }
L40: ;
  v164 = (struct S10_class_std___Rb_tree*)(&(*v103).f0);
  _ZNSt8_Rb_treeIPN14OpenVolumeMesh19PropertyStorageBaseES2_St9_IdentityIS2_ESt4lessIS2_ESaIS2_EE12_M_erase_auxESt23_Rb_tree_const_iteratorIS2_ESA_(v164, v162, v163);
  if (v_exc) {
    goto L41;
  }
  goto L42;
L41: ;
  v165.f0 = v_exc_obj;
  v165.f1 = 0;
  if (v165.f1 == 0) v165.f1 = 9999;
  if (v165.f1 == 0) return;
  v_exc = 0;
  v166 = v165.f0;
  __clang_call_terminate(v166);
  __CPROVER_assume(0);
L42: ;
  *v100 = ((struct S39_class_OpenVolumeMesh__detail__Tracker*)0);
  v167 = (struct S13_class_std___Sp_counted_base**)(&(*v1).f0.f1.f0.f0.f1.f0);
  v168 = *v167;
  v169 = ((u8*)v168 == (u8*)((struct S13_class_std___Sp_counted_base*)0));
  if (v169) {
    goto L48;
  } else {
    goto L43;
  }
L43: ;
  v170 = (u32*)(&(*v168).f2);
  v171 = *(&__libc_single_threaded);
  v172 = (v171 == ((u8)0ULL));
  if (v172) {
    goto L45;
  } else {
    goto L44;
  }
L44: ;
  v173 = *v170;
  v174 = ((u32)(v173 + ((u32)4294967295ULL)));
  *v170 = v174;
  v177 = v173;
  goto L46;
L45: ;
  v175 = *v170;
  v176 = ((u32)(v175 + ((u32)4294967295ULL)));
  *v170 = v176;
  v177 = v175;
  goto L46;
L46: ;
  v178 = (v177 == ((u32)1ULL));
  if (v178) {
    goto L47;
  } else {
    goto L48;
  }
L47: ;
  v179 = (fnptr_t**)&(*v168).f0;
  v180 = *v179;
  v181 = (fnptr_t*)(v180 + (s64)((s64)((u64)3ULL)));
  v182 = *v181;
  ((FT0)v182)(v168);
  goto L48;
L48: ;
  v183 = (struct S26_class_std__map*)(&(*v0).f1);
  v184 = (struct S10_class_std___Rb_tree*)(&(*v183).f0);
  v185 = (u8*)(&(*v183).f0.f0.f0.f0.f0);
  v186 = (u8*)&(*v0).f1.f0.f0.f1.f0.f1;
  v187 = (struct S12_struct_std___Rb_tree_node**)&(*v0).f1.f0.f0.f1.f0.f1;
  v188 = *v187;
  _ZNSt8_Rb_treeINSt7__cxx1112basic_stringIcSt11char_traitsIcESaIcEEESt4pairIKS5_St10shared_ptrIN14OpenVolumeMesh2IO19PropertyEncoderBaseEEESt10_Select1stISD_ESt4lessIS5_ESaISD_EE8_M_eraseEPSt13_Rb_tree_nodeISD_E(v184, v188);
  if (v_exc) {
    goto L49;
  }
  goto L50;
L49: ;
  v189.f0 = v_exc_obj;
  v189.f1 = 0;
  if (v189.f1 == 0) v189.f1 = 9999;
  if (v189.f1 == 0) return;
  v_exc = 0;
  v190 = v189.f0;
  __clang_call_terminate(v190);
  __CPROVER_assume(0);
L50: ;
  v191 = (struct S10_class_std___Rb_tree*)(&(*v0).f0.f0);
  v192 = (struct S12_struct_std___Rb_tree_node**)&(*v0).f0.f0.f0.f1.f0.f1;
  v193 = *v192;
  _ZNSt8_Rb_treeINSt7__cxx1112basic_stringIcSt11char_traitsIcESaIcEEESt4pairIKS5_St10shared_ptrIN14OpenVolumeMesh2IO19PropertyDecoderBaseEEESt10_Select1stISD_ESt4lessIS5_ESaISD_EE8_M_eraseEPSt13_Rb_tree_nodeISD_E(v191, v193);
  if (v_exc) {
    goto L51;
  }
  goto L88;
L51: ;
  v194.f0 = v_exc_obj;
  v194.f1 = 0;
  if (v194.f1 == 0) v194.f1 = 9999;
  if (v194.f1 == 0) return;
  v_exc = 0;
  v195 = v194.f0;
  __clang_call_terminate(v195);
  __CPROVER_assume(0);
L52: ;
  __cxa_end_catch();
  if (v_exc) {
    goto L53;
  }
  goto L21;
L53: ;
  v196.f0 = v_exc_obj;
  v196.f1 = 0;
  v_exc = 0;
  v198 = v196;
  goto L55;
L54: ;
  v197.f0 = v_exc_obj;
  v197.f1 = 0;
  v_exc = 0;
  v198 = v197;
  goto L55;
L55: ;
  v199 = *v62;
  v200 = ((u8*)v199 == (u8*)((u8*)0));
  if (v200) {
    goto L57;
  } else {
    goto L56;
  }
L56: ;
  _ZdlPv(v199);
  goto L57;
L57: ;
  v201 = v198;
  goto L58;
L58: ;
  v202 = (fnptr_t**)(&(*v1).f0.f0.f0);
  *v202 = ((fnptr_t*)((u8**)(&(*(&_ZTVN14OpenVolumeMesh16PropertyStorageTIjEE)).f0.e[(s64)((s64)((u64)2ULL))])));
  v203 = (u32**)(&(*v1).f2.f0.f0.f0.f0);
  v204 = *v203;
  v205 = ((u8*)v204 == (u8*)((u32*)0));
  if (v205) {
    goto L60;
  } else {
    goto L59;
  }
L59: ;
  v206 = (u8*)v204;
  _ZdlPv(v206);
  goto L60;
L60: ;
  *v202 = ((fnptr_t*)((u8**)(&(*(&_ZTVN14OpenVolumeMesh19PropertyStorageBaseE)).f0.e[(s64)((s64)((u64)2ULL))])));
  v207 = (u8**)(&(*v1).f0.f3.f0.f0);
  v208 = *v207;
  v209 = (struct S66_union_anon*)(&(*v1).f0.f3.f2);
  v210 = (u8*)v209;
  v211 = ((u8*)v208 == (u8*)v210);
  if (v211) {
    goto L62;
  } else {
    goto L61;
  }
L61: ;
  _ZdlPv(v208);
  goto L62;
L62: ;
  v212 = (u8**)(&(*v1).f0.f2.f0.f0);
  v213 = *v212;
  v214 = (struct S66_union_anon*)(&(*v1).f0.f2.f2);
  v215 = (u8*)v214;
  v216 = ((u8*)v213 == (u8*)v215);
  if (v216) {
    goto L64;
  } else {
    goto L63;
  }
L63: ;
  _ZdlPv(v213);
  goto L64;
L64: ;
  v217 = (fnptr_t**)(&(*v1).f0.f0.f0);
  *v217 = ((fnptr_t*)((u8**)(&(*(&_ZTVN14OpenVolumeMesh6detail7TrackedINS_19PropertyStorageBaseEEE)).f0.e[(s64)((s64)((u64)2ULL))])));
  v218 = (struct S39_class_OpenVolumeMesh__detail__Tracker**)(&(*v1).f0.f0.f1);
  v219 = *v218;
  v220 = ((u8*)v219 == (u8*)((struct S39_class_OpenVolumeMesh__detail__Tracker*)0));
  if (v220) {
    goto L76;
  } else {
    goto L65;
  }
L65: ;
  v221 = (struct S16_class_OpenVolumeMesh__PropertyStorageBas*)v1;
  v222 = (struct S26_class_std__map*)(&(*v219).f1);
  v223 = (u8*)(&(*v222).f0.f0.f0.f0.f0);
  v224 = (u8*)&(*v219).f1.f0.f0.f1.f0.f1;
  v225 = (struct S14_struct_std___Rb_tree_node_64**)&(*v219).f1.f0.f0.f1.f0.f1;
  v226 = (u8*)&(*v219).f1.f0.f0.f1.f0.f0;
  v227 = (struct S11_struct_std___Rb_tree_node_base*)&(*v219).f1.f0.f0.f1.f0;
  v228 = *v225;
  v229 = ((u8*)v228 == (u8*)((struct S14_struct_std___Rb_tree_node_64*)0));
  if (v229) {
    v281_t = v227;
    v282_t = v227;
    v281 = v281_t;
    v282 = v282_t;
    goto L74;
  } else {
    v230_t = v228;
    v231_t = v227;
    v230 = v230_t;
    v231 = v231_t;
    goto L66;
  }
L66: ;
  v232 = (struct S65_struct___gnu_cxx____aligned_membuf_65*)(&(*v230).f1);
  v233 = (struct S16_class_OpenVolumeMesh__PropertyStorageBas**)v232;
  v234 = *v233;
  v235 = v_plt((u8*)v234, (u8*)v221);
  if (v235) {
    goto L67;
  } else {
    goto L68;
  }
L67: ;
  v236 = (struct S11_struct_std___Rb_tree_node_base**)(&(*v230).f0.f3);
  v276_t = v231;
  v277_t = v236;
  v276 = v276_t;
  v277 = v277_t;
  goto L73;
L68: ;
  v237 = v_plt((u8*)v221, (u8*)v234);
  v238 = (struct S11_struct_std___Rb_tree_node_base*)(&(*v230).f0);
  v239 = (struct S11_struct_std___Rb_tree_node_base**)(&(*v230).f0.f2);
  if (v237) {
    v276_t = v238;
    v277_t = v239;
    v276 = v276_t;
    v277 = v277_t;
    goto L73;
  } else {
    goto L69;
  }
L69: ;
  v240 = (struct S14_struct_std___Rb_tree_node_64**)&(*v230).f0.f2;
  v241 = *v240;
  v242 = (struct S11_struct_std___Rb_tree_node_base**)(&(*v230).f0.f3);
  v243 = (struct S14_struct_std___Rb_tree_node_64**)&(*v230).f0.f3;
  v244 = *v243;
  v245 = ((u8*)v241 == (u8*)((struct S14_struct_std___Rb_tree_node_64*)0));
  if (v245) {
    v260 = v238;
    goto L71;
  } else {
    v246_t = v241;
    v247_t = v238;
    v246 = v246_t;
    v247 = v247_t;
    goto L70;
  }
L70: ;
  v248 = (struct S65_struct___gnu_cxx____aligned_membuf_65*)(&(*v246).f1);
  v249 = (struct S16_class_OpenVolumeMesh__PropertyStorageBas**)v248;
  v250 = *v249;
  v251 = v_plt((u8*)v250, (u8*)v221);
  v252 = (struct S11_struct_std___Rb_tree_node_base**)(&(*v246).f0.f3);
  v253 = (struct S11_struct_std___Rb_tree_node_base*)(&(*v246).f0);
  v254 = (struct S11_struct_std___Rb_tree_node_base**)(&(*v246).f0.f2);
  v255 = (v251 ? v247 : v253);
  v256 = (v251 ? v252 : v254);
  v257 = (struct S14_struct_std___Rb_tree_node_64**)v256;
  v258 = *v257;
  v259 = ((u8*)v258 == (u8*)((struct S14_struct_std___Rb_tree_node_64*)0));
  if (v259) {
    v260 = v255;
    goto L71;
  } else {
    v246_t = v258;
    v247_t = v255;
    v246 = v246_t;
    v247 = v247_t;
    goto L70;
  }
L71: ;
  v261 = ((u8*)v244 == (u8*)((struct S14_struct_std___Rb_tree_node_64*)0));
  if (v261) {
    v281_t = v260;
    v282_t = v231;
    v281 = v281_t;
    v282 = v282_t;
    goto L74;
  } else {
    v262_t = v244;
    v263_t = v231;
    v262 = v262_t;
    v263 = v263_t;
    goto L72;
  }
L72: ;
  v264 = (struct S65_struct___gnu_cxx____aligned_membuf_65*)(&(*v262).f1);
  v265 = (struct S16_class_OpenVolumeMesh__PropertyStorageBas**)v264;
  v266 = *v265;
  v267 = v_plt((u8*)v221, (u8*)v266);
  v268 = (struct S11_struct_std___Rb_tree_node_base*)(&(*v262).f0);
  v269 = (struct S11_struct_std___Rb_tree_node_base**)(&(*v262).f0.f2);
  v270 = (struct S11_struct_std___Rb_tree_node_base**)(&(*v262).f0.f3);
  v271 = (v267 ? v268 : v263);
  v272 = (v267 ? v269 : v270);
  v273 = (struct S14_struct_std___Rb_tree_node_64**)v272;
  v274 = *v273;
  v275 = ((u8*)v274 == (u8*)((struct S14_struct_std___Rb_tree_node_64*)0));
  if (v275) {
    v281_t = v260;
    v282_t = v271;
    v281 = v281_t;
    v282 = v282_t;
    goto L74;
  } else {
    v262_t = v274;
    v263_t = v271;
    v262 = v262_t;
    v263 = v263_t;
    goto L72;
  }
L73: ;
  v278 = (struct S14_struct_std___Rb_tree_node_64**)v277;
  v279 = *v278;
  v280 = ((u8*)v279 == (u8*)((struct S14_struct_std___Rb_tree_node_64*)0));
  if (v280) {
    v281_t = v276;
    v282_t = v276;
    v281 = v281_t;
    v282 = v282_t;
    goto L74;
  } else {
    v230_t = v279;
    v231_t = v276;
    v230 = v230_t;
    v231 = v231_t;
    goto L66;
  }
L74: ;
  v283 = (struct S10_class_std___Rb_tree*)(&(*v222).f0);
  _ZNSt8_Rb_treeIPN14OpenVolumeMesh19PropertyStorageBaseES2_St9_IdentityIS2_ESt4lessIS2_ESaIS2_EE12_M_erase_auxESt23_Rb_tree_const_iteratorIS2_ESA_(v283, v281, v282);
  if (v_exc) {
    goto L75;
  }
  goto L76;
L75: ;
  v284.f0 = v_exc_obj;
  v284.f1 = 0;
  if (v284.f1 == 0) v284.f1 = 9999;
  if (v284.f1 == 0) return;
  v_exc = 0;
  v285 = v284.f0;
  __clang_call_terminate(v285);
  __CPROVER_assume(0);
L76: ;
  *v218 = ((struct S39_class_OpenVolumeMesh__detail__Tracker*)0);
  v286 = (struct S13_class_std___Sp_counted_base**)(&(*v1).f0.f1.f0.f0.f1.f0);
  v287 = *v286;
  v288 = ((u8*)v287 == (u8*)((struct S13_class_std___Sp_counted_base*)0));
  if (v288) {
    v302 = v201;
    goto L82;
  } else {
    goto L77;
  }
L77: ;
  v289 = (u32*)(&(*v287).f2);
  v290 = *(&__libc_single_threaded);
  v291 = (v290 == ((u8)0ULL));
  if (v291) {
    goto L79;
  } else {
    goto L78;
  }
L78: ;
  v292 = *v289;
  v293 = ((u32)(v292 + ((u32)4294967295ULL)));
  *v289 = v293;
  v296 = v292;
  goto L80;
L79: ;
  v294 = *v289;
  v295 = ((u32)(v294 + ((u32)4294967295ULL)));
  *v289 = v295;
  v296 = v294;
  goto L80;
L80: ;
  v297 = (v296 == ((u32)1ULL));
  if (v297) {
    goto L81;
  } else {
    v302 = v201;
    goto L82;
  }
L81: ;
  v298 = (fnptr_t**)&(*v287).f0;
  v299 = *v298;
  v300 = (fnptr_t*)(v299 + (s64)((s64)((u64)3ULL)));
  v301 = *v300;
  ((FT0)v301)(v287);
  v302 = v201;
  goto L82;
L82: ;
  v303 = v302;
  goto L83;
L83: ;
  v304 = (struct S26_class_std__map*)(&(*v0).f1);
  v305 = (struct S10_class_std___Rb_tree*)(&(*v304).f0);
  v306 = (u8*)(&(*v304).f0.f0.f0.f0.f0);
  v307 = (u8*)&(*v0).f1.f0.f0.f1.f0.f1;
  v308 = (struct S12_struct_std___Rb_tree_node**)&(*v0).f1.f0.f0.f1.f0.f1;
  v309 = *v308;
  _ZNSt8_Rb_treeINSt7__cxx1112basic_stringIcSt11char_traitsIcESaIcEEESt4pairIKS5_St10shared_ptrIN14OpenVolumeMesh2IO19PropertyEncoderBaseEEESt10_Select1stISD_ESt4lessIS5_ESaISD_EE8_M_eraseEPSt13_Rb_tree_nodeISD_E(v305, v309);
  if (v_exc) {
    goto L84;
  }
  goto L85;
L84: ;
  v310.f0 = v_exc_obj;
  v310.f1 = 0;
  if (v310.f1 == 0) v310.f1 = 9999;
  if (v310.f1 == 0) return;
  v_exc = 0;
  v311 = v310.f0;
  __clang_call_terminate(v311);
  __CPROVER_assume(0);
L85: ;
  v312 = (struct S10_class_std___Rb_tree*)(&(*v0).f0.f0);
  v313 = (struct S12_struct_std___Rb_tree_node**)&(*v0).f0.f0.f0.f1.f0.f1;
  v314 = *v313;
  _ZNSt8_Rb_treeINSt7__cxx1112basic_stringIcSt11char_traitsIcESaIcEEESt4pairIKS5_St10shared_ptrIN14OpenVolumeMesh2IO19PropertyDecoderBaseEEESt10_Select1stISD_ESt4lessIS5_ESaISD_EE8_M_eraseEPSt13_Rb_tree_nodeISD_E(v312, v314);
  if (v_exc) {
    goto L86;
  }
  goto L87;
L86: ;
  v315.f0 = v_exc_obj;
  v315.f1 = 0;
  if (v315.f1 == 0) v315.f1 = 9999;
  if (v315.f1 == 0) return;
  v_exc = 0;
  v316 = v315.f0;
  __clang_call_terminate(v316);
  __CPROVER_assume(0);
L87: ;
  v_exc = 1; return;
L88: ;
  return;
}

struct S21_class_OpenVolumeMesh__IO__PropertyDecode* _ZL9lookup_idILi3EEPKN14OpenVolumeMesh2IO19PropertyDecoderBaseERNS1_14PropertyCodecsE(struct S37_class_OpenVolumeMesh__IO__PropertyCodecs* a0) {
  struct S27_class_std____cxx11__basic_string* v0; struct S27_class_std____cxx11__basic_string v0_m;
  struct S27_class_std____cxx11__basic_string* v1; struct S27_class_std____cxx11__basic_string v1_m;
  u8* v2;
  struct S66_union_anon* v3;
  struct S66_union_anon** v4;
  u8** v5;
  u8* v6;
  u64* v7;
  u8* v8;
  u8* v9;
  u8* v10;
  u8* v11;
  u1 v12;
  u8* v13;
  struct S66_union_anon* v14;
  struct S66_union_anon** v15;
  u8** v16;
  u8* v17;
  u64* v18;
  u8* v19;
  u8* v20;
  struct S21_class_OpenVolumeMesh__IO__PropertyDecode* v21;
  u8* v22;
  u8* v23;
  u1 v24;
  struct S63 v25;
  u8* v26;
  u8* v27;
  u1 v28;
  struct S63 v29;
  u8* v30;
  u8* v31;
  u1 v32;
  struct S63 v33; struct S63 v33_t;
L0: ;
  v0 = &v0_m;
  v1 = &v1_m;
  v2 = (u8*)v0;
  v3 = (struct S66_union_anon*)(&(*v0).f2);
  v4 = (struct S66_union_anon**)&(*v0).f0.f0;
  *v4 = v3;
  v5 = (u8**)(&(*v0).f0.f0);
  v6 = (u8*)v3;
  (*v0).f2.f0.e[0] = (u8)(*(&_str_16)).e[0];
  (*v0).f2.f0.e[1] = (u8)(*(&_str_16)).e[1];
  (*v0).f2.f0.e[2] = (u8)(*(&_str_16)).e[2];
  v7 = (u64*)(&(*v0).f1);
  *v7 = ((u64)3ULL);
  v8 = (u8*)v3;
  v9 = (u8*)&(*v0).f2.f0.e[3];
  *v9 = ((u8)0ULL);
  _ZN14OpenVolumeMesh2IO14PropertyCodecs14register_codecINS0_6Codecs15SimplePropCodecINS3_9PrimitiveIjEEEEEEvRKNSt7__cxx1112basic_stringIcSt11char_traitsIcESaIcEEE(a0, v0);
  if (v_exc) {
    goto L7;
  }
  goto L1;
L1: ;
  v10 = *v5;
  v11 = (u8*)v3;
  v12 = ((u8*)v10 == (u8*)v11);
  if (v12) {
    goto L3;
  } else {
    goto L2;
  }
L2: ;
  _ZdlPv(v10);
  goto L3;
L3: ;
  v13 = (u8*)v1;
  v14 = (struct S66_union_anon*)(&(*v1).f2);
  v15 = (struct S66_union_anon**)&(*v1).f0.f0;
  *v15 = v14;
  v16 = (u8**)(&(*v1).f0.f0);
  v17 = (u8*)v14;
  (*v1).f2.f0.e[0] = (u8)(*(&_str_16)).e[0];
  (*v1).f2.f0.e[1] = (u8)(*(&_str_16)).e[1];
  (*v1).f2.f0.e[2] = (u8)(*(&_str_16)).e[2];
  v18 = (u64*)(&(*v1).f1);
  *v18 = ((u64)3ULL);
  v19 = (u8*)v14;
  v20 = (u8*)&(*v1).f2.f0.e[3];
  *v20 = ((u8)0ULL);
  v21 = _ZNK14OpenVolumeMesh2IO14PropertyCodecs11get_decoderERKNSt7__cxx1112basic_stringIcSt11char_traitsIcESaIcEEE(a0, v1);
  if (v_exc) {
    goto L10;
  }
  goto L4;
L4: ;
  v22 = *v16;
  v23 = (u8*)v14;
  v24 = ((u8*)v22 == (u8*)v23);
  if (v24) {
    goto L6;
  } else {
    goto L5;
  }
L5: ;
  _ZdlPv(v22);
  goto L6;
L6: ;
  return v21;
L7: ;
  v25.f0 = v_exc_obj;
  v25.f1 = 0;
  v_exc = 0;
  v26 = *v5;
  v27 = (u8*)v3;
  v28 = ((u8*)v26 == (u8*)v27);
  if (v28) {
    goto L9;
  } else {
    goto L8;
  }
L8: ;
  _ZdlPv(v26);
  goto L9;
L9: ;
  v33 = v25;
  goto L13;
L10: ;
  v29.f0 = v_exc_obj;
  v29.f1 = 0;
  v_exc = 0;
  v30 = *v16;
  v31 = (u8*)v14;
  v32 = ((u8*)v30 == (u8*)v31);
  if (v32) {
    goto L12;
  } else {
    goto L11;
  }
L11: ;
  _ZdlPv(v30);
  goto L12;
L12: ;
  v33 = v29;
  goto L13;
L13: ;
  v_exc = 1; return (struct S21_class_OpenVolumeMesh__IO__PropertyDecode*)0;
}

void _ZN14OpenVolumeMesh16PropertyStorageTIjEC2EPNS_6detail7TrackerINS_19PropertyStorageBaseEEENSt7__cxx1112basic_stringIcSt11char_traitsIcESaIcEEENS_10EntityTypeEjb(struct S38_class_OpenVolumeMesh__PropertyStorageT_3* a0, struct S39_class_OpenVolumeMesh__detail__Tracker* a1, struct S27_class_std____cxx11__basic_string* a2, u8 a3, u32 a4, u1 a5) {
  struct S16_class_OpenVolumeMesh__PropertyStorageBas** v0; struct S16_class_OpenVolumeMesh__PropertyStorageBas* v0_m;
  struct S27_class_std____cxx11__basic_string* v1; struct S27_class_std____cxx11__basic_string v1_m;
  struct S27_class_std____cxx11__basic_string* v2; struct S27_class_std____cxx11__basic_string v2_m;
  struct S66_union_anon* v3;
  u8* v4;
  struct S66_union_anon** v5;
  u8** v6;
  u8* v7;
  struct S66_union_anon* v8;
  u8* v9;
  u1 v10;
  u64* v11;
  u64 v12;
  u64 v13;
  u1 v14;
  u8** v15;
  u64* v16;
  u64 v17;
  u64* v18;
  u64* v19;
  u64 v20;
  u64* v21;
  struct S66_union_anon** v22;
  struct S24_class_std__enable_shared_from_this* v23;
  u8* v24;
  fnptr_t** v25;
  struct S39_class_OpenVolumeMesh__detail__Tracker** v26;
  u1 v27;
  struct S15_class_OpenVolumeMesh__detail__Tracked* v28;
  u8* v29;
  struct S15_class_OpenVolumeMesh__detail__Tracked** v30;
  struct S10_class_std___Rb_tree* v31;
  struct S23 v32;
  struct S27_class_std____cxx11__basic_string* v33;
  struct S66_union_anon* v34;
  u8* v35;
  struct S66_union_anon** v36;
  u8** v37;
  u8* v38;
  u1 v39;
  u64 v40;
  u64 v41;
  u1 v42;
  u8** v43;
  u64* v44;
  u64 v45;
  u64* v46;
  u64 v47;
  u64* v48;
  struct S27_class_std____cxx11__basic_string* v49;
  struct S66_union_anon* v50;
  u8* v51;
  struct S66_union_anon** v52;
  u8** v53;
  u8* v54;
  struct S66_union_anon* v55;
  u8* v56;
  u1 v57;
  u64* v58;
  u64 v59;
  u64 v60;
  u1 v61;
  u8** v62;
  u64* v63;
  u64 v64;
  u64* v65;
  struct S63 v66;
  u8** v67;
  u8* v68;
  struct S66_union_anon* v69;
  u8* v70;
  u1 v71;
  u8 v72;
  u64* v73;
  u64 v74;
  u64* v75;
  struct S66_union_anon** v76;
  u8* v77;
  u8* v78;
  u8* v79;
  u8* v80;
  u1 v81;
  u8* v82;
  u1 v83;
  fnptr_t** v84;
  struct S40_class_std__vector_322* v85;
  u8* v86;
  u32* v87;
  struct S63 v88;
  struct S63 v89; struct S63 v89_t;
  u8** v90;
  u8* v91;
  u1 v92;
L0: ;
  v0 = &v0_m;
  v1 = &v1_m;
  v2 = &v2_m;
  v3 = (struct S66_union_anon*)(&(*v1).f2);
  v4 = (u8*)v3;
  v5 = (struct S66_union_anon**)&(*v1).f0.f0;
  *v5 = v3;
  v6 = (u8**)(&(*a2).f0.f0);
  v7 = *v6;
  v8 = (struct S66_union_anon*)(&(*a2).f2);
  v9 = (u8*)v8;
  v10 = ((u8*)v7 == (u8*)v9);
  if (v10) {
    goto L1;
  } else {
    goto L3;
  }
L1: ;
  v11 = (u64*)(&(*a2).f1);
  v12 = *v11;
  v13 = ((u64)(v12 + ((u64)1ULL)));
  v14 = (v13 == ((u64)0ULL));
  if (v14) {
    goto L4;
  } else {
    goto L2;
  }
L2: ;
  { struct S66_union_anon* _d = v3; struct S66_union_anon* _s = v8; u64 _len = (u64)v13; u64 _n = _len / 16;
    if (_len % 16 == 0) { if (_n) { if (__CPROVER_same_object(_d, _s) && __CPROVER_POINTER_OFFSET(_d) > __CPROVER_POINTER_OFFSET(_s)) { for (u64 _i = _n; _i > 0; --_i) _d[_i-1] = _s[_i-1]; } else { for (u64 _i = 0; _i < _n; ++_i) _d[_i] = _s[_i]; } } }
    else { u8* _bd = (u8*)_d; u8* _bs = (u8*)_s; if (__CPROVER_same_object(_bd, _bs) && __CPROVER_POINTER_OFFSET(_bd) > __CPROVER_POINTER_OFFSET(_bs)) { for (u64 _i = _len; _i > 0; --_i) _bd[_i-1] = _bs[_i-1]; } else { for (u64 _i = 0; _i < _len; ++_i) _bd[_i] = _bs[_i]; } } }
  goto L4;
L3: ;
  v15 = (u8**)(&(*v1).f0.f0);
  *v15 = v7;
  v16 = (u64*)(&(*a2).f2.f0.e[0]);
  v17 = *v16;
  v18 = (u64*)(&(*v1).f2.f0.e[0]);
  *v18 = v17;
  goto L4;
L4: ;
  v19 = (u64*)(&(*a2).f1);
  v20 = *v19;
  v21 = (u64*)(&(*v1).f1);
  *v21 = v20;
  v22 = (struct S66_union_anon**)&(*a2).f0.f0;
  *v22 = v8;
  *v19 = ((u64)0ULL);
  *v9 = ((u8)0ULL);
  _ZN14OpenVolumeMesh6detail18internal_type_nameB5cxx11ERKSt9type_info(v2, ((struct S48_class_std__type_info*)(&_ZTIj)));
  if (v_exc) {
    goto L22;
  }
  goto L5;
L5: ;
  v23 = (struct S24_class_std__enable_shared_from_this*)(&(*a0).f0.f1);
  v24 = (u8*)v23;
  (*a0).f0.f1.f0.f0.f0 = (struct S16_class_OpenVolumeMesh__PropertyStorageBas*)0;
  (*a0).f0.f1.f0.f0.f1.f0 = (struct S13_class_std___Sp_counted_base*)0;
  v25 = (fnptr_t**)(&(*a0).f0.f0.f0);
  *v25 = ((fnptr_t*)((u8**)(&(*(&_ZTVN14OpenVolumeMesh6detail7TrackedINS_19PropertyStorageBaseEEE)).f0.e[(s64)((s64)((u64)2ULL))])));
  v26 = (struct S39_class_OpenVolumeMesh__detail__Tracker**)(&(*a0).f0.f0.f1);
  *v26 = a1;
  v27 = ((u8*)a1 == (u8*)((struct S39_class_OpenVolumeMesh__detail__Tracker*)0));
  if (v27) {
    goto L8;
  } else {
    goto L6;
  }
L6: ;
  v28 = (struct S15_class_OpenVolumeMesh__detail__Tracked*)(&(*a0).f0.f0);
  v29 = (u8*)v0;
  v30 = (struct S15_class_OpenVolumeMesh__detail__Tracked**)v0;
  *v30 = v28;
  v31 = (struct S10_class_std___Rb_tree*)(&(*a1).f1.f0);
  v32 = _ZNSt8_Rb_treeIPN14OpenVolumeMesh19PropertyStorageBaseES2_St9_IdentityIS2_ESt4lessIS2_ESaIS2_EE16_M_insert_uniqueIRKS2_EESt4pairISt17_Rb_tree_iteratorIS2_EbEOT_(v31, v0);
  if (v_exc) {
    goto L16;
  }
  goto L7;
L7: ;
  goto L8;
L8: ;
  *v25 = ((fnptr_t*)((u8**)(&(*(&_ZTVN14OpenVolumeMesh19PropertyStorageBaseE)).f0.e[(s64)((s64)((u64)2ULL))])));
  v33 = (struct S27_class_std____cxx11__basic_string*)(&(*a0).f0.f2);
  v34 = (struct S66_union_anon*)(&(*a0).f0.f2.f2);
  v35 = (u8*)v34;
  v36 = (struct S66_union_anon**)&(*a0).f0.f2.f0.f0;
  *v36 = v34;
  v37 = (u8**)(&(*v1).f0.f0);
  v38 = *v37;
  v39 = ((u8*)v38 == (u8*)v4);
  if (v39) {
    goto L9;
  } else {
    goto L11;
  }
L9: ;
  v40 = *v21;
  v41 = ((u64)(v40 + ((u64)1ULL)));
  v42 = (v41 == ((u64)0ULL));
  if (v42) {
    goto L12;
  } else {
    goto L10;
  }
L10: ;
  { struct S66_union_anon* _d = v34; struct S66_union_anon* _s = v3; u64 _len = (u64)v41; u64 _n = _len / 16;
    if (_len % 16 == 0) { if (_n) { if (__CPROVER_same_object(_d, _s) && __CPROVER_POINTER_OFFSET(_d) > __CPROVER_POINTER_OFFSET(_s)) { for (u64 _i = _n; _i > 0; --_i) _d[_i-1] = _s[_i-1]; } else { for (u64 _i = 0; _i < _n; ++_i) _d[_i] = _s[_i]; } } }
    else { u8* _bd = (u8*)_d; u8* _bs = (u8*)_s; if (__CPROVER_same_object(_bd, _bs) && __CPROVER_POINTER_OFFSET(_bd) > __CPROVER_POINTER_OFFSET(_bs)) { for (u64 _i = _len; _i > 0; --_i) _bd[_i-1] = _bs[_i-1]; } else { for (u64 _i = 0; _i < _len; ++_i) _bd[_i] = _bs[_i]; } } }
  goto L12;
L11: ;
  v43 = (u8**)(&(*v33).f0.f0);
  *v43 = v38;
  v44 = (u64*)(&(*v1).f2.f0.e[0]);
  v45 = *v44;
  v46 = (u64*)(&(*a0).f0.f2.f2.f0.e[0]);
  *v46 = v45;
  goto L12;
L12: ;
  v47 = *v21;
  v48 = (u64*)(&(*a0).f0.f2.f1);
  *v48 = v47;
  *v5 = v3;
  *v21 = ((u64)0ULL);
  *v4 = ((u8)0ULL);
  v49 = (struct S27_class_std____cxx11__basic_string*)(&(*a0).f0.f3);
  v50 = (struct S66_union_anon*)(&(*a0).f0.f3.f2);
  v51 = (u8*)v50;
  v52 = (struct S66_union_anon**)&(*a0).f0.f3.f0.f0;
  *v52 = v50;
  v53 = (u8**)(&(*v2).f0.f0);
  v54 = *v53;
  v55 = (struct S66_union_anon*)(&(*v2).f2);
  v56 = (u8*)v55;
  v57 = ((u8*)v54 == (u8*)v56);
  if (v57) {
    goto L13;
  } else {
    goto L15;
  }
L13: ;
  v58 = (u64*)(&(*v2).f1);
  v59 = *v58;
  v60 = ((u64)(v59 + ((u64)1ULL)));
  v61 = (v60 == ((u64)0ULL));
  if (v61) {
    goto L17;
  } else {
    goto L14;
  }
L14: ;
  { struct S66_union_anon* _d = v50; struct S66_union_anon* _s = v55; u64 _len = (u64)v60; u64 _n = _len / 16;
    if (_len % 16 == 0) { if (_n) { if (__CPROVER_same_object(_d, _s) && __CPROVER_POINTER_OFFSET(_d) > __CPROVER_POINTER_OFFSET(_s)) { for (u64 _i = _n; _i > 0; --_i) _d[_i-1] = _s[_i-1]; } else { for (u64 _i = 0; _i < _n; ++_i) _d[_i] = _s[_i]; } } }
    else { u8* _bd = (u8*)_d; u8* _bs = (u8*)_s; if (__CPROVER_same_object(_bd, _bs) && __CPROVER_POINTER_OFFSET(_bd) > __CPROVER_POINTER_OFFSET(_bs)) { for (u64 _i = _len; _i > 0; --_i) _bd[_i-1] = _bs[_i-1]; } else { for (u64 _i = 0; _i < _len; ++_i) _bd[_i] = _bs[_i]; } } }
  goto L17;
L15: ;
  v62 = (u8**)(&(*v49).f0.f0);
  *v62 = v54;
  v63 = (u64*)(&(*v2).f2.f0.e[0]);
  v64 = *v63;
  v65 = (u64*)(&(*a0).f0.f3.f2.f0.e[0]);
  *v65 = v64;
  goto L17;
L16: ;
  v66.f0 = v_exc_obj;
  v66.f1 = 0;
  v_exc = 0;
  _ZNSt23enable_shared_from_thisIN14OpenVolumeMesh19PropertyStorageBaseEED2Ev(v23);
  v67 = (u8**)(&(*v2).f0.f0);
  v68 = *v67;
  v69 = (struct S66_union_anon*)(&(*v2).f2);
  v70 = (u8*)v69;
  v71 = ((u8*)v68 == (u8*)v70);
  if (v71) {
    v89 = v66;
    goto L24;
  } else {
    goto L23;
  }
L17: ;
  v72 = ((u8)(a5));
  v73 = (u64*)(&(*v2).f1);
  v74 = *v73;
  v75 = (u64*)(&(*a0).f0.f3.f1);
  *v75 = v74;
  v76 = (struct S66_union_anon**)&(*v2).f0.f0;
  *v76 = v55;
  *v73 = ((u64)0ULL);
  *v56 = ((u8)0ULL);
  v77 = (u8*)(&(*a0).f0.f4);
  *v77 = a3;
  v78 = (u8*)(&(*a0).f0.f5);
  *v78 = ((u8)0ULL);
  v79 = (u8*)(&(*a0).f0.f6);
  *v79 = v72;
  v80 = *v53;
  v81 = ((u8*)v80 == (u8*)v56);
  if (v81) {
    goto L19;
  } else {
    goto L18;
  }
L18: ;
  _ZdlPv(v80);
  goto L19;
L19: ;
  v82 = *v37;
  v83 = ((u8*)v82 == (u8*)v4);
  if (v83) {
    goto L21;
  } else {
    goto L20;
  }
L20: ;
  _ZdlPv(v82);
  goto L21;
L21: ;
  v84 = (fnptr_t**)(&(*a0).f0.f0.f0);
  *v84 = ((fnptr_t*)((u8**)(&(*(&_ZTVN14OpenVolumeMesh16PropertyStorageTIjEE)).f0.e[(s64)((s64)((u64)2ULL))])));
  v85 = (struct S40_class_std__vector_322*)(&(*a0).f2);
  v86 = (u8*)v85;
  (*a0).f2.f0.f0.f0.f0 = (u32*)0;
  (*a0).f2.f0.f0.f0.f1 = (u32*)0;
  (*a0).f2.f0.f0.f0.f2 = (u32*)0;
  v87 = (u32*)(&(*a0).f3);
  *v87 = a4;
  return;
L22: ;
  v88.f0 = v_exc_obj;
  v88.f1 = 0;
  v_exc = 0;
  v89 = v88;
  goto L24;
L23: ;
  _ZdlPv(v68);
  v89 = v66;
  goto L24;
L24: ;
  v90 = (u8**)(&(*v1).f0.f0);
  v91 = *v90;
  v92 = ((u8*)v91 == (u8*)v4);
  if (v92) {
    goto L26;
  } else {
    goto L25;
  }
L25: ;
  _ZdlPv(v91);
  goto L26;
L26: ;
  v_exc = 1; return;
}

void _ZNSt6vectorIjSaIjEE14_M_fill_insertEN9__gnu_cxx17__normal_iteratorIPjS1_EEmRKj(struct S40_class_std__vector_322* a0, u32* a1, u64 a2, u32* a3) {
  u1 v0;
  u32** v1;
  u32* v2;
  u32** v3;
  u32* v4;
  u64 v5;
  u64 v6;
  u64 v7;
  u64 v8;
  u1 v9;
  u32 v10;
  u64 v11;
  u64 v12;
  u64 v13;
  u1 v14;
  u64 v15;
  u32* v16;
  u64 v17;
  u64 v18;
  u1 v19;
  u8* v20;
  u8* v21;
  u32* v22;
  u32* v23;
  u64 v24;
  u1 v25;
  u64 v26;
  u64 v27;
  u32* v28;
  u8* v29;
  u8* v30;
  u32* v31;
  u32* v32; u32* v32_t;
  u32* v33;
  u1 v34;
  u64 v35;
  u1 v36;
  u32* v37;
  u32* v38; u32* v38_t;
  u32* v39;
  u1 v40;
  u32* v41; u32* v41_t;
  u1 v42;
  u8* v43;
  u8* v44;
  u32* v45;
  u32* v46;
  u1 v47;
  u32* v48; u32* v48_t;
  u32* v49;
  u1 v50;
  u32** v51;
  u32* v52;
  u64 v53;
  u64 v54;
  u64 v55;
  u64 v56;
  u1 v57;
  u1 v58;
  u64 v59;
  u64 v60;
  u1 v61;
  u1 v62;
  u1 v63;
  u64 v64;
  u64 v65;
  u64 v66;
  u64 v67;
  u1 v68;
  u1 v69;
  u1 v70;
  u64 v71;
  u8* v72;
  u32* v73;
  u32* v74; u32* v74_t;
  u32* v75;
  u32* v76;
  u32 v77;
  u32* v78; u32* v78_t;
  u32* v79;
  u1 v80;
  u1 v81;
  u8* v82;
  u8* v83;
  u32* v84;
  u64 v85;
  u1 v86;
  u8* v87;
  u8* v88;
  u64 v89;
  u32* v90;
  u1 v91;
  u8* v92;
  u32* v93;
L0: ;
  v0 = (a2 == ((u64)0ULL));
  if (v0) {
    goto L33;
  } else {
    goto L1;
  }
L1: ;
  v1 = (u32**)(&(*a0).f0.f0.f0.f2);
  v2 = *v1;
  v3 = (u32**)(&(*a0).f0.f0.f0.f1);
  v4 = *v3;
  v5 = ((u64)((u64)v2));
  v6 = ((u64)((u64)v4));
  v7 = v_pdiff((u8*)v2, (u8*)v4);
  v8 = ((u64)(((s64)v7) >> ((u64)2ULL)));
  v9 = (v8 < a2);
  if (v9) {
    goto L16;
  } else {
    goto L2;
  }
L2: ;
  v10 = *a3;
  v11 = ((u64)((u64)a1));
  v12 = v_pdiff((u8*)v4, (u8*)a1);
  v13 = ((u64)(((s64)v12) >> ((u64)2ULL)));
  v14 = (v13 > a2);
  if (v14) {
    goto L3;
  } else {
    goto L9;
  }
L3: ;
  v15 = ((u64)(((u64)0ULL) - a2));
  v16 = (u32*)(v4 + (s64)((s64)v15));
  v17 = ((u64)((u64)v16));
  v18 = ((u64)(a2 << ((u64)2ULL)));
  v19 = (v18 == ((u64)0ULL));
  if (v19) {
    goto L5;
  } else {
    goto L4;
  }
L4: ;
  v20 = (u8*)v4;
  v21 = (u8*)v16;
  { u32* _d = v4; u32* _s = v16; u64 _n = (u64)v18 / 4; __CPROVER_assert((u64)v18 % 4 == 0, "typed memcpy size");
    if (_n) { if (__CPROVER_same_object(_d, _s) && __CPROVER_POINTER_OFFSET(_d) > __CPROVER_POINTER_OFFSET(_s)) { for (u64 _i = _n; _i > 0; --_i) _d[_i-1] = _s[_i-1]; } else { for (u64 _i = 0; _i < _n; ++_i) _d[_i] = _s[_i]; } } }
  goto L5;
L5: ;
  v22 = *v3;
  v23 = (u32*)(v22 + (s64)((s64)a2));
  *v3 = v23;
  v24 = v_pdiff((u8*)v16, (u8*)a1);
  v25 = (v24 == ((u64)0ULL));
  if (v25) {
    goto L7;
  } else {
    goto L6;
  }
L6: ;
  v26 = ((u64)(((s64)v24) >> ((u64)2ULL)));
  v27 = ((u64)(((u64)0ULL) - v26));
  v28 = (u32*)(v4 + (s64)((s64)v27));
  v29 = (u8*)v28;
  v30 = (u8*)a1;
  { u32* _d = v28; u32* _s = a1; u64 _n = (u64)v24 / 4; __CPROVER_assert((u64)v24 % 4 == 0, "typed memcpy size");
    if (_n) { if (__CPROVER_same_object(_d, _s) && __CPROVER_POINTER_OFFSET(_d) > __CPROVER_POINTER_OFFSET(_s)) { for (u64 _i = _n; _i > 0; --_i) _d[_i-1] = _s[_i-1]; } else { for (u64 _i = 0; _i < _n; ++_i) _d[_i] = _s[_i]; } } }
  goto L7;
L7: ;
  v31 = (u32*)(a1 + (s64)((s64)a2));
  v32 = a1;
  goto L8;
L8: ;
  *v32 = v10;
  v33 = (u32*)(v32 + (s64)((s64)((u64)1ULL)));
  v34 = ((u8*)v33 == (u8*)v31);
  if (v34) {
    goto L33;
  } else {
    v32 = v33;
    goto L8;
  }
L9: ;
  v35 = ((u64)(a2 - v13));
  v36 = (v35 == ((u64)0ULL));
  if (v36) {
    v41 = v4;
    goto L12;
  } else {
    goto L10;
  }
L10: ;
  v37 = (u32*)(v4 + (s64)((s64)v35));
  v38 = v4;
  goto L11;
L11: ;
  *v38 = v10;
  v39 = (u32*)(v38 + (s64)((s64)((u64)1ULL)));
  v40 = ((u8*)v39 == (u8*)v37);
  if (v40) {
    v41 = v37;
    goto L12;
  } else {
    v38 = v39;
    goto L11;
  }
L12: ;
  *v3 = v41;
  v42 = (v12 == ((u64)0ULL));
  if (v42) {
    goto L14;
  } else {
    goto L13;
  }
L13: ;
  v43 = (u8*)v41;
  v44 = (u8*)a1;
  { u32* _d = v41; u32* _s = a1; u64 _n = (u64)v12 / 4; __CPROVER_assert((u64)v12 % 4 == 0, "typed memcpy size");
    if (_n) { if (__CPROVER_same_object(_d, _s) && __CPROVER_POINTER_OFFSET(_d) > __CPROVER_POINTER_OFFSET(_s)) { for (u64 _i = _n; _i > 0; --_i) _d[_i-1] = _s[_i-1]; } else { for (u64 _i = 0; _i < _n; ++_i) _d[_i] = _s[_i]; } } }
  goto L14;
L14: ;
  v45 = *v3;
  v46 = (u32*)(v45 + (s64)((s64)v13));
  *v3 = v46;
  v47 = ((u8*)v4 == (u8*)a1);
  if (v47) {
    goto L33;
  } else {
    v48 = a1;
    goto L15;
  }
L15: ;
  *v48 = v10;
  v49 = (u32*)(v48 + (s64)((s64)((u64)1ULL)));
  v50 = ((u8*)v49 == (u8*)v4);
  if (v50) {
    goto L33;
  } else {
    v48 = v49;
    goto L15;
  }
L16: ;
  v51 = (u32**)(&(*a0).f0.f0.f0.f0);
  v52 = *v51;
  v53 = ((u64)((u64)v52));
  v54 = v_pdiff((u8*)v4, (u8*)v52);
  v55 = ((u64)(((s64)v54) >> ((u64)2ULL)));
  v56 = ((u64)(((u64)2305843009213693951ULL) - v55));
  v57 = (v56 < a2);
  if (v57) {
    goto L17;
  } else {
    goto L18;
  }
L17: ;
  _ZSt20__throw_length_errorPKc(((u8*)(&(*(&_str_10)).e[(s64)((s64)((u64)0ULL))])));
  if (v_exc) return;
  __CPROVER_assume(0);
L18: ;
  v58 = (v55 < a2);
  v59 = (v58 ? a2 : v55);
  v60 = ((u64)(v59 + v55));
  v61 = (v60 < v55);
  v62 = (v60 > ((u64)2305843009213693951ULL));
  v63 = ((u1)((v61 | v62)&1));
  v64 = (v63 ? ((u64)2305843009213693951ULL) : v60);
  v65 = ((u64)((u64)a1));
  v66 = v_pdiff((u8*)a1, (u8*)v52);
  v67 = ((u64)(((s64)v66) >> ((u64)2ULL)));
  v68 = (v64 == ((u64)0ULL));
  if (v68) {
    v74 = ((u32*)0);
    goto L24;
  } else {
    goto L19;
  }
L19: ;
  v69 = (v64 > ((u64)2305843009213693951ULL));
  if (v69) {
    goto L20;
  } else {
    goto L23;
  }
L20: ;
  v70 = (v64 > ((u64)4611686018427387903ULL));
  if (v70) {
    goto L21;
  } else {
    goto L22;
  }
L21: ;
  _ZSt28__throw_bad_array_new_lengthv();
  if (v_exc) return;
  __CPROVER_assume(0);
L22: ;
  _ZSt17__throw_bad_allocv();
  if (v_exc) return;
  __CPROVER_assume(0);
L23: ;
  v71 = ((u64)(v64 << ((u64)2ULL)));
  v72 = (u8*)((v71 % sizeof(u32) == 0) ? __CPROVER_allocate(sizeof(u32) * (v71 / sizeof(u32)), 0) : __CPROVER_allocate(v71, 0));
  v73 = (u32*)v72;
  v74 = v73;
  goto L24;
L24: ;
  v75 = (u32*)(v74 + (s64)((s64)v67));
  v76 = (u32*)(v75 + (s64)((s64)a2));
  v77 = *a3;
  v78 = v75;
  goto L25;
L25: ;
  *v78 = v77;
  v79 = (u32*)(v78 + (s64)((s64)((u64)1ULL)));
  v80 = ((u8*)v79 == (u8*)v76);
  if (v80) {
    goto L26;
  } else {
    v78 = v79;
    goto L25;
  }
L26: ;
  v81 = (v66 == ((u64)0ULL));
  if (v81) {
    goto L28;
  } else {
    goto L27;
  }
L27: ;
  v82 = (u8*)v74;
  v83 = (u8*)v52;
  { u32* _d = v74; u32* _s = v52; u64 _n = (u64)v66 / 4; __CPROVER_assert((u64)v66 % 4 == 0, "typed memcpy size");
    if (_n) { if (__CPROVER_same_object(_d, _s) && __CPROVER_POINTER_OFFSET(_d) > __CPROVER_POINTER_OFFSET(_s)) { for (u64 _i = _n; _i > 0; --_i) _d[_i-1] = _s[_i-1]; } else { for (u64 _i = 0; _i < _n; ++_i) _d[_i] = _s[_i]; } } }
  goto L28;
L28: ;
  v84 = (u32*)(v75 + (s64)((s64)a2));
  v85 = v_pdiff((u8*)v4, (u8*)a1);
  v86 = (v85 == ((u64)0ULL));
  if (v86) {
    goto L30;
  } else {
    goto L29;
  }
L29: ;
  v87 = (u8*)v84;
  v88 = (u8*)a1;
  { u32* _d = v84; u32* _s = a1; u64 _n = (u64)v85 / 4; __CPROVER_assert((u64)v85 % 4 == 0, "typed memcpy size");
    if (_n) { if (__CPROVER_same_object(_d, _s) && __CPROVER_POINTER_OFFSET(_d) > __CPROVER_POINTER_OFFSET(_s)) { for (u64 _i = _n; _i > 0; --_i) _d[_i-1] = _s[_i-1]; } else { for (u64 _i = 0; _i < _n; ++_i) _d[_i] = _s[_i]; } } }
  goto L30;
L30: ;
  v89 = ((u64)(((s64)v85) >> ((u64)2ULL)));
  v90 = (u32*)(v84 + (s64)((s64)v89));
  v91 = ((u8*)v52 == (u8*)((u32*)0));
  if (v91) {
    goto L32;
  } else {
    goto L31;
  }
L31: ;
  v92 = (u8*)v52;
  _ZdlPv(v92);
  goto L32;
L32: ;
  *v51 = v74;
  *v3 = v90;
  v93 = (u32*)(v74 + (s64)((s64)v64));
  *v1 = v93;
  goto L33;
L33: ;
  return;
}

void _ZN14OpenVolumeMesh16PropertyStorageTIjED2Ev(struct S38_class_OpenVolumeMesh__PropertyStorageT_3* a0) {
  fnptr_t** v0;
  u32** v1;
  u32* v2;
  u1 v3;
  u8* v4;
  fnptr_t** v5;
  u8** v6;
  u8* v7;
  struct S66_union_anon* v8;
  u8* v9;
  u1 v10;
  u8** v11;
  u8* v12;
  struct S66_union_anon* v13;
  u8* v14;
  u1 v15;
  struct S15_class_OpenVolumeMesh__detail__Tracked* v16;
  struct S13_class_std___Sp_counted_base** v17;
  struct S13_class_std___Sp_counted_base* v18;
  u1 v19;
  u32* v20;
  u8 v21;
  u1 v22;
  u32 v23;
  u32 v24;
  u32 v25;
  u32 v26;
  u32 v27; u32 v27_t;
  u1 v28;
  fnptr_t** v29;
  fnptr_t* v30;
  fnptr_t* v31;
  fnptr_t v32;
L0: ;
  v0 = (fnptr_t**)(&(*a0).f0.f0.f0);
  *v0 = ((fnptr_t*)((u8**)(&(*(&_ZTVN14OpenVolumeMesh16PropertyStorageTIjEE)).f0.e[(s64)((s64)((u64)2ULL))])));
  v1 = (u32**)(&(*a0).f2.f0.f0.f0.f0);
  v2 = *v1;
  v3 = ((u8*)v2 == (u8*)((u32*)0));
  if (v3) {
    goto L2;
  } else {
    goto L1;
  }
L1: ;
  v4 = (u8*)v2;
  _ZdlPv(v4);
  goto L2;
L2: ;
  v5 = (fnptr_t**)(&(*a0).f0.f0.f0);
  *v5 = ((fnptr_t*)((u8**)(&(*(&_ZTVN14OpenVolumeMesh19PropertyStorageBaseE)).f0.e[(s64)((s64)((u64)2ULL))])));
  v6 = (u8**)(&(*a0).f0.f3.f0.f0);
  v7 = *v6;
  v8 = (struct S66_union_anon*)(&(*a0).f0.f3.f2);
  v9 = (u8*)v8;
  v10 = ((u8*)v7 == (u8*)v9);
  if (v10) {
    goto L4;
  } else {
    goto L3;
  }
L3: ;
  _ZdlPv(v7);
  goto L4;
L4: ;
  v11 = (u8**)(&(*a0).f0.f2.f0.f0);
  v12 = *v11;
  v13 = (struct S66_union_anon*)(&(*a0).f0.f2.f2);
  v14 = (u8*)v13;
  v15 = ((u8*)v12 == (u8*)v14);
  if (v15) {
    goto L6;
  } else {
    goto L5;
  }
L5: ;
  _ZdlPv(v12);
  goto L6;
L6: ;
  v16 = (struct S15_class_OpenVolumeMesh__detail__Tracked*)(&(*a0).f0.f0);
  _ZN14OpenVolumeMesh6detail7TrackedINS_19PropertyStorageBaseEED2Ev(v16);
  v17 = (struct S13_class_std___Sp_counted_base**)(&(*a0).f0.f1.f0.f0.f1.f0);
  v18 = *v17;
  v19 = ((u8*)v18 == (u8*)((struct S13_class_std___Sp_counted_base*)0));
  if (v19) {
    goto L12;
  } else {
    goto L7;
  }
L7: ;
  v20 = (u32*)(&(*v18).f2);
  v21 = *(&__libc_single_threaded);
  v22 = (v21 == ((u8)0ULL));
  if (v22) {
    goto L9;
  } else {
    goto L8;
  }
L8: ;
  v23 = *v20;
  v24 = ((u32)(v23 + ((u32)4294967295ULL)));
  *v20 = v24;
  v27 = v23;
  goto L10;
L9: ;
  v25 = *v20;
  v26 = ((u32)(v25 + ((u32)4294967295ULL)));
  *v20 = v26;
  v27 = v25;
  goto L10;
L10: ;
  v28 = (v27 == ((u32)1ULL));
  if (v28) {
    goto L11;
  } else {
    goto L12;
  }
L11: ;
  v29 = (fnptr_t**)&(*v18).f0;
  v30 = *v29;
  v31 = (fnptr_t*)(v30 + (s64)((s64)((u64)3ULL)));
  v32 = *v31;
  ((FT0)v32)(v18);
  goto L12;
L12: ;
  return;
}

void _ZN14OpenVolumeMesh16PropertyStorageTIjED0Ev(struct S38_class_OpenVolumeMesh__PropertyStorageT_3* a0) {
  fnptr_t** v0;
  u32** v1;
  u32* v2;
  u1 v3;
  u8* v4;
  u8** v5;
  u8* v6;
  struct S66_union_anon* v7;
  u8* v8;
  u1 v9;
  u8** v10;
  u8* v11;
  struct S66_union_anon* v12;
  u8* v13;
  u1 v14;
  struct S15_class_OpenVolumeMesh__detail__Tracked* v15;
  struct S13_class_std___Sp_counted_base** v16;
  struct S13_class_std___Sp_counted_base* v17;
  u1 v18;
  u32* v19;
  u8 v20;
  u1 v21;
  u32 v22;
  u32 v23;
  u32 v24;
  u32 v25;
  u32 v26; u32 v26_t;
  u1 v27;
  fnptr_t** v28;
  fnptr_t* v29;
  fnptr_t* v30;
  fnptr_t v31;
  u8* v32;
L0: ;
  v0 = (fnptr_t**)(&(*a0).f0.f0.f0);
  *v0 = ((fnptr_t*)((u8**)(&(*(&_ZTVN14OpenVolumeMesh16PropertyStorageTIjEE)).f0.e[(s64)((s64)((u64)2ULL))])));
  v1 = (u32**)(&(*a0).f2.f0.f0.f0.f0);
  v2 = *v1;
  v3 = ((u8*)v2 == (u8*)((u32*)0));
  if (v3) {
    goto L2;
  } else {
    goto L1;
  }
L1: ;
  v4 = (u8*)v2;
  _ZdlPv(v4);
  goto L2;
L2: ;
  *v0 = ((fnptr_t*)((u8**)(&(*(&_ZTVN14OpenVolumeMesh19PropertyStorageBaseE)).f0.e[(s64)((s64)((u64)2ULL))])));
  v5 = (u8**)(&(*a0).f0.f3.f0.f0);
  v6 = *v5;
  v7 = (struct S66_union_anon*)(&(*a0).f0.f3.f2);
  v8 = (u8*)v7;
  v9 = ((u8*)v6 == (u8*)v8);
  if (v9) {
    goto L4;
  } else {
    goto L3;
  }
L3: ;
  _ZdlPv(v6);
  goto L4;
L4: ;
  v10 = (u8**)(&(*a0).f0.f2.f0.f0);
  v11 = *v10;
  v12 = (struct S66_union_anon*)(&(*a0).f0.f2.f2);
  v13 = (u8*)v12;
  v14 = ((u8*)v11 == (u8*)v13);
  if (v14) {
    goto L6;
  } else {
    goto L5;
  }
L5: ;
  _ZdlPv(v11);
  goto L6;
L6: ;
  v15 = (struct S15_class_OpenVolumeMesh__detail__Tracked*)(&(*a0).f0.f0);
  _ZN14OpenVolumeMesh6detail7TrackedINS_19PropertyStorageBaseEED2Ev(v15);
  v16 = (struct S13_class_std___Sp_counted_base**)(&(*a0).f0.f1.f0.f0.f1.f0);
  v17 = *v16;
  v18 = ((u8*)v17 == (u8*)((struct S13_class_std___Sp_counted_base*)0));
  if (v18) {
    goto L12;
  } else {
    goto L7;
  }
L7: ;
  v19 = (u32*)(&(*v17).f2);
  v20 = *(&__libc_single_threaded);
  v21 = (v20 == ((u8)0ULL));
  if (v21) {
    goto L9;
  } else {
    goto L8;
  }
L8: ;
  v22 = *v19;
  v23 = ((u32)(v22 + ((u32)4294967295ULL)));
  *v19 = v23;
  v26 = v22;
  goto L10;
L9: ;
  v24 = *v19;
  v25 = ((u32)(v24 + ((u32)4294967295ULL)));
  *v19 = v25;
  v26 = v24;
  goto L10;
L10: ;
  v27 = (v26 == ((u32)1ULL));
  if (v27) {
    goto L11;
  } else {
    goto L12;
  }
L11: ;
  v28 = (fnptr_t**)&(*v17).f0;
  v29 = *v28;
  v30 = (fnptr_t*)(v29 + (s64)((s64)((u64)3ULL)));
  v31 = *v30;
  ((FT0)v31)(v17);
  goto L12;
L12: ;
  v32 = (u8*)a0;
  _ZdlPv(v32);
  return;
}

void _ZN14OpenVolumeMesh16PropertyStorageTIjE7reserveEm(struct S38_class_OpenVolumeMesh__PropertyStorageT_3* a0, u64 a1) {
  struct S40_class_std__vector_322* v0;
  u1 v1;
  u32** v2;
  u32* v3;
  u32** v4;
  u32* v5;
  u64 v6;
  u64 v7;
  u64 v8;
  u64 v9;
  u1 v10;
  u32** v11;
  u32* v12;
  u64 v13;
  u64 v14;
  u64 v15;
  u64 v16;
  u8* v17;
  u32* v18;
  u1 v19;
  u8* v20;
  u1 v21;
  u8* v22;
  u8** v23;
  u32* v24;
  u32* v25;
L0: ;
  v0 = (struct S40_class_std__vector_322*)(&(*a0).f2);
  v1 = (a1 > ((u64)2305843009213693951ULL));
  if (v1) {
    goto L1;
  } else {
    goto L2;
  }
L1: ;
  _ZSt20__throw_length_errorPKc(((u8*)(&(*(&_str_8)).e[(s64)((s64)((u64)0ULL))])));
  if (v_exc) return;
  __CPROVER_assume(0);
L2: ;
  v2 = (u32**)(&(*a0).f2.f0.f0.f0.f2);
  v3 = *v2;
  v4 = (u32**)(&(*v0).f0.f0.f0.f0);
  v5 = *v4;
  v6 = ((u64)((u64)v3));
  v7 = ((u64)((u64)v5));
  v8 = v_pdiff((u8*)v3, (u8*)v5);
  v9 = ((u64)(((s64)v8) >> ((u64)2ULL)));
  v10 = (v9 < a1);
  if (v10) {
    goto L3;
  } else {
    goto L8;
  }
L3: ;
  v11 = (u32**)(&(*a0).f2.f0.f0.f0.f1);
  v12 = *v11;
  v13 = ((u64)((u64)v12));
  v14 = v_pdiff((u8*)v12, (u8*)v5);
  v15 = ((u64)(((s64)v14) >> ((u64)2ULL)));
  v16 = ((u64)(a1 << ((u64)2ULL)));
  v17 = (u8*)((v16 % sizeof(u32) == 0) ? __CPROVER_allocate(sizeof(u32) * (v16 / sizeof(u32)), 0) : __CPROVER_allocate(v16, 0));
  v18 = (u32*)v17;
  v19 = (((s64)v14) > ((s64)((u64)0ULL)));
  if (v19) {
    goto L4;
  } else {
    goto L5;
  }
L4: ;
  v20 = (u8*)v5;
  v_memmove((u8*)v17, (u8*)v20, (u64)v14);
  goto L5;
L5: ;
  v21 = ((u8*)v5 == (u8*)((u32*)0));
  if (v21) {
    goto L7;
  } else {
    goto L6;
  }
L6: ;
  v22 = (u8*)v5;
  _ZdlPv(v22);
  goto L7;
L7: ;
  v23 = (u8**)&(*a0).f2.f0.f0.f0.f0;
  *v23 = v17;
  v24 = (u32*)(v18 + (s64)((s64)v15));
  *v11 = v24;
  v25 = (u32*)(v18 + (s64)((s64)a1));
  *v2 = v25;
  goto L8;
L8: ;
  return;
}

void _ZN14OpenVolumeMesh16PropertyStorageTIjE6resizeEm(struct S38_class_OpenVolumeMesh__PropertyStorageT_3* a0, u64 a1) {
  struct S40_class_std__vector_322* v0;
  u32** v1;
  u32* v2;
  u32** v3;
  u32* v4;
  u64 v5;
  u64 v6;
  u64 v7;
  u64 v8;
  u1 v9;
  u32* v10;
  u64 v11;
  u1 v12;
  u32* v13;
  u1 v14;
L0: ;
  v0 = (struct S40_class_std__vector_322*)(&(*a0).f2);
  v1 = (u32**)(&(*a0).f2.f0.f0.f0.f1);
  v2 = *v1;
  v3 = (u32**)(&(*v0).f0.f0.f0.f0);
  v4 = *v3;
  v5 = ((u64)((u64)v2));
  v6 = ((u64)((u64)v4));
  v7 = v_pdiff((u8*)v2, (u8*)v4);
  v8 = ((u64)(((s64)v7) >> ((u64)2ULL)));
  v9 = (v8 < a1);
  if (v9) {
    goto L1;
  } else {
    goto L2;
  }
L1: ;
  v10 = (u32*)(&(*a0).f3);
  v11 = ((u64)(a1 - v8));
  _ZNSt6vectorIjSaIjEE14_M_fill_insertEN9__gnu_cxx17__normal_iteratorIPjS1_EEmRKj(v0, v2, v11, v10);
  if (v_exc) return;
  goto L5;
L2: ;
  v12 = (v8 > a1);
  if (v12) {
    goto L3;
  } else {
    goto L5;
  }
L3: ;
  v13 = (u32*)(v4 + (s64)((s64)a1));
  v14 = ((u8*)v2 == (u8*)v13);
  if (v14) {
    goto L5;
  } else {
    goto L4;
  }
L4: ;
  *v1 = v13;
  goto L5;
L5: ;
  return;
}

u64 _ZNK14OpenVolumeMesh16PropertyStorageTIjE4sizeEv(struct S38_class_OpenVolumeMesh__PropertyStorageT_3* a0) {
  u32** v0;
  u32* v1;
  u32** v2;
  u32* v3;
  u64 v4;
  u64 v5;
  u64 v6;
  u64 v7;
L0: ;
  v0 = (u32**)(&(*a0).f2.f0.f0.f0.f1);
  v1 = *v0;
  v2 = (u32**)(&(*a0).f2.f0.f0.f0.f0);
  v3 = *v2;
  v4 = ((u64)((u64)v1));
  v5 = ((u64)((u64)v3));
  v6 = v_pdiff((u8*)v1, (u8*)v3);
  v7 = ((u64)(((s64)v6) >> ((u64)2ULL)));
  return v7;
}

void _ZN14OpenVolumeMesh16PropertyStorageTIjE5clearEv(struct S38_class_OpenVolumeMesh__PropertyStorageT_3* a0) {
  u32** v0;
  u32* v1;
  u32** v2;
  u32* v3;
  u1 v4;
L0: ;
  v0 = (u32**)(&(*a0).f2.f0.f0.f0.f0);
  v1 = *v0;
  v2 = (u32**)(&(*a0).f2.f0.f0.f0.f1);
  v3 = *v2;
  v4 = ((u8*)v3 == (u8*)v1);
  if (v4) {
    goto L2;
  } else {
    goto L1;
  }
L1: ;
  *v2 = v1;
  goto L2;
L2: ;
  return;
}

void _ZN14OpenVolumeMesh16PropertyStorageTIjE9push_backEv(struct S38_class_OpenVolumeMesh__PropertyStorageT_3* a0) {
  u32* v0;
  u32** v1;
  u32* v2;
  u32** v3;
  u32* v4;
  u1 v5;
  u32 v6;
  u32* v7;
  struct S40_class_std__vector_322* v8;
L0: ;
  v0 = (u32*)(&(*a0).f3);
  v1 = (u32**)(&(*a0).f2.f0.f0.f0.f1);
  v2 = *v1;
  v3 = (u32**)(&(*a0).f2.f0.f0.f0.f2);
  v4 = *v3;
  v5 = ((u8*)v2 == (u8*)v4);
  if (v5) {
    goto L2;
  } else {
    goto L1;
  }
L1: ;
  v6 = *v0;
  *v2 = v6;
  v7 = (u32*)(v2 + (s64)((s64)((u64)1ULL)));
  *v1 = v7;
  goto L3;
L2: ;
  v8 = (struct S40_class_std__vector_322*)(&(*a0).f2);
  _ZNSt6vectorIjSaIjEE17_M_realloc_insertIJRKjEEEvN9__gnu_cxx17__normal_iteratorIPjS1_EEDpOT_(v8, v2, v0);
  if (v_exc) return;
  goto L3;
L3: ;
  return;
}

void _ZN14OpenVolumeMesh16PropertyStorageTIjE4swapEmm(struct S38_class_OpenVolumeMesh__PropertyStorageT_3* a0, u64 a1, u64 a2) {
  u32** v0;
  u32* v1;
  u32* v2;
  u32* v3;
  u32 v4;
  u32 v5;
L0: ;
  v0 = (u32**)(&(*a0).f2.f0.f0.f0.f0);
  v1 = *v0;
  v2 = (u32*)(v1 + (s64)((s64)a1));
  v3 = (u32*)(v1 + (s64)((s64)a2));
  v4 = *v2;
  v5 = *v3;
  *v2 = v5;
  *v3 = v4;
  return;
}

void _ZN14OpenVolumeMesh16PropertyStorageTIjE4copyEmm(struct S38_class_OpenVolumeMesh__PropertyStorageT_3* a0, u64 a1, u64 a2) {
  u32** v0;
  u32* v1;
  u32* v2;
  u32 v3;
  u32* v4;
L0: ;
  v0 = (u32**)(&(*a0).f2.f0.f0.f0.f0);
  v1 = *v0;
  v2 = (u32*)(v1 + (s64)((s64)a1));
  v3 = *v2;
  v4 = (u32*)(v1 + (s64)((s64)a2));
  *v4 = v3;
  return;
}

void _ZN14OpenVolumeMesh16PropertyStorageTIjE14delete_elementEm(struct S38_class_OpenVolumeMesh__PropertyStorageT_3* a0, u64 a1) {
  u32** v0;
  u32* v1;
  u32* v2;
  u32* v3;
  u32** v4;
  u32* v5;
  u1 v6;
  u64 v7;
  u64 v8;
  u64 v9;
  u1 v10;
  u8* v11;
  u8* v12;
  u32* v13;
  u32* v14;
L0: ;
  v0 = (u32**)(&(*a0).f2.f0.f0.f0.f0);
  v1 = *v0;
  v2 = (u32*)(v1 + (s64)((s64)a1));
  v3 = (u32*)(v2 + (s64)((s64)((u64)1ULL)));
  v4 = (u32**)(&(*a0).f2.f0.f0.f0.f1);
  v5 = *v4;
  v6 = ((u8*)v3 == (u8*)v5);
  if (v6) {
    goto L3;
  } else {
    goto L1;
  }
L1: ;
  v7 = ((u64)((u64)v5));
  v8 = ((u64)((u64)v3));
  v9 = v_pdiff((u8*)v5, (u8*)v3);
  v10 = (v9 == ((u64)0ULL));
  if (v10) {
    goto L3;
  } else {
    goto L2;
  }
L2: ;
  v11 = (u8*)v2;
  v12 = (u8*)v3;
  { u32* _d = v2; u32* _s = v3; u64 _n = (u64)v9 / 4; __CPROVER_assert((u64)v9 % 4 == 0, "typed memcpy size");
    if (_n) { if (__CPROVER_same_object(_d, _s) && __CPROVER_POINTER_OFFSET(_d) > __CPROVER_POINTER_OFFSET(_s)) { for (u64 _i = _n; _i > 0; --_i) _d[_i-1] = _s[_i-1]; } else { for (u64 _i = 0; _i < _n; ++_i) _d[_i] = _s[_i]; } } }
  goto L3;
L3: ;
  v13 = *v4;
  v14 = (u32*)(v13 + (s64)((s64)((u64)18446744073709551615ULL)));
  *v4 = v14;
  return;
}

void _ZNK14OpenVolumeMesh16PropertyStorageTIjE5cloneEv(struct S33_class_std__weak_ptr* a0, struct S38_class_OpenVolumeMesh__PropertyStorageT_3* a1) {
  struct S0_class_std__ios_base__Init* v0; struct S0_class_std__ios_base__Init v0_m;
  struct S55_class_std__shared_ptr_348* v1; struct S55_class_std__shared_ptr_348 v1_m;
  u8* v2;
  u8* v3;
  struct S43_class_std____shared_ptr_349* v4;
  struct S38_class_OpenVolumeMesh__PropertyStorageT_3** v5;
  struct S38_class_OpenVolumeMesh__PropertyStorageT_3* v6;
  struct S39_class_OpenVolumeMesh__detail__Tracker** v7;
  struct S39_class_OpenVolumeMesh__detail__Tracker* v8;
  u1 v9;
  struct S16_class_OpenVolumeMesh__PropertyStorageBas* v10;
  struct S26_class_std__map* v11;
  u8* v12;
  u8* v13;
  struct S14_struct_std___Rb_tree_node_64** v14;
  u8* v15;
  struct S11_struct_std___Rb_tree_node_base* v16;
  struct S14_struct_std___Rb_tree_node_64* v17;
  u1 v18;
  struct S14_struct_std___Rb_tree_node_64* v19; struct S14_struct_std___Rb_tree_node_64* v19_t;
  struct S11_struct_std___Rb_tree_node_base* v20; struct S11_struct_std___Rb_tree_node_base* v20_t;
  struct S65_struct___gnu_cxx____aligned_membuf_65* v21;
  struct S16_class_OpenVolumeMesh__PropertyStorageBas** v22;
  struct S16_class_OpenVolumeMesh__PropertyStorageBas* v23;
  u1 v24;
  struct S11_struct_std___Rb_tree_node_base** v25;
  u1 v26;
  struct S11_struct_std___Rb_tree_node_base* v27;
  struct S11_struct_std___Rb_tree_node_base** v28;
  struct S14_struct_std___Rb_tree_node_64** v29;
  struct S14_struct_std___Rb_tree_node_64* v30;
  struct S11_struct_std___Rb_tree_node_base** v31;
  struct S14_struct_std___Rb_tree_node_64** v32;
  struct S14_struct_std___Rb_tree_node_64* v33;
  u1 v34;
  struct S14_struct_std___Rb_tree_node_64* v35; struct S14_struct_std___Rb_tree_node_64* v35_t;
  struct S11_struct_std___Rb_tree_node_base* v36; struct S11_struct_std___Rb_tree_node_base* v36_t;
  struct S65_struct___gnu_cxx____aligned_membuf_65* v37;
  struct S16_class_OpenVolumeMesh__PropertyStorageBas** v38;
  struct S16_class_OpenVolumeMesh__PropertyStorageBas* v39;
  u1 v40;
  struct S11_struct_std___Rb_tree_node_base** v41;
  struct S11_struct_std___Rb_tree_node_base* v42;
  struct S11_struct_std___Rb_tree_node_base** v43;
  struct S11_struct_std___Rb_tree_node_base* v44;
  struct S11_struct_std___Rb_tree_node_base** v45;
  struct S14_struct_std___Rb_tree_node_64** v46;
  struct S14_struct_std___Rb_tree_node_64* v47;
  u1 v48;
  struct S11_struct_std___Rb_tree_node_base* v49; struct S11_struct_std___Rb_tree_node_base* v49_t;
  u1 v50;
  struct S14_struct_std___Rb_tree_node_64* v51; struct S14_struct_std___Rb_tree_node_64* v51_t;
  struct S11_struct_std___Rb_tree_node_base* v52; struct S11_struct_std___Rb_tree_node_base* v52_t;
  struct S65_struct___gnu_cxx____aligned_membuf_65* v53;
  struct S16_class_OpenVolumeMesh__PropertyStorageBas** v54;
  struct S16_class_OpenVolumeMesh__PropertyStorageBas* v55;
  u1 v56;
  struct S11_struct_std___Rb_tree_node_base* v57;
  struct S11_struct_std___Rb_tree_node_base** v58;
  struct S11_struct_std___Rb_tree_node_base** v59;
  struct S11_struct_std___Rb_tree_node_base* v60;
  struct S11_struct_std___Rb_tree_node_base** v61;
  struct S14_struct_std___Rb_tree_node_64** v62;
  struct S14_struct_std___Rb_tree_node_64* v63;
  u1 v64;
  struct S11_struct_std___Rb_tree_node_base* v65; struct S11_struct_std___Rb_tree_node_base* v65_t;
  struct S11_struct_std___Rb_tree_node_base** v66; struct S11_struct_std___Rb_tree_node_base** v66_t;
  struct S14_struct_std___Rb_tree_node_64** v67;
  struct S14_struct_std___Rb_tree_node_64* v68;
  u1 v69;
  struct S11_struct_std___Rb_tree_node_base* v70; struct S11_struct_std___Rb_tree_node_base* v70_t;
  struct S11_struct_std___Rb_tree_node_base* v71; struct S11_struct_std___Rb_tree_node_base* v71_t;
  struct S10_class_std___Rb_tree* v72;
  struct S16_class_OpenVolumeMesh__PropertyStorageBas** v73;
  struct S38_class_OpenVolumeMesh__PropertyStorageT_3** v74;
  struct S16_class_OpenVolumeMesh__PropertyStorageBas** v75;
  struct S16_class_OpenVolumeMesh__PropertyStorageBas* v76;
  struct S13_class_std___Sp_counted_base** v77;
  struct S13_class_std___Sp_counted_base** v78;
  struct S13_class_std___Sp_counted_base* v79;
  struct S63 v80;
L0: ;
  v0 = &v0_m;
  v1 = &v1_m;
  v2 = (u8*)v1;
  v3 = (u8*)(&(*v0).f0);
  v4 = (struct S43_class_std____shared_ptr_349*)(&(*v1).f0);
  _ZNSt12__shared_ptrIN14OpenVolumeMesh16PropertyStorageTIjEELN9__gnu_cxx12_Lock_policyE2EEC2ISaIvEJRKS2_EEESt20_Sp_alloc_shared_tagIT_EDpOT0_(v4, v0, a1);
  if (v_exc) return;
  v5 = (struct S38_class_OpenVolumeMesh__PropertyStorageT_3**)(&(*v1).f0.f0);
  v6 = *v5;
  v7 = (struct S39_class_OpenVolumeMesh__detail__Tracker**)(&(*v6).f0.f0.f1);
  v8 = *v7;
  v9 = ((u8*)v8 == (u8*)((struct S39_class_OpenVolumeMesh__detail__Tracker*)0));
  if (v9) {
    goto L11;
  } else {
    goto L1;
  }
L1: ;
  v10 = (struct S16_class_OpenVolumeMesh__PropertyStorageBas*)v6;
  v11 = (struct S26_class_std__map*)(&(*v8).f1);
  v12 = (u8*)(&(*v11).f0.f0.f0.f0.f0);
  v13 = (u8*)&(*v8).f1.f0.f0.f1.f0.f1;
  v14 = (struct S14_struct_std___Rb_tree_node_64**)&(*v8).f1.f0.f0.f1.f0.f1;
  v15 = (u8*)&(*v8).f1.f0.f0.f1.f0.f0;
  v16 = (struct S11_struct_std___Rb_tree_node_base*)&(*v8).f1.f0.f0.f1.f0;
  v17 = *v14;
  v18 = ((u8*)v17 == (u8*)((struct S14_struct_std___Rb_tree_node_64*)0));
  if (v18) {
    v70_t = v16;
    v71_t = v16;
    v70 = v70_t;
    v71 = v71_t;
    goto L10;
  } else {
    v19_t = v17;
    v20_t = v16;
    v19 = v19_t;
    v20 = v20_t;
    goto L2;
  }
L2: ;
  v21 = (struct S65_struct___gnu_cxx____aligned_membuf_65*)(&(*v19).f1);
  v22 = (struct S16_class_OpenVolumeMesh__PropertyStorageBas**)v21;
  v23 = *v22;
  v24 = v_plt((u8*)v23, (u8*)v10);
  if (v24) {
    goto L3;
  } else {
    goto L4;
  }
L3: ;
  v25 = (struct S11_struct_std___Rb_tree_node_base**)(&(*v19).f0.f3);
  v65_t = v20;
  v66_t = v25;
  v65 = v65_t;
  v66 = v66_t;
  goto L9;
L4: ;
  v26 = v_plt((u8*)v10, (u8*)v23);
  v27 = (struct S11_struct_std___Rb_tree_node_base*)(&(*v19).f0);
  v28 = (struct S11_struct_std___Rb_tree_node_base**)(&(*v19).f0.f2);
  if (v26) {
    v65_t = v27;
    v66_t = v28;
    v65 = v65_t;
    v66 = v66_t;
    goto L9;
  } else {
    goto L5;
  }
L5: ;
  v29 = (struct S14_struct_std___Rb_tree_node_64**)&(*v19).f0.f2;
  v30 = *v29;
  v31 = (struct S11_struct_std___Rb_tree_node_base**)(&(*v19).f0.f3);
  v32 = (struct S14_struct_std___Rb_tree_node_64**)&(*v19).f0.f3;
  v33 = *v32;
  v34 = ((u8*)v30 == (u8*)((struct S14_struct_std___Rb_tree_node_64*)0));
  if (v34) {
    v49 = v27;
    goto L7;
  } else {
    v35_t = v30;
    v36_t = v27;
    v35 = v35_t;
    v36 = v36_t;
    goto L6;
  }
L6: ;
  v37 = (struct S65_struct___gnu_cxx____aligned_membuf_65*)(&(*v35).f1);
  v38 = (struct S16_class_OpenVolumeMesh__PropertyStorageBas**)v37;
  v39 = *v38;
  v40 = v_plt((u8*)v39, (u8*)v10);
  v41 = (struct S11_struct_std___Rb_tree_node_base**)(&(*v35).f0.f3);
  v42 = (struct S11_struct_std___Rb_tree_node_base*)(&(*v35).f0);
  v43 = (struct S11_struct_std___Rb_tree_node_base**)(&(*v35).f0.f2);
  v44 = (v40 ? v36 : v42);
  v45 = (v40 ? v41 : v43);
  v46 = (struct S14_struct_std___Rb_tree_node_64**)v45;
  v47 = *v46;
  v48 = ((u8*)v47 == (u8*)((struct S14_struct_std___Rb_tree_node_64*)0));
  if (v48) {
    v49 = v44;
    goto L7;
  } else {
    v35_t = v47;
    v36_t = v44;
    v35 = v35_t;
    v36 = v36_t;
    goto L6;
  }
L7: ;
  v50 = ((u8*)v33 == (u8*)((struct S14_struct_std___Rb_tree_node_64*)0));
  if (v50) {
    v70_t = v49;
    v71_t = v20;
    v70 = v70_t;
    v71 = v71_t;
    goto L10;
  } else {
    v51_t = v33;
    v52_t = v20;
    v51 = v51_t;
    v52 = v52_t;
    goto L8;
  }
L8: ;
  v53 = (struct S65_struct___gnu_cxx____aligned_membuf_65*)(&(*v51).f1);
  v54 = (struct S16_class_OpenVolumeMesh__PropertyStorageBas**)v53;
  v55 = *v54;
  v56 = v_plt((u8*)v10, (u8*)v55);
  v57 = (struct S11_struct_std___Rb_tree_node_base*)(&(*v51).f0);
  v58 = (struct S11_struct_std___Rb_tree_node_base**)(&(*v51).f0.f2);
  v59 = (struct S11_struct_std___Rb_tree_node_base**)(&(*v51).f0.f3);
  v60 = (v56 ? v57 : v52);
  v61 = (v56 ? v58 : v59);
  v62 = (struct S14_struct_std___Rb_tree_node_64**)v61;
  v63 = *v62;
  v64 = ((u8*)v63 == (u8*)((struct S14_struct_std___Rb_tree_node_64*)0));
  if (v64) {
    v70_t = v49;
    v71_t = v60;
    v70 = v70_t;
    v71 = v71_t;
    goto L10;
  } else {
    v51_t = v63;
    v52_t = v60;
    v51 = v51_t;
    v52 = v52_t;
    goto L8;
  }
L9: ;
  v67 = (struct S14_struct_std___Rb_tree_node_64**)v66;
  v68 = *v67;
  v69 = ((u8*)v68 == (u8*)((struct S14_struct_std___Rb_tree_node_64*)0));
  if (v69) {
    v70_t = v65;
    v71_t = v65;
    v70 = v70_t;
    v71 = v71_t;
    goto L10;
  } else {
    v19_t = v68;
    v20_t = v65;
    v19 = v19_t;
    v20 = v20_t;
    goto L2;
  }
L10: ;
  v72 = (struct S10_class_std___Rb_tree*)(&(*v11).f0);
  _ZNSt8_Rb_treeIPN14OpenVolumeMesh19PropertyStorageBaseES2_St9_IdentityIS2_ESt4lessIS2_ESaIS2_EE12_M_erase_auxESt23_Rb_tree_const_iteratorIS2_ESA_(v72, v70, v71);
  if (v_exc) {
    goto L12;
  }
  goto L11;
L11: ;
  *v7 = ((struct S39_class_OpenVolumeMesh__detail__Tracker*)0);
  v73 = (struct S16_class_OpenVolumeMesh__PropertyStorageBas**)(&(*a0).f0.f0);
  v74 = (struct S38_class_OpenVolumeMesh__PropertyStorageT_3**)(&(*v1).f0.f0);
  v75 = (struct S16_class_OpenVolumeMesh__PropertyStorageBas**)&(*v1).f0.f0;
  v76 = *v75;
  *v73 = v76;
  v77 = (struct S13_class_std___Sp_counted_base**)(&(*a0).f0.f1.f0);
  *v77 = ((struct S13_class_std___Sp_counted_base*)0);
  v78 = (struct S13_class_std___Sp_counted_base**)(&(*v1).f0.f1.f0);
  v79 = *v78;
  *v78 = ((struct S13_class_std___Sp_counted_base*)0);
  *v77 = v79;
  *v74 = ((struct S38_class_OpenVolumeMesh__PropertyStorageT_3*)0);
  return;
L12: ;
  v80.f0 = v_exc_obj;
  v80.f1 = 0;
  v_exc = 0;
  _ZNSt12__shared_ptrIN14OpenVolumeMesh16PropertyStorageTIjEELN9__gnu_cxx12_Lock_policyE2EED2Ev(v4);
  v_exc = 1; return;
}

void _ZNK14OpenVolumeMesh16PropertyStorageTIjE15typeNameWrapperB5cxx11Ev(struct S27_class_std____cxx11__basic_string* a0, struct S38_class_OpenVolumeMesh__PropertyStorageT_3* a1) {
L0: ;
  _ZN14OpenVolumeMesh8typeNameIjEEKNSt7__cxx1112basic_stringIcSt11char_traitsIcESaIcEEEv(a0);
  if (v_exc) return;
  return;
}

void _ZNK14OpenVolumeMesh16PropertyStorageTIjE9serializeERSo(struct S38_class_OpenVolumeMesh__PropertyStorageT_3* a0, struct S17_class_std__basic_ostream* a1) {
  u32** v0;
  u32* v1;
  u32** v2;
  u32* v3;
  u1 v4;
  u8** v5;
  struct S68_class_std__basic_streambuf** v6;
  u8* v7;
  u32* v8; u32* v8_t;
  u32 v9;
  u64 v10;
  struct S17_class_std__basic_ostream* v11;
  u8* v12;
  u8* v13;
  u64* v14;
  u64 v15;
  u8* v16;
  struct S22_class_std__ctype** v17;
  struct S22_class_std__ctype* v18;
  u1 v19;
  u8* v20;
  u8 v21;
  u1 v22;
  u8* v23;
  u8 v24;
  fnptr_t** v25;
  fnptr_t* v26;
  fnptr_t* v27;
  fnptr_t v28;
  u8 v29;
  u8 v30; u8 v30_t;
  struct S17_class_std__basic_ostream* v31;
  struct S17_class_std__basic_ostream* v32;
  u32* v33;
  u32* v34;
  u1 v35;
L0: ;
  v0 = (u32**)(&(*a0).f2.f0.f0.f0.f0);
  v1 = *v0;
  v2 = (u32**)(&(*a0).f2.f0.f0.f0.f1);
  v3 = *v2;
  v4 = ((u8*)v1 == (u8*)v3);
  if (v4) {
    goto L2;
  } else {
    goto L1;
  }
L1: ;
  v5 = (u8**)&(*a1).f0;
  v6 = (struct S68_class_std__basic_streambuf**)(&(*a1).f1.f4);
  v7 = (u8*)v6;
  v8 = v1;
  goto L3;
L2: ;
  return;
L3: ;
  v9 = *v8;
  v10 = ((u64)(v9));
  v11 = _ZNSo9_M_insertImEERSoT_(a1, v10);
  if (v_exc) return;
  v12 = *v5;
  v13 = (u8*)(v12 + (s64)((s64)((u64)18446744073709551592ULL)));
  v14 = (u64*)v13;
  v15 = *v14;
  v16 = (u8*)(v7 + (s64)((s64)v15));
  v17 = (struct S22_class_std__ctype**)v16;
  v18 = *v17;
  v19 = ((u8*)v18 == (u8*)((struct S22_class_std__ctype*)0));
  if (v19) {
    goto L4;
  } else {
    goto L5;
  }
L4: ;
  _ZSt16__throw_bad_castv();
  if (v_exc) return;
  __CPROVER_assume(0);
L5: ;
  v20 = (u8*)(&(*v18).f8);
  v21 = *v20;
  v22 = (v21 == ((u8)0ULL));
  if (v22) {
    goto L7;
  } else {
    goto L6;
  }
L6: ;
  v23 = (u8*)(&(*v18).f9.e[(s64)((s64)((u64)10ULL))]);
  v24 = *v23;
  v30 = v24;
  goto L8;
L7: ;
  _ZNKSt5ctypeIcE13_M_widen_initEv(v18);
  if (v_exc) return;
  v25 = (fnptr_t**)&(*v18).f0.f0;
  v26 = *v25;
  v27 = (fnptr_t*)(v26 + (s64)((s64)((u64)6ULL)));
  v28 = *v27;
  v29 = ((FT2)v28)(v18, ((u8)10ULL));
  if (v_exc) return;
  v30 = v29;
  goto L8;
L8: ;
  v31 = _ZNSo3putEc(a1, v30);
  if (v_exc) return;
  v32 = _ZNSo5flushEv(v31);
  if (v_exc) return;
  v33 = (u32*)(v8 + (s64)((s64)((u64)1ULL)));
  v34 = *v2;
  v35 = ((u8*)v33 == (u8*)v34);
  if (v35) {
    goto L2;
  } else {
    v8 = v33;
    goto L3;
  }
}

void _ZN14OpenVolumeMesh16PropertyStorageTIjE11deserializeERSi(struct S38_class_OpenVolumeMesh__PropertyStorageT_3* a0, struct S18_class_std__basic_istream* a1) {
  u32** v0;
  u32** v1;
  u32* v2;
  u32* v3;
  u1 v4;
  u32** v5;
  u64 v6; u64 v6_t;
  u32* v7;
  u32* v8;
  struct S18_class_std__basic_istream* v9;
  u64 v10;
  u64 v11;
  u32* v12;
  u32* v13;
  u64 v14;
  u64 v15;
  u64 v16;
  u64 v17;
  u1 v18;
L0: ;
  v0 = (u32**)(&(*a0).f2.f0.f0.f0.f1);
  v1 = (u32**)(&(*a0).f2.f0.f0.f0.f0);
  v2 = *v0;
  v3 = *v1;
  v4 = ((u8*)v2 == (u8*)v3);
  if (v4) {
    goto L2;
  } else {
    goto L1;
  }
L1: ;
  v5 = (u32**)(&(*a0).f2.f0.f0.f0.f0);
  v6 = ((u64)0ULL);
  goto L3;
L2: ;
  return;
L3: ;
  v7 = *v5;
  v8 = (u32*)(v7 + (s64)((s64)v6));
  v9 = _ZNSi10_M_extractIjEERSiRT_(a1, v8);
  if (v_exc) return;
  v10 = ((u64)(v6 + ((u64)1ULL)));
  v11 = ((u64)(v10 & ((u64)4294967295ULL)));
  v12 = *v0;
  v13 = *v1;
  v14 = ((u64)((u64)v12));
  v15 = ((u64)((u64)v13));
  v16 = v_pdiff((u8*)v12, (u8*)v13);
  v17 = ((u64)(((s64)v16) >> ((u64)2ULL)));
  v18 = (v17 > v11);
  if (v18) {
    v6 = v11;
    goto L3;
  } else {
    goto L2;
  }
}

void _ZN14OpenVolumeMesh16PropertyStorageTIjE17make_property_ptrEv(struct S41_class_std__unique_ptr* a0, struct S38_class_OpenVolumeMesh__PropertyStorageT_3* a1) {
  u8* v0;
  u8 v1;
L0: ;
  v0 = (u8*)(&(*a1).f0.f4);
  v1 = *v0;
  _ZN14OpenVolumeMesh18entitytag_dispatchIZNS_16PropertyStorageTIjE17make_property_ptrEvEUlT_E_JEEEDaNS_10EntityTypeES3_DpT0_(a0, v1, a1);
  if (v_exc) return;
  return;
}

void _ZN14OpenVolumeMesh16PropertyStorageTIjE18assign_values_fromEPKNS_19PropertyStorageBaseE(struct S38_class_OpenVolumeMesh__PropertyStorageT_3* a0, struct S16_class_OpenVolumeMesh__PropertyStorageBas* a1) {
  struct S38_class_OpenVolumeMesh__PropertyStorageT_3* v0;
  struct S40_class_std__vector_322* v1;
  struct S40_class_std__vector_322* v2;
  struct S40_class_std__vector_322* v3;
  u32* v4;
  u32 v5;
  u32* v6;
L0: ;
  v0 = _ZNK14OpenVolumeMesh19PropertyStorageBase16cast_to_StorageTIjEEPKNS_16PropertyStorageTIT_EEv(a1);
  if (v_exc) return;
  v1 = (struct S40_class_std__vector_322*)(&(*v0).f2);
  v2 = (struct S40_class_std__vector_322*)(&(*a0).f2);
  v3 = _ZNSt6vectorIjSaIjEEaSERKS1_(v2, v1);
  if (v_exc) return;
  v4 = (u32*)(&(*v0).f3);
  v5 = *v4;
  v6 = (u32*)(&(*a0).f3);
  *v6 = v5;
  return;
}

void _ZN14OpenVolumeMesh16PropertyStorageTIjE16move_values_fromEPNS_19PropertyStorageBaseE(struct S38_class_OpenVolumeMesh__PropertyStorageT_3* a0, struct S16_class_OpenVolumeMesh__PropertyStorageBas* a1) {
  struct S38_class_OpenVolumeMesh__PropertyStorageT_3* v0;
  struct S40_class_std__vector_322* v1;
  struct S40_class_std__vector_322* v2;
  struct S40_class_std__vector_322* v3;
  u32* v4;
  u32 v5;
  u32* v6;
L0: ;
  v0 = _ZN14OpenVolumeMesh19PropertyStorageBase16cast_to_StorageTIjEEPNS_16PropertyStorageTIT_EEv(a1);
  if (v_exc) return;
  v1 = (struct S40_class_std__vector_322*)(&(*v0).f2);
  v2 = (struct S40_class_std__vector_322*)(&(*a0).f2);
  v3 = _ZNSt6vectorIjSaIjEEaSERKS1_(v2, v1);
  if (v_exc) return;
  v4 = (u32*)(&(*v0).f3);
  v5 = *v4;
  v6 = (u32*)(&(*a0).f3);
  *v6 = v5;
  return;
}

struct S38_class_OpenVolumeMesh__PropertyStorageT_3* _ZN14OpenVolumeMesh19PropertyStorageBase16cast_to_StorageTIjEEPNS_16PropertyStorageTIT_EEv(struct S16_class_OpenVolumeMesh__PropertyStorageBas* a0) {
  struct S27_class_std____cxx11__basic_string* v0; struct S27_class_std____cxx11__basic_string v0_m;
  u8* v1;
  u64* v2;
  u64 v3;
  u64* v4;
  u64 v5;
  u1 v6;
  u1 v7;
  u8** v8;
  u8* v9;
  u8** v10;
  u8* v11;
  u32 v12;
  u1 v13;
  u1 v14; u1 v14_t;
  u8** v15;
  u8* v16;
  struct S66_union_anon* v17;
  u8* v18;
  u1 v19;
  u8* v20;
  fnptr_t** v21;
  struct S38_class_OpenVolumeMesh__PropertyStorageT_3* v22;
L0: ;
  v0 = &v0_m;
  v1 = (u8*)v0;
  _ZN14OpenVolumeMesh6detail18internal_type_nameB5cxx11ERKSt9type_info(v0, ((struct S48_class_std__type_info*)(&_ZTIj)));
  if (v_exc) return (struct S38_class_OpenVolumeMesh__PropertyStorageT_3*)0;
  v2 = (u64*)(&(*v0).f1);
  v3 = *v2;
  v4 = (u64*)(&(*a0).f3.f1);
  v5 = *v4;
  v6 = (v3 == v5);
  if (v6) {
    goto L1;
  } else {
    v14 = ((u1)1ULL);
    goto L3;
  }
L1: ;
  v7 = (v3 == ((u64)0ULL));
  if (v7) {
    v14 = ((u1)0ULL);
    goto L3;
  } else {
    goto L2;
  }
L2: ;
  v8 = (u8**)(&(*a0).f3.f0.f0);
  v9 = *v8;
  v10 = (u8**)(&(*v0).f0.f0);
  v11 = *v10;
  v12 = bcmp(v11, v9, v3);
  v13 = (v12 != ((u32)0ULL));
  v14 = v13;
  goto L3;
L3: ;
  v15 = (u8**)(&(*v0).f0.f0);
  v16 = *v15;
  v17 = (struct S66_union_anon*)(&(*v0).f2);
  v18 = (u8*)v17;
  v19 = ((u8*)v16 == (u8*)v18);
  if (v19) {
    goto L5;
  } else {
    goto L4;
  }
L4: ;
  _ZdlPv(v16);
  goto L5;
L5: ;
  if (v14) {
    goto L6;
  } else {
    goto L7;
  }
L6: ;
  v20 = __cxa_allocate_exception(((u64)8ULL));
  v21 = (fnptr_t**)v20;
  *v21 = ((fnptr_t*)((u8**)(&(*(&_ZTVSt8bad_cast)).f0.e[(s64)((s64)((u64)2ULL))])));
  __cxa_throw(v20, ((u8*)(&_ZTISt8bad_cast)), ((u8*)((fnptr_t)_ZNSt8bad_castD1Ev)));
  if (v_exc) return (struct S38_class_OpenVolumeMesh__PropertyStorageT_3*)0;
  __CPROVER_assume(0);
L7: ;
  v22 = (struct S38_class_OpenVolumeMesh__PropertyStorageT_3*)a0;
  return v22;
}

struct S40_class_std__vector_322* _ZNSt6vectorIjSaIjEEaSERKS1_(struct S40_class_std__vector_322* a0, struct S40_class_std__vector_322* a1) {
  u1 v0;
  u32** v1;
  u32* v2;
  u32** v3;
  u32* v4;
  u64 v5;
  u64 v6;
  u64 v7;
  u64 v8;
  u32** v9;
  u32* v10;
  u32** v11;
  u32* v12;
  u64 v13;
  u64 v14;
  u64 v15;
  u64 v16;
  u1 v17;
  u1 v18;
  u1 v19;
  u8* v20;
  u32* v21;
  u1 v22;
  u8* v23;
  u1 v24;
  u8* v25;
  u8** v26;
  u32* v27;
  u32** v28;
  u32* v29;
  u64 v30;
  u64 v31;
  u64 v32;
  u1 v33;
  u1 v34;
  u8* v35;
  u8* v36;
  u1 v37;
  u8* v38;
  u8* v39;
  u32* v40;
  u32* v41;
  u32* v42;
  u64 v43;
  u64 v44;
  u64 v45;
  u64 v46;
  u32* v47;
  u32* v48;
  u64 v49;
  u64 v50;
  u64 v51;
  u1 v52;
  u8* v53;
  u8* v54;
  u32* v55;
  u32* v56;
  u32** v57;
L0: ;
  v0 = ((u8*)a1 == (u8*)a0);
  if (v0) {
    goto L19;
  } else {
    goto L1;
  }
L1: ;
  v1 = (u32**)(&(*a1).f0.f0.f0.f1);
  v2 = *v1;
  v3 = (u32**)(&(*a1).f0.f0.f0.f0);
  v4 = *v3;
  v5 = ((u64)((u64)v2));
  v6 = ((u64)((u64)v4));
  v7 = v_pdiff((u8*)v2, (u8*)v4);
  v8 = ((u64)(((s64)v7) >> ((u64)2ULL)));
  v9 = (u32**)(&(*a0).f0.f0.f0.f2);
  v10 = *v9;
  v11 = (u32**)(&(*a0).f0.f0.f0.f0);
  v12 = *v11;
  v13 = ((u64)((u64)v10));
  v14 = ((u64)((u64)v12));
  v15 = v_pdiff((u8*)v10, (u8*)v12);
  v16 = ((u64)(((s64)v15) >> ((u64)2ULL)));
  v17 = (v8 > v16);
  if (v17) {
    goto L2;
  } else {
    goto L11;
  }
L2: ;
  v18 = (v7 > ((u64)9223372036854775804ULL));
  if (v18) {
    goto L3;
  } else {
    goto L6;
  }
L3: ;
  v19 = (((s64)v7) < ((s64)((u64)0ULL)));
  if (v19) {
    goto L4;
  } else {
    goto L5;
  }
L4: ;
  _ZSt28__throw_bad_array_new_lengthv();
  if (v_exc) return (struct S40_class_std__vector_322*)0;
  __CPROVER_assume(0);
L5: ;
  _ZSt17__throw_bad_allocv();
  if (v_exc) return (struct S40_class_std__vector_322*)0;
  __CPROVER_assume(0);
L6: ;
  v20 = (u8*)((v7 % sizeof(u32) == 0) ? __CPROVER_allocate(sizeof(u32) * (v7 / sizeof(u32)), 0) : __CPROVER_allocate(v7, 0));
  v21 = (u32*)v20;
  v22 = (v7 == ((u64)0ULL));
  if (v22) {
    goto L8;
  } else {
    goto L7;
  }
L7: ;
  v23 = (u8*)v4;
  v_memcpy((u8*)v20, (u8*)v23, (u64)v7);
  goto L8;
L8: ;
  v24 = ((u8*)v12 == (u8*)((u32*)0));
  if (v24) {
    goto L10;
  } else {
    goto L9;
  }
L9: ;
  v25 = (u8*)v12;
  _ZdlPv(v25);
  goto L10;
L10: ;
  v26 = (u8**)&(*a0).f0.f0.f0.f0;
  *v26 = v20;
  v27 = (u32*)(v21 + (s64)((s64)v8));
  *v9 = v27;
  goto L18;
L11: ;
  v28 = (u32**)(&(*a0).f0.f0.f0.f1);
  v29 = *v28;
  v30 = ((u64)((u64)v29));
  v31 = v_pdiff((u8*)v29, (u8*)v12);
  v32 = ((u64)(((s64)v31) >> ((u64)2ULL)));
  v33 = (v32 < v8);
  if (v33) {
    goto L14;
  } else {
    goto L12;
  }
L12: ;
  v34 = (v7 == ((u64)0ULL));
  if (v34) {
    goto L18;
  } else {
    goto L13;
  }
L13: ;
  v35 = (u8*)v12;
  v36 = (u8*)v4;
  { u32* _d = v12; u32* _s = v4; u64 _n = (u64)v7 / 4; __CPROVER_assert((u64)v7 % 4 == 0, "typed memcpy size");
    if (_n) { if (__CPROVER_same_object(_d, _s) && __CPROVER_POINTER_OFFSET(_d) > __CPROVER_POINTER_OFFSET(_s)) { for (u64 _i = _n; _i > 0; --_i) _d[_i-1] = _s[_i-1]; } else { for (u64 _i = 0; _i < _n; ++_i) _d[_i] = _s[_i]; } } }
  goto L18;
L14: ;
  v37 = (v31 == ((u64)0ULL));
  if (v37) {
    goto L16;
  } else {
    goto L15;
  }
L15: ;
  v38 = (u8*)v12;
  v39 = (u8*)v4;
  { u32* _d = v12; u32* _s = v4; u64 _n = (u64)v31 / 4; __CPROVER_assert((u64)v31 % 4 == 0, "typed memcpy size");
    if (_n) { if (__CPROVER_same_object(_d, _s) && __CPROVER_POINTER_OFFSET(_d) > __CPROVER_POINTER_OFFSET(_s)) { for (u64 _i = _n; _i > 0; --_i) _d[_i-1] = _s[_i-1]; } else { for (u64 _i = 0; _i < _n; ++_i) _d[_i] = _s[_i]; } } }
  goto L16;
L16: ;
  v40 = *v3;
  v41 = *v28;
  v42 = *v11;
  v43 = ((u64)((u64)v41));
  v44 = ((u64)((u64)v42));
  v45 = v_pdiff((u8*)v41, (u8*)v42);
  v46 = ((u64)(((s64)v45) >> ((u64)2ULL)));
  v47 = (u32*)(v40 + (s64)((s64)v46));
  v48 = *v1;
  v49 = ((u64)((u64)v48));
  v50 = ((u64)((u64)v47));
  v51 = v_pdiff((u8*)v48, (u8*)v47);
  v52 = (v51 == ((u64)0ULL));
  if (v52) {
    goto L18;
  } else {
    goto L17;
  }
L17: ;
  v53 = (u8*)v41;
  v54 = (u8*)v47;
  { u32* _d = v41; u32* _s = v47; u64 _n = (u64)v51 / 4; __CPROVER_assert((u64)v51 % 4 == 0, "typed memcpy size");
    if (_n) { if (__CPROVER_same_object(_d, _s) && __CPROVER_POINTER_OFFSET(_d) > __CPROVER_POINTER_OFFSET(_s)) { for (u64 _i = _n; _i > 0; --_i) _d[_i-1] = _s[_i-1]; } else { for (u64 _i = 0; _i < _n; ++_i) _d[_i] = _s[_i]; } } }
  goto L18;
L18: ;
  v55 = *v11;
  v56 = (u32*)(v55 + (s64)((s64)v8));
  v57 = (u32**)(&(*a0).f0.f0.f0.f1);
  *v57 = v56;
  goto L19;
L19: ;
  return a0;
}

struct S38_class_OpenVolumeMesh__PropertyStorageT_3* _ZNK14OpenVolumeMesh19PropertyStorageBase16cast_to_StorageTIjEEPKNS_16PropertyStorageTIT_EEv(struct S16_class_OpenVolumeMesh__PropertyStorageBas* a0) {
  struct S27_class_std____cxx11__basic_string* v0; struct S27_class_std____cxx11__basic_string v0_m;
  u8* v1;
  u64* v2;
  u64 v3;
  u64* v4;
  u64 v5;
  u1 v6;
  u1 v7;
  u8** v8;
  u8* v9;
  u8** v10;
  u8* v11;
  u32 v12;
  u1 v13;
  u1 v14; u1 v14_t;
  u8** v15;
  u8* v16;
  struct S66_union_anon* v17;
  u8* v18;
  u1 v19;
  u8* v20;
  fnptr_t** v21;
  struct S38_class_OpenVolumeMesh__PropertyStorageT_3* v22;
L0: ;
  v0 = &v0_m;
  v1 = (u8*)v0;
  _ZN14OpenVolumeMesh6detail18internal_type_nameB5cxx11ERKSt9type_info(v0, ((struct S48_class_std__type_info*)(&_ZTIj)));
  if (v_exc) return (struct S38_class_OpenVolumeMesh__PropertyStorageT_3*)0;
  v2 = (u64*)(&(*v0).f1);
  v3 = *v2;
  v4 = (u64*)(&(*a0).f3.f1);
  v5 = *v4;
  v6 = (v3 == v5);
  if (v6) {
    goto L1;
  } else {
    v14 = ((u1)1ULL);
    goto L3;
  }
L1: ;
  v7 = (v3 == ((u64)0ULL));
  if (v7) {
    v14 = ((u1)0ULL);
    goto L3;
  } else {
    goto L2;
  }
L2: ;
  v8 = (u8**)(&(*a0).f3.f0.f0);
  v9 = *v8;
  v10 = (u8**)(&(*v0).f0.f0);
  v11 = *v10;
  v12 = bcmp(v11, v9, v3);
  v13 = (v12 != ((u32)0ULL));
  v14 = v13;
  goto L3;
L3: ;
  v15 = (u8**)(&(*v0).f0.f0);
  v16 = *v15;
  v17 = (struct S66_union_anon*)(&(*v0).f2);
  v18 = (u8*)v17;
  v19 = ((u8*)v16 == (u8*)v18);
  if (v19) {
    goto L5;
  } else {
    goto L4;
  }
L4: ;
  _ZdlPv(v16);
  goto L5;
L5: ;
  if (v14) {
    goto L6;
  } else {
    goto L7;
  }
L6: ;
  v20 = __cxa_allocate_exception(((u64)8ULL));
  v21 = (fnptr_t**)v20;
  *v21 = ((fnptr_t*)((u8**)(&(*(&_ZTVSt8bad_cast)).f0.e[(s64)((s64)((u64)2ULL))])));
  __cxa_throw(v20, ((u8*)(&_ZTISt8bad_cast)), ((u8*)((fnptr_t)_ZNSt8bad_castD1Ev)));
  if (v_exc) return (struct S38_class_OpenVolumeMesh__PropertyStorageT_3*)0;
  __CPROVER_assume(0);
L7: ;
  v22 = (struct S38_class_OpenVolumeMesh__PropertyStorageT_3*)a0;
  return v22;
}

void _ZN14OpenVolumeMesh18entitytag_dispatchIZNS_16PropertyStorageTIjE17make_property_ptrEvEUlT_E_JEEEDaNS_10EntityTypeES3_DpT0_(struct S41_class_std__unique_ptr* a0, u8 a1, struct S38_class_OpenVolumeMesh__PropertyStorageT_3* a2) {
  struct S42_class_anon_445* v0; struct S42_class_anon_445 v0_m;
  struct S38_class_OpenVolumeMesh__PropertyStorageT_3** v1;
  u8* v2;
  struct S20_class_std__runtime_error* v3;
  struct S63 v4;
L0: ;
  v0 = &v0_m;
  v1 = (struct S38_class_OpenVolumeMesh__PropertyStorageT_3**)(&(*v0).f0);
  *v1 = a2;
  switch (a1) {
  case ((u8)0ULL): {
    goto L1;
  }
  case ((u8)1ULL): {
    goto L2;
  }
  case ((u8)2ULL): {
    goto L3;
  }
  case ((u8)3ULL): {
    goto L4;
  }
  case ((u8)4ULL): {
    goto L5;
  }
  case ((u8)5ULL): {
    goto L6;
  }
  case ((u8)6ULL): {
    goto L7;
  }
  default: {
    goto L8;
  }
  }
L1: ;
  _ZZN14OpenVolumeMesh16PropertyStorageTIjE17make_property_ptrEvENKUlT_E_clINS_6Entity6VertexEEEDaS2_(a0, v0);
  if (v_exc) return;
  goto L11;
L2: ;
  _ZZN14OpenVolumeMesh16PropertyStorageTIjE17make_property_ptrEvENKUlT_E_clINS_6Entity4EdgeEEEDaS2_(a0, v0);
  if (v_exc) return;
  goto L11;
L3: ;
  _ZZN14OpenVolumeMesh16PropertyStorageTIjE17make_property_ptrEvENKUlT_E_clINS_6Entity8HalfEdgeEEEDaS2_(a0, v0);
  if (v_exc) return;
  goto L11;
L4: ;
  _ZZN14OpenVolumeMesh16PropertyStorageTIjE17make_property_ptrEvENKUlT_E_clINS_6Entity4FaceEEEDaS2_(a0, v0);
  if (v_exc) return;
  goto L11;
L5: ;
  _ZZN14OpenVolumeMesh16PropertyStorageTIjE17make_property_ptrEvENKUlT_E_clINS_6Entity8HalfFaceEEEDaS2_(a0, v0);
  if (v_exc) return;
  goto L11;
L6: ;
  _ZZN14OpenVolumeMesh16PropertyStorageTIjE17make_property_ptrEvENKUlT_E_clINS_6Entity4CellEEEDaS2_(a0, v0);
  if (v_exc) return;
  goto L11;
L7: ;
  _ZZN14OpenVolumeMesh16PropertyStorageTIjE17make_property_ptrEvENKUlT_E_clINS_6Entity4MeshEEEDaS2_(a0, v0);
  if (v_exc) return;
  goto L11;
L8: ;
  v2 = __cxa_allocate_exception(((u64)16ULL));
  v3 = (struct S20_class_std__runtime_error*)v2;
  _ZNSt13runtime_errorC1EPKc(v3, ((u8*)(&(*(&_str_3)).e[(s64)((s64)((u64)0ULL))])));
  if (v_exc) {
    goto L10;
  }
  goto L9;
L9: ;
  __cxa_throw(v2, ((u8*)(&_ZTISt13runtime_error)), ((u8*)((fnptr_t)_ZNSt13runtime_errorD1Ev)));
  if (v_exc) return;
  __CPROVER_assume(0);
L10: ;
  v4.f0 = v_exc_obj;
  v4.f1 = 0;
  v_exc = 0;
  __cxa_free_exception(v2);
  v_exc = 1; return;
L11: ;
  return;
}

void _ZZN14OpenVolumeMesh16PropertyStorageTIjE17make_property_ptrEvENKUlT_E_clINS_6Entity6VertexEEEDaS2_(struct S41_class_std__unique_ptr* a0, struct S42_class_anon_445* a1) {
  struct S55_class_std__shared_ptr_348* v0; struct S55_class_std__shared_ptr_348 v0_m;
  u8** v1;
  u8* v2;
  u8* v3;
  u8* v4;
  u8* v5;
  struct S13_class_std___Sp_counted_base** v6;
  struct S13_class_std___Sp_counted_base* v7;
  u1 v8;
  u32* v9;
  u32 v10;
  u32 v11; u32 v11_t;
  u1 v12;
  u32 v13;
  u32 v14;
  u1 v15;
  u32 v16;
  struct S69 v17;
  struct S69 v18;
  u1 v19;
  u32 v20;
  u8* v21;
  u64* v22;
  fnptr_t** v23;
  struct S38_class_OpenVolumeMesh__PropertyStorageT_3** v24;
  struct S38_class_OpenVolumeMesh__PropertyStorageT_3* v25;
  struct S38_class_OpenVolumeMesh__PropertyStorageT_3** v26;
  struct S13_class_std___Sp_counted_base** v27;
  u8 v28;
  u1 v29;
  u32 v30;
  u32 v31;
  u32 v32;
  u32 v33;
  u64* v34;
  u64 v35;
  u1 v36;
  u32* v37;
  fnptr_t** v38;
  fnptr_t* v39;
  fnptr_t* v40;
  fnptr_t v41;
  fnptr_t* v42;
  fnptr_t* v43;
  fnptr_t v44;
  u8 v45;
  u1 v46;
  u32 v47;
  u32 v48;
  u32 v49;
  u32 v50;
  u32 v51; u32 v51_t;
  u1 v52;
  u8* v53;
  struct S44_class_OpenVolumeMesh__PropertyPtr_431* v54;
  struct S38_class_OpenVolumeMesh__PropertyStorageT_3* v55;
  struct S13_class_std___Sp_counted_base* v56;
  fnptr_t** v57;
  u8* v58;
  struct S38_class_OpenVolumeMesh__PropertyStorageT_3** v59;
  struct S13_class_std___Sp_counted_base** v60;
  fnptr_t** v61;
  u8* v62;
  u8** v63;
  struct S13_class_std___Sp_counted_base** v64;
  struct S13_class_std___Sp_counted_base* v65;
  u1 v66;
  u32* v67;
  u64* v68;
  u64 v69;
  u1 v70;
  u32* v71;
  fnptr_t** v72;
  fnptr_t* v73;
  fnptr_t* v74;
  fnptr_t v75;
  fnptr_t* v76;
  fnptr_t* v77;
  fnptr_t v78;
  u8 v79;
  u1 v80;
  u32 v81;
  u32 v82;
  u32 v83;
  u32 v84;
  u32 v85; u32 v85_t;
  u1 v86;
  struct S63 v87;
  struct S43_class_std____shared_ptr_349* v88;
L0: ;
  v0 = &v0_m;
  v1 = (u8**)&(*a1).f0;
  v2 = *v1;
  v3 = (u8*)v0;
  v4 = (u8*)(v2 + (s64)((s64)((u64)16ULL)));
  v5 = (u8*)(v2 + (s64)((s64)((u64)24ULL)));
  v6 = (struct S13_class_std___Sp_counted_base**)v5;
  v7 = *v6;
  v8 = ((u8*)v7 == (u8*)((struct S13_class_std___Sp_counted_base*)0));
  if (v8) {
    goto L4;
  } else {
    goto L1;
  }
L1: ;
  v9 = (u32*)(&(*v7).f1);
  v10 = *v9;
  v11 = v10;
  goto L2;
L2: ;
  v12 = (v11 == ((u32)0ULL));
  if (v12) {
    goto L4;
  } else {
    goto L3;
  }
L3: ;
  v13 = ((u32)(v11 + ((u32)1ULL)));
  v14 = *v9;
  v15 = (v14 == v11);
  v16 = (v15 ? v13 : v14);
  *v9 = v16;
  v17.f0 = v14;
  v18 = v17;
  v18.f1 = v15;
  v19 = v18.f1;
  v20 = v18.f0;
  if (v19) {
    goto L5;
  } else {
    v11 = v20;
    goto L2;
  }
L4: ;
  v21 = __cxa_allocate_exception(((u64)8ULL));
  v22 = (u64*)v21;
  *v22 = ((u64)0ULL);
  v23 = (fnptr_t**)v21;
  *v23 = ((fnptr_t*)((u8**)(&(*(&_ZTVSt12bad_weak_ptr)).f0.e[(s64)((s64)((u64)2ULL))])));
  __cxa_throw(v21, ((u8*)(&_ZTISt12bad_weak_ptr)), ((u8*)((fnptr_t)_ZNSt12bad_weak_ptrD1Ev)));
  if (v_exc) return;
  __CPROVER_assume(0);
L5: ;
  v24 = (struct S38_class_OpenVolumeMesh__PropertyStorageT_3**)v4;
  v25 = *v24;
  v26 = (struct S38_class_OpenVolumeMesh__PropertyStorageT_3**)(&(*v0).f0.f0);
  *v26 = v25;
  v27 = (struct S13_class_std___Sp_counted_base**)(&(*v0).f0.f1.f0);
  *v27 = v7;
  v28 = *(&__libc_single_threaded);
  v29 = (v28 == ((u8)0ULL));
  if (v29) {
    goto L7;
  } else {
    goto L6;
  }
L6: ;
  v30 = *v9;
  v31 = ((u32)(v30 + ((u32)1ULL)));
  *v9 = v31;
  goto L8;
L7: ;
  v32 = *v9;
  v33 = ((u32)(v32 + ((u32)1ULL)));
  *v9 = v33;
  goto L8;
L8: ;
  v34 = (u64*)v9;
  v35 = (((u64)(*v7).f1 << 0) | ((u64)(*v7).f2 << 32));
  v36 = (v35 == ((u64)4294967297ULL));
  if (v36) {
    goto L9;
  } else {
    goto L10;
  }
L9: ;
  *v9 = ((u32)0ULL);
  v37 = (u32*)(&(*v7).f2);
  *v37 = ((u32)0ULL);
  v38 = (fnptr_t**)&(*v7).f0;
  v39 = *v38;
  v40 = (fnptr_t*)(v39 + (s64)((s64)((u64)2ULL)));
  v41 = *v40;
  ((FT0)v41)(v7);
  v42 = *v38;
  v43 = (fnptr_t*)(v42 + (s64)((s64)((u64)3ULL)));
  v44 = *v43;
  ((FT0)v44)(v7);
  goto L15;
L10: ;
  v45 = *(&__libc_single_threaded);
  v46 = (v45 == ((u8)0ULL));
  if (v46) {
    goto L12;
  } else {
    goto L11;
  }
L11: ;
  v47 = *v9;
  v48 = ((u32)(v47 + ((u32)4294967295ULL)));
  *v9 = v48;
  v51 = v47;
  goto L13;
L12: ;
  v49 = *v9;
  v50 = ((u32)(v49 + ((u32)4294967295ULL)));
  *v9 = v50;
  v51 = v49;
  goto L13;
L13: ;
  v52 = (v51 == ((u32)1ULL));
  if (v52) {
    goto L14;
  } else {
    goto L15;
  }
L14: ;
  _ZNSt16_Sp_counted_baseILN9__gnu_cxx12_Lock_policyE2EE24_M_release_last_use_coldEv(v7);
  goto L15;
L15: ;
  v53 = (u8*)((((u64)32ULL) % sizeof(struct S44_class_OpenVolumeMesh__PropertyPtr_431) == 0) ? __CPROVER_allocate(sizeof(struct S44_class_OpenVolumeMesh__PropertyPtr_431) * (((u64)32ULL) / sizeof(struct S44_class_OpenVolumeMesh__PropertyPtr_431)), 0) : __CPROVER_allocate(((u64)32ULL), 0));
  v_alloc_note((u8*)v53);
  if (v_exc) {
    goto L25;
  }
  goto L16;
L16: ;
  v54 = (struct S44_class_OpenVolumeMesh__PropertyPtr_431*)v53;
  v55 = *v26;
  v56 = *v27;
  v57 = (fnptr_t**)(&(*v54).f0.f0.f0);
  v58 = (u8*)v0;
  (*v0).f0.f0 = (struct S38_class_OpenVolumeMesh__PropertyStorageT_3*)0;
  (*v0).f0.f1.f0 = (struct S13_class_std___Sp_counted_base*)0;
  *v57 = ((fnptr_t*)((u8**)(&(*(&_ZTVN14OpenVolumeMesh18PropertyStoragePtrIjEE)).f0.e[(s64)((s64)((u64)2ULL))])));
  v59 = (struct S38_class_OpenVolumeMesh__PropertyStorageT_3**)(&(*v54).f0.f0.f1.f0.f0);
  *v59 = v55;
  v60 = (struct S13_class_std___Sp_counted_base**)(&(*v54).f0.f0.f1.f0.f1.f0);
  *v60 = v56;
  *v57 = ((fnptr_t*)((u8**)(&(*(&_ZTVN14OpenVolumeMesh14HandleIndexingINS_6Entity6VertexENS_18PropertyStoragePtrIjEEEE)).f0.e[(s64)((s64)((u64)2ULL))])));
  v61 = (fnptr_t**)(&(*v54).f1.f0);
  *v61 = ((fnptr_t*)((u8**)(&(*(&_ZTVN14OpenVolumeMesh15BasePropertyPtrE)).f0.e[(s64)((s64)((u64)2ULL))])));
  *v57 = ((fnptr_t*)((u8**)(&(*(&_ZTVN14OpenVolumeMesh11PropertyPtrIjNS_6Entity6VertexEEE)).f0.e[(s64)((s64)((u64)2ULL))])));
  *v61 = ((fnptr_t*)((u8**)(&(*(&_ZTVN14OpenVolumeMesh11PropertyPtrIjNS_6Entity6VertexEEE)).f1.e[(s64)((s64)((u64)2ULL))])));
  v62 = (u8*)(v53 + (s64)((s64)((u64)24ULL)));
  v63 = (u8**)&(*a0).f0.f0.f0.f0.f0.f0;
  *v63 = v62;
  v64 = (struct S13_class_std___Sp_counted_base**)(&(*v0).f0.f1.f0);
  v65 = *v64;
  v66 = ((u8*)v65 == (u8*)((struct S13_class_std___Sp_counted_base*)0));
  if (v66) {
    goto L24;
  } else {
    goto L17;
  }
L17: ;
  v67 = (u32*)(&(*v65).f1);
  v68 = (u64*)v67;
  v69 = (((u64)(*v65).f1 << 0) | ((u64)(*v65).f2 << 32));
  v70 = (v69 == ((u64)4294967297ULL));
  if (v70) {
    goto L18;
  } else {
    goto L19;
  }
L18: ;
  *v67 = ((u32)0ULL);
  v71 = (u32*)(&(*v65).f2);
  *v71 = ((u32)0ULL);
  v72 = (fnptr_t**)&(*v65).f0;
  v73 = *v72;
  v74 = (fnptr_t*)(v73 + (s64)((s64)((u64)2ULL)));
  v75 = *v74;
  ((FT0)v75)(v65);
  v76 = *v72;
  v77 = (fnptr_t*)(v76 + (s64)((s64)((u64)3ULL)));
  v78 = *v77;
  ((FT0)v78)(v65);
  goto L24;
L19: ;
  v79 = *(&__libc_single_threaded);
  v80 = (v79 == ((u8)0ULL));
  if (v80) {
    goto L21;
  } else {
    goto L20;
  }
L20: ;
  v81 = *v67;
  v82 = ((u32)(v81 + ((u32)4294967295ULL)));
  *v67 = v82;
  v85 = v81;
  goto L22;
L21: ;
  v83 = *v67;
  v84 = ((u32)(v83 + ((u32)4294967295ULL)));
  *v67 = v84;
  v85 = v83;
  goto L22;
L22: ;
  v86 = (v85 == ((u32)1ULL));
  if (v86) {
    goto L23;
  } else {
    goto L24;
  }
L23: ;
  _ZNSt16_Sp_counted_baseILN9__gnu_cxx12_Lock_policyE2EE24_M_release_last_use_coldEv(v65);
  goto L24;
L24: ;
  return;
L25: ;
  v87.f0 = v_exc_obj;
  v87.f1 = 0;
  v_exc = 0;
  v88 = (struct S43_class_std____shared_ptr_349*)(&(*v0).f0);
  _ZNSt12__shared_ptrIN14OpenVolumeMesh16PropertyStorageTIjEELN9__gnu_cxx12_Lock_policyE2EED2Ev(v88);
  v_exc = 1; return;
}

void _ZZN14OpenVolumeMesh16PropertyStorageTIjE17make_property_ptrEvENKUlT_E_clINS_6Entity4EdgeEEEDaS2_(struct S41_class_std__unique_ptr* a0, struct S42_class_anon_445* a1) {
  struct S55_class_std__shared_ptr_348* v0; struct S55_class_std__shared_ptr_348 v0_m;
  u8** v1;
  u8* v2;
  u8* v3;
  u8* v4;
  u8* v5;
  struct S13_class_std___Sp_counted_base** v6;
  struct S13_class_std___Sp_counted_base* v7;
  u1 v8;
  u32* v9;
  u32 v10;
  u32 v11; u32 v11_t;
  u1 v12;
  u32 v13;
  u32 v14;
  u1 v15;
  u32 v16;
  struct S69 v17;
  struct S69 v18;
  u1 v19;
  u32 v20;
  u8* v21;
  u64* v22;
  fnptr_t** v23;
  struct S38_class_OpenVolumeMesh__PropertyStorageT_3** v24;
  struct S38_class_OpenVolumeMesh__PropertyStorageT_3* v25;
  struct S38_class_OpenVolumeMesh__PropertyStorageT_3** v26;
  struct S13_class_std___Sp_counted_base** v27;
  u8 v28;
  u1 v29;
  u32 v30;
  u32 v31;
  u32 v32;
  u32 v33;
  u64* v34;
  u64 v35;
  u1 v36;
  u32* v37;
  fnptr_t** v38;
  fnptr_t* v39;
  fnptr_t* v40;
  fnptr_t v41;
  fnptr_t* v42;
  fnptr_t* v43;
  fnptr_t v44;
  u8 v45;
  u1 v46;
  u32 v47;
  u32 v48;
  u32 v49;
  u32 v50;
  u32 v51; u32 v51_t;
  u1 v52;
  u8* v53;
  struct S44_class_OpenVolumeMesh__PropertyPtr_431* v54;
  struct S38_class_OpenVolumeMesh__PropertyStorageT_3* v55;
  struct S13_class_std___Sp_counted_base* v56;
  fnptr_t** v57;
  u8* v58;
  struct S38_class_OpenVolumeMesh__PropertyStorageT_3** v59;
  struct S13_class_std___Sp_counted_base** v60;
  fnptr_t** v61;
  u8* v62;
  u8** v63;
  struct S13_class_std___Sp_counted_base** v64;
  struct S13_class_std___Sp_counted_base* v65;
  u1 v66;
  u32* v67;
  u64* v68;
  u64 v69;
  u1 v70;
  u32* v71;
  fnptr_t** v72;
  fnptr_t* v73;
  fnptr_t* v74;
  fnptr_t v75;
  fnptr_t* v76;
  fnptr_t* v77;
  fnptr_t v78;
  u8 v79;
  u1 v80;
  u32 v81;
  u32 v82;
  u32 v83;
  u32 v84;
  u32 v85; u32 v85_t;
  u1 v86;
  struct S63 v87;
  struct S43_class_std____shared_ptr_349* v88;
L0: ;
  v0 = &v0_m;
  v1 = (u8**)&(*a1).f0;
  v2 = *v1;
  v3 = (u8*)v0;
  v4 = (u8*)(v2 + (s64)((s64)((u64)16ULL)));
  v5 = (u8*)(v2 + (s64)((s64)((u64)24ULL)));
  v6 = (struct S13_class_std___Sp_counted_base**)v5;
  v7 = *v6;
  v8 = ((u8*)v7 == (u8*)((struct S13_class_std___Sp_counted_base*)0));
  if (v8) {
    goto L4;
  } else {
    goto L1;
  }
L1: ;
  v9 = (u32*)(&(*v7).f1);
  v10 = *v9;
  v11 = v10;
  goto L2;
L2: ;
  v12 = (v11 == ((u32)0ULL));
  if (v12) {
    goto L4;
  } else {
    goto L3;
  }
L3: ;
  v13 = ((u32)(v11 + ((u32)1ULL)));
  v14 = *v9;
  v15 = (v14 == v11);
  v16 = (v15 ? v13 : v14);
  *v9 = v16;
  v17.f0 = v14;
  v18 = v17;
  v18.f1 = v15;
  v19 = v18.f1;
  v20 = v18.f0;
  if (v19) {
    goto L5;
  } else {
    v11 = v20;
    goto L2;
  }
L4: ;
  v21 = __cxa_allocate_exception(((u64)8ULL));
  v22 = (u64*)v21;
  *v22 = ((u64)0ULL);
  v23 = (fnptr_t**)v21;
  *v23 = ((fnptr_t*)((u8**)(&(*(&_ZTVSt12bad_weak_ptr)).f0.e[(s64)((s64)((u64)2ULL))])));
  __cxa_throw(v21, ((u8*)(&_ZTISt12bad_weak_ptr)), ((u8*)((fnptr_t)_ZNSt12bad_weak_ptrD1Ev)));
  if (v_exc) return;
  __CPROVER_assume(0);
L5: ;
  v24 = (struct S38_class_OpenVolumeMesh__PropertyStorageT_3**)v4;
  v25 = *v24;
  v26 = (struct S38_class_OpenVolumeMesh__PropertyStorageT_3**)(&(*v0).f0.f0);
  *v26 = v25;
  v27 = (struct S13_class_std___Sp_counted_base**)(&(*v0).f0.f1.f0);
  *v27 = v7;
  v28 = *(&__libc_single_threaded);
  v29 = (v28 == ((u8)0ULL));
  if (v29) {
    goto L7;
  } else {
    goto L6;
  }
L6: ;
  v30 = *v9;
  v31 = ((u32)(v30 + ((u32)1ULL)));
  *v9 = v31;
  goto L8;
L7: ;
  v32 = *v9;
  v33 = ((u32)(v32 + ((u32)1ULL)));
  *v9 = v33;
  goto L8;
L8: ;
  v34 = (u64*)v9;
  v35 = (((u64)(*v7).f1 << 0) | ((u64)(*v7).f2 << 32));
  v36 = (v35 == ((u64)4294967297ULL));
  if (v36) {
    goto L9;
  } else {
    goto L10;
  }
L9: ;
  *v9 = ((u32)0ULL);
  v37 = (u32*)(&(*v7).f2);
  *v37 = ((u32)0ULL);
  v38 = (fnptr_t**)&(*v7).f0;
  v39 = *v38;
  v40 = (fnptr_t*)(v39 + (s64)((s64)((u64)2ULL)));
  v41 = *v40;
  ((FT0)v41)(v7);
  v42 = *v38;
  v43 = (fnptr_t*)(v42 + (s64)((s64)((u64)3ULL)));
  v44 = *v43;
  ((FT0)v44)(v7);
  goto L15;
L10: ;
  v45 = *(&__libc_single_threaded);
  v46 = (v45 == ((u8)0ULL));
  if (v46) {
    goto L12;
  } else {
    goto L11;
  }
L11: ;
  v47 = *v9;
  v48 = ((u32)(v47 + ((u32)4294967295ULL)));
  *v9 = v48;
  v51 = v47;
  goto L13;
L12: ;
  v49 = *v9;
  v50 = ((u32)(v49 + ((u32)4294967295ULL)));
  *v9 = v50;
  v51 = v49;
  goto L13;
L13: ;
  v52 = (v51 == ((u32)1ULL));
  if (v52) {
    goto L14;
  } else {
    goto L15;
  }
L14: ;
  _ZNSt16_Sp_counted_baseILN9__gnu_cxx12_Lock_policyE2EE24_M_release_last_use_coldEv(v7);
  goto L15;
L15: ;
  v53 = (u8*)((((u64)32ULL) % sizeof(struct S44_class_OpenVolumeMesh__PropertyPtr_431) == 0) ? __CPROVER_allocate(sizeof(struct S44_class_OpenVolumeMesh__PropertyPtr_431) * (((u64)32ULL) / sizeof(struct S44_class_OpenVolumeMesh__PropertyPtr_431)), 0) : __CPROVER_allocate(((u64)32ULL), 0));
  v_alloc_note((u8*)v53);
  if (v_exc) {
    goto L25;
  }
  goto L16;
L16: ;
  v54 = (struct S44_class_OpenVolumeMesh__PropertyPtr_431*)v53;
  v55 = *v26;
  v56 = *v27;
  v57 = (fnptr_t**)(&(*v54).f0.f0.f0);
  v58 = (u8*)v0;
  (*v0).f0.f0 = (struct S38_class_OpenVolumeMesh__PropertyStorageT_3*)0;
  (*v0).f0.f1.f0 = (struct S13_class_std___Sp_counted_base*)0;
  *v57 = ((fnptr_t*)((u8**)(&(*(&_ZTVN14OpenVolumeMesh18PropertyStoragePtrIjEE)).f0.e[(s64)((s64)((u64)2ULL))])));
  v59 = (struct S38_class_OpenVolumeMesh__PropertyStorageT_3**)(&(*v54).f0.f0.f1.f0.f0);
  *v59 = v55;
  v60 = (struct S13_class_std___Sp_counted_base**)(&(*v54).f0.f0.f1.f0.f1.f0);
  *v60 = v56;
  *v57 = ((fnptr_t*)((u8**)(&(*(&_ZTVN14OpenVolumeMesh14HandleIndexingINS_6Entity4EdgeENS_18PropertyStoragePtrIjEEEE)).f0.e[(s64)((s64)((u64)2ULL))])));
  v61 = (fnptr_t**)(&(*v54).f1.f0);
  *v61 = ((fnptr_t*)((u8**)(&(*(&_ZTVN14OpenVolumeMesh15BasePropertyPtrE)).f0.e[(s64)((s64)((u64)2ULL))])));
  *v57 = ((fnptr_t*)((u8**)(&(*(&_ZTVN14OpenVolumeMesh11PropertyPtrIjNS_6Entity4EdgeEEE)).f0.e[(s64)((s64)((u64)2ULL))])));
  *v61 = ((fnptr_t*)((u8**)(&(*(&_ZTVN14OpenVolumeMesh11PropertyPtrIjNS_6Entity4EdgeEEE)).f1.e[(s64)((s64)((u64)2ULL))])));
  v62 = (u8*)(v53 + (s64)((s64)((u64)24ULL)));
  v63 = (u8**)&(*a0).f0.f0.f0.f0.f0.f0;
  *v63 = v62;
  v64 = (struct S13_class_std___Sp_counted_base**)(&(*v0).f0.f1.f0);
  v65 = *v64;
  v66 = ((u8*)v65 == (u8*)((struct S13_class_std___Sp_counted_base*)0));
  if (v66) {
    goto L24;
  } else {
    goto L17;
  }
L17: ;
  v67 = (u32*)(&(*v65).f1);
  v68 = (u64*)v67;
  v69 = (((u64)(*v65).f1 << 0) | ((u64)(*v65).f2 << 32));
  v70 = (v69 == ((u64)4294967297ULL));
  if (v70) {
    goto L18;
  } else {
    goto L19;
  }
L18: ;
  *v67 = ((u32)0ULL);
  v71 = (u32*)(&(*v65).f2);
  *v71 = ((u32)0ULL);
  v72 = (fnptr_t**)&(*v65).f0;
  v73 = *v72;
  v74 = (fnptr_t*)(v73 + (s64)((s64)((u64)2ULL)));
  v75 = *v74;
  ((FT0)v75)(v65);
  v76 = *v72;
  v77 = (fnptr_t*)(v76 + (s64)((s64)((u64)3ULL)));
  v78 = *v77;
  ((FT0)v78)(v65);
  goto L24;
L19: ;
  v79 = *(&__libc_single_threaded);
  v80 = (v79 == ((u8)0ULL));
  if (v80) {
    goto L21;
  } else {
    goto L20;
  }
L20: ;
  v81 = *v67;
  v82 = ((u32)(v81 + ((u32)4294967295ULL)));
  *v67 = v82;
  v85 = v81;
  goto L22;
L21: ;
  v83 = *v67;
  v84 = ((u32)(v83 + ((u32)4294967295ULL)));
  *v67 = v84;
  v85 = v83;
  goto L22;
L22: ;
  v86 = (v85 == ((u32)1ULL));
  if (v86) {
    goto L23;
  } else {
    goto L24;
  }
L23: ;
  _ZNSt16_Sp_counted_baseILN9__gnu_cxx12_Lock_policyE2EE24_M_release_last_use_coldEv(v65);
  goto L24;
L24: ;
  return;
L25: ;
  v87.f0 = v_exc_obj;
  v87.f1 = 0;
  v_exc = 0;
  v88 = (struct S43_class_std____shared_ptr_349*)(&(*v0).f0);
  _ZNSt12__shared_ptrIN14OpenVolumeMesh16PropertyStorageTIjEELN9__gnu_cxx12_Lock_policyE2EED2Ev(v88);
  v_exc = 1; return;
}

void _ZZN14OpenVolumeMesh16PropertyStorageTIjE17make_property_ptrEvENKUlT_E_clINS_6Entity8HalfEdgeEEEDaS2_(struct S41_class_std__unique_ptr* a0, struct S42_class_anon_445* a1) {
  struct S55_class_std__shared_ptr_348* v0; struct S55_class_std__shared_ptr_348 v0_m;
  u8** v1;
  u8* v2;
  u8* v3;
  u8* v4;
  u8* v5;
  struct S13_class_std___Sp_counted_base** v6;
  struct S13_class_std___Sp_counted_base* v7;
  u1 v8;
  u32* v9;
  u32 v10;
  u32 v11; u32 v11_t;
  u1 v12;
  u32 v13;
  u32 v14;
  u1 v15;
  u32 v16;
  struct S69 v17;
  struct S69 v18;
  u1 v19;
  u32 v20;
  u8* v21;
  u64* v22;
  fnptr_t** v23;
  struct S38_class_OpenVolumeMesh__PropertyStorageT_3** v24;
  struct S38_class_OpenVolumeMesh__PropertyStorageT_3* v25;
  struct S38_class_OpenVolumeMesh__PropertyStorageT_3** v26;
  struct S13_class_std___Sp_counted_base** v27;
  u8 v28;
  u1 v29;
  u32 v30;
  u32 v31;
  u32 v32;
  u32 v33;
  u64* v34;
  u64 v35;
  u1 v36;
  u32* v37;
  fnptr_t** v38;
  fnptr_t* v39;
  fnptr_t* v40;
  fnptr_t v41;
  fnptr_t* v42;
  fnptr_t* v43;
  fnptr_t v44;
  u8 v45;
  u1 v46;
  u32 v47;
  u32 v48;
  u32 v49;
  u32 v50;
  u32 v51; u32 v51_t;
  u1 v52;
  u8* v53;
  struct S44_class_OpenVolumeMesh__PropertyPtr_431* v54;
  struct S38_class_OpenVolumeMesh__PropertyStorageT_3* v55;
  struct S13_class_std___Sp_counted_base* v56;
  fnptr_t** v57;
  u8* v58;
  struct S38_class_OpenVolumeMesh__PropertyStorageT_3** v59;
  struct S13_class_std___Sp_counted_base** v60;
  fnptr_t** v61;
  u8* v62;
  u8** v63;
  struct S13_class_std___Sp_counted_base** v64;
  struct S13_class_std___Sp_counted_base* v65;
  u1 v66;
  u32* v67;
  u64* v68;
  u64 v69;
  u1 v70;
  u32* v71;
  fnptr_t** v72;
  fnptr_t* v73;
  fnptr_t* v74;
  fnptr_t v75;
  fnptr_t* v76;
  fnptr_t* v77;
  fnptr_t v78;
  u8 v79;
  u1 v80;
  u32 v81;
  u32 v82;
  u32 v83;
  u32 v84;
  u32 v85; u32 v85_t;
  u1 v86;
  struct S63 v87;
  struct S43_class_std____shared_ptr_349* v88;
L0: ;
  v0 = &v0_m;
  v1 = (u8**)&(*a1).f0;
  v2 = *v1;
  v3 = (u8*)v0;
  v4 = (u8*)(v2 + (s64)((s64)((u64)16ULL)));
  v5 = (u8*)(v2 + (s64)((s64)((u64)24ULL)));
  v6 = (struct S13_class_std___Sp_counted_base**)v5;
  v7 = *v6;
  v8 = ((u8*)v7 == (u8*)((struct S13_class_std___Sp_counted_base*)0));
  if (v8) {
    goto L4;
  } else {
    goto L1;
  }
L1: ;
  v9 = (u32*)(&(*v7).f1);
  v10 = *v9;
  v11 = v10;
  goto L2;
L2: ;
  v12 = (v11 == ((u32)0ULL));
  if (v12) {
    goto L4;
  } else {
    goto L3;
  }
L3: ;
  v13 = ((u32)(v11 + ((u32)1ULL)));
  v14 = *v9;
  v15 = (v14 == v11);
  v16 = (v15 ? v13 : v14);
  *v9 = v16;
  v17.f0 = v14;
  v18 = v17;
  v18.f1 = v15;
  v19 = v18.f1;
  v20 = v18.f0;
  if (v19) {
    goto L5;
  } else {
    v11 = v20;
    goto L2;
  }
L4: ;
  v21 = __cxa_allocate_exception(((u64)8ULL));
  v22 = (u64*)v21;
  *v22 = ((u64)0ULL);
  v23 = (fnptr_t**)v21;
  *v23 = ((fnptr_t*)((u8**)(&(*(&_ZTVSt12bad_weak_ptr)).f0.e[(s64)((s64)((u64)2ULL))])));
  __cxa_throw(v21, ((u8*)(&_ZTISt12bad_weak_ptr)), ((u8*)((fnptr_t)_ZNSt12bad_weak_ptrD1Ev)));
  if (v_exc) return;
  __CPROVER_assume(0);
L5: ;
  v24 = (struct S38_class_OpenVolumeMesh__PropertyStorageT_3**)v4;
  v25 = *v24;
  v26 = (struct S38_class_OpenVolumeMesh__PropertyStorageT_3**)(&(*v0).f0.f0);
  *v26 = v25;
  v27 = (struct S13_class_std___Sp_counted_base**)(&(*v0).f0.f1.f0);
  *v27 = v7;
  v28 = *(&__libc_single_threaded);
  v29 = (v28 == ((u8)0ULL));
  if (v29) {
    goto L7;
  } else {
    goto L6;
  }
L6: ;
  v30 = *v9;
  v31 = ((u32)(v30 + ((u32)1ULL)));
  *v9 = v31;
  goto L8;
L7: ;
  v32 = *v9;
  v33 = ((u32)(v32 + ((u32)1ULL)));
  *v9 = v33;
  goto L8;
L8: ;
  v34 = (u64*)v9;
  v35 = (((u64)(*v7).f1 << 0) | ((u64)(*v7).f2 << 32));
  v36 = (v35 == ((u64)4294967297ULL));
  if (v36) {
    goto L9;
  } else {
    goto L10;
  }
L9: ;
  *v9 = ((u32)0ULL);
  v37 = (u32*)(&(*v7).f2);
  *v37 = ((u32)0ULL);
  v38 = (fnptr_t**)&(*v7).f0;
  v39 = *v38;
  v40 = (fnptr_t*)(v39 + (s64)((s64)((u64)2ULL)));
  v41 = *v40;
  ((FT0)v41)(v7);
  v42 = *v38;
  v43 = (fnptr_t*)(v42 + (s64)((s64)((u64)3ULL)));
  v44 = *v43;
  ((FT0)v44)(v7);
  goto L15;
L10: ;
  v45 = *(&__libc_single_threaded);
  v46 = (v45 == ((u8)0ULL));
  if (v46) {
    goto L12;
  } else {
    goto L11;
  }
L11: ;
  v47 = *v9;
  v48 = ((u32)(v47 + ((u32)4294967295ULL)));
  *v9 = v48;
  v51 = v47;
  goto L13;
L12: ;
  v49 = *v9;
  v50 = ((u32)(v49 + ((u32)4294967295ULL)));
  *v9 = v50;
  v51 = v49;
  goto L13;
L13: ;
  v52 = (v51 == ((u32)1ULL));
  if (v52) {
    goto L14;
  } else {
    goto L15;
  }
L14: ;
  _ZNSt16_Sp_counted_baseILN9__gnu_cxx12_Lock_policyE2EE24_M_release_last_use_coldEv(v7);
  goto L15;
L15: ;
  v53 = (u8*)((((u64)32ULL) % sizeof(struct S44_class_OpenVolumeMesh__PropertyPtr_431) == 0) ? __CPROVER_allocate(sizeof(struct S44_class_OpenVolumeMesh__PropertyPtr_431) * (((u64)32ULL) / sizeof(struct S44_class_OpenVolumeMesh__PropertyPtr_431)), 0) : __CPROVER_allocate(((u64)32ULL), 0));
  v_alloc_note((u8*)v53);
  if (v_exc) {
    goto L25;
  }
  goto L16;
L16: ;
  v54 = (struct S44_class_OpenVolumeMesh__PropertyPtr_431*)v53;
  v55 = *v26;
  v56 = *v27;
  v57 = (fnptr_t**)(&(*v54).f0.f0.f0);
  v58 = (u8*)v0;
  (*v0).f0.f0 = (struct S38_class_OpenVolumeMesh__PropertyStorageT_3*)0;
  (*v0).f0.f1.f0 = (struct S13_class_std___Sp_counted_base*)0;
  *v57 = ((fnptr_t*)((u8**)(&(*(&_ZTVN14OpenVolumeMesh18PropertyStoragePtrIjEE)).f0.e[(s64)((s64)((u64)2ULL))])));
  v59 = (struct S38_class_OpenVolumeMesh__PropertyStorageT_3**)(&(*v54).f0.f0.f1.f0.f0);
  *v59 = v55;
  v60 = (struct S13_class_std___Sp_counted_base**)(&(*v54).f0.f0.f1.f0.f1.f0);
  *v60 = v56;
  *v57 = ((fnptr_t*)((u8**)(&(*(&_ZTVN14OpenVolumeMesh14HandleIndexingINS_6Entity8HalfEdgeENS_18PropertyStoragePtrIjEEEE)).f0.e[(s64)((s64)((u64)2ULL))])));
  v61 = (fnptr_t**)(&(*v54).f1.f0);
  *v61 = ((fnptr_t*)((u8**)(&(*(&_ZTVN14OpenVolumeMesh15BasePropertyPtrE)).f0.e[(s64)((s64)((u64)2ULL))])));
  *v57 = ((fnptr_t*)((u8**)(&(*(&_ZTVN14OpenVolumeMesh11PropertyPtrIjNS_6Entity8HalfEdgeEEE)).f0.e[(s64)((s64)((u64)2ULL))])));
  *v61 = ((fnptr_t*)((u8**)(&(*(&_ZTVN14OpenVolumeMesh11PropertyPtrIjNS_6Entity8HalfEdgeEEE)).f1.e[(s64)((s64)((u64)2ULL))])));
  v62 = (u8*)(v53 + (s64)((s64)((u64)24ULL)));
  v63 = (u8**)&(*a0).f0.f0.f0.f0.f0.f0;
  *v63 = v62;
  v64 = (struct S13_class_std___Sp_counted_base**)(&(*v0).f0.f1.f0);
  v65 = *v64;
  v66 = ((u8*)v65 == (u8*)((struct S13_class_std___Sp_counted_base*)0));
  if (v66) {
    goto L24;
  } else {
    goto L17;
  }
L17: ;
  v67 = (u32*)(&(*v65).f1);
  v68 = (u64*)v67;
  v69 = (((u64)(*v65).f1 << 0) | ((u64)(*v65).f2 << 32));
  v70 = (v69 == ((u64)4294967297ULL));
  if (v70) {
    goto L18;
  } else {
    goto L19;
  }
L18: ;
  *v67 = ((u32)0ULL);
  v71 = (u32*)(&(*v65).f2);
  *v71 = ((u32)0ULL);
  v72 = (fnptr_t**)&(*v65).f0;
  v73 = *v72;
  v74 = (fnptr_t*)(v73 + (s64)((s64)((u64)2ULL)));
  v75 = *v74;
  ((FT0)v75)(v65);
  v76 = *v72;
  v77 = (fnptr_t*)(v76 + (s64)((s64)((u64)3ULL)));
  v78 = *v77;
  ((FT0)v78)(v65);
  goto L24;
L19: ;
  v79 = *(&__libc_single_threaded);
  v80 = (v79 == ((u8)0ULL));
  if (v80) {
    goto L21;
  } else {
    goto L20;
  }
L20: ;
  v81 = *v67;
  v82 = ((u32)(v81 + ((u32)4294967295ULL)));
  *v67 = v82;
  v85 = v81;
  goto L22;
L21: ;
  v83 = *v67;
  v84 = ((u32)(v83 + ((u32)4294967295ULL)));
  *v67 = v84;
  v85 = v83;
  goto L22;
L22: ;
  v86 = (v85 == ((u32)1ULL));
  if (v86) {
    goto L23;
  } else {
    goto L24;
  }
L23: ;
  _ZNSt16_Sp_counted_baseILN9__gnu_cxx12_Lock_policyE2EE24_M_release_last_use_coldEv(v65);
  goto L24;
L24: ;
  return;
L25: ;
  v87.f0 = v_exc_obj;
  v87.f1 = 0;
  v_exc = 0;
  v88 = (struct S43_class_std____shared_ptr_349*)(&(*v0).f0);
  _ZNSt12__shared_ptrIN14OpenVolumeMesh16PropertyStorageTIjEELN9__gnu_cxx12_Lock_policyE2EED2Ev(v88);
  v_exc = 1; return;
}

void _ZZN14OpenVolumeMesh16PropertyStorageTIjE17make_property_ptrEvENKUlT_E_clINS_6Entity4FaceEEEDaS2_(struct S41_class_std__unique_ptr* a0, struct S42_class_anon_445* a1) {
  struct S55_class_std__shared_ptr_348* v0; struct S55_class_std__shared_ptr_348 v0_m;
  u8** v1;
  u8* v2;
  u8* v3;
  u8* v4;
  u8* v5;
  struct S13_class_std___Sp_counted_base** v6;
  struct S13_class_std___Sp_counted_base* v7;
  u1 v8;
  u32* v9;
  u32 v10;
  u32 v11; u32 v11_t;
  u1 v12;
  u32 v13;
  u32 v14;
  u1 v15;
  u32 v16;
  struct S69 v17;
  struct S69 v18;
  u1 v19;
  u32 v20;
  u8* v21;
  u64* v22;
  fnptr_t** v23;
  struct S38_class_OpenVolumeMesh__PropertyStorageT_3** v24;
  struct S38_class_OpenVolumeMesh__PropertyStorageT_3* v25;
  struct S38_class_OpenVolumeMesh__PropertyStorageT_3** v26;
  struct S13_class_std___Sp_counted_base** v27;
  u8 v28;
  u1 v29;
  u32 v30;
  u32 v31;
  u32 v32;
  u32 v33;
  u64* v34;
  u64 v35;
  u1 v36;
  u32* v37;
  fnptr_t** v38;
  fnptr_t* v39;
  fnptr_t* v40;
  fnptr_t v41;
  fnptr_t* v42;
  fnptr_t* v43;
  fnptr_t v44;
  u8 v45;
  u1 v46;
  u32 v47;
  u32 v48;
  u32 v49;
  u32 v50;
  u32 v51; u32 v51_t;
  u1 v52;
  u8* v53;
  struct S44_class_OpenVolumeMesh__PropertyPtr_431* v54;
  struct S38_class_OpenVolumeMesh__PropertyStorageT_3* v55;
  struct S13_class_std___Sp_counted_base* v56;
  fnptr_t** v57;
  u8* v58;
  struct S38_class_OpenVolumeMesh__PropertyStorageT_3** v59;
  struct S13_class_std___Sp_counted_base** v60;
  fnptr_t** v61;
  u8* v62;
  u8** v63;
  struct S13_class_std___Sp_counted_base** v64;
  struct S13_class_std___Sp_counted_base* v65;
  u1 v66;
  u32* v67;
  u64* v68;
  u64 v69;
  u1 v70;
  u32* v71;
  fnptr_t** v72;
  fnptr_t* v73;
  fnptr_t* v74;
  fnptr_t v75;
  fnptr_t* v76;
  fnptr_t* v77;
  fnptr_t v78;
  u8 v79;
  u1 v80;
  u32 v81;
  u32 v82;
  u32 v83;
  u32 v84;
  u32 v85; u32 v85_t;
  u1 v86;
  struct S63 v87;
  struct S43_class_std____shared_ptr_349* v88;
L0: ;
  v0 = &v0_m;
  v1 = (u8**)&(*a1).f0;
  v2 = *v1;
  v3 = (u8*)v0;
  v4 = (u8*)(v2 + (s64)((s64)((u64)16ULL)));
  v5 = (u8*)(v2 + (s64)((s64)((u64)24ULL)));
  v6 = (struct S13_class_std___Sp_counted_base**)v5;
  v7 = *v6;
  v8 = ((u8*)v7 == (u8*)((struct S13_class_std___Sp_counted_base*)0));
  if (v8) {
    goto L4;
  } else {
    goto L1;
  }
L1: ;
  v9 = (u32*)(&(*v7).f1);
  v10 = *v9;
  v11 = v10;
  goto L2;
L2: ;
  v12 = (v11 == ((u32)0ULL));
  if (v12) {
    goto L4;
  } else {
    goto L3;
  }
L3: ;
  v13 = ((u32)(v11 + ((u32)1ULL)));
  v14 = *v9;
  v15 = (v14 == v11);
  v16 = (v15 ? v13 : v14);
  *v9 = v16;
  v17.f0 = v14;
  v18 = v17;
  v18.f1 = v15;
  v19 = v18.f1;
  v20 = v18.f0;
  if (v19) {
    goto L5;
  } else {
    v11 = v20;
    goto L2;
  }
L4: ;
  v21 = __cxa_allocate_exception(((u64)8ULL));
  v22 = (u64*)v21;
  *v22 = ((u64)0ULL);
  v23 = (fnptr_t**)v21;
  *v23 = ((fnptr_t*)((u8**)(&(*(&_ZTVSt12bad_weak_ptr)).f0.e[(s64)((s64)((u64)2ULL))])));
  __cxa_throw(v21, ((u8*)(&_ZTISt12bad_weak_ptr)), ((u8*)((fnptr_t)_ZNSt12bad_weak_ptrD1Ev)));
  if (v_exc) return;
  __CPROVER_assume(0);
L5: ;
  v24 = (struct S38_class_OpenVolumeMesh__PropertyStorageT_3**)v4;
  v25 = *v24;
  v26 = (struct S38_class_OpenVolumeMesh__PropertyStorageT_3**)(&(*v0).f0.f0);
  *v26 = v25;
  v27 = (struct S13_class_std___Sp_counted_base**)(&(*v0).f0.f1.f0);
  *v27 = v7;
  v28 = *(&__libc_single_threaded);
  v29 = (v28 == ((u8)0ULL));
  if (v29) {
    goto L7;
  } else {
    goto L6;
  }
L6: ;
  v30 = *v9;
  v31 = ((u32)(v30 + ((u32)1ULL)));
  *v9 = v31;
  goto L8;
L7: ;
  v32 = *v9;
  v33 = ((u32)(v32 + ((u32)1ULL)));
  *v9 = v33;
  goto L8;
L8: ;
  v34 = (u64*)v9;
  v35 = (((u64)(*v7).f1 << 0) | ((u64)(*v7).f2 << 32));
  v36 = (v35 == ((u64)4294967297ULL));
  if (v36) {
    goto L9;
  } else {
    goto L10;
  }
L9: ;
  *v9 = ((u32)0ULL);
  v37 = (u32*)(&(*v7).f2);
  *v37 = ((u32)0ULL);
  v38 = (fnptr_t**)&(*v7).f0;
  v39 = *v38;
  v40 = (fnptr_t*)(v39 + (s64)((s64)((u64)2ULL)));
  v41 = *v40;
  ((FT0)v41)(v7);
  v42 = *v38;
  v43 = (fnptr_t*)(v42 + (s64)((s64)((u64)3ULL)));
  v44 = *v43;
  ((FT0)v44)(v7);
  goto L15;
L10: ;
  v45 = *(&__libc_single_threaded);
  v46 = (v45 == ((u8)0ULL));
  if (v46) {
    goto L12;
  } else {
    goto L11;
  }
L11: ;
  v47 = *v9;
  v48 = ((u32)(v47 + ((u32)4294967295ULL)));
  *v9 = v48;
  v51 = v47;
  goto L13;
L12: ;
  v49 = *v9;
  v50 = ((u32)(v49 + ((u32)4294967295ULL)));
  *v9 = v50;
  v51 = v49;
  goto L13;
L13: ;
  v52 = (v51 == ((u32)1ULL));
  if (v52) {
    goto L14;
  } else {
    goto L15;
  }
L14: ;
  _ZNSt16_Sp_counted_baseILN9__gnu_cxx12_Lock_policyE2EE24_M_release_last_use_coldEv(v7);
  goto L15;
L15: ;
  v53 = (u8*)((((u64)32ULL) % sizeof(struct S44_class_OpenVolumeMesh__PropertyPtr_431) == 0) ? __CPROVER_allocate(sizeof(struct S44_class_OpenVolumeMesh__PropertyPtr_431) * (((u64)32ULL) / sizeof(struct S44_class_OpenVolumeMesh__PropertyPtr_431)), 0) : __CPROVER_allocate(((u64)32ULL), 0));
  v_alloc_note((u8*)v53);
  if (v_exc) {
    goto L25;
  }
  goto L16;
L16: ;
  v54 = (struct S44_class_OpenVolumeMesh__PropertyPtr_431*)v53;
  v55 = *v26;
  v56 = *v27;
  v57 = (fnptr_t**)(&(*v54).f0.f0.f0);
  v58 = (u8*)v0;
  (*v0).f0.f0 = (struct S38_class_OpenVolumeMesh__PropertyStorageT_3*)0;
  (*v0).f0.f1.f0 = (struct S13_class_std___Sp_counted_base*)0;
  *v57 = ((fnptr_t*)((u8**)(&(*(&_ZTVN14OpenVolumeMesh18PropertyStoragePtrIjEE)).f0.e[(s64)((s64)((u64)2ULL))])));
  v59 = (struct S38_class_OpenVolumeMesh__PropertyStorageT_3**)(&(*v54).f0.f0.f1.f0.f0);
  *v59 = v55;
  v60 = (struct S13_class_std___Sp_counted_base**)(&(*v54).f0.f0.f1.f0.f1.f0);
  *v60 = v56;
  *v57 = ((fnptr_t*)((u8**)(&(*(&_ZTVN14OpenVolumeMesh14HandleIndexingINS_6Entity4FaceENS_18PropertyStoragePtrIjEEEE)).f0.e[(s64)((s64)((u64)2ULL))])));
  v61 = (fnptr_t**)(&(*v54).f1.f0);
  *v61 = ((fnptr_t*)((u8**)(&(*(&_ZTVN14OpenVolumeMesh15BasePropertyPtrE)).f0.e[(s64)((s64)((u64)2ULL))])));
  *v57 = ((fnptr_t*)((u8**)(&(*(&_ZTVN14OpenVolumeMesh11PropertyPtrIjNS_6Entity4FaceEEE)).f0.e[(s64)((s64)((u64)2ULL))])));
  *v61 = ((fnptr_t*)((u8**)(&(*(&_ZTVN14OpenVolumeMesh11PropertyPtrIjNS_6Entity4FaceEEE)).f1.e[(s64)((s64)((u64)2ULL))])));
  v62 = (u8*)(v53 + (s64)((s64)((u64)24ULL)));
  v63 = (u8**)&(*a0).f0.f0.f0.f0.f0.f0;
  *v63 = v62;
  v64 = (struct S13_class_std___Sp_counted_base**)(&(*v0).f0.f1.f0);
  v65 = *v64;
  v66 = ((u8*)v65 == (u8*)((struct S13_class_std___Sp_counted_base*)0));
  if (v66) {
    goto L24;
  } else {
    goto L17;
  }
L17: ;
  v67 = (u32*)(&(*v65).f1);
  v68 = (u64*)v67;
  v69 = (((u64)(*v65).f1 << 0) | ((u64)(*v65).f2 << 32));
  v70 = (v69 == ((u64)4294967297ULL));
  if (v70) {
    goto L18;
  } else {
    goto L19;
  }
L18: ;
  *v67 = ((u32)0ULL);
  v71 = (u32*)(&(*v65).f2);
  *v71 = ((u32)0ULL);
  v72 = (fnptr_t**)&(*v65).f0;
  v73 = *v72;
  v74 = (fnptr_t*)(v73 + (s64)((s64)((u64)2ULL)));
  v75 = *v74;
  ((FT0)v75)(v65);
  v76 = *v72;
  v77 = (fnptr_t*)(v76 + (s64)((s64)((u64)3ULL)));
  v78 = *v77;
  ((FT0)v78)(v65);
  goto L24;
L19: ;
  v79 = *(&__libc_single_threaded);
  v80 = (v79 == ((u8)0ULL));
  if (v80) {
    goto L21;
  } else {
    goto L20;
  }
L20: ;
  v81 = *v67;
  v82 = ((u32)(v81 + ((u32)4294967295ULL)));
  *v67 = v82;
  v85 = v81;
  goto L22;
L21: ;
  v83 = *v67;
  v84 = ((u32)(v83 + ((u32)4294967295ULL)));
  *v67 = v84;
  v85 = v83;
  goto L22;
L22: ;
  v86 = (v85 == ((u32)1ULL));
  if (v86) {
    goto L23;
  } else {
    goto L24;
  }
L23: ;
  _ZNSt16_Sp_counted_baseILN9__gnu_cxx12_Lock_policyE2EE24_M_release_last_use_coldEv(v65);
  goto L24;
L24: ;
  return;
L25: ;
  v87.f0 = v_exc_obj;
  v87.f1 = 0;
  v_exc = 0;
  v88 = (struct S43_class_std____shared_ptr_349*)(&(*v0).f0);
  _ZNSt12__shared_ptrIN14OpenVolumeMesh16PropertyStorageTIjEELN9__gnu_cxx12_Lock_policyE2EED2Ev(v88);
  v_exc = 1; return;
}

void _ZZN14OpenVolumeMesh16PropertyStorageTIjE17make_property_ptrEvENKUlT_E_clINS_6Entity8HalfFaceEEEDaS2_(struct S41_class_std__unique_ptr* a0, struct S42_class_anon_445* a1) {
  struct S55_class_std__shared_ptr_348* v0; struct S55_class_std__shared_ptr_348 v0_m;
  u8** v1;
  u8* v2;
  u8* v3;
  u8* v4;
  u8* v5;
  struct S13_class_std___Sp_counted_base** v6;
  struct S13_class_std___Sp_counted_base* v7;
  u1 v8;
  u32* v9;
  u32 v10;
  u32 v11; u32 v11_t;
  u1 v12;
  u32 v13;
  u32 v14;
  u1 v15;
  u32 v16;
  struct S69 v17;
  struct S69 v18;
  u1 v19;
  u32 v20;
  u8* v21;
  u64* v22;
  fnptr_t** v23;
  struct S38_class_OpenVolumeMesh__PropertyStorageT_3** v24;
  struct S38_class_OpenVolumeMesh__PropertyStorageT_3* v25;
  struct S38_class_OpenVolumeMesh__PropertyStorageT_3** v26;
  struct S13_class_std___Sp_counted_base** v27;
  u8 v28;
  u1 v29;
  u32 v30;
  u32 v31;
  u32 v32;
  u32 v33;
  u64* v34;
  u64 v35;
  u1 v36;
  u32* v37;
  fnptr_t** v38;
  fnptr_t* v39;
  fnptr_t* v40;
  fnptr_t v41;
  fnptr_t* v42;
  fnptr_t* v43;
  fnptr_t v44;
  u8 v45;
  u1 v46;
  u32 v47;
  u32 v48;
  u32 v49;
  u32 v50;
  u32 v51; u32 v51_t;
  u1 v52;
  u8* v53;
  struct S44_class_OpenVolumeMesh__PropertyPtr_431* v54;
  struct S38_class_OpenVolumeMesh__PropertyStorageT_3* v55;
  struct S13_class_std___Sp_counted_base* v56;
  fnptr_t** v57;
  u8* v58;
  struct S38_class_OpenVolumeMesh__PropertyStorageT_3** v59;
  struct S13_class_std___Sp_counted_base** v60;
  fnptr_t** v61;
  u8* v62;
  u8** v63;
  struct S13_class_std___Sp_counted_base** v64;
  struct S13_class_std___Sp_counted_base* v65;
  u1 v66;
  u32* v67;
  u64* v68;
  u64 v69;
  u1 v70;
  u32* v71;
  fnptr_t** v72;
  fnptr_t* v73;
  fnptr_t* v74;
  fnptr_t v75;
  fnptr_t* v76;
  fnptr_t* v77;
  fnptr_t v78;
  u8 v79;
  u1 v80;
  u32 v81;
  u32 v82;
  u32 v83;
  u32 v84;
  u32 v85; u32 v85_t;
  u1 v86;
  struct S63 v87;
  struct S43_class_std____shared_ptr_349* v88;
L0: ;
  v0 = &v0_m;
  v1 = (u8**)&(*a1).f0;
  v2 = *v1;
  v3 = (u8*)v0;
  v4 = (u8*)(v2 + (s64)((s64)((u64)16ULL)));
  v5 = (u8*)(v2 + (s64)((s64)((u64)24ULL)));
  v6 = (struct S13_class_std___Sp_counted_base**)v5;
  v7 = *v6;
  v8 = ((u8*)v7 == (u8*)((struct S13_class_std___Sp_counted_base*)0));
  if (v8) {
    goto L4;
  } else {
    goto L1;
  }
L1: ;
  v9 = (u32*)(&(*v7).f1);
  v10 = *v9;
  v11 = v10;
  goto L2;
L2: ;
  v12 = (v11 == ((u32)0ULL));
  if (v12) {
    goto L4;
  } else {
    goto L3;
  }
L3: ;
  v13 = ((u32)(v11 + ((u32)1ULL)));
  v14 = *v9;
  v15 = (v14 == v11);
  v16 = (v15 ? v13 : v14);
  *v9 = v16;
  v17.f0 = v14;
  v18 = v17;
  v18.f1 = v15;
  v19 = v18.f1;
  v20 = v18.f0;
  if (v19) {
    goto L5;
  } else {
    v11 = v20;
    goto L2;
  }
L4: ;
  v21 = __cxa_allocate_exception(((u64)8ULL));
  v22 = (u64*)v21;
  *v22 = ((u64)0ULL);
  v23 = (fnptr_t**)v21;
  *v23 = ((fnptr_t*)((u8**)(&(*(&_ZTVSt12bad_weak_ptr)).f0.e[(s64)((s64)((u64)2ULL))])));
  __cxa_throw(v21, ((u8*)(&_ZTISt12bad_weak_ptr)), ((u8*)((fnptr_t)_ZNSt12bad_weak_ptrD1Ev)));
  if (v_exc) return;
  __CPROVER_assume(0);
L5: ;
  v24 = (struct S38_class_OpenVolumeMesh__PropertyStorageT_3**)v4;
  v25 = *v24;
  v26 = (struct S38_class_OpenVolumeMesh__PropertyStorageT_3**)(&(*v0).f0.f0);
  *v26 = v25;
  v27 = (struct S13_class_std___Sp_counted_base**)(&(*v0).f0.f1.f0);
  *v27 = v7;
  v28 = *(&__libc_single_threaded);
  v29 = (v28 == ((u8)0ULL));
  if (v29) {
    goto L7;
  } else {
    goto L6;
  }
L6: ;
  v30 = *v9;
  v31 = ((u32)(v30 + ((u32)1ULL)));
  *v9 = v31;
  goto L8;
L7: ;
  v32 = *v9;
  v33 = ((u32)(v32 + ((u32)1ULL)));
  *v9 = v33;
  goto L8;
L8: ;
  v34 = (u64*)v9;
  v35 = (((u64)(*v7).f1 << 0) | ((u64)(*v7).f2 << 32));
  v36 = (v35 == ((u64)4294967297ULL));
  if (v36) {
    goto L9;
  } else {
    goto L10;
  }
L9: ;
  *v9 = ((u32)0ULL);
  v37 = (u32*)(&(*v7).f2);
  *v37 = ((u32)0ULL);
  v38 = (fnptr_t**)&(*v7).f0;
  v39 = *v38;
  v40 = (fnptr_t*)(v39 + (s64)((s64)((u64)2ULL)));
  v41 = *v40;
  ((FT0)v41)(v7);
  v42 = *v38;
  v43 = (fnptr_t*)(v42 + (s64)((s64)((u64)3ULL)));
  v44 = *v43;
  ((FT0)v44)(v7);
  goto L15;
L10: ;
  v45 = *(&__libc_single_threaded);
  v46 = (v45 == ((u8)0ULL));
  if (v46) {
    goto L12;
  } else {
    goto L11;
  }
L11: ;
  v47 = *v9;
  v48 = ((u32)(v47 + ((u32)4294967295ULL)));
  *v9 = v48;
  v51 = v47;
  goto L13;
L12: ;
  v49 = *v9;
  v50 = ((u32)(v49 + ((u32)4294967295ULL)));
  *v9 = v50;
  v51 = v49;
  goto L13;
L13: ;
  v52 = (v51 == ((u32)1ULL));
  if (v52) {
    goto L14;
  } else {
    goto L15;
  }
L14: ;
  _ZNSt16_Sp_counted_baseILN9__gnu_cxx12_Lock_policyE2EE24_M_release_last_use_coldEv(v7);
  goto L15;
L15: ;
  v53 = (u8*)((((u64)32ULL) % sizeof(struct S44_class_OpenVolumeMesh__PropertyPtr_431) == 0) ? __CPROVER_allocate(sizeof(struct S44_class_OpenVolumeMesh__PropertyPtr_431) * (((u64)32ULL) / sizeof(struct S44_class_OpenVolumeMesh__PropertyPtr_431)), 0) : __CPROVER_allocate(((u64)32ULL), 0));
  v_alloc_note((u8*)v53);
  if (v_exc) {
    goto L25;
  }
  goto L16;
L16: ;
  v54 = (struct S44_class_OpenVolumeMesh__PropertyPtr_431*)v53;
  v55 = *v26;
  v56 = *v27;
  v57 = (fnptr_t**)(&(*v54).f0.f0.f0);
  v58 = (u8*)v0;
  (*v0).f0.f0 = (struct S38_class_OpenVolumeMesh__PropertyStorageT_3*)0;
  (*v0).f0.f1.f0 = (struct S13_class_std___Sp_counted_base*)0;
  *v57 = ((fnptr_t*)((u8**)(&(*(&_ZTVN14OpenVolumeMesh18PropertyStoragePtrIjEE)).f0.e[(s64)((s64)((u64)2ULL))])));
  v59 = (struct S38_class_OpenVolumeMesh__PropertyStorageT_3**)(&(*v54).f0.f0.f1.f0.f0);
  *v59 = v55;
  v60 = (struct S13_class_std___Sp_counted_base**)(&(*v54).f0.f0.f1.f0.f1.f0);
  *v60 = v56;
  *v57 = ((fnptr_t*)((u8**)(&(*(&_ZTVN14OpenVolumeMesh14HandleIndexingINS_6Entity8HalfFaceENS_18PropertyStoragePtrIjEEEE)).f0.e[(s64)((s64)((u64)2ULL))])));
  v61 = (fnptr_t**)(&(*v54).f1.f0);
  *v61 = ((fnptr_t*)((u8**)(&(*(&_ZTVN14OpenVolumeMesh15BasePropertyPtrE)).f0.e[(s64)((s64)((u64)2ULL))])));
  *v57 = ((fnptr_t*)((u8**)(&(*(&_ZTVN14OpenVolumeMesh11PropertyPtrIjNS_6Entity8HalfFaceEEE)).f0.e[(s64)((s64)((u64)2ULL))])));
  *v61 = ((fnptr_t*)((u8**)(&(*(&_ZTVN14OpenVolumeMesh11PropertyPtrIjNS_6Entity8HalfFaceEEE)).f1.e[(s64)((s64)((u64)2ULL))])));
  v62 = (u8*)(v53 + (s64)((s64)((u64)24ULL)));
  v63 = (u8**)&(*a0).f0.f0.f0.f0.f0.f0;
  *v63 = v62;
  v64 = (struct S13_class_std___Sp_counted_base**)(&(*v0).f0.f1.f0);
  v65 = *v64;
  v66 = ((u8*)v65 == (u8*)((struct S13_class_std___Sp_counted_base*)0));
  if (v66) {
    goto L24;
  } else {
    goto L17;
  }
L17: ;
  v67 = (u32*)(&(*v65).f1);
  v68 = (u64*)v67;
  v69 = (((u64)(*v65).f1 << 0) | ((u64)(*v65).f2 << 32));
  v70 = (v69 == ((u64)4294967297ULL));
  if (v70) {
    goto L18;
  } else {
    goto L19;
  }
L18: ;
  *v67 = ((u32)0ULL);
  v71 = (u32*)(&(*v65).f2);
  *v71 = ((u32)0ULL);
  v72 = (fnptr_t**)&(*v65).f0;
  v73 = *v72;
  v74 = (fnptr_t*)(v73 + (s64)((s64)((u64)2ULL)));
  v75 = *v74;
  ((FT0)v75)(v65);
  v76 = *v72;
  v77 = (fnptr_t*)(v76 + (s64)((s64)((u64)3ULL)));
  v78 = *v77;
  ((FT0)v78)(v65);
  goto L24;
L19: ;
  v79 = *(&__libc_single_threaded);
  v80 = (v79 == ((u8)0ULL));
  if (v80) {
    goto L21;
  } else {
    goto L20;
  }
L20: ;
  v81 = *v67;
  v82 = ((u32)(v81 + ((u32)4294967295ULL)));
  *v67 = v82;
  v85 = v81;
  goto L22;
L21: ;
  v83 = *v67;
  v84 = ((u32)(v83 + ((u32)4294967295ULL)));
  *v67 = v84;
  v85 = v83;
  goto L22;
L22: ;
  v86 = (v85 == ((u32)1ULL));
  if (v86) {
    goto L23;
  } else {
    goto L24;
  }
L23: ;
  _ZNSt16_Sp_counted_baseILN9__gnu_cxx12_Lock_policyE2EE24_M_release_last_use_coldEv(v65);
  goto L24;
L24: ;
  return;
L25: ;
  v87.f0 = v_exc_obj;
  v87.f1 = 0;
  v_exc = 0;
  v88 = (struct S43_class_std____shared_ptr_349*)(&(*v0).f0);
  _ZNSt12__shared_ptrIN14OpenVolumeMesh16PropertyStorageTIjEELN9__gnu_cxx12_Lock_policyE2EED2Ev(v88);
  v_exc = 1; return;
}

void _ZZN14OpenVolumeMesh16PropertyStorageTIjE17make_property_ptrEvENKUlT_E_clINS_6Entity4CellEEEDaS2_(struct S41_class_std__unique_ptr* a0, struct S42_class_anon_445* a1) {
  struct S55_class_std__shared_ptr_348* v0; struct S55_class_std__shared_ptr_348 v0_m;
  u8** v1;
  u8* v2;
  u8* v3;
  u8* v4;
  u8* v5;
  struct S13_class_std___Sp_counted_base** v6;
  struct S13_class_std___Sp_counted_base* v7;
  u1 v8;
  u32* v9;
  u32 v10;
  u32 v11; u32 v11_t;
  u1 v12;
  u32 v13;
  u32 v14;
  u1 v15;
  u32 v16;
  struct S69 v17;
  struct S69 v18;
  u1 v19;
  u32 v20;
  u8* v21;
  u64* v22;
  fnptr_t** v23;
  struct S38_class_OpenVolumeMesh__PropertyStorageT_3** v24;
  struct S38_class_OpenVolumeMesh__PropertyStorageT_3* v25;
  struct S38_class_OpenVolumeMesh__PropertyStorageT_3** v26;
  struct S13_class_std___Sp_counted_base** v27;
  u8 v28;
  u1 v29;
  u32 v30;
  u32 v31;
  u32 v32;
  u32 v33;
  u64* v34;
  u64 v35;
  u1 v36;
  u32* v37;
  fnptr_t** v38;
  fnptr_t* v39;
  fnptr_t* v40;
  fnptr_t v41;
  fnptr_t* v42;
  fnptr_t* v43;
  fnptr_t v44;
  u8 v45;
  u1 v46;
  u32 v47;
  u32 v48;
  u32 v49;
  u32 v50;
  u32 v51; u32 v51_t;
  u1 v52;
  u8* v53;
  struct S44_class_OpenVolumeMesh__PropertyPtr_431* v54;
  struct S38_class_OpenVolumeMesh__PropertyStorageT_3* v55;
  struct S13_class_std___Sp_counted_base* v56;
  fnptr_t** v57;
  u8* v58;
  struct S38_class_OpenVolumeMesh__PropertyStorageT_3** v59;
  struct S13_class_std___Sp_counted_base** v60;
  fnptr_t** v61;
  u8* v62;
  u8** v63;
  struct S13_class_std___Sp_counted_base** v64;
  struct S13_class_std___Sp_counted_base* v65;
  u1 v66;
  u32* v67;
  u64* v68;
  u64 v69;
  u1 v70;
  u32* v71;
  fnptr_t** v72;
  fnptr_t* v73;
  fnptr_t* v74;
  fnptr_t v75;
  fnptr_t* v76;
  fnptr_t* v77;
  fnptr_t v78;
  u8 v79;
  u1 v80;
  u32 v81;
  u32 v82;
  u32 v83;
  u32 v84;
  u32 v85; u32 v85_t;
  u1 v86;
  struct S63 v87;
  struct S43_class_std____shared_ptr_349* v88;
L0: ;
  v0 = &v0_m;
  v1 = (u8**)&(*a1).f0;
  v2 = *v1;
  v3 = (u8*)v0;
  v4 = (u8*)(v2 + (s64)((s64)((u64)16ULL)));
  v5 = (u8*)(v2 + (s64)((s64)((u64)24ULL)));
  v6 = (struct S13_class_std___Sp_counted_base**)v5;
  v7 = *v6;
  v8 = ((u8*)v7 == (u8*)((struct S13_class_std___Sp_counted_base*)0));
  if (v8) {
    goto L4;
  } else {
    goto L1;
  }
L1: ;
  v9 = (u32*)(&(*v7).f1);
  v10 = *v9;
  v11 = v10;
  goto L2;
L2: ;
  v12 = (v11 == ((u32)0ULL));
  if (v12) {
    goto L4;
  } else {
    goto L3;
  }
L3: ;
  v13 = ((u32)(v11 + ((u32)1ULL)));
  v14 = *v9;
  v15 = (v14 == v11);
  v16 = (v15 ? v13 : v14);
  *v9 = v16;
  v17.f0 = v14;
  v18 = v17;
  v18.f1 = v15;
  v19 = v18.f1;
  v20 = v18.f0;
  if (v19) {
    goto L5;
  } else {
    v11 = v20;
    goto L2;
  }
L4: ;
  v21 = __cxa_allocate_exception(((u64)8ULL));
  v22 = (u64*)v21;
  *v22 = ((u64)0ULL);
  v23 = (fnptr_t**)v21;
  *v23 = ((fnptr_t*)((u8**)(&(*(&_ZTVSt12bad_weak_ptr)).f0.e[(s64)((s64)((u64)2ULL))])));
  __cxa_throw(v21, ((u8*)(&_ZTISt12bad_weak_ptr)), ((u8*)((fnptr_t)_ZNSt12bad_weak_ptrD1Ev)));
  if (v_exc) return;
  __CPROVER_assume(0);
L5: ;
  v24 = (struct S38_class_OpenVolumeMesh__PropertyStorageT_3**)v4;
  v25 = *v24;
  v26 = (struct S38_class_OpenVolumeMesh__PropertyStorageT_3**)(&(*v0).f0.f0);
  *v26 = v25;
  v27 = (struct S13_class_std___Sp_counted_base**)(&(*v0).f0.f1.f0);
  *v27 = v7;
  v28 = *(&__libc_single_threaded);
  v29 = (v28 == ((u8)0ULL));
  if (v29) {
    goto L7;
  } else {
    goto L6;
  }
L6: ;
  v30 = *v9;
  v31 = ((u32)(v30 + ((u32)1ULL)));
  *v9 = v31;
  goto L8;
L7: ;
  v32 = *v9;
  v33 = ((u32)(v32 + ((u32)1ULL)));
  *v9 = v33;
  goto L8;
L8: ;
  v34 = (u64*)v9;
  v35 = (((u64)(*v7).f1 << 0) | ((u64)(*v7).f2 << 32));
  v36 = (v35 == ((u64)4294967297ULL));
  if (v36) {
    goto L9;
  } else {
    goto L10;
  }
L9: ;
  *v9 = ((u32)0ULL);
  v37 = (u32*)(&(*v7).f2);
  *v37 = ((u32)0ULL);
  v38 = (fnptr_t**)&(*v7).f0;
  v39 = *v38;
  v40 = (fnptr_t*)(v39 + (s64)((s64)((u64)2ULL)));
  v41 = *v40;
  ((FT0)v41)(v7);
  v42 = *v38;
  v43 = (fnptr_t*)(v42 + (s64)((s64)((u64)3ULL)));
  v44 = *v43;
  ((FT0)v44)(v7);
  goto L15;
L10: ;
  v45 = *(&__libc_single_threaded);
  v46 = (v45 == ((u8)0ULL));
  if (v46) {
    goto L12;
  } else {
    goto L11;
  }
L11: ;
  v47 = *v9;
  v48 = ((u32)(v47 + ((u32)4294967295ULL)));
  *v9 = v48;
  v51 = v47;
  goto L13;
L12: ;
  v49 = *v9;
  v50 = ((u32)(v49 + ((u32)4294967295ULL)));
  *v9 = v50;
  v51 = v49;
  goto L13;
L13: ;
  v52 = (v51 == ((u32)1ULL));
  if (v52) {
    goto L14;
  } else {
    goto L15;
  }
L14: ;
  _ZNSt16_Sp_counted_baseILN9__gnu_cxx12_Lock_policyE2EE24_M_release_last_use_coldEv(v7);
  goto L15;
L15: ;
  v53 = (u8*)((((u64)32ULL) % sizeof(struct S44_class_OpenVolumeMesh__PropertyPtr_431) == 0) ? __CPROVER_allocate(sizeof(struct S44_class_OpenVolumeMesh__PropertyPtr_431) * (((u64)32ULL) / sizeof(struct S44_class_OpenVolumeMesh__PropertyPtr_431)), 0) : __CPROVER_allocate(((u64)32ULL), 0));
  v_alloc_note((u8*)v53);
  if (v_exc) {
    goto L25;
  }
  goto L16;
L16: ;
  v54 = (struct S44_class_OpenVolumeMesh__PropertyPtr_431*)v53;
  v55 = *v26;
  v56 = *v27;
  v57 = (fnptr_t**)(&(*v54).f0.f0.f0);
  v58 = (u8*)v0;
  (*v0).f0.f0 = (struct S38_class_OpenVolumeMesh__PropertyStorageT_3*)0;
  (*v0).f0.f1.f0 = (struct S13_class_std___Sp_counted_base*)0;
  *v57 = ((fnptr_t*)((u8**)(&(*(&_ZTVN14OpenVolumeMesh18PropertyStoragePtrIjEE)).f0.e[(s64)((s64)((u64)2ULL))])));
  v59 = (struct S38_class_OpenVolumeMesh__PropertyStorageT_3**)(&(*v54).f0.f0.f1.f0.f0);
  *v59 = v55;
  v60 = (struct S13_class_std___Sp_counted_base**)(&(*v54).f0.f0.f1.f0.f1.f0);
  *v60 = v56;
  *v57 = ((fnptr_t*)((u8**)(&(*(&_ZTVN14OpenVolumeMesh14HandleIndexingINS_6Entity4CellENS_18PropertyStoragePtrIjEEEE)).f0.e[(s64)((s64)((u64)2ULL))])));
  v61 = (fnptr_t**)(&(*v54).f1.f0);
  *v61 = ((fnptr_t*)((u8**)(&(*(&_ZTVN14OpenVolumeMesh15BasePropertyPtrE)).f0.e[(s64)((s64)((u64)2ULL))])));
  *v57 = ((fnptr_t*)((u8**)(&(*(&_ZTVN14OpenVolumeMesh11PropertyPtrIjNS_6Entity4CellEEE)).f0.e[(s64)((s64)((u64)2ULL))])));
  *v61 = ((fnptr_t*)((u8**)(&(*(&_ZTVN14OpenVolumeMesh11PropertyPtrIjNS_6Entity4CellEEE)).f1.e[(s64)((s64)((u64)2ULL))])));
  v62 = (u8*)(v53 + (s64)((s64)((u64)24ULL)));
  v63 = (u8**)&(*a0).f0.f0.f0.f0.f0.f0;
  *v63 = v62;
  v64 = (struct S13_class_std___Sp_counted_base**)(&(*v0).f0.f1.f0);
  v65 = *v64;
  v66 = ((u8*)v65 == (u8*)((struct S13_class_std___Sp_counted_base*)0));
  if (v66) {
    goto L24;
  } else {
    goto L17;
  }
L17: ;
  v67 = (u32*)(&(*v65).f1);
  v68 = (u64*)v67;
  v69 = (((u64)(*v65).f1 << 0) | ((u64)(*v65).f2 << 32));
  v70 = (v69 == ((u64)4294967297ULL));
  if (v70) {
    goto L18;
  } else {
    goto L19;
  }
L18: ;
  *v67 = ((u32)0ULL);
  v71 = (u32*)(&(*v65).f2);
  *v71 = ((u32)0ULL);
  v72 = (fnptr_t**)&(*v65).f0;
  v73 = *v72;
  v74 = (fnptr_t*)(v73 + (s64)((s64)((u64)2ULL)));
  v75 = *v74;
  ((FT0)v75)(v65);
  v76 = *v72;
  v77 = (fnptr_t*)(v76 + (s64)((s64)((u64)3ULL)));
  v78 = *v77;
  ((FT0)v78)(v65);
  goto L24;
L19: ;
  v79 = *(&__libc_single_threaded);
  v80 = (v79 == ((u8)0ULL));
  if (v80) {
    goto L21;
  } else {
    goto L20;
  }
L20: ;
  v81 = *v67;
  v82 = ((u32)(v81 + ((u32)4294967295ULL)));
  *v67 = v82;
  v85 = v81;
  goto L22;
L21: ;
  v83 = *v67;
  v84 = ((u32)(v83 + ((u32)4294967295ULL)));
  *v67 = v84;
  v85 = v83;
  goto L22;
L22: ;
  v86 = (v85 == ((u32)1ULL));
  if (v86) {
    goto L23;
  } else {
    goto L24;
  }
L23: ;
  _ZNSt16_Sp_counted_baseILN9__gnu_cxx12_Lock_policyE2EE24_M_release_last_use_coldEv(v65);
  goto L24;
L24: ;
  return;
L25: ;
  v87.f0 = v_exc_obj;
  v87.f1 = 0;
  v_exc = 0;
  v88 = (struct S43_class_std____shared_ptr_349*)(&(*v0).f0);
  _ZNSt12__shared_ptrIN14OpenVolumeMesh16PropertyStorageTIjEELN9__gnu_cxx12_Lock_policyE2EED2Ev(v88);
  v_exc = 1; return;
}

void _ZZN14OpenVolumeMesh16PropertyStorageTIjE17make_property_ptrEvENKUlT_E_clINS_6Entity4MeshEEEDaS2_(struct S41_class_std__unique_ptr* a0, struct S42_class_anon_445* a1) {
  struct S55_class_std__shared_ptr_348* v0; struct S55_class_std__shared_ptr_348 v0_m;
  u8** v1;
  u8* v2;
  u8* v3;
  u8* v4;
  u8* v5;
  struct S13_class_std___Sp_counted_base** v6;
  struct S13_class_std___Sp_counted_base* v7;
  u1 v8;
  u32* v9;
  u32 v10;
  u32 v11; u32 v11_t;
  u1 v12;
  u32 v13;
  u32 v14;
  u1 v15;
  u32 v16;
  struct S69 v17;
  struct S69 v18;
  u1 v19;
  u32 v20;
  u8* v21;
  u64* v22;
  fnptr_t** v23;
  struct S38_class_OpenVolumeMesh__PropertyStorageT_3** v24;
  struct S38_class_OpenVolumeMesh__PropertyStorageT_3* v25;
  struct S38_class_OpenVolumeMesh__PropertyStorageT_3** v26;
  struct S13_class_std___Sp_counted_base** v27;
  u8 v28;
  u1 v29;
  u32 v30;
  u32 v31;
  u32 v32;
  u32 v33;
  u64* v34;
  u64 v35;
  u1 v36;
  u32* v37;
  fnptr_t** v38;
  fnptr_t* v39;
  fnptr_t* v40;
  fnptr_t v41;
  fnptr_t* v42;
  fnptr_t* v43;
  fnptr_t v44;
  u8 v45;
  u1 v46;
  u32 v47;
  u32 v48;
  u32 v49;
  u32 v50;
  u32 v51; u32 v51_t;
  u1 v52;
  u8* v53;
  struct S44_class_OpenVolumeMesh__PropertyPtr_431* v54;
  struct S38_class_OpenVolumeMesh__PropertyStorageT_3* v55;
  struct S13_class_std___Sp_counted_base* v56;
  fnptr_t** v57;
  u8* v58;
  struct S38_class_OpenVolumeMesh__PropertyStorageT_3** v59;
  struct S13_class_std___Sp_counted_base** v60;
  fnptr_t** v61;
  u8* v62;
  u8** v63;
  struct S13_class_std___Sp_counted_base** v64;
  struct S13_class_std___Sp_counted_base* v65;
  u1 v66;
  u32* v67;
  u64* v68;
  u64 v69;
  u1 v70;
  u32* v71;
  fnptr_t** v72;
  fnptr_t* v73;
  fnptr_t* v74;
  fnptr_t v75;
  fnptr_t* v76;
  fnptr_t* v77;
  fnptr_t v78;
  u8 v79;
  u1 v80;
  u32 v81;
  u32 v82;
  u32 v83;
  u32 v84;
  u32 v85; u32 v85_t;
  u1 v86;
  struct S63 v87;
  struct S43_class_std____shared_ptr_349* v88;
L0: ;
  v0 = &v0_m;
  v1 = (u8**)&(*a1).f0;
  v2 = *v1;
  v3 = (u8*)v0;
  v4 = (u8*)(v2 + (s64)((s64)((u64)16ULL)));
  v5 = (u8*)(v2 + (s64)((s64)((u64)24ULL)));
  v6 = (struct S13_class_std___Sp_counted_base**)v5;
  v7 = *v6;
  v8 = ((u8*)v7 == (u8*)((struct S13_class_std___Sp_counted_base*)0));
  if (v8) {
    goto L4;
  } else {
    goto L1;
  }
L1: ;
  v9 = (u32*)(&(*v7).f1);
  v10 = *v9;
  v11 = v10;
  goto L2;
L2: ;
  v12 = (v11 == ((u32)0ULL));
  if (v12) {
    goto L4;
  } else {
    goto L3;
  }
L3: ;
  v13 = ((u32)(v11 + ((u32)1ULL)));
  v14 = *v9;
  v15 = (v14 == v11);
  v16 = (v15 ? v13 : v14);
  *v9 = v16;
  v17.f0 = v14;
  v18 = v17;
  v18.f1 = v15;
  v19 = v18.f1;
  v20 = v18.f0;
  if (v19) {
    goto L5;
  } else {
    v11 = v20;
    goto L2;
  }
L4: ;
  v21 = __cxa_allocate_exception(((u64)8ULL));
  v22 = (u64*)v21;
  *v22 = ((u64)0ULL);
  v23 = (fnptr_t**)v21;
  *v23 = ((fnptr_t*)((u8**)(&(*(&_ZTVSt12bad_weak_ptr)).f0.e[(s64)((s64)((u64)2ULL))])));
  __cxa_throw(v21, ((u8*)(&_ZTISt12bad_weak_ptr)), ((u8*)((fnptr_t)_ZNSt12bad_weak_ptrD1Ev)));
  if (v_exc) return;
  __CPROVER_assume(0);
L5: ;
  v24 = (struct S38_class_OpenVolumeMesh__PropertyStorageT_3**)v4;
  v25 = *v24;
  v26 = (struct S38_class_OpenVolumeMesh__PropertyStorageT_3**)(&(*v0).f0.f0);
  *v26 = v25;
  v27 = (struct S13_class_std___Sp_counted_base**)(&(*v0).f0.f1.f0);
  *v27 = v7;
  v28 = *(&__libc_single_threaded);
  v29 = (v28 == ((u8)0ULL));
  if (v29) {
    goto L7;
  } else {
    goto L6;
  }
L6: ;
  v30 = *v9;
  v31 = ((u32)(v30 + ((u32)1ULL)));
  *v9 = v31;
  goto L8;
L7: ;
  v32 = *v9;
  v33 = ((u32)(v32 + ((u32)1ULL)));
  *v9 = v33;
  goto L8;
L8: ;
  v34 = (u64*)v9;
  v35 = (((u64)(*v7).f1 << 0) | ((u64)(*v7).f2 << 32));
  v36 = (v35 == ((u64)4294967297ULL));
  if (v36) {
    goto L9;
  } else {
    goto L10;
  }
L9: ;
  *v9 = ((u32)0ULL);
  v37 = (u32*)(&(*v7).f2);
  *v37 = ((u32)0ULL);
  v38 = (fnptr_t**)&(*v7).f0;
  v39 = *v38;
  v40 = (fnptr_t*)(v39 + (s64)((s64)((u64)2ULL)));
  v41 = *v40;
  ((FT0)v41)(v7);
  v42 = *v38;
  v43 = (fnptr_t*)(v42 + (s64)((s64)((u64)3ULL)));
  v44 = *v43;
  ((FT0)v44)(v7);
  goto L15;
L10: ;
  v45 = *(&__libc_single_threaded);
  v46 = (v45 == ((u8)0ULL));
  if (v46) {
    goto L12;
  } else {
    goto L11;
  }
L11: ;
  v47 = *v9;
  v48 = ((u32)(v47 + ((u32)4294967295ULL)));
  *v9 = v48;
  v51 = v47;
  goto L13;
L12: ;
  v49 = *v9;
  v50 = ((u32)(v49 + ((u32)4294967295ULL)));
  *v9 = v50;
  v51 = v49;
  goto L13;
L13: ;
  v52 = (v51 == ((u32)1ULL));
  if (v52) {
    goto L14;
  } else {
    goto L15;
  }
L14: ;
  _ZNSt16_Sp_counted_baseILN9__gnu_cxx12_Lock_policyE2EE24_M_release_last_use_coldEv(v7);
  goto L15;
L15: ;
  v53 = (u8*)((((u64)32ULL) % sizeof(struct S44_class_OpenVolumeMesh__PropertyPtr_431) == 0) ? __CPROVER_allocate(sizeof(struct S44_class_OpenVolumeMesh__PropertyPtr_431) * (((u64)32ULL) / sizeof(struct S44_class_OpenVolumeMesh__PropertyPtr_431)), 0) : __CPROVER_allocate(((u64)32ULL), 0));
  v_alloc_note((u8*)v53);
  if (v_exc) {
    goto L25;
  }
  goto L16;
L16: ;
  v54 = (struct S44_class_OpenVolumeMesh__PropertyPtr_431*)v53;
  v55 = *v26;
  v56 = *v27;
  v57 = (fnptr_t**)(&(*v54).f0.f0.f0);
  v58 = (u8*)v0;
  (*v0).f0.f0 = (struct S38_class_OpenVolumeMesh__PropertyStorageT_3*)0;
  (*v0).f0.f1.f0 = (struct S13_class_std___Sp_counted_base*)0;
  *v57 = ((fnptr_t*)((u8**)(&(*(&_ZTVN14OpenVolumeMesh18PropertyStoragePtrIjEE)).f0.e[(s64)((s64)((u64)2ULL))])));
  v59 = (struct S38_class_OpenVolumeMesh__PropertyStorageT_3**)(&(*v54).f0.f0.f1.f0.f0);
  *v59 = v55;
  v60 = (struct S13_class_std___Sp_counted_base**)(&(*v54).f0.f0.f1.f0.f1.f0);
  *v60 = v56;
  *v57 = ((fnptr_t*)((u8**)(&(*(&_ZTVN14OpenVolumeMesh14HandleIndexingINS_6Entity4MeshENS_18PropertyStoragePtrIjEEEE)).f0.e[(s64)((s64)((u64)2ULL))])));
  v61 = (fnptr_t**)(&(*v54).f1.f0);
  *v61 = ((fnptr_t*)((u8**)(&(*(&_ZTVN14OpenVolumeMesh15BasePropertyPtrE)).f0.e[(s64)((s64)((u64)2ULL))])));
  *v57 = ((fnptr_t*)((u8**)(&(*(&_ZTVN14OpenVolumeMesh11PropertyPtrIjNS_6Entity4MeshEEE)).f0.e[(s64)((s64)((u64)2ULL))])));
  *v61 = ((fnptr_t*)((u8**)(&(*(&_ZTVN14OpenVolumeMesh11PropertyPtrIjNS_6Entity4MeshEEE)).f1.e[(s64)((s64)((u64)2ULL))])));
  v62 = (u8*)(v53 + (s64)((s64)((u64)24ULL)));
  v63 = (u8**)&(*a0).f0.f0.f0.f0.f0.f0;
  *v63 = v62;
  v64 = (struct S13_class_std___Sp_counted_base**)(&(*v0).f0.f1.f0);
  v65 = *v64;
  v66 = ((u8*)v65 == (u8*)((struct S13_class_std___Sp_counted_base*)0));
  if (v66) {
    goto L24;
  } else {
    goto L17;
  }
L17: ;
  v67 = (u32*)(&(*v65).f1);
  v68 = (u64*)v67;
  v69 = (((u64)(*v65).f1 << 0) | ((u64)(*v65).f2 << 32));
  v70 = (v69 == ((u64)4294967297ULL));
  if (v70) {
    goto L18;
  } else {
    goto L19;
  }
L18: ;
  *v67 = ((u32)0ULL);
  v71 = (u32*)(&(*v65).f2);
  *v71 = ((u32)0ULL);
  v72 = (fnptr_t**)&(*v65).f0;
  v73 = *v72;
  v74 = (fnptr_t*)(v73 + (s64)((s64)((u64)2ULL)));
  v75 = *v74;
  ((FT0)v75)(v65);
  v76 = *v72;
  v77 = (fnptr_t*)(v76 + (s64)((s64)((u64)3ULL)));
  v78 = *v77;
  ((FT0)v78)(v65);
  goto L24;
L19: ;
  v79 = *(&__libc_single_threaded);
  v80 = (v79 == ((u8)0ULL));
  if (v80) {
    goto L21;
  } else {
    goto L20;
  }
L20: ;
  v81 = *v67;
  v82 = ((u32)(v81 + ((u32)4294967295ULL)));
  *v67 = v82;
  v85 = v81;
  goto L22;
L21: ;
  v83 = *v67;
  v84 = ((u32)(v83 + ((u32)4294967295ULL)));
  *v67 = v84;
  v85 = v83;
  goto L22;
L22: ;
  v86 = (v85 == ((u32)1ULL));
  if (v86) {
    goto L23;
  } else {
    goto L24;
  }
L23: ;
  _ZNSt16_Sp_counted_baseILN9__gnu_cxx12_Lock_policyE2EE24_M_release_last_use_coldEv(v65);
  goto L24;
L24: ;
  return;
L25: ;
  v87.f0 = v_exc_obj;
  v87.f1 = 0;
  v_exc = 0;
  v88 = (struct S43_class_std____shared_ptr_349*)(&(*v0).f0);
  _ZNSt12__shared_ptrIN14OpenVolumeMesh16PropertyStorageTIjEELN9__gnu_cxx12_Lock_policyE2EED2Ev(v88);
  v_exc = 1; return;
}

void _ZNSt12__shared_ptrIN14OpenVolumeMesh16PropertyStorageTIjEELN9__gnu_cxx12_Lock_policyE2EED2Ev(struct S43_class_std____shared_ptr_349* a0) {
  struct S13_class_std___Sp_counted_base** v0;
  struct S13_class_std___Sp_counted_base* v1;
  u1 v2;
  u32* v3;
  u64* v4;
  u64 v5;
  u1 v6;
  u32* v7;
  fnptr_t** v8;
  fnptr_t* v9;
  fnptr_t* v10;
  fnptr_t v11;
  fnptr_t* v12;
  fnptr_t* v13;
  fnptr_t v14;
  u8 v15;
  u1 v16;
  u32 v17;
  u32 v18;
  u32 v19;
  u32 v20;
  u32 v21; u32 v21_t;
  u1 v22;
L0: ;
  v0 = (struct S13_class_std___Sp_counted_base**)(&(*a0).f1.f0);
  v1 = *v0;
  v2 = ((u8*)v1 == (u8*)((struct S13_class_std___Sp_counted_base*)0));
  if (v2) {
    goto L8;
  } else {
    goto L1;
  }
L1: ;
  v3 = (u32*)(&(*v1).f1);
  v4 = (u64*)v3;
  v5 = (((u64)(*v1).f1 << 0) | ((u64)(*v1).f2 << 32));
  v6 = (v5 == ((u64)4294967297ULL));
  if (v6) {
    goto L2;
  } else {
    goto L3;
  }
L2: ;
  *v3 = ((u32)0ULL);
  v7 = (u32*)(&(*v1).f2);
  *v7 = ((u32)0ULL);
  v8 = (fnptr_t**)&(*v1).f0;
  v9 = *v8;
  v10 = (fnptr_t*)(v9 + (s64)((s64)((u64)2ULL)));
  v11 = *v10;
  ((FT0)v11)(v1);
  v12 = *v8;
  v13 = (fnptr_t*)(v12 + (s64)((s64)((u64)3ULL)));
  v14 = *v13;
  ((FT0)v14)(v1);
  goto L8;
L3: ;
  v15 = *(&__libc_single_threaded);
  v16 = (v15 == ((u8)0ULL));
  if (v16) {
    goto L5;
  } else {
    goto L4;
  }
L4: ;
  v17 = *v3;
  v18 = ((u32)(v17 + ((u32)4294967295ULL)));
  *v3 = v18;
  v21 = v17;
  goto L6;
L5: ;
  v19 = *v3;
  v20 = ((u32)(v19 + ((u32)4294967295ULL)));
  *v3 = v20;
  v21 = v19;
  goto L6;
L6: ;
  v22 = (v21 == ((u32)1ULL));
  if (v22) {
    goto L7;
  } else {
    goto L8;
  }
L7: ;
  _ZNSt16_Sp_counted_baseILN9__gnu_cxx12_Lock_policyE2EE24_M_release_last_use_coldEv(v1);
  goto L8;
L8: ;
  return;
}

void _ZN14OpenVolumeMesh11PropertyPtrIjNS_6Entity4MeshEED2Ev(struct S44_class_OpenVolumeMesh__PropertyPtr_431* a0) {
  fnptr_t** v0;
  struct S13_class_std___Sp_counted_base** v1;
  struct S13_class_std___Sp_counted_base* v2;
  u1 v3;
  u32* v4;
  u64* v5;
  u64 v6;
  u1 v7;
  u32* v8;
  fnptr_t** v9;
  fnptr_t* v10;
  fnptr_t* v11;
  fnptr_t v12;
  fnptr_t* v13;
  fnptr_t* v14;
  fnptr_t v15;
  u8 v16;
  u1 v17;
  u32 v18;
  u32 v19;
  u32 v20;
  u32 v21;
  u32 v22; u32 v22_t;
  u1 v23;
L0: ;
  v0 = (fnptr_t**)(&(*a0).f0.f0.f0);
  *v0 = ((fnptr_t*)((u8**)(&(*(&_ZTVN14OpenVolumeMesh18PropertyStoragePtrIjEE)).f0.e[(s64)((s64)((u64)2ULL))])));
  v1 = (struct S13_class_std___Sp_counted_base**)(&(*a0).f0.f0.f1.f0.f1.f0);
  v2 = *v1;
  v3 = ((u8*)v2 == (u8*)((struct S13_class_std___Sp_counted_base*)0));
  if (v3) {
    goto L8;
  } else {
    goto L1;
  }
L1: ;
  v4 = (u32*)(&(*v2).f1);
  v5 = (u64*)v4;
  v6 = (((u64)(*v2).f1 << 0) | ((u64)(*v2).f2 << 32));
  v7 = (v6 == ((u64)4294967297ULL));
  if (v7) {
    goto L2;
  } else {
    goto L3;
  }
L2: ;
  *v4 = ((u32)0ULL);
  v8 = (u32*)(&(*v2).f2);
  *v8 = ((u32)0ULL);
  v9 = (fnptr_t**)&(*v2).f0;
  v10 = *v9;
  v11 = (fnptr_t*)(v10 + (s64)((s64)((u64)2ULL)));
  v12 = *v11;
  ((FT0)v12)(v2);
  v13 = *v9;
  v14 = (fnptr_t*)(v13 + (s64)((s64)((u64)3ULL)));
  v15 = *v14;
  ((FT0)v15)(v2);
  goto L8;
L3: ;
  v16 = *(&__libc_single_threaded);
  v17 = (v16 == ((u8)0ULL));
  if (v17) {
    goto L5;
  } else {
    goto L4;
  }
L4: ;
  v18 = *v4;
  v19 = ((u32)(v18 + ((u32)4294967295ULL)));
  *v4 = v19;
  v22 = v18;
  goto L6;
L5: ;
  v20 = *v4;
  v21 = ((u32)(v20 + ((u32)4294967295ULL)));
  *v4 = v21;
  v22 = v20;
  goto L6;
L6: ;
  v23 = (v22 == ((u32)1ULL));
  if (v23) {
    goto L7;
  } else {
    goto L8;
  }
L7: ;
  _ZNSt16_Sp_counted_baseILN9__gnu_cxx12_Lock_policyE2EE24_M_release_last_use_coldEv(v2);
  goto L8;
L8: ;
  return;
}

void _ZN14OpenVolumeMesh11PropertyPtrIjNS_6Entity4MeshEED0Ev(struct S44_class_OpenVolumeMesh__PropertyPtr_431* a0) {
  fnptr_t** v0;
  struct S13_class_std___Sp_counted_base** v1;
  struct S13_class_std___Sp_counted_base* v2;
  u1 v3;
  u32* v4;
  u64* v5;
  u64 v6;
  u1 v7;
  u32* v8;
  fnptr_t** v9;
  fnptr_t* v10;
  fnptr_t* v11;
  fnptr_t v12;
  fnptr_t* v13;
  fnptr_t* v14;
  fnptr_t v15;
  u8 v16;
  u1 v17;
  u32 v18;
  u32 v19;
  u32 v20;
  u32 v21;
  u32 v22; u32 v22_t;
  u1 v23;
  u8* v24;
L0: ;
  v0 = (fnptr_t**)(&(*a0).f0.f0.f0);
  *v0 = ((fnptr_t*)((u8**)(&(*(&_ZTVN14OpenVolumeMesh18PropertyStoragePtrIjEE)).f0.e[(s64)((s64)((u64)2ULL))])));
  v1 = (struct S13_class_std___Sp_counted_base**)(&(*a0).f0.f0.f1.f0.f1.f0);
  v2 = *v1;
  v3 = ((u8*)v2 == (u8*)((struct S13_class_std___Sp_counted_base*)0));
  if (v3) {
    goto L8;
  } else {
    goto L1;
  }
L1: ;
  v4 = (u32*)(&(*v2).f1);
  v5 = (u64*)v4;
  v6 = (((u64)(*v2).f1 << 0) | ((u64)(*v2).f2 << 32));
  v7 = (v6 == ((u64)4294967297ULL));
  if (v7) {
    goto L2;
  } else {
    goto L3;
  }
L2: ;
  *v4 = ((u32)0ULL);
  v8 = (u32*)(&(*v2).f2);
  *v8 = ((u32)0ULL);
  v9 = (fnptr_t**)&(*v2).f0;
  v10 = *v9;
  v11 = (fnptr_t*)(v10 + (s64)((s64)((u64)2ULL)));
  v12 = *v11;
  ((FT0)v12)(v2);
  v13 = *v9;
  v14 = (fnptr_t*)(v13 + (s64)((s64)((u64)3ULL)));
  v15 = *v14;
  ((FT0)v15)(v2);
  goto L8;
L3: ;
  v16 = *(&__libc_single_threaded);
  v17 = (v16 == ((u8)0ULL));
  if (v17) {
    goto L5;
  } else {
    goto L4;
  }
L4: ;
  v18 = *v4;
  v19 = ((u32)(v18 + ((u32)4294967295ULL)));
  *v4 = v19;
  v22 = v18;
  goto L6;
L5: ;
  v20 = *v4;
  v21 = ((u32)(v20 + ((u32)4294967295ULL)));
  *v4 = v21;
  v22 = v20;
  goto L6;
L6: ;
  v23 = (v22 == ((u32)1ULL));
  if (v23) {
    goto L7;
  } else {
    goto L8;
  }
L7: ;
  _ZNSt16_Sp_counted_baseILN9__gnu_cxx12_Lock_policyE2EE24_M_release_last_use_coldEv(v2);
  goto L8;
L8: ;
  v24 = (u8*)a0;
  _ZdlPv(v24);
  return;
}

struct S27_class_std____cxx11__basic_string* _ZNKR14OpenVolumeMesh11PropertyPtrIjNS_6Entity4MeshEE4nameB5cxx11Ev(struct S44_class_OpenVolumeMesh__PropertyPtr_431* a0) {
  struct S38_class_OpenVolumeMesh__PropertyStorageT_3** v0;
  struct S16_class_OpenVolumeMesh__PropertyStorageBas** v1;
  struct S16_class_OpenVolumeMesh__PropertyStorageBas* v2;
  struct S27_class_std____cxx11__basic_string* v3;
L0: ;
  v0 = (struct S38_class_OpenVolumeMesh__PropertyStorageT_3**)(&(*a0).f0.f0.f1.f0.f0);
  v1 = (struct S16_class_OpenVolumeMesh__PropertyStorageBas**)&(*a0).f0.f0.f1.f0.f0;
  v2 = *v1;
  v3 = (struct S27_class_std____cxx11__basic_string*)(&(*v2).f2);
  return v3;
}

void _ZThn24_N14OpenVolumeMesh11PropertyPtrIjNS_6Entity4MeshEED1Ev(struct S44_class_OpenVolumeMesh__PropertyPtr_431* a0) {
  struct S55_class_std__shared_ptr_348* v0;
  fnptr_t** v1;
  struct S55_class_std__shared_ptr_348* v2;
  struct S13_class_std___Sp_counted_base** v3;
  struct S13_class_std___Sp_counted_base* v4;
  u1 v5;
  u32* v6;
  u64* v7;
  u64 v8;
  u1 v9;
  u32* v10;
  fnptr_t** v11;
  fnptr_t* v12;
  fnptr_t* v13;
  fnptr_t v14;
  fnptr_t* v15;
  fnptr_t* v16;
  fnptr_t v17;
  u8 v18;
  u1 v19;
  u32 v20;
  u32 v21;
  u32 v22;
  u32 v23;
  u32 v24; u32 v24_t;
  u1 v25;
L0: ;
  v0 = (struct S55_class_std__shared_ptr_348*)(&(a0)[(s64)((s64)((u64)18446744073709551615ULL))].f0.f0.f1);
  v1 = (fnptr_t**)v0;
  *v1 = ((fnptr_t*)((u8**)(&(*(&_ZTVN14OpenVolumeMesh18PropertyStoragePtrIjEE)).f0.e[(s64)((s64)((u64)2ULL))])));
  v2 = (struct S55_class_std__shared_ptr_348*)(v0 + (s64)((s64)((u64)1ULL)));
  v3 = (struct S13_class_std___Sp_counted_base**)v2;
  v4 = *v3;
  v5 = ((u8*)v4 == (u8*)((struct S13_class_std___Sp_counted_base*)0));
  if (v5) {
    goto L8;
  } else {
    goto L1;
  }
L1: ;
  v6 = (u32*)(&(*v4).f1);
  v7 = (u64*)v6;
  v8 = (((u64)(*v4).f1 << 0) | ((u64)(*v4).f2 << 32));
  v9 = (v8 == ((u64)4294967297ULL));
  if (v9) {
    goto L2;
  } else {
    goto L3;
  }
L2: ;
  *v6 = ((u32)0ULL);
  v10 = (u32*)(&(*v4).f2);
  *v10 = ((u32)0ULL);
  v11 = (fnptr_t**)&(*v4).f0;
  v12 = *v11;
  v13 = (fnptr_t*)(v12 + (s64)((s64)((u64)2ULL)));
  v14 = *v13;
  ((FT0)v14)(v4);
  v15 = *v11;
  v16 = (fnptr_t*)(v15 + (s64)((s64)((u64)3ULL)));
  v17 = *v16;
  ((FT0)v17)(v4);
  goto L8;
L3: ;
  v18 = *(&__libc_single_threaded);
  v19 = (v18 == ((u8)0ULL));
  if (v19) {
    goto L5;
  } else {
    goto L4;
  }
L4: ;
  v20 = *v6;
  v21 = ((u32)(v20 + ((u32)4294967295ULL)));
  *v6 = v21;
  v24 = v20;
  goto L6;
L5: ;
  v22 = *v6;
  v23 = ((u32)(v22 + ((u32)4294967295ULL)));
  *v6 = v23;
  v24 = v22;
  goto L6;
L6: ;
  v25 = (v24 == ((u32)1ULL));
  if (v25) {
    goto L7;
  } else {
    goto L8;
  }
L7: ;
  _ZNSt16_Sp_counted_baseILN9__gnu_cxx12_Lock_policyE2EE24_M_release_last_use_coldEv(v4);
  goto L8;
L8: ;
  return;
}

void _ZThn24_N14OpenVolumeMesh11PropertyPtrIjNS_6Entity4MeshEED0Ev(struct S44_class_OpenVolumeMesh__PropertyPtr_431* a0) {
  struct S55_class_std__shared_ptr_348* v0;
  fnptr_t** v1;
  struct S55_class_std__shared_ptr_348* v2;
  struct S13_class_std___Sp_counted_base** v3;
  struct S13_class_std___Sp_counted_base* v4;
  u1 v5;
  u32* v6;
  u64* v7;
  u64 v8;
  u1 v9;
  u32* v10;
  fnptr_t** v11;
  fnptr_t* v12;
  fnptr_t* v13;
  fnptr_t v14;
  fnptr_t* v15;
  fnptr_t* v16;
  fnptr_t v17;
  u8 v18;
  u1 v19;
  u32 v20;
  u32 v21;
  u32 v22;
  u32 v23;
  u32 v24; u32 v24_t;
  u1 v25;
  u8* v26;
L0: ;
  v0 = (struct S55_class_std__shared_ptr_348*)(&(a0)[(s64)((s64)((u64)18446744073709551615ULL))].f0.f0.f1);
  v1 = (fnptr_t**)v0;
  *v1 = ((fnptr_t*)((u8**)(&(*(&_ZTVN14OpenVolumeMesh18PropertyStoragePtrIjEE)).f0.e[(s64)((s64)((u64)2ULL))])));
  v2 = (struct S55_class_std__shared_ptr_348*)(v0 + (s64)((s64)((u64)1ULL)));
  v3 = (struct S13_class_std___Sp_counted_base**)v2;
  v4 = *v3;
  v5 = ((u8*)v4 == (u8*)((struct S13_class_std___Sp_counted_base*)0));
  if (v5) {
    goto L8;
  } else {
    goto L1;
  }
L1: ;
  v6 = (u32*)(&(*v4).f1);
  v7 = (u64*)v6;
  v8 = (((u64)(*v4).f1 << 0) | ((u64)(*v4).f2 << 32));
  v9 = (v8 == ((u64)4294967297ULL));
  if (v9) {
    goto L2;
  } else {
    goto L3;
  }
L2: ;
  *v6 = ((u32)0ULL);
  v10 = (u32*)(&(*v4).f2);
  *v10 = ((u32)0ULL);
  v11 = (fnptr_t**)&(*v4).f0;
  v12 = *v11;
  v13 = (fnptr_t*)(v12 + (s64)((s64)((u64)2ULL)));
  v14 = *v13;
  ((FT0)v14)(v4);
  v15 = *v11;
  v16 = (fnptr_t*)(v15 + (s64)((s64)((u64)3ULL)));
  v17 = *v16;
  ((FT0)v17)(v4);
  goto L8;
L3: ;
  v18 = *(&__libc_single_threaded);
  v19 = (v18 == ((u8)0ULL));
  if (v19) {
    goto L5;
  } else {
    goto L4;
  }
L4: ;
  v20 = *v6;
  v21 = ((u32)(v20 + ((u32)4294967295ULL)));
  *v6 = v21;
  v24 = v20;
  goto L6;
L5: ;
  v22 = *v6;
  v23 = ((u32)(v22 + ((u32)4294967295ULL)));
  *v6 = v23;
  v24 = v22;
  goto L6;
L6: ;
  v25 = (v24 == ((u32)1ULL));
  if (v25) {
    goto L7;
  } else {
    goto L8;
  }
L7: ;
  _ZNSt16_Sp_counted_baseILN9__gnu_cxx12_Lock_policyE2EE24_M_release_last_use_coldEv(v4);
  goto L8;
L8: ;
  v26 = (u8*)v0;
  _ZdlPv(v26);
  return;
}

struct S27_class_std____cxx11__basic_string* _ZThn24_NKR14OpenVolumeMesh11PropertyPtrIjNS_6Entity4MeshEE4nameB5cxx11Ev(struct S44_class_OpenVolumeMesh__PropertyPtr_431* a0) {
  struct S70_class_std____weak_count* v0;
  struct S16_class_OpenVolumeMesh__PropertyStorageBas** v1;
  struct S16_class_OpenVolumeMesh__PropertyStorageBas* v2;
  struct S27_class_std____cxx11__basic_string* v3;
L0: ;
  v0 = (struct S70_class_std____weak_count*)(&(a0)[(s64)((s64)((u64)18446744073709551615ULL))].f0.f0.f1.f0.f1);
  v1 = (struct S16_class_OpenVolumeMesh__PropertyStorageBas**)v0;
  v2 = *v1;
  v3 = (struct S27_class_std____cxx11__basic_string*)(&(*v2).f2);
  return v3;
}

void _ZN14OpenVolumeMesh18PropertyStoragePtrIjED2Ev(struct S45_class_OpenVolumeMesh__PropertyStoragePtr* a0) {
  fnptr_t** v0;
  struct S13_class_std___Sp_counted_base** v1;
  struct S13_class_std___Sp_counted_base* v2;
  u1 v3;
  u32* v4;
  u64* v5;
  u64 v6;
  u1 v7;
  u32* v8;
  fnptr_t** v9;
  fnptr_t* v10;
  fnptr_t* v11;
  fnptr_t v12;
  fnptr_t* v13;
  fnptr_t* v14;
  fnptr_t v15;
  u8 v16;
  u1 v17;
  u32 v18;
  u32 v19;
  u32 v20;
  u32 v21;
  u32 v22; u32 v22_t;
  u1 v23;
L0: ;
  v0 = (fnptr_t**)(&(*a0).f0);
  *v0 = ((fnptr_t*)((u8**)(&(*(&_ZTVN14OpenVolumeMesh18PropertyStoragePtrIjEE)).f0.e[(s64)((s64)((u64)2ULL))])));
  v1 = (struct S13_class_std___Sp_counted_base**)(&(*a0).f1.f0.f1.f0);
  v2 = *v1;
  v3 = ((u8*)v2 == (u8*)((struct S13_class_std___Sp_counted_base*)0));
  if (v3) {
    goto L8;
  } else {
    goto L1;
  }
L1: ;
  v4 = (u32*)(&(*v2).f1);
  v5 = (u64*)v4;
  v6 = (((u64)(*v2).f1 << 0) | ((u64)(*v2).f2 << 32));
  v7 = (v6 == ((u64)4294967297ULL));
  if (v7) {
    goto L2;
  } else {
    goto L3;
  }
L2: ;
  *v4 = ((u32)0ULL);
  v8 = (u32*)(&(*v2).f2);
  *v8 = ((u32)0ULL);
  v9 = (fnptr_t**)&(*v2).f0;
  v10 = *v9;
  v11 = (fnptr_t*)(v10 + (s64)((s64)((u64)2ULL)));
  v12 = *v11;
  ((FT0)v12)(v2);
  v13 = *v9;
  v14 = (fnptr_t*)(v13 + (s64)((s64)((u64)3ULL)));
  v15 = *v14;
  ((FT0)v15)(v2);
  goto L8;
L3: ;
  v16 = *(&__libc_single_threaded);
  v17 = (v16 == ((u8)0ULL));
  if (v17) {
    goto L5;
  } else {
    goto L4;
  }
L4: ;
  v18 = *v4;
  v19 = ((u32)(v18 + ((u32)4294967295ULL)));
  *v4 = v19;
  v22 = v18;
  goto L6;
L5: ;
  v20 = *v4;
  v21 = ((u32)(v20 + ((u32)4294967295ULL)));
  *v4 = v21;
  v22 = v20;
  goto L6;
L6: ;
  v23 = (v22 == ((u32)1ULL));
  if (v23) {
    goto L7;
  } else {
    goto L8;
  }
L7: ;
  _ZNSt16_Sp_counted_baseILN9__gnu_cxx12_Lock_policyE2EE24_M_release_last_use_coldEv(v2);
  goto L8;
L8: ;
  return;
}

void _ZN14OpenVolumeMesh14HandleIndexingINS_6Entity4MeshENS_18PropertyStoragePtrIjEEED0Ev(struct S46_class_OpenVolumeMesh__HandleIndexing_432* a0) {
  fnptr_t** v0;
  struct S13_class_std___Sp_counted_base** v1;
  struct S13_class_std___Sp_counted_base* v2;
  u1 v3;
  u32* v4;
  u64* v5;
  u64 v6;
  u1 v7;
  u32* v8;
  fnptr_t** v9;
  fnptr_t* v10;
  fnptr_t* v11;
  fnptr_t v12;
  fnptr_t* v13;
  fnptr_t* v14;
  fnptr_t v15;
  u8 v16;
  u1 v17;
  u32 v18;
  u32 v19;
  u32 v20;
  u32 v21;
  u32 v22; u32 v22_t;
  u1 v23;
  u8* v24;
L0: ;
  v0 = (fnptr_t**)(&(*a0).f0.f0);
  *v0 = ((fnptr_t*)((u8**)(&(*(&_ZTVN14OpenVolumeMesh18PropertyStoragePtrIjEE)).f0.e[(s64)((s64)((u64)2ULL))])));
  v1 = (struct S13_class_std___Sp_counted_base**)(&(*a0).f0.f1.f0.f1.f0);
  v2 = *v1;
  v3 = ((u8*)v2 == (u8*)((struct S13_class_std___Sp_counted_base*)0));
  if (v3) {
    goto L8;
  } else {
    goto L1;
  }
L1: ;
  v4 = (u32*)(&(*v2).f1);
  v5 = (u64*)v4;
  v6 = (((u64)(*v2).f1 << 0) | ((u64)(*v2).f2 << 32));
  v7 = (v6 == ((u64)4294967297ULL));
  if (v7) {
    goto L2;
  } else {
    goto L3;
  }
L2: ;
  *v4 = ((u32)0ULL);
  v8 = (u32*)(&(*v2).f2);
  *v8 = ((u32)0ULL);
  v9 = (fnptr_t**)&(*v2).f0;
  v10 = *v9;
  v11 = (fnptr_t*)(v10 + (s64)((s64)((u64)2ULL)));
  v12 = *v11;
  ((FT0)v12)(v2);
  v13 = *v9;
  v14 = (fnptr_t*)(v13 + (s64)((s64)((u64)3ULL)));
  v15 = *v14;
  ((FT0)v15)(v2);
  goto L8;
L3: ;
  v16 = *(&__libc_single_threaded);
  v17 = (v16 == ((u8)0ULL));
  if (v17) {
    goto L5;
  } else {
    goto L4;
  }
L4: ;
  v18 = *v4;
  v19 = ((u32)(v18 + ((u32)4294967295ULL)));
  *v4 = v19;
  v22 = v18;
  goto L6;
L5: ;
  v20 = *v4;
  v21 = ((u32)(v20 + ((u32)4294967295ULL)));
  *v4 = v21;
  v22 = v20;
  goto L6;
L6: ;
  v23 = (v22 == ((u32)1ULL));
  if (v23) {
    goto L7;
  } else {
    goto L8;
  }
L7: ;
  _ZNSt16_Sp_counted_baseILN9__gnu_cxx12_Lock_policyE2EE24_M_release_last_use_coldEv(v2);
  goto L8;
L8: ;
  v24 = (u8*)a0;
  _ZdlPv(v24);
  return;
}

void _ZN14OpenVolumeMesh18PropertyStoragePtrIjED0Ev(struct S45_class_OpenVolumeMesh__PropertyStoragePtr* a0) {
  fnptr_t** v0;
  struct S13_class_std___Sp_counted_base** v1;
  struct S13_class_std___Sp_counted_base* v2;
  u1 v3;
  u32* v4;
  u64* v5;
  u64 v6;
  u1 v7;
  u32* v8;
  fnptr_t** v9;
  fnptr_t* v10;
  fnptr_t* v11;
  fnptr_t v12;
  fnptr_t* v13;
  fnptr_t* v14;
  fnptr_t v15;
  u8 v16;
  u1 v17;
  u32 v18;
  u32 v19;
  u32 v20;
  u32 v21;
  u32 v22; u32 v22_t;
  u1 v23;
  u8* v24;
L0: ;
  v0 = (fnptr_t**)(&(*a0).f0);
  *v0 = ((fnptr_t*)((u8**)(&(*(&_ZTVN14OpenVolumeMesh18PropertyStoragePtrIjEE)).f0.e[(s64)((s64)((u64)2ULL))])));
  v1 = (struct S13_class_std___Sp_counted_base**)(&(*a0).f1.f0.f1.f0);
  v2 = *v1;
  v3 = ((u8*)v2 == (u8*)((struct S13_class_std___Sp_counted_base*)0));
  if (v3) {
    goto L8;
  } else {
    goto L1;
  }
L1: ;
  v4 = (u32*)(&(*v2).f1);
  v5 = (u64*)v4;
  v6 = (((u64)(*v2).f1 << 0) | ((u64)(*v2).f2 << 32));
  v7 = (v6 == ((u64)4294967297ULL));
  if (v7) {
    goto L2;
  } else {
    goto L3;
  }
L2: ;
  *v4 = ((u32)0ULL);
  v8 = (u32*)(&(*v2).f2);
  *v8 = ((u32)0ULL);
  v9 = (fnptr_t**)&(*v2).f0;
  v10 = *v9;
  v11 = (fnptr_t*)(v10 + (s64)((s64)((u64)2ULL)));
  v12 = *v11;
  ((FT0)v12)(v2);
  v13 = *v9;
  v14 = (fnptr_t*)(v13 + (s64)((s64)((u64)3ULL)));
  v15 = *v14;
  ((FT0)v15)(v2);
  goto L8;
L3: ;
  v16 = *(&__libc_single_threaded);
  v17 = (v16 == ((u8)0ULL));
  if (v17) {
    goto L5;
  } else {
    goto L4;
  }
L4: ;
  v18 = *v4;
  v19 = ((u32)(v18 + ((u32)4294967295ULL)));
  *v4 = v19;
  v22 = v18;
  goto L6;
L5: ;
  v20 = *v4;
  v21 = ((u32)(v20 + ((u32)4294967295ULL)));
  *v4 = v21;
  v22 = v20;
  goto L6;
L6: ;
  v23 = (v22 == ((u32)1ULL));
  if (v23) {
    goto L7;
  } else {
    goto L8;
  }
L7: ;
  _ZNSt16_Sp_counted_baseILN9__gnu_cxx12_Lock_policyE2EE24_M_release_last_use_coldEv(v2);
  goto L8;
L8: ;
  v24 = (u8*)a0;
  _ZdlPv(v24);
  return;
}

void _ZN14OpenVolumeMesh11PropertyPtrIjNS_6Entity4CellEED2Ev(struct S44_class_OpenVolumeMesh__PropertyPtr_431* a0) {
  fnptr_t** v0;
  struct S13_class_std___Sp_counted_base** v1;
  struct S13_class_std___Sp_counted_base* v2;
  u1 v3;
  u32* v4;
  u64* v5;
  u64 v6;
  u1 v7;
  u32* v8;
  fnptr_t** v9;
  fnptr_t* v10;
  fnptr_t* v11;
  fnptr_t v12;
  fnptr_t* v13;
  fnptr_t* v14;
  fnptr_t v15;
  u8 v16;
  u1 v17;
  u32 v18;
  u32 v19;
  u32 v20;
  u32 v21;
  u32 v22; u32 v22_t;
  u1 v23;
L0: ;
  v0 = (fnptr_t**)(&(*a0).f0.f0.f0);
  *v0 = ((fnptr_t*)((u8**)(&(*(&_ZTVN14OpenVolumeMesh18PropertyStoragePtrIjEE)).f0.e[(s64)((s64)((u64)2ULL))])));
  v1 = (struct S13_class_std___Sp_counted_base**)(&(*a0).f0.f0.f1.f0.f1.f0);
  v2 = *v1;
  v3 = ((u8*)v2 == (u8*)((struct S13_class_std___Sp_counted_base*)0));
  if (v3) {
    goto L8;
  } else {
    goto L1;
  }
L1: ;
  v4 = (u32*)(&(*v2).f1);
  v5 = (u64*)v4;
  v6 = (((u64)(*v2).f1 << 0) | ((u64)(*v2).f2 << 32));
  v7 = (v6 == ((u64)4294967297ULL));
  if (v7) {
    goto L2;
  } else {
    goto L3;
  }
L2: ;
  *v4 = ((u32)0ULL);
  v8 = (u32*)(&(*v2).f2);
  *v8 = ((u32)0ULL);
  v9 = (fnptr_t**)&(*v2).f0;
  v10 = *v9;
  v11 = (fnptr_t*)(v10 + (s64)((s64)((u64)2ULL)));
  v12 = *v11;
  ((FT0)v12)(v2);
  v13 = *v9;
  v14 = (fnptr_t*)(v13 + (s64)((s64)((u64)3ULL)));
  v15 = *v14;
  ((FT0)v15)(v2);
  goto L8;
L3: ;
  v16 = *(&__libc_single_threaded);
  v17 = (v16 == ((u8)0ULL));
  if (v17) {
    goto L5;
  } else {
    goto L4;
  }
L4: ;
  v18 = *v4;
  v19 = ((u32)(v18 + ((u32)4294967295ULL)));
  *v4 = v19;
  v22 = v18;
  goto L6;
L5: ;
  v20 = *v4;
  v21 = ((u32)(v20 + ((u32)4294967295ULL)));
  *v4 = v21;
  v22 = v20;
  goto L6;
L6: ;
  v23 = (v22 == ((u32)1ULL));
  if (v23) {
    goto L7;
  } else {
    goto L8;
  }
L7: ;
  _ZNSt16_Sp_counted_baseILN9__gnu_cxx12_Lock_policyE2EE24_M_release_last_use_coldEv(v2);
  goto L8;
L8: ;
  return;
}

void _ZN14OpenVolumeMesh11PropertyPtrIjNS_6Entity4CellEED0Ev(struct S44_class_OpenVolumeMesh__PropertyPtr_431* a0) {
  fnptr_t** v0;
  struct S13_class_std___Sp_counted_base** v1;
  struct S13_class_std___Sp_counted_base* v2;
  u1 v3;
  u32* v4;
  u64* v5;
  u64 v6;
  u1 v7;
  u32* v8;
  fnptr_t** v9;
  fnptr_t* v10;
  fnptr_t* v11;
  fnptr_t v12;
  fnptr_t* v13;
  fnptr_t* v14;
  fnptr_t v15;
  u8 v16;
  u1 v17;
  u32 v18;
  u32 v19;
  u32 v20;
  u32 v21;
  u32 v22; u32 v22_t;
  u1 v23;
  u8* v24;
L0: ;
  v0 = (fnptr_t**)(&(*a0).f0.f0.f0);
  *v0 = ((fnptr_t*)((u8**)(&(*(&_ZTVN14OpenVolumeMesh18PropertyStoragePtrIjEE)).f0.e[(s64)((s64)((u64)2ULL))])));
  v1 = (struct S13_class_std___Sp_counted_base**)(&(*a0).f0.f0.f1.f0.f1.f0);
  v2 = *v1;
  v3 = ((u8*)v2 == (u8*)((struct S13_class_std___Sp_counted_base*)0));
  if (v3) {
    goto L8;
  } else {
    goto L1;
  }
L1: ;
  v4 = (u32*)(&(*v2).f1);
  v5 = (u64*)v4;
  v6 = (((u64)(*v2).f1 << 0) | ((u64)(*v2).f2 << 32));
  v7 = (v6 == ((u64)4294967297ULL));
  if (v7) {
    goto L2;
  } else {
    goto L3;
  }
L2: ;
  *v4 = ((u32)0ULL);
  v8 = (u32*)(&(*v2).f2);
  *v8 = ((u32)0ULL);
  v9 = (fnptr_t**)&(*v2).f0;
  v10 = *v9;
  v11 = (fnptr_t*)(v10 + (s64)((s64)((u64)2ULL)));
  v12 = *v11;
  ((FT0)v12)(v2);
  v13 = *v9;
  v14 = (fnptr_t*)(v13 + (s64)((s64)((u64)3ULL)));
  v15 = *v14;
  ((FT0)v15)(v2);
  goto L8;
L3: ;
  v16 = *(&__libc_single_threaded);
  v17 = (v16 == ((u8)0ULL));
  if (v17) {
    goto L5;
  } else {
    goto L4;
  }
L4: ;
  v18 = *v4;
  v19 = ((u32)(v18 + ((u32)4294967295ULL)));
  *v4 = v19;
  v22 = v18;
  goto L6;
L5: ;
  v20 = *v4;
  v21 = ((u32)(v20 + ((u32)4294967295ULL)));
  *v4 = v21;
  v22 = v20;
  goto L6;
L6: ;
  v23 = (v22 == ((u32)1ULL));
  if (v23) {
    goto L7;
  } else {
    goto L8;
  }
L7: ;
  _ZNSt16_Sp_counted_baseILN9__gnu_cxx12_Lock_policyE2EE24_M_release_last_use_coldEv(v2);
  goto L8;
L8: ;
  v24 = (u8*)a0;
  _ZdlPv(v24);
  return;
}

struct S27_class_std____cxx11__basic_string* _ZNKR14OpenVolumeMesh11PropertyPtrIjNS_6Entity4CellEE4nameB5cxx11Ev(struct S44_class_OpenVolumeMesh__PropertyPtr_431* a0) {
  struct S38_class_OpenVolumeMesh__PropertyStorageT_3** v0;
  struct S16_class_OpenVolumeMesh__PropertyStorageBas** v1;
  struct S16_class_OpenVolumeMesh__PropertyStorageBas* v2;
  struct S27_class_std____cxx11__basic_string* v3;
L0: ;
  v0 = (struct S38_class_OpenVolumeMesh__PropertyStorageT_3**)(&(*a0).f0.f0.f1.f0.f0);
  v1 = (struct S16_class_OpenVolumeMesh__PropertyStorageBas**)&(*a0).f0.f0.f1.f0.f0;
  v2 = *v1;
  v3 = (struct S27_class_std____cxx11__basic_string*)(&(*v2).f2);
  return v3;
}

void _ZThn24_N14OpenVolumeMesh11PropertyPtrIjNS_6Entity4CellEED1Ev(struct S44_class_OpenVolumeMesh__PropertyPtr_431* a0) {
  struct S55_class_std__shared_ptr_348* v0;
  fnptr_t** v1;
  struct S55_class_std__shared_ptr_348* v2;
  struct S13_class_std___Sp_counted_base** v3;
  struct S13_class_std___Sp_counted_base* v4;
  u1 v5;
  u32* v6;
  u64* v7;
  u64 v8;
  u1 v9;
  u32* v10;
  fnptr_t** v11;
  fnptr_t* v12;
  fnptr_t* v13;
  fnptr_t v14;
  fnptr_t* v15;
  fnptr_t* v16;
  fnptr_t v17;
  u8 v18;
  u1 v19;
  u32 v20;
  u32 v21;
  u32 v22;
  u32 v23;
  u32 v24; u32 v24_t;
  u1 v25;
L0: ;
  v0 = (struct S55_class_std__shared_ptr_348*)(&(a0)[(s64)((s64)((u64)18446744073709551615ULL))].f0.f0.f1);
  v1 = (fnptr_t**)v0;
  *v1 = ((fnptr_t*)((u8**)(&(*(&_ZTVN14OpenVolumeMesh18PropertyStoragePtrIjEE)).f0.e[(s64)((s64)((u64)2ULL))])));
  v2 = (struct S55_class_std__shared_ptr_348*)(v0 + (s64)((s64)((u64)1ULL)));
  v3 = (struct S13_class_std___Sp_counted_base**)v2;
  v4 = *v3;
  v5 = ((u8*)v4 == (u8*)((struct S13_class_std___Sp_counted_base*)0));
  if (v5) {
    goto L8;
  } else {
    goto L1;
  }
L1: ;
  v6 = (u32*)(&(*v4).f1);
  v7 = (u64*)v6;
  v8 = (((u64)(*v4).f1 << 0) | ((u64)(*v4).f2 << 32));
  v9 = (v8 == ((u64)4294967297ULL));
  if (v9) {
    goto L2;
  } else {
    goto L3;
  }
L2: ;
  *v6 = ((u32)0ULL);
  v10 = (u32*)(&(*v4).f2);
  *v10 = ((u32)0ULL);
  v11 = (fnptr_t**)&(*v4).f0;
  v12 = *v11;
  v13 = (fnptr_t*)(v12 + (s64)((s64)((u64)2ULL)));
  v14 = *v13;
  ((FT0)v14)(v4);
  v15 = *v11;
  v16 = (fnptr_t*)(v15 + (s64)((s64)((u64)3ULL)));
  v17 = *v16;
  ((FT0)v17)(v4);
  goto L8;
L3: ;
  v18 = *(&__libc_single_threaded);
  v19 = (v18 == ((u8)0ULL));
  if (v19) {
    goto L5;
  } else {
    goto L4;
  }
L4: ;
  v20 = *v6;
  v21 = ((u32)(v20 + ((u32)4294967295ULL)));
  *v6 = v21;
  v24 = v20;
  goto L6;
L5: ;
  v22 = *v6;
  v23 = ((u32)(v22 + ((u32)4294967295ULL)));
  *v6 = v23;
  v24 = v22;
  goto L6;
L6: ;
  v25 = (v24 == ((u32)1ULL));
  if (v25) {
    goto L7;
  } else {
    goto L8;
  }
L7: ;
  _ZNSt16_Sp_counted_baseILN9__gnu_cxx12_Lock_policyE2EE24_M_release_last_use_coldEv(v4);
  goto L8;
L8: ;
  return;
}

void _ZThn24_N14OpenVolumeMesh11PropertyPtrIjNS_6Entity4CellEED0Ev(struct S44_class_OpenVolumeMesh__PropertyPtr_431* a0) {
  struct S55_class_std__shared_ptr_348* v0;
  fnptr_t** v1;
  struct S55_class_std__shared_ptr_348* v2;
  struct S13_class_std___Sp_counted_base** v3;
  struct S13_class_std___Sp_counted_base* v4;
  u1 v5;
  u32* v6;
  u64* v7;
  u64 v8;
  u1 v9;
  u32* v10;
  fnptr_t** v11;
  fnptr_t* v12;
  fnptr_t* v13;
  fnptr_t v14;
  fnptr_t* v15;
  fnptr_t* v16;
  fnptr_t v17;
  u8 v18;
  u1 v19;
  u32 v20;
  u32 v21;
  u32 v22;
  u32 v23;
  u32 v24; u32 v24_t;
  u1 v25;
  u8* v26;
L0: ;
  v0 = (struct S55_class_std__shared_ptr_348*)(&(a0)[(s64)((s64)((u64)18446744073709551615ULL))].f0.f0.f1);
  v1 = (fnptr_t**)v0;
  *v1 = ((fnptr_t*)((u8**)(&(*(&_ZTVN14OpenVolumeMesh18PropertyStoragePtrIjEE)).f0.e[(s64)((s64)((u64)2ULL))])));
  v2 = (struct S55_class_std__shared_ptr_348*)(v0 + (s64)((s64)((u64)1ULL)));
  v3 = (struct S13_class_std___Sp_counted_base**)v2;
  v4 = *v3;
  v5 = ((u8*)v4 == (u8*)((struct S13_class_std___Sp_counted_base*)0));
  if (v5) {
    goto L8;
  } else {
    goto L1;
  }
L1: ;
  v6 = (u32*)(&(*v4).f1);
  v7 = (u64*)v6;
  v8 = (((u64)(*v4).f1 << 0) | ((u64)(*v4).f2 << 32));
  v9 = (v8 == ((u64)4294967297ULL));
  if (v9) {
    goto L2;
  } else {
    goto L3;
  }
L2: ;
  *v6 = ((u32)0ULL);
  v10 = (u32*)(&(*v4).f2);
  *v10 = ((u32)0ULL);
  v11 = (fnptr_t**)&(*v4).f0;
  v12 = *v11;
  v13 = (fnptr_t*)(v12 + (s64)((s64)((u64)2ULL)));
  v14 = *v13;
  ((FT0)v14)(v4);
  v15 = *v11;
  v16 = (fnptr_t*)(v15 + (s64)((s64)((u64)3ULL)));
  v17 = *v16;
  ((FT0)v17)(v4);
  goto L8;
L3: ;
  v18 = *(&__libc_single_threaded);
  v19 = (v18 == ((u8)0ULL));
  if (v19) {
    goto L5;
  } else {
    goto L4;
  }
L4: ;
  v20 = *v6;
  v21 = ((u32)(v20 + ((u32)4294967295ULL)));
  *v6 = v21;
  v24 = v20;
  goto L6;
L5: ;
  v22 = *v6;
  v23 = ((u32)(v22 + ((u32)4294967295ULL)));
  *v6 = v23;
  v24 = v22;
  goto L6;
L6: ;
  v25 = (v24 == ((u32)1ULL));
  if (v25) {
    goto L7;
  } else {
    goto L8;
  }
L7: ;
  _ZNSt16_Sp_counted_baseILN9__gnu_cxx12_Lock_policyE2EE24_M_release_last_use_coldEv(v4);
  goto L8;
L8: ;
  v26 = (u8*)v0;
  _ZdlPv(v26);
  return;
}

struct S27_class_std____cxx11__basic_string* _ZThn24_NKR14OpenVolumeMesh11PropertyPtrIjNS_6Entity4CellEE4nameB5cxx11Ev(struct S44_class_OpenVolumeMesh__PropertyPtr_431* a0) {
  struct S70_class_std____weak_count* v0;
  struct S16_class_OpenVolumeMesh__PropertyStorageBas** v1;
  struct S16_class_OpenVolumeMesh__PropertyStorageBas* v2;
  struct S27_class_std____cxx11__basic_string* v3;
L0: ;
  v0 = (struct S70_class_std____weak_count*)(&(a0)[(s64)((s64)((u64)18446744073709551615ULL))].f0.f0.f1.f0.f1);
  v1 = (struct S16_class_OpenVolumeMesh__PropertyStorageBas**)v0;
  v2 = *v1;
  v3 = (struct S27_class_std____cxx11__basic_string*)(&(*v2).f2);
  return v3;
}

void _ZN14OpenVolumeMesh14HandleIndexingINS_6Entity4CellENS_18PropertyStoragePtrIjEEED0Ev(struct S46_class_OpenVolumeMesh__HandleIndexing_432* a0) {
  fnptr_t** v0;
  struct S13_class_std___Sp_counted_base** v1;
  struct S13_class_std___Sp_counted_base* v2;
  u1 v3;
  u32* v4;
  u64* v5;
  u64 v6;
  u1 v7;
  u32* v8;
  fnptr_t** v9;
  fnptr_t* v10;
  fnptr_t* v11;
  fnptr_t v12;
  fnptr_t* v13;
  fnptr_t* v14;
  fnptr_t v15;
  u8 v16;
  u1 v17;
  u32 v18;
  u32 v19;
  u32 v20;
  u32 v21;
  u32 v22; u32 v22_t;
  u1 v23;
  u8* v24;
L0: ;
  v0 = (fnptr_t**)(&(*a0).f0.f0);
  *v0 = ((fnptr_t*)((u8**)(&(*(&_ZTVN14OpenVolumeMesh18PropertyStoragePtrIjEE)).f0.e[(s64)((s64)((u64)2ULL))])));
  v1 = (struct S13_class_std___Sp_counted_base**)(&(*a0).f0.f1.f0.f1.f0);
  v2 = *v1;
  v3 = ((u8*)v2 == (u8*)((struct S13_class_std___Sp_counted_base*)0));
  if (v3) {
    goto L8;
  } else {
    goto L1;
  }
L1: ;
  v4 = (u32*)(&(*v2).f1);
  v5 = (u64*)v4;
  v6 = (((u64)(*v2).f1 << 0) | ((u64)(*v2).f2 << 32));
  v7 = (v6 == ((u64)4294967297ULL));
  if (v7) {
    goto L2;
  } else {
    goto L3;
  }
L2: ;
  *v4 = ((u32)0ULL);
  v8 = (u32*)(&(*v2).f2);
  *v8 = ((u32)0ULL);
  v9 = (fnptr_t**)&(*v2).f0;
  v10 = *v9;
  v11 = (fnptr_t*)(v10 + (s64)((s64)((u64)2ULL)));
  v12 = *v11;
  ((FT0)v12)(v2);
  v13 = *v9;
  v14 = (fnptr_t*)(v13 + (s64)((s64)((u64)3ULL)));
  v15 = *v14;
  ((FT0)v15)(v2);
  goto L8;
L3: ;
  v16 = *(&__libc_single_threaded);
  v17 = (v16 == ((u8)0ULL));
  if (v17) {
    goto L5;
  } else {
    goto L4;
  }
L4: ;
  v18 = *v4;
  v19 = ((u32)(v18 + ((u32)4294967295ULL)));
  *v4 = v19;
  v22 = v18;
  goto L6;
L5: ;
  v20 = *v4;
  v21 = ((u32)(v20 + ((u32)4294967295ULL)));
  *v4 = v21;
  v22 = v20;
  goto L6;
L6: ;
  v23 = (v22 == ((u32)1ULL));
  if (v23) {
    goto L7;
  } else {
    goto L8;
  }
L7: ;
  _ZNSt16_Sp_counted_baseILN9__gnu_cxx12_Lock_policyE2EE24_M_release_last_use_coldEv(v2);
  goto L8;
L8: ;
  v24 = (u8*)a0;
  _ZdlPv(v24);
  return;
}

void _ZN14OpenVolumeMesh11PropertyPtrIjNS_6Entity8HalfFaceEED2Ev(struct S44_class_OpenVolumeMesh__PropertyPtr_431* a0) {
  fnptr_t** v0;
  struct S13_class_std___Sp_counted_base** v1;
  struct S13_class_std___Sp_counted_base* v2;
  u1 v3;
  u32* v4;
  u64* v5;
  u64 v6;
  u1 v7;
  u32* v8;
  fnptr_t** v9;
  fnptr_t* v10;
  fnptr_t* v11;
  fnptr_t v12;
  fnptr_t* v13;
  fnptr_t* v14;
  fnptr_t v15;
  u8 v16;
  u1 v17;
  u32 v18;
  u32 v19;
  u32 v20;
  u32 v21;
  u32 v22; u32 v22_t;
  u1 v23;
L0: ;
  v0 = (fnptr_t**)(&(*a0).f0.f0.f0);
  *v0 = ((fnptr_t*)((u8**)(&(*(&_ZTVN14OpenVolumeMesh18PropertyStoragePtrIjEE)).f0.e[(s64)((s64)((u64)2ULL))])));
  v1 = (struct S13_class_std___Sp_counted_base**)(&(*a0).f0.f0.f1.f0.f1.f0);
  v2 = *v1;
  v3 = ((u8*)v2 == (u8*)((struct S13_class_std___Sp_counted_base*)0));
  if (v3) {
    goto L8;
  } else {
    goto L1;
  }
L1: ;
  v4 = (u32*)(&(*v2).f1);
  v5 = (u64*)v4;
  v6 = (((u64)(*v2).f1 << 0) | ((u64)(*v2).f2 << 32));
  v7 = (v6 == ((u64)4294967297ULL));
  if (v7) {
    goto L2;
  } else {
    goto L3;
  }
L2: ;
  *v4 = ((u32)0ULL);
  v8 = (u32*)(&(*v2).f2);
  *v8 = ((u32)0ULL);
  v9 = (fnptr_t**)&(*v2).f0;
  v10 = *v9;
  v11 = (fnptr_t*)(v10 + (s64)((s64)((u64)2ULL)));
  v12 = *v11;
  ((FT0)v12)(v2);
  v13 = *v9;
  v14 = (fnptr_t*)(v13 + (s64)((s64)((u64)3ULL)));
  v15 = *v14;
  ((FT0)v15)(v2);
  goto L8;
L3: ;
  v16 = *(&__libc_single_threaded);
  v17 = (v16 == ((u8)0ULL));
  if (v17) {
    goto L5;
  } else {
    goto L4;
  }
L4: ;
  v18 = *v4;
  v19 = ((u32)(v18 + ((u32)4294967295ULL)));
  *v4 = v19;
  v22 = v18;
  goto L6;
L5: ;
  v20 = *v4;
  v21 = ((u32)(v20 + ((u32)4294967295ULL)));
  *v4 = v21;
  v22 = v20;
  goto L6;
L6: ;
  v23 = (v22 == ((u32)1ULL));
  if (v23) {
    goto L7;
  } else {
    goto L8;
  }
L7: ;
  _ZNSt16_Sp_counted_baseILN9__gnu_cxx12_Lock_policyE2EE24_M_release_last_use_coldEv(v2);
  goto L8;
L8: ;
  return;
}

void _ZN14OpenVolumeMesh11PropertyPtrIjNS_6Entity8HalfFaceEED0Ev(struct S44_class_OpenVolumeMesh__PropertyPtr_431* a0) {
  fnptr_t** v0;
  struct S13_class_std___Sp_counted_base** v1;
  struct S13_class_std___Sp_counted_base* v2;
  u1 v3;
  u32* v4;
  u64* v5;
  u64 v6;
  u1 v7;
  u32* v8;
  fnptr_t** v9;
  fnptr_t* v10;
  fnptr_t* v11;
  fnptr_t v12;
  fnptr_t* v13;
  fnptr_t* v14;
  fnptr_t v15;
  u8 v16;
  u1 v17;
  u32 v18;
  u32 v19;
  u32 v20;
  u32 v21;
  u32 v22; u32 v22_t;
  u1 v23;
  u8* v24;
L0: ;
  v0 = (fnptr_t**)(&(*a0).f0.f0.f0);
  *v0 = ((fnptr_t*)((u8**)(&(*(&_ZTVN14OpenVolumeMesh18PropertyStoragePtrIjEE)).f0.e[(s64)((s64)((u64)2ULL))])));
  v1 = (struct S13_class_std___Sp_counted_base**)(&(*a0).f0.f0.f1.f0.f1.f0);
  v2 = *v1;
  v3 = ((u8*)v2 == (u8*)((struct S13_class_std___Sp_counted_base*)0));
  if (v3) {
    goto L8;
  } else {
    goto L1;
  }
L1: ;
  v4 = (u32*)(&(*v2).f1);
  v5 = (u64*)v4;
  v6 = (((u64)(*v2).f1 << 0) | ((u64)(*v2).f2 << 32));
  v7 = (v6 == ((u64)4294967297ULL));
  if (v7) {
    goto L2;
  } else {
    goto L3;
  }
L2: ;
  *v4 = ((u32)0ULL);
  v8 = (u32*)(&(*v2).f2);
  *v8 = ((u32)0ULL);
  v9 = (fnptr_t**)&(*v2).f0;
  v10 = *v9;
  v11 = (fnptr_t*)(v10 + (s64)((s64)((u64)2ULL)));
  v12 = *v11;
  ((FT0)v12)(v2);
  v13 = *v9;
  v14 = (fnptr_t*)(v13 + (s64)((s64)((u64)3ULL)));
  v15 = *v14;
  ((FT0)v15)(v2);
  goto L8;
L3: ;
  v16 = *(&__libc_single_threaded);
  v17 = (v16 == ((u8)0ULL));
  if (v17) {
    goto L5;
  } else {
    goto L4;
  }
L4: ;
  v18 = *v4;
  v19 = ((u32)(v18 + ((u32)4294967295ULL)));
  *v4 = v19;
  v22 = v18;
  goto L6;
L5: ;
  v20 = *v4;
  v21 = ((u32)(v20 + ((u32)4294967295ULL)));
  *v4 = v21;
  v22 = v20;
  goto L6;
L6: ;
  v23 = (v22 == ((u32)1ULL));
  if (v23) {
    goto L7;
  } else {
    goto L8;
  }
L7: ;
  _ZNSt16_Sp_counted_baseILN9__gnu_cxx12_Lock_policyE2EE24_M_release_last_use_coldEv(v2);
  goto L8;
L8: ;
  v24 = (u8*)a0;
  _ZdlPv(v24);
  return;
}

struct S27_class_std____cxx11__basic_string* _ZNKR14OpenVolumeMesh11PropertyPtrIjNS_6Entity8HalfFaceEE4nameB5cxx11Ev(struct S44_class_OpenVolumeMesh__PropertyPtr_431* a0) {
  struct S38_class_OpenVolumeMesh__PropertyStorageT_3** v0;
  struct S16_class_OpenVolumeMesh__PropertyStorageBas** v1;
  struct S16_class_OpenVolumeMesh__PropertyStorageBas* v2;
  struct S27_class_std____cxx11__basic_string* v3;
L0: ;
  v0 = (struct S38_class_OpenVolumeMesh__PropertyStorageT_3**)(&(*a0).f0.f0.f1.f0.f0);
  v1 = (struct S16_class_OpenVolumeMesh__PropertyStorageBas**)&(*a0).f0.f0.f1.f0.f0;
  v2 = *v1;
  v3 = (struct S27_class_std____cxx11__basic_string*)(&(*v2).f2);
  return v3;
}

void _ZThn24_N14OpenVolumeMesh11PropertyPtrIjNS_6Entity8HalfFaceEED1Ev(struct S44_class_OpenVolumeMesh__PropertyPtr_431* a0) {
  struct S55_class_std__shared_ptr_348* v0;
  fnptr_t** v1;
  struct S55_class_std__shared_ptr_348* v2;
  struct S13_class_std___Sp_counted_base** v3;
  struct S13_class_std___Sp_counted_base* v4;
  u1 v5;
  u32* v6;
  u64* v7;
  u64 v8;
  u1 v9;
  u32* v10;
  fnptr_t** v11;
  fnptr_t* v12;
  fnptr_t* v13;
  fnptr_t v14;
  fnptr_t* v15;
  fnptr_t* v16;
  fnptr_t v17;
  u8 v18;
  u1 v19;
  u32 v20;
  u32 v21;
  u32 v22;
  u32 v23;
  u32 v24; u32 v24_t;
  u1 v25;
L0: ;
  v0 = (struct S55_class_std__shared_ptr_348*)(&(a0)[(s64)((s64)((u64)18446744073709551615ULL))].f0.f0.f1);
  v1 = (fnptr_t**)v0;
  *v1 = ((fnptr_t*)((u8**)(&(*(&_ZTVN14OpenVolumeMesh18PropertyStoragePtrIjEE)).f0.e[(s64)((s64)((u64)2ULL))])));
  v2 = (struct S55_class_std__shared_ptr_348*)(v0 + (s64)((s64)((u64)1ULL)));
  v3 = (struct S13_class_std___Sp_counted_base**)v2;
  v4 = *v3;
  v5 = ((u8*)v4 == (u8*)((struct S13_class_std___Sp_counted_base*)0));
  if (v5) {
    goto L8;
  } else {
    goto L1;
  }
L1: ;
  v6 = (u32*)(&(*v4).f1);
  v7 = (u64*)v6;
  v8 = (((u64)(*v4).f1 << 0) | ((u64)(*v4).f2 << 32));
  v9 = (v8 == ((u64)4294967297ULL));
  if (v9) {
    goto L2;
  } else {
    goto L3;
  }
L2: ;
  *v6 = ((u32)0ULL);
  v10 = (u32*)(&(*v4).f2);
  *v10 = ((u32)0ULL);
  v11 = (fnptr_t**)&(*v4).f0;
  v12 = *v11;
  v13 = (fnptr_t*)(v12 + (s64)((s64)((u64)2ULL)));
  v14 = *v13;
  ((FT0)v14)(v4);
  v15 = *v11;
  v16 = (fnptr_t*)(v15 + (s64)((s64)((u64)3ULL)));
  v17 = *v16;
  ((FT0)v17)(v4);
  goto L8;
L3: ;
  v18 = *(&__libc_single_threaded);
  v19 = (v18 == ((u8)0ULL));
  if (v19) {
    goto L5;
  } else {
    goto L4;
  }
L4: ;
  v20 = *v6;
  v21 = ((u32)(v20 + ((u32)4294967295ULL)));
  *v6 = v21;
  v24 = v20;
  goto L6;
L5: ;
  v22 = *v6;
  v23 = ((u32)(v22 + ((u32)4294967295ULL)));
  *v6 = v23;
  v24 = v22;
  goto L6;
L6: ;
  v25 = (v24 == ((u32)1ULL));
  if (v25) {
    goto L7;
  } else {
    goto L8;
  }
L7: ;
  _ZNSt16_Sp_counted_baseILN9__gnu_cxx12_Lock_policyE2EE24_M_release_last_use_coldEv(v4);
  goto L8;
L8: ;
  return;
}

void _ZThn24_N14OpenVolumeMesh11PropertyPtrIjNS_6Entity8HalfFaceEED0Ev(struct S44_class_OpenVolumeMesh__PropertyPtr_431* a0) {
  struct S55_class_std__shared_ptr_348* v0;
  fnptr_t** v1;
  struct S55_class_std__shared_ptr_348* v2;
  struct S13_class_std___Sp_counted_base** v3;
  struct S13_class_std___Sp_counted_base* v4;
  u1 v5;
  u32* v6;
  u64* v7;
  u64 v8;
  u1 v9;
  u32* v10;
  fnptr_t** v11;
  fnptr_t* v12;
  fnptr_t* v13;
  fnptr_t v14;
  fnptr_t* v15;
  fnptr_t* v16;
  fnptr_t v17;
  u8 v18;
  u1 v19;
  u32 v20;
  u32 v21;
  u32 v22;
  u32 v23;
  u32 v24; u32 v24_t;
  u1 v25;
  u8* v26;
L0: ;
  v0 = (struct S55_class_std__shared_ptr_348*)(&(a0)[(s64)((s64)((u64)18446744073709551615ULL))].f0.f0.f1);
  v1 = (fnptr_t**)v0;
  *v1 = ((fnptr_t*)((u8**)(&(*(&_ZTVN14OpenVolumeMesh18PropertyStoragePtrIjEE)).f0.e[(s64)((s64)((u64)2ULL))])));
  v2 = (struct S55_class_std__shared_ptr_348*)(v0 + (s64)((s64)((u64)1ULL)));
  v3 = (struct S13_class_std___Sp_counted_base**)v2;
  v4 = *v3;
  v5 = ((u8*)v4 == (u8*)((struct S13_class_std___Sp_counted_base*)0));
  if (v5) {
    goto L8;
  } else {
    goto L1;
  }
L1: ;
  v6 = (u32*)(&(*v4).f1);
  v7 = (u64*)v6;
  v8 = (((u64)(*v4).f1 << 0) | ((u64)(*v4).f2 << 32));
  v9 = (v8 == ((u64)4294967297ULL));
  if (v9) {
    goto L2;
  } else {
    goto L3;
  }
L2: ;
  *v6 = ((u32)0ULL);
  v10 = (u32*)(&(*v4).f2);
  *v10 = ((u32)0ULL);
  v11 = (fnptr_t**)&(*v4).f0;
  v12 = *v11;
  v13 = (fnptr_t*)(v12 + (s64)((s64)((u64)2ULL)));
  v14 = *v13;
  ((FT0)v14)(v4);
  v15 = *v11;
  v16 = (fnptr_t*)(v15 + (s64)((s64)((u64)3ULL)));
  v17 = *v16;
  ((FT0)v17)(v4);
  goto L8;
L3: ;
  v18 = *(&__libc_single_threaded);
  v19 = (v18 == ((u8)0ULL));
  if (v19) {
    goto L5;
  } else {
    goto L4;
  }
L4: ;
  v20 = *v6;
  v21 = ((u32)(v20 + ((u32)4294967295ULL)));
  *v6 = v21;
  v24 = v20;
  goto L6;
L5: ;
  v22 = *v6;
  v23 = ((u32)(v22 + ((u32)4294967295ULL)));
  *v6 = v23;
  v24 = v22;
  goto L6;
L6: ;
  v25 = (v24 == ((u32)1ULL));
  if (v25) {
    goto L7;
  } else {
    goto L8;
  }
L7: ;
  _ZNSt16_Sp_counted_baseILN9__gnu_cxx12_Lock_policyE2EE24_M_release_last_use_coldEv(v4);
  goto L8;
L8: ;
  v26 = (u8*)v0;
  _ZdlPv(v26);
  return;
}

struct S27_class_std____cxx11__basic_string* _ZThn24_NKR14OpenVolumeMesh11PropertyPtrIjNS_6Entity8HalfFaceEE4nameB5cxx11Ev(struct S44_class_OpenVolumeMesh__PropertyPtr_431* a0) {
  struct S70_class_std____weak_count* v0;
  struct S16_class_OpenVolumeMesh__PropertyStorageBas** v1;
  struct S16_class_OpenVolumeMesh__PropertyStorageBas* v2;
  struct S27_class_std____cxx11__basic_string* v3;
L0: ;
  v0 = (struct S70_class_std____weak_count*)(&(a0)[(s64)((s64)((u64)18446744073709551615ULL))].f0.f0.f1.f0.f1);
  v1 = (struct S16_class_OpenVolumeMesh__PropertyStorageBas**)v0;
  v2 = *v1;
  v3 = (struct S27_class_std____cxx11__basic_string*)(&(*v2).f2);
  return v3;
}

void _ZN14OpenVolumeMesh14HandleIndexingINS_6Entity8HalfFaceENS_18PropertyStoragePtrIjEEED0Ev(struct S46_class_OpenVolumeMesh__HandleIndexing_432* a0) {
  fnptr_t** v0;
  struct S13_class_std___Sp_counted_base** v1;
  struct S13_class_std___Sp_counted_base* v2;
  u1 v3;
  u32* v4;
  u64* v5;
  u64 v6;
  u1 v7;
  u32* v8;
  fnptr_t** v9;
  fnptr_t* v10;
  fnptr_t* v11;
  fnptr_t v12;
  fnptr_t* v13;
  fnptr_t* v14;
  fnptr_t v15;
  u8 v16;
  u1 v17;
  u32 v18;
  u32 v19;
  u32 v20;
  u32 v21;
  u32 v22; u32 v22_t;
  u1 v23;
  u8* v24;
L0: ;
  v0 = (fnptr_t**)(&(*a0).f0.f0);
  *v0 = ((fnptr_t*)((u8**)(&(*(&_ZTVN14OpenVolumeMesh18PropertyStoragePtrIjEE)).f0.e[(s64)((s64)((u64)2ULL))])));
  v1 = (struct S13_class_std___Sp_counted_base**)(&(*a0).f0.f1.f0.f1.f0);
  v2 = *v1;
  v3 = ((u8*)v2 == (u8*)((struct S13_class_std___Sp_counted_base*)0));
  if (v3) {
    goto L8;
  } else {
    goto L1;
  }
L1: ;
  v4 = (u32*)(&(*v2).f1);
  v5 = (u64*)v4;
  v6 = (((u64)(*v2).f1 << 0) | ((u64)(*v2).f2 << 32));
  v7 = (v6 == ((u64)4294967297ULL));
  if (v7) {
    goto L2;
  } else {
    goto L3;
  }
L2: ;
  *v4 = ((u32)0ULL);
  v8 = (u32*)(&(*v2).f2);
  *v8 = ((u32)0ULL);
  v9 = (fnptr_t**)&(*v2).f0;
  v10 = *v9;
  v11 = (fnptr_t*)(v10 + (s64)((s64)((u64)2ULL)));
  v12 = *v11;
  ((FT0)v12)(v2);
  v13 = *v9;
  v14 = (fnptr_t*)(v13 + (s64)((s64)((u64)3ULL)));
  v15 = *v14;
  ((FT0)v15)(v2);
  goto L8;
L3: ;
  v16 = *(&__libc_single_threaded);
  v17 = (v16 == ((u8)0ULL));
  if (v17) {
    goto L5;
  } else {
    goto L4;
  }
L4: ;
  v18 = *v4;
  v19 = ((u32)(v18 + ((u32)4294967295ULL)));
  *v4 = v19;
  v22 = v18;
  goto L6;
L5: ;
  v20 = *v4;
  v21 = ((u32)(v20 + ((u32)4294967295ULL)));
  *v4 = v21;
  v22 = v20;
  goto L6;
L6: ;
  v23 = (v22 == ((u32)1ULL));
  if (v23) {
    goto L7;
  } else {
    goto L8;
  }
L7: ;
  _ZNSt16_Sp_counted_baseILN9__gnu_cxx12_Lock_policyE2EE24_M_release_last_use_coldEv(v2);
  goto L8;
L8: ;
  v24 = (u8*)a0;
  _ZdlPv(v24);
  return;
}

void _ZN14OpenVolumeMesh11PropertyPtrIjNS_6Entity4FaceEED2Ev(struct S44_class_OpenVolumeMesh__PropertyPtr_431* a0) {
  fnptr_t** v0;
  struct S13_class_std___Sp_counted_base** v1;
  struct S13_class_std___Sp_counted_base* v2;
  u1 v3;
  u32* v4;
  u64* v5;
  u64 v6;
  u1 v7;
  u32* v8;
  fnptr_t** v9;
  fnptr_t* v10;
  fnptr_t* v11;
  fnptr_t v12;
  fnptr_t* v13;
  fnptr_t* v14;
  fnptr_t v15;
  u8 v16;
  u1 v17;
  u32 v18;
  u32 v19;
  u32 v20;
  u32 v21;
  u32 v22; u32 v22_t;
  u1 v23;
L0: ;
  v0 = (fnptr_t**)(&(*a0).f0.f0.f0);
  *v0 = ((fnptr_t*)((u8**)(&(*(&_ZTVN14OpenVolumeMesh18PropertyStoragePtrIjEE)).f0.e[(s64)((s64)((u64)2ULL))])));
  v1 = (struct S13_class_std___Sp_counted_base**)(&(*a0).f0.f0.f1.f0.f1.f0);
  v2 = *v1;
  v3 = ((u8*)v2 == (u8*)((struct S13_class_std___Sp_counted_base*)0));
  if (v3) {
    goto L8;
  } else {
    goto L1;
  }
L1: ;
  v4 = (u32*)(&(*v2).f1);
  v5 = (u64*)v4;
  v6 = (((u64)(*v2).f1 << 0) | ((u64)(*v2).f2 << 32));
  v7 = (v6 == ((u64)4294967297ULL));
  if (v7) {
    goto L2;
  } else {
    goto L3;
  }
L2: ;
  *v4 = ((u32)0ULL);
  v8 = (u32*)(&(*v2).f2);
  *v8 = ((u32)0ULL);
  v9 = (fnptr_t**)&(*v2).f0;
  v10 = *v9;
  v11 = (fnptr_t*)(v10 + (s64)((s64)((u64)2ULL)));
  v12 = *v11;
  ((FT0)v12)(v2);
  v13 = *v9;
  v14 = (fnptr_t*)(v13 + (s64)((s64)((u64)3ULL)));
  v15 = *v14;
  ((FT0)v15)(v2);
  goto L8;
L3: ;
  v16 = *(&__libc_single_threaded);
  v17 = (v16 == ((u8)0ULL));
  if (v17) {
    goto L5;
  } else {
    goto L4;
  }
L4: ;
  v18 = *v4;
  v19 = ((u32)(v18 + ((u32)4294967295ULL)));
  *v4 = v19;
  v22 = v18;
  goto L6;
L5: ;
  v20 = *v4;
  v21 = ((u32)(v20 + ((u32)4294967295ULL)));
  *v4 = v21;
  v22 = v20;
  goto L6;
L6: ;
  v23 = (v22 == ((u32)1ULL));
  if (v23) {
    goto L7;
  } else {
    goto L8;
  }
L7: ;
  _ZNSt16_Sp_counted_baseILN9__gnu_cxx12_Lock_policyE2EE24_M_release_last_use_coldEv(v2);
  goto L8;
L8: ;
  return;
}

void _ZN14OpenVolumeMesh11PropertyPtrIjNS_6Entity4FaceEED0Ev(struct S44_class_OpenVolumeMesh__PropertyPtr_431* a0) {
  fnptr_t** v0;
  struct S13_class_std___Sp_counted_base** v1;
  struct S13_class_std___Sp_counted_base* v2;
  u1 v3;
  u32* v4;
  u64* v5;
  u64 v6;
  u1 v7;
  u32* v8;
  fnptr_t** v9;
  fnptr_t* v10;
  fnptr_t* v11;
  fnptr_t v12;
  fnptr_t* v13;
  fnptr_t* v14;
  fnptr_t v15;
  u8 v16;
  u1 v17;
  u32 v18;
  u32 v19;
  u32 v20;
  u32 v21;
  u32 v22; u32 v22_t;
  u1 v23;
  u8* v24;
L0: ;
  v0 = (fnptr_t**)(&(*a0).f0.f0.f0);
  *v0 = ((fnptr_t*)((u8**)(&(*(&_ZTVN14OpenVolumeMesh18PropertyStoragePtrIjEE)).f0.e[(s64)((s64)((u64)2ULL))])));
  v1 = (struct S13_class_std___Sp_counted_base**)(&(*a0).f0.f0.f1.f0.f1.f0);
  v2 = *v1;
  v3 = ((u8*)v2 == (u8*)((struct S13_class_std___Sp_counted_base*)0));
  if (v3) {
    goto L8;
  } else {
    goto L1;
  }
L1: ;
  v4 = (u32*)(&(*v2).f1);
  v5 = (u64*)v4;
  v6 = (((u64)(*v2).f1 << 0) | ((u64)(*v2).f2 << 32));
  v7 = (v6 == ((u64)4294967297ULL));
  if (v7) {
    goto L2;
  } else {
    goto L3;
  }
L2: ;
  *v4 = ((u32)0ULL);
  v8 = (u32*)(&(*v2).f2);
  *v8 = ((u32)0ULL);
  v9 = (fnptr_t**)&(*v2).f0;
  v10 = *v9;
  v11 = (fnptr_t*)(v10 + (s64)((s64)((u64)2ULL)));
  v12 = *v11;
  ((FT0)v12)(v2);
  v13 = *v9;
  v14 = (fnptr_t*)(v13 + (s64)((s64)((u64)3ULL)));
  v15 = *v14;
  ((FT0)v15)(v2);
  goto L8;
L3: ;
  v16 = *(&__libc_single_threaded);
  v17 = (v16 == ((u8)0ULL));
  if (v17) {
    goto L5;
  } else {
    goto L4;
  }
L4: ;
  v18 = *v4;
  v19 = ((u32)(v18 + ((u32)4294967295ULL)));
  *v4 = v19;
  v22 = v18;
  goto L6;
L5: ;
  v20 = *v4;
  v21 = ((u32)(v20 + ((u32)4294967295ULL)));
  *v4 = v21;
  v22 = v20;
  goto L6;
L6: ;
  v23 = (v22 == ((u32)1ULL));
  if (v23) {
    goto L7;
  } else {
    goto L8;
  }
L7: ;
  _ZNSt16_Sp_counted_baseILN9__gnu_cxx12_Lock_policyE2EE24_M_release_last_use_coldEv(v2);
  goto L8;
L8: ;
  v24 = (u8*)a0;
  _ZdlPv(v24);
  return;
}

struct S27_class_std____cxx11__basic_string* _ZNKR14OpenVolumeMesh11PropertyPtrIjNS_6Entity4FaceEE4nameB5cxx11Ev(struct S44_class_OpenVolumeMesh__PropertyPtr_431* a0) {
  struct S38_class_OpenVolumeMesh__PropertyStorageT_3** v0;
  struct S16_class_OpenVolumeMesh__PropertyStorageBas** v1;
  struct S16_class_OpenVolumeMesh__PropertyStorageBas* v2;
  struct S27_class_std____cxx11__basic_string* v3;
L0: ;
  v0 = (struct S38_class_OpenVolumeMesh__PropertyStorageT_3**)(&(*a0).f0.f0.f1.f0.f0);
  v1 = (struct S16_class_OpenVolumeMesh__PropertyStorageBas**)&(*a0).f0.f0.f1.f0.f0;
  v2 = *v1;
  v3 = (struct S27_class_std____cxx11__basic_string*)(&(*v2).f2);
  return v3;
}

void _ZThn24_N14OpenVolumeMesh11PropertyPtrIjNS_6Entity4FaceEED1Ev(struct S44_class_OpenVolumeMesh__PropertyPtr_431* a0) {
  struct S55_class_std__shared_ptr_348* v0;
  fnptr_t** v1;
  struct S55_class_std__shared_ptr_348* v2;
  struct S13_class_std___Sp_counted_base** v3;
  struct S13_class_std___Sp_counted_base* v4;
  u1 v5;
  u32* v6;
  u64* v7;
  u64 v8;
  u1 v9;
  u32* v10;
  fnptr_t** v11;
  fnptr_t* v12;
  fnptr_t* v13;
  fnptr_t v14;
  fnptr_t* v15;
  fnptr_t* v16;
  fnptr_t v17;
  u8 v18;
  u1 v19;
  u32 v20;
  u32 v21;
  u32 v22;
  u32 v23;
  u32 v24; u32 v24_t;
  u1 v25;
L0: ;
  v0 = (struct S55_class_std__shared_ptr_348*)(&(a0)[(s64)((s64)((u64)18446744073709551615ULL))].f0.f0.f1);
  v1 = (fnptr_t**)v0;
  *v1 = ((fnptr_t*)((u8**)(&(*(&_ZTVN14OpenVolumeMesh18PropertyStoragePtrIjEE)).f0.e[(s64)((s64)((u64)2ULL))])));
  v2 = (struct S55_class_std__shared_ptr_348*)(v0 + (s64)((s64)((u64)1ULL)));
  v3 = (struct S13_class_std___Sp_counted_base**)v2;
  v4 = *v3;
  v5 = ((u8*)v4 == (u8*)((struct S13_class_std___Sp_counted_base*)0));
  if (v5) {
    goto L8;
  } else {
    goto L1;
  }
L1: ;
  v6 = (u32*)(&(*v4).f1);
  v7 = (u64*)v6;
  v8 = (((u64)(*v4).f1 << 0) | ((u64)(*v4).f2 << 32));
  v9 = (v8 == ((u64)4294967297ULL));
  if (v9) {
    goto L2;
  } else {
    goto L3;
  }
L2: ;
  *v6 = ((u32)0ULL);
  v10 = (u32*)(&(*v4).f2);
  *v10 = ((u32)0ULL);
  v11 = (fnptr_t**)&(*v4).f0;
  v12 = *v11;
  v13 = (fnptr_t*)(v12 + (s64)((s64)((u64)2ULL)));
  v14 = *v13;
  ((FT0)v14)(v4);
  v15 = *v11;
  v16 = (fnptr_t*)(v15 + (s64)((s64)((u64)3ULL)));
  v17 = *v16;
  ((FT0)v17)(v4);
  goto L8;
L3: ;
  v18 = *(&__libc_single_threaded);
  v19 = (v18 == ((u8)0ULL));
  if (v19) {
    goto L5;
  } else {
    goto L4;
  }
L4: ;
  v20 = *v6;
  v21 = ((u32)(v20 + ((u32)4294967295ULL)));
  *v6 = v21;
  v24 = v20;
  goto L6;
L5: ;
  v22 = *v6;
  v23 = ((u32)(v22 + ((u32)4294967295ULL)));
  *v6 = v23;
  v24 = v22;
  goto L6;
L6: ;
  v25 = (v24 == ((u32)1ULL));
  if (v25) {
    goto L7;
  } else {
    goto L8;
  }
L7: ;
  _ZNSt16_Sp_counted_baseILN9__gnu_cxx12_Lock_policyE2EE24_M_release_last_use_coldEv(v4);
  goto L8;
L8: ;
  return;
}

void _ZThn24_N14OpenVolumeMesh11PropertyPtrIjNS_6Entity4FaceEED0Ev(struct S44_class_OpenVolumeMesh__PropertyPtr_431* a0) {
  struct S55_class_std__shared_ptr_348* v0;
  fnptr_t** v1;
  struct S55_class_std__shared_ptr_348* v2;
  struct S13_class_std___Sp_counted_base** v3;
  struct S13_class_std___Sp_counted_base* v4;
  u1 v5;
  u32* v6;
  u64* v7;
  u64 v8;
  u1 v9;
  u32* v10;
  fnptr_t** v11;
  fnptr_t* v12;
  fnptr_t* v13;
  fnptr_t v14;
  fnptr_t* v15;
  fnptr_t* v16;
  fnptr_t v17;
  u8 v18;
  u1 v19;
  u32 v20;
  u32 v21;
  u32 v22;
  u32 v23;
  u32 v24; u32 v24_t;
  u1 v25;
  u8* v26;
L0: ;
  v0 = (struct S55_class_std__shared_ptr_348*)(&(a0)[(s64)((s64)((u64)18446744073709551615ULL))].f0.f0.f1);
  v1 = (fnptr_t**)v0;
  *v1 = ((fnptr_t*)((u8**)(&(*(&_ZTVN14OpenVolumeMesh18PropertyStoragePtrIjEE)).f0.e[(s64)((s64)((u64)2ULL))])));
  v2 = (struct S55_class_std__shared_ptr_348*)(v0 + (s64)((s64)((u64)1ULL)));
  v3 = (struct S13_class_std___Sp_counted_base**)v2;
  v4 = *v3;
  v5 = ((u8*)v4 == (u8*)((struct S13_class_std___Sp_counted_base*)0));
  if (v5) {
    goto L8;
  } else {
    goto L1;
  }
L1: ;
  v6 = (u32*)(&(*v4).f1);
  v7 = (u64*)v6;
  v8 = (((u64)(*v4).f1 << 0) | ((u64)(*v4).f2 << 32));
  v9 = (v8 == ((u64)4294967297ULL));
  if (v9) {
    goto L2;
  } else {
    goto L3;
  }
L2: ;
  *v6 = ((u32)0ULL);
  v10 = (u32*)(&(*v4).f2);
  *v10 = ((u32)0ULL);
  v11 = (fnptr_t**)&(*v4).f0;
  v12 = *v11;
  v13 = (fnptr_t*)(v12 + (s64)((s64)((u64)2ULL)));
  v14 = *v13;
  ((FT0)v14)(v4);
  v15 = *v11;
  v16 = (fnptr_t*)(v15 + (s64)((s64)((u64)3ULL)));
  v17 = *v16;
  ((FT0)v17)(v4);
  goto L8;
L3: ;
  v18 = *(&__libc_single_threaded);
  v19 = (v18 == ((u8)0ULL));
  if (v19) {
    goto L5;
  } else {
    goto L4;
  }
L4: ;
  v20 = *v6;
  v21 = ((u32)(v20 + ((u32)4294967295ULL)));
  *v6 = v21;
  v24 = v20;
  goto L6;
L5: ;
  v22 = *v6;
  v23 = ((u32)(v22 + ((u32)4294967295ULL)));
  *v6 = v23;
  v24 = v22;
  goto L6;
L6: ;
  v25 = (v24 == ((u32)1ULL));
  if (v25) {
    goto L7;
  } else {
    goto L8;
  }
L7: ;
  _ZNSt16_Sp_counted_baseILN9__gnu_cxx12_Lock_policyE2EE24_M_release_last_use_coldEv(v4);
  goto L8;
L8: ;
  v26 = (u8*)v0;
  _ZdlPv(v26);
  return;
}

struct S27_class_std____cxx11__basic_string* _ZThn24_NKR14OpenVolumeMesh11PropertyPtrIjNS_6Entity4FaceEE4nameB5cxx11Ev(struct S44_class_OpenVolumeMesh__PropertyPtr_431* a0) {
  struct S70_class_std____weak_count* v0;
  struct S16_class_OpenVolumeMesh__PropertyStorageBas** v1;
  struct S16_class_OpenVolumeMesh__PropertyStorageBas* v2;
  struct S27_class_std____cxx11__basic_string* v3;
L0: ;
  v0 = (struct S70_class_std____weak_count*)(&(a0)[(s64)((s64)((u64)18446744073709551615ULL))].f0.f0.f1.f0.f1);
  v1 = (struct S16_class_OpenVolumeMesh__PropertyStorageBas**)v0;
  v2 = *v1;
  v3 = (struct S27_class_std____cxx11__basic_string*)(&(*v2).f2);
  return v3;
}

void _ZN14OpenVolumeMesh14HandleIndexingINS_6Entity4FaceENS_18PropertyStoragePtrIjEEED0Ev(struct S46_class_OpenVolumeMesh__HandleIndexing_432* a0) {
  fnptr_t** v0;
  struct S13_class_std___Sp_counted_base** v1;
  struct S13_class_std___Sp_counted_base* v2;
  u1 v3;
  u32* v4;
  u64* v5;
  u64 v6;
  u1 v7;
  u32* v8;
  fnptr_t** v9;
  fnptr_t* v10;
  fnptr_t* v11;
  fnptr_t v12;
  fnptr_t* v13;
  fnptr_t* v14;
  fnptr_t v15;
  u8 v16;
  u1 v17;
  u32 v18;
  u32 v19;
  u32 v20;
  u32 v21;
  u32 v22; u32 v22_t;
  u1 v23;
  u8* v24;
L0: ;
  v0 = (fnptr_t**)(&(*a0).f0.f0);
  *v0 = ((fnptr_t*)((u8**)(&(*(&_ZTVN14OpenVolumeMesh18PropertyStoragePtrIjEE)).f0.e[(s64)((s64)((u64)2ULL))])));
  v1 = (struct S13_class_std___Sp_counted_base**)(&(*a0).f0.f1.f0.f1.f0);
  v2 = *v1;
  v3 = ((u8*)v2 == (u8*)((struct S13_class_std___Sp_counted_base*)0));
  if (v3) {
    goto L8;
  } else {
    goto L1;
  }
L1: ;
  v4 = (u32*)(&(*v2).f1);
  v5 = (u64*)v4;
  v6 = (((u64)(*v2).f1 << 0) | ((u64)(*v2).f2 << 32));
  v7 = (v6 == ((u64)4294967297ULL));
  if (v7) {
    goto L2;
  } else {
    goto L3;
  }
L2: ;
  *v4 = ((u32)0ULL);
  v8 = (u32*)(&(*v2).f2);
  *v8 = ((u32)0ULL);
  v9 = (fnptr_t**)&(*v2).f0;
  v10 = *v9;
  v11 = (fnptr_t*)(v10 + (s64)((s64)((u64)2ULL)));
  v12 = *v11;
  ((FT0)v12)(v2);
  v13 = *v9;
  v14 = (fnptr_t*)(v13 + (s64)((s64)((u64)3ULL)));
  v15 = *v14;
  ((FT0)v15)(v2);
  goto L8;
L3: ;
  v16 = *(&__libc_single_threaded);
  v17 = (v16 == ((u8)0ULL));
  if (v17) {
    goto L5;
  } else {
    goto L4;
  }
L4: ;
  v18 = *v4;
  v19 = ((u32)(v18 + ((u32)4294967295ULL)));
  *v4 = v19;
  v22 = v18;
  goto L6;
L5: ;
  v20 = *v4;
  v21 = ((u32)(v20 + ((u32)4294967295ULL)));
  *v4 = v21;
  v22 = v20;
  goto L6;
L6: ;
  v23 = (v22 == ((u32)1ULL));
  if (v23) {
    goto L7;
  } else {
    goto L8;
  }
L7: ;
  _ZNSt16_Sp_counted_baseILN9__gnu_cxx12_Lock_policyE2EE24_M_release_last_use_coldEv(v2);
  goto L8;
L8: ;
  v24 = (u8*)a0;
  _ZdlPv(v24);
  return;
}

void _ZN14OpenVolumeMesh11PropertyPtrIjNS_6Entity8HalfEdgeEED2Ev(struct S44_class_OpenVolumeMesh__PropertyPtr_431* a0) {
  fnptr_t** v0;
  struct S13_class_std___Sp_counted_base** v1;
  struct S13_class_std___Sp_counted_base* v2;
  u1 v3;
  u32* v4;
  u64* v5;
  u64 v6;
  u1 v7;
  u32* v8;
  fnptr_t** v9;
  fnptr_t* v10;
  fnptr_t* v11;
  fnptr_t v12;
  fnptr_t* v13;
  fnptr_t* v14;
  fnptr_t v15;
  u8 v16;
  u1 v17;
  u32 v18;
  u32 v19;
  u32 v20;
  u32 v21;
  u32 v22; u32 v22_t;
  u1 v23;
L0: ;
  v0 = (fnptr_t**)(&(*a0).f0.f0.f0);
  *v0 = ((fnptr_t*)((u8**)(&(*(&_ZTVN14OpenVolumeMesh18PropertyStoragePtrIjEE)).f0.e[(s64)((s64)((u64)2ULL))])));
  v1 = (struct S13_class_std___Sp_counted_base**)(&(*a0).f0.f0.f1.f0.f1.f0);
  v2 = *v1;
  v3 = ((u8*)v2 == (u8*)((struct S13_class_std___Sp_counted_base*)0));
  if (v3) {
    goto L8;
  } else {
    goto L1;
  }
L1: ;
  v4 = (u32*)(&(*v2).f1);
  v5 = (u64*)v4;
  v6 = (((u64)(*v2).f1 << 0) | ((u64)(*v2).f2 << 32));
  v7 = (v6 == ((u64)4294967297ULL));
  if (v7) {
    goto L2;
  } else {
    goto L3;
  }
L2: ;
  *v4 = ((u32)0ULL);
  v8 = (u32*)(&(*v2).f2);
  *v8 = ((u32)0ULL);
  v9 = (fnptr_t**)&(*v2).f0;
  v10 = *v9;
  v11 = (fnptr_t*)(v10 + (s64)((s64)((u64)2ULL)));
  v12 = *v11;
  ((FT0)v12)(v2);
  v13 = *v9;
  v14 = (fnptr_t*)(v13 + (s64)((s64)((u64)3ULL)));
  v15 = *v14;
  ((FT0)v15)(v2);
  goto L8;
L3: ;
  v16 = *(&__libc_single_threaded);
  v17 = (v16 == ((u8)0ULL));
  if (v17) {
    goto L5;
  } else {
    goto L4;
  }
L4: ;
  v18 = *v4;
  v19 = ((u32)(v18 + ((u32)4294967295ULL)));
  *v4 = v19;
  v22 = v18;
  goto L6;
L5: ;
  v20 = *v4;
  v21 = ((u32)(v20 + ((u32)4294967295ULL)));
  *v4 = v21;
  v22 = v20;
  goto L6;
L6: ;
  v23 = (v22 == ((u32)1ULL));
  if (v23) {
    goto L7;
  } else {
    goto L8;
  }
L7: ;
  _ZNSt16_Sp_counted_baseILN9__gnu_cxx12_Lock_policyE2EE24_M_release_last_use_coldEv(v2);
  goto L8;
L8: ;
  return;
}

void _ZN14OpenVolumeMesh11PropertyPtrIjNS_6Entity8HalfEdgeEED0Ev(struct S44_class_OpenVolumeMesh__PropertyPtr_431* a0) {
  fnptr_t** v0;
  struct S13_class_std___Sp_counted_base** v1;
  struct S13_class_std___Sp_counted_base* v2;
  u1 v3;
  u32* v4;
  u64* v5;
  u64 v6;
  u1 v7;
  u32* v8;
  fnptr_t** v9;
  fnptr_t* v10;
  fnptr_t* v11;
  fnptr_t v12;
  fnptr_t* v13;
  fnptr_t* v14;
  fnptr_t v15;
  u8 v16;
  u1 v17;
  u32 v18;
  u32 v19;
  u32 v20;
  u32 v21;
  u32 v22; u32 v22_t;
  u1 v23;
  u8* v24;
L0: ;
  v0 = (fnptr_t**)(&(*a0).f0.f0.f0);
  *v0 = ((fnptr_t*)((u8**)(&(*(&_ZTVN14OpenVolumeMesh18PropertyStoragePtrIjEE)).f0.e[(s64)((s64)((u64)2ULL))])));
  v1 = (struct S13_class_std___Sp_counted_base**)(&(*a0).f0.f0.f1.f0.f1.f0);
  v2 = *v1;
  v3 = ((u8*)v2 == (u8*)((struct S13_class_std___Sp_counted_base*)0));
  if (v3) {
    goto L8;
  } else {
    goto L1;
  }
L1: ;
  v4 = (u32*)(&(*v2).f1);
  v5 = (u64*)v4;
  v6 = (((u64)(*v2).f1 << 0) | ((u64)(*v2).f2 << 32));
  v7 = (v6 == ((u64)4294967297ULL));
  if (v7) {
    goto L2;
  } else {
    goto L3;
  }
L2: ;
  *v4 = ((u32)0ULL);
  v8 = (u32*)(&(*v2).f2);
  *v8 = ((u32)0ULL);
  v9 = (fnptr_t**)&(*v2).f0;
  v10 = *v9;
  v11 = (fnptr_t*)(v10 + (s64)((s64)((u64)2ULL)));
  v12 = *v11;
  ((FT0)v12)(v2);
  v13 = *v9;
  v14 = (fnptr_t*)(v13 + (s64)((s64)((u64)3ULL)));
  v15 = *v14;
  ((FT0)v15)(v2);
  goto L8;
L3: ;
  v16 = *(&__libc_single_threaded);
  v17 = (v16 == ((u8)0ULL));
  if (v17) {
    goto L5;
  } else {
    goto L4;
  }
L4: ;
  v18 = *v4;
  v19 = ((u32)(v18 + ((u32)4294967295ULL)));
  *v4 = v19;
  v22 = v18;
  goto L6;
L5: ;
  v20 = *v4;
  v21 = ((u32)(v20 + ((u32)4294967295ULL)));
  *v4 = v21;
  v22 = v20;
  goto L6;
L6: ;
  v23 = (v22 == ((u32)1ULL));
  if (v23) {
    goto L7;
  } else {
    goto L8;
  }
L7: ;
  _ZNSt16_Sp_counted_baseILN9__gnu_cxx12_Lock_policyE2EE24_M_release_last_use_coldEv(v2);
  goto L8;
L8: ;
  v24 = (u8*)a0;
  _ZdlPv(v24);
  return;
}

struct S27_class_std____cxx11__basic_string* _ZNKR14OpenVolumeMesh11PropertyPtrIjNS_6Entity8HalfEdgeEE4nameB5cxx11Ev(struct S44_class_OpenVolumeMesh__PropertyPtr_431* a0) {
  struct S38_class_OpenVolumeMesh__PropertyStorageT_3** v0;
  struct S16_class_OpenVolumeMesh__PropertyStorageBas** v1;
  struct S16_class_OpenVolumeMesh__PropertyStorageBas* v2;
  struct S27_class_std____cxx11__basic_string* v3;
L0: ;
  v0 = (struct S38_class_OpenVolumeMesh__PropertyStorageT_3**)(&(*a0).f0.f0.f1.f0.f0);
  v1 = (struct S16_class_OpenVolumeMesh__PropertyStorageBas**)&(*a0).f0.f0.f1.f0.f0;
  v2 = *v1;
  v3 = (struct S27_class_std____cxx11__basic_string*)(&(*v2).f2);
  return v3;
}

void _ZThn24_N14OpenVolumeMesh11PropertyPtrIjNS_6Entity8HalfEdgeEED1Ev(struct S44_class_OpenVolumeMesh__PropertyPtr_431* a0) {
  struct S55_class_std__shared_ptr_348* v0;
  fnptr_t** v1;
  struct S55_class_std__shared_ptr_348* v2;
  struct S13_class_std___Sp_counted_base** v3;
  struct S13_class_std___Sp_counted_base* v4;
  u1 v5;
  u32* v6;
  u64* v7;
  u64 v8;
  u1 v9;
  u32* v10;
  fnptr_t** v11;
  fnptr_t* v12;
  fnptr_t* v13;
  fnptr_t v14;
  fnptr_t* v15;
  fnptr_t* v16;
  fnptr_t v17;
  u8 v18;
  u1 v19;
  u32 v20;
  u32 v21;
  u32 v22;
  u32 v23;
  u32 v24; u32 v24_t;
  u1 v25;
L0: ;
  v0 = (struct S55_class_std__shared_ptr_348*)(&(a0)[(s64)((s64)((u64)18446744073709551615ULL))].f0.f0.f1);
  v1 = (fnptr_t**)v0;
  *v1 = ((fnptr_t*)((u8**)(&(*(&_ZTVN14OpenVolumeMesh18PropertyStoragePtrIjEE)).f0.e[(s64)((s64)((u64)2ULL))])));
  v2 = (struct S55_class_std__shared_ptr_348*)(v0 + (s64)((s64)((u64)1ULL)));
  v3 = (struct S13_class_std___Sp_counted_base**)v2;
  v4 = *v3;
  v5 = ((u8*)v4 == (u8*)((struct S13_class_std___Sp_counted_base*)0));
  if (v5) {
    goto L8;
  } else {
    goto L1;
  }
L1: ;
  v6 = (u32*)(&(*v4).f1);
  v7 = (u64*)v6;
  v8 = (((u64)(*v4).f1 << 0) | ((u64)(*v4).f2 << 32));
  v9 = (v8 == ((u64)4294967297ULL));
  if (v9) {
    goto L2;
  } else {
    goto L3;
  }
L2: ;
  *v6 = ((u32)0ULL);
  v10 = (u32*)(&(*v4).f2);
  *v10 = ((u32)0ULL);
  v11 = (fnptr_t**)&(*v4).f0;
  v12 = *v11;
  v13 = (fnptr_t*)(v12 + (s64)((s64)((u64)2ULL)));
  v14 = *v13;
  ((FT0)v14)(v4);
  v15 = *v11;
  v16 = (fnptr_t*)(v15 + (s64)((s64)((u64)3ULL)));
  v17 = *v16;
  ((FT0)v17)(v4);
  goto L8;
L3: ;
  v18 = *(&__libc_single_threaded);
  v19 = (v18 == ((u8)0ULL));
  if (v19) {
    goto L5;
  } else {
    goto L4;
  }
L4: ;
  v20 = *v6;
  v21 = ((u32)(v20 + ((u32)4294967295ULL)));
  *v6 = v21;
  v24 = v20;
  goto L6;
L5: ;
  v22 = *v6;
  v23 = ((u32)(v22 + ((u32)4294967295ULL)));
  *v6 = v23;
  v24 = v22;
  goto L6;
L6: ;
  v25 = (v24 == ((u32)1ULL));
  if (v25) {
    goto L7;
  } else {
    goto L8;
  }
L7: ;
  _ZNSt16_Sp_counted_baseILN9__gnu_cxx12_Lock_policyE2EE24_M_release_last_use_coldEv(v4);
  goto L8;
L8: ;
  return;
}

void _ZThn24_N14OpenVolumeMesh11PropertyPtrIjNS_6Entity8HalfEdgeEED0Ev(struct S44_class_OpenVolumeMesh__PropertyPtr_431* a0) {
  struct S55_class_std__shared_ptr_348* v0;
  fnptr_t** v1;
  struct S55_class_std__shared_ptr_348* v2;
  struct S13_class_std___Sp_counted_base** v3;
  struct S13_class_std___Sp_counted_base* v4;
  u1 v5;
  u32* v6;
  u64* v7;
  u64 v8;
  u1 v9;
  u32* v10;
  fnptr_t** v11;
  fnptr_t* v12;
  fnptr_t* v13;
  fnptr_t v14;
  fnptr_t* v15;
  fnptr_t* v16;
  fnptr_t v17;
  u8 v18;
  u1 v19;
  u32 v20;
  u32 v21;
  u32 v22;
  u32 v23;
  u32 v24; u32 v24_t;
  u1 v25;
  u8* v26;
L0: ;
  v0 = (struct S55_class_std__shared_ptr_348*)(&(a0)[(s64)((s64)((u64)18446744073709551615ULL))].f0.f0.f1);
  v1 = (fnptr_t**)v0;
  *v1 = ((fnptr_t*)((u8**)(&(*(&_ZTVN14OpenVolumeMesh18PropertyStoragePtrIjEE)).f0.e[(s64)((s64)((u64)2ULL))])));
  v2 = (struct S55_class_std__shared_ptr_348*)(v0 + (s64)((s64)((u64)1ULL)));
  v3 = (struct S13_class_std___Sp_counted_base**)v2;
  v4 = *v3;
  v5 = ((u8*)v4 == (u8*)((struct S13_class_std___Sp_counted_base*)0));
  if (v5) {
    goto L8;
  } else {
    goto L1;
  }
L1: ;
  v6 = (u32*)(&(*v4).f1);
  v7 = (u64*)v6;
  v8 = (((u64)(*v4).f1 << 0) | ((u64)(*v4).f2 << 32));
  v9 = (v8 == ((u64)4294967297ULL));
  if (v9) {
    goto L2;
  } else {
    goto L3;
  }
L2: ;
  *v6 = ((u32)0ULL);
  v10 = (u32*)(&(*v4).f2);
  *v10 = ((u32)0ULL);
  v11 = (fnptr_t**)&(*v4).f0;
  v12 = *v11;
  v13 = (fnptr_t*)(v12 + (s64)((s64)((u64)2ULL)));
  v14 = *v13;
  ((FT0)v14)(v4);
  v15 = *v11;
  v16 = (fnptr_t*)(v15 + (s64)((s64)((u64)3ULL)));
  v17 = *v16;
  ((FT0)v17)(v4);
  goto L8;
L3: ;
  v18 = *(&__libc_single_threaded);
  v19 = (v18 == ((u8)0ULL));
  if (v19) {
    goto L5;
  } else {
    goto L4;
  }
L4: ;
  v20 = *v6;
  v21 = ((u32)(v20 + ((u32)4294967295ULL)));
  *v6 = v21;
  v24 = v20;
  goto L6;
L5: ;
  v22 = *v6;
  v23 = ((u32)(v22 + ((u32)4294967295ULL)));
  *v6 = v23;
  v24 = v22;
  goto L6;
L6: ;
  v25 = (v24 == ((u32)1ULL));
  if (v25) {
    goto L7;
  } else {
    goto L8;
  }
L7: ;
  _ZNSt16_Sp_counted_baseILN9__gnu_cxx12_Lock_policyE2EE24_M_release_last_use_coldEv(v4);
  goto L8;
L8: ;
  v26 = (u8*)v0;
  _ZdlPv(v26);
  return;
}

struct S27_class_std____cxx11__basic_string* _ZThn24_NKR14OpenVolumeMesh11PropertyPtrIjNS_6Entity8HalfEdgeEE4nameB5cxx11Ev(struct S44_class_OpenVolumeMesh__PropertyPtr_431* a0) {
  struct S70_class_std____weak_count* v0;
  struct S16_class_OpenVolumeMesh__PropertyStorageBas** v1;
  struct S16_class_OpenVolumeMesh__PropertyStorageBas* v2;
  struct S27_class_std____cxx11__basic_string* v3;
L0: ;
  v0 = (struct S70_class_std____weak_count*)(&(a0)[(s64)((s64)((u64)18446744073709551615ULL))].f0.f0.f1.f0.f1);
  v1 = (struct S16_class_OpenVolumeMesh__PropertyStorageBas**)v0;
  v2 = *v1;
  v3 = (struct S27_class_std____cxx11__basic_string*)(&(*v2).f2);
  return v3;
}

void _ZN14OpenVolumeMesh14HandleIndexingINS_6Entity8HalfEdgeENS_18PropertyStoragePtrIjEEED0Ev(struct S46_class_OpenVolumeMesh__HandleIndexing_432* a0) {
  fnptr_t** v0;
  struct S13_class_std___Sp_counted_base** v1;
  struct S13_class_std___Sp_counted_base* v2;
  u1 v3;
  u32* v4;
  u64* v5;
  u64 v6;
  u1 v7;
  u32* v8;
  fnptr_t** v9;
  fnptr_t* v10;
  fnptr_t* v11;
  fnptr_t v12;
  fnptr_t* v13;
  fnptr_t* v14;
  fnptr_t v15;
  u8 v16;
  u1 v17;
  u32 v18;
  u32 v19;
  u32 v20;
  u32 v21;
  u32 v22; u32 v22_t;
  u1 v23;
  u8* v24;
L0: ;
  v0 = (fnptr_t**)(&(*a0).f0.f0);
  *v0 = ((fnptr_t*)((u8**)(&(*(&_ZTVN14OpenVolumeMesh18PropertyStoragePtrIjEE)).f0.e[(s64)((s64)((u64)2ULL))])));
  v1 = (struct S13_class_std___Sp_counted_base**)(&(*a0).f0.f1.f0.f1.f0);
  v2 = *v1;
  v3 = ((u8*)v2 == (u8*)((struct S13_class_std___Sp_counted_base*)0));
  if (v3) {
    goto L8;
  } else {
    goto L1;
  }
L1: ;
  v4 = (u32*)(&(*v2).f1);
  v5 = (u64*)v4;
  v6 = (((u64)(*v2).f1 << 0) | ((u64)(*v2).f2 << 32));
  v7 = (v6 == ((u64)4294967297ULL));
  if (v7) {
    goto L2;
  } else {
    goto L3;
  }
L2: ;
  *v4 = ((u32)0ULL);
  v8 = (u32*)(&(*v2).f2);
  *v8 = ((u32)0ULL);
  v9 = (fnptr_t**)&(*v2).f0;
  v10 = *v9;
  v11 = (fnptr_t*)(v10 + (s64)((s64)((u64)2ULL)));
  v12 = *v11;
  ((FT0)v12)(v2);
  v13 = *v9;
  v14 = (fnptr_t*)(v13 + (s64)((s64)((u64)3ULL)));
  v15 = *v14;
  ((FT0)v15)(v2);
  goto L8;
L3: ;
  v16 = *(&__libc_single_threaded);
  v17 = (v16 == ((u8)0ULL));
  if (v17) {
    goto L5;
  } else {
    goto L4;
  }
L4: ;
  v18 = *v4;
  v19 = ((u32)(v18 + ((u32)4294967295ULL)));
  *v4 = v19;
  v22 = v18;
  goto L6;
L5: ;
  v20 = *v4;
  v21 = ((u32)(v20 + ((u32)4294967295ULL)));
  *v4 = v21;
  v22 = v20;
  goto L6;
L6: ;
  v23 = (v22 == ((u32)1ULL));
  if (v23) {
    goto L7;
  } else {
    goto L8;
  }
L7: ;
  _ZNSt16_Sp_counted_baseILN9__gnu_cxx12_Lock_policyE2EE24_M_release_last_use_coldEv(v2);
  goto L8;
L8: ;
  v24 = (u8*)a0;
  _ZdlPv(v24);
  return;
}

void _ZN14OpenVolumeMesh11PropertyPtrIjNS_6Entity4EdgeEED2Ev(struct S44_class_OpenVolumeMesh__PropertyPtr_431* a0) {
  fnptr_t** v0;
  struct S13_class_std___Sp_counted_base** v1;
  struct S13_class_std___Sp_counted_base* v2;
  u1 v3;
  u32* v4;
  u64* v5;
  u64 v6;
  u1 v7;
  u32* v8;
  fnptr_t** v9;
  fnptr_t* v10;
  fnptr_t* v11;
  fnptr_t v12;
  fnptr_t* v13;
  fnptr_t* v14;
  fnptr_t v15;
  u8 v16;
  u1 v17;
  u32 v18;
  u32 v19;
  u32 v20;
  u32 v21;
  u32 v22; u32 v22_t;
  u1 v23;
L0: ;
  v0 = (fnptr_t**)(&(*a0).f0.f0.f0);
  *v0 = ((fnptr_t*)((u8**)(&(*(&_ZTVN14OpenVolumeMesh18PropertyStoragePtrIjEE)).f0.e[(s64)((s64)((u64)2ULL))])));
  v1 = (struct S13_class_std___Sp_counted_base**)(&(*a0).f0.f0.f1.f0.f1.f0);
  v2 = *v1;
  v3 = ((u8*)v2 == (u8*)((struct S13_class_std___Sp_counted_base*)0));
  if (v3) {
    goto L8;
  } else {
    goto L1;
  }
L1: ;
  v4 = (u32*)(&(*v2).f1);
  v5 = (u64*)v4;
  v6 = (((u64)(*v2).f1 << 0) | ((u64)(*v2).f2 << 32));
  v7 = (v6 == ((u64)4294967297ULL));
  if (v7) {
    goto L2;
  } else {
    goto L3;
  }
L2: ;
  *v4 = ((u32)0ULL);
  v8 = (u32*)(&(*v2).f2);
  *v8 = ((u32)0ULL);
  v9 = (fnptr_t**)&(*v2).f0;
  v10 = *v9;
  v11 = (fnptr_t*)(v10 + (s64)((s64)((u64)2ULL)));
  v12 = *v11;
  ((FT0)v12)(v2);
  v13 = *v9;
  v14 = (fnptr_t*)(v13 + (s64)((s64)((u64)3ULL)));
  v15 = *v14;
  ((FT0)v15)(v2);
  goto L8;
L3: ;
  v16 = *(&__libc_single_threaded);
  v17 = (v16 == ((u8)0ULL));
  if (v17) {
    goto L5;
  } else {
    goto L4;
  }
L4: ;
  v18 = *v4;
  v19 = ((u32)(v18 + ((u32)4294967295ULL)));
  *v4 = v19;
  v22 = v18;
  goto L6;
L5: ;
  v20 = *v4;
  v21 = ((u32)(v20 + ((u32)4294967295ULL)));
  *v4 = v21;
  v22 = v20;
  goto L6;
L6: ;
  v23 = (v22 == ((u32)1ULL));
  if (v23) {
    goto L7;
  } else {
    goto L8;
  }
L7: ;
  _ZNSt16_Sp_counted_baseILN9__gnu_cxx12_Lock_policyE2EE24_M_release_last_use_coldEv(v2);
  goto L8;
L8: ;
  return;
}

void _ZN14OpenVolumeMesh11PropertyPtrIjNS_6Entity4EdgeEED0Ev(struct S44_class_OpenVolumeMesh__PropertyPtr_431* a0) {
  fnptr_t** v0;
  struct S13_class_std___Sp_counted_base** v1;
  struct S13_class_std___Sp_counted_base* v2;
  u1 v3;
  u32* v4;
  u64* v5;
  u64 v6;
  u1 v7;
  u32* v8;
  fnptr_t** v9;
  fnptr_t* v10;
  fnptr_t* v11;
  fnptr_t v12;
  fnptr_t* v13;
  fnptr_t* v14;
  fnptr_t v15;
  u8 v16;
  u1 v17;
  u32 v18;
  u32 v19;
  u32 v20;
  u32 v21;
  u32 v22; u32 v22_t;
  u1 v23;
  u8* v24;
L0: ;
  v0 = (fnptr_t**)(&(*a0).f0.f0.f0);
  *v0 = ((fnptr_t*)((u8**)(&(*(&_ZTVN14OpenVolumeMesh18PropertyStoragePtrIjEE)).f0.e[(s64)((s64)((u64)2ULL))])));
  v1 = (struct S13_class_std___Sp_counted_base**)(&(*a0).f0.f0.f1.f0.f1.f0);
  v2 = *v1;
  v3 = ((u8*)v2 == (u8*)((struct S13_class_std___Sp_counted_base*)0));
  if (v3) {
    goto L8;
  } else {
    goto L1;
  }
L1: ;
  v4 = (u32*)(&(*v2).f1);
  v5 = (u64*)v4;
  v6 = (((u64)(*v2).f1 << 0) | ((u64)(*v2).f2 << 32));
  v7 = (v6 == ((u64)4294967297ULL));
  if (v7) {
    goto L2;
  } else {
    goto L3;
  }
L2: ;
  *v4 = ((u32)0ULL);
  v8 = (u32*)(&(*v2).f2);
  *v8 = ((u32)0ULL);
  v9 = (fnptr_t**)&(*v2).f0;
  v10 = *v9;
  v11 = (fnptr_t*)(v10 + (s64)((s64)((u64)2ULL)));
  v12 = *v11;
  ((FT0)v12)(v2);
  v13 = *v9;
  v14 = (fnptr_t*)(v13 + (s64)((s64)((u64)3ULL)));
  v15 = *v14;
  ((FT0)v15)(v2);
  goto L8;
L3: ;
  v16 = *(&__libc_single_threaded);
  v17 = (v16 == ((u8)0ULL));
  if (v17) {
    goto L5;
  } else {
    goto L4;
  }
L4: ;
  v18 = *v4;
  v19 = ((u32)(v18 + ((u32)4294967295ULL)));
  *v4 = v19;
  v22 = v18;
  goto L6;
L5: ;
  v20 = *v4;
  v21 = ((u32)(v20 + ((u32)4294967295ULL)));
  *v4 = v21;
  v22 = v20;
  goto L6;
L6: ;
  v23 = (v22 == ((u32)1ULL));
  if (v23) {
    goto L7;
  } else {
    goto L8;
  }
L7: ;
  _ZNSt16_Sp_counted_baseILN9__gnu_cxx12_Lock_policyE2EE24_M_release_last_use_coldEv(v2);
  goto L8;
L8: ;
  v24 = (u8*)a0;
  _ZdlPv(v24);
  return;
}

struct S27_class_std____cxx11__basic_string* _ZNKR14OpenVolumeMesh11PropertyPtrIjNS_6Entity4EdgeEE4nameB5cxx11Ev(struct S44_class_OpenVolumeMesh__PropertyPtr_431* a0) {
  struct S38_class_OpenVolumeMesh__PropertyStorageT_3** v0;
  struct S16_class_OpenVolumeMesh__PropertyStorageBas** v1;
  struct S16_class_OpenVolumeMesh__PropertyStorageBas* v2;
  struct S27_class_std____cxx11__basic_string* v3;
L0: ;
  v0 = (struct S38_class_OpenVolumeMesh__PropertyStorageT_3**)(&(*a0).f0.f0.f1.f0.f0);
  v1 = (struct S16_class_OpenVolumeMesh__PropertyStorageBas**)&(*a0).f0.f0.f1.f0.f0;
  v2 = *v1;
  v3 = (struct S27_class_std____cxx11__basic_string*)(&(*v2).f2);
  return v3;
}

void _ZThn24_N14OpenVolumeMesh11PropertyPtrIjNS_6Entity4EdgeEED1Ev(struct S44_class_OpenVolumeMesh__PropertyPtr_431* a0) {
  struct S55_class_std__shared_ptr_348* v0;
  fnptr_t** v1;
  struct S55_class_std__shared_ptr_348* v2;
  struct S13_class_std___Sp_counted_base** v3;
  struct S13_class_std___Sp_counted_base* v4;
  u1 v5;
  u32* v6;
  u64* v7;
  u64 v8;
  u1 v9;
  u32* v10;
  fnptr_t** v11;
  fnptr_t* v12;
  fnptr_t* v13;
  fnptr_t v14;
  fnptr_t* v15;
  fnptr_t* v16;
  fnptr_t v17;
  u8 v18;
  u1 v19;
  u32 v20;
  u32 v21;
  u32 v22;
  u32 v23;
  u32 v24; u32 v24_t;
  u1 v25;
L0: ;
  v0 = (struct S55_class_std__shared_ptr_348*)(&(a0)[(s64)((s64)((u64)18446744073709551615ULL))].f0.f0.f1);
  v1 = (fnptr_t**)v0;
  *v1 = ((fnptr_t*)((u8**)(&(*(&_ZTVN14OpenVolumeMesh18PropertyStoragePtrIjEE)).f0.e[(s64)((s64)((u64)2ULL))])));
  v2 = (struct S55_class_std__shared_ptr_348*)(v0 + (s64)((s64)((u64)1ULL)));
  v3 = (struct S13_class_std___Sp_counted_base**)v2;
  v4 = *v3;
  v5 = ((u8*)v4 == (u8*)((struct S13_class_std___Sp_counted_base*)0));
  if (v5) {
    goto L8;
  } else {
    goto L1;
  }
L1: ;
  v6 = (u32*)(&(*v4).f1);
  v7 = (u64*)v6;
  v8 = (((u64)(*v4).f1 << 0) | ((u64)(*v4).f2 << 32));
  v9 = (v8 == ((u64)4294967297ULL));
  if (v9) {
    goto L2;
  } else {
    goto L3;
  }
L2: ;
  *v6 = ((u32)0ULL);
  v10 = (u32*)(&(*v4).f2);
  *v10 = ((u32)0ULL);
  v11 = (fnptr_t**)&(*v4).f0;
  v12 = *v11;
  v13 = (fnptr_t*)(v12 + (s64)((s64)((u64)2ULL)));
  v14 = *v13;
  ((FT0)v14)(v4);
  v15 = *v11;
  v16 = (fnptr_t*)(v15 + (s64)((s64)((u64)3ULL)));
  v17 = *v16;
  ((FT0)v17)(v4);
  goto L8;
L3: ;
  v18 = *(&__libc_single_threaded);
  v19 = (v18 == ((u8)0ULL));
  if (v19) {
    goto L5;
  } else {
    goto L4;
  }
L4: ;
  v20 = *v6;
  v21 = ((u32)(v20 + ((u32)4294967295ULL)));
  *v6 = v21;
  v24 = v20;
  goto L6;
L5: ;
  v22 = *v6;
  v23 = ((u32)(v22 + ((u32)4294967295ULL)));
  *v6 = v23;
  v24 = v22;
  goto L6;
L6: ;
  v25 = (v24 == ((u32)1ULL));
  if (v25) {
    goto L7;
  } else {
    goto L8;
  }
L7: ;
  _ZNSt16_Sp_counted_baseILN9__gnu_cxx12_Lock_policyE2EE24_M_release_last_use_coldEv(v4);
  goto L8;
L8: ;
  return;
}

void _ZThn24_N14OpenVolumeMesh11PropertyPtrIjNS_6Entity4EdgeEED0Ev(struct S44_class_OpenVolumeMesh__PropertyPtr_431* a0) {
  struct S55_class_std__shared_ptr_348* v0;
  fnptr_t** v1;
  struct S55_class_std__shared_ptr_348* v2;
  struct S13_class_std___Sp_counted_base** v3;
  struct S13_class_std___Sp_counted_base* v4;
  u1 v5;
  u32* v6;
  u64* v7;
  u64 v8;
  u1 v9;
  u32* v10;
  fnptr_t** v11;
  fnptr_t* v12;
  fnptr_t* v13;
  fnptr_t v14;
  fnptr_t* v15;
  fnptr_t* v16;
  fnptr_t v17;
  u8 v18;
  u1 v19;
  u32 v20;
  u32 v21;
  u32 v22;
  u32 v23;
  u32 v24; u32 v24_t;
  u1 v25;
  u8* v26;
L0: ;
  v0 = (struct S55_class_std__shared_ptr_348*)(&(a0)[(s64)((s64)((u64)18446744073709551615ULL))].f0.f0.f1);
  v1 = (fnptr_t**)v0;
  *v1 = ((fnptr_t*)((u8**)(&(*(&_ZTVN14OpenVolumeMesh18PropertyStoragePtrIjEE)).f0.e[(s64)((s64)((u64)2ULL))])));
  v2 = (struct S55_class_std__shared_ptr_348*)(v0 + (s64)((s64)((u64)1ULL)));
  v3 = (struct S13_class_std___Sp_counted_base**)v2;
  v4 = *v3;
  v5 = ((u8*)v4 == (u8*)((struct S13_class_std___Sp_counted_base*)0));
  if (v5) {
    goto L8;
  } else {
    goto L1;
  }
L1: ;
  v6 = (u32*)(&(*v4).f1);
  v7 = (u64*)v6;
  v8 = (((u64)(*v4).f1 << 0) | ((u64)(*v4).f2 << 32));
  v9 = (v8 == ((u64)4294967297ULL));
  if (v9) {
    goto L2;
  } else {
    goto L3;
  }
L2: ;
  *v6 = ((u32)0ULL);
  v10 = (u32*)(&(*v4).f2);
  *v10 = ((u32)0ULL);
  v11 = (fnptr_t**)&(*v4).f0;
  v12 = *v11;
  v13 = (fnptr_t*)(v12 + (s64)((s64)((u64)2ULL)));
  v14 = *v13;
  ((FT0)v14)(v4);
  v15 = *v11;
  v16 = (fnptr_t*)(v15 + (s64)((s64)((u64)3ULL)));
  v17 = *v16;
  ((FT0)v17)(v4);
  goto L8;
L3: ;
  v18 = *(&__libc_single_threaded);
  v19 = (v18 == ((u8)0ULL));
  if (v19) {
    goto L5;
  } else {
    goto L4;
  }
L4: ;
  v20 = *v6;
  v21 = ((u32)(v20 + ((u32)4294967295ULL)));
  *v6 = v21;
  v24 = v20;
  goto L6;
L5: ;
  v22 = *v6;
  v23 = ((u32)(v22 + ((u32)4294967295ULL)));
  *v6 = v23;
  v24 = v22;
  goto L6;
L6: ;
  v25 = (v24 == ((u32)1ULL));
  if (v25) {
    goto L7;
  } else {
    goto L8;
  }
L7: ;
  _ZNSt16_Sp_counted_baseILN9__gnu_cxx12_Lock_policyE2EE24_M_release_last_use_coldEv(v4);
  goto L8;
L8: ;
  v26 = (u8*)v0;
  _ZdlPv(v26);
  return;
}

struct S27_class_std____cxx11__basic_string* _ZThn24_NKR14OpenVolumeMesh11PropertyPtrIjNS_6Entity4EdgeEE4nameB5cxx11Ev(struct S44_class_OpenVolumeMesh__PropertyPtr_431* a0) {
  struct S70_class_std____weak_count* v0;
  struct S16_class_OpenVolumeMesh__PropertyStorageBas** v1;
  struct S16_class_OpenVolumeMesh__PropertyStorageBas* v2;
  struct S27_class_std____cxx11__basic_string* v3;
L0: ;
  v0 = (struct S70_class_std____weak_count*)(&(a0)[(s64)((s64)((u64)18446744073709551615ULL))].f0.f0.f1.f0.f1);
  v1 = (struct S16_class_OpenVolumeMesh__PropertyStorageBas**)v0;
  v2 = *v1;
  v3 = (struct S27_class_std____cxx11__basic_string*)(&(*v2).f2);
  return v3;
}

void _ZN14OpenVolumeMesh14HandleIndexingINS_6Entity4EdgeENS_18PropertyStoragePtrIjEEED0Ev(struct S46_class_OpenVolumeMesh__HandleIndexing_432* a0) {
  fnptr_t** v0;
  struct S13_class_std___Sp_counted_base** v1;
  struct S13_class_std___Sp_counted_base* v2;
  u1 v3;
  u32* v4;
  u64* v5;
  u64 v6;
  u1 v7;
  u32* v8;
  fnptr_t** v9;
  fnptr_t* v10;
  fnptr_t* v11;
  fnptr_t v12;
  fnptr_t* v13;
  fnptr_t* v14;
  fnptr_t v15;
  u8 v16;
  u1 v17;
  u32 v18;
  u32 v19;
  u32 v20;
  u32 v21;
  u32 v22; u32 v22_t;
  u1 v23;
  u8* v24;
L0: ;
  v0 = (fnptr_t**)(&(*a0).f0.f0);
  *v0 = ((fnptr_t*)((u8**)(&(*(&_ZTVN14OpenVolumeMesh18PropertyStoragePtrIjEE)).f0.e[(s64)((s64)((u64)2ULL))])));
  v1 = (struct S13_class_std___Sp_counted_base**)(&(*a0).f0.f1.f0.f1.f0);
  v2 = *v1;
  v3 = ((u8*)v2 == (u8*)((struct S13_class_std___Sp_counted_base*)0));
  if (v3) {
    goto L8;
  } else {
    goto L1;
  }
L1: ;
  v4 = (u32*)(&(*v2).f1);
  v5 = (u64*)v4;
  v6 = (((u64)(*v2).f1 << 0) | ((u64)(*v2).f2 << 32));
  v7 = (v6 == ((u64)4294967297ULL));
  if (v7) {
    goto L2;
  } else {
    goto L3;
  }
L2: ;
  *v4 = ((u32)0ULL);
  v8 = (u32*)(&(*v2).f2);
  *v8 = ((u32)0ULL);
  v9 = (fnptr_t**)&(*v2).f0;
  v10 = *v9;
  v11 = (fnptr_t*)(v10 + (s64)((s64)((u64)2ULL)));
  v12 = *v11;
  ((FT0)v12)(v2);
  v13 = *v9;
  v14 = (fnptr_t*)(v13 + (s64)((s64)((u64)3ULL)));
  v15 = *v14;
  ((FT0)v15)(v2);
  goto L8;
L3: ;
  v16 = *(&__libc_single_threaded);
  v17 = (v16 == ((u8)0ULL));
  if (v17) {
    goto L5;
  } else {
    goto L4;
  }
L4: ;
  v18 = *v4;
  v19 = ((u32)(v18 + ((u32)4294967295ULL)));
  *v4 = v19;
  v22 = v18;
  goto L6;
L5: ;
  v20 = *v4;
  v21 = ((u32)(v20 + ((u32)4294967295ULL)));
  *v4 = v21;
  v22 = v20;
  goto L6;
L6: ;
  v23 = (v22 == ((u32)1ULL));
  if (v23) {
    goto L7;
  } else {
    goto L8;
  }
L7: ;
  _ZNSt16_Sp_counted_baseILN9__gnu_cxx12_Lock_policyE2EE24_M_release_last_use_coldEv(v2);
  goto L8;
L8: ;
  v24 = (u8*)a0;
  _ZdlPv(v24);
  return;
}

void _ZN14OpenVolumeMesh11PropertyPtrIjNS_6Entity6VertexEED2Ev(struct S44_class_OpenVolumeMesh__PropertyPtr_431* a0) {
  fnptr_t** v0;
  struct S13_class_std___Sp_counted_base** v1;
  struct S13_class_std___Sp_counted_base* v2;
  u1 v3;
  u32* v4;
  u64* v5;
  u64 v6;
  u1 v7;
  u32* v8;
  fnptr_t** v9;
  fnptr_t* v10;
  fnptr_t* v11;
  fnptr_t v12;
  fnptr_t* v13;
  fnptr_t* v14;
  fnptr_t v15;
  u8 v16;
  u1 v17;
  u32 v18;
  u32 v19;
  u32 v20;
  u32 v21;
  u32 v22; u32 v22_t;
  u1 v23;
L0: ;
  v0 = (fnptr_t**)(&(*a0).f0.f0.f0);
  *v0 = ((fnptr_t*)((u8**)(&(*(&_ZTVN14OpenVolumeMesh18PropertyStoragePtrIjEE)).f0.e[(s64)((s64)((u64)2ULL))])));
  v1 = (struct S13_class_std___Sp_counted_base**)(&(*a0).f0.f0.f1.f0.f1.f0);
  v2 = *v1;
  v3 = ((u8*)v2 == (u8*)((struct S13_class_std___Sp_counted_base*)0));
  if (v3) {
    goto L8;
  } else {
    goto L1;
  }
L1: ;
  v4 = (u32*)(&(*v2).f1);
  v5 = (u64*)v4;
  v6 = (((u64)(*v2).f1 << 0) | ((u64)(*v2).f2 << 32));
  v7 = (v6 == ((u64)4294967297ULL));
  if (v7) {
    goto L2;
  } else {
    goto L3;
  }
L2: ;
  *v4 = ((u32)0ULL);
  v8 = (u32*)(&(*v2).f2);
  *v8 = ((u32)0ULL);
  v9 = (fnptr_t**)&(*v2).f0;
  v10 = *v9;
  v11 = (fnptr_t*)(v10 + (s64)((s64)((u64)2ULL)));
  v12 = *v11;
  ((FT0)v12)(v2);
  v13 = *v9;
  v14 = (fnptr_t*)(v13 + (s64)((s64)((u64)3ULL)));
  v15 = *v14;
  ((FT0)v15)(v2);
  goto L8;
L3: ;
  v16 = *(&__libc_single_threaded);
  v17 = (v16 == ((u8)0ULL));
  if (v17) {
    goto L5;
  } else {
    goto L4;
  }
L4: ;
  v18 = *v4;
  v19 = ((u32)(v18 + ((u32)4294967295ULL)));
  *v4 = v19;
  v22 = v18;
  goto L6;
L5: ;
  v20 = *v4;
  v21 = ((u32)(v20 + ((u32)4294967295ULL)));
  *v4 = v21;
  v22 = v20;
  goto L6;
L6: ;
  v23 = (v22 == ((u32)1ULL));
  if (v23) {
    goto L7;
  } else {
    goto L8;
  }
L7: ;
  _ZNSt16_Sp_counted_baseILN9__gnu_cxx12_Lock_policyE2EE24_M_release_last_use_coldEv(v2);
  goto L8;
L8: ;
  return;
}

void _ZN14OpenVolumeMesh11PropertyPtrIjNS_6Entity6VertexEED0Ev(struct S44_class_OpenVolumeMesh__PropertyPtr_431* a0) {
  fnptr_t** v0;
  struct S13_class_std___Sp_counted_base** v1;
  struct S13_class_std___Sp_counted_base* v2;
  u1 v3;
  u32* v4;
  u64* v5;
  u64 v6;
  u1 v7;
  u32* v8;
  fnptr_t** v9;
  fnptr_t* v10;
  fnptr_t* v11;
  fnptr_t v12;
  fnptr_t* v13;
  fnptr_t* v14;
  fnptr_t v15;
  u8 v16;
  u1 v17;
  u32 v18;
  u32 v19;
  u32 v20;
  u32 v21;
  u32 v22; u32 v22_t;
  u1 v23;
  u8* v24;
L0: ;
  v0 = (fnptr_t**)(&(*a0).f0.f0.f0);
  *v0 = ((fnptr_t*)((u8**)(&(*(&_ZTVN14OpenVolumeMesh18PropertyStoragePtrIjEE)).f0.e[(s64)((s64)((u64)2ULL))])));
  v1 = (struct S13_class_std___Sp_counted_base**)(&(*a0).f0.f0.f1.f0.f1.f0);
  v2 = *v1;
  v3 = ((u8*)v2 == (u8*)((struct S13_class_std___Sp_counted_base*)0));
  if (v3) {
    goto L8;
  } else {
    goto L1;
  }
L1: ;
  v4 = (u32*)(&(*v2).f1);
  v5 = (u64*)v4;
  v6 = (((u64)(*v2).f1 << 0) | ((u64)(*v2).f2 << 32));
  v7 = (v6 == ((u64)4294967297ULL));
  if (v7) {
    goto L2;
  } else {
    goto L3;
  }
L2: ;
  *v4 = ((u32)0ULL);
  v8 = (u32*)(&(*v2).f2);
  *v8 = ((u32)0ULL);
  v9 = (fnptr_t**)&(*v2).f0;
  v10 = *v9;
  v11 = (fnptr_t*)(v10 + (s64)((s64)((u64)2ULL)));
  v12 = *v11;
  ((FT0)v12)(v2);
  v13 = *v9;
  v14 = (fnptr_t*)(v13 + (s64)((s64)((u64)3ULL)));
  v15 = *v14;
  ((FT0)v15)(v2);
  goto L8;
L3: ;
  v16 = *(&__libc_single_threaded);
  v17 = (v16 == ((u8)0ULL));
  if (v17) {
    goto L5;
  } else {
    goto L4;
  }
L4: ;
  v18 = *v4;
  v19 = ((u32)(v18 + ((u32)4294967295ULL)));
  *v4 = v19;
  v22 = v18;
  goto L6;
L5: ;
  v20 = *v4;
  v21 = ((u32)(v20 + ((u32)4294967295ULL)));
  *v4 = v21;
  v22 = v20;
  goto L6;
L6: ;
  v23 = (v22 == ((u32)1ULL));
  if (v23) {
    goto L7;
  } else {
    goto L8;
  }
L7: ;
  _ZNSt16_Sp_counted_baseILN9__gnu_cxx12_Lock_policyE2EE24_M_release_last_use_coldEv(v2);
  goto L8;
L8: ;
  v24 = (u8*)a0;
  _ZdlPv(v24);
  return;
}

struct S27_class_std____cxx11__basic_string* _ZNKR14OpenVolumeMesh11PropertyPtrIjNS_6Entity6VertexEE4nameB5cxx11Ev(struct S44_class_OpenVolumeMesh__PropertyPtr_431* a0) {
  struct S38_class_OpenVolumeMesh__PropertyStorageT_3** v0;
  struct S16_class_OpenVolumeMesh__PropertyStorageBas** v1;
  struct S16_class_OpenVolumeMesh__PropertyStorageBas* v2;
  struct S27_class_std____cxx11__basic_string* v3;
L0: ;
  v0 = (struct S38_class_OpenVolumeMesh__PropertyStorageT_3**)(&(*a0).f0.f0.f1.f0.f0);
  v1 = (struct S16_class_OpenVolumeMesh__PropertyStorageBas**)&(*a0).f0.f0.f1.f0.f0;
  v2 = *v1;
  v3 = (struct S27_class_std____cxx11__basic_string*)(&(*v2).f2);
  return v3;
}

void _ZThn24_N14OpenVolumeMesh11PropertyPtrIjNS_6Entity6VertexEED1Ev(struct S44_class_OpenVolumeMesh__PropertyPtr_431* a0) {
  struct S55_class_std__shared_ptr_348* v0;
  fnptr_t** v1;
  struct S55_class_std__shared_ptr_348* v2;
  struct S13_class_std___Sp_counted_base** v3;
  struct S13_class_std___Sp_counted_base* v4;
  u1 v5;
  u32* v6;
  u64* v7;
  u64 v8;
  u1 v9;
  u32* v10;
  fnptr_t** v11;
  fnptr_t* v12;
  fnptr_t* v13;
  fnptr_t v14;
  fnptr_t* v15;
  fnptr_t* v16;
  fnptr_t v17;
  u8 v18;
  u1 v19;
  u32 v20;
  u32 v21;
  u32 v22;
  u32 v23;
  u32 v24; u32 v24_t;
  u1 v25;
L0: ;
  v0 = (struct S55_class_std__shared_ptr_348*)(&(a0)[(s64)((s64)((u64)18446744073709551615ULL))].f0.f0.f1);
  v1 = (fnptr_t**)v0;
  *v1 = ((fnptr_t*)((u8**)(&(*(&_ZTVN14OpenVolumeMesh18PropertyStoragePtrIjEE)).f0.e[(s64)((s64)((u64)2ULL))])));
  v2 = (struct S55_class_std__shared_ptr_348*)(v0 + (s64)((s64)((u64)1ULL)));
  v3 = (struct S13_class_std___Sp_counted_base**)v2;
  v4 = *v3;
  v5 = ((u8*)v4 == (u8*)((struct S13_class_std___Sp_counted_base*)0));
  if (v5) {
    goto L8;
  } else {
    goto L1;
  }
L1: ;
  v6 = (u32*)(&(*v4).f1);
  v7 = (u64*)v6;
  v8 = (((u64)(*v4).f1 << 0) | ((u64)(*v4).f2 << 32));
  v9 = (v8 == ((u64)4294967297ULL));
  if (v9) {
    goto L2;
  } else {
    goto L3;
  }
L2: ;
  *v6 = ((u32)0ULL);
  v10 = (u32*)(&(*v4).f2);
  *v10 = ((u32)0ULL);
  v11 = (fnptr_t**)&(*v4).f0;
  v12 = *v11;
  v13 = (fnptr_t*)(v12 + (s64)((s64)((u64)2ULL)));
  v14 = *v13;
  ((FT0)v14)(v4);
  v15 = *v11;
  v16 = (fnptr_t*)(v15 + (s64)((s64)((u64)3ULL)));
  v17 = *v16;
  ((FT0)v17)(v4);
  goto L8;
L3: ;
  v18 = *(&__libc_single_threaded);
  v19 = (v18 == ((u8)0ULL));
  if (v19) {
    goto L5;
  } else {
    goto L4;
  }
L4: ;
  v20 = *v6;
  v21 = ((u32)(v20 + ((u32)4294967295ULL)));
  *v6 = v21;
  v24 = v20;
  goto L6;
L5: ;
  v22 = *v6;
  v23 = ((u32)(v22 + ((u32)4294967295ULL)));
  *v6 = v23;
  v24 = v22;
  goto L6;
L6: ;
  v25 = (v24 == ((u32)1ULL));
  if (v25) {
    goto L7;
  } else {
    goto L8;
  }
L7: ;
  _ZNSt16_Sp_counted_baseILN9__gnu_cxx12_Lock_policyE2EE24_M_release_last_use_coldEv(v4);
  goto L8;
L8: ;
  return;
}

void _ZThn24_N14OpenVolumeMesh11PropertyPtrIjNS_6Entity6VertexEED0Ev(struct S44_class_OpenVolumeMesh__PropertyPtr_431* a0) {
  struct S55_class_std__shared_ptr_348* v0;
  fnptr_t** v1;
  struct S55_class_std__shared_ptr_348* v2;
  struct S13_class_std___Sp_counted_base** v3;
  struct S13_class_std___Sp_counted_base* v4;
  u1 v5;
  u32* v6;
  u64* v7;
  u64 v8;
  u1 v9;
  u32* v10;
  fnptr_t** v11;
  fnptr_t* v12;
  fnptr_t* v13;
  fnptr_t v14;
  fnptr_t* v15;
  fnptr_t* v16;
  fnptr_t v17;
  u8 v18;
  u1 v19;
  u32 v20;
  u32 v21;
  u32 v22;
  u32 v23;
  u32 v24; u32 v24_t;
  u1 v25;
  u8* v26;
L0: ;
  v0 = (struct S55_class_std__shared_ptr_348*)(&(a0)[(s64)((s64)((u64)18446744073709551615ULL))].f0.f0.f1);
  v1 = (fnptr_t**)v0;
  *v1 = ((fnptr_t*)((u8**)(&(*(&_ZTVN14OpenVolumeMesh18PropertyStoragePtrIjEE)).f0.e[(s64)((s64)((u64)2ULL))])));
  v2 = (struct S55_class_std__shared_ptr_348*)(v0 + (s64)((s64)((u64)1ULL)));
  v3 = (struct S13_class_std___Sp_counted_base**)v2;
  v4 = *v3;
  v5 = ((u8*)v4 == (u8*)((struct S13_class_std___Sp_counted_base*)0));
  if (v5) {
    goto L8;
  } else {
    goto L1;
  }
L1: ;
  v6 = (u32*)(&(*v4).f1);
  v7 = (u64*)v6;
  v8 = (((u64)(*v4).f1 << 0) | ((u64)(*v4).f2 << 32));
  v9 = (v8 == ((u64)4294967297ULL));
  if (v9) {
    goto L2;
  } else {
    goto L3;
  }
L2: ;
  *v6 = ((u32)0ULL);
  v10 = (u32*)(&(*v4).f2);
  *v10 = ((u32)0ULL);
  v11 = (fnptr_t**)&(*v4).f0;
  v12 = *v11;
  v13 = (fnptr_t*)(v12 + (s64)((s64)((u64)2ULL)));
  v14 = *v13;
  ((FT0)v14)(v4);
  v15 = *v11;
  v16 = (fnptr_t*)(v15 + (s64)((s64)((u64)3ULL)));
  v17 = *v16;
  ((FT0)v17)(v4);
  goto L8;
L3: ;
  v18 = *(&__libc_single_threaded);
  v19 = (v18 == ((u8)0ULL));
  if (v19) {
    goto L5;
  } else {
    goto L4;
  }
L4: ;
  v20 = *v6;
  v21 = ((u32)(v20 + ((u32)4294967295ULL)));
  *v6 = v21;
  v24 = v20;
  goto L6;
L5: ;
  v22 = *v6;
  v23 = ((u32)(v22 + ((u32)4294967295ULL)));
  *v6 = v23;
  v24 = v22;
  goto L6;
L6: ;
  v25 = (v24 == ((u32)1ULL));
  if (v25) {
    goto L7;
  } else {
    goto L8;
  }
L7: ;
  _ZNSt16_Sp_counted_baseILN9__gnu_cxx12_Lock_policyE2EE24_M_release_last_use_coldEv(v4);
  goto L8;
L8: ;
  v26 = (u8*)v0;
  _ZdlPv(v26);
  return;
}

struct S27_class_std____cxx11__basic_string* _ZThn24_NKR14OpenVolumeMesh11PropertyPtrIjNS_6Entity6VertexEE4nameB5cxx11Ev(struct S44_class_OpenVolumeMesh__PropertyPtr_431* a0) {
  struct S70_class_std____weak_count* v0;
  struct S16_class_OpenVolumeMesh__PropertyStorageBas** v1;
  struct S16_class_OpenVolumeMesh__PropertyStorageBas* v2;
  struct S27_class_std____cxx11__basic_string* v3;
L0: ;
  v0 = (struct S70_class_std____weak_count*)(&(a0)[(s64)((s64)((u64)18446744073709551615ULL))].f0.f0.f1.f0.f1);
  v1 = (struct S16_class_OpenVolumeMesh__PropertyStorageBas**)v0;
  v2 = *v1;
  v3 = (struct S27_class_std____cxx11__basic_string*)(&(*v2).f2);
  return v3;
}

void _ZN14OpenVolumeMesh14HandleIndexingINS_6Entity6VertexENS_18PropertyStoragePtrIjEEED0Ev(struct S46_class_OpenVolumeMesh__HandleIndexing_432* a0) {
  fnptr_t** v0;
  struct S13_class_std___Sp_counted_base** v1;
  struct S13_class_std___Sp_counted_base* v2;
  u1 v3;
  u32* v4;
  u64* v5;
  u64 v6;
  u1 v7;
  u32* v8;
  fnptr_t** v9;
  fnptr_t* v10;
  fnptr_t* v11;
  fnptr_t v12;
  fnptr_t* v13;
  fnptr_t* v14;
  fnptr_t v15;
  u8 v16;
  u1 v17;
  u32 v18;
  u32 v19;
  u32 v20;
  u32 v21;
  u32 v22; u32 v22_t;
  u1 v23;
  u8* v24;
L0: ;
  v0 = (fnptr_t**)(&(*a0).f0.f0);
  *v0 = ((fnptr_t*)((u8**)(&(*(&_ZTVN14OpenVolumeMesh18PropertyStoragePtrIjEE)).f0.e[(s64)((s64)((u64)2ULL))])));
  v1 = (struct S13_class_std___Sp_counted_base**)(&(*a0).f0.f1.f0.f1.f0);
  v2 = *v1;
  v3 = ((u8*)v2 == (u8*)((struct S13_class_std___Sp_counted_base*)0));
  if (v3) {
    goto L8;
  } else {
    goto L1;
  }
L1: ;
  v4 = (u32*)(&(*v2).f1);
  v5 = (u64*)v4;
  v6 = (((u64)(*v2).f1 << 0) | ((u64)(*v2).f2 << 32));
  v7 = (v6 == ((u64)4294967297ULL));
  if (v7) {
    goto L2;
  } else {
    goto L3;
  }
L2: ;
  *v4 = ((u32)0ULL);
  v8 = (u32*)(&(*v2).f2);
  *v8 = ((u32)0ULL);
  v9 = (fnptr_t**)&(*v2).f0;
  v10 = *v9;
  v11 = (fnptr_t*)(v10 + (s64)((s64)((u64)2ULL)));
  v12 = *v11;
  ((FT0)v12)(v2);
  v13 = *v9;
  v14 = (fnptr_t*)(v13 + (s64)((s64)((u64)3ULL)));
  v15 = *v14;
  ((FT0)v15)(v2);
  goto L8;
L3: ;
  v16 = *(&__libc_single_threaded);
  v17 = (v16 == ((u8)0ULL));
  if (v17) {
    goto L5;
  } else {
    goto L4;
  }
L4: ;
  v18 = *v4;
  v19 = ((u32)(v18 + ((u32)4294967295ULL)));
  *v4 = v19;
  v22 = v18;
  goto L6;
L5: ;
  v20 = *v4;
  v21 = ((u32)(v20 + ((u32)4294967295ULL)));
  *v4 = v21;
  v22 = v20;
  goto L6;
L6: ;
  v23 = (v22 == ((u32)1ULL));
  if (v23) {
    goto L7;
  } else {
    goto L8;
  }
L7: ;
  _ZNSt16_Sp_counted_baseILN9__gnu_cxx12_Lock_policyE2EE24_M_release_last_use_coldEv(v2);
  goto L8;
L8: ;
  v24 = (u8*)a0;
  _ZdlPv(v24);
  return;
}

void _ZNSt12__shared_ptrIN14OpenVolumeMesh16PropertyStorageTIjEELN9__gnu_cxx12_Lock_policyE2EEC2ISaIvEJRKS2_EEESt20_Sp_alloc_shared_tagIT_EDpOT0_(struct S43_class_std____shared_ptr_349* a0, struct S0_class_std__ios_base__Init* a1, struct S38_class_OpenVolumeMesh__PropertyStorageT_3* a2) {
  struct S38_class_OpenVolumeMesh__PropertyStorageT_3** v0;
  u8* v1;
  struct S47_class_std___Sp_counted_ptr_inplace_70* v2;
  fnptr_t** v3;
  u32* v4;
  u32* v5;
  struct S71_struct___gnu_cxx____aligned_buffer_71* v6;
  struct S38_class_OpenVolumeMesh__PropertyStorageT_3* v7;
  struct S63 v8;
  struct S13_class_std___Sp_counted_base* v9;
  struct S13_class_std___Sp_counted_base** v10;
  struct S71_struct___gnu_cxx____aligned_buffer_71** v11;
  u8* v12;
  u8* v13;
  struct S13_class_std___Sp_counted_base** v14;
  struct S13_class_std___Sp_counted_base* v15;
  u1 v16;
  u32* v17;
  u32 v18;
  u1 v19;
  struct S71_struct___gnu_cxx____aligned_buffer_71** v20;
  struct S13_class_std___Sp_counted_base** v21;
  struct S13_class_std___Sp_counted_base* v22;
  u1 v23;
  u32* v24;
  u8 v25;
  u1 v26;
  u32 v27;
  u32 v28;
  u32 v29;
  u32 v30;
  struct S13_class_std___Sp_counted_base* v31;
  u1 v32;
  u32* v33;
  u8 v34;
  u1 v35;
  u32 v36;
  u32 v37;
  u32 v38;
  u32 v39;
  u32 v40; u32 v40_t;
  u1 v41;
  fnptr_t** v42;
  fnptr_t* v43;
  fnptr_t* v44;
  fnptr_t v45;
L0: ;
  v0 = (struct S38_class_OpenVolumeMesh__PropertyStorageT_3**)(&(*a0).f0);
  *v0 = ((struct S38_class_OpenVolumeMesh__PropertyStorageT_3*)0);
  v1 = (u8*)((((u64)152ULL) % sizeof(struct S47_class_std___Sp_counted_ptr_inplace_70) == 0) ? __CPROVER_allocate(sizeof(struct S47_class_std___Sp_counted_ptr_inplace_70) * (((u64)152ULL) / sizeof(struct S47_class_std___Sp_counted_ptr_inplace_70)), 0) : __CPROVER_allocate(((u64)152ULL), 0));
  v_alloc_note((u8*)v1);
  v2 = (struct S47_class_std___Sp_counted_ptr_inplace_70*)v1;
  v3 = (fnptr_t**)(&(*v2).f0.f0);
  *v3 = ((fnptr_t*)((u8**)(&(*(&_ZTVSt16_Sp_counted_baseILN9__gnu_cxx12_Lock_policyE2EE)).f0.e[(s64)((s64)((u64)2ULL))])));
  v4 = (u32*)(&(*v2).f0.f1);
  *v4 = ((u32)1ULL);
  v5 = (u32*)(&(*v2).f0.f2);
  *v5 = ((u32)1ULL);
  *v3 = ((fnptr_t*)((u8**)(&(*(&_ZTVSt23_Sp_counted_ptr_inplaceIN14OpenVolumeMesh16PropertyStorageTIjEESaIvELN9__gnu_cxx12_Lock_policyE2EE)).f0.e[(s64)((s64)((u64)2ULL))])));
  v6 = (struct S71_struct___gnu_cxx____aligned_buffer_71*)(&(*v2).f1.f0);
  v7 = (struct S38_class_OpenVolumeMesh__PropertyStorageT_3*)v6;
  _ZSt10_ConstructIN14OpenVolumeMesh16PropertyStorageTIjEEJRKS2_EEvPT_DpOT0_(v7, a2);
  if (v_exc) {
    goto L1;
  }
  goto L2;
L1: ;
  v8.f0 = v_exc_obj;
  v8.f1 = 0;
  v_exc = 0;
  _ZdlPv(v1);
  v_exc = 1; return;
L2: ;
  v9 = (struct S13_class_std___Sp_counted_base*)(&(*v2).f0);
  v10 = (struct S13_class_std___Sp_counted_base**)(&(*a0).f1.f0);
  *v10 = v9;
  v11 = (struct S71_struct___gnu_cxx____aligned_buffer_71**)&(*a0).f0;
  *v11 = v6;
  v12 = (u8*)(&(*v2).f1.f0.f0.f0.f1.f0.f0.f0);
  v13 = (u8*)(&(*v2).f1.f0.f0.f0.f1.f0.f0.f1.f0);
  v14 = (struct S13_class_std___Sp_counted_base**)v13;
  v15 = *v14;
  v16 = ((u8*)v15 == (u8*)((struct S13_class_std___Sp_counted_base*)0));
  if (v16) {
    goto L4;
  } else {
    goto L3;
  }
L3: ;
  v17 = (u32*)(&(*v15).f1);
  v18 = *v17;
  v19 = (v18 == ((u32)0ULL));
  if (v19) {
    goto L4;
  } else {
    goto L15;
  }
L4: ;
  v20 = (struct S71_struct___gnu_cxx____aligned_buffer_71**)v12;
  *v20 = v6;
  v21 = (struct S13_class_std___Sp_counted_base**)(&(*a0).f1.f0);
  v22 = *v21;
  v23 = ((u8*)v22 == (u8*)((struct S13_class_std___Sp_counted_base*)0));
  if (v23) {
    goto L8;
  } else {
    goto L5;
  }
L5: ;
  v24 = (u32*)(&(*v22).f2);
  v25 = *(&__libc_single_threaded);
  v26 = (v25 == ((u8)0ULL));
  if (v26) {
    goto L7;
  } else {
    goto L6;
  }
L6: ;
  v27 = *v24;
  v28 = ((u32)(v27 + ((u32)1ULL)));
  *v24 = v28;
  goto L8;
L7: ;
  v29 = *v24;
  v30 = ((u32)(v29 + ((u32)1ULL)));
  *v24 = v30;
  goto L8;
L8: ;
  v31 = *v14;
  v32 = ((u8*)v31 == (u8*)((struct S13_class_std___Sp_counted_base*)0));
  if (v32) {
    goto L14;
  } else {
    goto L9;
  }
L9: ;
  v33 = (u32*)(&(*v31).f2);
  v34 = *(&__libc_single_threaded);
  v35 = (v34 == ((u8)0ULL));
  if (v35) {
    goto L11;
  } else {
    goto L10;
  }
L10: ;
  v36 = *v33;
  v37 = ((u32)(v36 + ((u32)4294967295ULL)));
  *v33 = v37;
  v40 = v36;
  goto L12;
L11: ;
  v38 = *v33;
  v39 = ((u32)(v38 + ((u32)4294967295ULL)));
  *v33 = v39;
  v40 = v38;
  goto L12;
L12: ;
  v41 = (v40 == ((u32)1ULL));
  if (v41) {
    goto L13;
  } else {
    goto L14;
  }
L13: ;
  v42 = (fnptr_t**)&(*v31).f0;
  v43 = *v42;
  v44 = (fnptr_t*)(v43 + (s64)((s64)((u64)3ULL)));
  v45 = *v44;
  ((FT0)v45)(v31);
  goto L14;
L14: ;
  *v14 = v22;
  goto L15;
L15: ;
  return;
}

void _ZSt10_ConstructIN14OpenVolumeMesh16PropertyStorageTIjEEJRKS2_EEvPT_DpOT0_(struct S38_class_OpenVolumeMesh__PropertyStorageT_3* a0, struct S38_class_OpenVolumeMesh__PropertyStorageT_3* a1) {
  struct S16_class_OpenVolumeMesh__PropertyStorageBas* v0;
  struct S16_class_OpenVolumeMesh__PropertyStorageBas* v1;
  fnptr_t** v2;
  struct S40_class_std__vector_322* v3;
  u32** v4;
  u32* v5;
  u32** v6;
  u32* v7;
  u64 v8;
  u64 v9;
  u64 v10;
  u64 v11;
  u8* v12;
  u1 v13;
  u1 v14;
  u1 v15;
  u8* v16;
  u32* v17;
  u32* v18; u32* v18_t;
  u32** v19;
  u32** v20;
  u32* v21;
  u32** v22;
  u32* v23;
  u32* v24;
  u64 v25;
  u64 v26;
  u64 v27;
  u1 v28;
  u8* v29;
  u8* v30;
  struct S63 v31;
  fnptr_t** v32;
  u8** v33;
  u8* v34;
  struct S66_union_anon* v35;
  u8* v36;
  u1 v37;
  u8** v38;
  u8* v39;
  struct S66_union_anon* v40;
  u8* v41;
  u1 v42;
  struct S15_class_OpenVolumeMesh__detail__Tracked* v43;
  struct S13_class_std___Sp_counted_base** v44;
  struct S13_class_std___Sp_counted_base* v45;
  u1 v46;
  u32* v47;
  u8 v48;
  u1 v49;
  u32 v50;
  u32 v51;
  u32 v52;
  u32 v53;
  u32 v54; u32 v54_t;
  u1 v55;
  fnptr_t** v56;
  fnptr_t* v57;
  fnptr_t* v58;
  fnptr_t v59;
  u64 v60;
  u32* v61;
  u32* v62;
  u32* v63;
  u32 v64;
L0: ;
  v0 = (struct S16_class_OpenVolumeMesh__PropertyStorageBas*)a0;
  v1 = (struct S16_class_OpenVolumeMesh__PropertyStorageBas*)a1;
  _ZN14OpenVolumeMesh19PropertyStorageBaseC2ERKS0_(v0, v1);
  if (v_exc) return;
  v2 = (fnptr_t**)(&(*a0).f0.f0.f0);
  *v2 = ((fnptr_t*)((u8**)(&(*(&_ZTVN14OpenVolumeMesh16PropertyStorageTIjEE)).f0.e[(s64)((s64)((u64)2ULL))])));
  v3 = (struct S40_class_std__vector_322*)(&(*a0).f2);
  v4 = (u32**)(&(*a1).f2.f0.f0.f0.f1);
  v5 = *v4;
  v6 = (u32**)(&(*a1).f2.f0.f0.f0.f0);
  v7 = *v6;
  v8 = ((u64)((u64)v5));
  v9 = ((u64)((u64)v7));
  v10 = v_pdiff((u8*)v5, (u8*)v7);
  v11 = ((u64)(((s64)v10) >> ((u64)2ULL)));
  v12 = (u8*)v3;
  (*a0).f2.f0.f0.f0.f0 = (u32*)0;
  (*a0).f2.f0.f0.f0.f1 = (u32*)0;
  (*a0).f2.f0.f0.f0.f2 = (u32*)0;
  v13 = (v10 == ((u64)0ULL));
  if (v13) {
    v18 = ((u32*)0);
    goto L9;
  } else {
    goto L1;
  }
L1: ;
  v14 = (v10 > ((u64)9223372036854775804ULL));
  if (v14) {
    goto L2;
  } else {
    goto L7;
  }
L2: ;
  v15 = (((s64)v10) < ((s64)((u64)0ULL)));
  if (v15) {
    goto L3;
  } else {
    goto L5;
  }
L3: ;
  _ZSt28__throw_bad_array_new_lengthv();
  if (v_exc) {
    goto L11;
  }
  goto L4;
L4: ;
  __CPROVER_assume(0);
L5: ;
  _ZSt17__throw_bad_allocv();
  if (v_exc) {
    goto L11;
  }
  goto L6;
L6: ;
  __CPROVER_assume(0);
L7: ;
  v16 = (u8*)((v10 % sizeof(u32) == 0) ? __CPROVER_allocate(sizeof(u32) * (v10 / sizeof(u32)), 0) : __CPROVER_allocate(v10, 0));
  if (v_exc) {
    goto L11;
  }
  goto L8;
L8: ;
  v17 = (u32*)v16;
  v18 = v17;
  goto L9;
L9: ;
  v19 = (u32**)(&(*v3).f0.f0.f0.f0);
  *v19 = v18;
  v20 = (u32**)(&(*a0).f2.f0.f0.f0.f1);
  *v20 = v18;
  v21 = (u32*)(v18 + (s64)((s64)v11));
  v22 = (u32**)(&(*a0).f2.f0.f0.f0.f2);
  *v22 = v21;
  v23 = *v6;
  v24 = *v4;
  v25 = ((u64)((u64)v24));
  v26 = ((u64)((u64)v23));
  v27 = v_pdiff((u8*)v24, (u8*)v23);
  v28 = (v27 == ((u64)0ULL));
  if (v28) {
    goto L22;
  } else {
    goto L10;
  }
L10: ;
  v29 = (u8*)v18;
  v30 = (u8*)v23;
  { u32* _d = v18; u32* _s = v23; u64 _n = (u64)v27 / 4; __CPROVER_assert((u64)v27 % 4 == 0, "typed memcpy size");
    if (_n) { if (__CPROVER_same_object(_d, _s) && __CPROVER_POINTER_OFFSET(_d) > __CPROVER_POINTER_OFFSET(_s)) { for (u64 _i = _n; _i > 0; --_i) _d[_i-1] = _s[_i-1]; } else { for (u64 _i = 0; _i < _n; ++_i) _d[_i] = _s[_i]; } } }
  goto L22;
L11: ;
  v31.f0 = v_exc_obj;
  v31.f1 = 0;
  v_exc = 0;
  v32 = (fnptr_t**)(&(*a0).f0.f0.f0);
  *v32 = ((fnptr_t*)((u8**)(&(*(&_ZTVN14OpenVolumeMesh19PropertyStorageBaseE)).f0.e[(s64)((s64)((u64)2ULL))])));
  v33 = (u8**)(&(*a0).f0.f3.f0.f0);
  v34 = *v33;
  v35 = (struct S66_union_anon*)(&(*a0).f0.f3.f2);
  v36 = (u8*)v35;
  v37 = ((u8*)v34 == (u8*)v36);
  if (v37) {
    goto L13;
  } else {
    goto L12;
  }
L12: ;
  _ZdlPv(v34);
  goto L13;
L13: ;
  v38 = (u8**)(&(*a0).f0.f2.f0.f0);
  v39 = *v38;
  v40 = (struct S66_union_anon*)(&(*a0).f0.f2.f2);
  v41 = (u8*)v40;
  v42 = ((u8*)v39 == (u8*)v41);
  if (v42) {
    goto L15;
  } else {
    goto L14;
  }
L14: ;
  _ZdlPv(v39);
  goto L15;
L15: ;
  v43 = (struct S15_class_OpenVolumeMesh__detail__Tracked*)(&(*a0).f0.f0);
  _ZN14OpenVolumeMesh6detail7TrackedINS_19PropertyStorageBaseEED2Ev(v43);
  v44 = (struct S13_class_std___Sp_counted_base**)(&(*a0).f0.f1.f0.f0.f1.f0);
  v45 = *v44;
  v46 = ((u8*)v45 == (u8*)((struct S13_class_std___Sp_counted_base*)0));
  if (v46) {
    goto L21;
  } else {
    goto L16;
  }
L16: ;
  v47 = (u32*)(&(*v45).f2);
  v48 = *(&__libc_single_threaded);
  v49 = (v48 == ((u8)0ULL));
  if (v49) {
    goto L18;
  } else {
    goto L17;
  }
L17: ;
  v50 = *v47;
  v51 = ((u32)(v50 + ((u32)4294967295ULL)));
  *v47 = v51;
  v54 = v50;
  goto L19;
L18: ;
  v52 = *v47;
  v53 = ((u32)(v52 + ((u32)4294967295ULL)));
  *v47 = v53;
  v54 = v52;
  goto L19;
L19: ;
  v55 = (v54 == ((u32)1ULL));
  if (v55) {
    goto L20;
  } else {
    goto L21;
  }
L20: ;
  v56 = (fnptr_t**)&(*v45).f0;
  v57 = *v56;
  v58 = (fnptr_t*)(v57 + (s64)((s64)((u64)3ULL)));
  v59 = *v58;
  ((FT0)v59)(v45);
  goto L21;
L21: ;
  v_exc = 1; return;
L22: ;
  v60 = ((u64)(((s64)v27) >> ((u64)2ULL)));
  v61 = (u32*)(v18 + (s64)((s64)v60));
  *v20 = v61;
  v62 = (u32*)(&(*a0).f3);
  v63 = (u32*)(&(*a1).f3);
  v64 = *v63;
  *v62 = v64;
  return;
}

void _ZNSt23_Sp_counted_ptr_inplaceIN14OpenVolumeMesh16PropertyStorageTIjEESaIvELN9__gnu_cxx12_Lock_policyE2EED0Ev(struct S47_class_std___Sp_counted_ptr_inplace_70* a0) {
  u8* v0;
L0: ;
  v0 = (u8*)a0;
  _ZdlPv(v0);
  return;
}

void _ZNSt23_Sp_counted_ptr_inplaceIN14OpenVolumeMesh16PropertyStorageTIjEESaIvELN9__gnu_cxx12_Lock_policyE2EE10_M_disposeEv(struct S47_class_std___Sp_counted_ptr_inplace_70* a0) {
  struct S71_struct___gnu_cxx____aligned_buffer_71* v0;
  struct S38_class_OpenVolumeMesh__PropertyStorageT_3* v1;
  fnptr_t** v2;
  fnptr_t* v3;
  fnptr_t v4;
L0: ;
  v0 = (struct S71_struct___gnu_cxx____aligned_buffer_71*)(&(*a0).f1.f0);
  v1 = (struct S38_class_OpenVolumeMesh__PropertyStorageT_3*)&(*a0).f1.f0.f0;
  v2 = (fnptr_t**)&(*a0).f1.f0.f0.f0.f0.f0;
  v3 = *v2;
  v4 = *v3;
  ((FT3)v4)(v1);
  return;
}

void _ZNSt23_Sp_counted_ptr_inplaceIN14OpenVolumeMesh16PropertyStorageTIjEESaIvELN9__gnu_cxx12_Lock_policyE2EE10_M_destroyEv(struct S47_class_std___Sp_counted_ptr_inplace_70* a0) {
  u8* v0;
L0: ;
  v0 = (u8*)a0;
  _ZdlPv(v0);
  return;
}

u8* _ZNSt23_Sp_counted_ptr_inplaceIN14OpenVolumeMesh16PropertyStorageTIjEESaIvELN9__gnu_cxx12_Lock_policyE2EE14_M_get_deleterERKSt9type_info(struct S47_class_std___Sp_counted_ptr_inplace_70* a0, struct S48_class_std__type_info* a1) {
  u1 v0;
  u8** v1;
  u8* v2;
  u1 v3;
  u8 v4;
  u1 v5;
  u32 v6;
  u1 v7;
  u8* v8;
  u8* v9; u8* v9_t;
L0: ;
  v0 = ((u8*)a1 == (u8*)((struct S48_class_std__type_info*)(&_ZZNSt19_Sp_make_shared_tag5_S_tiEvE5__tag)));
  if (v0) {
    goto L4;
  } else {
    goto L1;
  }
L1: ;
  v1 = (u8**)(&(*a1).f1);
  v2 = *v1;
  v3 = ((u8*)v2 == (u8*)((u8*)(&(*(&_ZTSSt19_Sp_make_shared_tag)).e[(s64)((s64)((u64)0ULL))])));
  if (v3) {
    goto L4;
  } else {
    goto L2;
  }
L2: ;
  v4 = *v2;
  v5 = (v4 == ((u8)42ULL));
  if (v5) {
    v9 = ((u8*)0);
    goto L5;
  } else {
    goto L3;
  }
L3: ;
  v6 = strcmp(v2, ((u8*)(&(*(&_ZTSSt19_Sp_make_shared_tag)).e[(s64)((s64)((u64)0ULL))])));
  v7 = (v6 == ((u32)0ULL));
  if (v7) {
    goto L4;
  } else {
    v9 = ((u8*)0);
    goto L5;
  }
L4: ;
  v8 = (u8*)(&(*a0).f1.f0.f0.f0.f0.f0);
  v9 = v8;
  goto L5;
L5: ;
  return v9;
}

void _ZNSt6vectorIjSaIjEE17_M_realloc_insertIJRKjEEEvN9__gnu_cxx17__normal_iteratorIPjS1_EEDpOT_(struct S40_class_std__vector_322* a0, u32* a1, u32* a2) {
  u32** v0;
  u32* v1;
  u32** v2;
  u32* v3;
  u64 v4;
  u64 v5;
  u64 v6;
  u64 v7;
  u1 v8;
  u1 v9;
  u64 v10;
  u64 v11;
  u1 v12;
  u1 v13;
  u1 v14;
  u64 v15;
  u64 v16;
  u64 v17;
  u64 v18;
  u1 v19;
  u1 v20;
  u1 v21;
  u64 v22;
  u8* v23;
  u32* v24;
  u32* v25; u32* v25_t;
  u32* v26;
  u32 v27;
  u1 v28;
  u8* v29;
  u8* v30;
  u32* v31;
  u64 v32;
  u1 v33;
  u8* v34;
  u8* v35;
  u1 v36;
  u8* v37;
  u32** v38;
  u64 v39;
  u32* v40;
  u32* v41;
L0: ;
  v0 = (u32**)(&(*a0).f0.f0.f0.f1);
  v1 = *v0;
  v2 = (u32**)(&(*a0).f0.f0.f0.f0);
  v3 = *v2;
  v4 = ((u64)((u64)v1));
  v5 = ((u64)((u64)v3));
  v6 = v_pdiff((u8*)v1, (u8*)v3);
  v7 = ((u64)(((s64)v6) >> ((u64)2ULL)));
  v8 = (v6 == ((u64)9223372036854775804ULL));
  if (v8) {
    goto L1;
  } else {
    goto L2;
  }
L1: ;
  _ZSt20__throw_length_errorPKc(((u8*)(&(*(&_str_9)).e[(s64)((s64)((u64)0ULL))])));
  if (v_exc) return;
  __CPROVER_assume(0);
L2: ;
  v9 = (v6 == ((u64)0ULL));
  v10 = (v9 ? ((u64)1ULL) : v7);
  v11 = ((u64)(v10 + v7));
  v12 = (v11 < v7);
  v13 = (v11 > ((u64)2305843009213693951ULL));
  v14 = ((u1)((v12 | v13)&1));
  v15 = (v14 ? ((u64)2305843009213693951ULL) : v11);
  v16 = ((u64)((u64)a1));
  v17 = v_pdiff((u8*)a1, (u8*)v3);
  v18 = ((u64)(((s64)v17) >> ((u64)2ULL)));
  v19 = (v15 == ((u64)0ULL));
  if (v19) {
    v25 = ((u32*)0);
    goto L8;
  } else {
    goto L3;
  }
L3: ;
  v20 = (v15 > ((u64)2305843009213693951ULL));
  if (v20) {
    goto L4;
  } else {
    goto L7;
  }
L4: ;
  v21 = (v15 > ((u64)4611686018427387903ULL));
  if (v21) {
    goto L5;
  } else {
    goto L6;
  }
L5: ;
  _ZSt28__throw_bad_array_new_lengthv();
  if (v_exc) return;
  __CPROVER_assume(0);
L6: ;
  _ZSt17__throw_bad_allocv();
  if (v_exc) return;
  __CPROVER_assume(0);
L7: ;
  v22 = ((u64)(v15 << ((u64)2ULL)));
  v23 = (u8*)((v22 % sizeof(u32) == 0) ? __CPROVER_allocate(sizeof(u32) * (v22 / sizeof(u32)), 0) : __CPROVER_allocate(v22, 0));
  v24 = (u32*)v23;
  v25 = v24;
  goto L8;
L8: ;
  v26 = (u32*)(v25 + (s64)((s64)v18));
  v27 = *a2;
  *v26 = v27;
  v28 = (((s64)v17) > ((s64)((u64)0ULL)));
  if (v28) {
    goto L9;
  } else {
    goto L10;
  }
L9: ;
  v29 = (u8*)v25;
  v30 = (u8*)v3;
  { u32* _d = v25; u32* _s = v3; u64 _n = (u64)v17 / 4; __CPROVER_assert((u64)v17 % 4 == 0, "typed memcpy size");
    if (_n) { if (__CPROVER_same_object(_d, _s) && __CPROVER_POINTER_OFFSET(_d) > __CPROVER_POINTER_OFFSET(_s)) { for (u64 _i = _n; _i > 0; --_i) _d[_i-1] = _s[_i-1]; } else { for (u64 _i = 0; _i < _n; ++_i) _d[_i] = _s[_i]; } } }
  goto L10;
L10: ;
  v31 = (u32*)(v26 + (s64)((s64)((u64)1ULL)));
  v32 = v_pdiff((u8*)v1, (u8*)a1);
  v33 = (((s64)v32) > ((s64)((u64)0ULL)));
  if (v33) {
    goto L11;
  } else {
    goto L12;
  }
L11: ;
  v34 = (u8*)v31;
  v35 = (u8*)a1;
  { u32* _d = v31; u32* _s = a1; u64 _n = (u64)v32 / 4; __CPROVER_assert((u64)v32 % 4 == 0, "typed memcpy size");
    if (_n) { if (__CPROVER_same_object(_d, _s) && __CPROVER_POINTER_OFFSET(_d) > __CPROVER_POINTER_OFFSET(_s)) { for (u64 _i = _n; _i > 0; --_i) _d[_i-1] = _s[_i-1]; } else { for (u64 _i = 0; _i < _n; ++_i) _d[_i] = _s[_i]; } } }
  goto L12;
L12: ;
  v36 = ((u8*)v3 == (u8*)((u32*)0));
  if (v36) {
    goto L14;
  } else {
    goto L13;
  }
L13: ;
  v37 = (u8*)v3;
  _ZdlPv(v37);
  goto L14;
L14: ;
  v38 = (u32**)(&(*a0).f0.f0.f0.f2);
  v39 = ((u64)(((s64)v32) >> ((u64)2ULL)));
  v40 = (u32*)(v31 + (s64)((s64)v39));
  *v2 = v25;
  *v0 = v40;
  v41 = (u32*)(v25 + (s64)((s64)v15));
  *v38 = v41;
  return;
}

void _ZN14OpenVolumeMesh2IO14PropertyCodecs14register_codecINS0_6Codecs15SimplePropCodecINS3_9PrimitiveIjEEEEEEvRKNSt7__cxx1112basic_stringIcSt11char_traitsIcESaIcEEE(struct S37_class_OpenVolumeMesh__IO__PropertyCodecs* a0, struct S27_class_std____cxx11__basic_string* a1) {
  struct S72_class_std__shared_ptr* v0; struct S72_class_std__shared_ptr v0_m;
  struct S27_class_std____cxx11__basic_string* v1; struct S27_class_std____cxx11__basic_string v1_m;
  struct S73_class_std__shared_ptr_22* v2; struct S73_class_std__shared_ptr_22 v2_m;
  u8* v3;
  struct S60_class_OpenVolumeMesh__IO__PropertyEncode** v4;
  u8* v5;
  struct S49_class_std___Sp_counted_ptr_inplace* v6;
  struct S63 v7; struct S63 v7_t;
  struct S63 v8;
  struct S13_class_std___Sp_counted_base* v9;
  struct S13_class_std___Sp_counted_base** v10;
  struct S74_struct___gnu_cxx____aligned_buffer* v11;
  struct S74_struct___gnu_cxx____aligned_buffer** v12;
  u8* v13;
  struct S26_class_std__map* v14;
  struct S25_class_std__shared_ptr_19* v15;
  struct S36_class_OpenVolumeMesh__IO__PropertyEncode** v16;
  struct S36_class_OpenVolumeMesh__IO__PropertyEncode* v17;
  struct S13_class_std___Sp_counted_base* v18;
  struct S36_class_OpenVolumeMesh__IO__PropertyEncode** v19;
  struct S13_class_std___Sp_counted_base** v20;
  struct S13_class_std___Sp_counted_base* v21;
  u1 v22;
  u32* v23;
  u64* v24;
  u64 v25;
  u1 v26;
  u32* v27;
  fnptr_t** v28;
  fnptr_t* v29;
  fnptr_t* v30;
  fnptr_t v31;
  fnptr_t* v32;
  fnptr_t* v33;
  fnptr_t v34;
  u8 v35;
  u1 v36;
  u32 v37;
  u32 v38;
  u32 v39;
  u32 v40;
  u32 v41; u32 v41_t;
  u1 v42;
  u8** v43;
  u8* v44;
  struct S66_union_anon* v45;
  u8* v46;
  u1 v47;
  struct S13_class_std___Sp_counted_base** v48;
  struct S13_class_std___Sp_counted_base* v49;
  u1 v50;
  u32* v51;
  u64* v52;
  u64 v53;
  u1 v54;
  u32* v55;
  fnptr_t** v56;
  fnptr_t* v57;
  fnptr_t* v58;
  fnptr_t v59;
  fnptr_t* v60;
  fnptr_t* v61;
  fnptr_t v62;
  u8 v63;
  u1 v64;
  u32 v65;
  u32 v66;
  u32 v67;
  u32 v68;
  u32 v69; u32 v69_t;
  u1 v70;
  u8* v71;
  struct S19_class_std__bad_cast** v72;
  u8* v73;
  struct S59_class_std___Sp_counted_ptr_inplace_41* v74;
  fnptr_t** v75;
  u32* v76;
  u32* v77;
  struct S75_struct___gnu_cxx____aligned_buffer_42* v78;
  u64* v79;
  fnptr_t** v80;
  struct S13_class_std___Sp_counted_base* v81;
  struct S13_class_std___Sp_counted_base** v82;
  struct S75_struct___gnu_cxx____aligned_buffer_42** v83;
  struct S26_class_std__map* v84;
  struct S28_class_std__shared_ptr_25* v85;
  struct S21_class_OpenVolumeMesh__IO__PropertyDecode** v86;
  struct S21_class_OpenVolumeMesh__IO__PropertyDecode* v87;
  struct S13_class_std___Sp_counted_base* v88;
  struct S21_class_OpenVolumeMesh__IO__PropertyDecode** v89;
  struct S13_class_std___Sp_counted_base** v90;
  struct S13_class_std___Sp_counted_base* v91;
  u1 v92;
  u32* v93;
  u64* v94;
  u64 v95;
  u1 v96;
  u32* v97;
  fnptr_t** v98;
  fnptr_t* v99;
  fnptr_t* v100;
  fnptr_t v101;
  fnptr_t* v102;
  fnptr_t* v103;
  fnptr_t v104;
  u8 v105;
  u1 v106;
  u32 v107;
  u32 v108;
  u32 v109;
  u32 v110;
  u32 v111; u32 v111_t;
  u1 v112;
  struct S13_class_std___Sp_counted_base** v113;
  struct S13_class_std___Sp_counted_base* v114;
  u1 v115;
  u32* v116;
  u64* v117;
  u64 v118;
  u1 v119;
  u32* v120;
  fnptr_t** v121;
  fnptr_t* v122;
  fnptr_t* v123;
  fnptr_t v124;
  fnptr_t* v125;
  fnptr_t* v126;
  fnptr_t v127;
  u8 v128;
  u1 v129;
  u32 v130;
  u32 v131;
  u32 v132;
  u32 v133;
  u32 v134; u32 v134_t;
  u1 v135;
  struct S63 v136;
  struct S63 v137;
  u8** v138;
  u8* v139;
  struct S66_union_anon* v140;
  u8* v141;
  u1 v142;
  struct S63 v143; struct S63 v143_t;
  struct S50_class_std____shared_ptr* v144;
  struct S63 v145;
  struct S51_class_std____shared_ptr_23* v146;
L0: ;
  v0 = &v0_m;
  v1 = &v1_m;
  v2 = &v2_m;
  v3 = (u8*)v0;
  v4 = (struct S60_class_OpenVolumeMesh__IO__PropertyEncode**)(&(*v0).f0.f0);
  *v4 = ((struct S60_class_OpenVolumeMesh__IO__PropertyEncode*)0);
  v5 = (u8*)((((u64)56ULL) % sizeof(struct S49_class_std___Sp_counted_ptr_inplace) == 0) ? __CPROVER_allocate(sizeof(struct S49_class_std___Sp_counted_ptr_inplace) * (((u64)56ULL) / sizeof(struct S49_class_std___Sp_counted_ptr_inplace)), 0) : __CPROVER_allocate(((u64)56ULL), 0));
  v_alloc_note((u8*)v5);
  v6 = (struct S49_class_std___Sp_counted_ptr_inplace*)v5;
  _ZNSt23_Sp_counted_ptr_inplaceIN14OpenVolumeMesh2IO16PropertyEncoderTIjNS1_6Codecs15SimplePropCodecINS3_9PrimitiveIjEEEEEESaIvELN9__gnu_cxx12_Lock_policyE2EEC2IJRKNSt7__cxx1112basic_stringIcSt11char_traitsIcESaIcEEEEEES9_DpOT_(v6, a1);
  if (v_exc) {
    goto L2;
  }
  goto L3;
L1: ;
  v_exc = 1; return;
L2: ;
  v8.f0 = v_exc_obj;
  v8.f1 = 0;
  v_exc = 0;
  _ZdlPv(v5);
  v7 = v8;
  goto L1;
L3: ;
  v9 = (struct S13_class_std___Sp_counted_base*)(&(*v6).f0);
  v10 = (struct S13_class_std___Sp_counted_base**)(&(*v0).f0.f1.f0);
  *v10 = v9;
  v11 = (struct S74_struct___gnu_cxx____aligned_buffer*)(&(*v6).f1.f0);
  v12 = (struct S74_struct___gnu_cxx____aligned_buffer**)&(*v0).f0.f0;
  *v12 = v11;
  v13 = (u8*)v1;
  _ZN14OpenVolumeMesh6detail18internal_type_nameB5cxx11ERKSt9type_info(v1, ((struct S48_class_std__type_info*)(&_ZTIj)));
  if (v_exc) {
    goto L41;
  }
  goto L4;
L4: ;
  v14 = (struct S26_class_std__map*)(&(*a0).f1);
  v15 = _ZNSt3mapINSt7__cxx1112basic_stringIcSt11char_traitsIcESaIcEEESt10shared_ptrIN14OpenVolumeMesh2IO19PropertyEncoderBaseEESt4lessIS5_ESaISt4pairIKS5_SA_EEEixEOS5_(v14, v1);
  if (v_exc) {
    goto L42;
  }
  goto L5;
L5: ;
  v16 = (struct S36_class_OpenVolumeMesh__IO__PropertyEncode**)&(*v0).f0.f0;
  v17 = *v16;
  v18 = *v10;
  v19 = (struct S36_class_OpenVolumeMesh__IO__PropertyEncode**)(&(*v15).f0.f0);
  (*v0).f0.f0 = (struct S60_class_OpenVolumeMesh__IO__PropertyEncode*)0;
  (*v0).f0.f1.f0 = (struct S13_class_std___Sp_counted_base*)0;
  *v19 = v17;
  v20 = (struct S13_class_std___Sp_counted_base**)(&(*v15).f0.f1.f0);
  v21 = *v20;
  *v20 = v18;
  v22 = ((u8*)v21 == (u8*)((struct S13_class_std___Sp_counted_base*)0));
  if (v22) {
    goto L13;
  } else {
    goto L6;
  }
L6: ;
  v23 = (u32*)(&(*v21).f1);
  v24 = (u64*)v23;
  v25 = (((u64)(*v21).f1 << 0) | ((u64)(*v21).f2 << 32));
  v26 = (v25 == ((u64)4294967297ULL));
  if (v26) {
    goto L7;
  } else {
    goto L8;
  }
L7: ;
  *v23 = ((u32)0ULL);
  v27 = (u32*)(&(*v21).f2);
  *v27 = ((u32)0ULL);
  v28 = (fnptr_t**)&(*v21).f0;
  v29 = *v28;
  v30 = (fnptr_t*)(v29 + (s64)((s64)((u64)2ULL)));
  v31 = *v30;
  ((FT0)v31)(v21);
  v32 = *v28;
  v33 = (fnptr_t*)(v32 + (s64)((s64)((u64)3ULL)));
  v34 = *v33;
  ((FT0)v34)(v21);
  goto L13;
L8: ;
  v35 = *(&__libc_single_threaded);
  v36 = (v35 == ((u8)0ULL));
  if (v36) {
    goto L10;
  } else {
    goto L9;
  }
L9: ;
  v37 = *v23;
  v38 = ((u32)(v37 + ((u32)4294967295ULL)));
  *v23 = v38;
  v41 = v37;
  goto L11;
L10: ;
  v39 = *v23;
  v40 = ((u32)(v39 + ((u32)4294967295ULL)));
  *v23 = v40;
  v41 = v39;
  goto L11;
L11: ;
  v42 = (v41 == ((u32)1ULL));
  if (v42) {
    goto L12;
  } else {
    goto L13;
  }
L12: ;
  _ZNSt16_Sp_counted_baseILN9__gnu_cxx12_Lock_policyE2EE24_M_release_last_use_coldEv(v21);
  goto L13;
L13: ;
  v43 = (u8**)(&(*v1).f0.f0);
  v44 = *v43;
  v45 = (struct S66_union_anon*)(&(*v1).f2);
  v46 = (u8*)v45;
  v47 = ((u8*)v44 == (u8*)v46);
  if (v47) {
    goto L15;
  } else {
    goto L14;
  }
L14: ;
  _ZdlPv(v44);
  goto L15;
L15: ;
  v48 = (struct S13_class_std___Sp_counted_base**)(&(*v0).f0.f1.f0);
  v49 = *v48;
  v50 = ((u8*)v49 == (u8*)((struct S13_class_std___Sp_counted_base*)0));
  if (v50) {
    goto L23;
  } else {
    goto L16;
  }
L16: ;
  v51 = (u32*)(&(*v49).f1);
  v52 = (u64*)v51;
  v53 = (((u64)(*v49).f1 << 0) | ((u64)(*v49).f2 << 32));
  v54 = (v53 == ((u64)4294967297ULL));
  if (v54) {
    goto L17;
  } else {
    goto L18;
  }
L17: ;
  *v51 = ((u32)0ULL);
  v55 = (u32*)(&(*v49).f2);
  *v55 = ((u32)0ULL);
  v56 = (fnptr_t**)&(*v49).f0;
  v57 = *v56;
  v58 = (fnptr_t*)(v57 + (s64)((s64)((u64)2ULL)));
  v59 = *v58;
  ((FT0)v59)(v49);
  v60 = *v56;
  v61 = (fnptr_t*)(v60 + (s64)((s64)((u64)3ULL)));
  v62 = *v61;
  ((FT0)v62)(v49);
  goto L23;
L18: ;
  v63 = *(&__libc_single_threaded);
  v64 = (v63 == ((u8)0ULL));
  if (v64) {
    goto L20;
  } else {
    goto L19;
  }
L19: ;
  v65 = *v51;
  v66 = ((u32)(v65 + ((u32)4294967295ULL)));
  *v51 = v66;
  v69 = v65;
  goto L21;
L20: ;
  v67 = *v51;
  v68 = ((u32)(v67 + ((u32)4294967295ULL)));
  *v51 = v68;
  v69 = v67;
  goto L21;
L21: ;
  v70 = (v69 == ((u32)1ULL));
  if (v70) {
    goto L22;
  } else {
    goto L23;
  }
L22: ;
  _ZNSt16_Sp_counted_baseILN9__gnu_cxx12_Lock_policyE2EE24_M_release_last_use_coldEv(v49);
  goto L23;
L23: ;
  v71 = (u8*)v2;
  v72 = (struct S19_class_std__bad_cast**)(&(*v2).f0.f0);
  *v72 = ((struct S19_class_std__bad_cast*)0);
  v73 = (u8*)((((u64)24ULL) % sizeof(struct S59_class_std___Sp_counted_ptr_inplace_41) == 0) ? __CPROVER_allocate(sizeof(struct S59_class_std___Sp_counted_ptr_inplace_41) * (((u64)24ULL) / sizeof(struct S59_class_std___Sp_counted_ptr_inplace_41)), 0) : __CPROVER_allocate(((u64)24ULL), 0));
  v_alloc_note((u8*)v73);
  v74 = (struct S59_class_std___Sp_counted_ptr_inplace_41*)v73;
  v75 = (fnptr_t**)(&(*v74).f0.f0);
  *v75 = ((fnptr_t*)((u8**)(&(*(&_ZTVSt16_Sp_counted_baseILN9__gnu_cxx12_Lock_policyE2EE)).f0.e[(s64)((s64)((u64)2ULL))])));
  v76 = (u32*)(&(*v74).f0.f1);
  *v76 = ((u32)1ULL);
  v77 = (u32*)(&(*v74).f0.f2);
  *v77 = ((u32)1ULL);
  *v75 = ((fnptr_t*)((u8**)(&(*(&_ZTVSt23_Sp_counted_ptr_inplaceIN14OpenVolumeMesh2IO16PropertyDecoderTIjNS1_6Codecs15SimplePropCodecINS3_9PrimitiveIjEEEEEESaIvELN9__gnu_cxx12_Lock_policyE2EE)).f0.e[(s64)((s64)((u64)2ULL))])));
  v78 = (struct S75_struct___gnu_cxx____aligned_buffer_42*)(&(*v74).f1.f0);
  v79 = (u64*)v78;
  *v79 = ((u64)0ULL);
  v80 = (fnptr_t**)v78;
  *v80 = ((fnptr_t*)((u8**)(&(*(&_ZTVN14OpenVolumeMesh2IO16PropertyDecoderTIjNS0_6Codecs15SimplePropCodecINS2_9PrimitiveIjEEEEEE)).f0.e[(s64)((s64)((u64)2ULL))])));
  v81 = (struct S13_class_std___Sp_counted_base*)(&(*v74).f0);
  v82 = (struct S13_class_std___Sp_counted_base**)(&(*v2).f0.f1.f0);
  *v82 = v81;
  v83 = (struct S75_struct___gnu_cxx____aligned_buffer_42**)&(*v2).f0.f0;
  *v83 = v78;
  v84 = (struct S26_class_std__map*)(&(*a0).f0);
  v85 = _ZNSt3mapINSt7__cxx1112basic_stringIcSt11char_traitsIcESaIcEEESt10shared_ptrIN14OpenVolumeMesh2IO19PropertyDecoderBaseEESt4lessIS5_ESaISt4pairIKS5_SA_EEEixERSE_(v84, a1);
  if (v_exc) {
    goto L45;
  }
  goto L24;
L24: ;
  v86 = (struct S21_class_OpenVolumeMesh__IO__PropertyDecode**)&(*v2).f0.f0;
  v87 = *v86;
  v88 = *v82;
  v89 = (struct S21_class_OpenVolumeMesh__IO__PropertyDecode**)(&(*v85).f0.f0);
  (*v2).f0.f0 = (struct S19_class_std__bad_cast*)0;
  (*v2).f0.f1.f0 = (struct S13_class_std___Sp_counted_base*)0;
  *v89 = v87;
  v90 = (struct S13_class_std___Sp_counted_base**)(&(*v85).f0.f1.f0);
  v91 = *v90;
  *v90 = v88;
  v92 = ((u8*)v91 == (u8*)((struct S13_class_std___Sp_counted_base*)0));
  if (v92) {
    goto L32;
  } else {
    goto L25;
  }
L25: ;
  v93 = (u32*)(&(*v91).f1);
  v94 = (u64*)v93;
  v95 = (((u64)(*v91).f1 << 0) | ((u64)(*v91).f2 << 32));
  v96 = (v95 == ((u64)4294967297ULL));
  if (v96) {
    goto L26;
  } else {
    goto L27;
  }
L26: ;
  *v93 = ((u32)0ULL);
  v97 = (u32*)(&(*v91).f2);
  *v97 = ((u32)0ULL);
  v98 = (fnptr_t**)&(*v91).f0;
  v99 = *v98;
  v100 = (fnptr_t*)(v99 + (s64)((s64)((u64)2ULL)));
  v101 = *v100;
  ((FT0)v101)(v91);
  v102 = *v98;
  v103 = (fnptr_t*)(v102 + (s64)((s64)((u64)3ULL)));
  v104 = *v103;
  ((FT0)v104)(v91);
  goto L32;
L27: ;
  v105 = *(&__libc_single_threaded);
  v106 = (v105 == ((u8)0ULL));
  if (v106) {
    goto L29;
  } else {
    goto L28;
  }
L28: ;
  v107 = *v93;
  v108 = ((u32)(v107 + ((u32)4294967295ULL)));
  *v93 = v108;
  v111 = v107;
  goto L30;
L29: ;
  v109 = *v93;
  v110 = ((u32)(v109 + ((u32)4294967295ULL)));
  *v93 = v110;
  v111 = v109;
  goto L30;
L30: ;
  v112 = (v111 == ((u32)1ULL));
  if (v112) {
    goto L31;
  } else {
    goto L32;
  }
L31: ;
  _ZNSt16_Sp_counted_baseILN9__gnu_cxx12_Lock_policyE2EE24_M_release_last_use_coldEv(v91);
  goto L32;
L32: ;
  v113 = (struct S13_class_std___Sp_counted_base**)(&(*v2).f0.f1.f0);
  v114 = *v113;
  v115 = ((u8*)v114 == (u8*)((struct S13_class_std___Sp_counted_base*)0));
  if (v115) {
    goto L40;
  } else {
    goto L33;
  }
L33: ;
  v116 = (u32*)(&(*v114).f1);
  v117 = (u64*)v116;
  v118 = (((u64)(*v114).f1 << 0) | ((u64)(*v114).f2 << 32));
  v119 = (v118 == ((u64)4294967297ULL));
  if (v119) {
    goto L34;
  } else {
    goto L35;
  }
L34: ;
  *v116 = ((u32)0ULL);
  v120 = (u32*)(&(*v114).f2);
  *v120 = ((u32)0ULL);
  v121 = (fnptr_t**)&(*v114).f0;
  v122 = *v121;
  v123 = (fnptr_t*)(v122 + (s64)((s64)((u64)2ULL)));
  v124 = *v123;
  ((FT0)v124)(v114);
  v125 = *v121;
  v126 = (fnptr_t*)(v125 + (s64)((s64)((u64)3ULL)));
  v127 = *v126;
  ((FT0)v127)(v114);
  goto L40;
L35: ;
  v128 = *(&__libc_single_threaded);
  v129 = (v128 == ((u8)0ULL));
  if (v129) {
    goto L37;
  } else {
    goto L36;
  }
L36: ;
  v130 = *v116;
  v131 = ((u32)(v130 + ((u32)4294967295ULL)));
  *v116 = v131;
  v134 = v130;
  goto L38;
L37: ;
  v132 = *v116;
  v133 = ((u32)(v132 + ((u32)4294967295ULL)));
  *v116 = v133;
  v134 = v132;
  goto L38;
L38: ;
  v135 = (v134 == ((u32)1ULL));
  if (v135) {
    goto L39;
  } else {
    goto L40;
  }
L39: ;
  _ZNSt16_Sp_counted_baseILN9__gnu_cxx12_Lock_policyE2EE24_M_release_last_use_coldEv(v114);
  goto L40;
L40: ;
  return;
L41: ;
  v136.f0 = v_exc_obj;
  v136.f1 = 0;
  v_exc = 0;
  v143 = v136;
  goto L44;
L42: ;
  v137.f0 = v_exc_obj;
  v137.f1 = 0;
  v_exc = 0;
  v138 = (u8**)(&(*v1).f0.f0);
  v139 = *v138;
  v140 = (struct S66_union_anon*)(&(*v1).f2);
  v141 = (u8*)v140;
  v142 = ((u8*)v139 == (u8*)v141);
  if (v142) {
    v143 = v137;
    goto L44;
  } else {
    goto L43;
  }
L43: ;
  _ZdlPv(v139);
  v143 = v137;
  goto L44;
L44: ;
  v144 = (struct S50_class_std____shared_ptr*)(&(*v0).f0);
  _ZNSt12__shared_ptrIN14OpenVolumeMesh2IO16PropertyEncoderTIjNS1_6Codecs15SimplePropCodecINS3_9PrimitiveIjEEEEEELN9__gnu_cxx12_Lock_policyE2EED2Ev(v144);
  v7 = v143;
  goto L1;
L45: ;
  v145.f0 = v_exc_obj;
  v145.f1 = 0;
  v_exc = 0;
  v146 = (struct S51_class_std____shared_ptr_23*)(&(*v2).f0);
  _ZNSt12__shared_ptrIN14OpenVolumeMesh2IO16PropertyDecoderTIjNS1_6Codecs15SimplePropCodecINS3_9PrimitiveIjEEEEEELN9__gnu_cxx12_Lock_policyE2EED2Ev(v146);
  v7 = v145;
  goto L1;
}

void _ZNSt23_Sp_counted_ptr_inplaceIN14OpenVolumeMesh2IO16PropertyEncoderTIjNS1_6Codecs15SimplePropCodecINS3_9PrimitiveIjEEEEEESaIvELN9__gnu_cxx12_Lock_policyE2EEC2IJRKNSt7__cxx1112basic_stringIcSt11char_traitsIcESaIcEEEEEES9_DpOT_(struct S49_class_std___Sp_counted_ptr_inplace* a0, struct S27_class_std____cxx11__basic_string* a1) {
  u64* v0; u64 v0_m;
  struct S27_class_std____cxx11__basic_string* v1; struct S27_class_std____cxx11__basic_string v1_m;
  fnptr_t** v2;
  u32* v3;
  u32* v4;
  fnptr_t** v5;
  struct S74_struct___gnu_cxx____aligned_buffer* v6;
  u8* v7;
  struct S66_union_anon* v8;
  struct S66_union_anon** v9;
  u8** v10;
  u8* v11;
  u64* v12;
  u64 v13;
  u8* v14;
  u1 v15;
  u8* v16;
  u8** v17;
  u64 v18;
  u64* v19;
  u8** v20;
  u8* v21;
  u8 v22;
  u64 v23;
  u64* v24;
  u8* v25;
  u8* v26;
  fnptr_t** v27;
  u8* v28;
  u8* v29;
  u8** v30;
  u8* v31;
  u8* v32;
  u1 v33;
  u64 v34;
  u64 v35;
  u1 v36;
  u8** v37;
  u64* v38;
  u64 v39;
  u8* v40;
  u64* v41;
  u64 v42;
  u8* v43;
  u64* v44;
L0: ;
  v0 = &v0_m;
  v1 = &v1_m;
  v2 = (fnptr_t**)(&(*a0).f0.f0);
  *v2 = ((fnptr_t*)((u8**)(&(*(&_ZTVSt16_Sp_counted_baseILN9__gnu_cxx12_Lock_policyE2EE)).f0.e[(s64)((s64)((u64)2ULL))])));
  v3 = (u32*)(&(*a0).f0.f1);
  *v3 = ((u32)1ULL);
  v4 = (u32*)(&(*a0).f0.f2);
  *v4 = ((u32)1ULL);
  v5 = (fnptr_t**)(&(*a0).f0.f0);
  *v5 = ((fnptr_t*)((u8**)(&(*(&_ZTVSt23_Sp_counted_ptr_inplaceIN14OpenVolumeMesh2IO16PropertyEncoderTIjNS1_6Codecs15SimplePropCodecINS3_9PrimitiveIjEEEEEESaIvELN9__gnu_cxx12_Lock_policyE2EE)).f0.e[(s64)((s64)((u64)2ULL))])));
  v6 = (struct S74_struct___gnu_cxx____aligned_buffer*)(&(*a0).f1.f0);
  v7 = (u8*)v1;
  v8 = (struct S66_union_anon*)(&(*v1).f2);
  v9 = (struct S66_union_anon**)&(*v1).f0.f0;
  *v9 = v8;
  v10 = (u8**)(&(*a1).f0.f0);
  v11 = *v10;
  v12 = (u64*)(&(*a1).f1);
  v13 = *v12;
  v14 = (u8*)v0;
  *v0 = v13;
  v15 = (v13 > ((u64)15ULL));
  if (v15) {
    goto L1;
  } else {
    goto L2;
  }
L1: ;
  v16 = _ZNSt7__cxx1112basic_stringIcSt11char_traitsIcESaIcEE9_M_createERmm(v1, v0, ((u64)0ULL));
  if (v_exc) return;
  v17 = (u8**)(&(*v1).f0.f0);
  *v17 = v16;
  v18 = *v0;
  v19 = (u64*)(&(*v1).f2.f0.e[0]);
  *v19 = v18;
  goto L2;
L2: ;
  v20 = (u8**)(&(*v1).f0.f0);
  v21 = *v20;
  switch (v13) {
  case ((u64)1ULL): {
    goto L3;
  }
  case ((u64)0ULL): {
    goto L5;
  }
  default: {
    goto L4;
  }
  }
L3: ;
  v22 = *v11;
  *v21 = v22;
  goto L5;
L4: ;
  v_memcpy((u8*)v21, (u8*)v11, (u64)v13);
  goto L5;
L5: ;
  v23 = *v0;
  v24 = (u64*)(&(*v1).f1);
  *v24 = v23;
  v25 = *v20;
  v26 = (u8*)(v25 + (s64)((s64)v23));
  *v26 = ((u8)0ULL);
  v27 = (fnptr_t**)&(*a0).f1.f0.f0.f0.f0;
  *v27 = ((fnptr_t*)((u8**)(&(*(&_ZTVN14OpenVolumeMesh2IO19PropertyEncoderBaseE)).f0.e[(s64)((s64)((u64)2ULL))])));
  v28 = (u8*)(&(*a0).f1.f0.f0.f0.f1.f0.f0);
  v29 = (u8*)(&(*a0).f1.f0.f0.f0.f1.f2.f0.e[0]);
  v30 = (u8**)&(*a0).f1.f0.f0.f0.f1.f0.f0;
  *v30 = v29;
  v31 = *v20;
  v32 = (u8*)v8;
  v33 = ((u8*)v31 == (u8*)v32);
  if (v33) {
    goto L6;
  } else {
    goto L8;
  }
L6: ;
  v34 = *v24;
  v35 = ((u64)(v34 + ((u64)1ULL)));
  v36 = (v35 == ((u64)0ULL));
  if (v36) {
    goto L9;
  } else {
    goto L7;
  }
L7: ;
  v_memcpy((u8*)v29, (u8*)v32, (u64)v35);
  goto L9;
L8: ;
  v37 = (u8**)&(*a0).f1.f0.f0.f0.f1.f0.f0;
  *v37 = v31;
  v38 = (u64*)(&(*v1).f2.f0.e[0]);
  v39 = *v38;
  v40 = (u8*)(&(*a0).f1.f0.f0.f0.f1.f2.f0.e[0]);
  v41 = (u64*)v40;
  (*a0).f1.f0.f0.f0.f1.f2.f0.e[0] = (u8)(v39 >> 0);
  (*a0).f1.f0.f0.f0.f1.f2.f0.e[1] = (u8)(v39 >> 8);
  (*a0).f1.f0.f0.f0.f1.f2.f0.e[2] = (u8)(v39 >> 16);
  (*a0).f1.f0.f0.f0.f1.f2.f0.e[3] = (u8)(v39 >> 24);
  (*a0).f1.f0.f0.f0.f1.f2.f0.e[4] = (u8)(v39 >> 32);
  (*a0).f1.f0.f0.f0.f1.f2.f0.e[5] = (u8)(v39 >> 40);
  (*a0).f1.f0.f0.f0.f1.f2.f0.e[6] = (u8)(v39 >> 48);
  (*a0).f1.f0.f0.f0.f1.f2.f0.e[7] = (u8)(v39 >> 56);
  goto L9;
L9: ;
  v42 = *v24;
  v43 = (u8*)(&(*a0).f1.f0.f0.f0.f1.f1);
  v44 = (u64*)&(*a0).f1.f0.f0.f0.f1.f1;
  *v44 = v42;
  *v9 = v8;
  *v24 = ((u64)0ULL);
  *v32 = ((u8)0ULL);
  *v27 = ((fnptr_t*)((u8**)(&(*(&_ZTVN14OpenVolumeMesh2IO16PropertyEncoderTIjNS0_6Codecs15SimplePropCodecINS2_9PrimitiveIjEEEEEE)).f0.e[(s64)((s64)((u64)2ULL))])));
  return;
}

void _ZNSt12__shared_ptrIN14OpenVolumeMesh2IO16PropertyEncoderTIjNS1_6Codecs15SimplePropCodecINS3_9PrimitiveIjEEEEEELN9__gnu_cxx12_Lock_policyE2EED2Ev(struct S50_class_std____shared_ptr* a0) {
  struct S13_class_std___Sp_counted_base** v0;
  struct S13_class_std___Sp_counted_base* v1;
  u1 v2;
  u32* v3;
  u64* v4;
  u64 v5;
  u1 v6;
  u32* v7;
  fnptr_t** v8;
  fnptr_t* v9;
  fnptr_t* v10;
  fnptr_t v11;
  fnptr_t* v12;
  fnptr_t* v13;
  fnptr_t v14;
  u8 v15;
  u1 v16;
  u32 v17;
  u32 v18;
  u32 v19;
  u32 v20;
  u32 v21; u32 v21_t;
  u1 v22;
L0: ;
  v0 = (struct S13_class_std___Sp_counted_base**)(&(*a0).f1.f0);
  v1 = *v0;
  v2 = ((u8*)v1 == (u8*)((struct S13_class_std___Sp_counted_base*)0));
  if (v2) {
    goto L8;
  } else {
    goto L1;
  }
L1: ;
  v3 = (u32*)(&(*v1).f1);
  v4 = (u64*)v3;
  v5 = (((u64)(*v1).f1 << 0) | ((u64)(*v1).f2 << 32));
  v6 = (v5 == ((u64)4294967297ULL));
  if (v6) {
    goto L2;
  } else {
    goto L3;
  }
L2: ;
  *v3 = ((u32)0ULL);
  v7 = (u32*)(&(*v1).f2);
  *v7 = ((u32)0ULL);
  v8 = (fnptr_t**)&(*v1).f0;
  v9 = *v8;
  v10 = (fnptr_t*)(v9 + (s64)((s64)((u64)2ULL)));
  v11 = *v10;
  ((FT0)v11)(v1);
  v12 = *v8;
  v13 = (fnptr_t*)(v12 + (s64)((s64)((u64)3ULL)));
  v14 = *v13;
  ((FT0)v14)(v1);
  goto L8;
L3: ;
  v15 = *(&__libc_single_threaded);
  v16 = (v15 == ((u8)0ULL));
  if (v16) {
    goto L5;
  } else {
    goto L4;
  }
L4: ;
  v17 = *v3;
  v18 = ((u32)(v17 + ((u32)4294967295ULL)));
  *v3 = v18;
  v21 = v17;
  goto L6;
L5: ;
  v19 = *v3;
  v20 = ((u32)(v19 + ((u32)4294967295ULL)));
  *v3 = v20;
  v21 = v19;
  goto L6;
L6: ;
  v22 = (v21 == ((u32)1ULL));
  if (v22) {
    goto L7;
  } else {
    goto L8;
  }
L7: ;
  _ZNSt16_Sp_counted_baseILN9__gnu_cxx12_Lock_policyE2EE24_M_release_last_use_coldEv(v1);
  goto L8;
L8: ;
  return;
}

void _ZNSt12__shared_ptrIN14OpenVolumeMesh2IO16PropertyDecoderTIjNS1_6Codecs15SimplePropCodecINS3_9PrimitiveIjEEEEEELN9__gnu_cxx12_Lock_policyE2EED2Ev(struct S51_class_std____shared_ptr_23* a0) {
  struct S13_class_std___Sp_counted_base** v0;
  struct S13_class_std___Sp_counted_base* v1;
  u1 v2;
  u32* v3;
  u64* v4;
  u64 v5;
  u1 v6;
  u32* v7;
  fnptr_t** v8;
  fnptr_t* v9;
  fnptr_t* v10;
  fnptr_t v11;
  fnptr_t* v12;
  fnptr_t* v13;
  fnptr_t v14;
  u8 v15;
  u1 v16;
  u32 v17;
  u32 v18;
  u32 v19;
  u32 v20;
  u32 v21; u32 v21_t;
  u1 v22;
L0: ;
  v0 = (struct S13_class_std___Sp_counted_base**)(&(*a0).f1.f0);
  v1 = *v0;
  v2 = ((u8*)v1 == (u8*)((struct S13_class_std___Sp_counted_base*)0));
  if (v2) {
    goto L8;
  } else {
    goto L1;
  }
L1: ;
  v3 = (u32*)(&(*v1).f1);
  v4 = (u64*)v3;
  v5 = (((u64)(*v1).f1 << 0) | ((u64)(*v1).f2 << 32));
  v6 = (v5 == ((u64)4294967297ULL));
  if (v6) {
    goto L2;
  } else {
    goto L3;
  }
L2: ;
  *v3 = ((u32)0ULL);
  v7 = (u32*)(&(*v1).f2);
  *v7 = ((u32)0ULL);
  v8 = (fnptr_t**)&(*v1).f0;
  v9 = *v8;
  v10 = (fnptr_t*)(v9 + (s64)((s64)((u64)2ULL)));
  v11 = *v10;
  ((FT0)v11)(v1);
  v12 = *v8;
  v13 = (fnptr_t*)(v12 + (s64)((s64)((u64)3ULL)));
  v14 = *v13;
  ((FT0)v14)(v1);
  goto L8;
L3: ;
  v15 = *(&__libc_single_threaded);
  v16 = (v15 == ((u8)0ULL));
  if (v16) {
    goto L5;
  } else {
    goto L4;
  }
L4: ;
  v17 = *v3;
  v18 = ((u32)(v17 + ((u32)4294967295ULL)));
  *v3 = v18;
  v21 = v17;
  goto L6;
L5: ;
  v19 = *v3;
  v20 = ((u32)(v19 + ((u32)4294967295ULL)));
  *v3 = v20;
  v21 = v19;
  goto L6;
L6: ;
  v22 = (v21 == ((u32)1ULL));
  if (v22) {
    goto L7;
  } else {
    goto L8;
  }
L7: ;
  _ZNSt16_Sp_counted_baseILN9__gnu_cxx12_Lock_policyE2EE24_M_release_last_use_coldEv(v1);
  goto L8;
L8: ;
  return;
}

void _ZN14OpenVolumeMesh2IO16PropertyDecoderTIjNS0_6Codecs15SimplePropCodecINS2_9PrimitiveIjEEEEED0Ev(struct S19_class_std__bad_cast* a0) {
  u8* v0;
L0: ;
  v0 = (u8*)a0;
  _ZdlPv(v0);
  return;
}

void _ZNK14OpenVolumeMesh2IO16PropertyDecoderTIjNS0_6Codecs15SimplePropCodecINS2_9PrimitiveIjEEEEE16request_propertyERNS_15ResourceManagerENS_10EntityTypeERKNSt7__cxx1112basic_stringIcSt11char_traitsIcESaIcEEERKSt6vectorIhSaIhEE(struct S33_class_std__weak_ptr* a0, struct S19_class_std__bad_cast* a1, struct S52_class_OpenVolumeMesh__ResourceManager* a2, u8 a3, struct S27_class_std____cxx11__basic_string* a4, struct S53_class_std__vector* a5) {
  u32* v0; u32 v0_m;
  struct S54_class_OpenVolumeMesh__IO__detail__Decode* v1; struct S54_class_OpenVolumeMesh__IO__detail__Decode v1_m;
  struct S55_class_std__shared_ptr_348* v2; struct S55_class_std__shared_ptr_348 v2_m;
  struct S56_class_anon_351* v3; struct S56_class_anon_351 v3_m;
  u8* v4;
  u8* v5;
  u8** v6;
  u8* v7;
  u8** v8;
  u8* v9;
  u64 v10;
  u64 v11;
  u64 v12;
  u1 v13;
  u1 v14;
  u8* v15;
  u8* v16; u8* v16_t;
  u8* v17;
  u8** v18;
  u8** v19;
  u8** v20;
  u8** v21;
  u8** v22;
  u32 v23;
  u8* v24;
  struct S52_class_OpenVolumeMesh__ResourceManager** v25;
  struct S27_class_std____cxx11__basic_string** v26;
  u32** v27;
  struct S16_class_OpenVolumeMesh__PropertyStorageBas** v28;
  struct S38_class_OpenVolumeMesh__PropertyStorageT_3** v29;
  struct S16_class_OpenVolumeMesh__PropertyStorageBas** v30;
  struct S16_class_OpenVolumeMesh__PropertyStorageBas* v31;
  struct S13_class_std___Sp_counted_base** v32;
  struct S13_class_std___Sp_counted_base** v33;
  struct S13_class_std___Sp_counted_base* v34;
  u8* v35;
  u1 v36;
  struct S63 v37;
  struct S63 v38;
  struct S63 v39; struct S63 v39_t;
  u8* v40;
  u1 v41;
L0: ;
  v0 = &v0_m;
  v1 = &v1_m;
  v2 = &v2_m;
  v3 = &v3_m;
  v4 = (u8*)v0;
  v5 = (u8*)v1;
  v6 = (u8**)(&(*a5).f0.f0.f0.f1);
  v7 = *v6;
  v8 = (u8**)(&(*a5).f0.f0.f0.f0);
  v9 = *v8;
  v10 = ((u64)((u64)v7));
  v11 = ((u64)((u64)v9));
  v12 = v_pdiff((u8*)v7, (u8*)v9);
  v13 = (v12 == ((u64)0ULL));
  if (v13) {
    v16 = ((u8*)0);
    goto L4;
  } else {
    goto L1;
  }
L1: ;
  v14 = (((s64)v12) < ((s64)((u64)0ULL)));
  if (v14) {
    goto L2;
  } else {
    goto L3;
  }
L2: ;
  _ZSt17__throw_bad_allocv();
  if (v_exc) return;
  __CPROVER_assume(0);
L3: ;
  v15 = _Znwm(v12);
  if (v_exc) return;
  v16 = v15;
  goto L4;
L4: ;
  v17 = (u8*)(v16 + (s64)((s64)v12));
  if (v13) {
    goto L6;
  } else {
    goto L5;
  }
L5: ;
  v_memmove((u8*)v16, (u8*)v9, (u64)v12);
  goto L6;
L6: ;
  v18 = (u8**)(&(*v1).f0.f0.f0.f0.f0);
  *v18 = v16;
  v19 = (u8**)(&(*v1).f0.f0.f0.f0.f1);
  *v19 = v17;
  v20 = (u8**)(&(*v1).f0.f0.f0.f0.f2);
  *v20 = v17;
  v21 = (u8**)(&(*v1).f1);
  *v21 = v16;
  v22 = (u8**)(&(*v1).f2);
  *v22 = v17;
  v23 = _ZN14OpenVolumeMesh2IO6detail7Decoder3u32Ev(v1);
  if (v_exc) {
    goto L11;
  }
  goto L7;
L7: ;
  *v0 = v23;
  v24 = (u8*)v2;
  v25 = (struct S52_class_OpenVolumeMesh__ResourceManager**)(&(*v3).f0);
  *v25 = a2;
  v26 = (struct S27_class_std____cxx11__basic_string**)(&(*v3).f1);
  *v26 = a4;
  v27 = (u32**)(&(*v3).f2);
  *v27 = v0;
  _ZN14OpenVolumeMesh18entitytag_dispatchIZNKS_2IO16PropertyDecoderTIjNS1_6Codecs15SimplePropCodecINS3_9PrimitiveIjEEEEE16request_propertyERNS_15ResourceManagerENS_10EntityTypeERKNSt7__cxx1112basic_stringIcSt11char_traitsIcESaIcEEERKSt6vectorIhSaIhEEEUlT_E_JEEEDaSB_SP_DpT0_(v2, a3, v3);
  if (v_exc) {
    goto L12;
  }
  goto L8;
L8: ;
  v28 = (struct S16_class_OpenVolumeMesh__PropertyStorageBas**)(&(*a0).f0.f0);
  v29 = (struct S38_class_OpenVolumeMesh__PropertyStorageT_3**)(&(*v2).f0.f0);
  v30 = (struct S16_class_OpenVolumeMesh__PropertyStorageBas**)&(*v2).f0.f0;
  v31 = *v30;
  *v28 = v31;
  v32 = (struct S13_class_std___Sp_counted_base**)(&(*a0).f0.f1.f0);
  *v32 = ((struct S13_class_std___Sp_counted_base*)0);
  v33 = (struct S13_class_std___Sp_counted_base**)(&(*v2).f0.f1.f0);
  v34 = *v33;
  *v33 = ((struct S13_class_std___Sp_counted_base*)0);
  *v32 = v34;
  *v29 = ((struct S38_class_OpenVolumeMesh__PropertyStorageT_3*)0);
  v35 = *v18;
  v36 = ((u8*)v35 == (u8*)((u8*)0));
  if (v36) {
    goto L10;
  } else {
    goto L9;
  }
L9: ;
  _ZdlPv(v35);
  goto L10;
L10: ;
  return;
L11: ;
  v37.f0 = v_exc_obj;
  v37.f1 = 0;
  v_exc = 0;
  v39 = v37;
  goto L13;
L12: ;
  v38.f0 = v_exc_obj;
  v38.f1 = 0;
  v_exc = 0;
  v39 = v38;
  goto L13;
L13: ;
  v40 = *v18;
  v41 = ((u8*)v40 == (u8*)((u8*)0));
  if (v41) {
    goto L15;
  } else {
    goto L14;
  }
L14: ;
  _ZdlPv(v40);
  goto L15;
L15: ;
  v_exc = 1; return;
}

void _ZNK14OpenVolumeMesh2IO16PropertyDecoderTIjNS0_6Codecs15SimplePropCodecINS2_9PrimitiveIjEEEEE11deserializeEPNS_19PropertyStorageBaseERNS0_6detail7DecoderEmm(struct S19_class_std__bad_cast* a0, struct S16_class_OpenVolumeMesh__PropertyStorageBas* a1, struct S54_class_OpenVolumeMesh__IO__detail__Decode* a2, u64 a3, u64 a4) {
  struct S38_class_OpenVolumeMesh__PropertyStorageT_3* v0;
  u1 v1;
  u32** v2;
  u32* v3;
  u32** v4;
  u32* v5;
  u64 v6;
  u64 v7;
  u64 v8;
  u64 v9;
  u1 v10;
  u8* v11;
  struct S32_class_OpenVolumeMesh__IO__detail__parse_* v12;
  struct S63 v13;
  u1 v14;
  u32** v15;
  u64 v16; u64 v16_t;
  u32* v17;
  u32* v18;
  u32 v19;
  u64 v20;
  u1 v21;
L0: ;
  v0 = _ZN14OpenVolumeMesh19PropertyStorageBase16cast_to_StorageTIjEEPNS_16PropertyStorageTIT_EEv(a1);
  if (v_exc) return;
  v1 = (a3 > a4);
  if (v1) {
    goto L2;
  } else {
    goto L1;
  }
L1: ;
  v2 = (u32**)(&(*v0).f2.f0.f0.f0.f1);
  v3 = *v2;
  v4 = (u32**)(&(*v0).f2.f0.f0.f0.f0);
  v5 = *v4;
  v6 = ((u64)((u64)v3));
  v7 = ((u64)((u64)v5));
  v8 = v_pdiff((u8*)v3, (u8*)v5);
  v9 = ((u64)(((s64)v8) >> ((u64)2ULL)));
  v10 = (v9 < a4);
  if (v10) {
    goto L2;
  } else {
    goto L5;
  }
L2: ;
  v11 = __cxa_allocate_exception(((u64)16ULL));
  v12 = (struct S32_class_OpenVolumeMesh__IO__detail__parse_*)v11;
  _ZN14OpenVolumeMesh2IO6detail11parse_errorCI2St13runtime_errorEPKc(v12, ((u8*)(&(*(&_str_5)).e[(s64)((s64)((u64)0ULL))])));
  if (v_exc) {
    goto L4;
  }
  goto L3;
L3: ;
  __cxa_throw(v11, ((u8*)(&_ZTIN14OpenVolumeMesh2IO6detail11parse_errorE)), ((u8*)((fnptr_t)_ZNSt13runtime_errorD2Ev)));
  if (v_exc) return;
  __CPROVER_assume(0);
L4: ;
  v13.f0 = v_exc_obj;
  v13.f1 = 0;
  v_exc = 0;
  __cxa_free_exception(v11);
  v_exc = 1; return;
L5: ;
  v14 = (a3 < a4);
  if (v14) {
    goto L6;
  } else {
    goto L8;
  }
L6: ;
  v15 = (u32**)(&(*v0).f2.f0.f0.f0.f0);
  v16 = a3;
  goto L7;
L7: ;
  v17 = *v15;
  v18 = (u32*)(v17 + (s64)((s64)v16));
  v19 = _ZN14OpenVolumeMesh2IO6detail7Decoder3u32Ev(a2);
  *v18 = v19;
  v20 = ((u64)(v16 + ((u64)1ULL)));
  v21 = (v20 == a4);
  if (v21) {
    goto L8;
  } else {
    v16 = v20;
    goto L7;
  }
L8: ;
  return;
}

void _ZN14OpenVolumeMesh18entitytag_dispatchIZNKS_2IO16PropertyDecoderTIjNS1_6Codecs15SimplePropCodecINS3_9PrimitiveIjEEEEE16request_propertyERNS_15ResourceManagerENS_10EntityTypeERKNSt7__cxx1112basic_stringIcSt11char_traitsIcESaIcEEERKSt6vectorIhSaIhEEEUlT_E_JEEEDaSB_SP_DpT0_(struct S55_class_std__shared_ptr_348* a0, u8 a1, struct S56_class_anon_351* a2) {
  u8* v0;
  struct S20_class_std__runtime_error* v1;
  struct S63 v2;
L0: ;
  switch (a1) {
  case ((u8)0ULL): {
    goto L1;
  }
  case ((u8)1ULL): {
    goto L2;
  }
  case ((u8)2ULL): {
    goto L3;
  }
  case ((u8)3ULL): {
    goto L4;
  }
  case ((u8)4ULL): {
    goto L5;
  }
  case ((u8)5ULL): {
    goto L6;
  }
  case ((u8)6ULL): {
    goto L7;
  }
  default: {
    goto L8;
  }
  }
L1: ;
  _ZZNK14OpenVolumeMesh2IO16PropertyDecoderTIjNS0_6Codecs15SimplePropCodecINS2_9PrimitiveIjEEEEE16request_propertyERNS_15ResourceManagerENS_10EntityTypeERKNSt7__cxx1112basic_stringIcSt11char_traitsIcESaIcEEERKSt6vectorIhSaIhEEENKUlT_E_clINS_6Entity6VertexEEEDaSO_(a0, a2);
  if (v_exc) return;
  goto L11;
L2: ;
  _ZZNK14OpenVolumeMesh2IO16PropertyDecoderTIjNS0_6Codecs15SimplePropCodecINS2_9PrimitiveIjEEEEE16request_propertyERNS_15ResourceManagerENS_10EntityTypeERKNSt7__cxx1112basic_stringIcSt11char_traitsIcESaIcEEERKSt6vectorIhSaIhEEENKUlT_E_clINS_6Entity4EdgeEEEDaSO_(a0, a2);
  if (v_exc) return;
  goto L11;
L3: ;
  _ZZNK14OpenVolumeMesh2IO16PropertyDecoderTIjNS0_6Codecs15SimplePropCodecINS2_9PrimitiveIjEEEEE16request_propertyERNS_15ResourceManagerENS_10EntityTypeERKNSt7__cxx1112basic_stringIcSt11char_traitsIcESaIcEEERKSt6vectorIhSaIhEEENKUlT_E_clINS_6Entity8HalfEdgeEEEDaSO_(a0, a2);
  if (v_exc) return;
  goto L11;
L4: ;
  _ZZNK14OpenVolumeMesh2IO16PropertyDecoderTIjNS0_6Codecs15SimplePropCodecINS2_9PrimitiveIjEEEEE16request_propertyERNS_15ResourceManagerENS_10EntityTypeERKNSt7__cxx1112basic_stringIcSt11char_traitsIcESaIcEEERKSt6vectorIhSaIhEEENKUlT_E_clINS_6Entity4FaceEEEDaSO_(a0, a2);
  if (v_exc) return;
  goto L11;
L5: ;
  _ZZNK14OpenVolumeMesh2IO16PropertyDecoderTIjNS0_6Codecs15SimplePropCodecINS2_9PrimitiveIjEEEEE16request_propertyERNS_15ResourceManagerENS_10EntityTypeERKNSt7__cxx1112basic_stringIcSt11char_traitsIcESaIcEEERKSt6vectorIhSaIhEEENKUlT_E_clINS_6Entity8HalfFaceEEEDaSO_(a0, a2);
  if (v_exc) return;
  goto L11;
L6: ;
  _ZZNK14OpenVolumeMesh2IO16PropertyDecoderTIjNS0_6Codecs15SimplePropCodecINS2_9PrimitiveIjEEEEE16request_propertyERNS_15ResourceManagerENS_10EntityTypeERKNSt7__cxx1112basic_stringIcSt11char_traitsIcESaIcEEERKSt6vectorIhSaIhEEENKUlT_E_clINS_6Entity4CellEEEDaSO_(a0, a2);
  if (v_exc) return;
  goto L11;
L7: ;
  _ZZNK14OpenVolumeMesh2IO16PropertyDecoderTIjNS0_6Codecs15SimplePropCodecINS2_9PrimitiveIjEEEEE16request_propertyERNS_15ResourceManagerENS_10EntityTypeERKNSt7__cxx1112basic_stringIcSt11char_traitsIcESaIcEEERKSt6vectorIhSaIhEEENKUlT_E_clINS_6Entity4MeshEEEDaSO_(a0, a2);
  if (v_exc) return;
  goto L11;
L8: ;
  v0 = __cxa_allocate_exception(((u64)16ULL));
  v1 = (struct S20_class_std__runtime_error*)v0;
  _ZNSt13runtime_errorC1EPKc(v1, ((u8*)(&(*(&_str_3)).e[(s64)((s64)((u64)0ULL))])));
  if (v_exc) {
    goto L10;
  }
  goto L9;
L9: ;
  __cxa_throw(v0, ((u8*)(&_ZTISt13runtime_error)), ((u8*)((fnptr_t)_ZNSt13runtime_errorD1Ev)));
  if (v_exc) return;
  __CPROVER_assume(0);
L10: ;
  v2.f0 = v_exc_obj;
  v2.f1 = 0;
  v_exc = 0;
  __cxa_free_exception(v0);
  v_exc = 1; return;
L11: ;
  return;
}

void _ZZNK14OpenVolumeMesh2IO16PropertyDecoderTIjNS0_6Codecs15SimplePropCodecINS2_9PrimitiveIjEEEEE16request_propertyERNS_15ResourceManagerENS_10EntityTypeERKNSt7__cxx1112basic_stringIcSt11char_traitsIcESaIcEEERKSt6vectorIhSaIhEEENKUlT_E_clINS_6Entity6VertexEEEDaSO_(struct S55_class_std__shared_ptr_348* a0, struct S56_class_anon_351* a1) {
  struct S44_class_OpenVolumeMesh__PropertyPtr_431* v0; struct S44_class_OpenVolumeMesh__PropertyPtr_431 v0_m;
  u8* v1;
  struct S52_class_OpenVolumeMesh__ResourceManager** v2;
  struct S52_class_OpenVolumeMesh__ResourceManager* v3;
  struct S27_class_std____cxx11__basic_string** v4;
  struct S27_class_std____cxx11__basic_string* v5;
  u32** v6;
  u32* v7;
  struct S52_class_OpenVolumeMesh__ResourceManager* v8;
  struct S38_class_OpenVolumeMesh__PropertyStorageT_3** v9;
  struct S38_class_OpenVolumeMesh__PropertyStorageT_3** v10;
  struct S38_class_OpenVolumeMesh__PropertyStorageT_3* v11;
  struct S13_class_std___Sp_counted_base** v12;
  struct S13_class_std___Sp_counted_base** v13;
  struct S13_class_std___Sp_counted_base* v14;
  u1 v15;
  u32* v16;
  u8 v17;
  u1 v18;
  u32 v19;
  u32 v20;
  u32 v21;
  u32 v22;
  fnptr_t** v23;
  struct S13_class_std___Sp_counted_base** v24;
  struct S13_class_std___Sp_counted_base* v25;
  u1 v26;
  u32* v27;
  u64* v28;
  u64 v29;
  u1 v30;
  u32* v31;
  fnptr_t** v32;
  fnptr_t* v33;
  fnptr_t* v34;
  fnptr_t v35;
  fnptr_t* v36;
  fnptr_t* v37;
  fnptr_t v38;
  u8 v39;
  u1 v40;
  u32 v41;
  u32 v42;
  u32 v43;
  u32 v44;
  u32 v45; u32 v45_t;
  u1 v46;
  struct S63 v47;
L0: ;
  v0 = &v0_m;
  v1 = (u8*)v0;
  v2 = (struct S52_class_OpenVolumeMesh__ResourceManager**)(&(*a1).f0);
  v3 = *v2;
  v4 = (struct S27_class_std____cxx11__basic_string**)(&(*a1).f1);
  v5 = *v4;
  v6 = (u32**)(&(*a1).f2);
  v7 = *v6;
  _ZN14OpenVolumeMesh15ResourceManager16request_propertyIjNS_6Entity6VertexEEENS_11PropertyPtrIT_T0_EERKNSt7__cxx1112basic_stringIcSt11char_traitsIcESaIcEEERKS5_(v0, v3, v5, v7);
  if (v_exc) return;
  v8 = *v2;
  _ZN14OpenVolumeMesh15ResourceManager14set_persistentIjNS_6Entity6VertexEEEvRNS_11PropertyPtrIT_T0_EEb(v8, v0, ((u1)1ULL));
  if (v_exc) {
    goto L14;
  }
  goto L1;
L1: ;
  v9 = (struct S38_class_OpenVolumeMesh__PropertyStorageT_3**)(&(*a0).f0.f0);
  v10 = (struct S38_class_OpenVolumeMesh__PropertyStorageT_3**)(&(*v0).f0.f0.f1.f0.f0);
  v11 = *v10;
  *v9 = v11;
  v12 = (struct S13_class_std___Sp_counted_base**)(&(*a0).f0.f1.f0);
  v13 = (struct S13_class_std___Sp_counted_base**)(&(*v0).f0.f0.f1.f0.f1.f0);
  v14 = *v13;
  *v12 = v14;
  v15 = ((u8*)v14 == (u8*)((struct S13_class_std___Sp_counted_base*)0));
  if (v15) {
    goto L5;
  } else {
    goto L2;
  }
L2: ;
  v16 = (u32*)(&(*v14).f1);
  v17 = *(&__libc_single_threaded);
  v18 = (v17 == ((u8)0ULL));
  if (v18) {
    goto L4;
  } else {
    goto L3;
  }
L3: ;
  v19 = *v16;
  v20 = ((u32)(v19 + ((u32)1ULL)));
  *v16 = v20;
  goto L5;
L4: ;
  v21 = *v16;
  v22 = ((u32)(v21 + ((u32)1ULL)));
  *v16 = v22;
  goto L5;
L5: ;
  v23 = (fnptr_t**)(&(*v0).f0.f0.f0);
  *v23 = ((fnptr_t*)((u8**)(&(*(&_ZTVN14OpenVolumeMesh18PropertyStoragePtrIjEE)).f0.e[(s64)((s64)((u64)2ULL))])));
  v24 = (struct S13_class_std___Sp_counted_base**)(&(*v0).f0.f0.f1.f0.f1.f0);
  v25 = *v24;
  v26 = ((u8*)v25 == (u8*)((struct S13_class_std___Sp_counted_base*)0));
  if (v26) {
    goto L13;
  } else {
    goto L6;
  }
L6: ;
  v27 = (u32*)(&(*v25).f1);
  v28 = (u64*)v27;
  v29 = (((u64)(*v25).f1 << 0) | ((u64)(*v25).f2 << 32));
  v30 = (v29 == ((u64)4294967297ULL));
  if (v30) {
    goto L7;
  } else {
    goto L8;
  }
L7: ;
  *v27 = ((u32)0ULL);
  v31 = (u32*)(&(*v25).f2);
  *v31 = ((u32)0ULL);
  v32 = (fnptr_t**)&(*v25).f0;
  v33 = *v32;
  v34 = (fnptr_t*)(v33 + (s64)((s64)((u64)2ULL)));
  v35 = *v34;
  ((FT0)v35)(v25);
  v36 = *v32;
  v37 = (fnptr_t*)(v36 + (s64)((s64)((u64)3ULL)));
  v38 = *v37;
  ((FT0)v38)(v25);
  goto L13;
L8: ;
  v39 = *(&__libc_single_threaded);
  v40 = (v39 == ((u8)0ULL));
  if (v40) {
    goto L10;
  } else {
    goto L9;
  }
L9: ;
  v41 = *v27;
  v42 = ((u32)(v41 + ((u32)4294967295ULL)));
  *v27 = v42;
  v45 = v41;
  goto L11;
L10: ;
  v43 = *v27;
  v44 = ((u32)(v43 + ((u32)4294967295ULL)));
  *v27 = v44;
  v45 = v43;
  goto L11;
L11: ;
  v46 = (v45 == ((u32)1ULL));
  if (v46) {
    goto L12;
  } else {
    goto L13;
  }
L12: ;
  _ZNSt16_Sp_counted_baseILN9__gnu_cxx12_Lock_policyE2EE24_M_release_last_use_coldEv(v25);
  goto L13;
L13: ;
  return;
L14: ;
  v47.f0 = v_exc_obj;
  v47.f1 = 0;
  v_exc = 0;
  _ZN14OpenVolumeMesh11PropertyPtrIjNS_6Entity6VertexEED2Ev(v0);
  v_exc = 1; return;
}

void _ZZNK14OpenVolumeMesh2IO16PropertyDecoderTIjNS0_6Codecs15SimplePropCodecINS2_9PrimitiveIjEEEEE16request_propertyERNS_15ResourceManagerENS_10EntityTypeERKNSt7__cxx1112basic_stringIcSt11char_traitsIcESaIcEEERKSt6vectorIhSaIhEEENKUlT_E_clINS_6Entity4EdgeEEEDaSO_(struct S55_class_std__shared_ptr_348* a0, struct S56_class_anon_351* a1) {
  struct S44_class_OpenVolumeMesh__PropertyPtr_431* v0; struct S44_class_OpenVolumeMesh__PropertyPtr_431 v0_m;
  u8* v1;
  struct S52_class_OpenVolumeMesh__ResourceManager** v2;
  struct S52_class_OpenVolumeMesh__ResourceManager* v3;
  struct S27_class_std____cxx11__basic_string** v4;
  struct S27_class_std____cxx11__basic_string* v5;
  u32** v6;
  u32* v7;
  struct S52_class_OpenVolumeMesh__ResourceManager* v8;
  struct S38_class_OpenVolumeMesh__PropertyStorageT_3** v9;
  struct S38_class_OpenVolumeMesh__PropertyStorageT_3** v10;
  struct S38_class_OpenVolumeMesh__PropertyStorageT_3* v11;
  struct S13_class_std___Sp_counted_base** v12;
  struct S13_class_std___Sp_counted_base** v13;
  struct S13_class_std___Sp_counted_base* v14;
  u1 v15;
  u32* v16;
  u8 v17;
  u1 v18;
  u32 v19;
  u32 v20;
  u32 v21;
  u32 v22;
  fnptr_t** v23;
  struct S13_class_std___Sp_counted_base** v24;
  struct S13_class_std___Sp_counted_base* v25;
  u1 v26;
  u32* v27;
  u64* v28;
  u64 v29;
  u1 v30;
  u32* v31;
  fnptr_t** v32;
  fnptr_t* v33;
  fnptr_t* v34;
  fnptr_t v35;
  fnptr_t* v36;
  fnptr_t* v37;
  fnptr_t v38;
  u8 v39;
  u1 v40;
  u32 v41;
  u32 v42;
  u32 v43;
  u32 v44;
  u32 v45; u32 v45_t;
  u1 v46;
  struct S63 v47;
L0: ;
  v0 = &v0_m;
  v1 = (u8*)v0;
  v2 = (struct S52_class_OpenVolumeMesh__ResourceManager**)(&(*a1).f0);
  v3 = *v2;
  v4 = (struct S27_class_std____cxx11__basic_string**)(&(*a1).f1);
  v5 = *v4;
  v6 = (u32**)(&(*a1).f2);
  v7 = *v6;
  _ZN14OpenVolumeMesh15ResourceManager16request_propertyIjNS_6Entity4EdgeEEENS_11PropertyPtrIT_T0_EERKNSt7__cxx1112basic_stringIcSt11char_traitsIcESaIcEEERKS5_(v0, v3, v5, v7);
  if (v_exc) return;
  v8 = *v2;
  _ZN14OpenVolumeMesh15ResourceManager14set_persistentIjNS_6Entity4EdgeEEEvRNS_11PropertyPtrIT_T0_EEb(v8, v0, ((u1)1ULL));
  if (v_exc) {
    goto L14;
  }
  goto L1;
L1: ;
  v9 = (struct S38_class_OpenVolumeMesh__PropertyStorageT_3**)(&(*a0).f0.f0);
  v10 = (struct S38_class_OpenVolumeMesh__PropertyStorageT_3**)(&(*v0).f0.f0.f1.f0.f0);
  v11 = *v10;
  *v9 = v11;
  v12 = (struct S13_class_std___Sp_counted_base**)(&(*a0).f0.f1.f0);
  v13 = (struct S13_class_std___Sp_counted_base**)(&(*v0).f0.f0.f1.f0.f1.f0);
  v14 = *v13;
  *v12 = v14;
  v15 = ((u8*)v14 == (u8*)((struct S13_class_std___Sp_counted_base*)0));
  if (v15) {
    goto L5;
  } else {
    goto L2;
  }
L2: ;
  v16 = (u32*)(&(*v14).f1);
  v17 = *(&__libc_single_threaded);
  v18 = (v17 == ((u8)0ULL));
  if (v18) {
    goto L4;
  } else {
    goto L3;
  }
L3: ;
  v19 = *v16;
  v20 = ((u32)(v19 + ((u32)1ULL)));
  *v16 = v20;
  goto L5;
L4: ;
  v21 = *v16;
  v22 = ((u32)(v21 + ((u32)1ULL)));
  *v16 = v22;
  goto L5;
L5: ;
  v23 = (fnptr_t**)(&(*v0).f0.f0.f0);
  *v23 = ((fnptr_t*)((u8**)(&(*(&_ZTVN14OpenVolumeMesh18PropertyStoragePtrIjEE)).f0.e[(s64)((s64)((u64)2ULL))])));
  v24 = (struct S13_class_std___Sp_counted_base**)(&(*v0).f0.f0.f1.f0.f1.f0);
  v25 = *v24;
  v26 = ((u8*)v25 == (u8*)((struct S13_class_std___Sp_counted_base*)0));
  if (v26) {
    goto L13;
  } else {
    goto L6;
  }
L6: ;
  v27 = (u32*)(&(*v25).f1);
  v28 = (u64*)v27;
  v29 = (((u64)(*v25).f1 << 0) | ((u64)(*v25).f2 << 32));
  v30 = (v29 == ((u64)4294967297ULL));
  if (v30) {
    goto L7;
  } else {
    goto L8;
  }
L7: ;
  *v27 = ((u32)0ULL);
  v31 = (u32*)(&(*v25).f2);
  *v31 = ((u32)0ULL);
  v32 = (fnptr_t**)&(*v25).f0;
  v33 = *v32;
  v34 = (fnptr_t*)(v33 + (s64)((s64)((u64)2ULL)));
  v35 = *v34;
  ((FT0)v35)(v25);
  v36 = *v32;
  v37 = (fnptr_t*)(v36 + (s64)((s64)((u64)3ULL)));
  v38 = *v37;
  ((FT0)v38)(v25);
  goto L13;
L8: ;
  v39 = *(&__libc_single_threaded);
  v40 = (v39 == ((u8)0ULL));
  if (v40) {
    goto L10;
  } else {
    goto L9;
  }
L9: ;
  v41 = *v27;
  v42 = ((u32)(v41 + ((u32)4294967295ULL)));
  *v27 = v42;
  v45 = v41;
  goto L11;
L10: ;
  v43 = *v27;
  v44 = ((u32)(v43 + ((u32)4294967295ULL)));
  *v27 = v44;
  v45 = v43;
  goto L11;
L11: ;
  v46 = (v45 == ((u32)1ULL));
  if (v46) {
    goto L12;
  } else {
    goto L13;
  }
L12: ;
  _ZNSt16_Sp_counted_baseILN9__gnu_cxx12_Lock_policyE2EE24_M_release_last_use_coldEv(v25);
  goto L13;
L13: ;
  return;
L14: ;
  v47.f0 = v_exc_obj;
  v47.f1 = 0;
  v_exc = 0;
  _ZN14OpenVolumeMesh11PropertyPtrIjNS_6Entity4EdgeEED2Ev(v0);
  v_exc = 1; return;
}

void _ZZNK14OpenVolumeMesh2IO16PropertyDecoderTIjNS0_6Codecs15SimplePropCodecINS2_9PrimitiveIjEEEEE16request_propertyERNS_15ResourceManagerENS_10EntityTypeERKNSt7__cxx1112basic_stringIcSt11char_traitsIcESaIcEEERKSt6vectorIhSaIhEEENKUlT_E_clINS_6Entity8HalfEdgeEEEDaSO_(struct S55_class_std__shared_ptr_348* a0, struct S56_class_anon_351* a1) {
  struct S44_class_OpenVolumeMesh__PropertyPtr_431* v0; struct S44_class_OpenVolumeMesh__PropertyPtr_431 v0_m;
  u8* v1;
  struct S52_class_OpenVolumeMesh__ResourceManager** v2;
  struct S52_class_OpenVolumeMesh__ResourceManager* v3;
  struct S27_class_std____cxx11__basic_string** v4;
  struct S27_class_std____cxx11__basic_string* v5;
  u32** v6;
  u32* v7;
  struct S52_class_OpenVolumeMesh__ResourceManager* v8;
  struct S38_class_OpenVolumeMesh__PropertyStorageT_3** v9;
  struct S38_class_OpenVolumeMesh__PropertyStorageT_3** v10;
  struct S38_class_OpenVolumeMesh__PropertyStorageT_3* v11;
  struct S13_class_std___Sp_counted_base** v12;
  struct S13_class_std___Sp_counted_base** v13;
  struct S13_class_std___Sp_counted_base* v14;
  u1 v15;
  u32* v16;
  u8 v17;
  u1 v18;
  u32 v19;
  u32 v20;
  u32 v21;
  u32 v22;
  fnptr_t** v23;
  struct S13_class_std___Sp_counted_base** v24;
  struct S13_class_std___Sp_counted_base* v25;
  u1 v26;
  u32* v27;
  u64* v28;
  u64 v29;
  u1 v30;
  u32* v31;
  fnptr_t** v32;
  fnptr_t* v33;
  fnptr_t* v34;
  fnptr_t v35;
  fnptr_t* v36;
  fnptr_t* v37;
  fnptr_t v38;
  u8 v39;
  u1 v40;
  u32 v41;
  u32 v42;
  u32 v43;
  u32 v44;
  u32 v45; u32 v45_t;
  u1 v46;
  struct S63 v47;
L0: ;
  v0 = &v0_m;
  v1 = (u8*)v0;
  v2 = (struct S52_class_OpenVolumeMesh__ResourceManager**)(&(*a1).f0);
  v3 = *v2;
  v4 = (struct S27_class_std____cxx11__basic_string**)(&(*a1).f1);
  v5 = *v4;
  v6 = (u32**)(&(*a1).f2);
  v7 = *v6;
  _ZN14OpenVolumeMesh15ResourceManager16request_propertyIjNS_6Entity8HalfEdgeEEENS_11PropertyPtrIT_T0_EERKNSt7__cxx1112basic_stringIcSt11char_traitsIcESaIcEEERKS5_(v0, v3, v5, v7);
  if (v_exc) return;
  v8 = *v2;
  _ZN14OpenVolumeMesh15ResourceManager14set_persistentIjNS_6Entity8HalfEdgeEEEvRNS_11PropertyPtrIT_T0_EEb(v8, v0, ((u1)1ULL));
  if (v_exc) {
    goto L14;
  }
  goto L1;
L1: ;
  v9 = (struct S38_class_OpenVolumeMesh__PropertyStorageT_3**)(&(*a0).f0.f0);
  v10 = (struct S38_class_OpenVolumeMesh__PropertyStorageT_3**)(&(*v0).f0.f0.f1.f0.f0);
  v11 = *v10;
  *v9 = v11;
  v12 = (struct S13_class_std___Sp_counted_base**)(&(*a0).f0.f1.f0);
  v13 = (struct S13_class_std___Sp_counted_base**)(&(*v0).f0.f0.f1.f0.f1.f0);
  v14 = *v13;
  *v12 = v14;
  v15 = ((u8*)v14 == (u8*)((struct S13_class_std___Sp_counted_base*)0));
  if (v15) {
    goto L5;
  } else {
    goto L2;
  }
L2: ;
  v16 = (u32*)(&(*v14).f1);
  v17 = *(&__libc_single_threaded);
  v18 = (v17 == ((u8)0ULL));
  if (v18) {
    goto L4;
  } else {
    goto L3;
  }
L3: ;
  v19 = *v16;
  v20 = ((u32)(v19 + ((u32)1ULL)));
  *v16 = v20;
  goto L5;
L4: ;
  v21 = *v16;
  v22 = ((u32)(v21 + ((u32)1ULL)));
  *v16 = v22;
  goto L5;
L5: ;
  v23 = (fnptr_t**)(&(*v0).f0.f0.f0);
  *v23 = ((fnptr_t*)((u8**)(&(*(&_ZTVN14OpenVolumeMesh18PropertyStoragePtrIjEE)).f0.e[(s64)((s64)((u64)2ULL))])));
  v24 = (struct S13_class_std___Sp_counted_base**)(&(*v0).f0.f0.f1.f0.f1.f0);
  v25 = *v24;
  v26 = ((u8*)v25 == (u8*)((struct S13_class_std___Sp_counted_base*)0));
  if (v26) {
    goto L13;
  } else {
    goto L6;
  }
L6: ;
  v27 = (u32*)(&(*v25).f1);
  v28 = (u64*)v27;
  v29 = (((u64)(*v25).f1 << 0) | ((u64)(*v25).f2 << 32));
  v30 = (v29 == ((u64)4294967297ULL));
  if (v30) {
    goto L7;
  } else {
    goto L8;
  }
L7: ;
  *v27 = ((u32)0ULL);
  v31 = (u32*)(&(*v25).f2);
  *v31 = ((u32)0ULL);
  v32 = (fnptr_t**)&(*v25).f0;
  v33 = *v32;
  v34 = (fnptr_t*)(v33 + (s64)((s64)((u64)2ULL)));
  v35 = *v34;
  ((FT0)v35)(v25);
  v36 = *v32;
  v37 = (fnptr_t*)(v36 + (s64)((s64)((u64)3ULL)));
  v38 = *v37;
  ((FT0)v38)(v25);
  goto L13;
L8: ;
  v39 = *(&__libc_single_threaded);
  v40 = (v39 == ((u8)0ULL));
  if (v40) {
    goto L10;
  } else {
    goto L9;
  }
L9: ;
  v41 = *v27;
  v42 = ((u32)(v41 + ((u32)4294967295ULL)));
  *v27 = v42;
  v45 = v41;
  goto L11;
L10: ;
  v43 = *v27;
  v44 = ((u32)(v43 + ((u32)4294967295ULL)));
  *v27 = v44;
  v45 = v43;
  goto L11;
L11: ;
  v46 = (v45 == ((u32)1ULL));
  if (v46) {
    goto L12;
  } else {
    goto L13;
  }
L12: ;
  _ZNSt16_Sp_counted_baseILN9__gnu_cxx12_Lock_policyE2EE24_M_release_last_use_coldEv(v25);
  goto L13;
L13: ;
  return;
L14: ;
  v47.f0 = v_exc_obj;
  v47.f1 = 0;
  v_exc = 0;
  _ZN14OpenVolumeMesh11PropertyPtrIjNS_6Entity8HalfEdgeEED2Ev(v0);
  v_exc = 1; return;
}

void _ZZNK14OpenVolumeMesh2IO16PropertyDecoderTIjNS0_6Codecs15SimplePropCodecINS2_9PrimitiveIjEEEEE16request_propertyERNS_15ResourceManagerENS_10EntityTypeERKNSt7__cxx1112basic_stringIcSt11char_traitsIcESaIcEEERKSt6vectorIhSaIhEEENKUlT_E_clINS_6Entity4FaceEEEDaSO_(struct S55_class_std__shared_ptr_348* a0, struct S56_class_anon_351* a1) {
  struct S44_class_OpenVolumeMesh__PropertyPtr_431* v0; struct S44_class_OpenVolumeMesh__PropertyPtr_431 v0_m;
  u8* v1;
  struct S52_class_OpenVolumeMesh__ResourceManager** v2;
  struct S52_class_OpenVolumeMesh__ResourceManager* v3;
  struct S27_class_std____cxx11__basic_string** v4;
  struct S27_class_std____cxx11__basic_string* v5;
  u32** v6;
  u32* v7;
  struct S52_class_OpenVolumeMesh__ResourceManager* v8;
  struct S38_class_OpenVolumeMesh__PropertyStorageT_3** v9;
  struct S38_class_OpenVolumeMesh__PropertyStorageT_3** v10;
  struct S38_class_OpenVolumeMesh__PropertyStorageT_3* v11;
  struct S13_class_std___Sp_counted_base** v12;
  struct S13_class_std___Sp_counted_base** v13;
  struct S13_class_std___Sp_counted_base* v14;
  u1 v15;
  u32* v16;
  u8 v17;
  u1 v18;
  u32 v19;
  u32 v20;
  u32 v21;
  u32 v22;
  fnptr_t** v23;
  struct S13_class_std___Sp_counted_base** v24;
  struct S13_class_std___Sp_counted_base* v25;
  u1 v26;
  u32* v27;
  u64* v28;
  u64 v29;
  u1 v30;
  u32* v31;
  fnptr_t** v32;
  fnptr_t* v33;
  fnptr_t* v34;
  fnptr_t v35;
  fnptr_t* v36;
  fnptr_t* v37;
  fnptr_t v38;
  u8 v39;
  u1 v40;
  u32 v41;
  u32 v42;
  u32 v43;
  u32 v44;
  u32 v45; u32 v45_t;
  u1 v46;
  struct S63 v47;
L0: ;
  v0 = &v0_m;
  v1 = (u8*)v0;
  v2 = (struct S52_class_OpenVolumeMesh__ResourceManager**)(&(*a1).f0);
  v3 = *v2;
  v4 = (struct S27_class_std____cxx11__basic_string**)(&(*a1).f1);
  v5 = *v4;
  v6 = (u32**)(&(*a1).f2);
  v7 = *v6;
  _ZN14OpenVolumeMesh15ResourceManager16request_propertyIjNS_6Entity4FaceEEENS_11PropertyPtrIT_T0_EERKNSt7__cxx1112basic_stringIcSt11char_traitsIcESaIcEEERKS5_(v0, v3, v5, v7);
  if (v_exc) return;
  v8 = *v2;
  _ZN14OpenVolumeMesh15ResourceManager14set_persistentIjNS_6Entity4FaceEEEvRNS_11PropertyPtrIT_T0_EEb(v8, v0, ((u1)1ULL));
  if (v_exc) {
    goto L14;
  }
  goto L1;
L1: ;
  v9 = (struct S38_class_OpenVolumeMesh__PropertyStorageT_3**)(&(*a0).f0.f0);
  v10 = (struct S38_class_OpenVolumeMesh__PropertyStorageT_3**)(&(*v0).f0.f0.f1.f0.f0);
  v11 = *v10;
  *v9 = v11;
  v12 = (struct S13_class_std___Sp_counted_base**)(&(*a0).f0.f1.f0);
  v13 = (struct S13_class_std___Sp_counted_base**)(&(*v0).f0.f0.f1.f0.f1.f0);
  v14 = *v13;
  *v12 = v14;
  v15 = ((u8*)v14 == (u8*)((struct S13_class_std___Sp_counted_base*)0));
  if (v15) {
    goto L5;
  } else {
    goto L2;
  }
L2: ;
  v16 = (u32*)(&(*v14).f1);
  v17 = *(&__libc_single_threaded);
  v18 = (v17 == ((u8)0ULL));
  if (v18) {
    goto L4;
  } else {
    goto L3;
  }
L3: ;
  v19 = *v16;
  v20 = ((u32)(v19 + ((u32)1ULL)));
  *v16 = v20;
  goto L5;
L4: ;
  v21 = *v16;
  v22 = ((u32)(v21 + ((u32)1ULL)));
  *v16 = v22;
  goto L5;
L5: ;
  v23 = (fnptr_t**)(&(*v0).f0.f0.f0);
  *v23 = ((fnptr_t*)((u8**)(&(*(&_ZTVN14OpenVolumeMesh18PropertyStoragePtrIjEE)).f0.e[(s64)((s64)((u64)2ULL))])));
  v24 = (struct S13_class_std___Sp_counted_base**)(&(*v0).f0.f0.f1.f0.f1.f0);
  v25 = *v24;
  v26 = ((u8*)v25 == (u8*)((struct S13_class_std___Sp_counted_base*)0));
  if (v26) {
    goto L13;
  } else {
    goto L6;
  }
L6: ;
  v27 = (u32*)(&(*v25).f1);
  v28 = (u64*)v27;
  v29 = (((u64)(*v25).f1 << 0) | ((u64)(*v25).f2 << 32));
  v30 = (v29 == ((u64)4294967297ULL));
  if (v30) {
    goto L7;
  } else {
    goto L8;
  }
L7: ;
  *v27 = ((u32)0ULL);
  v31 = (u32*)(&(*v25).f2);
  *v31 = ((u32)0ULL);
  v32 = (fnptr_t**)&(*v25).f0;
  v33 = *v32;
  v34 = (fnptr_t*)(v33 + (s64)((s64)((u64)2ULL)));
  v35 = *v34;
  ((FT0)v35)(v25);
  v36 = *v32;
  v37 = (fnptr_t*)(v36 + (s64)((s64)((u64)3ULL)));
  v38 = *v37;
  ((FT0)v38)(v25);
  goto L13;
L8: ;
  v39 = *(&__libc_single_threaded);
  v40 = (v39 == ((u8)0ULL));
  if (v40) {
    goto L10;
  } else {
    goto L9;
  }
L9: ;
  v41 = *v27;
  v42 = ((u32)(v41 + ((u32)4294967295ULL)));
  *v27 = v42;
  v45 = v41;
  goto L11;
L10: ;
  v43 = *v27;
  v44 = ((u32)(v43 + ((u32)4294967295ULL)));
  *v27 = v44;
  v45 = v43;
  goto L11;
L11: ;
  v46 = (v45 == ((u32)1ULL));
  if (v46) {
    goto L12;
  } else {
    goto L13;
  }
L12: ;
  _ZNSt16_Sp_counted_baseILN9__gnu_cxx12_Lock_policyE2EE24_M_release_last_use_coldEv(v25);
  goto L13;
L13: ;
  return;
L14: ;
  v47.f0 = v_exc_obj;
  v47.f1 = 0;
  v_exc = 0;
  _ZN14OpenVolumeMesh11PropertyPtrIjNS_6Entity4FaceEED2Ev(v0);
  v_exc = 1; return;
}

void _ZZNK14OpenVolumeMesh2IO16PropertyDecoderTIjNS0_6Codecs15SimplePropCodecINS2_9PrimitiveIjEEEEE16request_propertyERNS_15ResourceManagerENS_10EntityTypeERKNSt7__cxx1112basic_stringIcSt11char_traitsIcESaIcEEERKSt6vectorIhSaIhEEENKUlT_E_clINS_6Entity8HalfFaceEEEDaSO_(struct S55_class_std__shared_ptr_348* a0, struct S56_class_anon_351* a1) {
  struct S44_class_OpenVolumeMesh__PropertyPtr_431* v0; struct S44_class_OpenVolumeMesh__PropertyPtr_431 v0_m;
  u8* v1;
  struct S52_class_OpenVolumeMesh__ResourceManager** v2;
  struct S52_class_OpenVolumeMesh__ResourceManager* v3;
  struct S27_class_std____cxx11__basic_string** v4;
  struct S27_class_std____cxx11__basic_string* v5;
  u32** v6;
  u32* v7;
  struct S52_class_OpenVolumeMesh__ResourceManager* v8;
  struct S38_class_OpenVolumeMesh__PropertyStorageT_3** v9;
  struct S38_class_OpenVolumeMesh__PropertyStorageT_3** v10;
  struct S38_class_OpenVolumeMesh__PropertyStorageT_3* v11;
  struct S13_class_std___Sp_counted_base** v12;
  struct S13_class_std___Sp_counted_base** v13;
  struct S13_class_std___Sp_counted_base* v14;
  u1 v15;
  u32* v16;
  u8 v17;
  u1 v18;
  u32 v19;
  u32 v20;
  u32 v21;
  u32 v22;
  fnptr_t** v23;
  struct S13_class_std___Sp_counted_base** v24;
  struct S13_class_std___Sp_counted_base* v25;
  u1 v26;
  u32* v27;
  u64* v28;
  u64 v29;
  u1 v30;
  u32* v31;
  fnptr_t** v32;
  fnptr_t* v33;
  fnptr_t* v34;
  fnptr_t v35;
  fnptr_t* v36;
  fnptr_t* v37;
  fnptr_t v38;
  u8 v39;
  u1 v40;
  u32 v41;
  u32 v42;
  u32 v43;
  u32 v44;
  u32 v45; u32 v45_t;
  u1 v46;
  struct S63 v47;
L0: ;
  v0 = &v0_m;
  v1 = (u8*)v0;
  v2 = (struct S52_class_OpenVolumeMesh__ResourceManager**)(&(*a1).f0);
  v3 = *v2;
  v4 = (struct S27_class_std____cxx11__basic_string**)(&(*a1).f1);
  v5 = *v4;
  v6 = (u32**)(&(*a1).f2);
  v7 = *v6;
  _ZN14OpenVolumeMesh15ResourceManager16request_propertyIjNS_6Entity8HalfFaceEEENS_11PropertyPtrIT_T0_EERKNSt7__cxx1112basic_stringIcSt11char_traitsIcESaIcEEERKS5_(v0, v3, v5, v7);
  if (v_exc) return;
  v8 = *v2;
  _ZN14OpenVolumeMesh15ResourceManager14set_persistentIjNS_6Entity8HalfFaceEEEvRNS_11PropertyPtrIT_T0_EEb(v8, v0, ((u1)1ULL));
  if (v_exc) {
    goto L14;
  }
  goto L1;
L1: ;
  v9 = (struct S38_class_OpenVolumeMesh__PropertyStorageT_3**)(&(*a0).f0.f0);
  v10 = (struct S38_class_OpenVolumeMesh__PropertyStorageT_3**)(&(*v0).f0.f0.f1.f0.f0);
  v11 = *v10;
  *v9 = v11;
  v12 = (struct S13_class_std___Sp_counted_base**)(&(*a0).f0.f1.f0);
  v13 = (struct S13_class_std___Sp_counted_base**)(&(*v0).f0.f0.f1.f0.f1.f0);
  v14 = *v13;
  *v12 = v14;
  v15 = ((u8*)v14 == (u8*)((struct S13_class_std___Sp_counted_base*)0));
  if (v15) {
    goto L5;
  } else {
    goto L2;
  }
L2: ;
  v16 = (u32*)(&(*v14).f1);
  v17 = *(&__libc_single_threaded);
  v18 = (v17 == ((u8)0ULL));
  if (v18) {
    goto L4;
  } else {
    goto L3;
  }
L3: ;
  v19 = *v16;
  v20 = ((u32)(v19 + ((u32)1ULL)));
  *v16 = v20;
  goto L5;
L4: ;
  v21 = *v16;
  v22 = ((u32)(v21 + ((u32)1ULL)));
  *v16 = v22;
  goto L5;
L5: ;
  v23 = (fnptr_t**)(&(*v0).f0.f0.f0);
  *v23 = ((fnptr_t*)((u8**)(&(*(&_ZTVN14OpenVolumeMesh18PropertyStoragePtrIjEE)).f0.e[(s64)((s64)((u64)2ULL))])));
  v24 = (struct S13_class_std___Sp_counted_base**)(&(*v0).f0.f0.f1.f0.f1.f0);
  v25 = *v24;
  v26 = ((u8*)v25 == (u8*)((struct S13_class_std___Sp_counted_base*)0));
  if (v26) {
    goto L13;
  } else {
    goto L6;
  }
L6: ;
  v27 = (u32*)(&(*v25).f1);
  v28 = (u64*)v27;
  v29 = (((u64)(*v25).f1 << 0) | ((u64)(*v25).f2 << 32));
  v30 = (v29 == ((u64)4294967297ULL));
  if (v30) {
    goto L7;
  } else {
    goto L8;
  }
L7: ;
  *v27 = ((u32)0ULL);
  v31 = (u32*)(&(*v25).f2);
  *v31 = ((u32)0ULL);
  v32 = (fnptr_t**)&(*v25).f0;
  v33 = *v32;
  v34 = (fnptr_t*)(v33 + (s64)((s64)((u64)2ULL)));
  v35 = *v34;
  ((FT0)v35)(v25);
  v36 = *v32;
  v37 = (fnptr_t*)(v36 + (s64)((s64)((u64)3ULL)));
  v38 = *v37;
  ((FT0)v38)(v25);
  goto L13;
L8: ;
  v39 = *(&__libc_single_threaded);
  v40 = (v39 == ((u8)0ULL));
  if (v40) {
    goto L10;
  } else {
    goto L9;
  }
L9: ;
  v41 = *v27;
  v42 = ((u32)(v41 + ((u32)4294967295ULL)));
  *v27 = v42;
  v45 = v41;
  goto L11;
L10: ;
  v43 = *v27;
  v44 = ((u32)(v43 + ((u32)4294967295ULL)));
  *v27 = v44;
  v45 = v43;
  goto L11;
L11: ;
  v46 = (v45 == ((u32)1ULL));
  if (v46) {
    goto L12;
  } else {
    goto L13;
  }
L12: ;
  _ZNSt16_Sp_counted_baseILN9__gnu_cxx12_Lock_policyE2EE24_M_release_last_use_coldEv(v25);
  goto L13;
L13: ;
  return;
L14: ;
  v47.f0 = v_exc_obj;
  v47.f1 = 0;
  v_exc = 0;
  _ZN14OpenVolumeMesh11PropertyPtrIjNS_6Entity8HalfFaceEED2Ev(v0);
  v_exc = 1; return;
}

void _ZZNK14OpenVolumeMesh2IO16PropertyDecoderTIjNS0_6Codecs15SimplePropCodecINS2_9PrimitiveIjEEEEE16request_propertyERNS_15ResourceManagerENS_10EntityTypeERKNSt7__cxx1112basic_stringIcSt11char_traitsIcESaIcEEERKSt6vectorIhSaIhEEENKUlT_E_clINS_6Entity4CellEEEDaSO_(struct S55_class_std__shared_ptr_348* a0, struct S56_class_anon_351* a1) {
  struct S44_class_OpenVolumeMesh__PropertyPtr_431* v0; struct S44_class_OpenVolumeMesh__PropertyPtr_431 v0_m;
  u8* v1;
  struct S52_class_OpenVolumeMesh__ResourceManager** v2;
  struct S52_class_OpenVolumeMesh__ResourceManager* v3;
  struct S27_class_std____cxx11__basic_string** v4;
  struct S27_class_std____cxx11__basic_string* v5;
  u32** v6;
  u32* v7;
  struct S52_class_OpenVolumeMesh__ResourceManager* v8;
  struct S38_class_OpenVolumeMesh__PropertyStorageT_3** v9;
  struct S38_class_OpenVolumeMesh__PropertyStorageT_3** v10;
  struct S38_class_OpenVolumeMesh__PropertyStorageT_3* v11;
  struct S13_class_std___Sp_counted_base** v12;
  struct S13_class_std___Sp_counted_base** v13;
  struct S13_class_std___Sp_counted_base* v14;
  u1 v15;
  u32* v16;
  u8 v17;
  u1 v18;
  u32 v19;
  u32 v20;
  u32 v21;
  u32 v22;
  fnptr_t** v23;
  struct S13_class_std___Sp_counted_base** v24;
  struct S13_class_std___Sp_counted_base* v25;
  u1 v26;
  u32* v27;
  u64* v28;
  u64 v29;
  u1 v30;
  u32* v31;
  fnptr_t** v32;
  fnptr_t* v33;
  fnptr_t* v34;
  fnptr_t v35;
  fnptr_t* v36;
  fnptr_t* v37;
  fnptr_t v38;
  u8 v39;
  u1 v40;
  u32 v41;
  u32 v42;
  u32 v43;
  u32 v44;
  u32 v45; u32 v45_t;
  u1 v46;
  struct S63 v47;
L0: ;
  v0 = &v0_m;
  v1 = (u8*)v0;
  v2 = (struct S52_class_OpenVolumeMesh__ResourceManager**)(&(*a1).f0);
  v3 = *v2;
  v4 = (struct S27_class_std____cxx11__basic_string**)(&(*a1).f1);
  v5 = *v4;
  v6 = (u32**)(&(*a1).f2);
  v7 = *v6;
  _ZN14OpenVolumeMesh15ResourceManager16request_propertyIjNS_6Entity4CellEEENS_11PropertyPtrIT_T0_EERKNSt7__cxx1112basic_stringIcSt11char_traitsIcESaIcEEERKS5_(v0, v3, v5, v7);
  if (v_exc) return;
  v8 = *v2;
  _ZN14OpenVolumeMesh15ResourceManager14set_persistentIjNS_6Entity4CellEEEvRNS_11PropertyPtrIT_T0_EEb(v8, v0, ((u1)1ULL));
  if (v_exc) {
    goto L14;
  }
  goto L1;
L1: ;
  v9 = (struct S38_class_OpenVolumeMesh__PropertyStorageT_3**)(&(*a0).f0.f0);
  v10 = (struct S38_class_OpenVolumeMesh__PropertyStorageT_3**)(&(*v0).f0.f0.f1.f0.f0);
  v11 = *v10;
  *v9 = v11;
  v12 = (struct S13_class_std___Sp_counted_base**)(&(*a0).f0.f1.f0);
  v13 = (struct S13_class_std___Sp_counted_base**)(&(*v0).f0.f0.f1.f0.f1.f0);
  v14 = *v13;
  *v12 = v14;
  v15 = ((u8*)v14 == (u8*)((struct S13_class_std___Sp_counted_base*)0));
  if (v15) {
    goto L5;
  } else {
    goto L2;
  }
L2: ;
  v16 = (u32*)(&(*v14).f1);
  v17 = *(&__libc_single_threaded);
  v18 = (v17 == ((u8)0ULL));
  if (v18) {
    goto L4;
  } else {
    goto L3;
  }
L3: ;
  v19 = *v16;
  v20 = ((u32)(v19 + ((u32)1ULL)));
  *v16 = v20;
  goto L5;
L4: ;
  v21 = *v16;
  v22 = ((u32)(v21 + ((u32)1ULL)));
  *v16 = v22;
  goto L5;
L5: ;
  v23 = (fnptr_t**)(&(*v0).f0.f0.f0);
  *v23 = ((fnptr_t*)((u8**)(&(*(&_ZTVN14OpenVolumeMesh18PropertyStoragePtrIjEE)).f0.e[(s64)((s64)((u64)2ULL))])));
  v24 = (struct S13_class_std___Sp_counted_base**)(&(*v0).f0.f0.f1.f0.f1.f0);
  v25 = *v24;
  v26 = ((u8*)v25 == (u8*)((struct S13_class_std___Sp_counted_base*)0));
  if (v26) {
    goto L13;
  } else {
    goto L6;
  }
L6: ;
  v27 = (u32*)(&(*v25).f1);
  v28 = (u64*)v27;
  v29 = (((u64)(*v25).f1 << 0) | ((u64)(*v25).f2 << 32));
  v30 = (v29 == ((u64)4294967297ULL));
  if (v30) {
    goto L7;
  } else {
    goto L8;
  }
L7: ;
  *v27 = ((u32)0ULL);
  v31 = (u32*)(&(*v25).f2);
  *v31 = ((u32)0ULL);
  v32 = (fnptr_t**)&(*v25).f0;
  v33 = *v32;
  v34 = (fnptr_t*)(v33 + (s64)((s64)((u64)2ULL)));
  v35 = *v34;
  ((FT0)v35)(v25);
  v36 = *v32;
  v37 = (fnptr_t*)(v36 + (s64)((s64)((u64)3ULL)));
  v38 = *v37;
  ((FT0)v38)(v25);
  goto L13;
L8: ;
  v39 = *(&__libc_single_threaded);
  v40 = (v39 == ((u8)0ULL));
  if (v40) {
    goto L10;
  } else {
    goto L9;
  }
L9: ;
  v41 = *v27;
  v42 = ((u32)(v41 + ((u32)4294967295ULL)));
  *v27 = v42;
  v45 = v41;
  goto L11;
L10: ;
  v43 = *v27;
  v44 = ((u32)(v43 + ((u32)4294967295ULL)));
  *v27 = v44;
  v45 = v43;
  goto L11;
L11: ;
  v46 = (v45 == ((u32)1ULL));
  if (v46) {
    goto L12;
  } else {
    goto L13;
  }
L12: ;
  _ZNSt16_Sp_counted_baseILN9__gnu_cxx12_Lock_policyE2EE24_M_release_last_use_coldEv(v25);
  goto L13;
L13: ;
  return;
L14: ;
  v47.f0 = v_exc_obj;
  v47.f1 = 0;
  v_exc = 0;
  _ZN14OpenVolumeMesh11PropertyPtrIjNS_6Entity4CellEED2Ev(v0);
  v_exc = 1; return;
}

void _ZZNK14OpenVolumeMesh2IO16PropertyDecoderTIjNS0_6Codecs15SimplePropCodecINS2_9PrimitiveIjEEEEE16request_propertyERNS_15ResourceManagerENS_10EntityTypeERKNSt7__cxx1112basic_stringIcSt11char_traitsIcESaIcEEERKSt6vectorIhSaIhEEENKUlT_E_clINS_6Entity4MeshEEEDaSO_(struct S55_class_std__shared_ptr_348* a0, struct S56_class_anon_351* a1) {
  struct S44_class_OpenVolumeMesh__PropertyPtr_431* v0; struct S44_class_OpenVolumeMesh__PropertyPtr_431 v0_m;
  u8* v1;
  struct S52_class_OpenVolumeMesh__ResourceManager** v2;
  struct S52_class_OpenVolumeMesh__ResourceManager* v3;
  struct S27_class_std____cxx11__basic_string** v4;
  struct S27_class_std____cxx11__basic_string* v5;
  u32** v6;
  u32* v7;
  struct S52_class_OpenVolumeMesh__ResourceManager* v8;
  struct S38_class_OpenVolumeMesh__PropertyStorageT_3** v9;
  struct S38_class_OpenVolumeMesh__PropertyStorageT_3** v10;
  struct S38_class_OpenVolumeMesh__PropertyStorageT_3* v11;
  struct S13_class_std___Sp_counted_base** v12;
  struct S13_class_std___Sp_counted_base** v13;
  struct S13_class_std___Sp_counted_base* v14;
  u1 v15;
  u32* v16;
  u8 v17;
  u1 v18;
  u32 v19;
  u32 v20;
  u32 v21;
  u32 v22;
  fnptr_t** v23;
  struct S13_class_std___Sp_counted_base** v24;
  struct S13_class_std___Sp_counted_base* v25;
  u1 v26;
  u32* v27;
  u64* v28;
  u64 v29;
  u1 v30;
  u32* v31;
  fnptr_t** v32;
  fnptr_t* v33;
  fnptr_t* v34;
  fnptr_t v35;
  fnptr_t* v36;
  fnptr_t* v37;
  fnptr_t v38;
  u8 v39;
  u1 v40;
  u32 v41;
  u32 v42;
  u32 v43;
  u32 v44;
  u32 v45; u32 v45_t;
  u1 v46;
  struct S63 v47;
L0: ;
  v0 = &v0_m;
  v1 = (u8*)v0;
  v2 = (struct S52_class_OpenVolumeMesh__ResourceManager**)(&(*a1).f0);
  v3 = *v2;
  v4 = (struct S27_class_std____cxx11__basic_string**)(&(*a1).f1);
  v5 = *v4;
  v6 = (u32**)(&(*a1).f2);
  v7 = *v6;
  _ZN14OpenVolumeMesh15ResourceManager16request_propertyIjNS_6Entity4MeshEEENS_11PropertyPtrIT_T0_EERKNSt7__cxx1112basic_stringIcSt11char_traitsIcESaIcEEERKS5_(v0, v3, v5, v7);
  if (v_exc) return;
  v8 = *v2;
  _ZN14OpenVolumeMesh15ResourceManager14set_persistentIjNS_6Entity4MeshEEEvRNS_11PropertyPtrIT_T0_EEb(v8, v0, ((u1)1ULL));
  if (v_exc) {
    goto L14;
  }
  goto L1;
L1: ;
  v9 = (struct S38_class_OpenVolumeMesh__PropertyStorageT_3**)(&(*a0).f0.f0);
  v10 = (struct S38_class_OpenVolumeMesh__PropertyStorageT_3**)(&(*v0).f0.f0.f1.f0.f0);
  v11 = *v10;
  *v9 = v11;
  v12 = (struct S13_class_std___Sp_counted_base**)(&(*a0).f0.f1.f0);
  v13 = (struct S13_class_std___Sp_counted_base**)(&(*v0).f0.f0.f1.f0.f1.f0);
  v14 = *v13;
  *v12 = v14;
  v15 = ((u8*)v14 == (u8*)((struct S13_class_std___Sp_counted_base*)0));
  if (v15) {
    goto L5;
  } else {
    goto L2;
  }
L2: ;
  v16 = (u32*)(&(*v14).f1);
  v17 = *(&__libc_single_threaded);
  v18 = (v17 == ((u8)0ULL));
  if (v18) {
    goto L4;
  } else {
    goto L3;
  }
L3: ;
  v19 = *v16;
  v20 = ((u32)(v19 + ((u32)1ULL)));
  *v16 = v20;
  goto L5;
L4: ;
  v21 = *v16;
  v22 = ((u32)(v21 + ((u32)1ULL)));
  *v16 = v22;
  goto L5;
L5: ;
  v23 = (fnptr_t**)(&(*v0).f0.f0.f0);
  *v23 = ((fnptr_t*)((u8**)(&(*(&_ZTVN14OpenVolumeMesh18PropertyStoragePtrIjEE)).f0.e[(s64)((s64)((u64)2ULL))])));
  v24 = (struct S13_class_std___Sp_counted_base**)(&(*v0).f0.f0.f1.f0.f1.f0);
  v25 = *v24;
  v26 = ((u8*)v25 == (u8*)((struct S13_class_std___Sp_counted_base*)0));
  if (v26) {
    goto L13;
  } else {
    goto L6;
  }
L6: ;
  v27 = (u32*)(&(*v25).f1);
  v28 = (u64*)v27;
  v29 = (((u64)(*v25).f1 << 0) | ((u64)(*v25).f2 << 32));
  v30 = (v29 == ((u64)4294967297ULL));
  if (v30) {
    goto L7;
  } else {
    goto L8;
  }
L7: ;
  *v27 = ((u32)0ULL);
  v31 = (u32*)(&(*v25).f2);
  *v31 = ((u32)0ULL);
  v32 = (fnptr_t**)&(*v25).f0;
  v33 = *v32;
  v34 = (fnptr_t*)(v33 + (s64)((s64)((u64)2ULL)));
  v35 = *v34;
  ((FT0)v35)(v25);
  v36 = *v32;
  v37 = (fnptr_t*)(v36 + (s64)((s64)((u64)3ULL)));
  v38 = *v37;
  ((FT0)v38)(v25);
  goto L13;
L8: ;
  v39 = *(&__libc_single_threaded);
  v40 = (v39 == ((u8)0ULL));
  if (v40) {
    goto L10;
  } else {
    goto L9;
  }
L9: ;
  v41 = *v27;
  v42 = ((u32)(v41 + ((u32)4294967295ULL)));
  *v27 = v42;
  v45 = v41;
  goto L11;
L10: ;
  v43 = *v27;
  v44 = ((u32)(v43 + ((u32)4294967295ULL)));
  *v27 = v44;
  v45 = v43;
  goto L11;
L11: ;
  v46 = (v45 == ((u32)1ULL));
  if (v46) {
    goto L12;
  } else {
    goto L13;
  }
L12: ;
  _ZNSt16_Sp_counted_baseILN9__gnu_cxx12_Lock_policyE2EE24_M_release_last_use_coldEv(v25);
  goto L13;
L13: ;
  return;
L14: ;
  v47.f0 = v_exc_obj;
  v47.f1 = 0;
  v_exc = 0;
  _ZN14OpenVolumeMesh11PropertyPtrIjNS_6Entity4MeshEED2Ev(v0);
  v_exc = 1; return;
}

void _ZN14OpenVolumeMesh15ResourceManager16request_propertyIjNS_6Entity4MeshEEENS_11PropertyPtrIT_T0_EERKNSt7__cxx1112basic_stringIcSt11char_traitsIcESaIcEEERKS5_(struct S44_class_OpenVolumeMesh__PropertyPtr_431* a0, struct S52_class_OpenVolumeMesh__ResourceManager* a1, struct S27_class_std____cxx11__basic_string* a2, u32* a3) {
  u64* v0; u64 v0_m;
  struct S57_class_std__optional_433* v1; struct S57_class_std__optional_433 v1_m;
  struct S27_class_std____cxx11__basic_string* v2; struct S27_class_std____cxx11__basic_string v2_m;
  u8* v3;
  u8* v4;
  u8 v5;
  u1 v6;
  fnptr_t** v7;
  struct S38_class_OpenVolumeMesh__PropertyStorageT_3** v8;
  struct S38_class_OpenVolumeMesh__PropertyStorageT_3** v9;
  struct S38_class_OpenVolumeMesh__PropertyStorageT_3* v10;
  struct S13_class_std___Sp_counted_base** v11;
  struct S13_class_std___Sp_counted_base** v12;
  struct S13_class_std___Sp_counted_base* v13;
  u1 v14;
  u32* v15;
  u8 v16;
  u1 v17;
  u32 v18;
  u32 v19;
  u32 v20;
  u32 v21;
  fnptr_t** v22;
  u64* v23;
  u64 v24;
  u1 v25;
  struct S66_union_anon* v26;
  struct S66_union_anon** v27;
  u8** v28;
  u8* v29;
  u8* v30;
  u1 v31;
  u8* v32;
  u8** v33;
  u64 v34;
  u64* v35;
  u8** v36;
  u8* v37;
  u8 v38;
  u64 v39;
  u64* v40;
  u8* v41;
  u8* v42;
  u8* v43;
  u8* v44;
  u1 v45;
  struct S63 v46;
  struct S63 v47;
  u8* v48;
  u8* v49;
  u1 v50;
  struct S63 v51; struct S63 v51_t;
  struct S58_struct_std___Optional_base_434* v52;
  u8* v53;
  u8 v54;
  u1 v55;
  fnptr_t** v56;
  struct S13_class_std___Sp_counted_base** v57;
  struct S13_class_std___Sp_counted_base* v58;
  u1 v59;
  u32* v60;
  u64* v61;
  u64 v62;
  u1 v63;
  u32* v64;
  fnptr_t** v65;
  fnptr_t* v66;
  fnptr_t* v67;
  fnptr_t v68;
  fnptr_t* v69;
  fnptr_t* v70;
  fnptr_t v71;
  u8 v72;
  u1 v73;
  u32 v74;
  u32 v75;
  u32 v76;
  u32 v77;
  u32 v78; u32 v78_t;
  u1 v79;
L0: ;
  v0 = &v0_m;
  v1 = &v1_m;
  v2 = &v2_m;
  v3 = (u8*)v1;
  _ZNK14OpenVolumeMesh15ResourceManager22internal_find_propertyIjNS_6Entity4MeshEEESt8optionalINS_11PropertyPtrIT_T0_EEERKNSt7__cxx1112basic_stringIcSt11char_traitsIcESaIcEEE(v1, a1, a2);
  if (v_exc) return;
  v4 = (u8*)(&(*v1).f0.f0.f0.f0.f1);
  v5 = *v4;
  v6 = (v5 == ((u8)0ULL));
  if (v6) {
    goto L6;
  } else {
    goto L1;
  }
L1: ;
  v7 = (fnptr_t**)(&(*a0).f0.f0.f0);
  *v7 = ((fnptr_t*)((u8**)(&(*(&_ZTVN14OpenVolumeMesh18PropertyStoragePtrIjEE)).f0.e[(s64)((s64)((u64)2ULL))])));
  v8 = (struct S38_class_OpenVolumeMesh__PropertyStorageT_3**)(&(*a0).f0.f0.f1.f0.f0);
  v9 = (struct S38_class_OpenVolumeMesh__PropertyStorageT_3**)(&(*v1).f0.f0.f0.f0.f0.f0.f0.f0.f1.f0.f0);
  v10 = *v9;
  *v8 = v10;
  v11 = (struct S13_class_std___Sp_counted_base**)(&(*a0).f0.f0.f1.f0.f1.f0);
  v12 = (struct S13_class_std___Sp_counted_base**)(&(*v1).f0.f0.f0.f0.f0.f0.f0.f0.f1.f0.f1.f0);
  v13 = *v12;
  *v11 = v13;
  v14 = ((u8*)v13 == (u8*)((struct S13_class_std___Sp_counted_base*)0));
  if (v14) {
    goto L5;
  } else {
    goto L2;
  }
L2: ;
  v15 = (u32*)(&(*v13).f1);
  v16 = *(&__libc_single_threaded);
  v17 = (v16 == ((u8)0ULL));
  if (v17) {
    goto L4;
  } else {
    goto L3;
  }
L3: ;
  v18 = *v15;
  v19 = ((u32)(v18 + ((u32)1ULL)));
  *v15 = v19;
  goto L5;
L4: ;
  v20 = *v15;
  v21 = ((u32)(v20 + ((u32)1ULL)));
  *v15 = v21;
  goto L5;
L5: ;
  *v7 = ((fnptr_t*)((u8**)(&(*(&_ZTVN14OpenVolumeMesh14HandleIndexingINS_6Entity4MeshENS_18PropertyStoragePtrIjEEEE)).f0.e[(s64)((s64)((u64)2ULL))])));
  v22 = (fnptr_t**)(&(*a0).f1.f0);
  *v22 = ((fnptr_t*)((u8**)(&(*(&_ZTVN14OpenVolumeMesh15BasePropertyPtrE)).f0.e[(s64)((s64)((u64)2ULL))])));
  *v7 = ((fnptr_t*)((u8**)(&(*(&_ZTVN14OpenVolumeMesh11PropertyPtrIjNS_6Entity4MeshEEE)).f0.e[(s64)((s64)((u64)2ULL))])));
  *v22 = ((fnptr_t*)((u8**)(&(*(&_ZTVN14OpenVolumeMesh11PropertyPtrIjNS_6Entity4MeshEEE)).f1.e[(s64)((s64)((u64)2ULL))])));
  goto L19;
L6: ;
  v23 = (u64*)(&(*a2).f1);
  v24 = *v23;
  v25 = (v24 != ((u64)0ULL));
  v26 = (struct S66_union_anon*)(&(*v2).f2);
  v27 = (struct S66_union_anon**)&(*v2).f0.f0;
  *v27 = v26;
  v28 = (u8**)(&(*a2).f0.f0);
  v29 = *v28;
  v30 = (u8*)v0;
  *v0 = v24;
  v31 = (v24 > ((u64)15ULL));
  if (v31) {
    goto L7;
  } else {
    goto L9;
  }
L7: ;
  v32 = _ZNSt7__cxx1112basic_stringIcSt11char_traitsIcESaIcEE9_M_createERmm(v2, v0, ((u64)0ULL));
  if (v_exc) {
    goto L15;
  }
  goto L8;
L8: ;
  v33 = (u8**)(&(*v2).f0.f0);
  *v33 = v32;
  v34 = *v0;
  v35 = (u64*)(&(*v2).f2.f0.e[0]);
  *v35 = v34;
  goto L9;
L9: ;
  v36 = (u8**)(&(*v2).f0.f0);
  v37 = *v36;
  switch (v24) {
  case ((u64)1ULL): {
    goto L10;
  }
  case ((u64)0ULL): {
    goto L12;
  }
  default: {
    goto L11;
  }
  }
L10: ;
  v38 = *v29;
  *v37 = v38;
  goto L12;
L11: ;
  v_memcpy((u8*)v37, (u8*)v29, (u64)v24);
  goto L12;
L12: ;
  v39 = *v0;
  v40 = (u64*)(&(*v2).f1);
  *v40 = v39;
  v41 = *v36;
  v42 = (u8*)(v41 + (s64)((s64)v39));
  *v42 = ((u8)0ULL);
  _ZNK14OpenVolumeMesh15ResourceManager24internal_create_propertyIjNS_6Entity4MeshEEENS_11PropertyPtrIT_T0_EENSt7__cxx1112basic_stringIcSt11char_traitsIcESaIcEEERKS5_b(a0, a1, v2, a3, v25);
  if (v_exc) {
    goto L16;
  }
  goto L13;
L13: ;
  v43 = *v36;
  v44 = (u8*)v26;
  v45 = ((u8*)v43 == (u8*)v44);
  if (v45) {
    goto L19;
  } else {
    goto L14;
  }
L14: ;
  _ZdlPv(v43);
  goto L19;
L15: ;
  v46.f0 = v_exc_obj;
  v46.f1 = 0;
  v_exc = 0;
  v51 = v46;
  goto L18;
L16: ;
  v47.f0 = v_exc_obj;
  v47.f1 = 0;
  v_exc = 0;
  v48 = *v36;
  v49 = (u8*)v26;
  v50 = ((u8*)v48 == (u8*)v49);
  if (v50) {
    v51 = v47;
    goto L18;
  } else {
    goto L17;
  }
L17: ;
  _ZdlPv(v48);
  v51 = v47;
  goto L18;
L18: ;
  v52 = (struct S58_struct_std___Optional_base_434*)(&(*v1).f0);
  _ZNSt14_Optional_baseIN14OpenVolumeMesh11PropertyPtrIjNS0_6Entity4MeshEEELb0ELb0EED2Ev(v52);
  v_exc = 1; return;
L19: ;
  v53 = (u8*)(&(*v1).f0.f0.f0.f0.f1);
  v54 = *v53;
  v55 = (v54 == ((u8)0ULL));
  if (v55) {
    goto L28;
  } else {
    goto L20;
  }
L20: ;
  *v53 = ((u8)0ULL);
  v56 = (fnptr_t**)(&(*v1).f0.f0.f0.f0.f0.f0.f0.f0.f0);
  *v56 = ((fnptr_t*)((u8**)(&(*(&_ZTVN14OpenVolumeMesh18PropertyStoragePtrIjEE)).f0.e[(s64)((s64)((u64)2ULL))])));
  v57 = (struct S13_class_std___Sp_counted_base**)(&(*v1).f0.f0.f0.f0.f0.f0.f0.f0.f1.f0.f1.f0);
  v58 = *v57;
  v59 = ((u8*)v58 == (u8*)((struct S13_class_std___Sp_counted_base*)0));
  if (v59) {
    goto L28;
  } else {
    goto L21;
  }
L21: ;
  v60 = (u32*)(&(*v58).f1);
  v61 = (u64*)v60;
  v62 = (((u64)(*v58).f1 << 0) | ((u64)(*v58).f2 << 32));
  v63 = (v62 == ((u64)4294967297ULL));
  if (v63) {
    goto L22;
  } else {
    goto L23;
  }
L22: ;
  *v60 = ((u32)0ULL);
  v64 = (u32*)(&(*v58).f2);
  *v64 = ((u32)0ULL);
  v65 = (fnptr_t**)&(*v58).f0;
  v66 = *v65;
  v67 = (fnptr_t*)(v66 + (s64)((s64)((u64)2ULL)));
  v68 = *v67;
  ((FT0)v68)(v58);
  v69 = *v65;
  v70 = (fnptr_t*)(v69 + (s64)((s64)((u64)3ULL)));
  v71 = *v70;
  ((FT0)v71)(v58);
  goto L28;
L23: ;
  v72 = *(&__libc_single_threaded);
  v73 = (v72 == ((u8)0ULL));
  if (v73) {
    goto L25;
  } else {
    goto L24;
  }
L24: ;
  v74 = *v60;
  v75 = ((u32)(v74 + ((u32)4294967295ULL)));
  *v60 = v75;
  v78 = v74;
  goto L26;
L25: ;
  v76 = *v60;
  v77 = ((u32)(v76 + ((u32)4294967295ULL)));
  *v60 = v77;
  v78 = v76;
  goto L26;
L26: ;
  v79 = (v78 == ((u32)1ULL));
  if (v79) {
    goto L27;
  } else {
    goto L28;
  }
L27: ;
  _ZNSt16_Sp_counted_baseILN9__gnu_cxx12_Lock_policyE2EE24_M_release_last_use_coldEv(v58);
  goto L28;
L28: ;
  return;
}

void _ZN14OpenVolumeMesh15ResourceManager14set_persistentIjNS_6Entity4MeshEEEvRNS_11PropertyPtrIT_T0_EEb(struct S52_class_OpenVolumeMesh__ResourceManager* a0, struct S44_class_OpenVolumeMesh__PropertyPtr_431* a1, u1 a2) {
  struct S33_class_std__weak_ptr* v0; struct S33_class_std__weak_ptr v0_m;
  struct S38_class_OpenVolumeMesh__PropertyStorageT_3** v1;
  struct S16_class_OpenVolumeMesh__PropertyStorageBas** v2;
  struct S16_class_OpenVolumeMesh__PropertyStorageBas* v3;
  u8* v4;
  u8 v5;
  u1 v6;
  u1 v7;
  u8* v8;
  struct S55_class_std__shared_ptr_348* v9;
  struct S16_class_OpenVolumeMesh__PropertyStorageBas** v10;
  struct S16_class_OpenVolumeMesh__PropertyStorageBas* v11;
  struct S16_class_OpenVolumeMesh__PropertyStorageBas** v12;
  struct S13_class_std___Sp_counted_base** v13;
  struct S13_class_std___Sp_counted_base** v14;
  struct S13_class_std___Sp_counted_base* v15;
  u1 v16;
  u32* v17;
  u8 v18;
  u1 v19;
  u32 v20;
  u32 v21;
  u32 v22;
  u32 v23;
  struct S16_class_OpenVolumeMesh__PropertyStorageBas* v24;
  u8* v25;
  u8 v26;
  u1 v27;
  u8* v28;
  struct S20_class_std__runtime_error* v29;
  struct S63 v30;
  struct S63 v31;
  struct S10_class_std___Rb_tree* v32;
  struct S23 v33;
  struct S26_class_std__map* v34;
  u8* v35;
  u8* v36;
  struct S35_struct_std___Rb_tree_node_84** v37;
  u8* v38;
  struct S11_struct_std___Rb_tree_node_base* v39;
  struct S35_struct_std___Rb_tree_node_84* v40;
  u1 v41;
  struct S16_class_OpenVolumeMesh__PropertyStorageBas* v42;
  struct S35_struct_std___Rb_tree_node_84* v43; struct S35_struct_std___Rb_tree_node_84* v43_t;
  struct S11_struct_std___Rb_tree_node_base* v44; struct S11_struct_std___Rb_tree_node_base* v44_t;
  struct S67_struct___gnu_cxx____aligned_membuf_85* v45;
  struct S16_class_OpenVolumeMesh__PropertyStorageBas** v46;
  struct S16_class_OpenVolumeMesh__PropertyStorageBas* v47;
  u1 v48;
  struct S11_struct_std___Rb_tree_node_base** v49;
  u1 v50;
  struct S11_struct_std___Rb_tree_node_base* v51;
  struct S11_struct_std___Rb_tree_node_base** v52;
  struct S35_struct_std___Rb_tree_node_84** v53;
  struct S35_struct_std___Rb_tree_node_84* v54;
  struct S11_struct_std___Rb_tree_node_base** v55;
  struct S35_struct_std___Rb_tree_node_84** v56;
  struct S35_struct_std___Rb_tree_node_84* v57;
  u1 v58;
  struct S35_struct_std___Rb_tree_node_84* v59; struct S35_struct_std___Rb_tree_node_84* v59_t;
  struct S11_struct_std___Rb_tree_node_base* v60; struct S11_struct_std___Rb_tree_node_base* v60_t;
  struct S67_struct___gnu_cxx____aligned_membuf_85* v61;
  struct S16_class_OpenVolumeMesh__PropertyStorageBas** v62;
  struct S16_class_OpenVolumeMesh__PropertyStorageBas* v63;
  u1 v64;
  struct S11_struct_std___Rb_tree_node_base** v65;
  struct S11_struct_std___Rb_tree_node_base* v66;
  struct S11_struct_std___Rb_tree_node_base** v67;
  struct S11_struct_std___Rb_tree_node_base* v68;
  struct S11_struct_std___Rb_tree_node_base** v69;
  struct S35_struct_std___Rb_tree_node_84** v70;
  struct S35_struct_std___Rb_tree_node_84* v71;
  u1 v72;
  struct S11_struct_std___Rb_tree_node_base* v73; struct S11_struct_std___Rb_tree_node_base* v73_t;
  u1 v74;
  struct S35_struct_std___Rb_tree_node_84* v75; struct S35_struct_std___Rb_tree_node_84* v75_t;
  struct S11_struct_std___Rb_tree_node_base* v76; struct S11_struct_std___Rb_tree_node_base* v76_t;
  struct S67_struct___gnu_cxx____aligned_membuf_85* v77;
  struct S16_class_OpenVolumeMesh__PropertyStorageBas** v78;
  struct S16_class_OpenVolumeMesh__PropertyStorageBas* v79;
  u1 v80;
  struct S11_struct_std___Rb_tree_node_base* v81;
  struct S11_struct_std___Rb_tree_node_base** v82;
  struct S11_struct_std___Rb_tree_node_base** v83;
  struct S11_struct_std___Rb_tree_node_base* v84;
  struct S11_struct_std___Rb_tree_node_base** v85;
  struct S35_struct_std___Rb_tree_node_84** v86;
  struct S35_struct_std___Rb_tree_node_84* v87;
  u1 v88;
  struct S11_struct_std___Rb_tree_node_base* v89; struct S11_struct_std___Rb_tree_node_base* v89_t;
  struct S11_struct_std___Rb_tree_node_base** v90; struct S11_struct_std___Rb_tree_node_base** v90_t;
  struct S35_struct_std___Rb_tree_node_84** v91;
  struct S35_struct_std___Rb_tree_node_84* v92;
  u1 v93;
  struct S11_struct_std___Rb_tree_node_base* v94; struct S11_struct_std___Rb_tree_node_base* v94_t;
  struct S11_struct_std___Rb_tree_node_base* v95; struct S11_struct_std___Rb_tree_node_base* v95_t;
  struct S10_class_std___Rb_tree* v96;
  struct S16_class_OpenVolumeMesh__PropertyStorageBas** v97;
  struct S16_class_OpenVolumeMesh__PropertyStorageBas* v98;
  u8 v99;
  u8* v100;
  struct S13_class_std___Sp_counted_base** v101;
  struct S13_class_std___Sp_counted_base* v102;
  u1 v103;
  u32* v104;
  u64* v105;
  u64 v106;
  u1 v107;
  u32* v108;
  fnptr_t** v109;
  fnptr_t* v110;
  fnptr_t* v111;
  fnptr_t v112;
  fnptr_t* v113;
  fnptr_t* v114;
  fnptr_t v115;
  u8 v116;
  u1 v117;
  u32 v118;
  u32 v119;
  u32 v120;
  u32 v121;
  u32 v122; u32 v122_t;
  u1 v123;
  struct S63 v124; struct S63 v124_t;
  struct S34_class_std____weak_ptr* v125;
L0: ;
  v0 = &v0_m;
  v1 = (struct S38_class_OpenVolumeMesh__PropertyStorageT_3**)(&(*a1).f0.f0.f1.f0.f0);
  v2 = (struct S16_class_OpenVolumeMesh__PropertyStorageBas**)&(*a1).f0.f0.f1.f0.f0;
  v3 = *v2;
  v4 = (u8*)(&(*v3).f5);
  v5 = *v4;
  v6 = (v5 != ((u8)0ULL));
  v7 = ((u1)((v6 ^ a2)&1));
  if (v7) {
    goto L1;
  } else {
    goto L32;
  }
L1: ;
  v8 = (u8*)v0;
  v9 = (struct S55_class_std__shared_ptr_348*)(&(*a1).f0.f0.f1);
  v10 = (struct S16_class_OpenVolumeMesh__PropertyStorageBas**)&(*a1).f0.f0.f1.f0.f0;
  v11 = *v10;
  v12 = (struct S16_class_OpenVolumeMesh__PropertyStorageBas**)(&(*v0).f0.f0);
  *v12 = v11;
  v13 = (struct S13_class_std___Sp_counted_base**)(&(*v0).f0.f1.f0);
  v14 = (struct S13_class_std___Sp_counted_base**)(&(*a1).f0.f0.f1.f0.f1.f0);
  v15 = *v14;
  *v13 = v15;
  v16 = ((u8*)v15 == (u8*)((struct S13_class_std___Sp_counted_base*)0));
  if (v16) {
    goto L5;
  } else {
    goto L2;
  }
L2: ;
  v17 = (u32*)(&(*v15).f1);
  v18 = *(&__libc_single_threaded);
  v19 = (v18 == ((u8)0ULL));
  if (v19) {
    goto L4;
  } else {
    goto L3;
  }
L3: ;
  v20 = *v17;
  v21 = ((u32)(v20 + ((u32)1ULL)));
  *v17 = v21;
  goto L5;
L4: ;
  v22 = *v17;
  v23 = ((u32)(v22 + ((u32)1ULL)));
  *v17 = v23;
  goto L5;
L5: ;
  if (a2) {
    goto L6;
  } else {
    goto L12;
  }
L6: ;
  v24 = *v2;
  v25 = (u8*)(&(*v24).f6);
  v26 = *v25;
  v27 = (v26 == ((u8)0ULL));
  if (v27) {
    goto L7;
  } else {
    goto L11;
  }
L7: ;
  v28 = __cxa_allocate_exception(((u64)16ULL));
  v29 = (struct S20_class_std__runtime_error*)v28;
  _ZNSt13runtime_errorC1EPKc(v29, ((u8*)(&(*(&_str_4)).e[(s64)((s64)((u64)0ULL))])));
  if (v_exc) {
    goto L9;
  }
  goto L8;
L8: ;
  __cxa_throw(v28, ((u8*)(&_ZTISt13runtime_error)), ((u8*)((fnptr_t)_ZNSt13runtime_errorD1Ev)));
  if (v_exc) {
    goto L10;
  }
  goto L34;
L9: ;
  v30.f0 = v_exc_obj;
  v30.f1 = 0;
  v_exc = 0;
  __cxa_free_exception(v28);
  v124 = v30;
  goto L33;
L10: ;
  v31.f0 = v_exc_obj;
  v31.f1 = 0;
  v_exc = 0;
  v124 = v31;
  goto L33;
L11: ;
  v32 = (struct S10_class_std___Rb_tree*)(&(*a0).f1.f0.f0.e[(s64)((s64)((u64)6ULL))].f0);
  v33 = _ZNSt8_Rb_treeISt10shared_ptrIN14OpenVolumeMesh19PropertyStorageBaseEES3_St9_IdentityIS3_ESt4lessIS3_ESaIS3_EE16_M_insert_uniqueIRKS3_EESt4pairISt17_Rb_tree_iteratorIS3_EbEOT_(v32, v0);
  if (v_exc) {
    goto L10;
  }
  goto L23;
L12: ;
  v34 = (struct S26_class_std__map*)(&(*a0).f1.f0.f0.e[(s64)((s64)((u64)6ULL))]);
  v35 = (u8*)(&(*v34).f0.f0.f0.f0.f0);
  v36 = (u8*)&(*a0).f1.f0.f0.e[6].f0.f0.f1.f0.f1;
  v37 = (struct S35_struct_std___Rb_tree_node_84**)&(*a0).f1.f0.f0.e[6].f0.f0.f1.f0.f1;
  v38 = (u8*)&(*a0).f1.f0.f0.e[6].f0.f0.f1.f0.f0;
  v39 = (struct S11_struct_std___Rb_tree_node_base*)&(*a0).f1.f0.f0.e[6].f0.f0.f1.f0;
  v40 = *v37;
  v41 = ((u8*)v40 == (u8*)((struct S35_struct_std___Rb_tree_node_84*)0));
  if (v41) {
    v94_t = v39;
    v95_t = v39;
    v94 = v94_t;
    v95 = v95_t;
    goto L22;
  } else {
    goto L13;
  }
L13: ;
  v42 = *v12;
  v43_t = v40;
  v44_t = v39;
  v43 = v43_t;
  v44 = v44_t;
  goto L14;
L14: ;
  v45 = (struct S67_struct___gnu_cxx____aligned_membuf_85*)(&(*v43).f1);
  v46 = (struct S16_class_OpenVolumeMesh__PropertyStorageBas**)v45;
  v47 = *v46;
  v48 = v_plt((u8*)v47, (u8*)v42);
  if (v48) {
    goto L15;
  } else {
    goto L16;
  }
L15: ;
  v49 = (struct S11_struct_std___Rb_tree_node_base**)(&(*v43).f0.f3);
  v89_t = v44;
  v90_t = v49;
  v89 = v89_t;
  v90 = v90_t;
  goto L21;
L16: ;
  v50 = v_plt((u8*)v42, (u8*)v47);
  v51 = (struct S11_struct_std___Rb_tree_node_base*)(&(*v43).f0);
  v52 = (struct S11_struct_std___Rb_tree_node_base**)(&(*v43).f0.f2);
  if (v50) {
    v89_t = v51;
    v90_t = v52;
    v89 = v89_t;
    v90 = v90_t;
    goto L21;
  } else {
    goto L17;
  }
L17: ;
  v53 = (struct S35_struct_std___Rb_tree_node_84**)&(*v43).f0.f2;
  v54 = *v53;
  v55 = (struct S11_struct_std___Rb_tree_node_base**)(&(*v43).f0.f3);
  v56 = (struct S35_struct_std___Rb_tree_node_84**)&(*v43).f0.f3;
  v57 = *v56;
  v58 = ((u8*)v54 == (u8*)((struct S35_struct_std___Rb_tree_node_84*)0));
  if (v58) {
    v73 = v51;
    goto L19;
  } else {
    v59_t = v54;
    v60_t = v51;
    v59 = v59_t;
    v60 = v60_t;
    goto L18;
  }
L18: ;
  v61 = (struct S67_struct___gnu_cxx____aligned_membuf_85*)(&(*v59).f1);
  v62 = (struct S16_class_OpenVolumeMesh__PropertyStorageBas**)v61;
  v63 = *v62;
  v64 = v_plt((u8*)v63, (u8*)v42);
  v65 = (struct S11_struct_std___Rb_tree_node_base**)(&(*v59).f0.f3);
  v66 = (struct S11_struct_std___Rb_tree_node_base*)(&(*v59).f0);
  v67 = (struct S11_struct_std___Rb_tree_node_base**)(&(*v59).f0.f2);
  v68 = (v64 ? v60 : v66);
  v69 = (v64 ? v65 : v67);
  v70 = (struct S35_struct_std___Rb_tree_node_84**)v69;
  v71 = *v70;
  v72 = ((u8*)v71 == (u8*)((struct S35_struct_std___Rb_tree_node_84*)0));
  if (v72) {
    v73 = v68;
    goto L19;
  } else {
    v59_t = v71;
    v60_t = v68;
    v59 = v59_t;
    v60 = v60_t;
    goto L18;
  }
L19: ;
  v74 = ((u8*)v57 == (u8*)((struct S35_struct_std___Rb_tree_node_84*)0));
  if (v74) {
    v94_t = v73;
    v95_t = v44;
    v94 = v94_t;
    v95 = v95_t;
    goto L22;
  } else {
    v75_t = v57;
    v76_t = v44;
    v75 = v75_t;
    v76 = v76_t;
    goto L20;
  }
L20: ;
  v77 = (struct S67_struct___gnu_cxx____aligned_membuf_85*)(&(*v75).f1);
  v78 = (struct S16_class_OpenVolumeMesh__PropertyStorageBas**)v77;
  v79 = *v78;
  v80 = v_plt((u8*)v42, (u8*)v79);
  v81 = (struct S11_struct_std___Rb_tree_node_base*)(&(*v75).f0);
  v82 = (struct S11_struct_std___Rb_tree_node_base**)(&(*v75).f0.f2);
  v83 = (struct S11_struct_std___Rb_tree_node_base**)(&(*v75).f0.f3);
  v84 = (v80 ? v81 : v76);
  v85 = (v80 ? v82 : v83);
  v86 = (struct S35_struct_std___Rb_tree_node_84**)v85;
  v87 = *v86;
  v88 = ((u8*)v87 == (u8*)((struct S35_struct_std___Rb_tree_node_84*)0));
  if (v88) {
    v94_t = v73;
    v95_t = v84;
    v94 = v94_t;
    v95 = v95_t;
    goto L22;
  } else {
    v75_t = v87;
    v76_t = v84;
    v75 = v75_t;
    v76 = v76_t;
    goto L20;
  }
L21: ;
  v91 = (struct S35_struct_std___Rb_tree_node_84**)v90;
  v92 = *v91;
  v93 = ((u8*)v92 == (u8*)((struct S35_struct_std___Rb_tree_node_84*)0));
  if (v93) {
    v94_t = v89;
    v95_t = v89;
    v94 = v94_t;
    v95 = v95_t;
    goto L22;
  } else {
    v43_t = v92;
    v44_t = v89;
    v43 = v43_t;
    v44 = v44_t;
    goto L14;
  }
L22: ;
  v96 = (struct S10_class_std___Rb_tree*)(&(*v34).f0);
  _ZNSt8_Rb_treeISt10shared_ptrIN14OpenVolumeMesh19PropertyStorageBaseEES3_St9_IdentityIS3_ESt4lessIS3_ESaIS3_EE12_M_erase_auxESt23_Rb_tree_const_iteratorIS3_ESB_(v96, v94, v95);
  if (v_exc) {
    goto L10;
  }
  goto L23;
L23: ;
  v97 = (struct S16_class_OpenVolumeMesh__PropertyStorageBas**)(&(*v0).f0.f0);
  v98 = *v97;
  v99 = ((u8)(a2));
  v100 = (u8*)(&(*v98).f5);
  *v100 = v99;
  v101 = (struct S13_class_std___Sp_counted_base**)(&(*v0).f0.f1.f0);
  v102 = *v101;
  v103 = ((u8*)v102 == (u8*)((struct S13_class_std___Sp_counted_base*)0));
  if (v103) {
    goto L31;
  } else {
    goto L24;
  }
L24: ;
  v104 = (u32*)(&(*v102).f1);
  v105 = (u64*)v104;
  v106 = (((u64)(*v102).f1 << 0) | ((u64)(*v102).f2 << 32));
  v107 = (v106 == ((u64)4294967297ULL));
  if (v107) {
    goto L25;
  } else {
    goto L26;
  }
L25: ;
  *v104 = ((u32)0ULL);
  v108 = (u32*)(&(*v102).f2);
  *v108 = ((u32)0ULL);
  v109 = (fnptr_t**)&(*v102).f0;
  v110 = *v109;
  v111 = (fnptr_t*)(v110 + (s64)((s64)((u64)2ULL)));
  v112 = *v111;
  ((FT0)v112)(v102);
  v113 = *v109;
  v114 = (fnptr_t*)(v113 + (s64)((s64)((u64)3ULL)));
  v115 = *v114;
  ((FT0)v115)(v102);
  goto L31;
L26: ;
  v116 = *(&__libc_single_threaded);
  v117 = (v116 == ((u8)0ULL));
  if (v117) {
    goto L28;
  } else {
    goto L27;
  }
L27: ;
  v118 = *v104;
  v119 = ((u32)(v118 + ((u32)4294967295ULL)));
  *v104 = v119;
  v122 = v118;
  goto L29;
L28: ;
  v120 = *v104;
  v121 = ((u32)(v120 + ((u32)4294967295ULL)));
  *v104 = v121;
  v122 = v120;
  goto L29;
L29: ;
  v123 = (v122 == ((u32)1ULL));
  if (v123) {
    goto L30;
  } else {
    goto L31;
  }
L30: ;
  _ZNSt16_Sp_counted_baseILN9__gnu_cxx12_Lock_policyE2EE24_M_release_last_use_coldEv(v102);
  goto L31;
L31: ;
  goto L32;
L32: ;
  return;
L33: ;
  v125 = (struct S34_class_std____weak_ptr*)(&(*v0).f0);
  _ZNSt12__shared_ptrIN14OpenVolumeMesh19PropertyStorageBaseELN9__gnu_cxx12_Lock_policyE2EED2Ev(v125);
  v_exc = 1; return;
L34: ;
  __CPROVER_assume(0);
}

void _ZNK14OpenVolumeMesh15ResourceManager22internal_find_propertyIjNS_6Entity4MeshEEESt8optionalINS_11PropertyPtrIT_T0_EEERKNSt7__cxx1112basic_stringIcSt11char_traitsIcESaIcEEE(struct S57_class_std__optional_433* a0, struct S52_class_OpenVolumeMesh__ResourceManager* a1, struct S27_class_std____cxx11__basic_string* a2) {
  struct S27_class_std____cxx11__basic_string* v0; struct S27_class_std____cxx11__basic_string v0_m;
  struct S44_class_OpenVolumeMesh__PropertyPtr_431* v1; struct S44_class_OpenVolumeMesh__PropertyPtr_431 v1_m;
  u64* v2;
  u64 v3;
  u1 v4;
  u8* v5;
  u8* v6;
  u8* v7;
  u8* v8;
  struct S11_struct_std___Rb_tree_node_base** v9;
  struct S11_struct_std___Rb_tree_node_base* v10;
  u8* v11;
  struct S11_struct_std___Rb_tree_node_base* v12;
  u1 v13;
  u64 v14;
  u8** v15;
  u8* v16;
  u64* v17;
  u64 v18;
  u8** v19;
  u8* v20;
  struct S11_struct_std___Rb_tree_node_base* v21; struct S11_struct_std___Rb_tree_node_base* v21_t;
  struct S11_struct_std___Rb_tree_node_base* v22;
  struct S16_class_OpenVolumeMesh__PropertyStorageBas** v23;
  struct S16_class_OpenVolumeMesh__PropertyStorageBas* v24;
  u8* v25;
  u8 v26;
  u1 v27;
  u64* v28;
  u64 v29;
  u1 v30;
  u1 v31;
  u8** v32;
  u8* v33;
  u32 v34;
  u1 v35;
  u64* v36;
  u64 v37;
  u1 v38;
  u1 v39;
  u8** v40;
  u8* v41;
  u32 v42;
  u1 v43;
  u8* v44;
  fnptr_t** v45;
  struct S38_class_OpenVolumeMesh__PropertyStorageT_3** v46;
  struct S38_class_OpenVolumeMesh__PropertyStorageT_3** v47;
  struct S38_class_OpenVolumeMesh__PropertyStorageT_3* v48;
  struct S13_class_std___Sp_counted_base** v49;
  struct S13_class_std___Sp_counted_base** v50;
  struct S13_class_std___Sp_counted_base* v51;
  u1 v52;
  u32* v53;
  u8 v54;
  u1 v55;
  u32 v56;
  u32 v57;
  u32 v58;
  u32 v59;
  fnptr_t** v60;
  u8* v61;
  fnptr_t** v62;
  struct S13_class_std___Sp_counted_base* v63;
  u1 v64;
  u32* v65;
  u64* v66;
  u64 v67;
  u1 v68;
  u32* v69;
  fnptr_t** v70;
  fnptr_t* v71;
  fnptr_t* v72;
  fnptr_t v73;
  fnptr_t* v74;
  fnptr_t* v75;
  fnptr_t v76;
  u8 v77;
  u1 v78;
  u32 v79;
  u32 v80;
  u32 v81;
  u32 v82;
  u32 v83; u32 v83_t;
  u1 v84;
  struct S63 v85;
  u8** v86;
  u8* v87;
  struct S66_union_anon* v88;
  u8* v89;
  u1 v90;
  struct S11_struct_std___Rb_tree_node_base* v91;
  u1 v92;
  u8* v93;
  u8** v94;
  u8* v95;
  struct S66_union_anon* v96;
  u8* v97;
  u1 v98;
L0: ;
  v0 = &v0_m;
  v1 = &v1_m;
  v2 = (u64*)(&(*a2).f1);
  v3 = *v2;
  v4 = (v3 == ((u64)0ULL));
  if (v4) {
    goto L1;
  } else {
    goto L2;
  }
L1: ;
  v5 = (u8*)(&(*a0).f0.f0.f0.f0.f1);
  *v5 = ((u8)0ULL);
  goto L33;
L2: ;
  v6 = (u8*)v0;
  _ZN14OpenVolumeMesh6detail18internal_type_nameB5cxx11ERKSt9type_info(v0, ((struct S48_class_std__type_info*)(&_ZTIj)));
  if (v_exc) return;
  v7 = (u8*)(&(*a1).f2.f0.f0.e[(s64)((s64)((u64)6ULL))].f1.f0.f0.f0.f0.f0);
  v8 = (u8*)&(*a1).f2.f0.f0.e[6].f1.f0.f0.f1.f0.f2;
  v9 = (struct S11_struct_std___Rb_tree_node_base**)&(*a1).f2.f0.f0.e[6].f1.f0.f0.f1.f0.f2;
  v10 = *v9;
  v11 = (u8*)&(*a1).f2.f0.f0.e[6].f1.f0.f0.f1.f0.f0;
  v12 = (struct S11_struct_std___Rb_tree_node_base*)&(*a1).f2.f0.f0.e[6].f1.f0.f0.f1.f0;
  v13 = ((u8*)v10 == (u8*)v12);
  if (v13) {
    goto L29;
  } else {
    goto L3;
  }
L3: ;
  v14 = *v2;
  v15 = (u8**)(&(*a2).f0.f0);
  v16 = *v15;
  v17 = (u64*)(&(*v0).f1);
  v18 = *v17;
  v19 = (u8**)(&(*v0).f0.f0);
  v20 = *v19;
  v21 = v10;
  goto L4;
L4: ;
  v22 = (struct S11_struct_std___Rb_tree_node_base*)(v21 + (s64)((s64)((u64)1ULL)));
  v23 = (struct S16_class_OpenVolumeMesh__PropertyStorageBas**)v22;
  v24 = *v23;
  v25 = (u8*)(&(*v24).f6);
  v26 = *v25;
  v27 = (v26 == ((u8)0ULL));
  if (v27) {
    goto L26;
  } else {
    goto L5;
  }
L5: ;
  v28 = (u64*)(&(*v24).f2.f1);
  v29 = *v28;
  v30 = (v29 == v14);
  if (v30) {
    goto L6;
  } else {
    goto L26;
  }
L6: ;
  v31 = (v29 == ((u64)0ULL));
  if (v31) {
    goto L8;
  } else {
    goto L7;
  }
L7: ;
  v32 = (u8**)(&(*v24).f2.f0.f0);
  v33 = *v32;
  v34 = bcmp(v33, v16, v29);
  v35 = (v34 == ((u32)0ULL));
  if (v35) {
    goto L8;
  } else {
    goto L26;
  }
L8: ;
  v36 = (u64*)(&(*v24).f3.f1);
  v37 = *v36;
  v38 = (v37 == v18);
  if (v38) {
    goto L9;
  } else {
    goto L26;
  }
L9: ;
  v39 = (v37 == ((u64)0ULL));
  if (v39) {
    goto L11;
  } else {
    goto L10;
  }
L10: ;
  v40 = (u8**)(&(*v24).f3.f0.f0);
  v41 = *v40;
  v42 = bcmp(v41, v20, v37);
  v43 = (v42 == ((u32)0ULL));
  if (v43) {
    goto L11;
  } else {
    goto L26;
  }
L11: ;
  v44 = (u8*)v1;
  _ZN14OpenVolumeMesh15ResourceManager21prop_ptr_from_storageIjNS_6Entity4MeshEEENS_11PropertyPtrIT_T0_EEPNS_19PropertyStorageBaseE(v1, v24);
  if (v_exc) {
    goto L25;
  }
  goto L12;
L12: ;
  v45 = (fnptr_t**)(&(*a0).f0.f0.f0.f0.f0.f0.f0.f0.f0);
  *v45 = ((fnptr_t*)((u8**)(&(*(&_ZTVN14OpenVolumeMesh18PropertyStoragePtrIjEE)).f0.e[(s64)((s64)((u64)2ULL))])));
  v46 = (struct S38_class_OpenVolumeMesh__PropertyStorageT_3**)(&(*a0).f0.f0.f0.f0.f0.f0.f0.f0.f1.f0.f0);
  v47 = (struct S38_class_OpenVolumeMesh__PropertyStorageT_3**)(&(*v1).f0.f0.f1.f0.f0);
  v48 = *v47;
  *v46 = v48;
  v49 = (struct S13_class_std___Sp_counted_base**)(&(*a0).f0.f0.f0.f0.f0.f0.f0.f0.f1.f0.f1.f0);
  v50 = (struct S13_class_std___Sp_counted_base**)(&(*v1).f0.f0.f1.f0.f1.f0);
  v51 = *v50;
  *v49 = v51;
  v52 = ((u8*)v51 == (u8*)((struct S13_class_std___Sp_counted_base*)0));
  if (v52) {
    goto L16;
  } else {
    goto L13;
  }
L13: ;
  v53 = (u32*)(&(*v51).f1);
  v54 = *(&__libc_single_threaded);
  v55 = (v54 == ((u8)0ULL));
  if (v55) {
    goto L15;
  } else {
    goto L14;
  }
L14: ;
  v56 = *v53;
  v57 = ((u32)(v56 + ((u32)1ULL)));
  *v53 = v57;
  goto L16;
L15: ;
  v58 = *v53;
  v59 = ((u32)(v58 + ((u32)1ULL)));
  *v53 = v59;
  goto L16;
L16: ;
  *v45 = ((fnptr_t*)((u8**)(&(*(&_ZTVN14OpenVolumeMesh14HandleIndexingINS_6Entity4MeshENS_18PropertyStoragePtrIjEEEE)).f0.e[(s64)((s64)((u64)2ULL))])));
  v60 = (fnptr_t**)(&(*a0).f0.f0.f0.f0.f0.f0.f1.f0);
  *v60 = ((fnptr_t*)((u8**)(&(*(&_ZTVN14OpenVolumeMesh15BasePropertyPtrE)).f0.e[(s64)((s64)((u64)2ULL))])));
  *v45 = ((fnptr_t*)((u8**)(&(*(&_ZTVN14OpenVolumeMesh11PropertyPtrIjNS_6Entity4MeshEEE)).f0.e[(s64)((s64)((u64)2ULL))])));
  *v60 = ((fnptr_t*)((u8**)(&(*(&_ZTVN14OpenVolumeMesh11PropertyPtrIjNS_6Entity4MeshEEE)).f1.e[(s64)((s64)((u64)2ULL))])));
  v61 = (u8*)(&(*a0).f0.f0.f0.f0.f1);
  *v61 = ((u8)1ULL);
  v62 = (fnptr_t**)(&(*v1).f0.f0.f0);
  *v62 = ((fnptr_t*)((u8**)(&(*(&_ZTVN14OpenVolumeMesh18PropertyStoragePtrIjEE)).f0.e[(s64)((s64)((u64)2ULL))])));
  v63 = *v50;
  v64 = ((u8*)v63 == (u8*)((struct S13_class_std___Sp_counted_base*)0));
  if (v64) {
    goto L24;
  } else {
    goto L17;
  }
L17: ;
  v65 = (u32*)(&(*v63).f1);
  v66 = (u64*)v65;
  v67 = (((u64)(*v63).f1 << 0) | ((u64)(*v63).f2 << 32));
  v68 = (v67 == ((u64)4294967297ULL));
  if (v68) {
    goto L18;
  } else {
    goto L19;
  }
L18: ;
  *v65 = ((u32)0ULL);
  v69 = (u32*)(&(*v63).f2);
  *v69 = ((u32)0ULL);
  v70 = (fnptr_t**)&(*v63).f0;
  v71 = *v70;
  v72 = (fnptr_t*)(v71 + (s64)((s64)((u64)2ULL)));
  v73 = *v72;
  ((FT0)v73)(v63);
  v74 = *v70;
  v75 = (fnptr_t*)(v74 + (s64)((s64)((u64)3ULL)));
  v76 = *v75;
  ((FT0)v76)(v63);
  goto L24;
L19: ;
  v77 = *(&__libc_single_threaded);
  v78 = (v77 == ((u8)0ULL));
  if (v78) {
    goto L21;
  } else {
    goto L20;
  }
L20: ;
  v79 = *v65;
  v80 = ((u32)(v79 + ((u32)4294967295ULL)));
  *v65 = v80;
  v83 = v79;
  goto L22;
L21: ;
  v81 = *v65;
  v82 = ((u32)(v81 + ((u32)4294967295ULL)));
  *v65 = v82;
  v83 = v81;
  goto L22;
L22: ;
  v84 = (v83 == ((u32)1ULL));
  if (v84) {
    goto L23;
  } else {
    goto L24;
  }
L23: ;
  _ZNSt16_Sp_counted_baseILN9__gnu_cxx12_Lock_policyE2EE24_M_release_last_use_coldEv(v63);
  goto L24;
L24: ;
  goto L30;
L25: ;
  v85.f0 = v_exc_obj;
  v85.f1 = 0;
  v_exc = 0;
  v86 = (u8**)(&(*v0).f0.f0);
  v87 = *v86;
  v88 = (struct S66_union_anon*)(&(*v0).f2);
  v89 = (u8*)v88;
  v90 = ((u8*)v87 == (u8*)v89);
  if (v90) {
    goto L28;
  } else {
    goto L27;
  }
L26: ;
  v91 = _ZSt18_Rb_tree_incrementPKSt18_Rb_tree_node_base(v21);
  v92 = ((u8*)v91 == (u8*)v12);
  if (v92) {
    goto L29;
  } else {
    v21 = v91;
    goto L4;
  }
L27: ;
  _ZdlPv(v87);
  goto L28;
L28: ;
  v_exc = 1; return;
L29: ;
  v93 = (u8*)(&(*a0).f0.f0.f0.f0.f1);
  *v93 = ((u8)0ULL);
  goto L30;
L30: ;
  v94 = (u8**)(&(*v0).f0.f0);
  v95 = *v94;
  v96 = (struct S66_union_anon*)(&(*v0).f2);
  v97 = (u8*)v96;
  v98 = ((u8*)v95 == (u8*)v97);
  if (v98) {
    goto L32;
  } else {
    goto L31;
  }
L31: ;
  _ZdlPv(v95);
  goto L32;
L32: ;
  goto L33;
L33: ;
  return;
}

void _ZNK14OpenVolumeMesh15ResourceManager24internal_create_propertyIjNS_6Entity4MeshEEENS_11PropertyPtrIT_T0_EENSt7__cxx1112basic_stringIcSt11char_traitsIcESaIcEEERKS5_b(struct S44_class_OpenVolumeMesh__PropertyPtr_431* a0, struct S52_class_OpenVolumeMesh__ResourceManager* a1, struct S27_class_std____cxx11__basic_string* a2, u32* a3, u1 a4) {
  struct S0_class_std__ios_base__Init* v0; struct S0_class_std__ios_base__Init v0_m;
  u8* v1; u8 v1_m;
  struct S55_class_std__shared_ptr_348* v2; struct S55_class_std__shared_ptr_348 v2_m;
  struct S39_class_OpenVolumeMesh__detail__Tracker** v3; struct S39_class_OpenVolumeMesh__detail__Tracker* v3_m;
  u8* v4; u8 v4_m;
  u8 v5;
  u8* v6;
  u8* v7;
  struct S39_class_OpenVolumeMesh__detail__Tracker* v8;
  u8* v9;
  struct S43_class_std____shared_ptr_349* v10;
  struct S38_class_OpenVolumeMesh__PropertyStorageT_3** v11;
  struct S38_class_OpenVolumeMesh__PropertyStorageT_3* v12;
  u64 v13;
  struct S40_class_std__vector_322* v14;
  u32** v15;
  u32* v16;
  u32** v17;
  u32* v18;
  u64 v19;
  u64 v20;
  u64 v21;
  u64 v22;
  u1 v23;
  u32* v24;
  u64 v25;
  u1 v26;
  u32* v27;
  u1 v28;
  struct S38_class_OpenVolumeMesh__PropertyStorageT_3** v29;
  struct S38_class_OpenVolumeMesh__PropertyStorageT_3* v30;
  struct S13_class_std___Sp_counted_base** v31;
  struct S13_class_std___Sp_counted_base* v32;
  fnptr_t** v33;
  u8* v34;
  struct S38_class_OpenVolumeMesh__PropertyStorageT_3** v35;
  struct S13_class_std___Sp_counted_base** v36;
  fnptr_t** v37;
  struct S13_class_std___Sp_counted_base** v38;
  struct S13_class_std___Sp_counted_base* v39;
  u1 v40;
  u32* v41;
  u64* v42;
  u64 v43;
  u1 v44;
  u32* v45;
  fnptr_t** v46;
  fnptr_t* v47;
  fnptr_t* v48;
  fnptr_t v49;
  fnptr_t* v50;
  fnptr_t* v51;
  fnptr_t v52;
  u8 v53;
  u1 v54;
  u32 v55;
  u32 v56;
  u32 v57;
  u32 v58;
  u32 v59; u32 v59_t;
  u1 v60;
  struct S63 v61;
L0: ;
  v0 = &v0_m;
  v1 = &v1_m;
  v2 = &v2_m;
  v3 = &v3_m;
  v4 = &v4_m;
  v5 = ((u8)(a4));
  *v1 = v5;
  v6 = (u8*)v2;
  v7 = (u8*)v3;
  v8 = (struct S39_class_OpenVolumeMesh__detail__Tracker*)(&(*a1).f2.f0.f0.e[(s64)((s64)((u64)6ULL))]);
  *v3 = v8;
  *v4 = ((u8)6ULL);
  v9 = (u8*)(&(*v0).f0);
  v10 = (struct S43_class_std____shared_ptr_349*)(&(*v2).f0);
  _ZNSt12__shared_ptrIN14OpenVolumeMesh16PropertyStorageTIjEELN9__gnu_cxx12_Lock_policyE2EEC2ISaIvEJPNS0_6detail7TrackerINS0_19PropertyStorageBaseEEENSt7__cxx1112basic_stringIcSt11char_traitsIcESaIcEEENS0_10EntityTypeERKjRbEEESt20_Sp_alloc_shared_tagIT_EDpOT0_(v10, v0, v3, a2, v4, a3, v1);
  if (v_exc) return;
  v11 = (struct S38_class_OpenVolumeMesh__PropertyStorageT_3**)(&(*v2).f0.f0);
  v12 = *v11;
  v13 = _ZNK14OpenVolumeMesh15ResourceManager1nINS_6Entity4MeshEEEmv(a1);
  if (v_exc) {
    goto L15;
  }
  goto L1;
L1: ;
  v14 = (struct S40_class_std__vector_322*)(&(*v12).f2);
  v15 = (u32**)(&(*v12).f2.f0.f0.f0.f1);
  v16 = *v15;
  v17 = (u32**)(&(*v14).f0.f0.f0.f0);
  v18 = *v17;
  v19 = ((u64)((u64)v16));
  v20 = ((u64)((u64)v18));
  v21 = v_pdiff((u8*)v16, (u8*)v18);
  v22 = ((u64)(((s64)v21) >> ((u64)2ULL)));
  v23 = (v13 > v22);
  if (v23) {
    goto L2;
  } else {
    goto L3;
  }
L2: ;
  v24 = (u32*)(&(*v12).f3);
  v25 = ((u64)(v13 - v22));
  _ZNSt6vectorIjSaIjEE14_M_fill_insertEN9__gnu_cxx17__normal_iteratorIPjS1_EEmRKj(v14, v16, v25, v24);
  if (v_exc) {
    goto L15;
  }
  goto L6;
L3: ;
  v26 = (v13 < v22);
  if (v26) {
    goto L4;
  } else {
    goto L6;
  }
L4: ;
  v27 = (u32*)(v18 + (s64)((s64)v13));
  v28 = ((u8*)v16 == (u8*)v27);
  if (v28) {
    goto L6;
  } else {
    goto L5;
  }
L5: ;
  *v15 = v27;
  goto L6;
L6: ;
  v29 = (struct S38_class_OpenVolumeMesh__PropertyStorageT_3**)(&(*v2).f0.f0);
  v30 = *v29;
  v31 = (struct S13_class_std___Sp_counted_base**)(&(*v2).f0.f1.f0);
  v32 = *v31;
  v33 = (fnptr_t**)(&(*a0).f0.f0.f0);
  v34 = (u8*)v2;
  (*v2).f0.f0 = (struct S38_class_OpenVolumeMesh__PropertyStorageT_3*)0;
  (*v2).f0.f1.f0 = (struct S13_class_std___Sp_counted_base*)0;
  *v33 = ((fnptr_t*)((u8**)(&(*(&_ZTVN14OpenVolumeMesh18PropertyStoragePtrIjEE)).f0.e[(s64)((s64)((u64)2ULL))])));
  v35 = (struct S38_class_OpenVolumeMesh__PropertyStorageT_3**)(&(*a0).f0.f0.f1.f0.f0);
  *v35 = v30;
  v36 = (struct S13_class_std___Sp_counted_base**)(&(*a0).f0.f0.f1.f0.f1.f0);
  *v36 = v32;
  *v33 = ((fnptr_t*)((u8**)(&(*(&_ZTVN14OpenVolumeMesh14HandleIndexingINS_6Entity4MeshENS_18PropertyStoragePtrIjEEEE)).f0.e[(s64)((s64)((u64)2ULL))])));
  v37 = (fnptr_t**)(&(*a0).f1.f0);
  *v37 = ((fnptr_t*)((u8**)(&(*(&_ZTVN14OpenVolumeMesh15BasePropertyPtrE)).f0.e[(s64)((s64)((u64)2ULL))])));
  *v33 = ((fnptr_t*)((u8**)(&(*(&_ZTVN14OpenVolumeMesh11PropertyPtrIjNS_6Entity4MeshEEE)).f0.e[(s64)((s64)((u64)2ULL))])));
  *v37 = ((fnptr_t*)((u8**)(&(*(&_ZTVN14OpenVolumeMesh11PropertyPtrIjNS_6Entity4MeshEEE)).f1.e[(s64)((s64)((u64)2ULL))])));
  v38 = (struct S13_class_std___Sp_counted_base**)(&(*v2).f0.f1.f0);
  v39 = *v38;
  v40 = ((u8*)v39 == (u8*)((struct S13_class_std___Sp_counted_base*)0));
  if (v40) {
    goto L14;
  } else {
    goto L7;
  }
L7: ;
  v41 = (u32*)(&(*v39).f1);
  v42 = (u64*)v41;
  v43 = (((u64)(*v39).f1 << 0) | ((u64)(*v39).f2 << 32));
  v44 = (v43 == ((u64)4294967297ULL));
  if (v44) {
    goto L8;
  } else {
    goto L9;
  }
L8: ;
  *v41 = ((u32)0ULL);
  v45 = (u32*)(&(*v39).f2);
  *v45 = ((u32)0ULL);
  v46 = (fnptr_t**)&(*v39).f0;
  v47 = *v46;
  v48 = (fnptr_t*)(v47 + (s64)((s64)((u64)2ULL)));
  v49 = *v48;
  ((FT0)v49)(v39);
  v50 = *v46;
  v51 = (fnptr_t*)(v50 + (s64)((s64)((u64)3ULL)));
  v52 = *v51;
  ((FT0)v52)(v39);
  goto L14;
L9: ;
  v53 = *(&__libc_single_threaded);
  v54 = (v53 == ((u8)0ULL));
  if (v54) {
    goto L11;
  } else {
    goto L10;
  }
L10: ;
  v55 = *v41;
  v56 = ((u32)(v55 + ((u32)4294967295ULL)));
  *v41 = v56;
  v59 = v55;
  goto L12;
L11: ;
  v57 = *v41;
  v58 = ((u32)(v57 + ((u32)4294967295ULL)));
  *v41 = v58;
  v59 = v57;
  goto L12;
L12: ;
  v60 = (v59 == ((u32)1ULL));
  if (v60) {
    goto L13;
  } else {
    goto L14;
  }
L13: ;
  _ZNSt16_Sp_counted_baseILN9__gnu_cxx12_Lock_policyE2EE24_M_release_last_use_coldEv(v39);
  goto L14;
L14: ;
  return;
L15: ;
  v61.f0 = v_exc_obj;
  v61.f1 = 0;
  v_exc = 0;
  _ZNSt12__shared_ptrIN14OpenVolumeMesh16PropertyStorageTIjEELN9__gnu_cxx12_Lock_policyE2EED2Ev(v10);
  v_exc = 1; return;
}

void _ZNSt14_Optional_baseIN14OpenVolumeMesh11PropertyPtrIjNS0_6Entity4MeshEEELb0ELb0EED2Ev(struct S58_struct_std___Optional_base_434* a0) {
  u8* v0;
  u8 v1;
  u1 v2;
  fnptr_t** v3;
  struct S13_class_std___Sp_counted_base** v4;
  struct S13_class_std___Sp_counted_base* v5;
  u1 v6;
  u32* v7;
  u64* v8;
  u64 v9;
  u1 v10;
  u32* v11;
  fnptr_t** v12;
  fnptr_t* v13;
  fnptr_t* v14;
  fnptr_t v15;
  fnptr_t* v16;
  fnptr_t* v17;
  fnptr_t v18;
  u8 v19;
  u1 v20;
  u32 v21;
  u32 v22;
  u32 v23;
  u32 v24;
  u32 v25; u32 v25_t;
  u1 v26;
L0: ;
  v0 = (u8*)(&(*a0).f0.f0.f0.f1);
  v1 = *v0;
  v2 = (v1 == ((u8)0ULL));
  if (v2) {
    goto L9;
  } else {
    goto L1;
  }
L1: ;
  *v0 = ((u8)0ULL);
  v3 = (fnptr_t**)(&(*a0).f0.f0.f0.f0.f0.f0.f0.f0);
  *v3 = ((fnptr_t*)((u8**)(&(*(&_ZTVN14OpenVolumeMesh18PropertyStoragePtrIjEE)).f0.e[(s64)((s64)((u64)2ULL))])));
  v4 = (struct S13_class_std___Sp_counted_base**)(&(*a0).f0.f0.f0.f0.f0.f0.f0.f1.f0.f1.f0);
  v5 = *v4;
  v6 = ((u8*)v5 == (u8*)((struct S13_class_std___Sp_counted_base*)0));
  if (v6) {
    goto L9;
  } else {
    goto L2;
  }
L2: ;
  v7 = (u32*)(&(*v5).f1);
  v8 = (u64*)v7;
  v9 = (((u64)(*v5).f1 << 0) | ((u64)(*v5).f2 << 32));
  v10 = (v9 == ((u64)4294967297ULL));
  if (v10) {
    goto L3;
  } else {
    goto L4;
  }
L3: ;
  *v7 = ((u32)0ULL);
  v11 = (u32*)(&(*v5).f2);
  *v11 = ((u32)0ULL);
  v12 = (fnptr_t**)&(*v5).f0;
  v13 = *v12;
  v14 = (fnptr_t*)(v13 + (s64)((s64)((u64)2ULL)));
  v15 = *v14;
  ((FT0)v15)(v5);
  v16 = *v12;
  v17 = (fnptr_t*)(v16 + (s64)((s64)((u64)3ULL)));
  v18 = *v17;
  ((FT0)v18)(v5);
  goto L9;
L4: ;
  v19 = *(&__libc_single_threaded);
  v20 = (v19 == ((u8)0ULL));
  if (v20) {
    goto L6;
  } else {
    goto L5;
  }
L5: ;
  v21 = *v7;
  v22 = ((u32)(v21 + ((u32)4294967295ULL)));
  *v7 = v22;
  v25 = v21;
  goto L7;
L6: ;
  v23 = *v7;
  v24 = ((u32)(v23 + ((u32)4294967295ULL)));
  *v7 = v24;
  v25 = v23;
  goto L7;
L7: ;
  v26 = (v25 == ((u32)1ULL));
  if (v26) {
    goto L8;
  } else {
    goto L9;
  }
L8: ;
  _ZNSt16_Sp_counted_baseILN9__gnu_cxx12_Lock_policyE2EE24_M_release_last_use_coldEv(v5);
  goto L9;
L9: ;
  return;
}

void _ZNSt12__shared_ptrIN14OpenVolumeMesh16PropertyStorageTIjEELN9__gnu_cxx12_Lock_policyE2EEC2ISaIvEJPNS0_6detail7TrackerINS0_19PropertyStorageBaseEEENSt7__cxx1112basic_stringIcSt11char_traitsIcESaIcEEENS0_10EntityTypeERKjRbEEESt20_Sp_alloc_shared_tagIT_EDpOT0_(struct S43_class_std____shared_ptr_349* a0, struct S0_class_std__ios_base__Init* a1, struct S39_class_OpenVolumeMesh__detail__Tracker** a2, struct S27_class_std____cxx11__basic_string* a3, u8* a4, u32* a5, u8* a6) {
  struct S38_class_OpenVolumeMesh__PropertyStorageT_3** v0;
  u8* v1;
  struct S47_class_std___Sp_counted_ptr_inplace_70* v2;
  struct S63 v3;
  struct S13_class_std___Sp_counted_base* v4;
  struct S13_class_std___Sp_counted_base** v5;
  struct S71_struct___gnu_cxx____aligned_buffer_71* v6;
  struct S71_struct___gnu_cxx____aligned_buffer_71** v7;
  u8* v8;
  u8* v9;
  struct S13_class_std___Sp_counted_base** v10;
  struct S13_class_std___Sp_counted_base* v11;
  u1 v12;
  u32* v13;
  u32 v14;
  u1 v15;
  struct S71_struct___gnu_cxx____aligned_buffer_71** v16;
  struct S13_class_std___Sp_counted_base** v17;
  struct S13_class_std___Sp_counted_base* v18;
  u1 v19;
  u32* v20;
  u8 v21;
  u1 v22;
  u32 v23;
  u32 v24;
  u32 v25;
  u32 v26;
  struct S13_class_std___Sp_counted_base* v27;
  u1 v28;
  u32* v29;
  u8 v30;
  u1 v31;
  u32 v32;
  u32 v33;
  u32 v34;
  u32 v35;
  u32 v36; u32 v36_t;
  u1 v37;
  fnptr_t** v38;
  fnptr_t* v39;
  fnptr_t* v40;
  fnptr_t v41;
L0: ;
  v0 = (struct S38_class_OpenVolumeMesh__PropertyStorageT_3**)(&(*a0).f0);
  *v0 = ((struct S38_class_OpenVolumeMesh__PropertyStorageT_3*)0);
  v1 = (u8*)((((u64)152ULL) % sizeof(struct S47_class_std___Sp_counted_ptr_inplace_70) == 0) ? __CPROVER_allocate(sizeof(struct S47_class_std___Sp_counted_ptr_inplace_70) * (((u64)152ULL) / sizeof(struct S47_class_std___Sp_counted_ptr_inplace_70)), 0) : __CPROVER_allocate(((u64)152ULL), 0));
  v_alloc_note((u8*)v1);
  v2 = (struct S47_class_std___Sp_counted_ptr_inplace_70*)v1;
  _ZNSt23_Sp_counted_ptr_inplaceIN14OpenVolumeMesh16PropertyStorageTIjEESaIvELN9__gnu_cxx12_Lock_policyE2EEC2IJPNS0_6detail7TrackerINS0_19PropertyStorageBaseEEENSt7__cxx1112basic_stringIcSt11char_traitsIcESaIcEEENS0_10EntityTypeERKjRbEEES3_DpOT_(v2, a2, a3, a4, a5, a6);
  if (v_exc) {
    goto L1;
  }
  goto L2;
L1: ;
  v3.f0 = v_exc_obj;
  v3.f1 = 0;
  v_exc = 0;
  _ZdlPv(v1);
  v_exc = 1; return;
L2: ;
  v4 = (struct S13_class_std___Sp_counted_base*)(&(*v2).f0);
  v5 = (struct S13_class_std___Sp_counted_base**)(&(*a0).f1.f0);
  *v5 = v4;
  v6 = (struct S71_struct___gnu_cxx____aligned_buffer_71*)(&(*v2).f1.f0);
  v7 = (struct S71_struct___gnu_cxx____aligned_buffer_71**)&(*a0).f0;
  *v7 = v6;
  v8 = (u8*)(&(*v2).f1.f0.f0.f0.f1.f0.f0.f0);
  v9 = (u8*)(&(*v2).f1.f0.f0.f0.f1.f0.f0.f1.f0);
  v10 = (struct S13_class_std___Sp_counted_base**)v9;
  v11 = *v10;
  v12 = ((u8*)v11 == (u8*)((struct S13_class_std___Sp_counted_base*)0));
  if (v12) {
    goto L4;
  } else {
    goto L3;
  }
L3: ;
  v13 = (u32*)(&(*v11).f1);
  v14 = *v13;
  v15 = (v14 == ((u32)0ULL));
  if (v15) {
    goto L4;
  } else {
    goto L15;
  }
L4: ;
  v16 = (struct S71_struct___gnu_cxx____aligned_buffer_71**)v8;
  *v16 = v6;
  v17 = (struct S13_class_std___Sp_counted_base**)(&(*a0).f1.f0);
  v18 = *v17;
  v19 = ((u8*)v18 == (u8*)((struct S13_class_std___Sp_counted_base*)0));
  if (v19) {
    goto L8;
  } else {
    goto L5;
  }
L5: ;
  v20 = (u32*)(&(*v18).f2);
  v21 = *(&__libc_single_threaded);
  v22 = (v21 == ((u8)0ULL));
  if (v22) {
    goto L7;
  } else {
    goto L6;
  }
L6: ;
  v23 = *v20;
  v24 = ((u32)(v23 + ((u32)1ULL)));
  *v20 = v24;
  goto L8;
L7: ;
  v25 = *v20;
  v26 = ((u32)(v25 + ((u32)1ULL)));
  *v20 = v26;
  goto L8;
L8: ;
  v27 = *v10;
  v28 = ((u8*)v27 == (u8*)((struct S13_class_std___Sp_counted_base*)0));
  if (v28) {
    goto L14;
  } else {
    goto L9;
  }
L9: ;
  v29 = (u32*)(&(*v27).f2);
  v30 = *(&__libc_single_threaded);
  v31 = (v30 == ((u8)0ULL));
  if (v31) {
    goto L11;
  } else {
    goto L10;
  }
L10: ;
  v32 = *v29;
  v33 = ((u32)(v32 + ((u32)4294967295ULL)));
  *v29 = v33;
  v36 = v32;
  goto L12;
L11: ;
  v34 = *v29;
  v35 = ((u32)(v34 + ((u32)4294967295ULL)));
  *v29 = v35;
  v36 = v34;
  goto L12;
L12: ;
  v37 = (v36 == ((u32)1ULL));
  if (v37) {
    goto L13;
  } else {
    goto L14;
  }
L13: ;
  v38 = (fnptr_t**)&(*v27).f0;
  v39 = *v38;
  v40 = (fnptr_t*)(v39 + (s64)((s64)((u64)3ULL)));
  v41 = *v40;
  ((FT0)v41)(v27);
  goto L14;
L14: ;
  *v10 = v18;
  goto L15;
L15: ;
  return;
}

void _ZNSt23_Sp_counted_ptr_inplaceIN14OpenVolumeMesh16PropertyStorageTIjEESaIvELN9__gnu_cxx12_Lock_policyE2EEC2IJPNS0_6detail7TrackerINS0_19PropertyStorageBaseEEENSt7__cxx1112basic_stringIcSt11char_traitsIcESaIcEEENS0_10EntityTypeERKjRbEEES3_DpOT_(struct S47_class_std___Sp_counted_ptr_inplace_70* a0, struct S39_class_OpenVolumeMesh__detail__Tracker** a1, struct S27_class_std____cxx11__basic_string* a2, u8* a3, u32* a4, u8* a5) {
  struct S27_class_std____cxx11__basic_string* v0; struct S27_class_std____cxx11__basic_string v0_m;
  fnptr_t** v1;
  u32* v2;
  u32* v3;
  fnptr_t** v4;
  struct S71_struct___gnu_cxx____aligned_buffer_71* v5;
  struct S38_class_OpenVolumeMesh__PropertyStorageT_3* v6;
  u8* v7;
  struct S39_class_OpenVolumeMesh__detail__Tracker* v8;
  struct S66_union_anon* v9;
  u8* v10;
  struct S66_union_anon** v11;
  u8** v12;
  u8* v13;
  struct S66_union_anon* v14;
  u8* v15;
  u1 v16;
  u64* v17;
  u64 v18;
  u64 v19;
  u1 v20;
  u8** v21;
  u64* v22;
  u64 v23;
  u64* v24;
  u64* v25;
  u64 v26;
  u64* v27;
  struct S66_union_anon** v28;
  u8 v29;
  u32 v30;
  u8 v31;
  u1 v32;
  u8** v33;
  u8* v34;
  u1 v35;
  struct S63 v36;
  u8** v37;
  u8* v38;
  u1 v39;
L0: ;
  v0 = &v0_m;
  v1 = (fnptr_t**)(&(*a0).f0.f0);
  *v1 = ((fnptr_t*)((u8**)(&(*(&_ZTVSt16_Sp_counted_baseILN9__gnu_cxx12_Lock_policyE2EE)).f0.e[(s64)((s64)((u64)2ULL))])));
  v2 = (u32*)(&(*a0).f0.f1);
  *v2 = ((u32)1ULL);
  v3 = (u32*)(&(*a0).f0.f2);
  *v3 = ((u32)1ULL);
  v4 = (fnptr_t**)(&(*a0).f0.f0);
  *v4 = ((fnptr_t*)((u8**)(&(*(&_ZTVSt23_Sp_counted_ptr_inplaceIN14OpenVolumeMesh16PropertyStorageTIjEESaIvELN9__gnu_cxx12_Lock_policyE2EE)).f0.e[(s64)((s64)((u64)2ULL))])));
  v5 = (struct S71_struct___gnu_cxx____aligned_buffer_71*)(&(*a0).f1.f0);
  v6 = (struct S38_class_OpenVolumeMesh__PropertyStorageT_3*)&(*a0).f1.f0.f0;
  v7 = (u8*)v0;
  v8 = *a1;
  v9 = (struct S66_union_anon*)(&(*v0).f2);
  v10 = (u8*)v9;
  v11 = (struct S66_union_anon**)&(*v0).f0.f0;
  *v11 = v9;
  v12 = (u8**)(&(*a2).f0.f0);
  v13 = *v12;
  v14 = (struct S66_union_anon*)(&(*a2).f2);
  v15 = (u8*)v14;
  v16 = ((u8*)v13 == (u8*)v15);
  if (v16) {
    goto L1;
  } else {
    goto L3;
  }
L1: ;
  v17 = (u64*)(&(*a2).f1);
  v18 = *v17;
  v19 = ((u64)(v18 + ((u64)1ULL)));
  v20 = (v19 == ((u64)0ULL));
  if (v20) {
    goto L4;
  } else {
    goto L2;
  }
L2: ;
  { struct S66_union_anon* _d = v9; struct S66_union_anon* _s = v14; u64 _len = (u64)v19; u64 _n = _len / 16;
    if (_len % 16 == 0) { if (_n) { if (__CPROVER_same_object(_d, _s) && __CPROVER_POINTER_OFFSET(_d) > __CPROVER_POINTER_OFFSET(_s)) { for (u64 _i = _n; _i > 0; --_i) _d[_i-1] = _s[_i-1]; } else { for (u64 _i = 0; _i < _n; ++_i) _d[_i] = _s[_i]; } } }
    else { u8* _bd = (u8*)_d; u8* _bs = (u8*)_s; if (__CPROVER_same_object(_bd, _bs) && __CPROVER_POINTER_OFFSET(_bd) > __CPROVER_POINTER_OFFSET(_bs)) { for (u64 _i = _len; _i > 0; --_i) _bd[_i-1] = _bs[_i-1]; } else { for (u64 _i = 0; _i < _len; ++_i) _bd[_i] = _bs[_i]; } } }
  goto L4;
L3: ;
  v21 = (u8**)(&(*v0).f0.f0);
  *v21 = v13;
  v22 = (u64*)(&(*a2).f2.f0.e[0]);
  v23 = *v22;
  v24 = (u64*)(&(*v0).f2.f0.e[0]);
  *v24 = v23;
  goto L4;
L4: ;
  v25 = (u64*)(&(*a2).f1);
  v26 = *v25;
  v27 = (u64*)(&(*v0).f1);
  *v27 = v26;
  v28 = (struct S66_union_anon**)&(*a2).f0.f0;
  *v28 = v14;
  *v25 = ((u64)0ULL);
  *v15 = ((u8)0ULL);
  v29 = *a3;
  v30 = *a4;
  v31 = *a5;
  v32 = (v31 != ((u8)0ULL));
  _ZN14OpenVolumeMesh16PropertyStorageTIjEC2EPNS_6detail7TrackerINS_19PropertyStorageBaseEEENSt7__cxx1112basic_stringIcSt11char_traitsIcESaIcEEENS_10EntityTypeEjb(v6, v8, v0, v29, v30, v32);
  if (v_exc) {
    goto L7;
  }
  goto L5;
L5: ;
  v33 = (u8**)(&(*v0).f0.f0);
  v34 = *v33;
  v35 = ((u8*)v34 == (u8*)v10);
  if (v35) {
    goto L9;
  } else {
    goto L6;
  }
L6: ;
  _ZdlPv(v34);
  goto L9;
L7: ;
  v36.f0 = v_exc_obj;
  v36.f1 = 0;
  v_exc = 0;
  v37 = (u8**)(&(*v0).f0.f0);
  v38 = *v37;
  v39 = ((u8*)v38 == (u8*)v10);
  if (v39) {
    goto L10;
  } else {
    goto L8;
  }
L8: ;
  _ZdlPv(v38);
  goto L10;
L9: ;
  return;
L10: ;
  v_exc = 1; return;
}

void _ZN14OpenVolumeMesh15ResourceManager21prop_ptr_from_storageIjNS_6Entity4MeshEEENS_11PropertyPtrIT_T0_EEPNS_19PropertyStorageBaseE(struct S44_class_OpenVolumeMesh__PropertyPtr_431* a0, struct S16_class_OpenVolumeMesh__PropertyStorageBas* a1) {
  struct S13_class_std___Sp_counted_base** v0;
  struct S13_class_std___Sp_counted_base* v1;
  u1 v2;
  u32* v3;
  u32 v4;
  u32 v5; u32 v5_t;
  u1 v6;
  u32 v7;
  u32 v8;
  u1 v9;
  u32 v10;
  struct S69 v11;
  struct S69 v12;
  u1 v13;
  u32 v14;
  u8* v15;
  u64* v16;
  fnptr_t** v17;
  struct S16_class_OpenVolumeMesh__PropertyStorageBas** v18;
  struct S38_class_OpenVolumeMesh__PropertyStorageT_3** v19;
  struct S38_class_OpenVolumeMesh__PropertyStorageT_3* v20;
  u8 v21;
  u1 v22;
  u32 v23;
  u32 v24;
  u32 v25;
  u32 v26;
  u64* v27;
  u64 v28;
  u1 v29;
  u32* v30;
  fnptr_t** v31;
  fnptr_t* v32;
  fnptr_t* v33;
  fnptr_t v34;
  fnptr_t* v35;
  fnptr_t* v36;
  fnptr_t v37;
  u8 v38;
  u1 v39;
  u32 v40;
  u32 v41;
  u32 v42;
  u32 v43;
  u32 v44; u32 v44_t;
  u1 v45;
  fnptr_t** v46;
  struct S38_class_OpenVolumeMesh__PropertyStorageT_3** v47;
  struct S13_class_std___Sp_counted_base** v48;
  fnptr_t** v49;
L0: ;
  v0 = (struct S13_class_std___Sp_counted_base**)(&(*a1).f1.f0.f0.f1.f0);
  v1 = *v0;
  v2 = ((u8*)v1 == (u8*)((struct S13_class_std___Sp_counted_base*)0));
  if (v2) {
    goto L4;
  } else {
    goto L1;
  }
L1: ;
  v3 = (u32*)(&(*v1).f1);
  v4 = *v3;
  v5 = v4;
  goto L2;
L2: ;
  v6 = (v5 == ((u32)0ULL));
  if (v6) {
    goto L4;
  } else {
    goto L3;
  }
L3: ;
  v7 = ((u32)(v5 + ((u32)1ULL)));
  v8 = *v3;
  v9 = (v8 == v5);
  v10 = (v9 ? v7 : v8);
  *v3 = v10;
  v11.f0 = v8;
  v12 = v11;
  v12.f1 = v9;
  v13 = v12.f1;
  v14 = v12.f0;
  if (v13) {
    goto L5;
  } else {
    v5 = v14;
    goto L2;
  }
L4: ;
  v15 = __cxa_allocate_exception(((u64)8ULL));
  v16 = (u64*)v15;
  *v16 = ((u64)0ULL);
  v17 = (fnptr_t**)v15;
  *v17 = ((fnptr_t*)((u8**)(&(*(&_ZTVSt12bad_weak_ptr)).f0.e[(s64)((s64)((u64)2ULL))])));
  __cxa_throw(v15, ((u8*)(&_ZTISt12bad_weak_ptr)), ((u8*)((fnptr_t)_ZNSt12bad_weak_ptrD1Ev)));
  if (v_exc) return;
  __CPROVER_assume(0);
L5: ;
  v18 = (struct S16_class_OpenVolumeMesh__PropertyStorageBas**)(&(*a1).f1.f0.f0.f0);
  v19 = (struct S38_class_OpenVolumeMesh__PropertyStorageT_3**)&(*a1).f1.f0.f0.f0;
  v20 = *v19;
  v21 = *(&__libc_single_threaded);
  v22 = (v21 == ((u8)0ULL));
  if (v22) {
    goto L7;
  } else {
    goto L6;
  }
L6: ;
  v23 = *v3;
  v24 = ((u32)(v23 + ((u32)1ULL)));
  *v3 = v24;
  goto L8;
L7: ;
  v25 = *v3;
  v26 = ((u32)(v25 + ((u32)1ULL)));
  *v3 = v26;
  goto L8;
L8: ;
  v27 = (u64*)v3;
  v28 = (((u64)(*v1).f1 << 0) | ((u64)(*v1).f2 << 32));
  v29 = (v28 == ((u64)4294967297ULL));
  if (v29) {
    goto L9;
  } else {
    goto L10;
  }
L9: ;
  *v3 = ((u32)0ULL);
  v30 = (u32*)(&(*v1).f2);
  *v30 = ((u32)0ULL);
  v31 = (fnptr_t**)&(*v1).f0;
  v32 = *v31;
  v33 = (fnptr_t*)(v32 + (s64)((s64)((u64)2ULL)));
  v34 = *v33;
  ((FT0)v34)(v1);
  v35 = *v31;
  v36 = (fnptr_t*)(v35 + (s64)((s64)((u64)3ULL)));
  v37 = *v36;
  ((FT0)v37)(v1);
  goto L15;
L10: ;
  v38 = *(&__libc_single_threaded);
  v39 = (v38 == ((u8)0ULL));
  if (v39) {
    goto L12;
  } else {
    goto L11;
  }
L11: ;
  v40 = *v3;
  v41 = ((u32)(v40 + ((u32)4294967295ULL)));
  *v3 = v41;
  v44 = v40;
  goto L13;
L12: ;
  v42 = *v3;
  v43 = ((u32)(v42 + ((u32)4294967295ULL)));
  *v3 = v43;
  v44 = v42;
  goto L13;
L13: ;
  v45 = (v44 == ((u32)1ULL));
  if (v45) {
    goto L14;
  } else {
    goto L15;
  }
L14: ;
  _ZNSt16_Sp_counted_baseILN9__gnu_cxx12_Lock_policyE2EE24_M_release_last_use_coldEv(v1);
  goto L15;
L15: ;
  v46 = (fnptr_t**)(&(*a0).f0.f0.f0);
  *v46 = ((fnptr_t*)((u8**)(&(*(&_ZTVN14OpenVolumeMesh18PropertyStoragePtrIjEE)).f0.e[(s64)((s64)((u64)2ULL))])));
  v47 = (struct S38_class_OpenVolumeMesh__PropertyStorageT_3**)(&(*a0).f0.f0.f1.f0.f0);
  *v47 = v20;
  v48 = (struct S13_class_std___Sp_counted_base**)(&(*a0).f0.f0.f1.f0.f1.f0);
  *v48 = v1;
  *v46 = ((fnptr_t*)((u8**)(&(*(&_ZTVN14OpenVolumeMesh14HandleIndexingINS_6Entity4MeshENS_18PropertyStoragePtrIjEEEE)).f0.e[(s64)((s64)((u64)2ULL))])));
  v49 = (fnptr_t**)(&(*a0).f1.f0);
  *v49 = ((fnptr_t*)((u8**)(&(*(&_ZTVN14OpenVolumeMesh15BasePropertyPtrE)).f0.e[(s64)((s64)((u64)2ULL))])));
  *v46 = ((fnptr_t*)((u8**)(&(*(&_ZTVN14OpenVolumeMesh11PropertyPtrIjNS_6Entity4MeshEEE)).f0.e[(s64)((s64)((u64)2ULL))])));
  *v49 = ((fnptr_t*)((u8**)(&(*(&_ZTVN14OpenVolumeMesh11PropertyPtrIjNS_6Entity4MeshEEE)).f1.e[(s64)((s64)((u64)2ULL))])));
  return;
}

void _ZN14OpenVolumeMesh15ResourceManager16request_propertyIjNS_6Entity4CellEEENS_11PropertyPtrIT_T0_EERKNSt7__cxx1112basic_stringIcSt11char_traitsIcESaIcEEERKS5_(struct S44_class_OpenVolumeMesh__PropertyPtr_431* a0, struct S52_class_OpenVolumeMesh__ResourceManager* a1, struct S27_class_std____cxx11__basic_string* a2, u32* a3) {
  u64* v0; u64 v0_m;
  struct S57_class_std__optional_433* v1; struct S57_class_std__optional_433 v1_m;
  struct S27_class_std____cxx11__basic_string* v2; struct S27_class_std____cxx11__basic_string v2_m;
  u8* v3;
  u8* v4;
  u8 v5;
  u1 v6;
  fnptr_t** v7;
  struct S38_class_OpenVolumeMesh__PropertyStorageT_3** v8;
  struct S38_class_OpenVolumeMesh__PropertyStorageT_3** v9;
  struct S38_class_OpenVolumeMesh__PropertyStorageT_3* v10;
  struct S13_class_std___Sp_counted_base** v11;
  struct S13_class_std___Sp_counted_base** v12;
  struct S13_class_std___Sp_counted_base* v13;
  u1 v14;
  u32* v15;
  u8 v16;
  u1 v17;
  u32 v18;
  u32 v19;
  u32 v20;
  u32 v21;
  fnptr_t** v22;
  u64* v23;
  u64 v24;
  u1 v25;
  struct S66_union_anon* v26;
  struct S66_union_anon** v27;
  u8** v28;
  u8* v29;
  u8* v30;
  u1 v31;
  u8* v32;
  u8** v33;
  u64 v34;
  u64* v35;
  u8** v36;
  u8* v37;
  u8 v38;
  u64 v39;
  u64* v40;
  u8* v41;
  u8* v42;
  u8* v43;
  u8* v44;
  u1 v45;
  struct S63 v46;
  struct S63 v47;
  u8* v48;
  u8* v49;
  u1 v50;
  struct S63 v51; struct S63 v51_t;
  struct S58_struct_std___Optional_base_434* v52;
  u8* v53;
  u8 v54;
  u1 v55;
  fnptr_t** v56;
  struct S13_class_std___Sp_counted_base** v57;
  struct S13_class_std___Sp_counted_base* v58;
  u1 v59;
  u32* v60;
  u64* v61;
  u64 v62;
  u1 v63;
  u32* v64;
  fnptr_t** v65;
  fnptr_t* v66;
  fnptr_t* v67;
  fnptr_t v68;
  fnptr_t* v69;
  fnptr_t* v70;
  fnptr_t v71;
  u8 v72;
  u1 v73;
  u32 v74;
  u32 v75;
  u32 v76;
  u32 v77;
  u32 v78; u32 v78_t;
  u1 v79;
L0: ;
  v0 = &v0_m;
  v1 = &v1_m;
  v2 = &v2_m;
  v3 = (u8*)v1;
  _ZNK14OpenVolumeMesh15ResourceManager22internal_find_propertyIjNS_6Entity4CellEEESt8optionalINS_11PropertyPtrIT_T0_EEERKNSt7__cxx1112basic_stringIcSt11char_traitsIcESaIcEEE(v1, a1, a2);
  if (v_exc) return;
  v4 = (u8*)(&(*v1).f0.f0.f0.f0.f1);
  v5 = *v4;
  v6 = (v5 == ((u8)0ULL));
  if (v6) {
    goto L6;
  } else {
    goto L1;
  }
L1: ;
  v7 = (fnptr_t**)(&(*a0).f0.f0.f0);
  *v7 = ((fnptr_t*)((u8**)(&(*(&_ZTVN14OpenVolumeMesh18PropertyStoragePtrIjEE)).f0.e[(s64)((s64)((u64)2ULL))])));
  v8 = (struct S38_class_OpenVolumeMesh__PropertyStorageT_3**)(&(*a0).f0.f0.f1.f0.f0);
  v9 = (struct S38_class_OpenVolumeMesh__PropertyStorageT_3**)(&(*v1).f0.f0.f0.f0.f0.f0.f0.f0.f1.f0.f0);
  v10 = *v9;
  *v8 = v10;
  v11 = (struct S13_class_std___Sp_counted_base**)(&(*a0).f0.f0.f1.f0.f1.f0);
  v12 = (struct S13_class_std___Sp_counted_base**)(&(*v1).f0.f0.f0.f0.f0.f0.f0.f0.f1.f0.f1.f0);
  v13 = *v12;
  *v11 = v13;
  v14 = ((u8*)v13 == (u8*)((struct S13_class_std___Sp_counted_base*)0));
  if (v14) {
    goto L5;
  } else {
    goto L2;
  }
L2: ;
  v15 = (u32*)(&(*v13).f1);
  v16 = *(&__libc_single_threaded);
  v17 = (v16 == ((u8)0ULL));
  if (v17) {
    goto L4;
  } else {
    goto L3;
  }
L3: ;
  v18 = *v15;
  v19 = ((u32)(v18 + ((u32)1ULL)));
  *v15 = v19;
  goto L5;
L4: ;
  v20 = *v15;
  v21 = ((u32)(v20 + ((u32)1ULL)));
  *v15 = v21;
  goto L5;
L5: ;
  *v7 = ((fnptr_t*)((u8**)(&(*(&_ZTVN14OpenVolumeMesh14HandleIndexingINS_6Entity4CellENS_18PropertyStoragePtrIjEEEE)).f0.e[(s64)((s64)((u64)2ULL))])));
  v22 = (fnptr_t**)(&(*a0).f1.f0);
  *v22 = ((fnptr_t*)((u8**)(&(*(&_ZTVN14OpenVolumeMesh15BasePropertyPtrE)).f0.e[(s64)((s64)((u64)2ULL))])));
  *v7 = ((fnptr_t*)((u8**)(&(*(&_ZTVN14OpenVolumeMesh11PropertyPtrIjNS_6Entity4CellEEE)).f0.e[(s64)((s64)((u64)2ULL))])));
  *v22 = ((fnptr_t*)((u8**)(&(*(&_ZTVN14OpenVolumeMesh11PropertyPtrIjNS_6Entity4CellEEE)).f1.e[(s64)((s64)((u64)2ULL))])));
  goto L19;
L6: ;
  v23 = (u64*)(&(*a2).f1);
  v24 = *v23;
  v25 = (v24 != ((u64)0ULL));
  v26 = (struct S66_union_anon*)(&(*v2).f2);
  v27 = (struct S66_union_anon**)&(*v2).f0.f0;
  *v27 = v26;
  v28 = (u8**)(&(*a2).f0.f0);
  v29 = *v28;
  v30 = (u8*)v0;
  *v0 = v24;
  v31 = (v24 > ((u64)15ULL));
  if (v31) {
    goto L7;
  } else {
    goto L9;
  }
L7: ;
  v32 = _ZNSt7__cxx1112basic_stringIcSt11char_traitsIcESaIcEE9_M_createERmm(v2, v0, ((u64)0ULL));
  if (v_exc) {
    goto L15;
  }
  goto L8;
L8: ;
  v33 = (u8**)(&(*v2).f0.f0);
  *v33 = v32;
  v34 = *v0;
  v35 = (u64*)(&(*v2).f2.f0.e[0]);
  *v35 = v34;
  goto L9;
L9: ;
  v36 = (u8**)(&(*v2).f0.f0);
  v37 = *v36;
  switch (v24) {
  case ((u64)1ULL): {
    goto L10;
  }
  case ((u64)0ULL): {
    goto L12;
  }
  default: {
    goto L11;
  }
  }
L10: ;
  v38 = *v29;
  *v37 = v38;
  goto L12;
L11: ;
  v_memcpy((u8*)v37, (u8*)v29, (u64)v24);
  goto L12;
L12: ;
  v39 = *v0;
  v40 = (u64*)(&(*v2).f1);
  *v40 = v39;
  v41 = *v36;
  v42 = (u8*)(v41 + (s64)((s64)v39));
  *v42 = ((u8)0ULL);
  _ZNK14OpenVolumeMesh15ResourceManager24internal_create_propertyIjNS_6Entity4CellEEENS_11PropertyPtrIT_T0_EENSt7__cxx1112basic_stringIcSt11char_traitsIcESaIcEEERKS5_b(a0, a1, v2, a3, v25);
  if (v_exc) {
    goto L16;
  }
  goto L13;
L13: ;
  v43 = *v36;
  v44 = (u8*)v26;
  v45 = ((u8*)v43 == (u8*)v44);
  if (v45) {
    goto L19;
  } else {
    goto L14;
  }
L14: ;
  _ZdlPv(v43);
  goto L19;
L15: ;
  v46.f0 = v_exc_obj;
  v46.f1 = 0;
  v_exc = 0;
  v51 = v46;
  goto L18;
L16: ;
  v47.f0 = v_exc_obj;
  v47.f1 = 0;
  v_exc = 0;
  v48 = *v36;
  v49 = (u8*)v26;
  v50 = ((u8*)v48 == (u8*)v49);
  if (v50) {
    v51 = v47;
    goto L18;
  } else {
    goto L17;
  }
L17: ;
  _ZdlPv(v48);
  v51 = v47;
  goto L18;
L18: ;
  v52 = (struct S58_struct_std___Optional_base_434*)(&(*v1).f0);
  _ZNSt14_Optional_baseIN14OpenVolumeMesh11PropertyPtrIjNS0_6Entity4CellEEELb0ELb0EED2Ev(v52);
  v_exc = 1; return;
L19: ;
  v53 = (u8*)(&(*v1).f0.f0.f0.f0.f1);
  v54 = *v53;
  v55 = (v54 == ((u8)0ULL));
  if (v55) {
    goto L28;
  } else {
    goto L20;
  }
L20: ;
  *v53 = ((u8)0ULL);
  v56 = (fnptr_t**)(&(*v1).f0.f0.f0.f0.f0.f0.f0.f0.f0);
  *v56 = ((fnptr_t*)((u8**)(&(*(&_ZTVN14OpenVolumeMesh18PropertyStoragePtrIjEE)).f0.e[(s64)((s64)((u64)2ULL))])));
  v57 = (struct S13_class_std___Sp_counted_base**)(&(*v1).f0.f0.f0.f0.f0.f0.f0.f0.f1.f0.f1.f0);
  v58 = *v57;
  v59 = ((u8*)v58 == (u8*)((struct S13_class_std___Sp_counted_base*)0));
  if (v59) {
    goto L28;
  } else {
    goto L21;
  }
L21: ;
  v60 = (u32*)(&(*v58).f1);
  v61 = (u64*)v60;
  v62 = (((u64)(*v58).f1 << 0) | ((u64)(*v58).f2 << 32));
  v63 = (v62 == ((u64)4294967297ULL));
  if (v63) {
    goto L22;
  } else {
    goto L23;
  }
L22: ;
  *v60 = ((u32)0ULL);
  v64 = (u32*)(&(*v58).f2);
  *v64 = ((u32)0ULL);
  v65 = (fnptr_t**)&(*v58).f0;
  v66 = *v65;
  v67 = (fnptr_t*)(v66 + (s64)((s64)((u64)2ULL)));
  v68 = *v67;
  ((FT0)v68)(v58);
  v69 = *v65;
  v70 = (fnptr_t*)(v69 + (s64)((s64)((u64)3ULL)));
  v71 = *v70;
  ((FT0)v71)(v58);
  goto L28;
L23: ;
  v72 = *(&__libc_single_threaded);
  v73 = (v72 == ((u8)0ULL));
  if (v73) {
    goto L25;
  } else {
    goto L24;
  }
L24: ;
  v74 = *v60;
  v75 = ((u32)(v74 + ((u32)4294967295ULL)));
  *v60 = v75;
  v78 = v74;
  goto L26;
L25: ;
  v76 = *v60;
  v77 = ((u32)(v76 + ((u32)4294967295ULL)));
  *v60 = v77;
  v78 = v76;
  goto L26;
L26: ;
  v79 = (v78 == ((u32)1ULL));
  if (v79) {
    goto L27;
  } else {
    goto L28;
  }
L27: ;
  _ZNSt16_Sp_counted_baseILN9__gnu_cxx12_Lock_policyE2EE24_M_release_last_use_coldEv(v58);
  goto L28;
L28: ;
  return;
}

void _ZN14OpenVolumeMesh15ResourceManager14set_persistentIjNS_6Entity4CellEEEvRNS_11PropertyPtrIT_T0_EEb(struct S52_class_OpenVolumeMesh__ResourceManager* a0, struct S44_class_OpenVolumeMesh__PropertyPtr_431* a1, u1 a2) {
  struct S33_class_std__weak_ptr* v0; struct S33_class_std__weak_ptr v0_m;
  struct S38_class_OpenVolumeMesh__PropertyStorageT_3** v1;
  struct S16_class_OpenVolumeMesh__PropertyStorageBas** v2;
  struct S16_class_OpenVolumeMesh__PropertyStorageBas* v3;
  u8* v4;
  u8 v5;
  u1 v6;
  u1 v7;
  u8* v8;
  struct S55_class_std__shared_ptr_348* v9;
  struct S16_class_OpenVolumeMesh__PropertyStorageBas** v10;
  struct S16_class_OpenVolumeMesh__PropertyStorageBas* v11;
  struct S16_class_OpenVolumeMesh__PropertyStorageBas** v12;
  struct S13_class_std___Sp_counted_base** v13;
  struct S13_class_std___Sp_counted_base** v14;
  struct S13_class_std___Sp_counted_base* v15;
  u1 v16;
  u32* v17;
  u8 v18;
  u1 v19;
  u32 v20;
  u32 v21;
  u32 v22;
  u32 v23;
  struct S16_class_OpenVolumeMesh__PropertyStorageBas* v24;
  u8* v25;
  u8 v26;
  u1 v27;
  u8* v28;
  struct S20_class_std__runtime_error* v29;
  struct S63 v30;
  struct S63 v31;
  struct S10_class_std___Rb_tree* v32;
  struct S23 v33;
  struct S26_class_std__map* v34;
  u8* v35;
  u8* v36;
  struct S35_struct_std___Rb_tree_node_84** v37;
  u8* v38;
  struct S11_struct_std___Rb_tree_node_base* v39;
  struct S35_struct_std___Rb_tree_node_84* v40;
  u1 v41;
  struct S16_class_OpenVolumeMesh__PropertyStorageBas* v42;
  struct S35_struct_std___Rb_tree_node_84* v43; struct S35_struct_std___Rb_tree_node_84* v43_t;
  struct S11_struct_std___Rb_tree_node_base* v44; struct S11_struct_std___Rb_tree_node_base* v44_t;
  struct S67_struct___gnu_cxx____aligned_membuf_85* v45;
  struct S16_class_OpenVolumeMesh__PropertyStorageBas** v46;
  struct S16_class_OpenVolumeMesh__PropertyStorageBas* v47;
  u1 v48;
  struct S11_struct_std___Rb_tree_node_base** v49;
  u1 v50;
  struct S11_struct_std___Rb_tree_node_base* v51;
  struct S11_struct_std___Rb_tree_node_base** v52;
  struct S35_struct_std___Rb_tree_node_84** v53;
  struct S35_struct_std___Rb_tree_node_84* v54;
  struct S11_struct_std___Rb_tree_node_base** v55;
  struct S35_struct_std___Rb_tree_node_84** v56;
  struct S35_struct_std___Rb_tree_node_84* v57;
  u1 v58;
  struct S35_struct_std___Rb_tree_node_84* v59; struct S35_struct_std___Rb_tree_node_84* v59_t;
  struct S11_struct_std___Rb_tree_node_base* v60; struct S11_struct_std___Rb_tree_node_base* v60_t;
  struct S67_struct___gnu_cxx____aligned_membuf_85* v61;
  struct S16_class_OpenVolumeMesh__PropertyStorageBas** v62;
  struct S16_class_OpenVolumeMesh__PropertyStorageBas* v63;
  u1 v64;
  struct S11_struct_std___Rb_tree_node_base** v65;
  struct S11_struct_std___Rb_tree_node_base* v66;
  struct S11_struct_std___Rb_tree_node_base** v67;
  struct S11_struct_std___Rb_tree_node_base* v68;
  struct S11_struct_std___Rb_tree_node_base** v69;
  struct S35_struct_std___Rb_tree_node_84** v70;
  struct S35_struct_std___Rb_tree_node_84* v71;
  u1 v72;
  struct S11_struct_std___Rb_tree_node_base* v73; struct S11_struct_std___Rb_tree_node_base* v73_t;
  u1 v74;
  struct S35_struct_std___Rb_tree_node_84* v75; struct S35_struct_std___Rb_tree_node_84* v75_t;
  struct S11_struct_std___Rb_tree_node_base* v76; struct S11_struct_std___Rb_tree_node_base* v76_t;
  struct S67_struct___gnu_cxx____aligned_membuf_85* v77;
  struct S16_class_OpenVolumeMesh__PropertyStorageBas** v78;
  struct S16_class_OpenVolumeMesh__PropertyStorageBas* v79;
  u1 v80;
  struct S11_struct_std___Rb_tree_node_base* v81;
  struct S11_struct_std___Rb_tree_node_base** v82;
  struct S11_struct_std___Rb_tree_node_base** v83;
  struct S11_struct_std___Rb_tree_node_base* v84;
  struct S11_struct_std___Rb_tree_node_base** v85;
  struct S35_struct_std___Rb_tree_node_84** v86;
  struct S35_struct_std___Rb_tree_node_84* v87;
  u1 v88;
  struct S11_struct_std___Rb_tree_node_base* v89; struct S11_struct_std___Rb_tree_node_base* v89_t;
  struct S11_struct_std___Rb_tree_node_base** v90; struct S11_struct_std___Rb_tree_node_base** v90_t;
  struct S35_struct_std___Rb_tree_node_84** v91;
  struct S35_struct_std___Rb_tree_node_84* v92;
  u1 v93;
  struct S11_struct_std___Rb_tree_node_base* v94; struct S11_struct_std___Rb_tree_node_base* v94_t;
  struct S11_struct_std___Rb_tree_node_base* v95; struct S11_struct_std___Rb_tree_node_base* v95_t;
  struct S10_class_std___Rb_tree* v96;
  struct S16_class_OpenVolumeMesh__PropertyStorageBas** v97;
  struct S16_class_OpenVolumeMesh__PropertyStorageBas* v98;
  u8 v99;
  u8* v100;
  struct S13_class_std___Sp_counted_base** v101;
  struct S13_class_std___Sp_counted_base* v102;
  u1 v103;
  u32* v104;
  u64* v105;
  u64 v106;
  u1 v107;
  u32* v108;
  fnptr_t** v109;
  fnptr_t* v110;
  fnptr_t* v111;
  fnptr_t v112;
  fnptr_t* v113;
  fnptr_t* v114;
  fnptr_t v115;
  u8 v116;
  u1 v117;
  u32 v118;
  u32 v119;
  u32 v120;
  u32 v121;
  u32 v122; u32 v122_t;
  u1 v123;
  struct S63 v124; struct S63 v124_t;
  struct S34_class_std____weak_ptr* v125;
L0: ;
  v0 = &v0_m;
  v1 = (struct S38_class_OpenVolumeMesh__PropertyStorageT_3**)(&(*a1).f0.f0.f1.f0.f0);
  v2 = (struct S16_class_OpenVolumeMesh__PropertyStorageBas**)&(*a1).f0.f0.f1.f0.f0;
  v3 = *v2;
  v4 = (u8*)(&(*v3).f5);
  v5 = *v4;
  v6 = (v5 != ((u8)0ULL));
  v7 = ((u1)((v6 ^ a2)&1));
  if (v7) {
    goto L1;
  } else {
    goto L32;
  }
L1: ;
  v8 = (u8*)v0;
  v9 = (struct S55_class_std__shared_ptr_348*)(&(*a1).f0.f0.f1);
  v10 = (struct S16_class_OpenVolumeMesh__PropertyStorageBas**)&(*a1).f0.f0.f1.f0.f0;
  v11 = *v10;
  v12 = (struct S16_class_OpenVolumeMesh__PropertyStorageBas**)(&(*v0).f0.f0);
  *v12 = v11;
  v13 = (struct S13_class_std___Sp_counted_base**)(&(*v0).f0.f1.f0);
  v14 = (struct S13_class_std___Sp_counted_base**)(&(*a1).f0.f0.f1.f0.f1.f0);
  v15 = *v14;
  *v13 = v15;
  v16 = ((u8*)v15 == (u8*)((struct S13_class_std___Sp_counted_base*)0));
  if (v16) {
    goto L5;
  } else {
    goto L2;
  }
L2: ;
  v17 = (u32*)(&(*v15).f1);
  v18 = *(&__libc_single_threaded);
  v19 = (v18 == ((u8)0ULL));
  if (v19) {
    goto L4;
  } else {
    goto L3;
  }
L3: ;
  v20 = *v17;
  v21 = ((u32)(v20 + ((u32)1ULL)));
  *v17 = v21;
  goto L5;
L4: ;
  v22 = *v17;
  v23 = ((u32)(v22 + ((u32)1ULL)));
  *v17 = v23;
  goto L5;
L5: ;
  if (a2) {
    goto L6;
  } else {
    goto L12;
  }
L6: ;
  v24 = *v2;
  v25 = (u8*)(&(*v24).f6);
  v26 = *v25;
  v27 = (v26 == ((u8)0ULL));
  if (v27) {
    goto L7;
  } else {
    goto L11;
  }
L7: ;
  v28 = __cxa_allocate_exception(((u64)16ULL));
  v29 = (struct S20_class_std__runtime_error*)v28;
  _ZNSt13runtime_errorC1EPKc(v29, ((u8*)(&(*(&_str_4)).e[(s64)((s64)((u64)0ULL))])));
  if (v_exc) {
    goto L9;
  }
  goto L8;
L8: ;
  __cxa_throw(v28, ((u8*)(&_ZTISt13runtime_error)), ((u8*)((fnptr_t)_ZNSt13runtime_errorD1Ev)));
  if (v_exc) {
    goto L10;
  }
  goto L34;
L9: ;
  v30.f0 = v_exc_obj;
  v30.f1 = 0;
  v_exc = 0;
  __cxa_free_exception(v28);
  v124 = v30;
  goto L33;
L10: ;
  v31.f0 = v_exc_obj;
  v31.f1 = 0;
  v_exc = 0;
  v124 = v31;
  goto L33;
L11: ;
  v32 = (struct S10_class_std___Rb_tree*)(&(*a0).f1.f0.f0.e[(s64)((s64)((u64)5ULL))].f0);
  v33 = _ZNSt8_Rb_treeISt10shared_ptrIN14OpenVolumeMesh19PropertyStorageBaseEES3_St9_IdentityIS3_ESt4lessIS3_ESaIS3_EE16_M_insert_uniqueIRKS3_EESt4pairISt17_Rb_tree_iteratorIS3_EbEOT_(v32, v0);
  if (v_exc) {
    goto L10;
  }
  goto L23;
L12: ;
  v34 = (struct S26_class_std__map*)(&(*a0).f1.f0.f0.e[(s64)((s64)((u64)5ULL))]);
  v35 = (u8*)(&(*v34).f0.f0.f0.f0.f0);
  v36 = (u8*)&(*a0).f1.f0.f0.e[5].f0.f0.f1.f0.f1;
  v37 = (struct S35_struct_std___Rb_tree_node_84**)&(*a0).f1.f0.f0.e[5].f0.f0.f1.f0.f1;
  v38 = (u8*)&(*a0).f1.f0.f0.e[5].f0.f0.f1.f0.f0;
  v39 = (struct S11_struct_std___Rb_tree_node_base*)&(*a0).f1.f0.f0.e[5].f0.f0.f1.f0;
  v40 = *v37;
  v41 = ((u8*)v40 == (u8*)((struct S35_struct_std___Rb_tree_node_84*)0));
  if (v41) {
    v94_t = v39;
    v95_t = v39;
    v94 = v94_t;
    v95 = v95_t;
    goto L22;
  } else {
    goto L13;
  }
L13: ;
  v42 = *v12;
  v43_t = v40;
  v44_t = v39;
  v43 = v43_t;
  v44 = v44_t;
  goto L14;
L14: ;
  v45 = (struct S67_struct___gnu_cxx____aligned_membuf_85*)(&(*v43).f1);
  v46 = (struct S16_class_OpenVolumeMesh__PropertyStorageBas**)v45;
  v47 = *v46;
  v48 = v_plt((u8*)v47, (u8*)v42);
  if (v48) {
    goto L15;
  } else {
    goto L16;
  }
L15: ;
  v49 = (struct S11_struct_std___Rb_tree_node_base**)(&(*v43).f0.f3);
  v89_t = v44;
  v90_t = v49;
  v89 = v89_t;
  v90 = v90_t;
  goto L21;
L16: ;
  v50 = v_plt((u8*)v42, (u8*)v47);
  v51 = (struct S11_struct_std___Rb_tree_node_base*)(&(*v43).f0);
  v52 = (struct S11_struct_std___Rb_tree_node_base**)(&(*v43).f0.f2);
  if (v50) {
    v89_t = v51;
    v90_t = v52;
    v89 = v89_t;
    v90 = v90_t;
    goto L21;
  } else {
    goto L17;
  }
L17: ;
  v53 = (struct S35_struct_std___Rb_tree_node_84**)&(*v43).f0.f2;
  v54 = *v53;
  v55 = (struct S11_struct_std___Rb_tree_node_base**)(&(*v43).f0.f3);
  v56 = (struct S35_struct_std___Rb_tree_node_84**)&(*v43).f0.f3;
  v57 = *v56;
  v58 = ((u8*)v54 == (u8*)((struct S35_struct_std___Rb_tree_node_84*)0));
  if (v58) {
    v73 = v51;
    goto L19;
  } else {
    v59_t = v54;
    v60_t = v51;
    v59 = v59_t;
    v60 = v60_t;
    goto L18;
  }
L18: ;
  v61 = (struct S67_struct___gnu_cxx____aligned_membuf_85*)(&(*v59).f1);
  v62 = (struct S16_class_OpenVolumeMesh__PropertyStorageBas**)v61;
  v63 = *v62;
  v64 = v_plt((u8*)v63, (u8*)v42);
  v65 = (struct S11_struct_std___Rb_tree_node_base**)(&(*v59).f0.f3);
  v66 = (struct S11_struct_std___Rb_tree_node_base*)(&(*v59).f0);
  v67 = (struct S11_struct_std___Rb_tree_node_base**)(&(*v59).f0.f2);
  v68 = (v64 ? v60 : v66);
  v69 = (v64 ? v65 : v67);
  v70 = (struct S35_struct_std___Rb_tree_node_84**)v69;
  v71 = *v70;
  v72 = ((u8*)v71 == (u8*)((struct S35_struct_std___Rb_tree_node_84*)0));
  if (v72) {
    v73 = v68;
    goto L19;
  } else {
    v59_t = v71;
    v60_t = v68;
    v59 = v59_t;
    v60 = v60_t;
    goto L18;
  }
L19: ;
  v74 = ((u8*)v57 == (u8*)((struct S35_struct_std___Rb_tree_node_84*)0));
  if (v74) {
    v94_t = v73;
    v95_t = v44;
    v94 = v94_t;
    v95 = v95_t;
    goto L22;
  } else {
    v75_t = v57;
    v76_t = v44;
    v75 = v75_t;
    v76 = v76_t;
    goto L20;
  }
L20: ;
  v77 = (struct S67_struct___gnu_cxx____aligned_membuf_85*)(&(*v75).f1);
  v78 = (struct S16_class_OpenVolumeMesh__PropertyStorageBas**)v77;
  v79 = *v78;
  v80 = v_plt((u8*)v42, (u8*)v79);
  v81 = (struct S11_struct_std___Rb_tree_node_base*)(&(*v75).f0);
  v82 = (struct S11_struct_std___Rb_tree_node_base**)(&(*v75).f0.f2);
  v83 = (struct S11_struct_std___Rb_tree_node_base**)(&(*v75).f0.f3);
  v84 = (v80 ? v81 : v76);
  v85 = (v80 ? v82 : v83);
  v86 = (struct S35_struct_std___Rb_tree_node_84**)v85;
  v87 = *v86;
  v88 = ((u8*)v87 == (u8*)((struct S35_struct_std___Rb_tree_node_84*)0));
  if (v88) {
    v94_t = v73;
    v95_t = v84;
    v94 = v94_t;
    v95 = v95_t;
    goto L22;
  } else {
    v75_t = v87;
    v76_t = v84;
    v75 = v75_t;
    v76 = v76_t;
    goto L20;
  }
L21: ;
  v91 = (struct S35_struct_std___Rb_tree_node_84**)v90;
  v92 = *v91;
  v93 = ((u8*)v92 == (u8*)((struct S35_struct_std___Rb_tree_node_84*)0));
  if (v93) {
    v94_t = v89;
    v95_t = v89;
    v94 = v94_t;
    v95 = v95_t;
    goto L22;
  } else {
    v43_t = v92;
    v44_t = v89;
    v43 = v43_t;
    v44 = v44_t;
    goto L14;
  }
L22: ;
  v96 = (struct S10_class_std___Rb_tree*)(&(*v34).f0);
  _ZNSt8_Rb_treeISt10shared_ptrIN14OpenVolumeMesh19PropertyStorageBaseEES3_St9_IdentityIS3_ESt4lessIS3_ESaIS3_EE12_M_erase_auxESt23_Rb_tree_const_iteratorIS3_ESB_(v96, v94, v95);
  if (v_exc) {
    goto L10;
  }
  goto L23;
L23: ;
  v97 = (struct S16_class_OpenVolumeMesh__PropertyStorageBas**)(&(*v0).f0.f0);
  v98 = *v97;
  v99 = ((u8)(a2));
  v100 = (u8*)(&(*v98).f5);
  *v100 = v99;
  v101 = (struct S13_class_std___Sp_counted_base**)(&(*v0).f0.f1.f0);
  v102 = *v101;
  v103 = ((u8*)v102 == (u8*)((struct S13_class_std___Sp_counted_base*)0));
  if (v103) {
    goto L31;
  } else {
    goto L24;
  }
L24: ;
  v104 = (u32*)(&(*v102).f1);
  v105 = (u64*)v104;
  v106 = (((u64)(*v102).f1 << 0) | ((u64)(*v102).f2 << 32));
  v107 = (v106 == ((u64)4294967297ULL));
  if (v107) {
    goto L25;
  } else {
    goto L26;
  }
L25: ;
  *v104 = ((u32)0ULL);
  v108 = (u32*)(&(*v102).f2);
  *v108 = ((u32)0ULL);
  v109 = (fnptr_t**)&(*v102).f0;
  v110 = *v109;
  v111 = (fnptr_t*)(v110 + (s64)((s64)((u64)2ULL)));
  v112 = *v111;
  ((FT0)v112)(v102);
  v113 = *v109;
  v114 = (fnptr_t*)(v113 + (s64)((s64)((u64)3ULL)));
  v115 = *v114;
  ((FT0)v115)(v102);
  goto L31;
L26: ;
  v116 = *(&__libc_single_threaded);
  v117 = (v116 == ((u8)0ULL));
  if (v117) {
    goto L28;
  } else {
    goto L27;
  }
L27: ;
  v118 = *v104;
  v119 = ((u32)(v118 + ((u32)4294967295ULL)));
  *v104 = v119;
  v122 = v118;
  goto L29;
L28: ;
  v120 = *v104;
  v121 = ((u32)(v120 + ((u32)4294967295ULL)));
  *v104 = v121;
  v122 = v120;
  goto L29;
L29: ;
  v123 = (v122 == ((u32)1ULL));
  if (v123) {
    goto L30;
  } else {
    goto L31;
  }
L30: ;
  _ZNSt16_Sp_counted_baseILN9__gnu_cxx12_Lock_policyE2EE24_M_release_last_use_coldEv(v102);
  goto L31;
L31: ;
  goto L32;
L32: ;
  return;
L33: ;
  v125 = (struct S34_class_std____weak_ptr*)(&(*v0).f0);
  _ZNSt12__shared_ptrIN14OpenVolumeMesh19PropertyStorageBaseELN9__gnu_cxx12_Lock_policyE2EED2Ev(v125);
  v_exc = 1; return;
L34: ;
  __CPROVER_assume(0);
}

void _ZNK14OpenVolumeMesh15ResourceManager22internal_find_propertyIjNS_6Entity4CellEEESt8optionalINS_11PropertyPtrIT_T0_EEERKNSt7__cxx1112basic_stringIcSt11char_traitsIcESaIcEEE(struct S57_class_std__optional_433* a0, struct S52_class_OpenVolumeMesh__ResourceManager* a1, struct S27_class_std____cxx11__basic_string* a2) {
  struct S27_class_std____cxx11__basic_string* v0; struct S27_class_std____cxx11__basic_string v0_m;
  struct S44_class_OpenVolumeMesh__PropertyPtr_431* v1; struct S44_class_OpenVolumeMesh__PropertyPtr_431 v1_m;
  u64* v2;
  u64 v3;
  u1 v4;
  u8* v5;
  u8* v6;
  u8* v7;
  u8* v8;
  struct S11_struct_std___Rb_tree_node_base** v9;
  struct S11_struct_std___Rb_tree_node_base* v10;
  u8* v11;
  struct S11_struct_std___Rb_tree_node_base* v12;
  u1 v13;
  u64 v14;
  u8** v15;
  u8* v16;
  u64* v17;
  u64 v18;
  u8** v19;
  u8* v20;
  struct S11_struct_std___Rb_tree_node_base* v21; struct S11_struct_std___Rb_tree_node_base* v21_t;
  struct S11_struct_std___Rb_tree_node_base* v22;
  struct S16_class_OpenVolumeMesh__PropertyStorageBas** v23;
  struct S16_class_OpenVolumeMesh__PropertyStorageBas* v24;
  u8* v25;
  u8 v26;
  u1 v27;
  u64* v28;
  u64 v29;
  u1 v30;
  u1 v31;
  u8** v32;
  u8* v33;
  u32 v34;
  u1 v35;
  u64* v36;
  u64 v37;
  u1 v38;
  u1 v39;
  u8** v40;
  u8* v41;
  u32 v42;
  u1 v43;
  u8* v44;
  fnptr_t** v45;
  struct S38_class_OpenVolumeMesh__PropertyStorageT_3** v46;
  struct S38_class_OpenVolumeMesh__PropertyStorageT_3** v47;
  struct S38_class_OpenVolumeMesh__PropertyStorageT_3* v48;
  struct S13_class_std___Sp_counted_base** v49;
  struct S13_class_std___Sp_counted_base** v50;
  struct S13_class_std___Sp_counted_base* v51;
  u1 v52;
  u32* v53;
  u8 v54;
  u1 v55;
  u32 v56;
  u32 v57;
  u32 v58;
  u32 v59;
  fnptr_t** v60;
  u8* v61;
  fnptr_t** v62;
  struct S13_class_std___Sp_counted_base* v63;
  u1 v64;
  u32* v65;
  u64* v66;
  u64 v67;
  u1 v68;
  u32* v69;
  fnptr_t** v70;
  fnptr_t* v71;
  fnptr_t* v72;
  fnptr_t v73;
  fnptr_t* v74;
  fnptr_t* v75;
  fnptr_t v76;
  u8 v77;
  u1 v78;
  u32 v79;
  u32 v80;
  u32 v81;
  u32 v82;
  u32 v83; u32 v83_t;
  u1 v84;
  struct S63 v85;
  u8** v86;
  u8* v87;
  struct S66_union_anon* v88;
  u8* v89;
  u1 v90;
  struct S11_struct_std___Rb_tree_node_base* v91;
  u1 v92;
  u8* v93;
  u8** v94;
  u8* v95;
  struct S66_union_anon* v96;
  u8* v97;
  u1 v98;
L0: ;
  v0 = &v0_m;
  v1 = &v1_m;
  v2 = (u64*)(&(*a2).f1);
  v3 = *v2;
  v4 = (v3 == ((u64)0ULL));
  if (v4) {
    goto L1;
  } else {
    goto L2;
  }
L1: ;
  v5 = (u8*)(&(*a0).f0.f0.f0.f0.f1);
  *v5 = ((u8)0ULL);
  goto L33;
L2: ;
  v6 = (u8*)v0;
  _ZN14OpenVolumeMesh6detail18internal_type_nameB5cxx11ERKSt9type_info(v0, ((struct S48_class_std__type_info*)(&_ZTIj)));
  if (v_exc) return;
  v7 = (u8*)(&(*a1).f2.f0.f0.e[(s64)((s64)((u64)5ULL))].f1.f0.f0.f0.f0.f0);
  v8 = (u8*)&(*a1).f2.f0.f0.e[5].f1.f0.f0.f1.f0.f2;
  v9 = (struct S11_struct_std___Rb_tree_node_base**)&(*a1).f2.f0.f0.e[5].f1.f0.f0.f1.f0.f2;
  v10 = *v9;
  v11 = (u8*)&(*a1).f2.f0.f0.e[5].f1.f0.f0.f1.f0.f0;
  v12 = (struct S11_struct_std___Rb_tree_node_base*)&(*a1).f2.f0.f0.e[5].f1.f0.f0.f1.f0;
  v13 = ((u8*)v10 == (u8*)v12);
  if (v13) {
    goto L29;
  } else {
    goto L3;
  }
L3: ;
  v14 = *v2;
  v15 = (u8**)(&(*a2).f0.f0);
  v16 = *v15;
  v17 = (u64*)(&(*v0).f1);
  v18 = *v17;
  v19 = (u8**)(&(*v0).f0.f0);
  v20 = *v19;
  v21 = v10;
  goto L4;
L4: ;
  v22 = (struct S11_struct_std___Rb_tree_node_base*)(v21 + (s64)((s64)((u64)1ULL)));
  v23 = (struct S16_class_OpenVolumeMesh__PropertyStorageBas**)v22;
  v24 = *v23;
  v25 = (u8*)(&(*v24).f6);
  v26 = *v25;
  v27 = (v26 == ((u8)0ULL));
  if (v27) {
    goto L26;
  } else {
    goto L5;
  }
L5: ;
  v28 = (u64*)(&(*v24).f2.f1);
  v29 = *v28;
  v30 = (v29 == v14);
  if (v30) {
    goto L6;
  } else {
    goto L26;
  }
L6: ;
  v31 = (v29 == ((u64)0ULL));
  if (v31) {
    goto L8;
  } else {
    goto L7;
  }
L7: ;
  v32 = (u8**)(&(*v24).f2.f0.f0);
  v33 = *v32;
  v34 = bcmp(v33, v16, v29);
  v35 = (v34 == ((u32)0ULL));
  if (v35) {
    goto L8;
  } else {
    goto L26;
  }
L8: ;
  v36 = (u64*)(&(*v24).f3.f1);
  v37 = *v36;
  v38 = (v37 == v18);
  if (v38) {
    goto L9;
  } else {
    goto L26;
  }
L9: ;
  v39 = (v37 == ((u64)0ULL));
  if (v39) {
    goto L11;
  } else {
    goto L10;
  }
L10: ;
  v40 = (u8**)(&(*v24).f3.f0.f0);
  v41 = *v40;
  v42 = bcmp(v41, v20, v37);
  v43 = (v42 == ((u32)0ULL));
  if (v43) {
    goto L11;
  } else {
    goto L26;
  }
L11: ;
  v44 = (u8*)v1;
  _ZN14OpenVolumeMesh15ResourceManager21prop_ptr_from_storageIjNS_6Entity4CellEEENS_11PropertyPtrIT_T0_EEPNS_19PropertyStorageBaseE(v1, v24);
  if (v_exc) {
    goto L25;
  }
  goto L12;
L12: ;
  v45 = (fnptr_t**)(&(*a0).f0.f0.f0.f0.f0.f0.f0.f0.f0);
  *v45 = ((fnptr_t*)((u8**)(&(*(&_ZTVN14OpenVolumeMesh18PropertyStoragePtrIjEE)).f0.e[(s64)((s64)((u64)2ULL))])));
  v46 = (struct S38_class_OpenVolumeMesh__PropertyStorageT_3**)(&(*a0).f0.f0.f0.f0.f0.f0.f0.f0.f1.f0.f0);
  v47 = (struct S38_class_OpenVolumeMesh__PropertyStorageT_3**)(&(*v1).f0.f0.f1.f0.f0);
  v48 = *v47;
  *v46 = v48;
  v49 = (struct S13_class_std___Sp_counted_base**)(&(*a0).f0.f0.f0.f0.f0.f0.f0.f0.f1.f0.f1.f0);
  v50 = (struct S13_class_std___Sp_counted_base**)(&(*v1).f0.f0.f1.f0.f1.f0);
  v51 = *v50;
  *v49 = v51;
  v52 = ((u8*)v51 == (u8*)((struct S13_class_std___Sp_counted_base*)0));
  if (v52) {
    goto L16;
  } else {
    goto L13;
  }
L13: ;
  v53 = (u32*)(&(*v51).f1);
  v54 = *(&__libc_single_threaded);
  v55 = (v54 == ((u8)0ULL));
  if (v55) {
    goto L15;
  } else {
    goto L14;
  }
L14: ;
  v56 = *v53;
  v57 = ((u32)(v56 + ((u32)1ULL)));
  *v53 = v57;
  goto L16;
L15: ;
  v58 = *v53;
  v59 = ((u32)(v58 + ((u32)1ULL)));
  *v53 = v59;
  goto L16;
L16: ;
  *v45 = ((fnptr_t*)((u8**)(&(*(&_ZTVN14OpenVolumeMesh14HandleIndexingINS_6Entity4CellENS_18PropertyStoragePtrIjEEEE)).f0.e[(s64)((s64)((u64)2ULL))])));
  v60 = (fnptr_t**)(&(*a0).f0.f0.f0.f0.f0.f0.f1.f0);
  *v60 = ((fnptr_t*)((u8**)(&(*(&_ZTVN14OpenVolumeMesh15BasePropertyPtrE)).f0.e[(s64)((s64)((u64)2ULL))])));
  *v45 = ((fnptr_t*)((u8**)(&(*(&_ZTVN14OpenVolumeMesh11PropertyPtrIjNS_6Entity4CellEEE)).f0.e[(s64)((s64)((u64)2ULL))])));
  *v60 = ((fnptr_t*)((u8**)(&(*(&_ZTVN14OpenVolumeMesh11PropertyPtrIjNS_6Entity4CellEEE)).f1.e[(s64)((s64)((u64)2ULL))])));
  v61 = (u8*)(&(*a0).f0.f0.f0.f0.f1);
  *v61 = ((u8)1ULL);
  v62 = (fnptr_t**)(&(*v1).f0.f0.f0);
  *v62 = ((fnptr_t*)((u8**)(&(*(&_ZTVN14OpenVolumeMesh18PropertyStoragePtrIjEE)).f0.e[(s64)((s64)((u64)2ULL))])));
  v63 = *v50;
  v64 = ((u8*)v63 == (u8*)((struct S13_class_std___Sp_counted_base*)0));
  if (v64) {
    goto L24;
  } else {
    goto L17;
  }
L17: ;
  v65 = (u32*)(&(*v63).f1);
  v66 = (u64*)v65;
  v67 = (((u64)(*v63).f1 << 0) | ((u64)(*v63).f2 << 32));
  v68 = (v67 == ((u64)4294967297ULL));
  if (v68) {
    goto L18;
  } else {
    goto L19;
  }
L18: ;
  *v65 = ((u32)0ULL);
  v69 = (u32*)(&(*v63).f2);
  *v69 = ((u32)0ULL);
  v70 = (fnptr_t**)&(*v63).f0;
  v71 = *v70;
  v72 = (fnptr_t*)(v71 + (s64)((s64)((u64)2ULL)));
  v73 = *v72;
  ((FT0)v73)(v63);
  v74 = *v70;
  v75 = (fnptr_t*)(v74 + (s64)((s64)((u64)3ULL)));
  v76 = *v75;
  ((FT0)v76)(v63);
  goto L24;
L19: ;
  v77 = *(&__libc_single_threaded);
  v78 = (v77 == ((u8)0ULL));
  if (v78) {
    goto L21;
  } else {
    goto L20;
  }
L20: ;
  v79 = *v65;
  v80 = ((u32)(v79 + ((u32)4294967295ULL)));
  *v65 = v80;
  v83 = v79;
  goto L22;
L21: ;
  v81 = *v65;
  v82 = ((u32)(v81 + ((u32)4294967295ULL)));
  *v65 = v82;
  v83 = v81;
  goto L22;
L22: ;
  v84 = (v83 == ((u32)1ULL));
  if (v84) {
    goto L23;
  } else {
    goto L24;
  }
L23: ;
  _ZNSt16_Sp_counted_baseILN9__gnu_cxx12_Lock_policyE2EE24_M_release_last_use_coldEv(v63);
  goto L24;
L24: ;
  goto L30;
L25: ;
  v85.f0 = v_exc_obj;
  v85.f1 = 0;
  v_exc = 0;
  v86 = (u8**)(&(*v0).f0.f0);
  v87 = *v86;
  v88 = (struct S66_union_anon*)(&(*v0).f2);
  v89 = (u8*)v88;
  v90 = ((u8*)v87 == (u8*)v89);
  if (v90) {
    goto L28;
  } else {
    goto L27;
  }
L26: ;
  v91 = _ZSt18_Rb_tree_incrementPKSt18_Rb_tree_node_base(v21);
  v92 = ((u8*)v91 == (u8*)v12);
  if (v92) {
    goto L29;
  } else {
    v21 = v91;
    goto L4;
  }
L27: ;
  _ZdlPv(v87);
  goto L28;
L28: ;
  v_exc = 1; return;
L29: ;
  v93 = (u8*)(&(*a0).f0.f0.f0.f0.f1);
  *v93 = ((u8)0ULL);
  goto L30;
L30: ;
  v94 = (u8**)(&(*v0).f0.f0);
  v95 = *v94;
  v96 = (struct S66_union_anon*)(&(*v0).f2);
  v97 = (u8*)v96;
  v98 = ((u8*)v95 == (u8*)v97);
  if (v98) {
    goto L32;
  } else {
    goto L31;
  }
L31: ;
  _ZdlPv(v95);
  goto L32;
L32: ;
  goto L33;
L33: ;
  return;
}

void _ZNK14OpenVolumeMesh15ResourceManager24internal_create_propertyIjNS_6Entity4CellEEENS_11PropertyPtrIT_T0_EENSt7__cxx1112basic_stringIcSt11char_traitsIcESaIcEEERKS5_b(struct S44_class_OpenVolumeMesh__PropertyPtr_431* a0, struct S52_class_OpenVolumeMesh__ResourceManager* a1, struct S27_class_std____cxx11__basic_string* a2, u32* a3, u1 a4) {
  struct S0_class_std__ios_base__Init* v0; struct S0_class_std__ios_base__Init v0_m;
  u8* v1; u8 v1_m;
  struct S55_class_std__shared_ptr_348* v2; struct S55_class_std__shared_ptr_348 v2_m;
  struct S39_class_OpenVolumeMesh__detail__Tracker** v3; struct S39_class_OpenVolumeMesh__detail__Tracker* v3_m;
  u8* v4; u8 v4_m;
  u8 v5;
  u8* v6;
  u8* v7;
  struct S39_class_OpenVolumeMesh__detail__Tracker* v8;
  u8* v9;
  struct S43_class_std____shared_ptr_349* v10;
  struct S38_class_OpenVolumeMesh__PropertyStorageT_3** v11;
  struct S38_class_OpenVolumeMesh__PropertyStorageT_3* v12;
  u64 v13;
  struct S40_class_std__vector_322* v14;
  u32** v15;
  u32* v16;
  u32** v17;
  u32* v18;
  u64 v19;
  u64 v20;
  u64 v21;
  u64 v22;
  u1 v23;
  u32* v24;
  u64 v25;
  u1 v26;
  u32* v27;
  u1 v28;
  struct S38_class_OpenVolumeMesh__PropertyStorageT_3** v29;
  struct S38_class_OpenVolumeMesh__PropertyStorageT_3* v30;
  struct S13_class_std___Sp_counted_base** v31;
  struct S13_class_std___Sp_counted_base* v32;
  fnptr_t** v33;
  u8* v34;
  struct S38_class_OpenVolumeMesh__PropertyStorageT_3** v35;
  struct S13_class_std___Sp_counted_base** v36;
  fnptr_t** v37;
  struct S13_class_std___Sp_counted_base** v38;
  struct S13_class_std___Sp_counted_base* v39;
  u1 v40;
  u32* v41;
  u64* v42;
  u64 v43;
  u1 v44;
  u32* v45;
  fnptr_t** v46;
  fnptr_t* v47;
  fnptr_t* v48;
  fnptr_t v49;
  fnptr_t* v50;
  fnptr_t* v51;
  fnptr_t v52;
  u8 v53;
  u1 v54;
  u32 v55;
  u32 v56;
  u32 v57;
  u32 v58;
  u32 v59; u32 v59_t;
  u1 v60;
  struct S63 v61;
L0: ;
  v0 = &v0_m;
  v1 = &v1_m;
  v2 = &v2_m;
  v3 = &v3_m;
  v4 = &v4_m;
  v5 = ((u8)(a4));
  *v1 = v5;
  v6 = (u8*)v2;
  v7 = (u8*)v3;
  v8 = (struct S39_class_OpenVolumeMesh__detail__Tracker*)(&(*a1).f2.f0.f0.e[(s64)((s64)((u64)5ULL))]);
  *v3 = v8;
  *v4 = ((u8)5ULL);
  v9 = (u8*)(&(*v0).f0);
  v10 = (struct S43_class_std____shared_ptr_349*)(&(*v2).f0);
  _ZNSt12__shared_ptrIN14OpenVolumeMesh16PropertyStorageTIjEELN9__gnu_cxx12_Lock_policyE2EEC2ISaIvEJPNS0_6detail7TrackerINS0_19PropertyStorageBaseEEENSt7__cxx1112basic_stringIcSt11char_traitsIcESaIcEEENS0_10EntityTypeERKjRbEEESt20_Sp_alloc_shared_tagIT_EDpOT0_(v10, v0, v3, a2, v4, a3, v1);
  if (v_exc) return;
  v11 = (struct S38_class_OpenVolumeMesh__PropertyStorageT_3**)(&(*v2).f0.f0);
  v12 = *v11;
  v13 = _ZNK14OpenVolumeMesh15ResourceManager1nINS_6Entity4CellEEEmv(a1);
  if (v_exc) {
    goto L15;
  }
  goto L1;
L1: ;
  v14 = (struct S40_class_std__vector_322*)(&(*v12).f2);
  v15 = (u32**)(&(*v12).f2.f0.f0.f0.f1);
  v16 = *v15;
  v17 = (u32**)(&(*v14).f0.f0.f0.f0);
  v18 = *v17;
  v19 = ((u64)((u64)v16));
  v20 = ((u64)((u64)v18));
  v21 = v_pdiff((u8*)v16, (u8*)v18);
  v22 = ((u64)(((s64)v21) >> ((u64)2ULL)));
  v23 = (v13 > v22);
  if (v23) {
    goto L2;
  } else {
    goto L3;
  }
L2: ;
  v24 = (u32*)(&(*v12).f3);
  v25 = ((u64)(v13 - v22));
  _ZNSt6vectorIjSaIjEE14_M_fill_insertEN9__gnu_cxx17__normal_iteratorIPjS1_EEmRKj(v14, v16, v25, v24);
  if (v_exc) {
    goto L15;
  }
  goto L6;
L3: ;
  v26 = (v13 < v22);
  if (v26) {
    goto L4;
  } else {
    goto L6;
  }
L4: ;
  v27 = (u32*)(v18 + (s64)((s64)v13));
  v28 = ((u8*)v16 == (u8*)v27);
  if (v28) {
    goto L6;
  } else {
    goto L5;
  }
L5: ;
  *v15 = v27;
  goto L6;
L6: ;
  v29 = (struct S38_class_OpenVolumeMesh__PropertyStorageT_3**)(&(*v2).f0.f0);
  v30 = *v29;
  v31 = (struct S13_class_std___Sp_counted_base**)(&(*v2).f0.f1.f0);
  v32 = *v31;
  v33 = (fnptr_t**)(&(*a0).f0.f0.f0);
  v34 = (u8*)v2;
  (*v2).f0.f0 = (struct S38_class_OpenVolumeMesh__PropertyStorageT_3*)0;
  (*v2).f0.f1.f0 = (struct S13_class_std___Sp_counted_base*)0;
  *v33 = ((fnptr_t*)((u8**)(&(*(&_ZTVN14OpenVolumeMesh18PropertyStoragePtrIjEE)).f0.e[(s64)((s64)((u64)2ULL))])));
  v35 = (struct S38_class_OpenVolumeMesh__PropertyStorageT_3**)(&(*a0).f0.f0.f1.f0.f0);
  *v35 = v30;
  v36 = (struct S13_class_std___Sp_counted_base**)(&(*a0).f0.f0.f1.f0.f1.f0);
  *v36 = v32;
  *v33 = ((fnptr_t*)((u8**)(&(*(&_ZTVN14OpenVolumeMesh14HandleIndexingINS_6Entity4CellENS_18PropertyStoragePtrIjEEEE)).f0.e[(s64)((s64)((u64)2ULL))])));
  v37 = (fnptr_t**)(&(*a0).f1.f0);
  *v37 = ((fnptr_t*)((u8**)(&(*(&_ZTVN14OpenVolumeMesh15BasePropertyPtrE)).f0.e[(s64)((s64)((u64)2ULL))])));
  *v33 = ((fnptr_t*)((u8**)(&(*(&_ZTVN14OpenVolumeMesh11PropertyPtrIjNS_6Entity4CellEEE)).f0.e[(s64)((s64)((u64)2ULL))])));
  *v37 = ((fnptr_t*)((u8**)(&(*(&_ZTVN14OpenVolumeMesh11PropertyPtrIjNS_6Entity4CellEEE)).f1.e[(s64)((s64)((u64)2ULL))])));
  v38 = (struct S13_class_std___Sp_counted_base**)(&(*v2).f0.f1.f0);
  v39 = *v38;
  v40 = ((u8*)v39 == (u8*)((struct S13_class_std___Sp_counted_base*)0));
  if (v40) {
    goto L14;
  } else {
    goto L7;
  }
L7: ;
  v41 = (u32*)(&(*v39).f1);
  v42 = (u64*)v41;
  v43 = (((u64)(*v39).f1 << 0) | ((u64)(*v39).f2 << 32));
  v44 = (v43 == ((u64)4294967297ULL));
  if (v44) {
    goto L8;
  } else {
    goto L9;
  }
L8: ;
  *v41 = ((u32)0ULL);
  v45 = (u32*)(&(*v39).f2);
  *v45 = ((u32)0ULL);
  v46 = (fnptr_t**)&(*v39).f0;
  v47 = *v46;
  v48 = (fnptr_t*)(v47 + (s64)((s64)((u64)2ULL)));
  v49 = *v48;
  ((FT0)v49)(v39);
  v50 = *v46;
  v51 = (fnptr_t*)(v50 + (s64)((s64)((u64)3ULL)));
  v52 = *v51;
  ((FT0)v52)(v39);
  goto L14;
L9: ;
  v53 = *(&__libc_single_threaded);
  v54 = (v53 == ((u8)0ULL));
  if (v54) {
    goto L11;
  } else {
    goto L10;
  }
L10: ;
  v55 = *v41;
  v56 = ((u32)(v55 + ((u32)4294967295ULL)));
  *v41 = v56;
  v59 = v55;
  goto L12;
L11: ;
  v57 = *v41;
  v58 = ((u32)(v57 + ((u32)4294967295ULL)));
  *v41 = v58;
  v59 = v57;
  goto L12;
L12: ;
  v60 = (v59 == ((u32)1ULL));
  if (v60) {
    goto L13;
  } else {
    goto L14;
  }
L13: ;
  _ZNSt16_Sp_counted_baseILN9__gnu_cxx12_Lock_policyE2EE24_M_release_last_use_coldEv(v39);
  goto L14;
L14: ;
  return;
L15: ;
  v61.f0 = v_exc_obj;
  v61.f1 = 0;
  v_exc = 0;
  _ZNSt12__shared_ptrIN14OpenVolumeMesh16PropertyStorageTIjEELN9__gnu_cxx12_Lock_policyE2EED2Ev(v10);
  v_exc = 1; return;
}

void _ZNSt14_Optional_baseIN14OpenVolumeMesh11PropertyPtrIjNS0_6Entity4CellEEELb0ELb0EED2Ev(struct S58_struct_std___Optional_base_434* a0) {
  u8* v0;
  u8 v1;
  u1 v2;
  fnptr_t** v3;
  struct S13_class_std___Sp_counted_base** v4;
  struct S13_class_std___Sp_counted_base* v5;
  u1 v6;
  u32* v7;
  u64* v8;
  u64 v9;
  u1 v10;
  u32* v11;
  fnptr_t** v12;
  fnptr_t* v13;
  fnptr_t* v14;
  fnptr_t v15;
  fnptr_t* v16;
  fnptr_t* v17;
  fnptr_t v18;
  u8 v19;
  u1 v20;
  u32 v21;
  u32 v22;
  u32 v23;
  u32 v24;
  u32 v25; u32 v25_t;
  u1 v26;
L0: ;
  v0 = (u8*)(&(*a0).f0.f0.f0.f1);
  v1 = *v0;
  v2 = (v1 == ((u8)0ULL));
  if (v2) {
    goto L9;
  } else {
    goto L1;
  }
L1: ;
  *v0 = ((u8)0ULL);
  v3 = (fnptr_t**)(&(*a0).f0.f0.f0.f0.f0.f0.f0.f0);
  *v3 = ((fnptr_t*)((u8**)(&(*(&_ZTVN14OpenVolumeMesh18PropertyStoragePtrIjEE)).f0.e[(s64)((s64)((u64)2ULL))])));
  v4 = (struct S13_class_std___Sp_counted_base**)(&(*a0).f0.f0.f0.f0.f0.f0.f0.f1.f0.f1.f0);
  v5 = *v4;
  v6 = ((u8*)v5 == (u8*)((struct S13_class_std___Sp_counted_base*)0));
  if (v6) {
    goto L9;
  } else {
    goto L2;
  }
L2: ;
  v7 = (u32*)(&(*v5).f1);
  v8 = (u64*)v7;
  v9 = (((u64)(*v5).f1 << 0) | ((u64)(*v5).f2 << 32));
  v10 = (v9 == ((u64)4294967297ULL));
  if (v10) {
    goto L3;
  } else {
    goto L4;
  }
L3: ;
  *v7 = ((u32)0ULL);
  v11 = (u32*)(&(*v5).f2);
  *v11 = ((u32)0ULL);
  v12 = (fnptr_t**)&(*v5).f0;
  v13 = *v12;
  v14 = (fnptr_t*)(v13 + (s64)((s64)((u64)2ULL)));
  v15 = *v14;
  ((FT0)v15)(v5);
  v16 = *v12;
  v17 = (fnptr_t*)(v16 + (s64)((s64)((u64)3ULL)));
  v18 = *v17;
  ((FT0)v18)(v5);
  goto L9;
L4: ;
  v19 = *(&__libc_single_threaded);
  v20 = (v19 == ((u8)0ULL));
  if (v20) {
    goto L6;
  } else {
    goto L5;
  }
L5: ;
  v21 = *v7;
  v22 = ((u32)(v21 + ((u32)4294967295ULL)));
  *v7 = v22;
  v25 = v21;
  goto L7;
L6: ;
  v23 = *v7;
  v24 = ((u32)(v23 + ((u32)4294967295ULL)));
  *v7 = v24;
  v25 = v23;
  goto L7;
L7: ;
  v26 = (v25 == ((u32)1ULL));
  if (v26) {
    goto L8;
  } else {
    goto L9;
  }
L8: ;
  _ZNSt16_Sp_counted_baseILN9__gnu_cxx12_Lock_policyE2EE24_M_release_last_use_coldEv(v5);
  goto L9;
L9: ;
  return;
}

void _ZN14OpenVolumeMesh15ResourceManager21prop_ptr_from_storageIjNS_6Entity4CellEEENS_11PropertyPtrIT_T0_EEPNS_19PropertyStorageBaseE(struct S44_class_OpenVolumeMesh__PropertyPtr_431* a0, struct S16_class_OpenVolumeMesh__PropertyStorageBas* a1) {
  struct S13_class_std___Sp_counted_base** v0;
  struct S13_class_std___Sp_counted_base* v1;
  u1 v2;
  u32* v3;
  u32 v4;
  u32 v5; u32 v5_t;
  u1 v6;
  u32 v7;
  u32 v8;
  u1 v9;
  u32 v10;
  struct S69 v11;
  struct S69 v12;
  u1 v13;
  u32 v14;
  u8* v15;
  u64* v16;
  fnptr_t** v17;
  struct S16_class_OpenVolumeMesh__PropertyStorageBas** v18;
  struct S38_class_OpenVolumeMesh__PropertyStorageT_3** v19;
  struct S38_class_OpenVolumeMesh__PropertyStorageT_3* v20;
  u8 v21;
  u1 v22;
  u32 v23;
  u32 v24;
  u32 v25;
  u32 v26;
  u64* v27;
  u64 v28;
  u1 v29;
  u32* v30;
  fnptr_t** v31;
  fnptr_t* v32;
  fnptr_t* v33;
  fnptr_t v34;
  fnptr_t* v35;
  fnptr_t* v36;
  fnptr_t v37;
  u8 v38;
  u1 v39;
  u32 v40;
  u32 v41;
  u32 v42;
  u32 v43;
  u32 v44; u32 v44_t;
  u1 v45;
  fnptr_t** v46;
  struct S38_class_OpenVolumeMesh__PropertyStorageT_3** v47;
  struct S13_class_std___Sp_counted_base** v48;
  fnptr_t** v49;
L0: ;
  v0 = (struct S13_class_std___Sp_counted_base**)(&(*a1).f1.f0.f0.f1.f0);
  v1 = *v0;
  v2 = ((u8*)v1 == (u8*)((struct S13_class_std___Sp_counted_base*)0));
  if (v2) {
    goto L4;
  } else {
    goto L1;
  }
L1: ;
  v3 = (u32*)(&(*v1).f1);
  v4 = *v3;
  v5 = v4;
  goto L2;
L2: ;
  v6 = (v5 == ((u32)0ULL));
  if (v6) {
    goto L4;
  } else {
    goto L3;
  }
L3: ;
  v7 = ((u32)(v5 + ((u32)1ULL)));
  v8 = *v3;
  v9 = (v8 == v5);
  v10 = (v9 ? v7 : v8);
  *v3 = v10;
  v11.f0 = v8;
  v12 = v11;
  v12.f1 = v9;
  v13 = v12.f1;
  v14 = v12.f0;
  if (v13) {
    goto L5;
  } else {
    v5 = v14;
    goto L2;
  }
L4: ;
  v15 = __cxa_allocate_exception(((u64)8ULL));
  v16 = (u64*)v15;
  *v16 = ((u64)0ULL);
  v17 = (fnptr_t**)v15;
  *v17 = ((fnptr_t*)((u8**)(&(*(&_ZTVSt12bad_weak_ptr)).f0.e[(s64)((s64)((u64)2ULL))])));
  __cxa_throw(v15, ((u8*)(&_ZTISt12bad_weak_ptr)), ((u8*)((fnptr_t)_ZNSt12bad_weak_ptrD1Ev)));
  if (v_exc) return;
  __CPROVER_assume(0);
L5: ;
  v18 = (struct S16_class_OpenVolumeMesh__PropertyStorageBas**)(&(*a1).f1.f0.f0.f0);
  v19 = (struct S38_class_OpenVolumeMesh__PropertyStorageT_3**)&(*a1).f1.f0.f0.f0;
  v20 = *v19;
  v21 = *(&__libc_single_threaded);
  v22 = (v21 == ((u8)0ULL));
  if (v22) {
    goto L7;
  } else {
    goto L6;
  }
L6: ;
  v23 = *v3;
  v24 = ((u32)(v23 + ((u32)1ULL)));
  *v3 = v24;
  goto L8;
L7: ;
  v25 = *v3;
  v26 = ((u32)(v25 + ((u32)1ULL)));
  *v3 = v26;
  goto L8;
L8: ;
  v27 = (u64*)v3;
  v28 = (((u64)(*v1).f1 << 0) | ((u64)(*v1).f2 << 32));
  v29 = (v28 == ((u64)4294967297ULL));
  if (v29) {
    goto L9;
  } else {
    goto L10;
  }
L9: ;
  *v3 = ((u32)0ULL);
  v30 = (u32*)(&(*v1).f2);
  *v30 = ((u32)0ULL);
  v31 = (fnptr_t**)&(*v1).f0;
  v32 = *v31;
  v33 = (fnptr_t*)(v32 + (s64)((s64)((u64)2ULL)));
  v34 = *v33;
  ((FT0)v34)(v1);
  v35 = *v31;
  v36 = (fnptr_t*)(v35 + (s64)((s64)((u64)3ULL)));
  v37 = *v36;
  ((FT0)v37)(v1);
  goto L15;
L10: ;
  v38 = *(&__libc_single_threaded);
  v39 = (v38 == ((u8)0ULL));
  if (v39) {
    goto L12;
  } else {
    goto L11;
  }
L11: ;
  v40 = *v3;
  v41 = ((u32)(v40 + ((u32)4294967295ULL)));
  *v3 = v41;
  v44 = v40;
  goto L13;
L12: ;
  v42 = *v3;
  v43 = ((u32)(v42 + ((u32)4294967295ULL)));
  *v3 = v43;
  v44 = v42;
  goto L13;
L13: ;
  v45 = (v44 == ((u32)1ULL));
  if (v45) {
    goto L14;
  } else {
    goto L15;
  }
L14: ;
  _ZNSt16_Sp_counted_baseILN9__gnu_cxx12_Lock_policyE2EE24_M_release_last_use_coldEv(v1);
  goto L15;
L15: ;
  v46 = (fnptr_t**)(&(*a0).f0.f0.f0);
  *v46 = ((fnptr_t*)((u8**)(&(*(&_ZTVN14OpenVolumeMesh18PropertyStoragePtrIjEE)).f0.e[(s64)((s64)((u64)2ULL))])));
  v47 = (struct S38_class_OpenVolumeMesh__PropertyStorageT_3**)(&(*a0).f0.f0.f1.f0.f0);
  *v47 = v20;
  v48 = (struct S13_class_std___Sp_counted_base**)(&(*a0).f0.f0.f1.f0.f1.f0);
  *v48 = v1;
  *v46 = ((fnptr_t*)((u8**)(&(*(&_ZTVN14OpenVolumeMesh14HandleIndexingINS_6Entity4CellENS_18PropertyStoragePtrIjEEEE)).f0.e[(s64)((s64)((u64)2ULL))])));
  v49 = (fnptr_t**)(&(*a0).f1.f0);
  *v49 = ((fnptr_t*)((u8**)(&(*(&_ZTVN14OpenVolumeMesh15BasePropertyPtrE)).f0.e[(s64)((s64)((u64)2ULL))])));
  *v46 = ((fnptr_t*)((u8**)(&(*(&_ZTVN14OpenVolumeMesh11PropertyPtrIjNS_6Entity4CellEEE)).f0.e[(s64)((s64)((u64)2ULL))])));
  *v49 = ((fnptr_t*)((u8**)(&(*(&_ZTVN14OpenVolumeMesh11PropertyPtrIjNS_6Entity4CellEEE)).f1.e[(s64)((s64)((u64)2ULL))])));
  return;
}

void _ZN14OpenVolumeMesh15ResourceManager16request_propertyIjNS_6Entity8HalfFaceEEENS_11PropertyPtrIT_T0_EERKNSt7__cxx1112basic_stringIcSt11char_traitsIcESaIcEEERKS5_(struct S44_class_OpenVolumeMesh__PropertyPtr_431* a0, struct S52_class_OpenVolumeMesh__ResourceManager* a1, struct S27_class_std____cxx11__basic_string* a2, u32* a3) {
  u64* v0; u64 v0_m;
  struct S57_class_std__optional_433* v1; struct S57_class_std__optional_433 v1_m;
  struct S27_class_std____cxx11__basic_string* v2; struct S27_class_std____cxx11__basic_string v2_m;
  u8* v3;
  u8* v4;
  u8 v5;
  u1 v6;
  fnptr_t** v7;
  struct S38_class_OpenVolumeMesh__PropertyStorageT_3** v8;
  struct S38_class_OpenVolumeMesh__PropertyStorageT_3** v9;
  struct S38_class_OpenVolumeMesh__PropertyStorageT_3* v10;
  struct S13_class_std___Sp_counted_base** v11;
  struct S13_class_std___Sp_counted_base** v12;
  struct S13_class_std___Sp_counted_base* v13;
  u1 v14;
  u32* v15;
  u8 v16;
  u1 v17;
  u32 v18;
  u32 v19;
  u32 v20;
  u32 v21;
  fnptr_t** v22;
  u64* v23;
  u64 v24;
  u1 v25;
  struct S66_union_anon* v26;
  struct S66_union_anon** v27;
  u8** v28;
  u8* v29;
  u8* v30;
  u1 v31;
  u8* v32;
  u8** v33;
  u64 v34;
  u64* v35;
  u8** v36;
  u8* v37;
  u8 v38;
  u64 v39;
  u64* v40;
  u8* v41;
  u8* v42;
  u8* v43;
  u8* v44;
  u1 v45;
  struct S63 v46;
  struct S63 v47;
  u8* v48;
  u8* v49;
  u1 v50;
  struct S63 v51; struct S63 v51_t;
  struct S58_struct_std___Optional_base_434* v52;
  u8* v53;
  u8 v54;
  u1 v55;
  fnptr_t** v56;
  struct S13_class_std___Sp_counted_base** v57;
  struct S13_class_std___Sp_counted_base* v58;
  u1 v59;
  u32* v60;
  u64* v61;
  u64 v62;
  u1 v63;
  u32* v64;
  fnptr_t** v65;
  fnptr_t* v66;
  fnptr_t* v67;
  fnptr_t v68;
  fnptr_t* v69;
  fnptr_t* v70;
  fnptr_t v71;
  u8 v72;
  u1 v73;
  u32 v74;
  u32 v75;
  u32 v76;
  u32 v77;
  u32 v78; u32 v78_t;
  u1 v79;
L0: ;
  v0 = &v0_m;
  v1 = &v1_m;
  v2 = &v2_m;
  v3 = (u8*)v1;
  _ZNK14OpenVolumeMesh15ResourceManager22internal_find_propertyIjNS_6Entity8HalfFaceEEESt8optionalINS_11PropertyPtrIT_T0_EEERKNSt7__cxx1112basic_stringIcSt11char_traitsIcESaIcEEE(v1, a1, a2);
  if (v_exc) return;
  v4 = (u8*)(&(*v1).f0.f0.f0.f0.f1);
  v5 = *v4;
  v6 = (v5 == ((u8)0ULL));
  if (v6) {
    goto L6;
  } else {
    goto L1;
  }
L1: ;
  v7 = (fnptr_t**)(&(*a0).f0.f0.f0);
  *v7 = ((fnptr_t*)((u8**)(&(*(&_ZTVN14OpenVolumeMesh18PropertyStoragePtrIjEE)).f0.e[(s64)((s64)((u64)2ULL))])));
  v8 = (struct S38_class_OpenVolumeMesh__PropertyStorageT_3**)(&(*a0).f0.f0.f1.f0.f0);
  v9 = (struct S38_class_OpenVolumeMesh__PropertyStorageT_3**)(&(*v1).f0.f0.f0.f0.f0.f0.f0.f0.f1.f0.f0);
  v10 = *v9;
  *v8 = v10;
  v11 = (struct S13_class_std___Sp_counted_base**)(&(*a0).f0.f0.f1.f0.f1.f0);
  v12 = (struct S13_class_std___Sp_counted_base**)(&(*v1).f0.f0.f0.f0.f0.f0.f0.f0.f1.f0.f1.f0);
  v13 = *v12;
  *v11 = v13;
  v14 = ((u8*)v13 == (u8*)((struct S13_class_std___Sp_counted_base*)0));
  if (v14) {
    goto L5;
  } else {
    goto L2;
  }
L2: ;
  v15 = (u32*)(&(*v13).f1);
  v16 = *(&__libc_single_threaded);
  v17 = (v16 == ((u8)0ULL));
  if (v17) {
    goto L4;
  } else {
    goto L3;
  }
L3: ;
  v18 = *v15;
  v19 = ((u32)(v18 + ((u32)1ULL)));
  *v15 = v19;
  goto L5;
L4: ;
  v20 = *v15;
  v21 = ((u32)(v20 + ((u32)1ULL)));
  *v15 = v21;
  goto L5;
L5: ;
  *v7 = ((fnptr_t*)((u8**)(&(*(&_ZTVN14OpenVolumeMesh14HandleIndexingINS_6Entity8HalfFaceENS_18PropertyStoragePtrIjEEEE)).f0.e[(s64)((s64)((u64)2ULL))])));
  v22 = (fnptr_t**)(&(*a0).f1.f0);
  *v22 = ((fnptr_t*)((u8**)(&(*(&_ZTVN14OpenVolumeMesh15BasePropertyPtrE)).f0.e[(s64)((s64)((u64)2ULL))])));
  *v7 = ((fnptr_t*)((u8**)(&(*(&_ZTVN14OpenVolumeMesh11PropertyPtrIjNS_6Entity8HalfFaceEEE)).f0.e[(s64)((s64)((u64)2ULL))])));
  *v22 = ((fnptr_t*)((u8**)(&(*(&_ZTVN14OpenVolumeMesh11PropertyPtrIjNS_6Entity8HalfFaceEEE)).f1.e[(s64)((s64)((u64)2ULL))])));
  goto L19;
L6: ;
  v23 = (u64*)(&(*a2).f1);
  v24 = *v23;
  v25 = (v24 != ((u64)0ULL));
  v26 = (struct S66_union_anon*)(&(*v2).f2);
  v27 = (struct S66_union_anon**)&(*v2).f0.f0;
  *v27 = v26;
  v28 = (u8**)(&(*a2).f0.f0);
  v29 = *v28;
  v30 = (u8*)v0;
  *v0 = v24;
  v31 = (v24 > ((u64)15ULL));
  if (v31) {
    goto L7;
  } else {
    goto L9;
  }
L7: ;
  v32 = _ZNSt7__cxx1112basic_stringIcSt11char_traitsIcESaIcEE9_M_createERmm(v2, v0, ((u64)0ULL));
  if (v_exc) {
    goto L15;
  }
  goto L8;
L8: ;
  v33 = (u8**)(&(*v2).f0.f0);
  *v33 = v32;
  v34 = *v0;
  v35 = (u64*)(&(*v2).f2.f0.e[0]);
  *v35 = v34;
  goto L9;
L9: ;
  v36 = (u8**)(&(*v2).f0.f0);
  v37 = *v36;
  switch (v24) {
  case ((u64)1ULL): {
    goto L10;
  }
  case ((u64)0ULL): {
    goto L12;
  }
  default: {
    goto L11;
  }
  }
L10: ;
  v38 = *v29;
  *v37 = v38;
  goto L12;
L11: ;
  v_memcpy((u8*)v37, (u8*)v29, (u64)v24);
  goto L12;
L12: ;
  v39 = *v0;
  v40 = (u64*)(&(*v2).f1);
  *v40 = v39;
  v41 = *v36;
  v42 = (u8*)(v41 + (s64)((s64)v39));
  *v42 = ((u8)0ULL);
  _ZNK14OpenVolumeMesh15ResourceManager24internal_create_propertyIjNS_6Entity8HalfFaceEEENS_11PropertyPtrIT_T0_EENSt7__cxx1112basic_stringIcSt11char_traitsIcESaIcEEERKS5_b(a0, a1, v2, a3, v25);
  if (v_exc) {
    goto L16;
  }
  goto L13;
L13: ;
  v43 = *v36;
  v44 = (u8*)v26;
  v45 = ((u8*)v43 == (u8*)v44);
  if (v45) {
    goto L19;
  } else {
    goto L14;
  }
L14: ;
  _ZdlPv(v43);
  goto L19;
L15: ;
  v46.f0 = v_exc_obj;
  v46.f1 = 0;
  v_exc = 0;
  v51 = v46;
  goto L18;
L16: ;
  v47.f0 = v_exc_obj;
  v47.f1 = 0;
  v_exc = 0;
  v48 = *v36;
  v49 = (u8*)v26;
  v50 = ((u8*)v48 == (u8*)v49);
  if (v50) {
    v51 = v47;
    goto L18;
  } else {
    goto L17;
  }
L17: ;
  _ZdlPv(v48);
  v51 = v47;
  goto L18;
L18: ;
  v52 = (struct S58_struct_std___Optional_base_434*)(&(*v1).f0);
  _ZNSt14_Optional_baseIN14OpenVolumeMesh11PropertyPtrIjNS0_6Entity8HalfFaceEEELb0ELb0EED2Ev(v52);
  v_exc = 1; return;
L19: ;
  v53 = (u8*)(&(*v1).f0.f0.f0.f0.f1);
  v54 = *v53;
  v55 = (v54 == ((u8)0ULL));
  if (v55) {
    goto L28;
  } else {
    goto L20;
  }
L20: ;
  *v53 = ((u8)0ULL);
  v56 = (fnptr_t**)(&(*v1).f0.f0.f0.f0.f0.f0.f0.f0.f0);
  *v56 = ((fnptr_t*)((u8**)(&(*(&_ZTVN14OpenVolumeMesh18PropertyStoragePtrIjEE)).f0.e[(s64)((s64)((u64)2ULL))])));
  v57 = (struct S13_class_std___Sp_counted_base**)(&(*v1).f0.f0.f0.f0.f0.f0.f0.f0.f1.f0.f1.f0);
  v58 = *v57;
  v59 = ((u8*)v58 == (u8*)((struct S13_class_std___Sp_counted_base*)0));
  if (v59) {
    goto L28;
  } else {
    goto L21;
  }
L21: ;
  v60 = (u32*)(&(*v58).f1);
  v61 = (u64*)v60;
  v62 = (((u64)(*v58).f1 << 0) | ((u64)(*v58).f2 << 32));
  v63 = (v62 == ((u64)4294967297ULL));
  if (v63) {
    goto L22;
  } else {
    goto L23;
  }
L22: ;
  *v60 = ((u32)0ULL);
  v64 = (u32*)(&(*v58).f2);
  *v64 = ((u32)0ULL);
  v65 = (fnptr_t**)&(*v58).f0;
  v66 = *v65;
  v67 = (fnptr_t*)(v66 + (s64)((s64)((u64)2ULL)));
  v68 = *v67;
  ((FT0)v68)(v58);
  v69 = *v65;
  v70 = (fnptr_t*)(v69 + (s64)((s64)((u64)3ULL)));
  v71 = *v70;
  ((FT0)v71)(v58);
  goto L28;
L23: ;
  v72 = *(&__libc_single_threaded);
  v73 = (v72 == ((u8)0ULL));
  if (v73) {
    goto L25;
  } else {
    goto L24;
  }
L24: ;
  v74 = *v60;
  v75 = ((u32)(v74 + ((u32)4294967295ULL)));
  *v60 = v75;
  v78 = v74;
  goto L26;
L25: ;
  v76 = *v60;
  v77 = ((u32)(v76 + ((u32)4294967295ULL)));
  *v60 = v77;
  v78 = v76;
  goto L26;
L26: ;
  v79 = (v78 == ((u32)1ULL));
  if (v79) {
    goto L27;
  } else {
    goto L28;
  }
L27: ;
  _ZNSt16_Sp_counted_baseILN9__gnu_cxx12_Lock_policyE2EE24_M_release_last_use_coldEv(v58);
  goto L28;
L28: ;
  return;
}

void _ZN14OpenVolumeMesh15ResourceManager14set_persistentIjNS_6Entity8HalfFaceEEEvRNS_11PropertyPtrIT_T0_EEb(struct S52_class_OpenVolumeMesh__ResourceManager* a0, struct S44_class_OpenVolumeMesh__PropertyPtr_431* a1, u1 a2) {
  struct S33_class_std__weak_ptr* v0; struct S33_class_std__weak_ptr v0_m;
  struct S38_class_OpenVolumeMesh__PropertyStorageT_3** v1;
  struct S16_class_OpenVolumeMesh__PropertyStorageBas** v2;
  struct S16_class_OpenVolumeMesh__PropertyStorageBas* v3;
  u8* v4;
  u8 v5;
  u1 v6;
  u1 v7;
  u8* v8;
  struct S55_class_std__shared_ptr_348* v9;
  struct S16_class_OpenVolumeMesh__PropertyStorageBas** v10;
  struct S16_class_OpenVolumeMesh__PropertyStorageBas* v11;
  struct S16_class_OpenVolumeMesh__PropertyStorageBas** v12;
  struct S13_class_std___Sp_counted_base** v13;
  struct S13_class_std___Sp_counted_base** v14;
  struct S13_class_std___Sp_counted_base* v15;
  u1 v16;
  u32* v17;
  u8 v18;
  u1 v19;
  u32 v20;
  u32 v21;
  u32 v22;
  u32 v23;
  struct S16_class_OpenVolumeMesh__PropertyStorageBas* v24;
  u8* v25;
  u8 v26;
  u1 v27;
  u8* v28;
  struct S20_class_std__runtime_error* v29;
  struct S63 v30;
  struct S63 v31;
  struct S10_class_std___Rb_tree* v32;
  struct S23 v33;
  struct S26_class_std__map* v34;
  u8* v35;
  u8* v36;
  struct S35_struct_std___Rb_tree_node_84** v37;
  u8* v38;
  struct S11_struct_std___Rb_tree_node_base* v39;
  struct S35_struct_std___Rb_tree_node_84* v40;
  u1 v41;
  struct S16_class_OpenVolumeMesh__PropertyStorageBas* v42;
  struct S35_struct_std___Rb_tree_node_84* v43; struct S35_struct_std___Rb_tree_node_84* v43_t;
  struct S11_struct_std___Rb_tree_node_base* v44; struct S11_struct_std___Rb_tree_node_base* v44_t;
  struct S67_struct___gnu_cxx____aligned_membuf_85* v45;
  struct S16_class_OpenVolumeMesh__PropertyStorageBas** v46;
  struct S16_class_OpenVolumeMesh__PropertyStorageBas* v47;
  u1 v48;
  struct S11_struct_std___Rb_tree_node_base** v49;
  u1 v50;
  struct S11_struct_std___Rb_tree_node_base* v51;
  struct S11_struct_std___Rb_tree_node_base** v52;
  struct S35_struct_std___Rb_tree_node_84** v53;
  struct S35_struct_std___Rb_tree_node_84* v54;
  struct S11_struct_std___Rb_tree_node_base** v55;
  struct S35_struct_std___Rb_tree_node_84** v56;
  struct S35_struct_std___Rb_tree_node_84* v57;
  u1 v58;
  struct S35_struct_std___Rb_tree_node_84* v59; struct S35_struct_std___Rb_tree_node_84* v59_t;
  struct S11_struct_std___Rb_tree_node_base* v60; struct S11_struct_std___Rb_tree_node_base* v60_t;
  struct S67_struct___gnu_cxx____aligned_membuf_85* v61;
  struct S16_class_OpenVolumeMesh__PropertyStorageBas** v62;
  struct S16_class_OpenVolumeMesh__PropertyStorageBas* v63;
  u1 v64;
  struct S11_struct_std___Rb_tree_node_base** v65;
  struct S11_struct_std___Rb_tree_node_base* v66;
  struct S11_struct_std___Rb_tree_node_base** v67;
  struct S11_struct_std___Rb_tree_node_base* v68;
  struct S11_struct_std___Rb_tree_node_base** v69;
  struct S35_struct_std___Rb_tree_node_84** v70;
  struct S35_struct_std___Rb_tree_node_84* v71;
  u1 v72;
  struct S11_struct_std___Rb_tree_node_base* v73; struct S11_struct_std___Rb_tree_node_base* v73_t;
  u1 v74;
  struct S35_struct_std___Rb_tree_node_84* v75; struct S35_struct_std___Rb_tree_node_84* v75_t;
  struct S11_struct_std___Rb_tree_node_base* v76; struct S11_struct_std___Rb_tree_node_base* v76_t;
  struct S67_struct___gnu_cxx____aligned_membuf_85* v77;
  struct S16_class_OpenVolumeMesh__PropertyStorageBas** v78;
  struct S16_class_OpenVolumeMesh__PropertyStorageBas* v79;
  u1 v80;
  struct S11_struct_std___Rb_tree_node_base* v81;
  struct S11_struct_std___Rb_tree_node_base** v82;
  struct S11_struct_std___Rb_tree_node_base** v83;
  struct S11_struct_std___Rb_tree_node_base* v84;
  struct S11_struct_std___Rb_tree_node_base** v85;
  struct S35_struct_std___Rb_tree_node_84** v86;
  struct S35_struct_std___Rb_tree_node_84* v87;
  u1 v88;
  struct S11_struct_std___Rb_tree_node_base* v89; struct S11_struct_std___Rb_tree_node_base* v89_t;
  struct S11_struct_std___Rb_tree_node_base** v90; struct S11_struct_std___Rb_tree_node_base** v90_t;
  struct S35_struct_std___Rb_tree_node_84** v91;
  struct S35_struct_std___Rb_tree_node_84* v92;
  u1 v93;
  struct S11_struct_std___Rb_tree_node_base* v94; struct S11_struct_std___Rb_tree_node_base* v94_t;
  struct S11_struct_std___Rb_tree_node_base* v95; struct S11_struct_std___Rb_tree_node_base* v95_t;
  struct S10_class_std___Rb_tree* v96;
  struct S16_class_OpenVolumeMesh__PropertyStorageBas** v97;
  struct S16_class_OpenVolumeMesh__PropertyStorageBas* v98;
  u8 v99;
  u8* v100;
  struct S13_class_std___Sp_counted_base** v101;
  struct S13_class_std___Sp_counted_base* v102;
  u1 v103;
  u32* v104;
  u64* v105;
  u64 v106;
  u1 v107;
  u32* v108;
  fnptr_t** v109;
  fnptr_t* v110;
  fnptr_t* v111;
  fnptr_t v112;
  fnptr_t* v113;
  fnptr_t* v114;
  fnptr_t v115;
  u8 v116;
  u1 v117;
  u32 v118;
  u32 v119;
  u32 v120;
  u32 v121;
  u32 v122; u32 v122_t;
  u1 v123;
  struct S63 v124; struct S63 v124_t;
  struct S34_class_std____weak_ptr* v125;
L0: ;
  v0 = &v0_m;
  v1 = (struct S38_class_OpenVolumeMesh__PropertyStorageT_3**)(&(*a1).f0.f0.f1.f0.f0);
  v2 = (struct S16_class_OpenVolumeMesh__PropertyStorageBas**)&(*a1).f0.f0.f1.f0.f0;
  v3 = *v2;
  v4 = (u8*)(&(*v3).f5);
  v5 = *v4;
  v6 = (v5 != ((u8)0ULL));
  v7 = ((u1)((v6 ^ a2)&1));
  if (v7) {
    goto L1;
  } else {
    goto L32;
  }
L1: ;
  v8 = (u8*)v0;
  v9 = (struct S55_class_std__shared_ptr_348*)(&(*a1).f0.f0.f1);
  v10 = (struct S16_class_OpenVolumeMesh__PropertyStorageBas**)&(*a1).f0.f0.f1.f0.f0;
  v11 = *v10;
  v12 = (struct S16_class_OpenVolumeMesh__PropertyStorageBas**)(&(*v0).f0.f0);
  *v12 = v11;
  v13 = (struct S13_class_std___Sp_counted_base**)(&(*v0).f0.f1.f0);
  v14 = (struct S13_class_std___Sp_counted_base**)(&(*a1).f0.f0.f1.f0.f1.f0);
  v15 = *v14;
  *v13 = v15;
  v16 = ((u8*)v15 == (u8*)((struct S13_class_std___Sp_counted_base*)0));
  if (v16) {
    goto L5;
  } else {
    goto L2;
  }
L2: ;
  v17 = (u32*)(&(*v15).f1);
  v18 = *(&__libc_single_threaded);
  v19 = (v18 == ((u8)0ULL));
  if (v19) {
    goto L4;
  } else {
    goto L3;
  }
L3: ;
  v20 = *v17;
  v21 = ((u32)(v20 + ((u32)1ULL)));
  *v17 = v21;
  goto L5;
L4: ;
  v22 = *v17;
  v23 = ((u32)(v22 + ((u32)1ULL)));
  *v17 = v23;
  goto L5;
L5: ;
  if (a2) {
    goto L6;
  } else {
    goto L12;
  }
L6: ;
  v24 = *v2;
  v25 = (u8*)(&(*v24).f6);
  v26 = *v25;
  v27 = (v26 == ((u8)0ULL));
  if (v27) {
    goto L7;
  } else {
    goto L11;
  }
L7: ;
  v28 = __cxa_allocate_exception(((u64)16ULL));
  v29 = (struct S20_class_std__runtime_error*)v28;
  _ZNSt13runtime_errorC1EPKc(v29, ((u8*)(&(*(&_str_4)).e[(s64)((s64)((u64)0ULL))])));
  if (v_exc) {
    goto L9;
  }
  goto L8;
L8: ;
  __cxa_throw(v28, ((u8*)(&_ZTISt13runtime_error)), ((u8*)((fnptr_t)_ZNSt13runtime_errorD1Ev)));
  if (v_exc) {
    goto L10;
  }
  goto L34;
L9: ;
  v30.f0 = v_exc_obj;
  v30.f1 = 0;
  v_exc = 0;
  __cxa_free_exception(v28);
  v124 = v30;
  goto L33;
L10: ;
  v31.f0 = v_exc_obj;
  v31.f1 = 0;
  v_exc = 0;
  v124 = v31;
  goto L33;
L11: ;
  v32 = (struct S10_class_std___Rb_tree*)(&(*a0).f1.f0.f0.e[(s64)((s64)((u64)4ULL))].f0);
  v33 = _ZNSt8_Rb_treeISt10shared_ptrIN14OpenVolumeMesh19PropertyStorageBaseEES3_St9_IdentityIS3_ESt4lessIS3_ESaIS3_EE16_M_insert_uniqueIRKS3_EESt4pairISt17_Rb_tree_iteratorIS3_EbEOT_(v32, v0);
  if (v_exc) {
    goto L10;
  }
  goto L23;
L12: ;
  v34 = (struct S26_class_std__map*)(&(*a0).f1.f0.f0.e[(s64)((s64)((u64)4ULL))]);
  v35 = (u8*)(&(*v34).f0.f0.f0.f0.f0);
  v36 = (u8*)&(*a0).f1.f0.f0.e[4].f0.f0.f1.f0.f1;
  v37 = (struct S35_struct_std___Rb_tree_node_84**)&(*a0).f1.f0.f0.e[4].f0.f0.f1.f0.f1;
  v38 = (u8*)&(*a0).f1.f0.f0.e[4].f0.f0.f1.f0.f0;
  v39 = (struct S11_struct_std___Rb_tree_node_base*)&(*a0).f1.f0.f0.e[4].f0.f0.f1.f0;
  v40 = *v37;
  v41 = ((u8*)v40 == (u8*)((struct S35_struct_std___Rb_tree_node_84*)0));
  if (v41) {
    v94_t = v39;
    v95_t = v39;
    v94 = v94_t;
    v95 = v95_t;
    goto L22;
  } else {
    goto L13;
  }
L13: ;
  v42 = *v12;
  v43_t = v40;
  v44_t = v39;
  v43 = v43_t;
  v44 = v44_t;
  goto L14;
L14: ;
  v45 = (struct S67_struct___gnu_cxx____aligned_membuf_85*)(&(*v43).f1);
  v46 = (struct S16_class_OpenVolumeMesh__PropertyStorageBas**)v45;
  v47 = *v46;
  v48 = v_plt((u8*)v47, (u8*)v42);
  if (v48) {
    goto L15;
  } else {
    goto L16;
  }
L15: ;
  v49 = (struct S11_struct_std___Rb_tree_node_base**)(&(*v43).f0.f3);
  v89_t = v44;
  v90_t = v49;
  v89 = v89_t;
  v90 = v90_t;
  goto L21;
L16: ;
  v50 = v_plt((u8*)v42, (u8*)v47);
  v51 = (struct S11_struct_std___Rb_tree_node_base*)(&(*v43).f0);
  v52 = (struct S11_struct_std___Rb_tree_node_base**)(&(*v43).f0.f2);
  if (v50) {
    v89_t = v51;
    v90_t = v52;
    v89 = v89_t;
    v90 = v90_t;
    goto L21;
  } else {
    goto L17;
  }
L17: ;
  v53 = (struct S35_struct_std___Rb_tree_node_84**)&(*v43).f0.f2;
  v54 = *v53;
  v55 = (struct S11_struct_std___Rb_tree_node_base**)(&(*v43).f0.f3);
  v56 = (struct S35_struct_std___Rb_tree_node_84**)&(*v43).f0.f3;
  v57 = *v56;
  v58 = ((u8*)v54 == (u8*)((struct S35_struct_std___Rb_tree_node_84*)0));
  if (v58) {
    v73 = v51;
    goto L19;
  } else {
    v59_t = v54;
    v60_t = v51;
    v59 = v59_t;
    v60 = v60_t;
    goto L18;
  }
L18: ;
  v61 = (struct S67_struct___gnu_cxx____aligned_membuf_85*)(&(*v59).f1);
  v62 = (struct S16_class_OpenVolumeMesh__PropertyStorageBas**)v61;
  v63 = *v62;
  v64 = v_plt((u8*)v63, (u8*)v42);
  v65 = (struct S11_struct_std___Rb_tree_node_base**)(&(*v59).f0.f3);
  v66 = (struct S11_struct_std___Rb_tree_node_base*)(&(*v59).f0);
  v67 = (struct S11_struct_std___Rb_tree_node_base**)(&(*v59).f0.f2);
  v68 = (v64 ? v60 : v66);
  v69 = (v64 ? v65 : v67);
  v70 = (struct S35_struct_std___Rb_tree_node_84**)v69;
  v71 = *v70;
  v72 = ((u8*)v71 == (u8*)((struct S35_struct_std___Rb_tree_node_84*)0));
  if (v72) {
    v73 = v68;
    goto L19;
  } else {
    v59_t = v71;
    v60_t = v68;
    v59 = v59_t;
    v60 = v60_t;
    goto L18;
  }
L19: ;
  v74 = ((u8*)v57 == (u8*)((struct S35_struct_std___Rb_tree_node_84*)0));
  if (v74) {
    v94_t = v73;
    v95_t = v44;
    v94 = v94_t;
    v95 = v95_t;
    goto L22;
  } else {
    v75_t = v57;
    v76_t = v44;
    v75 = v75_t;
    v76 = v76_t;
    goto L20;
  }
L20: ;
  v77 = (struct S67_struct___gnu_cxx____aligned_membuf_85*)(&(*v75).f1);
  v78 = (struct S16_class_OpenVolumeMesh__PropertyStorageBas**)v77;
  v79 = *v78;
  v80 = v_plt((u8*)v42, (u8*)v79);
  v81 = (struct S11_struct_std___Rb_tree_node_base*)(&(*v75).f0);
  v82 = (struct S11_struct_std___Rb_tree_node_base**)(&(*v75).f0.f2);
  v83 = (struct S11_struct_std___Rb_tree_node_base**)(&(*v75).f0.f3);
  v84 = (v80 ? v81 : v76);
  v85 = (v80 ? v82 : v83);
  v86 = (struct S35_struct_std___Rb_tree_node_84**)v85;
  v87 = *v86;
  v88 = ((u8*)v87 == (u8*)((struct S35_struct_std___Rb_tree_node_84*)0));
  if (v88) {
    v94_t = v73;
    v95_t = v84;
    v94 = v94_t;
    v95 = v95_t;
    goto L22;
  } else {
    v75_t = v87;
    v76_t = v84;
    v75 = v75_t;
    v76 = v76_t;
    goto L20;
  }
L21: ;
  v91 = (struct S35_struct_std___Rb_tree_node_84**)v90;
  v92 = *v91;
  v93 = ((u8*)v92 == (u8*)((struct S35_struct_std___Rb_tree_node_84*)0));
  if (v93) {
    v94_t = v89;
    v95_t = v89;
    v94 = v94_t;
    v95 = v95_t;
    goto L22;
  } else {
    v43_t = v92;
    v44_t = v89;
    v43 = v43_t;
    v44 = v44_t;
    goto L14;
  }
L22: ;
  v96 = (struct S10_class_std___Rb_tree*)(&(*v34).f0);
  _ZNSt8_Rb_treeISt10shared_ptrIN14OpenVolumeMesh19PropertyStorageBaseEES3_St9_IdentityIS3_ESt4lessIS3_ESaIS3_EE12_M_erase_auxESt23_Rb_tree_const_iteratorIS3_ESB_(v96, v94, v95);
  if (v_exc) {
    goto L10;
  }
  goto L23;
L23: ;
  v97 = (struct S16_class_OpenVolumeMesh__PropertyStorageBas**)(&(*v0).f0.f0);
  v98 = *v97;
  v99 = ((u8)(a2));
  v100 = (u8*)(&(*v98).f5);
  *v100 = v99;
  v101 = (struct S13_class_std___Sp_counted_base**)(&(*v0).f0.f1.f0);
  v102 = *v101;
  v103 = ((u8*)v102 == (u8*)((struct S13_class_std___Sp_counted_base*)0));
  if (v103) {
    goto L31;
  } else {
    goto L24;
  }
L24: ;
  v104 = (u32*)(&(*v102).f1);
  v105 = (u64*)v104;
  v106 = (((u64)(*v102).f1 << 0) | ((u64)(*v102).f2 << 32));
  v107 = (v106 == ((u64)4294967297ULL));
  if (v107) {
    goto L25;
  } else {
    goto L26;
  }
L25: ;
  *v104 = ((u32)0ULL);
  v108 = (u32*)(&(*v102).f2);
  *v108 = ((u32)0ULL);
  v109 = (fnptr_t**)&(*v102).f0;
  v110 = *v109;
  v111 = (fnptr_t*)(v110 + (s64)((s64)((u64)2ULL)));
  v112 = *v111;
  ((FT0)v112)(v102);
  v113 = *v109;
  v114 = (fnptr_t*)(v113 + (s64)((s64)((u64)3ULL)));
  v115 = *v114;
  ((FT0)v115)(v102);
  goto L31;
L26: ;
  v116 = *(&__libc_single_threaded);
  v117 = (v116 == ((u8)0ULL));
  if (v117) {
    goto L28;
  } else {
    goto L27;
  }
L27: ;
  v118 = *v104;
  v119 = ((u32)(v118 + ((u32)4294967295ULL)));
  *v104 = v119;
  v122 = v118;
  goto L29;
L28: ;
  v120 = *v104;
  v121 = ((u32)(v120 + ((u32)4294967295ULL)));
  *v104 = v121;
  v122 = v120;
  goto L29;
L29: ;
  v123 = (v122 == ((u32)1ULL));
  if (v123) {
    goto L30;
  } else {
    goto L31;
  }
L30: ;
  _ZNSt16_Sp_counted_baseILN9__gnu_cxx12_Lock_policyE2EE24_M_release_last_use_coldEv(v102);
  goto L31;
L31: ;
  goto L32;
L32: ;
  return;
L33: ;
  v125 = (struct S34_class_std____weak_ptr*)(&(*v0).f0);
  _ZNSt12__shared_ptrIN14OpenVolumeMesh19PropertyStorageBaseELN9__gnu_cxx12_Lock_policyE2EED2Ev(v125);
  v_exc = 1; return;
L34: ;
  __CPROVER_assume(0);
}

void _ZNK14OpenVolumeMesh15ResourceManager22internal_find_propertyIjNS_6Entity8HalfFaceEEESt8optionalINS_11PropertyPtrIT_T0_EEERKNSt7__cxx1112basic_stringIcSt11char_traitsIcESaIcEEE(struct S57_class_std__optional_433* a0, struct S52_class_OpenVolumeMesh__ResourceManager* a1, struct S27_class_std____cxx11__basic_string* a2) {
  struct S27_class_std____cxx11__basic_string* v0; struct S27_class_std____cxx11__basic_string v0_m;
  struct S44_class_OpenVolumeMesh__PropertyPtr_431* v1; struct S44_class_OpenVolumeMesh__PropertyPtr_431 v1_m;
  u64* v2;
  u64 v3;
  u1 v4;
  u8* v5;
  u8* v6;
  u8* v7;
  u8* v8;
  struct S11_struct_std___Rb_tree_node_base** v9;
  struct S11_struct_std___Rb_tree_node_base* v10;
  u8* v11;
  struct S11_struct_std___Rb_tree_node_base* v12;
  u1 v13;
  u64 v14;
  u8** v15;
  u8* v16;
  u64* v17;
  u64 v18;
  u8** v19;
  u8* v20;
  struct S11_struct_std___Rb_tree_node_base* v21; struct S11_struct_std___Rb_tree_node_base* v21_t;
  struct S11_struct_std___Rb_tree_node_base* v22;
  struct S16_class_OpenVolumeMesh__PropertyStorageBas** v23;
  struct S16_class_OpenVolumeMesh__PropertyStorageBas* v24;
  u8* v25;
  u8 v26;
  u1 v27;
  u64* v28;
  u64 v29;
  u1 v30;
  u1 v31;
  u8** v32;
  u8* v33;
  u32 v34;
  u1 v35;
  u64* v36;
  u64 v37;
  u1 v38;
  u1 v39;
  u8** v40;
  u8* v41;
  u32 v42;
  u1 v43;
  u8* v44;
  fnptr_t** v45;
  struct S38_class_OpenVolumeMesh__PropertyStorageT_3** v46;
  struct S38_class_OpenVolumeMesh__PropertyStorageT_3** v47;
  struct S38_class_OpenVolumeMesh__PropertyStorageT_3* v48;
  struct S13_class_std___Sp_counted_base** v49;
  struct S13_class_std___Sp_counted_base** v50;
  struct S13_class_std___Sp_counted_base* v51;
  u1 v52;
  u32* v53;
  u8 v54;
  u1 v55;
  u32 v56;
  u32 v57;
  u32 v58;
  u32 v59;
  fnptr_t** v60;
  u8* v61;
  fnptr_t** v62;
  struct S13_class_std___Sp_counted_base* v63;
  u1 v64;
  u32* v65;
  u64* v66;
  u64 v67;
  u1 v68;
  u32* v69;
  fnptr_t** v70;
  fnptr_t* v71;
  fnptr_t* v72;
  fnptr_t v73;
  fnptr_t* v74;
  fnptr_t* v75;
  fnptr_t v76;
  u8 v77;
  u1 v78;
  u32 v79;
  u32 v80;
  u32 v81;
  u32 v82;
  u32 v83; u32 v83_t;
  u1 v84;
  struct S63 v85;
  u8** v86;
  u8* v87;
  struct S66_union_anon* v88;
  u8* v89;
  u1 v90;
  struct S11_struct_std___Rb_tree_node_base* v91;
  u1 v92;
  u8* v93;
  u8** v94;
  u8* v95;
  struct S66_union_anon* v96;
  u8* v97;
  u1 v98;
L0: ;
  v0 = &v0_m;
  v1 = &v1_m;
  v2 = (u64*)(&(*a2).f1);
  v3 = *v2;
  v4 = (v3 == ((u64)0ULL));
  if (v4) {
    goto L1;
  } else {
    goto L2;
  }
L1: ;
  v5 = (u8*)(&(*a0).f0.f0.f0.f0.f1);
  *v5 = ((u8)0ULL);
  goto L33;
L2: ;
  v6 = (u8*)v0;
  _ZN14OpenVolumeMesh6detail18internal_type_nameB5cxx11ERKSt9type_info(v0, ((struct S48_class_std__type_info*)(&_ZTIj)));
  if (v_exc) return;
  v7 = (u8*)(&(*a1).f2.f0.f0.e[(s64)((s64)((u64)4ULL))].f1.f0.f0.f0.f0.f0);
  v8 = (u8*)&(*a1).f2.f0.f0.e[4].f1.f0.f0.f1.f0.f2;
  v9 = (struct S11_struct_std___Rb_tree_node_base**)&(*a1).f2.f0.f0.e[4].f1.f0.f0.f1.f0.f2;
  v10 = *v9;
  v11 = (u8*)&(*a1).f2.f0.f0.e[4].f1.f0.f0.f1.f0.f0;
  v12 = (struct S11_struct_std___Rb_tree_node_base*)&(*a1).f2.f0.f0.e[4].f1.f0.f0.f1.f0;
  v13 = ((u8*)v10 == (u8*)v12);
  if (v13) {
    goto L29;
  } else {
    goto L3;
  }
L3: ;
  v14 = *v2;
  v15 = (u8**)(&(*a2).f0.f0);
  v16 = *v15;
  v17 = (u64*)(&(*v0).f1);
  v18 = *v17;
  v19 = (u8**)(&(*v0).f0.f0);
  v20 = *v19;
  v21 = v10;
  goto L4;
L4: ;
  v22 = (struct S11_struct_std___Rb_tree_node_base*)(v21 + (s64)((s64)((u64)1ULL)));
  v23 = (struct S16_class_OpenVolumeMesh__PropertyStorageBas**)v22;
  v24 = *v23;
  v25 = (u8*)(&(*v24).f6);
  v26 = *v25;
  v27 = (v26 == ((u8)0ULL));
  if (v27) {
    goto L26;
  } else {
    goto L5;
  }
L5: ;
  v28 = (u64*)(&(*v24).f2.f1);
  v29 = *v28;
  v30 = (v29 == v14);
  if (v30) {
    goto L6;
  } else {
    goto L26;
  }
L6: ;
  v31 = (v29 == ((u64)0ULL));
  if (v31) {
    goto L8;
  } else {
    goto L7;
  }
L7: ;
  v32 = (u8**)(&(*v24).f2.f0.f0);
  v33 = *v32;
  v34 = bcmp(v33, v16, v29);
  v35 = (v34 == ((u32)0ULL));
  if (v35) {
    goto L8;
  } else {
    goto L26;
  }
L8: ;
  v36 = (u64*)(&(*v24).f3.f1);
  v37 = *v36;
  v38 = (v37 == v18);
  if (v38) {
    goto L9;
  } else {
    goto L26;
  }
L9: ;
  v39 = (v37 == ((u64)0ULL));
  if (v39) {
    goto L11;
  } else {
    goto L10;
  }
L10: ;
  v40 = (u8**)(&(*v24).f3.f0.f0);
  v41 = *v40;
  v42 = bcmp(v41, v20, v37);
  v43 = (v42 == ((u32)0ULL));
  if (v43) {
    goto L11;
  } else {
    goto L26;
  }
L11: ;
  v44 = (u8*)v1;
  _ZN14OpenVolumeMesh15ResourceManager21prop_ptr_from_storageIjNS_6Entity8HalfFaceEEENS_11PropertyPtrIT_T0_EEPNS_19PropertyStorageBaseE(v1, v24);
  if (v_exc) {
    goto L25;
  }
  goto L12;
L12: ;
  v45 = (fnptr_t**)(&(*a0).f0.f0.f0.f0.f0.f0.f0.f0.f0);
  *v45 = ((fnptr_t*)((u8**)(&(*(&_ZTVN14OpenVolumeMesh18PropertyStoragePtrIjEE)).f0.e[(s64)((s64)((u64)2ULL))])));
  v46 = (struct S38_class_OpenVolumeMesh__PropertyStorageT_3**)(&(*a0).f0.f0.f0.f0.f0.f0.f0.f0.f1.f0.f0);
  v47 = (struct S38_class_OpenVolumeMesh__PropertyStorageT_3**)(&(*v1).f0.f0.f1.f0.f0);
  v48 = *v47;
  *v46 = v48;
  v49 = (struct S13_class_std___Sp_counted_base**)(&(*a0).f0.f0.f0.f0.f0.f0.f0.f0.f1.f0.f1.f0);
  v50 = (struct S13_class_std___Sp_counted_base**)(&(*v1).f0.f0.f1.f0.f1.f0);
  v51 = *v50;
  *v49 = v51;
  v52 = ((u8*)v51 == (u8*)((struct S13_class_std___Sp_counted_base*)0));
  if (v52) {
    goto L16;
  } else {
    goto L13;
  }
L13: ;
  v53 = (u32*)(&(*v51).f1);
  v54 = *(&__libc_single_threaded);
  v55 = (v54 == ((u8)0ULL));
  if (v55) {
    goto L15;
  } else {
    goto L14;
  }
L14: ;
  v56 = *v53;
  v57 = ((u32)(v56 + ((u32)1ULL)));
  *v53 = v57;
  goto L16;
L15: ;
  v58 = *v53;
  v59 = ((u32)(v58 + ((u32)1ULL)));
  *v53 = v59;
  goto L16;
L16: ;
  *v45 = ((fnptr_t*)((u8**)(&(*(&_ZTVN14OpenVolumeMesh14HandleIndexingINS_6Entity8HalfFaceENS_18PropertyStoragePtrIjEEEE)).f0.e[(s64)((s64)((u64)2ULL))])));
  v60 = (fnptr_t**)(&(*a0).f0.f0.f0.f0.f0.f0.f1.f0);
  *v60 = ((fnptr_t*)((u8**)(&(*(&_ZTVN14OpenVolumeMesh15BasePropertyPtrE)).f0.e[(s64)((s64)((u64)2ULL))])));
  *v45 = ((fnptr_t*)((u8**)(&(*(&_ZTVN14OpenVolumeMesh11PropertyPtrIjNS_6Entity8HalfFaceEEE)).f0.e[(s64)((s64)((u64)2ULL))])));
  *v60 = ((fnptr_t*)((u8**)(&(*(&_ZTVN14OpenVolumeMesh11PropertyPtrIjNS_6Entity8HalfFaceEEE)).f1.e[(s64)((s64)((u64)2ULL))])));
  v61 = (u8*)(&(*a0).f0.f0.f0.f0.f1);
  *v61 = ((u8)1ULL);
  v62 = (fnptr_t**)(&(*v1).f0.f0.f0);
  *v62 = ((fnptr_t*)((u8**)(&(*(&_ZTVN14OpenVolumeMesh18PropertyStoragePtrIjEE)).f0.e[(s64)((s64)((u64)2ULL))])));
  v63 = *v50;
  v64 = ((u8*)v63 == (u8*)((struct S13_class_std___Sp_counted_base*)0));
  if (v64) {
    goto L24;
  } else {
    goto L17;
  }
L17: ;
  v65 = (u32*)(&(*v63).f1);
  v66 = (u64*)v65;
  v67 = (((u64)(*v63).f1 << 0) | ((u64)(*v63).f2 << 32));
  v68 = (v67 == ((u64)4294967297ULL));
  if (v68) {
    goto L18;
  } else {
    goto L19;
  }
L18: ;
  *v65 = ((u32)0ULL);
  v69 = (u32*)(&(*v63).f2);
  *v69 = ((u32)0ULL);
  v70 = (fnptr_t**)&(*v63).f0;
  v71 = *v70;
  v72 = (fnptr_t*)(v71 + (s64)((s64)((u64)2ULL)));
  v73 = *v72;
  ((FT0)v73)(v63);
  v74 = *v70;
  v75 = (fnptr_t*)(v74 + (s64)((s64)((u64)3ULL)));
  v76 = *v75;
  ((FT0)v76)(v63);
  goto L24;
L19: ;
  v77 = *(&__libc_single_threaded);
  v78 = (v77 == ((u8)0ULL));
  if (v78) {
    goto L21;
  } else {
    goto L20;
  }
L20: ;
  v79 = *v65;
  v80 = ((u32)(v79 + ((u32)4294967295ULL)));
  *v65 = v80;
  v83 = v79;
  goto L22;
L21: ;
  v81 = *v65;
  v82 = ((u32)(v81 + ((u32)4294967295ULL)));
  *v65 = v82;
  v83 = v81;
  goto L22;
L22: ;
  v84 = (v83 == ((u32)1ULL));
  if (v84) {
    goto L23;
  } else {
    goto L24;
  }
L23: ;
  _ZNSt16_Sp_counted_baseILN9__gnu_cxx12_Lock_policyE2EE24_M_release_last_use_coldEv(v63);
  goto L24;
L24: ;
  goto L30;
L25: ;
  v85.f0 = v_exc_obj;
  v85.f1 = 0;
  v_exc = 0;
  v86 = (u8**)(&(*v0).f0.f0);
  v87 = *v86;
  v88 = (struct S66_union_anon*)(&(*v0).f2);
  v89 = (u8*)v88;
  v90 = ((u8*)v87 == (u8*)v89);
  if (v90) {
    goto L28;
  } else {
    goto L27;
  }
L26: ;
  v91 = _ZSt18_Rb_tree_incrementPKSt18_Rb_tree_node_base(v21);
  v92 = ((u8*)v91 == (u8*)v12);
  if (v92) {
    goto L29;
  } else {
    v21 = v91;
    goto L4;
  }
L27: ;
  _ZdlPv(v87);
  goto L28;
L28: ;
  v_exc = 1; return;
L29: ;
  v93 = (u8*)(&(*a0).f0.f0.f0.f0.f1);
  *v93 = ((u8)0ULL);
  goto L30;
L30: ;
  v94 = (u8**)(&(*v0).f0.f0);
  v95 = *v94;
  v96 = (struct S66_union_anon*)(&(*v0).f2);
  v97 = (u8*)v96;
  v98 = ((u8*)v95 == (u8*)v97);
  if (v98) {
    goto L32;
  } else {
    goto L31;
  }
L31: ;
  _ZdlPv(v95);
  goto L32;
L32: ;
  goto L33;
L33: ;
  return;
}

void _ZNK14OpenVolumeMesh15ResourceManager24internal_create_propertyIjNS_6Entity8HalfFaceEEENS_11PropertyPtrIT_T0_EENSt7__cxx1112basic_stringIcSt11char_traitsIcESaIcEEERKS5_b(struct S44_class_OpenVolumeMesh__PropertyPtr_431* a0, struct S52_class_OpenVolumeMesh__ResourceManager* a1, struct S27_class_std____cxx11__basic_string* a2, u32* a3, u1 a4) {
  struct S0_class_std__ios_base__Init* v0; struct S0_class_std__ios_base__Init v0_m;
  u8* v1; u8 v1_m;
  struct S55_class_std__shared_ptr_348* v2; struct S55_class_std__shared_ptr_348 v2_m;
  struct S39_class_OpenVolumeMesh__detail__Tracker** v3; struct S39_class_OpenVolumeMesh__detail__Tracker* v3_m;
  u8* v4; u8 v4_m;
  u8 v5;
  u8* v6;
  u8* v7;
  struct S39_class_OpenVolumeMesh__detail__Tracker* v8;
  u8* v9;
  struct S43_class_std____shared_ptr_349* v10;
  struct S38_class_OpenVolumeMesh__PropertyStorageT_3** v11;
  struct S38_class_OpenVolumeMesh__PropertyStorageT_3* v12;
  u64 v13;
  struct S40_class_std__vector_322* v14;
  u32** v15;
  u32* v16;
  u32** v17;
  u32* v18;
  u64 v19;
  u64 v20;
  u64 v21;
  u64 v22;
  u1 v23;
  u32* v24;
  u64 v25;
  u1 v26;
  u32* v27;
  u1 v28;
  struct S38_class_OpenVolumeMesh__PropertyStorageT_3** v29;
  struct S38_class_OpenVolumeMesh__PropertyStorageT_3* v30;
  struct S13_class_std___Sp_counted_base** v31;
  struct S13_class_std___Sp_counted_base* v32;
  fnptr_t** v33;
  u8* v34;
  struct S38_class_OpenVolumeMesh__PropertyStorageT_3** v35;
  struct S13_class_std___Sp_counted_base** v36;
  fnptr_t** v37;
  struct S13_class_std___Sp_counted_base** v38;
  struct S13_class_std___Sp_counted_base* v39;
  u1 v40;
  u32* v41;
  u64* v42;
  u64 v43;
  u1 v44;
  u32* v45;
  fnptr_t** v46;
  fnptr_t* v47;
  fnptr_t* v48;
  fnptr_t v49;
  fnptr_t* v50;
  fnptr_t* v51;
  fnptr_t v52;
  u8 v53;
  u1 v54;
  u32 v55;
  u32 v56;
  u32 v57;
  u32 v58;
  u32 v59; u32 v59_t;
  u1 v60;
  struct S63 v61;
L0: ;
  v0 = &v0_m;
  v1 = &v1_m;
  v2 = &v2_m;
  v3 = &v3_m;
  v4 = &v4_m;
  v5 = ((u8)(a4));
  *v1 = v5;
  v6 = (u8*)v2;
  v7 = (u8*)v3;
  v8 = (struct S39_class_OpenVolumeMesh__detail__Tracker*)(&(*a1).f2.f0.f0.e[(s64)((s64)((u64)4ULL))]);
  *v3 = v8;
  *v4 = ((u8)4ULL);
  v9 = (u8*)(&(*v0).f0);
  v10 = (struct S43_class_std____shared_ptr_349*)(&(*v2).f0);
  _ZNSt12__shared_ptrIN14OpenVolumeMesh16PropertyStorageTIjEELN9__gnu_cxx12_Lock_policyE2EEC2ISaIvEJPNS0_6detail7TrackerINS0_19PropertyStorageBaseEEENSt7__cxx1112basic_stringIcSt11char_traitsIcESaIcEEENS0_10EntityTypeERKjRbEEESt20_Sp_alloc_shared_tagIT_EDpOT0_(v10, v0, v3, a2, v4, a3, v1);
  if (v_exc) return;
  v11 = (struct S38_class_OpenVolumeMesh__PropertyStorageT_3**)(&(*v2).f0.f0);
  v12 = *v11;
  v13 = _ZNK14OpenVolumeMesh15ResourceManager1nINS_6Entity8HalfFaceEEEmv(a1);
  if (v_exc) {
    goto L15;
  }
  goto L1;
L1: ;
  v14 = (struct S40_class_std__vector_322*)(&(*v12).f2);
  v15 = (u32**)(&(*v12).f2.f0.f0.f0.f1);
  v16 = *v15;
  v17 = (u32**)(&(*v14).f0.f0.f0.f0);
  v18 = *v17;
  v19 = ((u64)((u64)v16));
  v20 = ((u64)((u64)v18));
  v21 = v_pdiff((u8*)v16, (u8*)v18);
  v22 = ((u64)(((s64)v21) >> ((u64)2ULL)));
  v23 = (v13 > v22);
  if (v23) {
    goto L2;
  } else {
    goto L3;
  }
L2: ;
  v24 = (u32*)(&(*v12).f3);
  v25 = ((u64)(v13 - v22));
  _ZNSt6vectorIjSaIjEE14_M_fill_insertEN9__gnu_cxx17__normal_iteratorIPjS1_EEmRKj(v14, v16, v25, v24);
  if (v_exc) {
    goto L15;
  }
  goto L6;
L3: ;
  v26 = (v13 < v22);
  if (v26) {
    goto L4;
  } else {
    goto L6;
  }
L4: ;
  v27 = (u32*)(v18 + (s64)((s64)v13));
  v28 = ((u8*)v16 == (u8*)v27);
  if (v28) {
    goto L6;
  } else {
    goto L5;
  }
L5: ;
  *v15 = v27;
  goto L6;
L6: ;
  v29 = (struct S38_class_OpenVolumeMesh__PropertyStorageT_3**)(&(*v2).f0.f0);
  v30 = *v29;
  v31 = (struct S13_class_std___Sp_counted_base**)(&(*v2).f0.f1.f0);
  v32 = *v31;
  v33 = (fnptr_t**)(&(*a0).f0.f0.f0);
  v34 = (u8*)v2;
  (*v2).f0.f0 = (struct S38_class_OpenVolumeMesh__PropertyStorageT_3*)0;
  (*v2).f0.f1.f0 = (struct S13_class_std___Sp_counted_base*)0;
  *v33 = ((fnptr_t*)((u8**)(&(*(&_ZTVN14OpenVolumeMesh18PropertyStoragePtrIjEE)).f0.e[(s64)((s64)((u64)2ULL))])));
  v35 = (struct S38_class_OpenVolumeMesh__PropertyStorageT_3**)(&(*a0).f0.f0.f1.f0.f0);
  *v35 = v30;
  v36 = (struct S13_class_std___Sp_counted_base**)(&(*a0).f0.f0.f1.f0.f1.f0);
  *v36 = v32;
  *v33 = ((fnptr_t*)((u8**)(&(*(&_ZTVN14OpenVolumeMesh14HandleIndexingINS_6Entity8HalfFaceENS_18PropertyStoragePtrIjEEEE)).f0.e[(s64)((s64)((u64)2ULL))])));
  v37 = (fnptr_t**)(&(*a0).f1.f0);
  *v37 = ((fnptr_t*)((u8**)(&(*(&_ZTVN14OpenVolumeMesh15BasePropertyPtrE)).f0.e[(s64)((s64)((u64)2ULL))])));
  *v33 = ((fnptr_t*)((u8**)(&(*(&_ZTVN14OpenVolumeMesh11PropertyPtrIjNS_6Entity8HalfFaceEEE)).f0.e[(s64)((s64)((u64)2ULL))])));
  *v37 = ((fnptr_t*)((u8**)(&(*(&_ZTVN14OpenVolumeMesh11PropertyPtrIjNS_6Entity8HalfFaceEEE)).f1.e[(s64)((s64)((u64)2ULL))])));
  v38 = (struct S13_class_std___Sp_counted_base**)(&(*v2).f0.f1.f0);
  v39 = *v38;
  v40 = ((u8*)v39 == (u8*)((struct S13_class_std___Sp_counted_base*)0));
  if (v40) {
    goto L14;
  } else {
    goto L7;
  }
L7: ;
  v41 = (u32*)(&(*v39).f1);
  v42 = (u64*)v41;
  v43 = (((u64)(*v39).f1 << 0) | ((u64)(*v39).f2 << 32));
  v44 = (v43 == ((u64)4294967297ULL));
  if (v44) {
    goto L8;
  } else {
    goto L9;
  }
L8: ;
  *v41 = ((u32)0ULL);
  v45 = (u32*)(&(*v39).f2);
  *v45 = ((u32)0ULL);
  v46 = (fnptr_t**)&(*v39).f0;
  v47 = *v46;
  v48 = (fnptr_t*)(v47 + (s64)((s64)((u64)2ULL)));
  v49 = *v48;
  ((FT0)v49)(v39);
  v50 = *v46;
  v51 = (fnptr_t*)(v50 + (s64)((s64)((u64)3ULL)));
  v52 = *v51;
  ((FT0)v52)(v39);
  goto L14;
L9: ;
  v53 = *(&__libc_single_threaded);
  v54 = (v53 == ((u8)0ULL));
  if (v54) {
    goto L11;
  } else {
    goto L10;
  }
L10: ;
  v55 = *v41;
  v56 = ((u32)(v55 + ((u32)4294967295ULL)));
  *v41 = v56;
  v59 = v55;
  goto L12;
L11: ;
  v57 = *v41;
  v58 = ((u32)(v57 + ((u32)4294967295ULL)));
  *v41 = v58;
  v59 = v57;
  goto L12;
L12: ;
  v60 = (v59 == ((u32)1ULL));
  if (v60) {
    goto L13;
  } else {
    goto L14;
  }
L13: ;
  _ZNSt16_Sp_counted_baseILN9__gnu_cxx12_Lock_policyE2EE24_M_release_last_use_coldEv(v39);
  goto L14;
L14: ;
  return;
L15: ;
  v61.f0 = v_exc_obj;
  v61.f1 = 0;
  v_exc = 0;
  _ZNSt12__shared_ptrIN14OpenVolumeMesh16PropertyStorageTIjEELN9__gnu_cxx12_Lock_policyE2EED2Ev(v10);
  v_exc = 1; return;
}

void _ZNSt14_Optional_baseIN14OpenVolumeMesh11PropertyPtrIjNS0_6Entity8HalfFaceEEELb0ELb0EED2Ev(struct S58_struct_std___Optional_base_434* a0) {
  u8* v0;
  u8 v1;
  u1 v2;
  fnptr_t** v3;
  struct S13_class_std___Sp_counted_base** v4;
  struct S13_class_std___Sp_counted_base* v5;
  u1 v6;
  u32* v7;
  u64* v8;
  u64 v9;
  u1 v10;
  u32* v11;
  fnptr_t** v12;
  fnptr_t* v13;
  fnptr_t* v14;
  fnptr_t v15;
  fnptr_t* v16;
  fnptr_t* v17;
  fnptr_t v18;
  u8 v19;
  u1 v20;
  u32 v21;
  u32 v22;
  u32 v23;
  u32 v24;
  u32 v25; u32 v25_t;
  u1 v26;
L0: ;
  v0 = (u8*)(&(*a0).f0.f0.f0.f1);
  v1 = *v0;
  v2 = (v1 == ((u8)0ULL));
  if (v2) {
    goto L9;
  } else {
    goto L1;
  }
L1: ;
  *v0 = ((u8)0ULL);
  v3 = (fnptr_t**)(&(*a0).f0.f0.f0.f0.f0.f0.f0.f0);
  *v3 = ((fnptr_t*)((u8**)(&(*(&_ZTVN14OpenVolumeMesh18PropertyStoragePtrIjEE)).f0.e[(s64)((s64)((u64)2ULL))])));
  v4 = (struct S13_class_std___Sp_counted_base**)(&(*a0).f0.f0.f0.f0.f0.f0.f0.f1.f0.f1.f0);
  v5 = *v4;
  v6 = ((u8*)v5 == (u8*)((struct S13_class_std___Sp_counted_base*)0));
  if (v6) {
    goto L9;
  } else {
    goto L2;
  }
L2: ;
  v7 = (u32*)(&(*v5).f1);
  v8 = (u64*)v7;
  v9 = (((u64)(*v5).f1 << 0) | ((u64)(*v5).f2 << 32));
  v10 = (v9 == ((u64)4294967297ULL));
  if (v10) {
    goto L3;
  } else {
    goto L4;
  }
L3: ;
  *v7 = ((u32)0ULL);
  v11 = (u32*)(&(*v5).f2);
  *v11 = ((u32)0ULL);
  v12 = (fnptr_t**)&(*v5).f0;
  v13 = *v12;
  v14 = (fnptr_t*)(v13 + (s64)((s64)((u64)2ULL)));
  v15 = *v14;
  ((FT0)v15)(v5);
  v16 = *v12;
  v17 = (fnptr_t*)(v16 + (s64)((s64)((u64)3ULL)));
  v18 = *v17;
  ((FT0)v18)(v5);
  goto L9;
L4: ;
  v19 = *(&__libc_single_threaded);
  v20 = (v19 == ((u8)0ULL));
  if (v20) {
    goto L6;
  } else {
    goto L5;
  }
L5: ;
  v21 = *v7;
  v22 = ((u32)(v21 + ((u32)4294967295ULL)));
  *v7 = v22;
  v25 = v21;
  goto L7;
L6: ;
  v23 = *v7;
  v24 = ((u32)(v23 + ((u32)4294967295ULL)));
  *v7 = v24;
  v25 = v23;
  goto L7;
L7: ;
  v26 = (v25 == ((u32)1ULL));
  if (v26) {
    goto L8;
  } else {
    goto L9;
  }
L8: ;
  _ZNSt16_Sp_counted_baseILN9__gnu_cxx12_Lock_policyE2EE24_M_release_last_use_coldEv(v5);
  goto L9;
L9: ;
  return;
}

void _ZN14OpenVolumeMesh15ResourceManager21prop_ptr_from_storageIjNS_6Entity8HalfFaceEEENS_11PropertyPtrIT_T0_EEPNS_19PropertyStorageBaseE(struct S44_class_OpenVolumeMesh__PropertyPtr_431* a0, struct S16_class_OpenVolumeMesh__PropertyStorageBas* a1) {
  struct S13_class_std___Sp_counted_base** v0;
  struct S13_class_std___Sp_counted_base* v1;
  u1 v2;
  u32* v3;
  u32 v4;
  u32 v5; u32 v5_t;
  u1 v6;
  u32 v7;
  u32 v8;
  u1 v9;
  u32 v10;
  struct S69 v11;
  struct S69 v12;
  u1 v13;
  u32 v14;
  u8* v15;
  u64* v16;
  fnptr_t** v17;
  struct S16_class_OpenVolumeMesh__PropertyStorageBas** v18;
  struct S38_class_OpenVolumeMesh__PropertyStorageT_3** v19;
  struct S38_class_OpenVolumeMesh__PropertyStorageT_3* v20;
  u8 v21;
  u1 v22;
  u32 v23;
  u32 v24;
  u32 v25;
  u32 v26;
  u64* v27;
  u64 v28;
  u1 v29;
  u32* v30;
  fnptr_t** v31;
  fnptr_t* v32;
  fnptr_t* v33;
  fnptr_t v34;
  fnptr_t* v35;
  fnptr_t* v36;
  fnptr_t v37;
  u8 v38;
  u1 v39;
  u32 v40;
  u32 v41;
  u32 v42;
  u32 v43;
  u32 v44; u32 v44_t;
  u1 v45;
  fnptr_t** v46;
  struct S38_class_OpenVolumeMesh__PropertyStorageT_3** v47;
  struct S13_class_std___Sp_counted_base** v48;
  fnptr_t** v49;
L0: ;
  v0 = (struct S13_class_std___Sp_counted_base**)(&(*a1).f1.f0.f0.f1.f0);
  v1 = *v0;
  v2 = ((u8*)v1 == (u8*)((struct S13_class_std___Sp_counted_base*)0));
  if (v2) {
    goto L4;
  } else {
    goto L1;
  }
L1: ;
  v3 = (u32*)(&(*v1).f1);
  v4 = *v3;
  v5 = v4;
  goto L2;
L2: ;
  v6 = (v5 == ((u32)0ULL));
  if (v6) {
    goto L4;
  } else {
    goto L3;
  }
L3: ;
  v7 = ((u32)(v5 + ((u32)1ULL)));
  v8 = *v3;
  v9 = (v8 == v5);
  v10 = (v9 ? v7 : v8);
  *v3 = v10;
  v11.f0 = v8;
  v12 = v11;
  v12.f1 = v9;
  v13 = v12.f1;
  v14 = v12.f0;
  if (v13) {
    goto L5;
  } else {
    v5 = v14;
    goto L2;
  }
L4: ;
  v15 = __cxa_allocate_exception(((u64)8ULL));
  v16 = (u64*)v15;
  *v16 = ((u64)0ULL);
  v17 = (fnptr_t**)v15;
  *v17 = ((fnptr_t*)((u8**)(&(*(&_ZTVSt12bad_weak_ptr)).f0.e[(s64)((s64)((u64)2ULL))])));
  __cxa_throw(v15, ((u8*)(&_ZTISt12bad_weak_ptr)), ((u8*)((fnptr_t)_ZNSt12bad_weak_ptrD1Ev)));
  if (v_exc) return;
  __CPROVER_assume(0);
L5: ;
  v18 = (struct S16_class_OpenVolumeMesh__PropertyStorageBas**)(&(*a1).f1.f0.f0.f0);
  v19 = (struct S38_class_OpenVolumeMesh__PropertyStorageT_3**)&(*a1).f1.f0.f0.f0;
  v20 = *v19;
  v21 = *(&__libc_single_threaded);
  v22 = (v21 == ((u8)0ULL));
  if (v22) {
    goto L7;
  } else {
    goto L6;
  }
L6: ;
  v23 = *v3;
  v24 = ((u32)(v23 + ((u32)1ULL)));
  *v3 = v24;
  goto L8;
L7: ;
  v25 = *v3;
  v26 = ((u32)(v25 + ((u32)1ULL)));
  *v3 = v26;
  goto L8;
L8: ;
  v27 = (u64*)v3;
  v28 = (((u64)(*v1).f1 << 0) | ((u64)(*v1).f2 << 32));
  v29 = (v28 == ((u64)4294967297ULL));
  if (v29) {
    goto L9;
  } else {
    goto L10;
  }
L9: ;
  *v3 = ((u32)0ULL);
  v30 = (u32*)(&(*v1).f2);
  *v30 = ((u32)0ULL);
  v31 = (fnptr_t**)&(*v1).f0;
  v32 = *v31;
  v33 = (fnptr_t*)(v32 + (s64)((s64)((u64)2ULL)));
  v34 = *v33;
  ((FT0)v34)(v1);
  v35 = *v31;
  v36 = (fnptr_t*)(v35 + (s64)((s64)((u64)3ULL)));
  v37 = *v36;
  ((FT0)v37)(v1);
  goto L15;
L10: ;
  v38 = *(&__libc_single_threaded);
  v39 = (v38 == ((u8)0ULL));
  if (v39) {
    goto L12;
  } else {
    goto L11;
  }
L11: ;
  v40 = *v3;
  v41 = ((u32)(v40 + ((u32)4294967295ULL)));
  *v3 = v41;
  v44 = v40;
  goto L13;
L12: ;
  v42 = *v3;
  v43 = ((u32)(v42 + ((u32)4294967295ULL)));
  *v3 = v43;
  v44 = v42;
  goto L13;
L13: ;
  v45 = (v44 == ((u32)1ULL));
  if (v45) {
    goto L14;
  } else {
    goto L15;
  }
L14: ;
  _ZNSt16_Sp_counted_baseILN9__gnu_cxx12_Lock_policyE2EE24_M_release_last_use_coldEv(v1);
  goto L15;
L15: ;
  v46 = (fnptr_t**)(&(*a0).f0.f0.f0);
  *v46 = ((fnptr_t*)((u8**)(&(*(&_ZTVN14OpenVolumeMesh18PropertyStoragePtrIjEE)).f0.e[(s64)((s64)((u64)2ULL))])));
  v47 = (struct S38_class_OpenVolumeMesh__PropertyStorageT_3**)(&(*a0).f0.f0.f1.f0.f0);
  *v47 = v20;
  v48 = (struct S13_class_std___Sp_counted_base**)(&(*a0).f0.f0.f1.f0.f1.f0);
  *v48 = v1;
  *v46 = ((fnptr_t*)((u8**)(&(*(&_ZTVN14OpenVolumeMesh14HandleIndexingINS_6Entity8HalfFaceENS_18PropertyStoragePtrIjEEEE)).f0.e[(s64)((s64)((u64)2ULL))])));
  v49 = (fnptr_t**)(&(*a0).f1.f0);
  *v49 = ((fnptr_t*)((u8**)(&(*(&_ZTVN14OpenVolumeMesh15BasePropertyPtrE)).f0.e[(s64)((s64)((u64)2ULL))])));
  *v46 = ((fnptr_t*)((u8**)(&(*(&_ZTVN14OpenVolumeMesh11PropertyPtrIjNS_6Entity8HalfFaceEEE)).f0.e[(s64)((s64)((u64)2ULL))])));
  *v49 = ((fnptr_t*)((u8**)(&(*(&_ZTVN14OpenVolumeMesh11PropertyPtrIjNS_6Entity8HalfFaceEEE)).f1.e[(s64)((s64)((u64)2ULL))])));
  return;
}

void _ZN14OpenVolumeMesh15ResourceManager16request_propertyIjNS_6Entity4FaceEEENS_11PropertyPtrIT_T0_EERKNSt7__cxx1112basic_stringIcSt11char_traitsIcESaIcEEERKS5_(struct S44_class_OpenVolumeMesh__PropertyPtr_431* a0, struct S52_class_OpenVolumeMesh__ResourceManager* a1, struct S27_class_std____cxx11__basic_string* a2, u32* a3) {
  u64* v0; u64 v0_m;
  struct S57_class_std__optional_433* v1; struct S57_class_std__optional_433 v1_m;
  struct S27_class_std____cxx11__basic_string* v2; struct S27_class_std____cxx11__basic_string v2_m;
  u8* v3;
  u8* v4;
  u8 v5;
  u1 v6;
  fnptr_t** v7;
  struct S38_class_OpenVolumeMesh__PropertyStorageT_3** v8;
  struct S38_class_OpenVolumeMesh__PropertyStorageT_3** v9;
  struct S38_class_OpenVolumeMesh__PropertyStorageT_3* v10;
  struct S13_class_std___Sp_counted_base** v11;
  struct S13_class_std___Sp_counted_base** v12;
  struct S13_class_std___Sp_counted_base* v13;
  u1 v14;
  u32* v15;
  u8 v16;
  u1 v17;
  u32 v18;
  u32 v19;
  u32 v20;
  u32 v21;
  fnptr_t** v22;
  u64* v23;
  u64 v24;
  u1 v25;
  struct S66_union_anon* v26;
  struct S66_union_anon** v27;
  u8** v28;
  u8* v29;
  u8* v30;
  u1 v31;
  u8* v32;
  u8** v33;
  u64 v34;
  u64* v35;
  u8** v36;
  u8* v37;
  u8 v38;
  u64 v39;
  u64* v40;
  u8* v41;
  u8* v42;
  u8* v43;
  u8* v44;
  u1 v45;
  struct S63 v46;
  struct S63 v47;
  u8* v48;
  u8* v49;
  u1 v50;
  struct S63 v51; struct S63 v51_t;
  struct S58_struct_std___Optional_base_434* v52;
  u8* v53;
  u8 v54;
  u1 v55;
  fnptr_t** v56;
  struct S13_class_std___Sp_counted_base** v57;
  struct S13_class_std___Sp_counted_base* v58;
  u1 v59;
  u32* v60;
  u64* v61;
  u64 v62;
  u1 v63;
  u32* v64;
  fnptr_t** v65;
  fnptr_t* v66;
  fnptr_t* v67;
  fnptr_t v68;
  fnptr_t* v69;
  fnptr_t* v70;
  fnptr_t v71;
  u8 v72;
  u1 v73;
  u32 v74;
  u32 v75;
  u32 v76;
  u32 v77;
  u32 v78; u32 v78_t;
  u1 v79;
L0: ;
  v0 = &v0_m;
  v1 = &v1_m;
  v2 = &v2_m;
  v3 = (u8*)v1;
  _ZNK14OpenVolumeMesh15ResourceManager22internal_find_propertyIjNS_6Entity4FaceEEESt8optionalINS_11PropertyPtrIT_T0_EEERKNSt7__cxx1112basic_stringIcSt11char_traitsIcESaIcEEE(v1, a1, a2);
  if (v_exc) return;
  v4 = (u8*)(&(*v1).f0.f0.f0.f0.f1);
  v5 = *v4;
  v6 = (v5 == ((u8)0ULL));
  if (v6) {
    goto L6;
  } else {
    goto L1;
  }
L1: ;
  v7 = (fnptr_t**)(&(*a0).f0.f0.f0);
  *v7 = ((fnptr_t*)((u8**)(&(*(&_ZTVN14OpenVolumeMesh18PropertyStoragePtrIjEE)).f0.e[(s64)((s64)((u64)2ULL))])));
  v8 = (struct S38_class_OpenVolumeMesh__PropertyStorageT_3**)(&(*a0).f0.f0.f1.f0.f0);
  v9 = (struct S38_class_OpenVolumeMesh__PropertyStorageT_3**)(&(*v1).f0.f0.f0.f0.f0.f0.f0.f0.f1.f0.f0);
  v10 = *v9;
  *v8 = v10;
  v11 = (struct S13_class_std___Sp_counted_base**)(&(*a0).f0.f0.f1.f0.f1.f0);
  v12 = (struct S13_class_std___Sp_counted_base**)(&(*v1).f0.f0.f0.f0.f0.f0.f0.f0.f1.f0.f1.f0);
  v13 = *v12;
  *v11 = v13;
  v14 = ((u8*)v13 == (u8*)((struct S13_class_std___Sp_counted_base*)0));
  if (v14) {
    goto L5;
  } else {
    goto L2;
  }
L2: ;
  v15 = (u32*)(&(*v13).f1);
  v16 = *(&__libc_single_threaded);
  v17 = (v16 == ((u8)0ULL));
  if (v17) {
    goto L4;
  } else {
    goto L3;
  }
L3: ;
  v18 = *v15;
  v19 = ((u32)(v18 + ((u32)1ULL)));
  *v15 = v19;
  goto L5;
L4: ;
  v20 = *v15;
  v21 = ((u32)(v20 + ((u32)1ULL)));
  *v15 = v21;
  goto L5;
L5: ;
  *v7 = ((fnptr_t*)((u8**)(&(*(&_ZTVN14OpenVolumeMesh14HandleIndexingINS_6Entity4FaceENS_18PropertyStoragePtrIjEEEE)).f0.e[(s64)((s64)((u64)2ULL))])));
  v22 = (fnptr_t**)(&(*a0).f1.f0);
  *v22 = ((fnptr_t*)((u8**)(&(*(&_ZTVN14OpenVolumeMesh15BasePropertyPtrE)).f0.e[(s64)((s64)((u64)2ULL))])));
  *v7 = ((fnptr_t*)((u8**)(&(*(&_ZTVN14OpenVolumeMesh11PropertyPtrIjNS_6Entity4FaceEEE)).f0.e[(s64)((s64)((u64)2ULL))])));
  *v22 = ((fnptr_t*)((u8**)(&(*(&_ZTVN14OpenVolumeMesh11PropertyPtrIjNS_6Entity4FaceEEE)).f1.e[(s64)((s64)((u64)2ULL))])));
  goto L19;
L6: ;
  v23 = (u64*)(&(*a2).f1);
  v24 = *v23;
  v25 = (v24 != ((u64)0ULL));
  v26 = (struct S66_union_anon*)(&(*v2).f2);
  v27 = (struct S66_union_anon**)&(*v2).f0.f0;
  *v27 = v26;
  v28 = (u8**)(&(*a2).f0.f0);
  v29 = *v28;
  v30 = (u8*)v0;
  *v0 = v24;
  v31 = (v24 > ((u64)15ULL));
  if (v31) {
    goto L7;
  } else {
    goto L9;
  }
L7: ;
  v32 = _ZNSt7__cxx1112basic_stringIcSt11char_traitsIcESaIcEE9_M_createERmm(v2, v0, ((u64)0ULL));
  if (v_exc) {
    goto L15;
  }
  goto L8;
L8: ;
  v33 = (u8**)(&(*v2).f0.f0);
  *v33 = v32;
  v34 = *v0;
  v35 = (u64*)(&(*v2).f2.f0.e[0]);
  *v35 = v34;
  goto L9;
L9: ;
  v36 = (u8**)(&(*v2).f0.f0);
  v37 = *v36;
  switch (v24) {
  case ((u64)1ULL): {
    goto L10;
  }
  case ((u64)0ULL): {
    goto L12;
  }
  default: {
    goto L11;
  }
  }
L10: ;
  v38 = *v29;
  *v37 = v38;
  goto L12;
L11: ;
  v_memcpy((u8*)v37, (u8*)v29, (u64)v24);
  goto L12;
L12: ;
  v39 = *v0;
  v40 = (u64*)(&(*v2).f1);
  *v40 = v39;
  v41 = *v36;
  v42 = (u8*)(v41 + (s64)((s64)v39));
  *v42 = ((u8)0ULL);
  _ZNK14OpenVolumeMesh15ResourceManager24internal_create_propertyIjNS_6Entity4FaceEEENS_11PropertyPtrIT_T0_EENSt7__cxx1112basic_stringIcSt11char_traitsIcESaIcEEERKS5_b(a0, a1, v2, a3, v25);
  if (v_exc) {
    goto L16;
  }
  goto L13;
L13: ;
  v43 = *v36;
  v44 = (u8*)v26;
  v45 = ((u8*)v43 == (u8*)v44);
  if (v45) {
    goto L19;
  } else {
    goto L14;
  }
L14: ;
  _ZdlPv(v43);
  goto L19;
L15: ;
  v46.f0 = v_exc_obj;
  v46.f1 = 0;
  v_exc = 0;
  v51 = v46;
  goto L18;
L16: ;
  v47.f0 = v_exc_obj;
  v47.f1 = 0;
  v_exc = 0;
  v48 = *v36;
  v49 = (u8*)v26;
  v50 = ((u8*)v48 == (u8*)v49);
  if (v50) {
    v51 = v47;
    goto L18;
  } else {
    goto L17;
  }
L17: ;
  _ZdlPv(v48);
  v51 = v47;
  goto L18;
L18: ;
  v52 = (struct S58_struct_std___Optional_base_434*)(&(*v1).f0);
  _ZNSt14_Optional_baseIN14OpenVolumeMesh11PropertyPtrIjNS0_6Entity4FaceEEELb0ELb0EED2Ev(v52);
  v_exc = 1; return;
L19: ;
  v53 = (u8*)(&(*v1).f0.f0.f0.f0.f1);
  v54 = *v53;
  v55 = (v54 == ((u8)0ULL));
  if (v55) {
    goto L28;
  } else {
    goto L20;
  }
L20: ;
  *v53 = ((u8)0ULL);
  v56 = (fnptr_t**)(&(*v1).f0.f0.f0.f0.f0.f0.f0.f0.f0);
  *v56 = ((fnptr_t*)((u8**)(&(*(&_ZTVN14OpenVolumeMesh18PropertyStoragePtrIjEE)).f0.e[(s64)((s64)((u64)2ULL))])));
  v57 = (struct S13_class_std___Sp_counted_base**)(&(*v1).f0.f0.f0.f0.f0.f0.f0.f0.f1.f0.f1.f0);
  v58 = *v57;
  v59 = ((u8*)v58 == (u8*)((struct S13_class_std___Sp_counted_base*)0));
  if (v59) {
    goto L28;
  } else {
    goto L21;
  }
L21: ;
  v60 = (u32*)(&(*v58).f1);
  v61 = (u64*)v60;
  v62 = (((u64)(*v58).f1 << 0) | ((u64)(*v58).f2 << 32));
  v63 = (v62 == ((u64)4294967297ULL));
  if (v63) {
    goto L22;
  } else {
    goto L23;
  }
L22: ;
  *v60 = ((u32)0ULL);
  v64 = (u32*)(&(*v58).f2);
  *v64 = ((u32)0ULL);
  v65 = (fnptr_t**)&(*v58).f0;
  v66 = *v65;
  v67 = (fnptr_t*)(v66 + (s64)((s64)((u64)2ULL)));
  v68 = *v67;
  ((FT0)v68)(v58);
  v69 = *v65;
  v70 = (fnptr_t*)(v69 + (s64)((s64)((u64)3ULL)));
  v71 = *v70;
  ((FT0)v71)(v58);
  goto L28;
L23: ;
  v72 = *(&__libc_single_threaded);
  v73 = (v72 == ((u8)0ULL));
  if (v73) {
    goto L25;
  } else {
    goto L24;
  }
L24: ;
  v74 = *v60;
  v75 = ((u32)(v74 + ((u32)4294967295ULL)));
  *v60 = v75;
  v78 = v74;
  goto L26;
L25: ;
  v76 = *v60;
  v77 = ((u32)(v76 + ((u32)4294967295ULL)));
  *v60 = v77;
  v78 = v76;
  goto L26;
L26: ;
  v79 = (v78 == ((u32)1ULL));
  if (v79) {
    goto L27;
  } else {
    goto L28;
  }
L27: ;
  _ZNSt16_Sp_counted_baseILN9__gnu_cxx12_Lock_policyE2EE24_M_release_last_use_coldEv(v58);
  goto L28;
L28: ;
  return;
}

void _ZN14OpenVolumeMesh15ResourceManager14set_persistentIjNS_6Entity4FaceEEEvRNS_11PropertyPtrIT_T0_EEb(struct S52_class_OpenVolumeMesh__ResourceManager* a0, struct S44_class_OpenVolumeMesh__PropertyPtr_431* a1, u1 a2) {
  struct S33_class_std__weak_ptr* v0; struct S33_class_std__weak_ptr v0_m;
  struct S38_class_OpenVolumeMesh__PropertyStorageT_3** v1;
  struct S16_class_OpenVolumeMesh__PropertyStorageBas** v2;
  struct S16_class_OpenVolumeMesh__PropertyStorageBas* v3;
  u8* v4;
  u8 v5;
  u1 v6;
  u1 v7;
  u8* v8;
  struct S55_class_std__shared_ptr_348* v9;
  struct S16_class_OpenVolumeMesh__PropertyStorageBas** v10;
  struct S16_class_OpenVolumeMesh__PropertyStorageBas* v11;
  struct S16_class_OpenVolumeMesh__PropertyStorageBas** v12;
  struct S13_class_std___Sp_counted_base** v13;
  struct S13_class_std___Sp_counted_base** v14;
  struct S13_class_std___Sp_counted_base* v15;
  u1 v16;
  u32* v17;
  u8 v18;
  u1 v19;
  u32 v20;
  u32 v21;
  u32 v22;
  u32 v23;
  struct S16_class_OpenVolumeMesh__PropertyStorageBas* v24;
  u8* v25;
  u8 v26;
  u1 v27;
  u8* v28;
  struct S20_class_std__runtime_error* v29;
  struct S63 v30;
  struct S63 v31;
  struct S10_class_std___Rb_tree* v32;
  struct S23 v33;
  struct S26_class_std__map* v34;
  u8* v35;
  u8* v36;
  struct S35_struct_std___Rb_tree_node_84** v37;
  u8* v38;
  struct S11_struct_std___Rb_tree_node_base* v39;
  struct S35_struct_std___Rb_tree_node_84* v40;
  u1 v41;
  struct S16_class_OpenVolumeMesh__PropertyStorageBas* v42;
  struct S35_struct_std___Rb_tree_node_84* v43; struct S35_struct_std___Rb_tree_node_84* v43_t;
  struct S11_struct_std___Rb_tree_node_base* v44; struct S11_struct_std___Rb_tree_node_base* v44_t;
  struct S67_struct___gnu_cxx____aligned_membuf_85* v45;
  struct S16_class_OpenVolumeMesh__PropertyStorageBas** v46;
  struct S16_class_OpenVolumeMesh__PropertyStorageBas* v47;
  u1 v48;
  struct S11_struct_std___Rb_tree_node_base** v49;
  u1 v50;
  struct S11_struct_std___Rb_tree_node_base* v51;
  struct S11_struct_std___Rb_tree_node_base** v52;
  struct S35_struct_std___Rb_tree_node_84** v53;
  struct S35_struct_std___Rb_tree_node_84* v54;
  struct S11_struct_std___Rb_tree_node_base** v55;
  struct S35_struct_std___Rb_tree_node_84** v56;
  struct S35_struct_std___Rb_tree_node_84* v57;
  u1 v58;
  struct S35_struct_std___Rb_tree_node_84* v59; struct S35_struct_std___Rb_tree_node_84* v59_t;
  struct S11_struct_std___Rb_tree_node_base* v60; struct S11_struct_std___Rb_tree_node_base* v60_t;
  struct S67_struct___gnu_cxx____aligned_membuf_85* v61;
  struct S16_class_OpenVolumeMesh__PropertyStorageBas** v62;
  struct S16_class_OpenVolumeMesh__PropertyStorageBas* v63;
  u1 v64;
  struct S11_struct_std___Rb_tree_node_base** v65;
  struct S11_struct_std___Rb_tree_node_base* v66;
  struct S11_struct_std___Rb_tree_node_base** v67;
  struct S11_struct_std___Rb_tree_node_base* v68;
  struct S11_struct_std___Rb_tree_node_base** v69;
  struct S35_struct_std___Rb_tree_node_84** v70;
  struct S35_struct_std___Rb_tree_node_84* v71;
  u1 v72;
  struct S11_struct_std___Rb_tree_node_base* v73; struct S11_struct_std___Rb_tree_node_base* v73_t;
  u1 v74;
  struct S35_struct_std___Rb_tree_node_84* v75; struct S35_struct_std___Rb_tree_node_84* v75_t;
  struct S11_struct_std___Rb_tree_node_base* v76; struct S11_struct_std___Rb_tree_node_base* v76_t;
  struct S67_struct___gnu_cxx____aligned_membuf_85* v77;
  struct S16_class_OpenVolumeMesh__PropertyStorageBas** v78;
  struct S16_class_OpenVolumeMesh__PropertyStorageBas* v79;
  u1 v80;
  struct S11_struct_std___Rb_tree_node_base* v81;
  struct S11_struct_std___Rb_tree_node_base** v82;
  struct S11_struct_std___Rb_tree_node_base** v83;
  struct S11_struct_std___Rb_tree_node_base* v84;
  struct S11_struct_std___Rb_tree_node_base** v85;
  struct S35_struct_std___Rb_tree_node_84** v86;
  struct S35_struct_std___Rb_tree_node_84* v87;
  u1 v88;
  struct S11_struct_std___Rb_tree_node_base* v89; struct S11_struct_std___Rb_tree_node_base* v89_t;
  struct S11_struct_std___Rb_tree_node_base** v90; struct S11_struct_std___Rb_tree_node_base** v90_t;
  struct S35_struct_std___Rb_tree_node_84** v91;
  struct S35_struct_std___Rb_tree_node_84* v92;
  u1 v93;
  struct S11_struct_std___Rb_tree_node_base* v94; struct S11_struct_std___Rb_tree_node_base* v94_t;
  struct S11_struct_std___Rb_tree_node_base* v95; struct S11_struct_std___Rb_tree_node_base* v95_t;
  struct S10_class_std___Rb_tree* v96;
  struct S16_class_OpenVolumeMesh__PropertyStorageBas** v97;
  struct S16_class_OpenVolumeMesh__PropertyStorageBas* v98;
  u8 v99;
  u8* v100;
  struct S13_class_std___Sp_counted_base** v101;
  struct S13_class_std___Sp_counted_base* v102;
  u1 v103;
  u32* v104;
  u64* v105;
  u64 v106;
  u1 v107;
  u32* v108;
  fnptr_t** v109;
  fnptr_t* v110;
  fnptr_t* v111;
  fnptr_t v112;
  fnptr_t* v113;
  fnptr_t* v114;
  fnptr_t v115;
  u8 v116;
  u1 v117;
  u32 v118;
  u32 v119;
  u32 v120;
  u32 v121;
  u32 v122; u32 v122_t;
  u1 v123;
  struct S63 v124; struct S63 v124_t;
  struct S34_class_std____weak_ptr* v125;
L0: ;
  v0 = &v0_m;
  v1 = (struct S38_class_OpenVolumeMesh__PropertyStorageT_3**)(&(*a1).f0.f0.f1.f0.f0);
  v2 = (struct S16_class_OpenVolumeMesh__PropertyStorageBas**)&(*a1).f0.f0.f1.f0.f0;
  v3 = *v2;
  v4 = (u8*)(&(*v3).f5);
  v5 = *v4;
  v6 = (v5 != ((u8)0ULL));
  v7 = ((u1)((v6 ^ a2)&1));
  if (v7) {
    goto L1;
  } else {
    goto L32;
  }
L1: ;
  v8 = (u8*)v0;
  v9 = (struct S55_class_std__shared_ptr_348*)(&(*a1).f0.f0.f1);
  v10 = (struct S16_class_OpenVolumeMesh__PropertyStorageBas**)&(*a1).f0.f0.f1.f0.f0;
  v11 = *v10;
  v12 = (struct S16_class_OpenVolumeMesh__PropertyStorageBas**)(&(*v0).f0.f0);
  *v12 = v11;
  v13 = (struct S13_class_std___Sp_counted_base**)(&(*v0).f0.f1.f0);
  v14 = (struct S13_class_std___Sp_counted_base**)(&(*a1).f0.f0.f1.f0.f1.f0);
  v15 = *v14;
  *v13 = v15;
  v16 = ((u8*)v15 == (u8*)((struct S13_class_std___Sp_counted_base*)0));
  if (v16) {
    goto L5;
  } else {
    goto L2;
  }
L2: ;
  v17 = (u32*)(&(*v15).f1);
  v18 = *(&__libc_single_threaded);
  v19 = (v18 == ((u8)0ULL));
  if (v19) {
    goto L4;
  } else {
    goto L3;
  }
L3: ;
  v20 = *v17;
  v21 = ((u32)(v20 + ((u32)1ULL)));
  *v17 = v21;
  goto L5;
L4: ;
  v22 = *v17;
  v23 = ((u32)(v22 + ((u32)1ULL)));
  *v17 = v23;
  goto L5;
L5: ;
  if (a2) {
    goto L6;
  } else {
    goto L12;
  }
L6: ;
  v24 = *v2;
  v25 = (u8*)(&(*v24).f6);
  v26 = *v25;
  v27 = (v26 == ((u8)0ULL));
  if (v27) {
    goto L7;
  } else {
    goto L11;
  }
L7: ;
  v28 = __cxa_allocate_exception(((u64)16ULL));
  v29 = (struct S20_class_std__runtime_error*)v28;
  _ZNSt13runtime_errorC1EPKc(v29, ((u8*)(&(*(&_str_4)).e[(s64)((s64)((u64)0ULL))])));
  if (v_exc) {
    goto L9;
  }
  goto L8;
L8: ;
  __cxa_throw(v28, ((u8*)(&_ZTISt13runtime_error)), ((u8*)((fnptr_t)_ZNSt13runtime_errorD1Ev)));
  if (v_exc) {
    goto L10;
  }
  goto L34;
L9: ;
  v30.f0 = v_exc_obj;
  v30.f1 = 0;
  v_exc = 0;
  __cxa_free_exception(v28);
  v124 = v30;
  goto L33;
L10: ;
  v31.f0 = v_exc_obj;
  v31.f1 = 0;
  v_exc = 0;
  v124 = v31;
  goto L33;
L11: ;
  v32 = (struct S10_class_std___Rb_tree*)(&(*a0).f1.f0.f0.e[(s64)((s64)((u64)3ULL))].f0);
  v33 = _ZNSt8_Rb_treeISt10shared_ptrIN14OpenVolumeMesh19PropertyStorageBaseEES3_St9_IdentityIS3_ESt4lessIS3_ESaIS3_EE16_M_insert_uniqueIRKS3_EESt4pairISt17_Rb_tree_iteratorIS3_EbEOT_(v32, v0);
  if (v_exc) {
    goto L10;
  }
  goto L23;
L12: ;
  v34 = (struct S26_class_std__map*)(&(*a0).f1.f0.f0.e[(s64)((s64)((u64)3ULL))]);
  v35 = (u8*)(&(*v34).f0.f0.f0.f0.f0);
  v36 = (u8*)&(*a0).f1.f0.f0.e[3].f0.f0.f1.f0.f1;
  v37 = (struct S35_struct_std___Rb_tree_node_84**)&(*a0).f1.f0.f0.e[3].f0.f0.f1.f0.f1;
  v38 = (u8*)&(*a0).f1.f0.f0.e[3].f0.f0.f1.f0.f0;
  v39 = (struct S11_struct_std___Rb_tree_node_base*)&(*a0).f1.f0.f0.e[3].f0.f0.f1.f0;
  v40 = *v37;
  v41 = ((u8*)v40 == (u8*)((struct S35_struct_std___Rb_tree_node_84*)0));
  if (v41) {
    v94_t = v39;
    v95_t = v39;
    v94 = v94_t;
    v95 = v95_t;
    goto L22;
  } else {
    goto L13;
  }
L13: ;
  v42 = *v12;
  v43_t = v40;
  v44_t = v39;
  v43 = v43_t;
  v44 = v44_t;
  goto L14;
L14: ;
  v45 = (struct S67_struct___gnu_cxx____aligned_membuf_85*)(&(*v43).f1);
  v46 = (struct S16_class_OpenVolumeMesh__PropertyStorageBas**)v45;
  v47 = *v46;
  v48 = v_plt((u8*)v47, (u8*)v42);
  if (v48) {
    goto L15;
  } else {
    goto L16;
  }
L15: ;
  v49 = (struct S11_struct_std___Rb_tree_node_base**)(&(*v43).f0.f3);
  v89_t = v44;
  v90_t = v49;
  v89 = v89_t;
  v90 = v90_t;
  goto L21;
L16: ;
  v50 = v_plt((u8*)v42, (u8*)v47);
  v51 = (struct S11_struct_std___Rb_tree_node_base*)(&(*v43).f0);
  v52 = (struct S11_struct_std___Rb_tree_node_base**)(&(*v43).f0.f2);
  if (v50) {
    v89_t = v51;
    v90_t = v52;
    v89 = v89_t;
    v90 = v90_t;
    goto L21;
  } else {
    goto L17;
  }
L17: ;
  v53 = (struct S35_struct_std___Rb_tree_node_84**)&(*v43).f0.f2;
  v54 = *v53;
  v55 = (struct S11_struct_std___Rb_tree_node_base**)(&(*v43).f0.f3);
  v56 = (struct S35_struct_std___Rb_tree_node_84**)&(*v43).f0.f3;
  v57 = *v56;
  v58 = ((u8*)v54 == (u8*)((struct S35_struct_std___Rb_tree_node_84*)0));
  if (v58) {
    v73 = v51;
    goto L19;
  } else {
    v59_t = v54;
    v60_t = v51;
    v59 = v59_t;
    v60 = v60_t;
    goto L18;
  }
L18: ;
  v61 = (struct S67_struct___gnu_cxx____aligned_membuf_85*)(&(*v59).f1);
  v62 = (struct S16_class_OpenVolumeMesh__PropertyStorageBas**)v61;
  v63 = *v62;
  v64 = v_plt((u8*)v63, (u8*)v42);
  v65 = (struct S11_struct_std___Rb_tree_node_base**)(&(*v59).f0.f3);
  v66 = (struct S11_struct_std___Rb_tree_node_base*)(&(*v59).f0);
  v67 = (struct S11_struct_std___Rb_tree_node_base**)(&(*v59).f0.f2);
  v68 = (v64 ? v60 : v66);
  v69 = (v64 ? v65 : v67);
  v70 = (struct S35_struct_std___Rb_tree_node_84**)v69;
  v71 = *v70;
  v72 = ((u8*)v71 == (u8*)((struct S35_struct_std___Rb_tree_node_84*)0));
  if (v72) {
    v73 = v68;
    goto L19;
  } else {
    v59_t = v71;
    v60_t = v68;
    v59 = v59_t;
    v60 = v60_t;
    goto L18;
  }
L19: ;
  v74 = ((u8*)v57 == (u8*)((struct S35_struct_std___Rb_tree_node_84*)0));
  if (v74) {
    v94_t = v73;
    v95_t = v44;
    v94 = v94_t;
    v95 = v95_t;
    goto L22;
  } else {
    v75_t = v57;
    v76_t = v44;
    v75 = v75_t;
    v76 = v76_t;
    goto L20;
  }
L20: ;
  v77 = (struct S67_struct___gnu_cxx____aligned_membuf_85*)(&(*v75).f1);
  v78 = (struct S16_class_OpenVolumeMesh__PropertyStorageBas**)v77;
  v79 = *v78;
  v80 = v_plt((u8*)v42, (u8*)v79);
  v81 = (struct S11_struct_std___Rb_tree_node_base*)(&(*v75).f0);
  v82 = (struct S11_struct_std___Rb_tree_node_base**)(&(*v75).f0.f2);
  v83 = (struct S11_struct_std___Rb_tree_node_base**)(&(*v75).f0.f3);
  v84 = (v80 ? v81 : v76);
  v85 = (v80 ? v82 : v83);
  v86 = (struct S35_struct_std___Rb_tree_node_84**)v85;
  v87 = *v86;
  v88 = ((u8*)v87 == (u8*)((struct S35_struct_std___Rb_tree_node_84*)0));
  if (v88) {
    v94_t = v73;
    v95_t = v84;
    v94 = v94_t;
    v95 = v95_t;
    goto L22;
  } else {
    v75_t = v87;
    v76_t = v84;
    v75 = v75_t;
    v76 = v76_t;
    goto L20;
  }
L21: ;
  v91 = (struct S35_struct_std___Rb_tree_node_84**)v90;
  v92 = *v91;
  v93 = ((u8*)v92 == (u8*)((struct S35_struct_std___Rb_tree_node_84*)0));
  if (v93) {
    v94_t = v89;
    v95_t = v89;
    v94 = v94_t;
    v95 = v95_t;
    goto L22;
  } else {
    v43_t = v92;
    v44_t = v89;
    v43 = v43_t;
    v44 = v44_t;
    goto L14;
  }
L22: ;
  v96 = (struct S10_class_std___Rb_tree*)(&(*v34).f0);
  _ZNSt8_Rb_treeISt10shared_ptrIN14OpenVolumeMesh19PropertyStorageBaseEES3_St9_IdentityIS3_ESt4lessIS3_ESaIS3_EE12_M_erase_auxESt23_Rb_tree_const_iteratorIS3_ESB_(v96, v94, v95);
  if (v_exc) {
    goto L10;
  }
  goto L23;
L23: ;
  v97 = (struct S16_class_OpenVolumeMesh__PropertyStorageBas**)(&(*v0).f0.f0);
  v98 = *v97;
  v99 = ((u8)(a2));
  v100 = (u8*)(&(*v98).f5);
  *v100 = v99;
  v101 = (struct S13_class_std___Sp_counted_base**)(&(*v0).f0.f1.f0);
  v102 = *v101;
  v103 = ((u8*)v102 == (u8*)((struct S13_class_std___Sp_counted_base*)0));
  if (v103) {
    goto L31;
  } else {
    goto L24;
  }
L24: ;
  v104 = (u32*)(&(*v102).f1);
  v105 = (u64*)v104;
  v106 = (((u64)(*v102).f1 << 0) | ((u64)(*v102).f2 << 32));
  v107 = (v106 == ((u64)4294967297ULL));
  if (v107) {
    goto L25;
  } else {
    goto L26;
  }
L25: ;
  *v104 = ((u32)0ULL);
  v108 = (u32*)(&(*v102).f2);
  *v108 = ((u32)0ULL);
  v109 = (fnptr_t**)&(*v102).f0;
  v110 = *v109;
  v111 = (fnptr_t*)(v110 + (s64)((s64)((u64)2ULL)));
  v112 = *v111;
  ((FT0)v112)(v102);
  v113 = *v109;
  v114 = (fnptr_t*)(v113 + (s64)((s64)((u64)3ULL)));
  v115 = *v114;
  ((FT0)v115)(v102);
  goto L31;
L26: ;
  v116 = *(&__libc_single_threaded);
  v117 = (v116 == ((u8)0ULL));
  if (v117) {
    goto L28;
  } else {
    goto L27;
  }
L27: ;
  v118 = *v104;
  v119 = ((u32)(v118 + ((u32)4294967295ULL)));
  *v104 = v119;
  v122 = v118;
  goto L29;
L28: ;
  v120 = *v104;
  v121 = ((u32)(v120 + ((u32)4294967295ULL)));
  *v104 = v121;
  v122 = v120;
  goto L29;
L29: ;
  v123 = (v122 == ((u32)1ULL));
  if (v123) {
    goto L30;
  } else {
    goto L31;
  }
L30: ;
  _ZNSt16_Sp_counted_baseILN9__gnu_cxx12_Lock_policyE2EE24_M_release_last_use_coldEv(v102);
  goto L31;
L31: ;
  goto L32;
L32: ;
  return;
L33: ;
  v125 = (struct S34_class_std____weak_ptr*)(&(*v0).f0);
  _ZNSt12__shared_ptrIN14OpenVolumeMesh19PropertyStorageBaseELN9__gnu_cxx12_Lock_policyE2EED2Ev(v125);
  v_exc = 1; return;
L34: ;
  __CPROVER_assume(0);
}

void _ZNK14OpenVolumeMesh15ResourceManager22internal_find_propertyIjNS_6Entity4FaceEEESt8optionalINS_11PropertyPtrIT_T0_EEERKNSt7__cxx1112basic_stringIcSt11char_traitsIcESaIcEEE(struct S57_class_std__optional_433* a0, struct S52_class_OpenVolumeMesh__ResourceManager* a1, struct S27_class_std____cxx11__basic_string* a2) {
  struct S27_class_std____cxx11__basic_string* v0; struct S27_class_std____cxx11__basic_string v0_m;
  struct S44_class_OpenVolumeMesh__PropertyPtr_431* v1; struct S44_class_OpenVolumeMesh__PropertyPtr_431 v1_m;
  u64* v2;
  u64 v3;
  u1 v4;
  u8* v5;
  u8* v6;
  u8* v7;
  u8* v8;
  struct S11_struct_std___Rb_tree_node_base** v9;
  struct S11_struct_std___Rb_tree_node_base* v10;
  u8* v11;
  struct S11_struct_std___Rb_tree_node_base* v12;
  u1 v13;
  u64 v14;
  u8** v15;
  u8* v16;
  u64* v17;
  u64 v18;
  u8** v19;
  u8* v20;
  struct S11_struct_std___Rb_tree_node_base* v21; struct S11_struct_std___Rb_tree_node_base* v21_t;
  struct S11_struct_std___Rb_tree_node_base* v22;
  struct S16_class_OpenVolumeMesh__PropertyStorageBas** v23;
  struct S16_class_OpenVolumeMesh__PropertyStorageBas* v24;
  u8* v25;
  u8 v26;
  u1 v27;
  u64* v28;
  u64 v29;
  u1 v30;
  u1 v31;
  u8** v32;
  u8* v33;
  u32 v34;
  u1 v35;
  u64* v36;
  u64 v37;
  u1 v38;
  u1 v39;
  u8** v40;
  u8* v41;
  u32 v42;
  u1 v43;
  u8* v44;
  fnptr_t** v45;
  struct S38_class_OpenVolumeMesh__PropertyStorageT_3** v46;
  struct S38_class_OpenVolumeMesh__PropertyStorageT_3** v47;
  struct S38_class_OpenVolumeMesh__PropertyStorageT_3* v48;
  struct S13_class_std___Sp_counted_base** v49;
  struct S13_class_std___Sp_counted_base** v50;
  struct S13_class_std___Sp_counted_base* v51;
  u1 v52;
  u32* v53;
  u8 v54;
  u1 v55;
  u32 v56;
  u32 v57;
  u32 v58;
  u32 v59;
  fnptr_t** v60;
  u8* v61;
  fnptr_t** v62;
  struct S13_class_std___Sp_counted_base* v63;
  u1 v64;
  u32* v65;
  u64* v66;
  u64 v67;
  u1 v68;
  u32* v69;
  fnptr_t** v70;
  fnptr_t* v71;
  fnptr_t* v72;
  fnptr_t v73;
  fnptr_t* v74;
  fnptr_t* v75;
  fnptr_t v76;
  u8 v77;
  u1 v78;
  u32 v79;
  u32 v80;
  u32 v81;
  u32 v82;
  u32 v83; u32 v83_t;
  u1 v84;
  struct S63 v85;
  u8** v86;
  u8* v87;
  struct S66_union_anon* v88;
  u8* v89;
  u1 v90;
  struct S11_struct_std___Rb_tree_node_base* v91;
  u1 v92;
  u8* v93;
  u8** v94;
  u8* v95;
  struct S66_union_anon* v96;
  u8* v97;
  u1 v98;
L0: ;
  v0 = &v0_m;
  v1 = &v1_m;
  v2 = (u64*)(&(*a2).f1);
  v3 = *v2;
  v4 = (v3 == ((u64)0ULL));
  if (v4) {
    goto L1;
  } else {
    goto L2;
  }
L1: ;
  v5 = (u8*)(&(*a0).f0.f0.f0.f0.f1);
  *v5 = ((u8)0ULL);
  goto L33;
L2: ;
  v6 = (u8*)v0;
  _ZN14OpenVolumeMesh6detail18internal_type_nameB5cxx11ERKSt9type_info(v0, ((struct S48_class_std__type_info*)(&_ZTIj)));
  if (v_exc) return;
  v7 = (u8*)(&(*a1).f2.f0.f0.e[(s64)((s64)((u64)3ULL))].f1.f0.f0.f0.f0.f0);
  v8 = (u8*)&(*a1).f2.f0.f0.e[3].f1.f0.f0.f1.f0.f2;
  v9 = (struct S11_struct_std___Rb_tree_node_base**)&(*a1).f2.f0.f0.e[3].f1.f0.f0.f1.f0.f2;
  v10 = *v9;
  v11 = (u8*)&(*a1).f2.f0.f0.e[3].f1.f0.f0.f1.f0.f0;
  v12 = (struct S11_struct_std___Rb_tree_node_base*)&(*a1).f2.f0.f0.e[3].f1.f0.f0.f1.f0;
  v13 = ((u8*)v10 == (u8*)v12);
  if (v13) {
    goto L29;
  } else {
    goto L3;
  }
L3: ;
  v14 = *v2;
  v15 = (u8**)(&(*a2).f0.f0);
  v16 = *v15;
  v17 = (u64*)(&(*v0).f1);
  v18 = *v17;
  v19 = (u8**)(&(*v0).f0.f0);
  v20 = *v19;
  v21 = v10;
  goto L4;
L4: ;
  v22 = (struct S11_struct_std___Rb_tree_node_base*)(v21 + (s64)((s64)((u64)1ULL)));
  v23 = (struct S16_class_OpenVolumeMesh__PropertyStorageBas**)v22;
  v24 = *v23;
  v25 = (u8*)(&(*v24).f6);
  v26 = *v25;
  v27 = (v26 == ((u8)0ULL));
  if (v27) {
    goto L26;
  } else {
    goto L5;
  }
L5: ;
  v28 = (u64*)(&(*v24).f2.f1);
  v29 = *v28;
  v30 = (v29 == v14);
  if (v30) {
    goto L6;
  } else {
    goto L26;
  }
L6: ;
  v31 = (v29 == ((u64)0ULL));
  if (v31) {
    goto L8;
  } else {
    goto L7;
  }
L7: ;
  v32 = (u8**)(&(*v24).f2.f0.f0);
  v33 = *v32;
  v34 = bcmp(v33, v16, v29);
  v35 = (v34 == ((u32)0ULL));
  if (v35) {
    goto L8;
  } else {
    goto L26;
  }
L8: ;
  v36 = (u64*)(&(*v24).f3.f1);
  v37 = *v36;
  v38 = (v37 == v18);
  if (v38) {
    goto L9;
  } else {
    goto L26;
  }
L9: ;
  v39 = (v37 == ((u64)0ULL));
  if (v39) {
    goto L11;
  } else {
    goto L10;
  }
L10: ;
  v40 = (u8**)(&(*v24).f3.f0.f0);
  v41 = *v40;
  v42 = bcmp(v41, v20, v37);
  v43 = (v42 == ((u32)0ULL));
  if (v43) {
    goto L11;
  } else {
    goto L26;
  }
L11: ;
  v44 = (u8*)v1;
  _ZN14OpenVolumeMesh15ResourceManager21prop_ptr_from_storageIjNS_6Entity4FaceEEENS_11PropertyPtrIT_T0_EEPNS_19PropertyStorageBaseE(v1, v24);
  if (v_exc) {
    goto L25;
  }
  goto L12;
L12: ;
  v45 = (fnptr_t**)(&(*a0).f0.f0.f0.f0.f0.f0.f0.f0.f0);
  *v45 = ((fnptr_t*)((u8**)(&(*(&_ZTVN14OpenVolumeMesh18PropertyStoragePtrIjEE)).f0.e[(s64)((s64)((u64)2ULL))])));
  v46 = (struct S38_class_OpenVolumeMesh__PropertyStorageT_3**)(&(*a0).f0.f0.f0.f0.f0.f0.f0.f0.f1.f0.f0);
  v47 = (struct S38_class_OpenVolumeMesh__PropertyStorageT_3**)(&(*v1).f0.f0.f1.f0.f0);
  v48 = *v47;
  *v46 = v48;
  v49 = (struct S13_class_std___Sp_counted_base**)(&(*a0).f0.f0.f0.f0.f0.f0.f0.f0.f1.f0.f1.f0);
  v50 = (struct S13_class_std___Sp_counted_base**)(&(*v1).f0.f0.f1.f0.f1.f0);
  v51 = *v50;
  *v49 = v51;
  v52 = ((u8*)v51 == (u8*)((struct S13_class_std___Sp_counted_base*)0));
  if (v52) {
    goto L16;
  } else {
    goto L13;
  }
L13: ;
  v53 = (u32*)(&(*v51).f1);
  v54 = *(&__libc_single_threaded);
  v55 = (v54 == ((u8)0ULL));
  if (v55) {
    goto L15;
  } else {
    goto L14;
  }
L14: ;
  v56 = *v53;
  v57 = ((u32)(v56 + ((u32)1ULL)));
  *v53 = v57;
  goto L16;
L15: ;
  v58 = *v53;
  v59 = ((u32)(v58 + ((u32)1ULL)));
  *v53 = v59;
  goto L16;
L16: ;
  *v45 = ((fnptr_t*)((u8**)(&(*(&_ZTVN14OpenVolumeMesh14HandleIndexingINS_6Entity4FaceENS_18PropertyStoragePtrIjEEEE)).f0.e[(s64)((s64)((u64)2ULL))])));
  v60 = (fnptr_t**)(&(*a0).f0.f0.f0.f0.f0.f0.f1.f0);
  *v60 = ((fnptr_t*)((u8**)(&(*(&_ZTVN14OpenVolumeMesh15BasePropertyPtrE)).f0.e[(s64)((s64)((u64)2ULL))])));
  *v45 = ((fnptr_t*)((u8**)(&(*(&_ZTVN14OpenVolumeMesh11PropertyPtrIjNS_6Entity4FaceEEE)).f0.e[(s64)((s64)((u64)2ULL))])));
  *v60 = ((fnptr_t*)((u8**)(&(*(&_ZTVN14OpenVolumeMesh11PropertyPtrIjNS_6Entity4FaceEEE)).f1.e[(s64)((s64)((u64)2ULL))])));
  v61 = (u8*)(&(*a0).f0.f0.f0.f0.f1);
  *v61 = ((u8)1ULL);
  v62 = (fnptr_t**)(&(*v1).f0.f0.f0);
  *v62 = ((fnptr_t*)((u8**)(&(*(&_ZTVN14OpenVolumeMesh18PropertyStoragePtrIjEE)).f0.e[(s64)((s64)((u64)2ULL))])));
  v63 = *v50;
  v64 = ((u8*)v63 == (u8*)((struct S13_class_std___Sp_counted_base*)0));
  if (v64) {
    goto L24;
  } else {
    goto L17;
  }
L17: ;
  v65 = (u32*)(&(*v63).f1);
  v66 = (u64*)v65;
  v67 = (((u64)(*v63).f1 << 0) | ((u64)(*v63).f2 << 32));
  v68 = (v67 == ((u64)4294967297ULL));
  if (v68) {
    goto L18;
  } else {
    goto L19;
  }
L18: ;
  *v65 = ((u32)0ULL);
  v69 = (u32*)(&(*v63).f2);
  *v69 = ((u32)0ULL);
  v70 = (fnptr_t**)&(*v63).f0;
  v71 = *v70;
  v72 = (fnptr_t*)(v71 + (s64)((s64)((u64)2ULL)));
  v73 = *v72;
  ((FT0)v73)(v63);
  v74 = *v70;
  v75 = (fnptr_t*)(v74 + (s64)((s64)((u64)3ULL)));
  v76 = *v75;
  ((FT0)v76)(v63);
  goto L24;
L19: ;
  v77 = *(&__libc_single_threaded);
  v78 = (v77 == ((u8)0ULL));
  if (v78) {
    goto L21;
  } else {
    goto L20;
  }
L20: ;
  v79 = *v65;
  v80 = ((u32)(v79 + ((u32)4294967295ULL)));
  *v65 = v80;
  v83 = v79;
  goto L22;
L21: ;
  v81 = *v65;
  v82 = ((u32)(v81 + ((u32)4294967295ULL)));
  *v65 = v82;
  v83 = v81;
  goto L22;
L22: ;
  v84 = (v83 == ((u32)1ULL));
  if (v84) {
    goto L23;
  } else {
    goto L24;
  }
L23: ;
  _ZNSt16_Sp_counted_baseILN9__gnu_cxx12_Lock_policyE2EE24_M_release_last_use_coldEv(v63);
  goto L24;
L24: ;
  goto L30;
L25: ;
  v85.f0 = v_exc_obj;
  v85.f1 = 0;
  v_exc = 0;
  v86 = (u8**)(&(*v0).f0.f0);
  v87 = *v86;
  v88 = (struct S66_union_anon*)(&(*v0).f2);
  v89 = (u8*)v88;
  v90 = ((u8*)v87 == (u8*)v89);
  if (v90) {
    goto L28;
  } else {
    goto L27;
  }
L26: ;
  v91 = _ZSt18_Rb_tree_incrementPKSt18_Rb_tree_node_base(v21);
  v92 = ((u8*)v91 == (u8*)v12);
  if (v92) {
    goto L29;
  } else {
    v21 = v91;
    goto L4;
  }
L27: ;
  _ZdlPv(v87);
  goto L28;
L28: ;
  v_exc = 1; return;
L29: ;
  v93 = (u8*)(&(*a0).f0.f0.f0.f0.f1);
  *v93 = ((u8)0ULL);
  goto L30;
L30: ;
  v94 = (u8**)(&(*v0).f0.f0);
  v95 = *v94;
  v96 = (struct S66_union_anon*)(&(*v0).f2);
  v97 = (u8*)v96;
  v98 = ((u8*)v95 == (u8*)v97);
  if (v98) {
    goto L32;
  } else {
    goto L31;
  }
L31: ;
  _ZdlPv(v95);
  goto L32;
L32: ;
  goto L33;
L33: ;
  return;
}

void _ZNK14OpenVolumeMesh15ResourceManager24internal_create_propertyIjNS_6Entity4FaceEEENS_11PropertyPtrIT_T0_EENSt7__cxx1112basic_stringIcSt11char_traitsIcESaIcEEERKS5_b(struct S44_class_OpenVolumeMesh__PropertyPtr_431* a0, struct S52_class_OpenVolumeMesh__ResourceManager* a1, struct S27_class_std____cxx11__basic_string* a2, u32* a3, u1 a4) {
  struct S0_class_std__ios_base__Init* v0; struct S0_class_std__ios_base__Init v0_m;
  u8* v1; u8 v1_m;
  struct S55_class_std__shared_ptr_348* v2; struct S55_class_std__shared_ptr_348 v2_m;
  struct S39_class_OpenVolumeMesh__detail__Tracker** v3; struct S39_class_OpenVolumeMesh__detail__Tracker* v3_m;
  u8* v4; u8 v4_m;
  u8 v5;
  u8* v6;
  u8* v7;
  struct S39_class_OpenVolumeMesh__detail__Tracker* v8;
  u8* v9;
  struct S43_class_std____shared_ptr_349* v10;
  struct S38_class_OpenVolumeMesh__PropertyStorageT_3** v11;
  struct S38_class_OpenVolumeMesh__PropertyStorageT_3* v12;
  u64 v13;
  struct S40_class_std__vector_322* v14;
  u32** v15;
  u32* v16;
  u32** v17;
  u32* v18;
  u64 v19;
  u64 v20;
  u64 v21;
  u64 v22;
  u1 v23;
  u32* v24;
  u64 v25;
  u1 v26;
  u32* v27;
  u1 v28;
  struct S38_class_OpenVolumeMesh__PropertyStorageT_3** v29;
  struct S38_class_OpenVolumeMesh__PropertyStorageT_3* v30;
  struct S13_class_std___Sp_counted_base** v31;
  struct S13_class_std___Sp_counted_base* v32;
  fnptr_t** v33;
  u8* v34;
  struct S38_class_OpenVolumeMesh__PropertyStorageT_3** v35;
  struct S13_class_std___Sp_counted_base** v36;
  fnptr_t** v37;
  struct S13_class_std___Sp_counted_base** v38;
  struct S13_class_std___Sp_counted_base* v39;
  u1 v40;
  u32* v41;
  u64* v42;
  u64 v43;
  u1 v44;
  u32* v45;
  fnptr_t** v46;
  fnptr_t* v47;
  fnptr_t* v48;
  fnptr_t v49;
  fnptr_t* v50;
  fnptr_t* v51;
  fnptr_t v52;
  u8 v53;
  u1 v54;
  u32 v55;
  u32 v56;
  u32 v57;
  u32 v58;
  u32 v59; u32 v59_t;
  u1 v60;
  struct S63 v61;
L0: ;
  v0 = &v0_m;
  v1 = &v1_m;
  v2 = &v2_m;
  v3 = &v3_m;
  v4 = &v4_m;
  v5 = ((u8)(a4));
  *v1 = v5;
  v6 = (u8*)v2;
  v7 = (u8*)v3;
  v8 = (struct S39_class_OpenVolumeMesh__detail__Tracker*)(&(*a1).f2.f0.f0.e[(s64)((s64)((u64)3ULL))]);
  *v3 = v8;
  *v4 = ((u8)3ULL);
  v9 = (u8*)(&(*v0).f0);
  v10 = (struct S43_class_std____shared_ptr_349*)(&(*v2).f0);
  _ZNSt12__shared_ptrIN14OpenVolumeMesh16PropertyStorageTIjEELN9__gnu_cxx12_Lock_policyE2EEC2ISaIvEJPNS0_6detail7TrackerINS0_19PropertyStorageBaseEEENSt7__cxx1112basic_stringIcSt11char_traitsIcESaIcEEENS0_10EntityTypeERKjRbEEESt20_Sp_alloc_shared_tagIT_EDpOT0_(v10, v0, v3, a2, v4, a3, v1);
  if (v_exc) return;
  v11 = (struct S38_class_OpenVolumeMesh__PropertyStorageT_3**)(&(*v2).f0.f0);
  v12 = *v11;
  v13 = _ZNK14OpenVolumeMesh15ResourceManager1nINS_6Entity4FaceEEEmv(a1);
  if (v_exc) {
    goto L15;
  }
  goto L1;
L1: ;
  v14 = (struct S40_class_std__vector_322*)(&(*v12).f2);
  v15 = (u32**)(&(*v12).f2.f0.f0.f0.f1);
  v16 = *v15;
  v17 = (u32**)(&(*v14).f0.f0.f0.f0);
  v18 = *v17;
  v19 = ((u64)((u64)v16));
  v20 = ((u64)((u64)v18));
  v21 = v_pdiff((u8*)v16, (u8*)v18);
  v22 = ((u64)(((s64)v21) >> ((u64)2ULL)));
  v23 = (v13 > v22);
  if (v23) {
    goto L2;
  } else {
    goto L3;
  }
L2: ;
  v24 = (u32*)(&(*v12).f3);
  v25 = ((u64)(v13 - v22));
  _ZNSt6vectorIjSaIjEE14_M_fill_insertEN9__gnu_cxx17__normal_iteratorIPjS1_EEmRKj(v14, v16, v25, v24);
  if (v_exc) {
    goto L15;
  }
  goto L6;
L3: ;
  v26 = (v13 < v22);
  if (v26) {
    goto L4;
  } else {
    goto L6;
  }
L4: ;
  v27 = (u32*)(v18 + (s64)((s64)v13));
  v28 = ((u8*)v16 == (u8*)v27);
  if (v28) {
    goto L6;
  } else {
    goto L5;
  }
L5: ;
  *v15 = v27;
  goto L6;
L6: ;
  v29 = (struct S38_class_OpenVolumeMesh__PropertyStorageT_3**)(&(*v2).f0.f0);
  v30 = *v29;
  v31 = (struct S13_class_std___Sp_counted_base**)(&(*v2).f0.f1.f0);
  v32 = *v31;
  v33 = (fnptr_t**)(&(*a0).f0.f0.f0);
  v34 = (u8*)v2;
  (*v2).f0.f0 = (struct S38_class_OpenVolumeMesh__PropertyStorageT_3*)0;
  (*v2).f0.f1.f0 = (struct S13_class_std___Sp_counted_base*)0;
  *v33 = ((fnptr_t*)((u8**)(&(*(&_ZTVN14OpenVolumeMesh18PropertyStoragePtrIjEE)).f0.e[(s64)((s64)((u64)2ULL))])));
  v35 = (struct S38_class_OpenVolumeMesh__PropertyStorageT_3**)(&(*a0).f0.f0.f1.f0.f0);
  *v35 = v30;
  v36 = (struct S13_class_std___Sp_counted_base**)(&(*a0).f0.f0.f1.f0.f1.f0);
  *v36 = v32;
  *v33 = ((fnptr_t*)((u8**)(&(*(&_ZTVN14OpenVolumeMesh14HandleIndexingINS_6Entity4FaceENS_18PropertyStoragePtrIjEEEE)).f0.e[(s64)((s64)((u64)2ULL))])));
  v37 = (fnptr_t**)(&(*a0).f1.f0);
  *v37 = ((fnptr_t*)((u8**)(&(*(&_ZTVN14OpenVolumeMesh15BasePropertyPtrE)).f0.e[(s64)((s64)((u64)2ULL))])));
  *v33 = ((fnptr_t*)((u8**)(&(*(&_ZTVN14OpenVolumeMesh11PropertyPtrIjNS_6Entity4FaceEEE)).f0.e[(s64)((s64)((u64)2ULL))])));
  *v37 = ((fnptr_t*)((u8**)(&(*(&_ZTVN14OpenVolumeMesh11PropertyPtrIjNS_6Entity4FaceEEE)).f1.e[(s64)((s64)((u64)2ULL))])));
  v38 = (struct S13_class_std___Sp_counted_base**)(&(*v2).f0.f1.f0);
  v39 = *v38;
  v40 = ((u8*)v39 == (u8*)((struct S13_class_std___Sp_counted_base*)0));
  if (v40) {
    goto L14;
  } else {
    goto L7;
  }
L7: ;
  v41 = (u32*)(&(*v39).f1);
  v42 = (u64*)v41;
  v43 = (((u64)(*v39).f1 << 0) | ((u64)(*v39).f2 << 32));
  v44 = (v43 == ((u64)4294967297ULL));
  if (v44) {
    goto L8;
  } else {
    goto L9;
  }
L8: ;
  *v41 = ((u32)0ULL);
  v45 = (u32*)(&(*v39).f2);
  *v45 = ((u32)0ULL);
  v46 = (fnptr_t**)&(*v39).f0;
  v47 = *v46;
  v48 = (fnptr_t*)(v47 + (s64)((s64)((u64)2ULL)));
  v49 = *v48;
  ((FT0)v49)(v39);
  v50 = *v46;
  v51 = (fnptr_t*)(v50 + (s64)((s64)((u64)3ULL)));
  v52 = *v51;
  ((FT0)v52)(v39);
  goto L14;
L9: ;
  v53 = *(&__libc_single_threaded);
  v54 = (v53 == ((u8)0ULL));
  if (v54) {
    goto L11;
  } else {
    goto L10;
  }
L10: ;
  v55 = *v41;
  v56 = ((u32)(v55 + ((u32)4294967295ULL)));
  *v41 = v56;
  v59 = v55;
  goto L12;
L11: ;
  v57 = *v41;
  v58 = ((u32)(v57 + ((u32)4294967295ULL)));
  *v41 = v58;
  v59 = v57;
  goto L12;
L12: ;
  v60 = (v59 == ((u32)1ULL));
  if (v60) {
    goto L13;
  } else {
    goto L14;
  }
L13: ;
  _ZNSt16_Sp_counted_baseILN9__gnu_cxx12_Lock_policyE2EE24_M_release_last_use_coldEv(v39);
  goto L14;
L14: ;
  return;
L15: ;
  v61.f0 = v_exc_obj;
  v61.f1 = 0;
  v_exc = 0;
  _ZNSt12__shared_ptrIN14OpenVolumeMesh16PropertyStorageTIjEELN9__gnu_cxx12_Lock_policyE2EED2Ev(v10);
  v_exc = 1; return;
}

void _ZNSt14_Optional_baseIN14OpenVolumeMesh11PropertyPtrIjNS0_6Entity4FaceEEELb0ELb0EED2Ev(struct S58_struct_std___Optional_base_434* a0) {
  u8* v0;
  u8 v1;
  u1 v2;
  fnptr_t** v3;
  struct S13_class_std___Sp_counted_base** v4;
  struct S13_class_std___Sp_counted_base* v5;
  u1 v6;
  u32* v7;
  u64* v8;
  u64 v9;
  u1 v10;
  u32* v11;
  fnptr_t** v12;
  fnptr_t* v13;
  fnptr_t* v14;
  fnptr_t v15;
  fnptr_t* v16;
  fnptr_t* v17;
  fnptr_t v18;
  u8 v19;
  u1 v20;
  u32 v21;
  u32 v22;
  u32 v23;
  u32 v24;
  u32 v25; u32 v25_t;
  u1 v26;
L0: ;
  v0 = (u8*)(&(*a0).f0.f0.f0.f1);
  v1 = *v0;
  v2 = (v1 == ((u8)0ULL));
  if (v2) {
    goto L9;
  } else {
    goto L1;
  }
L1: ;
  *v0 = ((u8)0ULL);
  v3 = (fnptr_t**)(&(*a0).f0.f0.f0.f0.f0.f0.f0.f0);
  *v3 = ((fnptr_t*)((u8**)(&(*(&_ZTVN14OpenVolumeMesh18PropertyStoragePtrIjEE)).f0.e[(s64)((s64)((u64)2ULL))])));
  v4 = (struct S13_class_std___Sp_counted_base**)(&(*a0).f0.f0.f0.f0.f0.f0.f0.f1.f0.f1.f0);
  v5 = *v4;
  v6 = ((u8*)v5 == (u8*)((struct S13_class_std___Sp_counted_base*)0));
  if (v6) {
    goto L9;
  } else {
    goto L2;
  }
L2: ;
  v7 = (u32*)(&(*v5).f1);
  v8 = (u64*)v7;
  v9 = (((u64)(*v5).f1 << 0) | ((u64)(*v5).f2 << 32));
  v10 = (v9 == ((u64)4294967297ULL));
  if (v10) {
    goto L3;
  } else {
    goto L4;
  }
L3: ;
  *v7 = ((u32)0ULL);
  v11 = (u32*)(&(*v5).f2);
  *v11 = ((u32)0ULL);
  v12 = (fnptr_t**)&(*v5).f0;
  v13 = *v12;
  v14 = (fnptr_t*)(v13 + (s64)((s64)((u64)2ULL)));
  v15 = *v14;
  ((FT0)v15)(v5);
  v16 = *v12;
  v17 = (fnptr_t*)(v16 + (s64)((s64)((u64)3ULL)));
  v18 = *v17;
  ((FT0)v18)(v5);
  goto L9;
L4: ;
  v19 = *(&__libc_single_threaded);
  v20 = (v19 == ((u8)0ULL));
  if (v20) {
    goto L6;
  } else {
    goto L5;
  }
L5: ;
  v21 = *v7;
  v22 = ((u32)(v21 + ((u32)4294967295ULL)));
  *v7 = v22;
  v25 = v21;
  goto L7;
L6: ;
  v23 = *v7;
  v24 = ((u32)(v23 + ((u32)4294967295ULL)));
  *v7 = v24;
  v25 = v23;
  goto L7;
L7: ;
  v26 = (v25 == ((u32)1ULL));
  if (v26) {
    goto L8;
  } else {
    goto L9;
  }
L8: ;
  _ZNSt16_Sp_counted_baseILN9__gnu_cxx12_Lock_policyE2EE24_M_release_last_use_coldEv(v5);
  goto L9;
L9: ;
  return;
}

void _ZN14OpenVolumeMesh15ResourceManager21prop_ptr_from_storageIjNS_6Entity4FaceEEENS_11PropertyPtrIT_T0_EEPNS_19PropertyStorageBaseE(struct S44_class_OpenVolumeMesh__PropertyPtr_431* a0, struct S16_class_OpenVolumeMesh__PropertyStorageBas* a1) {
  struct S13_class_std___Sp_counted_base** v0;
  struct S13_class_std___Sp_counted_base* v1;
  u1 v2;
  u32* v3;
  u32 v4;
  u32 v5; u32 v5_t;
  u1 v6;
  u32 v7;
  u32 v8;
  u1 v9;
  u32 v10;
  struct S69 v11;
  struct S69 v12;
  u1 v13;
  u32 v14;
  u8* v15;
  u64* v16;
  fnptr_t** v17;
  struct S16_class_OpenVolumeMesh__PropertyStorageBas** v18;
  struct S38_class_OpenVolumeMesh__PropertyStorageT_3** v19;
  struct S38_class_OpenVolumeMesh__PropertyStorageT_3* v20;
  u8 v21;
  u1 v22;
  u32 v23;
  u32 v24;
  u32 v25;
  u32 v26;
  u64* v27;
  u64 v28;
  u1 v29;
  u32* v30;
  fnptr_t** v31;
  fnptr_t* v32;
  fnptr_t* v33;
  fnptr_t v34;
  fnptr_t* v35;
  fnptr_t* v36;
  fnptr_t v37;
  u8 v38;
  u1 v39;
  u32 v40;
  u32 v41;
  u32 v42;
  u32 v43;
  u32 v44; u32 v44_t;
  u1 v45;
  fnptr_t** v46;
  struct S38_class_OpenVolumeMesh__PropertyStorageT_3** v47;
  struct S13_class_std___Sp_counted_base** v48;
  fnptr_t** v49;
L0: ;
  v0 = (struct S13_class_std___Sp_counted_base**)(&(*a1).f1.f0.f0.f1.f0);
  v1 = *v0;
  v2 = ((u8*)v1 == (u8*)((struct S13_class_std___Sp_counted_base*)0));
  if (v2) {
    goto L4;
  } else {
    goto L1;
  }
L1: ;
  v3 = (u32*)(&(*v1).f1);
  v4 = *v3;
  v5 = v4;
  goto L2;
L2: ;
  v6 = (v5 == ((u32)0ULL));
  if (v6) {
    goto L4;
  } else {
    goto L3;
  }
L3: ;
  v7 = ((u32)(v5 + ((u32)1ULL)));
  v8 = *v3;
  v9 = (v8 == v5);
  v10 = (v9 ? v7 : v8);
  *v3 = v10;
  v11.f0 = v8;
  v12 = v11;
  v12.f1 = v9;
  v13 = v12.f1;
  v14 = v12.f0;
  if (v13) {
    goto L5;
  } else {
    v5 = v14;
    goto L2;
  }
L4: ;
  v15 = __cxa_allocate_exception(((u64)8ULL));
  v16 = (u64*)v15;
  *v16 = ((u64)0ULL);
  v17 = (fnptr_t**)v15;
  *v17 = ((fnptr_t*)((u8**)(&(*(&_ZTVSt12bad_weak_ptr)).f0.e[(s64)((s64)((u64)2ULL))])));
  __cxa_throw(v15, ((u8*)(&_ZTISt12bad_weak_ptr)), ((u8*)((fnptr_t)_ZNSt12bad_weak_ptrD1Ev)));
  if (v_exc) return;
  __CPROVER_assume(0);
L5: ;
  v18 = (struct S16_class_OpenVolumeMesh__PropertyStorageBas**)(&(*a1).f1.f0.f0.f0);
  v19 = (struct S38_class_OpenVolumeMesh__PropertyStorageT_3**)&(*a1).f1.f0.f0.f0;
  v20 = *v19;
  v21 = *(&__libc_single_threaded);
  v22 = (v21 == ((u8)0ULL));
  if (v22) {
    goto L7;
  } else {
    goto L6;
  }
L6: ;
  v23 = *v3;
  v24 = ((u32)(v23 + ((u32)1ULL)));
  *v3 = v24;
  goto L8;
L7: ;
  v25 = *v3;
  v26 = ((u32)(v25 + ((u32)1ULL)));
  *v3 = v26;
  goto L8;
L8: ;
  v27 = (u64*)v3;
  v28 = (((u64)(*v1).f1 << 0) | ((u64)(*v1).f2 << 32));
  v29 = (v28 == ((u64)4294967297ULL));
  if (v29) {
    goto L9;
  } else {
    goto L10;
  }
L9: ;
  *v3 = ((u32)0ULL);
  v30 = (u32*)(&(*v1).f2);
  *v30 = ((u32)0ULL);
  v31 = (fnptr_t**)&(*v1).f0;
  v32 = *v31;
  v33 = (fnptr_t*)(v32 + (s64)((s64)((u64)2ULL)));
  v34 = *v33;
  ((FT0)v34)(v1);
  v35 = *v31;
  v36 = (fnptr_t*)(v35 + (s64)((s64)((u64)3ULL)));
  v37 = *v36;
  ((FT0)v37)(v1);
  goto L15;
L10: ;
  v38 = *(&__libc_single_threaded);
  v39 = (v38 == ((u8)0ULL));
  if (v39) {
    goto L12;
  } else {
    goto L11;
  }
L11: ;
  v40 = *v3;
  v41 = ((u32)(v40 + ((u32)4294967295ULL)));
  *v3 = v41;
  v44 = v40;
  goto L13;
L12: ;
  v42 = *v3;
  v43 = ((u32)(v42 + ((u32)4294967295ULL)));
  *v3 = v43;
  v44 = v42;
  goto L13;
L13: ;
  v45 = (v44 == ((u32)1ULL));
  if (v45) {
    goto L14;
  } else {
    goto L15;
  }
L14: ;
  _ZNSt16_Sp_counted_baseILN9__gnu_cxx12_Lock_policyE2EE24_M_release_last_use_coldEv(v1);
  goto L15;
L15: ;
  v46 = (fnptr_t**)(&(*a0).f0.f0.f0);
  *v46 = ((fnptr_t*)((u8**)(&(*(&_ZTVN14OpenVolumeMesh18PropertyStoragePtrIjEE)).f0.e[(s64)((s64)((u64)2ULL))])));
  v47 = (struct S38_class_OpenVolumeMesh__PropertyStorageT_3**)(&(*a0).f0.f0.f1.f0.f0);
  *v47 = v20;
  v48 = (struct S13_class_std___Sp_counted_base**)(&(*a0).f0.f0.f1.f0.f1.f0);
  *v48 = v1;
  *v46 = ((fnptr_t*)((u8**)(&(*(&_ZTVN14OpenVolumeMesh14HandleIndexingINS_6Entity4FaceENS_18PropertyStoragePtrIjEEEE)).f0.e[(s64)((s64)((u64)2ULL))])));
  v49 = (fnptr_t**)(&(*a0).f1.f0);
  *v49 = ((fnptr_t*)((u8**)(&(*(&_ZTVN14OpenVolumeMesh15BasePropertyPtrE)).f0.e[(s64)((s64)((u64)2ULL))])));
  *v46 = ((fnptr_t*)((u8**)(&(*(&_ZTVN14OpenVolumeMesh11PropertyPtrIjNS_6Entity4FaceEEE)).f0.e[(s64)((s64)((u64)2ULL))])));
  *v49 = ((fnptr_t*)((u8**)(&(*(&_ZTVN14OpenVolumeMesh11PropertyPtrIjNS_6Entity4FaceEEE)).f1.e[(s64)((s64)((u64)2ULL))])));
  return;
}

void _ZN14OpenVolumeMesh15ResourceManager16request_propertyIjNS_6Entity8HalfEdgeEEENS_11PropertyPtrIT_T0_EERKNSt7__cxx1112basic_stringIcSt11char_traitsIcESaIcEEERKS5_(struct S44_class_OpenVolumeMesh__PropertyPtr_431* a0, struct S52_class_OpenVolumeMesh__ResourceManager* a1, struct S27_class_std____cxx11__basic_string* a2, u32* a3) {
  u64* v0; u64 v0_m;
  struct S57_class_std__optional_433* v1; struct S57_class_std__optional_433 v1_m;
  struct S27_class_std____cxx11__basic_string* v2; struct S27_class_std____cxx11__basic_string v2_m;
  u8* v3;
  u8* v4;
  u8 v5;
  u1 v6;
  fnptr_t** v7;
  struct S38_class_OpenVolumeMesh__PropertyStorageT_3** v8;
  struct S38_class_OpenVolumeMesh__PropertyStorageT_3** v9;
  struct S38_class_OpenVolumeMesh__PropertyStorageT_3* v10;
  struct S13_class_std___Sp_counted_base** v11;
  struct S13_class_std___Sp_counted_base** v12;
  struct S13_class_std___Sp_counted_base* v13;
  u1 v14;
  u32* v15;
  u8 v16;
  u1 v17;
  u32 v18;
  u32 v19;
  u32 v20;
  u32 v21;
  fnptr_t** v22;
  u64* v23;
  u64 v24;
  u1 v25;
  struct S66_union_anon* v26;
  struct S66_union_anon** v27;
  u8** v28;
  u8* v29;
  u8* v30;
  u1 v31;
  u8* v32;
  u8** v33;
  u64 v34;
  u64* v35;
  u8** v36;
  u8* v37;
  u8 v38;
  u64 v39;
  u64* v40;
  u8* v41;
  u8* v42;
  u8* v43;
  u8* v44;
  u1 v45;
  struct S63 v46;
  struct S63 v47;
  u8* v48;
  u8* v49;
  u1 v50;
  struct S63 v51; struct S63 v51_t;
  struct S58_struct_std___Optional_base_434* v52;
  u8* v53;
  u8 v54;
  u1 v55;
  fnptr_t** v56;
  struct S13_class_std___Sp_counted_base** v57;
  struct S13_class_std___Sp_counted_base* v58;
  u1 v59;
  u32* v60;
  u64* v61;
  u64 v62;
  u1 v63;
  u32* v64;
  fnptr_t** v65;
  fnptr_t* v66;
  fnptr_t* v67;
  fnptr_t v68;
  fnptr_t* v69;
  fnptr_t* v70;
  fnptr_t v71;
  u8 v72;
  u1 v73;
  u32 v74;
  u32 v75;
  u32 v76;
  u32 v77;
  u32 v78; u32 v78_t;
  u1 v79;
L0: ;
  v0 = &v0_m;
  v1 = &v1_m;
  v2 = &v2_m;
  v3 = (u8*)v1;
  _ZNK14OpenVolumeMesh15ResourceManager22internal_find_propertyIjNS_6Entity8HalfEdgeEEESt8optionalINS_11PropertyPtrIT_T0_EEERKNSt7__cxx1112basic_stringIcSt11char_traitsIcESaIcEEE(v1, a1, a2);
  if (v_exc) return;
  v4 = (u8*)(&(*v1).f0.f0.f0.f0.f1);
  v5 = *v4;
  v6 = (v5 == ((u8)0ULL));
  if (v6) {
    goto L6;
  } else {
    goto L1;
  }
L1: ;
  v7 = (fnptr_t**)(&(*a0).f0.f0.f0);
  *v7 = ((fnptr_t*)((u8**)(&(*(&_ZTVN14OpenVolumeMesh18PropertyStoragePtrIjEE)).f0.e[(s64)((s64)((u64)2ULL))])));
  v8 = (struct S38_class_OpenVolumeMesh__PropertyStorageT_3**)(&(*a0).f0.f0.f1.f0.f0);
  v9 = (struct S38_class_OpenVolumeMesh__PropertyStorageT_3**)(&(*v1).f0.f0.f0.f0.f0.f0.f0.f0.f1.f0.f0);
  v10 = *v9;
  *v8 = v10;
  v11 = (struct S13_class_std___Sp_counted_base**)(&(*a0).f0.f0.f1.f0.f1.f0);
  v12 = (struct S13_class_std___Sp_counted_base**)(&(*v1).f0.f0.f0.f0.f0.f0.f0.f0.f1.f0.f1.f0);
  v13 = *v12;
  *v11 = v13;
  v14 = ((u8*)v13 == (u8*)((struct S13_class_std___Sp_counted_base*)0));
  if (v14) {
    goto L5;
  } else {
    goto L2;
  }
L2: ;
  v15 = (u32*)(&(*v13).f1);
  v16 = *(&__libc_single_threaded);
  v17 = (v16 == ((u8)0ULL));
  if (v17) {
    goto L4;
  } else {
    goto L3;
  }
L3: ;
  v18 = *v15;
  v19 = ((u32)(v18 + ((u32)1ULL)));
  *v15 = v19;
  goto L5;
L4: ;
  v20 = *v15;
  v21 = ((u32)(v20 + ((u32)1ULL)));
  *v15 = v21;
  goto L5;
L5: ;
  *v7 = ((fnptr_t*)((u8**)(&(*(&_ZTVN14OpenVolumeMesh14HandleIndexingINS_6Entity8HalfEdgeENS_18PropertyStoragePtrIjEEEE)).f0.e[(s64)((s64)((u64)2ULL))])));
  v22 = (fnptr_t**)(&(*a0).f1.f0);
  *v22 = ((fnptr_t*)((u8**)(&(*(&_ZTVN14OpenVolumeMesh15BasePropertyPtrE)).f0.e[(s64)((s64)((u64)2ULL))])));
  *v7 = ((fnptr_t*)((u8**)(&(*(&_ZTVN14OpenVolumeMesh11PropertyPtrIjNS_6Entity8HalfEdgeEEE)).f0.e[(s64)((s64)((u64)2ULL))])));
  *v22 = ((fnptr_t*)((u8**)(&(*(&_ZTVN14OpenVolumeMesh11PropertyPtrIjNS_6Entity8HalfEdgeEEE)).f1.e[(s64)((s64)((u64)2ULL))])));
  goto L19;
L6: ;
  v23 = (u64*)(&(*a2).f1);
  v24 = *v23;
  v25 = (v24 != ((u64)0ULL));
  v26 = (struct S66_union_anon*)(&(*v2).f2);
  v27 = (struct S66_union_anon**)&(*v2).f0.f0;
  *v27 = v26;
  v28 = (u8**)(&(*a2).f0.f0);
  v29 = *v28;
  v30 = (u8*)v0;
  *v0 = v24;
  v31 = (v24 > ((u64)15ULL));
  if (v31) {
    goto L7;
  } else {
    goto L9;
  }
L7: ;
  v32 = _ZNSt7__cxx1112basic_stringIcSt11char_traitsIcESaIcEE9_M_createERmm(v2, v0, ((u64)0ULL));
  if (v_exc) {
    goto L15;
  }
  goto L8;
L8: ;
  v33 = (u8**)(&(*v2).f0.f0);
  *v33 = v32;
  v34 = *v0;
  v35 = (u64*)(&(*v2).f2.f0.e[0]);
  *v35 = v34;
  goto L9;
L9: ;
  v36 = (u8**)(&(*v2).f0.f0);
  v37 = *v36;
  switch (v24) {
  case ((u64)1ULL): {
    goto L10;
  }
  case ((u64)0ULL): {
    goto L12;
  }
  default: {
    goto L11;
  }
  }
L10: ;
  v38 = *v29;
  *v37 = v38;
  goto L12;
L11: ;
  v_memcpy((u8*)v37, (u8*)v29, (u64)v24);
  goto L12;
L12: ;
  v39 = *v0;
  v40 = (u64*)(&(*v2).f1);
  *v40 = v39;
  v41 = *v36;
  v42 = (u8*)(v41 + (s64)((s64)v39));
  *v42 = ((u8)0ULL);
  _ZNK14OpenVolumeMesh15ResourceManager24internal_create_propertyIjNS_6Entity8HalfEdgeEEENS_11PropertyPtrIT_T0_EENSt7__cxx1112basic_stringIcSt11char_traitsIcESaIcEEERKS5_b(a0, a1, v2, a3, v25);
  if (v_exc) {
    goto L16;
  }
  goto L13;
L13: ;
  v43 = *v36;
  v44 = (u8*)v26;
  v45 = ((u8*)v43 == (u8*)v44);
  if (v45) {
    goto L19;
  } else {
    goto L14;
  }
L14: ;
  _ZdlPv(v43);
  goto L19;
L15: ;
  v46.f0 = v_exc_obj;
  v46.f1 = 0;
  v_exc = 0;
  v51 = v46;
  goto L18;
L16: ;
  v47.f0 = v_exc_obj;
  v47.f1 = 0;
  v_exc = 0;
  v48 = *v36;
  v49 = (u8*)v26;
  v50 = ((u8*)v48 == (u8*)v49);
  if (v50) {
    v51 = v47;
    goto L18;
  } else {
    goto L17;
  }
L17: ;
  _ZdlPv(v48);
  v51 = v47;
  goto L18;
L18: ;
  v52 = (struct S58_struct_std___Optional_base_434*)(&(*v1).f0);
  _ZNSt14_Optional_baseIN14OpenVolumeMesh11PropertyPtrIjNS0_6Entity8HalfEdgeEEELb0ELb0EED2Ev(v52);
  v_exc = 1; return;
L19: ;
  v53 = (u8*)(&(*v1).f0.f0.f0.f0.f1);
  v54 = *v53;
  v55 = (v54 == ((u8)0ULL));
  if (v55) {
    goto L28;
  } else {
    goto L20;
  }
L20: ;
  *v53 = ((u8)0ULL);
  v56 = (fnptr_t**)(&(*v1).f0.f0.f0.f0.f0.f0.f0.f0.f0);
  *v56 = ((fnptr_t*)((u8**)(&(*(&_ZTVN14OpenVolumeMesh18PropertyStoragePtrIjEE)).f0.e[(s64)((s64)((u64)2ULL))])));
  v57 = (struct S13_class_std___Sp_counted_base**)(&(*v1).f0.f0.f0.f0.f0.f0.f0.f0.f1.f0.f1.f0);
  v58 = *v57;
  v59 = ((u8*)v58 == (u8*)((struct S13_class_std___Sp_counted_base*)0));
  if (v59) {
    goto L28;
  } else {
    goto L21;
  }
L21: ;
  v60 = (u32*)(&(*v58).f1);
  v61 = (u64*)v60;
  v62 = (((u64)(*v58).f1 << 0) | ((u64)(*v58).f2 << 32));
  v63 = (v62 == ((u64)4294967297ULL));
  if (v63) {
    goto L22;
  } else {
    goto L23;
  }
L22: ;
  *v60 = ((u32)0ULL);
  v64 = (u32*)(&(*v58).f2);
  *v64 = ((u32)0ULL);
  v65 = (fnptr_t**)&(*v58).f0;
  v66 = *v65;
  v67 = (fnptr_t*)(v66 + (s64)((s64)((u64)2ULL)));
  v68 = *v67;
  ((FT0)v68)(v58);
  v69 = *v65;
  v70 = (fnptr_t*)(v69 + (s64)((s64)((u64)3ULL)));
  v71 = *v70;
  ((FT0)v71)(v58);
  goto L28;
L23: ;
  v72 = *(&__libc_single_threaded);
  v73 = (v72 == ((u8)0ULL));
  if (v73) {
    goto L25;
  } else {
    goto L24;
  }
L24: ;
  v74 = *v60;
  v75 = ((u32)(v74 + ((u32)4294967295ULL)));
  *v60 = v75;
  v78 = v74;
  goto L26;
L25: ;
  v76 = *v60;
  v77 = ((u32)(v76 + ((u32)4294967295ULL)));
  *v60 = v77;
  v78 = v76;
  goto L26;
L26: ;
  v79 = (v78 == ((u32)1ULL));
  if (v79) {
    goto L27;
  } else {
    goto L28;
  }
L27: ;
  _ZNSt16_Sp_counted_baseILN9__gnu_cxx12_Lock_policyE2EE24_M_release_last_use_coldEv(v58);
  goto L28;
L28: ;
  return;
}

void _ZN14OpenVolumeMesh15ResourceManager14set_persistentIjNS_6Entity8HalfEdgeEEEvRNS_11PropertyPtrIT_T0_EEb(struct S52_class_OpenVolumeMesh__ResourceManager* a0, struct S44_class_OpenVolumeMesh__PropertyPtr_431* a1, u1 a2) {
  struct S33_class_std__weak_ptr* v0; struct S33_class_std__weak_ptr v0_m;
  struct S38_class_OpenVolumeMesh__PropertyStorageT_3** v1;
  struct S16_class_OpenVolumeMesh__PropertyStorageBas** v2;
  struct S16_class_OpenVolumeMesh__PropertyStorageBas* v3;
  u8* v4;
  u8 v5;
  u1 v6;
  u1 v7;
  u8* v8;
  struct S55_class_std__shared_ptr_348* v9;
  struct S16_class_OpenVolumeMesh__PropertyStorageBas** v10;
  struct S16_class_OpenVolumeMesh__PropertyStorageBas* v11;
  struct S16_class_OpenVolumeMesh__PropertyStorageBas** v12;
  struct S13_class_std___Sp_counted_base** v13;
  struct S13_class_std___Sp_counted_base** v14;
  struct S13_class_std___Sp_counted_base* v15;
  u1 v16;
  u32* v17;
  u8 v18;
  u1 v19;
  u32 v20;
  u32 v21;
  u32 v22;
  u32 v23;
  struct S16_class_OpenVolumeMesh__PropertyStorageBas* v24;
  u8* v25;
  u8 v26;
  u1 v27;
  u8* v28;
  struct S20_class_std__runtime_error* v29;
  struct S63 v30;
  struct S63 v31;
  struct S10_class_std___Rb_tree* v32;
  struct S23 v33;
  struct S26_class_std__map* v34;
  u8* v35;
  u8* v36;
  struct S35_struct_std___Rb_tree_node_84** v37;
  u8* v38;
  struct S11_struct_std___Rb_tree_node_base* v39;
  struct S35_struct_std___Rb_tree_node_84* v40;
  u1 v41;
  struct S16_class_OpenVolumeMesh__PropertyStorageBas* v42;
  struct S35_struct_std___Rb_tree_node_84* v43; struct S35_struct_std___Rb_tree_node_84* v43_t;
  struct S11_struct_std___Rb_tree_node_base* v44; struct S11_struct_std___Rb_tree_node_base* v44_t;
  struct S67_struct___gnu_cxx____aligned_membuf_85* v45;
  struct S16_class_OpenVolumeMesh__PropertyStorageBas** v46;
  struct S16_class_OpenVolumeMesh__PropertyStorageBas* v47;
  u1 v48;
  struct S11_struct_std___Rb_tree_node_base** v49;
  u1 v50;
  struct S11_struct_std___Rb_tree_node_base* v51;
  struct S11_struct_std___Rb_tree_node_base** v52;
  struct S35_struct_std___Rb_tree_node_84** v53;
  struct S35_struct_std___Rb_tree_node_84* v54;
  struct S11_struct_std___Rb_tree_node_base** v55;
  struct S35_struct_std___Rb_tree_node_84** v56;
  struct S35_struct_std___Rb_tree_node_84* v57;
  u1 v58;
  struct S35_struct_std___Rb_tree_node_84* v59; struct S35_struct_std___Rb_tree_node_84* v59_t;
  struct S11_struct_std___Rb_tree_node_base* v60; struct S11_struct_std___Rb_tree_node_base* v60_t;
  struct S67_struct___gnu_cxx____aligned_membuf_85* v61;
  struct S16_class_OpenVolumeMesh__PropertyStorageBas** v62;
  struct S16_class_OpenVolumeMesh__PropertyStorageBas* v63;
  u1 v64;
  struct S11_struct_std___Rb_tree_node_base** v65;
  struct S11_struct_std___Rb_tree_node_base* v66;
  struct S11_struct_std___Rb_tree_node_base** v67;
  struct S11_struct_std___Rb_tree_node_base* v68;
  struct S11_struct_std___Rb_tree_node_base** v69;
  struct S35_struct_std___Rb_tree_node_84** v70;
  struct S35_struct_std___Rb_tree_node_84* v71;
  u1 v72;
  struct S11_struct_std___Rb_tree_node_base* v73; struct S11_struct_std___Rb_tree_node_base* v73_t;
  u1 v74;
  struct S35_struct_std___Rb_tree_node_84* v75; struct S35_struct_std___Rb_tree_node_84* v75_t;
  struct S11_struct_std___Rb_tree_node_base* v76; struct S11_struct_std___Rb_tree_node_base* v76_t;
  struct S67_struct___gnu_cxx____aligned_membuf_85* v77;
  struct S16_class_OpenVolumeMesh__PropertyStorageBas** v78;
  struct S16_class_OpenVolumeMesh__PropertyStorageBas* v79;
  u1 v80;
  struct S11_struct_std___Rb_tree_node_base* v81;
  struct S11_struct_std___Rb_tree_node_base** v82;
  struct S11_struct_std___Rb_tree_node_base** v83;
  struct S11_struct_std___Rb_tree_node_base* v84;
  struct S11_struct_std___Rb_tree_node_base** v85;
  struct S35_struct_std___Rb_tree_node_84** v86;
  struct S35_struct_std___Rb_tree_node_84* v87;
  u1 v88;
  struct S11_struct_std___Rb_tree_node_base* v89; struct S11_struct_std___Rb_tree_node_base* v89_t;
  struct S11_struct_std___Rb_tree_node_base** v90; struct S11_struct_std___Rb_tree_node_base** v90_t;
  struct S35_struct_std___Rb_tree_node_84** v91;
  struct S35_struct_std___Rb_tree_node_84* v92;
  u1 v93;
  struct S11_struct_std___Rb_tree_node_base* v94; struct S11_struct_std___Rb_tree_node_base* v94_t;
  struct S11_struct_std___Rb_tree_node_base* v95; struct S11_struct_std___Rb_tree_node_base* v95_t;
  struct S10_class_std___Rb_tree* v96;
  struct S16_class_OpenVolumeMesh__PropertyStorageBas** v97;
  struct S16_class_OpenVolumeMesh__PropertyStorageBas* v98;
  u8 v99;
  u8* v100;
  struct S13_class_std___Sp_counted_base** v101;
  struct S13_class_std___Sp_counted_base* v102;
  u1 v103;
  u32* v104;
  u64* v105;
  u64 v106;
  u1 v107;
  u32* v108;
  fnptr_t** v109;
  fnptr_t* v110;
  fnptr_t* v111;
  fnptr_t v112;
  fnptr_t* v113;
  fnptr_t* v114;
  fnptr_t v115;
  u8 v116;
  u1 v117;
  u32 v118;
  u32 v119;
  u32 v120;
  u32 v121;
  u32 v122; u32 v122_t;
  u1 v123;
  struct S63 v124; struct S63 v124_t;
  struct S34_class_std____weak_ptr* v125;
L0: ;
  v0 = &v0_m;
  v1 = (struct S38_class_OpenVolumeMesh__PropertyStorageT_3**)(&(*a1).f0.f0.f1.f0.f0);
  v2 = (struct S16_class_OpenVolumeMesh__PropertyStorageBas**)&(*a1).f0.f0.f1.f0.f0;
  v3 = *v2;
  v4 = (u8*)(&(*v3).f5);
  v5 = *v4;
  v6 = (v5 != ((u8)0ULL));
  v7 = ((u1)((v6 ^ a2)&1));
  if (v7) {
    goto L1;
  } else {
    goto L32;
  }
L1: ;
  v8 = (u8*)v0;
  v9 = (struct S55_class_std__shared_ptr_348*)(&(*a1).f0.f0.f1);
  v10 = (struct S16_class_OpenVolumeMesh__PropertyStorageBas**)&(*a1).f0.f0.f1.f0.f0;
  v11 = *v10;
  v12 = (struct S16_class_OpenVolumeMesh__PropertyStorageBas**)(&(*v0).f0.f0);
  *v12 = v11;
  v13 = (struct S13_class_std___Sp_counted_base**)(&(*v0).f0.f1.f0);
  v14 = (struct S13_class_std___Sp_counted_base**)(&(*a1).f0.f0.f1.f0.f1.f0);
  v15 = *v14;
  *v13 = v15;
  v16 = ((u8*)v15 == (u8*)((struct S13_class_std___Sp_counted_base*)0));
  if (v16) {
    goto L5;
  } else {
    goto L2;
  }
L2: ;
  v17 = (u32*)(&(*v15).f1);
  v18 = *(&__libc_single_threaded);
  v19 = (v18 == ((u8)0ULL));
  if (v19) {
    goto L4;
  } else {
    goto L3;
  }
L3: ;
  v20 = *v17;
  v21 = ((u32)(v20 + ((u32)1ULL)));
  *v17 = v21;
  goto L5;
L4: ;
  v22 = *v17;
  v23 = ((u32)(v22 + ((u32)1ULL)));
  *v17 = v23;
  goto L5;
L5: ;
  if (a2) {
    goto L6;
  } else {
    goto L12;
  }
L6: ;
  v24 = *v2;
  v25 = (u8*)(&(*v24).f6);
  v26 = *v25;
  v27 = (v26 == ((u8)0ULL));
  if (v27) {
    goto L7;
  } else {
    goto L11;
  }
L7: ;
  v28 = __cxa_allocate_exception(((u64)16ULL));
  v29 = (struct S20_class_std__runtime_error*)v28;
  _ZNSt13runtime_errorC1EPKc(v29, ((u8*)(&(*(&_str_4)).e[(s64)((s64)((u64)0ULL))])));
  if (v_exc) {
    goto L9;
  }
  goto L8;
L8: ;
  __cxa_throw(v28, ((u8*)(&_ZTISt13runtime_error)), ((u8*)((fnptr_t)_ZNSt13runtime_errorD1Ev)));
  if (v_exc) {
    goto L10;
  }
  goto L34;
L9: ;
  v30.f0 = v_exc_obj;
  v30.f1 = 0;
  v_exc = 0;
  __cxa_free_exception(v28);
  v124 = v30;
  goto L33;
L10: ;
  v31.f0 = v_exc_obj;
  v31.f1 = 0;
  v_exc = 0;
  v124 = v31;
  goto L33;
L11: ;
  v32 = (struct S10_class_std___Rb_tree*)(&(*a0).f1.f0.f0.e[(s64)((s64)((u64)2ULL))].f0);
  v33 = _ZNSt8_Rb_treeISt10shared_ptrIN14OpenVolumeMesh19PropertyStorageBaseEES3_St9_IdentityIS3_ESt4lessIS3_ESaIS3_EE16_M_insert_uniqueIRKS3_EESt4pairISt17_Rb_tree_iteratorIS3_EbEOT_(v32, v0);
  if (v_exc) {
    goto L10;
  }
  goto L23;
L12: ;
  v34 = (struct S26_class_std__map*)(&(*a0).f1.f0.f0.e[(s64)((s64)((u64)2ULL))]);
  v35 = (u8*)(&(*v34).f0.f0.f0.f0.f0);
  v36 = (u8*)&(*a0).f1.f0.f0.e[2].f0.f0.f1.f0.f1;
  v37 = (struct S35_struct_std___Rb_tree_node_84**)&(*a0).f1.f0.f0.e[2].f0.f0.f1.f0.f1;
  v38 = (u8*)&(*a0).f1.f0.f0.e[2].f0.f0.f1.f0.f0;
  v39 = (struct S11_struct_std___Rb_tree_node_base*)&(*a0).f1.f0.f0.e[2].f0.f0.f1.f0;
  v40 = *v37;
  v41 = ((u8*)v40 == (u8*)((struct S35_struct_std___Rb_tree_node_84*)0));
  if (v41) {
    v94_t = v39;
    v95_t = v39;
    v94 = v94_t;
    v95 = v95_t;
    goto L22;
  } else {
    goto L13;
  }
L13: ;
  v42 = *v12;
  v43_t = v40;
  v44_t = v39;
  v43 = v43_t;
  v44 = v44_t;
  goto L14;
L14: ;
  v45 = (struct S67_struct___gnu_cxx____aligned_membuf_85*)(&(*v43).f1);
  v46 = (struct S16_class_OpenVolumeMesh__PropertyStorageBas**)v45;
  v47 = *v46;
  v48 = v_plt((u8*)v47, (u8*)v42);
  if (v48) {
    goto L15;
  } else {
    goto L16;
  }
L15: ;
  v49 = (struct S11_struct_std___Rb_tree_node_base**)(&(*v43).f0.f3);
  v89_t = v44;
  v90_t = v49;
  v89 = v89_t;
  v90 = v90_t;
  goto L21;
L16: ;
  v50 = v_plt((u8*)v42, (u8*)v47);
  v51 = (struct S11_struct_std___Rb_tree_node_base*)(&(*v43).f0);
  v52 = (struct S11_struct_std___Rb_tree_node_base**)(&(*v43).f0.f2);
  if (v50) {
    v89_t = v51;
    v90_t = v52;
    v89 = v89_t;
    v90 = v90_t;
    goto L21;
  } else {
    goto L17;
  }
L17: ;
  v53 = (struct S35_struct_std___Rb_tree_node_84**)&(*v43).f0.f2;
  v54 = *v53;
  v55 = (struct S11_struct_std___Rb_tree_node_base**)(&(*v43).f0.f3);
  v56 = (struct S35_struct_std___Rb_tree_node_84**)&(*v43).f0.f3;
  v57 = *v56;
  v58 = ((u8*)v54 == (u8*)((struct S35_struct_std___Rb_tree_node_84*)0));
  if (v58) {
    v73 = v51;
    goto L19;
  } else {
    v59_t = v54;
    v60_t = v51;
    v59 = v59_t;
    v60 = v60_t;
    goto L18;
  }
L18: ;
  v61 = (struct S67_struct___gnu_cxx____aligned_membuf_85*)(&(*v59).f1);
  v62 = (struct S16_class_OpenVolumeMesh__PropertyStorageBas**)v61;
  v63 = *v62;
  v64 = v_plt((u8*)v63, (u8*)v42);
  v65 = (struct S11_struct_std___Rb_tree_node_base**)(&(*v59).f0.f3);
  v66 = (struct S11_struct_std___Rb_tree_node_base*)(&(*v59).f0);
  v67 = (struct S11_struct_std___Rb_tree_node_base**)(&(*v59).f0.f2);
  v68 = (v64 ? v60 : v66);
  v69 = (v64 ? v65 : v67);
  v70 = (struct S35_struct_std___Rb_tree_node_84**)v69;
  v71 = *v70;
  v72 = ((u8*)v71 == (u8*)((struct S35_struct_std___Rb_tree_node_84*)0));
  if (v72) {
    v73 = v68;
    goto L19;
  } else {
    v59_t = v71;
    v60_t = v68;
    v59 = v59_t;
    v60 = v60_t;
    goto L18;
  }
L19: ;
  v74 = ((u8*)v57 == (u8*)((struct S35_struct_std___Rb_tree_node_84*)0));
  if (v74) {
    v94_t = v73;
    v95_t = v44;
    v94 = v94_t;
    v95 = v95_t;
    goto L22;
  } else {
    v75_t = v57;
    v76_t = v44;
    v75 = v75_t;
    v76 = v76_t;
    goto L20;
  }
L20: ;
  v77 = (struct S67_struct___gnu_cxx____aligned_membuf_85*)(&(*v75).f1);
  v78 = (struct S16_class_OpenVolumeMesh__PropertyStorageBas**)v77;
  v79 = *v78;
  v80 = v_plt((u8*)v42, (u8*)v79);
  v81 = (struct S11_struct_std___Rb_tree_node_base*)(&(*v75).f0);
  v82 = (struct S11_struct_std___Rb_tree_node_base**)(&(*v75).f0.f2);
  v83 = (struct S11_struct_std___Rb_tree_node_base**)(&(*v75).f0.f3);
  v84 = (v80 ? v81 : v76);
  v85 = (v80 ? v82 : v83);
  v86 = (struct S35_struct_std___Rb_tree_node_84**)v85;
  v87 = *v86;
  v88 = ((u8*)v87 == (u8*)((struct S35_struct_std___Rb_tree_node_84*)0));
  if (v88) {
    v94_t = v73;
    v95_t = v84;
    v94 = v94_t;
    v95 = v95_t;
    goto L22;
  } else {
    v75_t = v87;
    v76_t = v84;
    v75 = v75_t;
    v76 = v76_t;
    goto L20;
  }
L21: ;
  v91 = (struct S35_struct_std___Rb_tree_node_84**)v90;
  v92 = *v91;
  v93 = ((u8*)v92 == (u8*)((struct S35_struct_std___Rb_tree_node_84*)0));
  if (v93) {
    v94_t = v89;
    v95_t = v89;
    v94 = v94_t;
    v95 = v95_t;
    goto L22;
  } else {
    v43_t = v92;
    v44_t = v89;
    v43 = v43_t;
    v44 = v44_t;
    goto L14;
  }
L22: ;
  v96 = (struct S10_class_std___Rb_tree*)(&(*v34).f0);
  _ZNSt8_Rb_treeISt10shared_ptrIN14OpenVolumeMesh19PropertyStorageBaseEES3_St9_IdentityIS3_ESt4lessIS3_ESaIS3_EE12_M_erase_auxESt23_Rb_tree_const_iteratorIS3_ESB_(v96, v94, v95);
  if (v_exc) {
    goto L10;
  }
  goto L23;
L23: ;
  v97 = (struct S16_class_OpenVolumeMesh__PropertyStorageBas**)(&(*v0).f0.f0);
  v98 = *v97;
  v99 = ((u8)(a2));
  v100 = (u8*)(&(*v98).f5);
  *v100 = v99;
  v101 = (struct S13_class_std___Sp_counted_base**)(&(*v0).f0.f1.f0);
  v102 = *v101;
  v103 = ((u8*)v102 == (u8*)((struct S13_class_std___Sp_counted_base*)0));
  if (v103) {
    goto L31;
  } else {
    goto L24;
  }
L24: ;
  v104 = (u32*)(&(*v102).f1);
  v105 = (u64*)v104;
  v106 = (((u64)(*v102).f1 << 0) | ((u64)(*v102).f2 << 32));
  v107 = (v106 == ((u64)4294967297ULL));
  if (v107) {
    goto L25;
  } else {
    goto L26;
  }
L25: ;
  *v104 = ((u32)0ULL);
  v108 = (u32*)(&(*v102).f2);
  *v108 = ((u32)0ULL);
  v109 = (fnptr_t**)&(*v102).f0;
  v110 = *v109;
  v111 = (fnptr_t*)(v110 + (s64)((s64)((u64)2ULL)));
  v112 = *v111;
  ((FT0)v112)(v102);
  v113 = *v109;
  v114 = (fnptr_t*)(v113 + (s64)((s64)((u64)3ULL)));
  v115 = *v114;
  ((FT0)v115)(v102);
  goto L31;
L26: ;
  v116 = *(&__libc_single_threaded);
  v117 = (v116 == ((u8)0ULL));
  if (v117) {
    goto L28;
  } else {
    goto L27;
  }
L27: ;
  v118 = *v104;
  v119 = ((u32)(v118 + ((u32)4294967295ULL)));
  *v104 = v119;
  v122 = v118;
  goto L29;
L28: ;
  v120 = *v104;
  v121 = ((u32)(v120 + ((u32)4294967295ULL)));
  *v104 = v121;
  v122 = v120;
  goto L29;
L29: ;
  v123 = (v122 == ((u32)1ULL));
  if (v123) {
    goto L30;
  } else {
    goto L31;
  }
L30: ;
  _ZNSt16_Sp_counted_baseILN9__gnu_cxx12_Lock_policyE2EE24_M_release_last_use_coldEv(v102);
  goto L31;
L31: ;
  goto L32;
L32: ;
  return;
L33: ;
  v125 = (struct S34_class_std____weak_ptr*)(&(*v0).f0);
  _ZNSt12__shared_ptrIN14OpenVolumeMesh19PropertyStorageBaseELN9__gnu_cxx12_Lock_policyE2EED2Ev(v125);
  v_exc = 1; return;
L34: ;
  __CPROVER_assume(0);
}

void _ZNK14OpenVolumeMesh15ResourceManager22internal_find_propertyIjNS_6Entity8HalfEdgeEEESt8optionalINS_11PropertyPtrIT_T0_EEERKNSt7__cxx1112basic_stringIcSt11char_traitsIcESaIcEEE(struct S57_class_std__optional_433* a0, struct S52_class_OpenVolumeMesh__ResourceManager* a1, struct S27_class_std____cxx11__basic_string* a2) {
  struct S27_class_std____cxx11__basic_string* v0; struct S27_class_std____cxx11__basic_string v0_m;
  struct S44_class_OpenVolumeMesh__PropertyPtr_431* v1; struct S44_class_OpenVolumeMesh__PropertyPtr_431 v1_m;
  u64* v2;
  u64 v3;
  u1 v4;
  u8* v5;
  u8* v6;
  u8* v7;
  u8* v8;
  struct S11_struct_std___Rb_tree_node_base** v9;
  struct S11_struct_std___Rb_tree_node_base* v10;
  u8* v11;
  struct S11_struct_std___Rb_tree_node_base* v12;
  u1 v13;
  u64 v14;
  u8** v15;
  u8* v16;
  u64* v17;
  u64 v18;
  u8** v19;
  u8* v20;
  struct S11_struct_std___Rb_tree_node_base* v21; struct S11_struct_std___Rb_tree_node_base* v21_t;
  struct S11_struct_std___Rb_tree_node_base* v22;
  struct S16_class_OpenVolumeMesh__PropertyStorageBas** v23;
  struct S16_class_OpenVolumeMesh__PropertyStorageBas* v24;
  u8* v25;
  u8 v26;
  u1 v27;
  u64* v28;
  u64 v29;
  u1 v30;
  u1 v31;
  u8** v32;
  u8* v33;
  u32 v34;
  u1 v35;
  u64* v36;
  u64 v37;
  u1 v38;
  u1 v39;
  u8** v40;
  u8* v41;
  u32 v42;
  u1 v43;
  u8* v44;
  fnptr_t** v45;
  struct S38_class_OpenVolumeMesh__PropertyStorageT_3** v46;
  struct S38_class_OpenVolumeMesh__PropertyStorageT_3** v47;
  struct S38_class_OpenVolumeMesh__PropertyStorageT_3* v48;
  struct S13_class_std___Sp_counted_base** v49;
  struct S13_class_std___Sp_counted_base** v50;
  struct S13_class_std___Sp_counted_base* v51;
  u1 v52;
  u32* v53;
  u8 v54;
  u1 v55;
  u32 v56;
  u32 v57;
  u32 v58;
  u32 v59;
  fnptr_t** v60;
  u8* v61;
  fnptr_t** v62;
  struct S13_class_std___Sp_counted_base* v63;
  u1 v64;
  u32* v65;
  u64* v66;
  u64 v67;
  u1 v68;
  u32* v69;
  fnptr_t** v70;
  fnptr_t* v71;
  fnptr_t* v72;
  fnptr_t v73;
  fnptr_t* v74;
  fnptr_t* v75;
  fnptr_t v76;
  u8 v77;
  u1 v78;
  u32 v79;
  u32 v80;
  u32 v81;
  u32 v82;
  u32 v83; u32 v83_t;
  u1 v84;
  struct S63 v85;
  u8** v86;
  u8* v87;
  struct S66_union_anon* v88;
  u8* v89;
  u1 v90;
  struct S11_struct_std___Rb_tree_node_base* v91;
  u1 v92;
  u8* v93;
  u8** v94;
  u8* v95;
  struct S66_union_anon* v96;
  u8* v97;
  u1 v98;
L0: ;
  v0 = &v0_m;
  v1 = &v1_m;
  v2 = (u64*)(&(*a2).f1);
  v3 = *v2;
  v4 = (v3 == ((u64)0ULL));
  if (v4) {
    goto L1;
  } else {
    goto L2;
  }
L1: ;
  v5 = (u8*)(&(*a0).f0.f0.f0.f0.f1);
  *v5 = ((u8)0ULL);
  goto L33;
L2: ;
  v6 = (u8*)v0;
  _ZN14OpenVolumeMesh6detail18internal_type_nameB5cxx11ERKSt9type_info(v0, ((struct S48_class_std__type_info*)(&_ZTIj)));
  if (v_exc) return;
  v7 = (u8*)(&(*a1).f2.f0.f0.e[(s64)((s64)((u64)2ULL))].f1.f0.f0.f0.f0.f0);
  v8 = (u8*)&(*a1).f2.f0.f0.e[2].f1.f0.f0.f1.f0.f2;
  v9 = (struct S11_struct_std___Rb_tree_node_base**)&(*a1).f2.f0.f0.e[2].f1.f0.f0.f1.f0.f2;
  v10 = *v9;
  v11 = (u8*)&(*a1).f2.f0.f0.e[2].f1.f0.f0.f1.f0.f0;
  v12 = (struct S11_struct_std___Rb_tree_node_base*)&(*a1).f2.f0.f0.e[2].f1.f0.f0.f1.f0;
  v13 = ((u8*)v10 == (u8*)v12);
  if (v13) {
    goto L29;
  } else {
    goto L3;
  }
L3: ;
  v14 = *v2;
  v15 = (u8**)(&(*a2).f0.f0);
  v16 = *v15;
  v17 = (u64*)(&(*v0).f1);
  v18 = *v17;
  v19 = (u8**)(&(*v0).f0.f0);
  v20 = *v19;
  v21 = v10;
  goto L4;
L4: ;
  v22 = (struct S11_struct_std___Rb_tree_node_base*)(v21 + (s64)((s64)((u64)1ULL)));
  v23 = (struct S16_class_OpenVolumeMesh__PropertyStorageBas**)v22;
  v24 = *v23;
  v25 = (u8*)(&(*v24).f6);
  v26 = *v25;
  v27 = (v26 == ((u8)0ULL));
  if (v27) {
    goto L26;
  } else {
    goto L5;
  }
L5: ;
  v28 = (u64*)(&(*v24).f2.f1);
  v29 = *v28;
  v30 = (v29 == v14);
  if (v30) {
    goto L6;
  } else {
    goto L26;
  }
L6: ;
  v31 = (v29 == ((u64)0ULL));
  if (v31) {
    goto L8;
  } else {
    goto L7;
  }
L7: ;
  v32 = (u8**)(&(*v24).f2.f0.f0);
  v33 = *v32;
  v34 = bcmp(v33, v16, v29);
  v35 = (v34 == ((u32)0ULL));
  if (v35) {
    goto L8;
  } else {
    goto L26;
  }
L8: ;
  v36 = (u64*)(&(*v24).f3.f1);
  v37 = *v36;
  v38 = (v37 == v18);
  if (v38) {
    goto L9;
  } else {
    goto L26;
  }
L9: ;
  v39 = (v37 == ((u64)0ULL));
  if (v39) {
    goto L11;
  } else {
    goto L10;
  }
L10: ;
  v40 = (u8**)(&(*v24).f3.f0.f0);
  v41 = *v40;
  v42 = bcmp(v41, v20, v37);
  v43 = (v42 == ((u32)0ULL));
  if (v43) {
    goto L11;
  } else {
    goto L26;
  }
L11: ;
  v44 = (u8*)v1;
  _ZN14OpenVolumeMesh15ResourceManager21prop_ptr_from_storageIjNS_6Entity8HalfEdgeEEENS_11PropertyPtrIT_T0_EEPNS_19PropertyStorageBaseE(v1, v24);
  if (v_exc) {
    goto L25;
  }
  goto L12;
L12: ;
  v45 = (fnptr_t**)(&(*a0).f0.f0.f0.f0.f0.f0.f0.f0.f0);
  *v45 = ((fnptr_t*)((u8**)(&(*(&_ZTVN14OpenVolumeMesh18PropertyStoragePtrIjEE)).f0.e[(s64)((s64)((u64)2ULL))])));
  v46 = (struct S38_class_OpenVolumeMesh__PropertyStorageT_3**)(&(*a0).f0.f0.f0.f0.f0.f0.f0.f0.f1.f0.f0);
  v47 = (struct S38_class_OpenVolumeMesh__PropertyStorageT_3**)(&(*v1).f0.f0.f1.f0.f0);
  v48 = *v47;
  *v46 = v48;
  v49 = (struct S13_class_std___Sp_counted_base**)(&(*a0).f0.f0.f0.f0.f0.f0.f0.f0.f1.f0.f1.f0);
  v50 = (struct S13_class_std___Sp_counted_base**)(&(*v1).f0.f0.f1.f0.f1.f0);
  v51 = *v50;
  *v49 = v51;
  v52 = ((u8*)v51 == (u8*)((struct S13_class_std___Sp_counted_base*)0));
  if (v52) {
    goto L16;
  } else {
    goto L13;
  }
L13: ;
  v53 = (u32*)(&(*v51).f1);
  v54 = *(&__libc_single_threaded);
  v55 = (v54 == ((u8)0ULL));
  if (v55) {
    goto L15;
  } else {
    goto L14;
  }
L14: ;
  v56 = *v53;
  v57 = ((u32)(v56 + ((u32)1ULL)));
  *v53 = v57;
  goto L16;
L15: ;
  v58 = *v53;
  v59 = ((u32)(v58 + ((u32)1ULL)));
  *v53 = v59;
  goto L16;
L16: ;
  *v45 = ((fnptr_t*)((u8**)(&(*(&_ZTVN14OpenVolumeMesh14HandleIndexingINS_6Entity8HalfEdgeENS_18PropertyStoragePtrIjEEEE)).f0.e[(s64)((s64)((u64)2ULL))])));
  v60 = (fnptr_t**)(&(*a0).f0.f0.f0.f0.f0.f0.f1.f0);
  *v60 = ((fnptr_t*)((u8**)(&(*(&_ZTVN14OpenVolumeMesh15BasePropertyPtrE)).f0.e[(s64)((s64)((u64)2ULL))])));
  *v45 = ((fnptr_t*)((u8**)(&(*(&_ZTVN14OpenVolumeMesh11PropertyPtrIjNS_6Entity8HalfEdgeEEE)).f0.e[(s64)((s64)((u64)2ULL))])));
  *v60 = ((fnptr_t*)((u8**)(&(*(&_ZTVN14OpenVolumeMesh11PropertyPtrIjNS_6Entity8HalfEdgeEEE)).f1.e[(s64)((s64)((u64)2ULL))])));
  v61 = (u8*)(&(*a0).f0.f0.f0.f0.f1);
  *v61 = ((u8)1ULL);
  v62 = (fnptr_t**)(&(*v1).f0.f0.f0);
  *v62 = ((fnptr_t*)((u8**)(&(*(&_ZTVN14OpenVolumeMesh18PropertyStoragePtrIjEE)).f0.e[(s64)((s64)((u64)2ULL))])));
  v63 = *v50;
  v64 = ((u8*)v63 == (u8*)((struct S13_class_std___Sp_counted_base*)0));
  if (v64) {
    goto L24;
  } else {
    goto L17;
  }
L17: ;
  v65 = (u32*)(&(*v63).f1);
  v66 = (u64*)v65;
  v67 = (((u64)(*v63).f1 << 0) | ((u64)(*v63).f2 << 32));
  v68 = (v67 == ((u64)4294967297ULL));
  if (v68) {
    goto L18;
  } else {
    goto L19;
  }
L18: ;
  *v65 = ((u32)0ULL);
  v69 = (u32*)(&(*v63).f2);
  *v69 = ((u32)0ULL);
  v70 = (fnptr_t**)&(*v63).f0;
  v71 = *v70;
  v72 = (fnptr_t*)(v71 + (s64)((s64)((u64)2ULL)));
  v73 = *v72;
  ((FT0)v73)(v63);
  v74 = *v70;
  v75 = (fnptr_t*)(v74 + (s64)((s64)((u64)3ULL)));
  v76 = *v75;
  ((FT0)v76)(v63);
  goto L24;
L19: ;
  v77 = *(&__libc_single_threaded);
  v78 = (v77 == ((u8)0ULL));
  if (v78) {
    goto L21;
  } else {
    goto L20;
  }
L20: ;
  v79 = *v65;
  v80 = ((u32)(v79 + ((u32)4294967295ULL)));
  *v65 = v80;
  v83 = v79;
  goto L22;
L21: ;
  v81 = *v65;
  v82 = ((u32)(v81 + ((u32)4294967295ULL)));
  *v65 = v82;
  v83 = v81;
  goto L22;
L22: ;
  v84 = (v83 == ((u32)1ULL));
  if (v84) {
    goto L23;
  } else {
    goto L24;
  }
L23: ;
  _ZNSt16_Sp_counted_baseILN9__gnu_cxx12_Lock_policyE2EE24_M_release_last_use_coldEv(v63);
  goto L24;
L24: ;
  goto L30;
L25: ;
  v85.f0 = v_exc_obj;
  v85.f1 = 0;
  v_exc = 0;
  v86 = (u8**)(&(*v0).f0.f0);
  v87 = *v86;
  v88 = (struct S66_union_anon*)(&(*v0).f2);
  v89 = (u8*)v88;
  v90 = ((u8*)v87 == (u8*)v89);
  if (v90) {
    goto L28;
  } else {
    goto L27;
  }
L26: ;
  v91 = _ZSt18_Rb_tree_incrementPKSt18_Rb_tree_node_base(v21);
  v92 = ((u8*)v91 == (u8*)v12);
  if (v92) {
    goto L29;
  } else {
    v21 = v91;
    goto L4;
  }
L27: ;
  _ZdlPv(v87);
  goto L28;
L28: ;
  v_exc = 1; return;
L29: ;
  v93 = (u8*)(&(*a0).f0.f0.f0.f0.f1);
  *v93 = ((u8)0ULL);
  goto L30;
L30: ;
  v94 = (u8**)(&(*v0).f0.f0);
  v95 = *v94;
  v96 = (struct S66_union_anon*)(&(*v0).f2);
  v97 = (u8*)v96;
  v98 = ((u8*)v95 == (u8*)v97);
  if (v98) {
    goto L32;
  } else {
    goto L31;
  }
L31: ;
  _ZdlPv(v95);
  goto L32;
L32: ;
  goto L33;
L33: ;
  return;
}

void _ZNK14OpenVolumeMesh15ResourceManager24internal_create_propertyIjNS_6Entity8HalfEdgeEEENS_11PropertyPtrIT_T0_EENSt7__cxx1112basic_stringIcSt11char_traitsIcESaIcEEERKS5_b(struct S44_class_OpenVolumeMesh__PropertyPtr_431* a0, struct S52_class_OpenVolumeMesh__ResourceManager* a1, struct S27_class_std____cxx11__basic_string* a2, u32* a3, u1 a4) {
  struct S0_class_std__ios_base__Init* v0; struct S0_class_std__ios_base__Init v0_m;
  u8* v1; u8 v1_m;
  struct S55_class_std__shared_ptr_348* v2; struct S55_class_std__shared_ptr_348 v2_m;
  struct S39_class_OpenVolumeMesh__detail__Tracker** v3; struct S39_class_OpenVolumeMesh__detail__Tracker* v3_m;
  u8* v4; u8 v4_m;
  u8 v5;
  u8* v6;
  u8* v7;
  struct S39_class_OpenVolumeMesh__detail__Tracker* v8;
  u8* v9;
  struct S43_class_std____shared_ptr_349* v10;
  struct S38_class_OpenVolumeMesh__PropertyStorageT_3** v11;
  struct S38_class_OpenVolumeMesh__PropertyStorageT_3* v12;
  u64 v13;
  struct S40_class_std__vector_322* v14;
  u32** v15;
  u32* v16;
  u32** v17;
  u32* v18;
  u64 v19;
  u64 v20;
  u64 v21;
  u64 v22;
  u1 v23;
  u32* v24;
  u64 v25;
  u1 v26;
  u32* v27;
  u1 v28;
  struct S38_class_OpenVolumeMesh__PropertyStorageT_3** v29;
  struct S38_class_OpenVolumeMesh__PropertyStorageT_3* v30;
  struct S13_class_std___Sp_counted_base** v31;
  struct S13_class_std___Sp_counted_base* v32;
  fnptr_t** v33;
  u8* v34;
  struct S38_class_OpenVolumeMesh__PropertyStorageT_3** v35;
  struct S13_class_std___Sp_counted_base** v36;
  fnptr_t** v37;
  struct S13_class_std___Sp_counted_base** v38;
  struct S13_class_std___Sp_counted_base* v39;
  u1 v40;
  u32* v41;
  u64* v42;
  u64 v43;
  u1 v44;
  u32* v45;
  fnptr_t** v46;
  fnptr_t* v47;
  fnptr_t* v48;
  fnptr_t v49;
  fnptr_t* v50;
  fnptr_t* v51;
  fnptr_t v52;
  u8 v53;
  u1 v54;
  u32 v55;
  u32 v56;
  u32 v57;
  u32 v58;
  u32 v59; u32 v59_t;
  u1 v60;
  struct S63 v61;
L0: ;
  v0 = &v0_m;
  v1 = &v1_m;
  v2 = &v2_m;
  v3 = &v3_m;
  v4 = &v4_m;
  v5 = ((u8)(a4));
  *v1 = v5;
  v6 = (u8*)v2;
  v7 = (u8*)v3;
  v8 = (struct S39_class_OpenVolumeMesh__detail__Tracker*)(&(*a1).f2.f0.f0.e[(s64)((s64)((u64)2ULL))]);
  *v3 = v8;
  *v4 = ((u8)2ULL);
  v9 = (u8*)(&(*v0).f0);
  v10 = (struct S43_class_std____shared_ptr_349*)(&(*v2).f0);
  _ZNSt12__shared_ptrIN14OpenVolumeMesh16PropertyStorageTIjEELN9__gnu_cxx12_Lock_policyE2EEC2ISaIvEJPNS0_6detail7TrackerINS0_19PropertyStorageBaseEEENSt7__cxx1112basic_stringIcSt11char_traitsIcESaIcEEENS0_10EntityTypeERKjRbEEESt20_Sp_alloc_shared_tagIT_EDpOT0_(v10, v0, v3, a2, v4, a3, v1);
  if (v_exc) return;
  v11 = (struct S38_class_OpenVolumeMesh__PropertyStorageT_3**)(&(*v2).f0.f0);
  v12 = *v11;
  v13 = _ZNK14OpenVolumeMesh15ResourceManager1nINS_6Entity8HalfEdgeEEEmv(a1);
  if (v_exc) {
    goto L15;
  }
  goto L1;
L1: ;
  v14 = (struct S40_class_std__vector_322*)(&(*v12).f2);
  v15 = (u32**)(&(*v12).f2.f0.f0.f0.f1);
  v16 = *v15;
  v17 = (u32**)(&(*v14).f0.f0.f0.f0);
  v18 = *v17;
  v19 = ((u64)((u64)v16));
  v20 = ((u64)((u64)v18));
  v21 = v_pdiff((u8*)v16, (u8*)v18);
  v22 = ((u64)(((s64)v21) >> ((u64)2ULL)));
  v23 = (v13 > v22);
  if (v23) {
    goto L2;
  } else {
    goto L3;
  }
L2: ;
  v24 = (u32*)(&(*v12).f3);
  v25 = ((u64)(v13 - v22));
  _ZNSt6vectorIjSaIjEE14_M_fill_insertEN9__gnu_cxx17__normal_iteratorIPjS1_EEmRKj(v14, v16, v25, v24);
  if (v_exc) {
    goto L15;
  }
  goto L6;
L3: ;
  v26 = (v13 < v22);
  if (v26) {
    goto L4;
  } else {
    goto L6;
  }
L4: ;
  v27 = (u32*)(v18 + (s64)((s64)v13));
  v28 = ((u8*)v16 == (u8*)v27);
  if (v28) {
    goto L6;
  } else {
    goto L5;
  }
L5: ;
  *v15 = v27;
  goto L6;
L6: ;
  v29 = (struct S38_class_OpenVolumeMesh__PropertyStorageT_3**)(&(*v2).f0.f0);
  v30 = *v29;
  v31 = (struct S13_class_std___Sp_counted_base**)(&(*v2).f0.f1.f0);
  v32 = *v31;
  v33 = (fnptr_t**)(&(*a0).f0.f0.f0);
  v34 = (u8*)v2;
  (*v2).f0.f0 = (struct S38_class_OpenVolumeMesh__PropertyStorageT_3*)0;
  (*v2).f0.f1.f0 = (struct S13_class_std___Sp_counted_base*)0;
  *v33 = ((fnptr_t*)((u8**)(&(*(&_ZTVN14OpenVolumeMesh18PropertyStoragePtrIjEE)).f0.e[(s64)((s64)((u64)2ULL))])));
  v35 = (struct S38_class_OpenVolumeMesh__PropertyStorageT_3**)(&(*a0).f0.f0.f1.f0.f0);
  *v35 = v30;
  v36 = (struct S13_class_std___Sp_counted_base**)(&(*a0).f0.f0.f1.f0.f1.f0);
  *v36 = v32;
  *v33 = ((fnptr_t*)((u8**)(&(*(&_ZTVN14OpenVolumeMesh14HandleIndexingINS_6Entity8HalfEdgeENS_18PropertyStoragePtrIjEEEE)).f0.e[(s64)((s64)((u64)2ULL))])));
  v37 = (fnptr_t**)(&(*a0).f1.f0);
  *v37 = ((fnptr_t*)((u8**)(&(*(&_ZTVN14OpenVolumeMesh15BasePropertyPtrE)).f0.e[(s64)((s64)((u64)2ULL))])));
  *v33 = ((fnptr_t*)((u8**)(&(*(&_ZTVN14OpenVolumeMesh11PropertyPtrIjNS_6Entity8HalfEdgeEEE)).f0.e[(s64)((s64)((u64)2ULL))])));
  *v37 = ((fnptr_t*)((u8**)(&(*(&_ZTVN14OpenVolumeMesh11PropertyPtrIjNS_6Entity8HalfEdgeEEE)).f1.e[(s64)((s64)((u64)2ULL))])));
  v38 = (struct S13_class_std___Sp_counted_base**)(&(*v2).f0.f1.f0);
  v39 = *v38;
  v40 = ((u8*)v39 == (u8*)((struct S13_class_std___Sp_counted_base*)0));
  if (v40) {
    goto L14;
  } else {
    goto L7;
  }
L7: ;
  v41 = (u32*)(&(*v39).f1);
  v42 = (u64*)v41;
  v43 = (((u64)(*v39).f1 << 0) | ((u64)(*v39).f2 << 32));
  v44 = (v43 == ((u64)4294967297ULL));
  if (v44) {
    goto L8;
  } else {
    goto L9;
  }
L8: ;
  *v41 = ((u32)0ULL);
  v45 = (u32*)(&(*v39).f2);
  *v45 = ((u32)0ULL);
  v46 = (fnptr_t**)&(*v39).f0;
  v47 = *v46;
  v48 = (fnptr_t*)(v47 + (s64)((s64)((u64)2ULL)));
  v49 = *v48;
  ((FT0)v49)(v39);
  v50 = *v46;
  v51 = (fnptr_t*)(v50 + (s64)((s64)((u64)3ULL)));
  v52 = *v51;
  ((FT0)v52)(v39);
  goto L14;
L9: ;
  v53 = *(&__libc_single_threaded);
  v54 = (v53 == ((u8)0ULL));
  if (v54) {
    goto L11;
  } else {
    goto L10;
  }
L10: ;
  v55 = *v41;
  v56 = ((u32)(v55 + ((u32)4294967295ULL)));
  *v41 = v56;
  v59 = v55;
  goto L12;
L11: ;
  v57 = *v41;
  v58 = ((u32)(v57 + ((u32)4294967295ULL)));
  *v41 = v58;
  v59 = v57;
  goto L12;
L12: ;
  v60 = (v59 == ((u32)1ULL));
  if (v60) {
    goto L13;
  } else {
    goto L14;
  }
L13: ;
  _ZNSt16_Sp_counted_baseILN9__gnu_cxx12_Lock_policyE2EE24_M_release_last_use_coldEv(v39);
  goto L14;
L14: ;
  return;
L15: ;
  v61.f0 = v_exc_obj;
  v61.f1 = 0;
  v_exc = 0;
  _ZNSt12__shared_ptrIN14OpenVolumeMesh16PropertyStorageTIjEELN9__gnu_cxx12_Lock_policyE2EED2Ev(v10);
  v_exc = 1; return;
}

void _ZNSt14_Optional_baseIN14OpenVolumeMesh11PropertyPtrIjNS0_6Entity8HalfEdgeEEELb0ELb0EED2Ev(struct S58_struct_std___Optional_base_434* a0) {
  u8* v0;
  u8 v1;
  u1 v2;
  fnptr_t** v3;
  struct S13_class_std___Sp_counted_base** v4;
  struct S13_class_std___Sp_counted_base* v5;
  u1 v6;
  u32* v7;
  u64* v8;
  u64 v9;
  u1 v10;
  u32* v11;
  fnptr_t** v12;
  fnptr_t* v13;
  fnptr_t* v14;
  fnptr_t v15;
  fnptr_t* v16;
  fnptr_t* v17;
  fnptr_t v18;
  u8 v19;
  u1 v20;
  u32 v21;
  u32 v22;
  u32 v23;
  u32 v24;
  u32 v25; u32 v25_t;
  u1 v26;
L0: ;
  v0 = (u8*)(&(*a0).f0.f0.f0.f1);
  v1 = *v0;
  v2 = (v1 == ((u8)0ULL));
  if (v2) {
    goto L9;
  } else {
    goto L1;
  }
L1: ;
  *v0 = ((u8)0ULL);
  v3 = (fnptr_t**)(&(*a0).f0.f0.f0.f0.f0.f0.f0.f0);
  *v3 = ((fnptr_t*)((u8**)(&(*(&_ZTVN14OpenVolumeMesh18PropertyStoragePtrIjEE)).f0.e[(s64)((s64)((u64)2ULL))])));
  v4 = (struct S13_class_std___Sp_counted_base**)(&(*a0).f0.f0.f0.f0.f0.f0.f0.f1.f0.f1.f0);
  v5 = *v4;
  v6 = ((u8*)v5 == (u8*)((struct S13_class_std___Sp_counted_base*)0));
  if (v6) {
    goto L9;
  } else {
    goto L2;
  }
L2: ;
  v7 = (u32*)(&(*v5).f1);
  v8 = (u64*)v7;
  v9 = (((u64)(*v5).f1 << 0) | ((u64)(*v5).f2 << 32));
  v10 = (v9 == ((u64)4294967297ULL));
  if (v10) {
    goto L3;
  } else {
    goto L4;
  }
L3: ;
  *v7 = ((u32)0ULL);
  v11 = (u32*)(&(*v5).f2);
  *v11 = ((u32)0ULL);
  v12 = (fnptr_t**)&(*v5).f0;
  v13 = *v12;
  v14 = (fnptr_t*)(v13 + (s64)((s64)((u64)2ULL)));
  v15 = *v14;
  ((FT0)v15)(v5);
  v16 = *v12;
  v17 = (fnptr_t*)(v16 + (s64)((s64)((u64)3ULL)));
  v18 = *v17;
  ((FT0)v18)(v5);
  goto L9;
L4: ;
  v19 = *(&__libc_single_threaded);
  v20 = (v19 == ((u8)0ULL));
  if (v20) {
    goto L6;
  } else {
    goto L5;
  }
L5: ;
  v21 = *v7;
  v22 = ((u32)(v21 + ((u32)4294967295ULL)));
  *v7 = v22;
  v25 = v21;
  goto L7;
L6: ;
  v23 = *v7;
  v24 = ((u32)(v23 + ((u32)4294967295ULL)));
  *v7 = v24;
  v25 = v23;
  goto L7;
L7: ;
  v26 = (v25 == ((u32)1ULL));
  if (v26) {
    goto L8;
  } else {
    goto L9;
  }
L8: ;
  _ZNSt16_Sp_counted_baseILN9__gnu_cxx12_Lock_policyE2EE24_M_release_last_use_coldEv(v5);
  goto L9;
L9: ;
  return;
}

void _ZN14OpenVolumeMesh15ResourceManager21prop_ptr_from_storageIjNS_6Entity8HalfEdgeEEENS_11PropertyPtrIT_T0_EEPNS_19PropertyStorageBaseE(struct S44_class_OpenVolumeMesh__PropertyPtr_431* a0, struct S16_class_OpenVolumeMesh__PropertyStorageBas* a1) {
  struct S13_class_std___Sp_counted_base** v0;
  struct S13_class_std___Sp_counted_base* v1;
  u1 v2;
  u32* v3;
  u32 v4;
  u32 v5; u32 v5_t;
  u1 v6;
  u32 v7;
  u32 v8;
  u1 v9;
  u32 v10;
  struct S69 v11;
  struct S69 v12;
  u1 v13;
  u32 v14;
  u8* v15;
  u64* v16;
  fnptr_t** v17;
  struct S16_class_OpenVolumeMesh__PropertyStorageBas** v18;
  struct S38_class_OpenVolumeMesh__PropertyStorageT_3** v19;
  struct S38_class_OpenVolumeMesh__PropertyStorageT_3* v20;
  u8 v21;
  u1 v22;
  u32 v23;
  u32 v24;
  u32 v25;
  u32 v26;
  u64* v27;
  u64 v28;
  u1 v29;
  u32* v30;
  fnptr_t** v31;
  fnptr_t* v32;
  fnptr_t* v33;
  fnptr_t v34;
  fnptr_t* v35;
  fnptr_t* v36;
  fnptr_t v37;
  u8 v38;
  u1 v39;
  u32 v40;
  u32 v41;
  u32 v42;
  u32 v43;
  u32 v44; u32 v44_t;
  u1 v45;
  fnptr_t** v46;
  struct S38_class_OpenVolumeMesh__PropertyStorageT_3** v47;
  struct S13_class_std___Sp_counted_base** v48;
  fnptr_t** v49;
L0: ;
  v0 = (struct S13_class_std___Sp_counted_base**)(&(*a1).f1.f0.f0.f1.f0);
  v1 = *v0;
  v2 = ((u8*)v1 == (u8*)((struct S13_class_std___Sp_counted_base*)0));
  if (v2) {
    goto L4;
  } else {
    goto L1;
  }
L1: ;
  v3 = (u32*)(&(*v1).f1);
  v4 = *v3;
  v5 = v4;
  goto L2;
L2: ;
  v6 = (v5 == ((u32)0ULL));
  if (v6) {
    goto L4;
  } else {
    goto L3;
  }
L3: ;
  v7 = ((u32)(v5 + ((u32)1ULL)));
  v8 = *v3;
  v9 = (v8 == v5);
  v10 = (v9 ? v7 : v8);
  *v3 = v10;
  v11.f0 = v8;
  v12 = v11;
  v12.f1 = v9;
  v13 = v12.f1;
  v14 = v12.f0;
  if (v13) {
    goto L5;
  } else {
    v5 = v14;
    goto L2;
  }
L4: ;
  v15 = __cxa_allocate_exception(((u64)8ULL));
  v16 = (u64*)v15;
  *v16 = ((u64)0ULL);
  v17 = (fnptr_t**)v15;
  *v17 = ((fnptr_t*)((u8**)(&(*(&_ZTVSt12bad_weak_ptr)).f0.e[(s64)((s64)((u64)2ULL))])));
  __cxa_throw(v15, ((u8*)(&_ZTISt12bad_weak_ptr)), ((u8*)((fnptr_t)_ZNSt12bad_weak_ptrD1Ev)));
  if (v_exc) return;
  __CPROVER_assume(0);
L5: ;
  v18 = (struct S16_class_OpenVolumeMesh__PropertyStorageBas**)(&(*a1).f1.f0.f0.f0);
  v19 = (struct S38_class_OpenVolumeMesh__PropertyStorageT_3**)&(*a1).f1.f0.f0.f0;
  v20 = *v19;
  v21 = *(&__libc_single_threaded);
  v22 = (v21 == ((u8)0ULL));
  if (v22) {
    goto L7;
  } else {
    goto L6;
  }
L6: ;
  v23 = *v3;
  v24 = ((u32)(v23 + ((u32)1ULL)));
  *v3 = v24;
  goto L8;
L7: ;
  v25 = *v3;
  v26 = ((u32)(v25 + ((u32)1ULL)));
  *v3 = v26;
  goto L8;
L8: ;
  v27 = (u64*)v3;
  v28 = (((u64)(*v1).f1 << 0) | ((u64)(*v1).f2 << 32));
  v29 = (v28 == ((u64)4294967297ULL));
  if (v29) {
    goto L9;
  } else {
    goto L10;
  }
L9: ;
  *v3 = ((u32)0ULL);
  v30 = (u32*)(&(*v1).f2);
  *v30 = ((u32)0ULL);
  v31 = (fnptr_t**)&(*v1).f0;
  v32 = *v31;
  v33 = (fnptr_t*)(v32 + (s64)((s64)((u64)2ULL)));
  v34 = *v33;
  ((FT0)v34)(v1);
  v35 = *v31;
  v36 = (fnptr_t*)(v35 + (s64)((s64)((u64)3ULL)));
  v37 = *v36;
  ((FT0)v37)(v1);
  goto L15;
L10: ;
  v38 = *(&__libc_single_threaded);
  v39 = (v38 == ((u8)0ULL));
  if (v39) {
    goto L12;
  } else {
    goto L11;
  }
L11: ;
  v40 = *v3;
  v41 = ((u32)(v40 + ((u32)4294967295ULL)));
  *v3 = v41;
  v44 = v40;
  goto L13;
L12: ;
  v42 = *v3;
  v43 = ((u32)(v42 + ((u32)4294967295ULL)));
  *v3 = v43;
  v44 = v42;
  goto L13;
L13: ;
  v45 = (v44 == ((u32)1ULL));
  if (v45) {
    goto L14;
  } else {
    goto L15;
  }
L14: ;
  _ZNSt16_Sp_counted_baseILN9__gnu_cxx12_Lock_policyE2EE24_M_release_last_use_coldEv(v1);
  goto L15;
L15: ;
  v46 = (fnptr_t**)(&(*a0).f0.f0.f0);
  *v46 = ((fnptr_t*)((u8**)(&(*(&_ZTVN14OpenVolumeMesh18PropertyStoragePtrIjEE)).f0.e[(s64)((s64)((u64)2ULL))])));
  v47 = (struct S38_class_OpenVolumeMesh__PropertyStorageT_3**)(&(*a0).f0.f0.f1.f0.f0);
  *v47 = v20;
  v48 = (struct S13_class_std___Sp_counted_base**)(&(*a0).f0.f0.f1.f0.f1.f0);
  *v48 = v1;
  *v46 = ((fnptr_t*)((u8**)(&(*(&_ZTVN14OpenVolumeMesh14HandleIndexingINS_6Entity8HalfEdgeENS_18PropertyStoragePtrIjEEEE)).f0.e[(s64)((s64)((u64)2ULL))])));
  v49 = (fnptr_t**)(&(*a0).f1.f0);
  *v49 = ((fnptr_t*)((u8**)(&(*(&_ZTVN14OpenVolumeMesh15BasePropertyPtrE)).f0.e[(s64)((s64)((u64)2ULL))])));
  *v46 = ((fnptr_t*)((u8**)(&(*(&_ZTVN14OpenVolumeMesh11PropertyPtrIjNS_6Entity8HalfEdgeEEE)).f0.e[(s64)((s64)((u64)2ULL))])));
  *v49 = ((fnptr_t*)((u8**)(&(*(&_ZTVN14OpenVolumeMesh11PropertyPtrIjNS_6Entity8HalfEdgeEEE)).f1.e[(s64)((s64)((u64)2ULL))])));
  return;
}

void _ZN14OpenVolumeMesh15ResourceManager16request_propertyIjNS_6Entity4EdgeEEENS_11PropertyPtrIT_T0_EERKNSt7__cxx1112basic_stringIcSt11char_traitsIcESaIcEEERKS5_(struct S44_class_OpenVolumeMesh__PropertyPtr_431* a0, struct S52_class_OpenVolumeMesh__ResourceManager* a1, struct S27_class_std____cxx11__basic_string* a2, u32* a3) {
  u64* v0; u64 v0_m;
  struct S57_class_std__optional_433* v1; struct S57_class_std__optional_433 v1_m;
  struct S27_class_std____cxx11__basic_string* v2; struct S27_class_std____cxx11__basic_string v2_m;
  u8* v3;
  u8* v4;
  u8 v5;
  u1 v6;
  fnptr_t** v7;
  struct S38_class_OpenVolumeMesh__PropertyStorageT_3** v8;
  struct S38_class_OpenVolumeMesh__PropertyStorageT_3** v9;
  struct S38_class_OpenVolumeMesh__PropertyStorageT_3* v10;
  struct S13_class_std___Sp_counted_base** v11;
  struct S13_class_std___Sp_counted_base** v12;
  struct S13_class_std___Sp_counted_base* v13;
  u1 v14;
  u32* v15;
  u8 v16;
  u1 v17;
  u32 v18;
  u32 v19;
  u32 v20;
  u32 v21;
  fnptr_t** v22;
  u64* v23;
  u64 v24;
  u1 v25;
  struct S66_union_anon* v26;
  struct S66_union_anon** v27;
  u8** v28;
  u8* v29;
  u8* v30;
  u1 v31;
  u8* v32;
  u8** v33;
  u64 v34;
  u64* v35;
  u8** v36;
  u8* v37;
  u8 v38;
  u64 v39;
  u64* v40;
  u8* v41;
  u8* v42;
  u8* v43;
  u8* v44;
  u1 v45;
  struct S63 v46;
  struct S63 v47;
  u8* v48;
  u8* v49;
  u1 v50;
  struct S63 v51; struct S63 v51_t;
  struct S58_struct_std___Optional_base_434* v52;
  u8* v53;
  u8 v54;
  u1 v55;
  fnptr_t** v56;
  struct S13_class_std___Sp_counted_base** v57;
  struct S13_class_std___Sp_counted_base* v58;
  u1 v59;
  u32* v60;
  u64* v61;
  u64 v62;
  u1 v63;
  u32* v64;
  fnptr_t** v65;
  fnptr_t* v66;
  fnptr_t* v67;
  fnptr_t v68;
  fnptr_t* v69;
  fnptr_t* v70;
  fnptr_t v71;
  u8 v72;
  u1 v73;
  u32 v74;
  u32 v75;
  u32 v76;
  u32 v77;
  u32 v78; u32 v78_t;
  u1 v79;
L0: ;
  v0 = &v0_m;
  v1 = &v1_m;
  v2 = &v2_m;
  v3 = (u8*)v1;
  _ZNK14OpenVolumeMesh15ResourceManager22internal_find_propertyIjNS_6Entity4EdgeEEESt8optionalINS_11PropertyPtrIT_T0_EEERKNSt7__cxx1112basic_stringIcSt11char_traitsIcESaIcEEE(v1, a1, a2);
  if (v_exc) return;
  v4 = (u8*)(&(*v1).f0.f0.f0.f0.f1);
  v5 = *v4;
  v6 = (v5 == ((u8)0ULL));
  if (v6) {
    goto L6;
  } else {
    goto L1;
  }
L1: ;
  v7 = (fnptr_t**)(&(*a0).f0.f0.f0);
  *v7 = ((fnptr_t*)((u8**)(&(*(&_ZTVN14OpenVolumeMesh18PropertyStoragePtrIjEE)).f0.e[(s64)((s64)((u64)2ULL))])));
  v8 = (struct S38_class_OpenVolumeMesh__PropertyStorageT_3**)(&(*a0).f0.f0.f1.f0.f0);
  v9 = (struct S38_class_OpenVolumeMesh__PropertyStorageT_3**)(&(*v1).f0.f0.f0.f0.f0.f0.f0.f0.f1.f0.f0);
  v10 = *v9;
  *v8 = v10;
  v11 = (struct S13_class_std___Sp_counted_base**)(&(*a0).f0.f0.f1.f0.f1.f0);
  v12 = (struct S13_class_std___Sp_counted_base**)(&(*v1).f0.f0.f0.f0.f0.f0.f0.f0.f1.f0.f1.f0);
  v13 = *v12;
  *v11 = v13;
  v14 = ((u8*)v13 == (u8*)((struct S13_class_std___Sp_counted_base*)0));
  if (v14) {
    goto L5;
  } else {
    goto L2;
  }
L2: ;
  v15 = (u32*)(&(*v13).f1);
  v16 = *(&__libc_single_threaded);
  v17 = (v16 == ((u8)0ULL));
  if (v17) {
    goto L4;
  } else {
    goto L3;
  }
L3: ;
  v18 = *v15;
  v19 = ((u32)(v18 + ((u32)1ULL)));
  *v15 = v19;
  goto L5;
L4: ;
  v20 = *v15;
  v21 = ((u32)(v20 + ((u32)1ULL)));
  *v15 = v21;
  goto L5;
L5: ;
  *v7 = ((fnptr_t*)((u8**)(&(*(&_ZTVN14OpenVolumeMesh14HandleIndexingINS_6Entity4EdgeENS_18PropertyStoragePtrIjEEEE)).f0.e[(s64)((s64)((u64)2ULL))])));
  v22 = (fnptr_t**)(&(*a0).f1.f0);
  *v22 = ((fnptr_t*)((u8**)(&(*(&_ZTVN14OpenVolumeMesh15BasePropertyPtrE)).f0.e[(s64)((s64)((u64)2ULL))])));
  *v7 = ((fnptr_t*)((u8**)(&(*(&_ZTVN14OpenVolumeMesh11PropertyPtrIjNS_6Entity4EdgeEEE)).f0.e[(s64)((s64)((u64)2ULL))])));
  *v22 = ((fnptr_t*)((u8**)(&(*(&_ZTVN14OpenVolumeMesh11PropertyPtrIjNS_6Entity4EdgeEEE)).f1.e[(s64)((s64)((u64)2ULL))])));
  goto L19;
L6: ;
  v23 = (u64*)(&(*a2).f1);
  v24 = *v23;
  v25 = (v24 != ((u64)0ULL));
  v26 = (struct S66_union_anon*)(&(*v2).f2);
  v27 = (struct S66_union_anon**)&(*v2).f0.f0;
  *v27 = v26;
  v28 = (u8**)(&(*a2).f0.f0);
  v29 = *v28;
  v30 = (u8*)v0;
  *v0 = v24;
  v31 = (v24 > ((u64)15ULL));
  if (v31) {
    goto L7;
  } else {
    goto L9;
  }
L7: ;
  v32 = _ZNSt7__cxx1112basic_stringIcSt11char_traitsIcESaIcEE9_M_createERmm(v2, v0, ((u64)0ULL));
  if (v_exc) {
    goto L15;
  }
  goto L8;
L8: ;
  v33 = (u8**)(&(*v2).f0.f0);
  *v33 = v32;
  v34 = *v0;
  v35 = (u64*)(&(*v2).f2.f0.e[0]);
  *v35 = v34;
  goto L9;
L9: ;
  v36 = (u8**)(&(*v2).f0.f0);
  v37 = *v36;
  switch (v24) {
  case ((u64)1ULL): {
    goto L10;
  }
  case ((u64)0ULL): {
    goto L12;
  }
  default: {
    goto L11;
  }
  }
L10: ;
  v38 = *v29;
  *v37 = v38;
  goto L12;
L11: ;
  v_memcpy((u8*)v37, (u8*)v29, (u64)v24);
  goto L12;
L12: ;
  v39 = *v0;
  v40 = (u64*)(&(*v2).f1);
  *v40 = v39;
  v41 = *v36;
  v42 = (u8*)(v41 + (s64)((s64)v39));
  *v42 = ((u8)0ULL);
  _ZNK14OpenVolumeMesh15ResourceManager24internal_create_propertyIjNS_6Entity4EdgeEEENS_11PropertyPtrIT_T0_EENSt7__cxx1112basic_stringIcSt11char_traitsIcESaIcEEERKS5_b(a0, a1, v2, a3, v25);
  if (v_exc) {
    goto L16;
  }
  goto L13;
L13: ;
  v43 = *v36;
  v44 = (u8*)v26;
  v45 = ((u8*)v43 == (u8*)v44);
  if (v45) {
    goto L19;
  } else {
    goto L14;
  }
L14: ;
  _ZdlPv(v43);
  goto L19;
L15: ;
  v46.f0 = v_exc_obj;
  v46.f1 = 0;
  v_exc = 0;
  v51 = v46;
  goto L18;
L16: ;
  v47.f0 = v_exc_obj;
  v47.f1 = 0;
  v_exc = 0;
  v48 = *v36;
  v49 = (u8*)v26;
  v50 = ((u8*)v48 == (u8*)v49);
  if (v50) {
    v51 = v47;
    goto L18;
  } else {
    goto L17;
  }
L17: ;
  _ZdlPv(v48);
  v51 = v47;
  goto L18;
L18: ;
  v52 = (struct S58_struct_std___Optional_base_434*)(&(*v1).f0);
  _ZNSt14_Optional_baseIN14OpenVolumeMesh11PropertyPtrIjNS0_6Entity4EdgeEEELb0ELb0EED2Ev(v52);
  v_exc = 1; return;
L19: ;
  v53 = (u8*)(&(*v1).f0.f0.f0.f0.f1);
  v54 = *v53;
  v55 = (v54 == ((u8)0ULL));
  if (v55) {
    goto L28;
  } else {
    goto L20;
  }
L20: ;
  *v53 = ((u8)0ULL);
  v56 = (fnptr_t**)(&(*v1).f0.f0.f0.f0.f0.f0.f0.f0.f0);
  *v56 = ((fnptr_t*)((u8**)(&(*(&_ZTVN14OpenVolumeMesh18PropertyStoragePtrIjEE)).f0.e[(s64)((s64)((u64)2ULL))])));
  v57 = (struct S13_class_std___Sp_counted_base**)(&(*v1).f0.f0.f0.f0.f0.f0.f0.f0.f1.f0.f1.f0);
  v58 = *v57;
  v59 = ((u8*)v58 == (u8*)((struct S13_class_std___Sp_counted_base*)0));
  if (v59) {
    goto L28;
  } else {
    goto L21;
  }
L21: ;
  v60 = (u32*)(&(*v58).f1);
  v61 = (u64*)v60;
  v62 = (((u64)(*v58).f1 << 0) | ((u64)(*v58).f2 << 32));
  v63 = (v62 == ((u64)4294967297ULL));
  if (v63) {
    goto L22;
  } else {
    goto L23;
  }
L22: ;
  *v60 = ((u32)0ULL);
  v64 = (u32*)(&(*v58).f2);
  *v64 = ((u32)0ULL);
  v65 = (fnptr_t**)&(*v58).f0;
  v66 = *v65;
  v67 = (fnptr_t*)(v66 + (s64)((s64)((u64)2ULL)));
  v68 = *v67;
  ((FT0)v68)(v58);
  v69 = *v65;
  v70 = (fnptr_t*)(v69 + (s64)((s64)((u64)3ULL)));
  v71 = *v70;
  ((FT0)v71)(v58);
  goto L28;
L23: ;
  v72 = *(&__libc_single_threaded);
  v73 = (v72 == ((u8)0ULL));
  if (v73) {
    goto L25;
  } else {
    goto L24;
  }
L24: ;
  v74 = *v60;
  v75 = ((u32)(v74 + ((u32)4294967295ULL)));
  *v60 = v75;
  v78 = v74;
  goto L26;
L25: ;
  v76 = *v60;
  v77 = ((u32)(v76 + ((u32)4294967295ULL)));
  *v60 = v77;
  v78 = v76;
  goto L26;
L26: ;
  v79 = (v78 == ((u32)1ULL));
  if (v79) {
    goto L27;
  } else {
    goto L28;
  }
L27: ;
  _ZNSt16_Sp_counted_baseILN9__gnu_cxx12_Lock_policyE2EE24_M_release_last_use_coldEv(v58);
  goto L28;
L28: ;
  return;
}

void _ZN14OpenVolumeMesh15ResourceManager14set_persistentIjNS_6Entity4EdgeEEEvRNS_11PropertyPtrIT_T0_EEb(struct S52_class_OpenVolumeMesh__ResourceManager* a0, struct S44_class_OpenVolumeMesh__PropertyPtr_431* a1, u1 a2) {
  struct S33_class_std__weak_ptr* v0; struct S33_class_std__weak_ptr v0_m;
  struct S38_class_OpenVolumeMesh__PropertyStorageT_3** v1;
  struct S16_class_OpenVolumeMesh__PropertyStorageBas** v2;
  struct S16_class_OpenVolumeMesh__PropertyStorageBas* v3;
  u8* v4;
  u8 v5;
  u1 v6;
  u1 v7;
  u8* v8;
  struct S55_class_std__shared_ptr_348* v9;
  struct S16_class_OpenVolumeMesh__PropertyStorageBas** v10;
  struct S16_class_OpenVolumeMesh__PropertyStorageBas* v11;
  struct S16_class_OpenVolumeMesh__PropertyStorageBas** v12;
  struct S13_class_std___Sp_counted_base** v13;
  struct S13_class_std___Sp_counted_base** v14;
  struct S13_class_std___Sp_counted_base* v15;
  u1 v16;
  u32* v17;
  u8 v18;
  u1 v19;
  u32 v20;
  u32 v21;
  u32 v22;
  u32 v23;
  struct S16_class_OpenVolumeMesh__PropertyStorageBas* v24;
  u8* v25;
  u8 v26;
  u1 v27;
  u8* v28;
  struct S20_class_std__runtime_error* v29;
  struct S63 v30;
  struct S63 v31;
  struct S10_class_std___Rb_tree* v32;
  struct S23 v33;
  struct S26_class_std__map* v34;
  u8* v35;
  u8* v36;
  struct S35_struct_std___Rb_tree_node_84** v37;
  u8* v38;
  struct S11_struct_std___Rb_tree_node_base* v39;
  struct S35_struct_std___Rb_tree_node_84* v40;
  u1 v41;
  struct S16_class_OpenVolumeMesh__PropertyStorageBas* v42;
  struct S35_struct_std___Rb_tree_node_84* v43; struct S35_struct_std___Rb_tree_node_84* v43_t;
  struct S11_struct_std___Rb_tree_node_base* v44; struct S11_struct_std___Rb_tree_node_base* v44_t;
  struct S67_struct___gnu_cxx____aligned_membuf_85* v45;
  struct S16_class_OpenVolumeMesh__PropertyStorageBas** v46;
  struct S16_class_OpenVolumeMesh__PropertyStorageBas* v47;
  u1 v48;
  struct S11_struct_std___Rb_tree_node_base** v49;
  u1 v50;
  struct S11_struct_std___Rb_tree_node_base* v51;
  struct S11_struct_std___Rb_tree_node_base** v52;
  struct S35_struct_std___Rb_tree_node_84** v53;
  struct S35_struct_std___Rb_tree_node_84* v54;
  struct S11_struct_std___Rb_tree_node_base** v55;
  struct S35_struct_std___Rb_tree_node_84** v56;
  struct S35_struct_std___Rb_tree_node_84* v57;
  u1 v58;
  struct S35_struct_std___Rb_tree_node_84* v59; struct S35_struct_std___Rb_tree_node_84* v59_t;
  struct S11_struct_std___Rb_tree_node_base* v60; struct S11_struct_std___Rb_tree_node_base* v60_t;
  struct S67_struct___gnu_cxx____aligned_membuf_85* v61;
  struct S16_class_OpenVolumeMesh__PropertyStorageBas** v62;
  struct S16_class_OpenVolumeMesh__PropertyStorageBas* v63;
  u1 v64;
  struct S11_struct_std___Rb_tree_node_base** v65;
  struct S11_struct_std___Rb_tree_node_base* v66;
  struct S11_struct_std___Rb_tree_node_base** v67;
  struct S11_struct_std___Rb_tree_node_base* v68;
  struct S11_struct_std___Rb_tree_node_base** v69;
  struct S35_struct_std___Rb_tree_node_84** v70;
  struct S35_struct_std___Rb_tree_node_84* v71;
  u1 v72;
  struct S11_struct_std___Rb_tree_node_base* v73; struct S11_struct_std___Rb_tree_node_base* v73_t;
  u1 v74;
  struct S35_struct_std___Rb_tree_node_84* v75; struct S35_struct_std___Rb_tree_node_84* v75_t;
  struct S11_struct_std___Rb_tree_node_base* v76; struct S11_struct_std___Rb_tree_node_base* v76_t;
  struct S67_struct___gnu_cxx____aligned_membuf_85* v77;
  struct S16_class_OpenVolumeMesh__PropertyStorageBas** v78;
  struct S16_class_OpenVolumeMesh__PropertyStorageBas* v79;
  u1 v80;
  struct S11_struct_std___Rb_tree_node_base* v81;
  struct S11_struct_std___Rb_tree_node_base** v82;
  struct S11_struct_std___Rb_tree_node_base** v83;
  struct S11_struct_std___Rb_tree_node_base* v84;
  struct S11_struct_std___Rb_tree_node_base** v85;
  struct S35_struct_std___Rb_tree_node_84** v86;
  struct S35_struct_std___Rb_tree_node_84* v87;
  u1 v88;
  struct S11_struct_std___Rb_tree_node_base* v89; struct S11_struct_std___Rb_tree_node_base* v89_t;
  struct S11_struct_std___Rb_tree_node_base** v90; struct S11_struct_std___Rb_tree_node_base** v90_t;
  struct S35_struct_std___Rb_tree_node_84** v91;
  struct S35_struct_std___Rb_tree_node_84* v92;
  u1 v93;
  struct S11_struct_std___Rb_tree_node_base* v94; struct S11_struct_std___Rb_tree_node_base* v94_t;
  struct S11_struct_std___Rb_tree_node_base* v95; struct S11_struct_std___Rb_tree_node_base* v95_t;
  struct S10_class_std___Rb_tree* v96;
  struct S16_class_OpenVolumeMesh__PropertyStorageBas** v97;
  struct S16_class_OpenVolumeMesh__PropertyStorageBas* v98;
  u8 v99;
  u8* v100;
  struct S13_class_std___Sp_counted_base** v101;
  struct S13_class_std___Sp_counted_base* v102;
  u1 v103;
  u32* v104;
  u64* v105;
  u64 v106;
  u1 v107;
  u32* v108;
  fnptr_t** v109;
  fnptr_t* v110;
  fnptr_t* v111;
  fnptr_t v112;
  fnptr_t* v113;
  fnptr_t* v114;
  fnptr_t v115;
  u8 v116;
  u1 v117;
  u32 v118;
  u32 v119;
  u32 v120;
  u32 v121;
  u32 v122; u32 v122_t;
  u1 v123;
  struct S63 v124; struct S63 v124_t;
  struct S34_class_std____weak_ptr* v125;
L0: ;
  v0 = &v0_m;
  v1 = (struct S38_class_OpenVolumeMesh__PropertyStorageT_3**)(&(*a1).f0.f0.f1.f0.f0);
  v2 = (struct S16_class_OpenVolumeMesh__PropertyStorageBas**)&(*a1).f0.f0.f1.f0.f0;
  v3 = *v2;
  v4 = (u8*)(&(*v3).f5);
  v5 = *v4;
  v6 = (v5 != ((u8)0ULL));
  v7 = ((u1)((v6 ^ a2)&1));
  if (v7) {
    goto L1;
  } else {
    goto L32;
  }
L1: ;
  v8 = (u8*)v0;
  v9 = (struct S55_class_std__shared_ptr_348*)(&(*a1).f0.f0.f1);
  v10 = (struct S16_class_OpenVolumeMesh__PropertyStorageBas**)&(*a1).f0.f0.f1.f0.f0;
  v11 = *v10;
  v12 = (struct S16_class_OpenVolumeMesh__PropertyStorageBas**)(&(*v0).f0.f0);
  *v12 = v11;
  v13 = (struct S13_class_std___Sp_counted_base**)(&(*v0).f0.f1.f0);
  v14 = (struct S13_class_std___Sp_counted_base**)(&(*a1).f0.f0.f1.f0.f1.f0);
  v15 = *v14;
  *v13 = v15;
  v16 = ((u8*)v15 == (u8*)((struct S13_class_std___Sp_counted_base*)0));
  if (v16) {
    goto L5;
  } else {
    goto L2;
  }
L2: ;
  v17 = (u32*)(&(*v15).f1);
  v18 = *(&__libc_single_threaded);
  v19 = (v18 == ((u8)0ULL));
  if (v19) {
    goto L4;
  } else {
    goto L3;
  }
L3: ;
  v20 = *v17;
  v21 = ((u32)(v20 + ((u32)1ULL)));
  *v17 = v21;
  goto L5;
L4: ;
  v22 = *v17;
  v23 = ((u32)(v22 + ((u32)1ULL)));
  *v17 = v23;
  goto L5;
L5: ;
  if (a2) {
    goto L6;
  } else {
    goto L12;
  }
L6: ;
  v24 = *v2;
  v25 = (u8*)(&(*v24).f6);
  v26 = *v25;
  v27 = (v26 == ((u8)0ULL));
  if (v27) {
    goto L7;
  } else {
    goto L11;
  }
L7: ;
  v28 = __cxa_allocate_exception(((u64)16ULL));
  v29 = (struct S20_class_std__runtime_error*)v28;
  _ZNSt13runtime_errorC1EPKc(v29, ((u8*)(&(*(&_str_4)).e[(s64)((s64)((u64)0ULL))])));
  if (v_exc) {
    goto L9;
  }
  goto L8;
L8: ;
  __cxa_throw(v28, ((u8*)(&_ZTISt13runtime_error)), ((u8*)((fnptr_t)_ZNSt13runtime_errorD1Ev)));
  if (v_exc) {
    goto L10;
  }
  goto L34;
L9: ;
  v30.f0 = v_exc_obj;
  v30.f1 = 0;
  v_exc = 0;
  __cxa_free_exception(v28);
  v124 = v30;
  goto L33;
L10: ;
  v31.f0 = v_exc_obj;
  v31.f1 = 0;
  v_exc = 0;
  v124 = v31;
  goto L33;
L11: ;
  v32 = (struct S10_class_std___Rb_tree*)(&(*a0).f1.f0.f0.e[(s64)((s64)((u64)1ULL))].f0);
  v33 = _ZNSt8_Rb_treeISt10shared_ptrIN14OpenVolumeMesh19PropertyStorageBaseEES3_St9_IdentityIS3_ESt4lessIS3_ESaIS3_EE16_M_insert_uniqueIRKS3_EESt4pairISt17_Rb_tree_iteratorIS3_EbEOT_(v32, v0);
  if (v_exc) {
    goto L10;
  }
  goto L23;
L12: ;
  v34 = (struct S26_class_std__map*)(&(*a0).f1.f0.f0.e[(s64)((s64)((u64)1ULL))]);
  v35 = (u8*)(&(*v34).f0.f0.f0.f0.f0);
  v36 = (u8*)&(*a0).f1.f0.f0.e[1].f0.f0.f1.f0.f1;
  v37 = (struct S35_struct_std___Rb_tree_node_84**)&(*a0).f1.f0.f0.e[1].f0.f0.f1.f0.f1;
  v38 = (u8*)&(*a0).f1.f0.f0.e[1].f0.f0.f1.f0.f0;
  v39 = (struct S11_struct_std___Rb_tree_node_base*)&(*a0).f1.f0.f0.e[1].f0.f0.f1.f0;
  v40 = *v37;
  v41 = ((u8*)v40 == (u8*)((struct S35_struct_std___Rb_tree_node_84*)0));
  if (v41) {
    v94_t = v39;
    v95_t = v39;
    v94 = v94_t;
    v95 = v95_t;
    goto L22;
  } else {
    goto L13;
  }
L13: ;
  v42 = *v12;
  v43_t = v40;
  v44_t = v39;
  v43 = v43_t;
  v44 = v44_t;
  goto L14;
L14: ;
  v45 = (struct S67_struct___gnu_cxx____aligned_membuf_85*)(&(*v43).f1);
  v46 = (struct S16_class_OpenVolumeMesh__PropertyStorageBas**)v45;
  v47 = *v46;
  v48 = v_plt((u8*)v47, (u8*)v42);
  if (v48) {
    goto L15;
  } else {
    goto L16;
  }
L15: ;
  v49 = (struct S11_struct_std___Rb_tree_node_base**)(&(*v43).f0.f3);
  v89_t = v44;
  v90_t = v49;
  v89 = v89_t;
  v90 = v90_t;
  goto L21;
L16: ;
  v50 = v_plt((u8*)v42, (u8*)v47);
  v51 = (struct S11_struct_std___Rb_tree_node_base*)(&(*v43).f0);
  v52 = (struct S11_struct_std___Rb_tree_node_base**)(&(*v43).f0.f2);
  if (v50) {
    v89_t = v51;
    v90_t = v52;
    v89 = v89_t;
    v90 = v90_t;
    goto L21;
  } else {
    goto L17;
  }
L17: ;
  v53 = (struct S35_struct_std___Rb_tree_node_84**)&(*v43).f0.f2;
  v54 = *v53;
  v55 = (struct S11_struct_std___Rb_tree_node_base**)(&(*v43).f0.f3);
  v56 = (struct S35_struct_std___Rb_tree_node_84**)&(*v43).f0.f3;
  v57 = *v56;
  v58 = ((u8*)v54 == (u8*)((struct S35_struct_std___Rb_tree_node_84*)0));
  if (v58) {
    v73 = v51;
    goto L19;
  } else {
    v59_t = v54;
    v60_t = v51;
    v59 = v59_t;
    v60 = v60_t;
    goto L18;
  }
L18: ;
  v61 = (struct S67_struct___gnu_cxx____aligned_membuf_85*)(&(*v59).f1);
  v62 = (struct S16_class_OpenVolumeMesh__PropertyStorageBas**)v61;
  v63 = *v62;
  v64 = v_plt((u8*)v63, (u8*)v42);
  v65 = (struct S11_struct_std___Rb_tree_node_base**)(&(*v59).f0.f3);
  v66 = (struct S11_struct_std___Rb_tree_node_base*)(&(*v59).f0);
  v67 = (struct S11_struct_std___Rb_tree_node_base**)(&(*v59).f0.f2);
  v68 = (v64 ? v60 : v66);
  v69 = (v64 ? v65 : v67);
  v70 = (struct S35_struct_std___Rb_tree_node_84**)v69;
  v71 = *v70;
  v72 = ((u8*)v71 == (u8*)((struct S35_struct_std___Rb_tree_node_84*)0));
  if (v72) {
    v73 = v68;
    goto L19;
  } else {
    v59_t = v71;
    v60_t = v68;
    v59 = v59_t;
    v60 = v60_t;
    goto L18;
  }
L19: ;
  v74 = ((u8*)v57 == (u8*)((struct S35_struct_std___Rb_tree_node_84*)0));
  if (v74) {
    v94_t = v73;
    v95_t = v44;
    v94 = v94_t;
    v95 = v95_t;
    goto L22;
  } else {
    v75_t = v57;
    v76_t = v44;
    v75 = v75_t;
    v76 = v76_t;
    goto L20;
  }
L20: ;
  v77 = (struct S67_struct___gnu_cxx____aligned_membuf_85*)(&(*v75).f1);
  v78 = (struct S16_class_OpenVolumeMesh__PropertyStorageBas**)v77;
  v79 = *v78;
  v80 = v_plt((u8*)v42, (u8*)v79);
  v81 = (struct S11_struct_std___Rb_tree_node_base*)(&(*v75).f0);
  v82 = (struct S11_struct_std___Rb_tree_node_base**)(&(*v75).f0.f2);
  v83 = (struct S11_struct_std___Rb_tree_node_base**)(&(*v75).f0.f3);
  v84 = (v80 ? v81 : v76);
  v85 = (v80 ? v82 : v83);
  v86 = (struct S35_struct_std___Rb_tree_node_84**)v85;
  v87 = *v86;
  v88 = ((u8*)v87 == (u8*)((struct S35_struct_std___Rb_tree_node_84*)0));
  if (v88) {
    v94_t = v73;
    v95_t = v84;
    v94 = v94_t;
    v95 = v95_t;
    goto L22;
  } else {
    v75_t = v87;
    v76_t = v84;
    v75 = v75_t;
    v76 = v76_t;
    goto L20;
  }
L21: ;
  v91 = (struct S35_struct_std___Rb_tree_node_84**)v90;
  v92 = *v91;
  v93 = ((u8*)v92 == (u8*)((struct S35_struct_std___Rb_tree_node_84*)0));
  if (v93) {
    v94_t = v89;
    v95_t = v89;
    v94 = v94_t;
    v95 = v95_t;
    goto L22;
  } else {
    v43_t = v92;
    v44_t = v89;
    v43 = v43_t;
    v44 = v44_t;
    goto L14;
  }
L22: ;
  v96 = (struct S10_class_std___Rb_tree*)(&(*v34).f0);
  _ZNSt8_Rb_treeISt10shared_ptrIN14OpenVolumeMesh19PropertyStorageBaseEES3_St9_IdentityIS3_ESt4lessIS3_ESaIS3_EE12_M_erase_auxESt23_Rb_tree_const_iteratorIS3_ESB_(v96, v94, v95);
  if (v_exc) {
    goto L10;
  }
  goto L23;
L23: ;
  v97 = (struct S16_class_OpenVolumeMesh__PropertyStorageBas**)(&(*v0).f0.f0);
  v98 = *v97;
  v99 = ((u8)(a2));
  v100 = (u8*)(&(*v98).f5);
  *v100 = v99;
  v101 = (struct S13_class_std___Sp_counted_base**)(&(*v0).f0.f1.f0);
  v102 = *v101;
  v103 = ((u8*)v102 == (u8*)((struct S13_class_std___Sp_counted_base*)0));
  if (v103) {
    goto L31;
  } else {
    goto L24;
  }
L24: ;
  v104 = (u32*)(&(*v102).f1);
  v105 = (u64*)v104;
  v106 = (((u64)(*v102).f1 << 0) | ((u64)(*v102).f2 << 32));
  v107 = (v106 == ((u64)4294967297ULL));
  if (v107) {
    goto L25;
  } else {
    goto L26;
  }
L25: ;
  *v104 = ((u32)0ULL);
  v108 = (u32*)(&(*v102).f2);
  *v108 = ((u32)0ULL);
  v109 = (fnptr_t**)&(*v102).f0;
  v110 = *v109;
  v111 = (fnptr_t*)(v110 + (s64)((s64)((u64)2ULL)));
  v112 = *v111;
  ((FT0)v112)(v102);
  v113 = *v109;
  v114 = (fnptr_t*)(v113 + (s64)((s64)((u64)3ULL)));
  v115 = *v114;
  ((FT0)v115)(v102);
  goto L31;
L26: ;
  v116 = *(&__libc_single_threaded);
  v117 = (v116 == ((u8)0ULL));
  if (v117) {
    goto L28;
  } else {
    goto L27;
  }
L27: ;
  v118 = *v104;
  v119 = ((u32)(v118 + ((u32)4294967295ULL)));
  *v104 = v119;
  v122 = v118;
  goto L29;
L28: ;
  v120 = *v104;
  v121 = ((u32)(v120 + ((u32)4294967295ULL)));
  *v104 = v121;
  v122 = v120;
  goto L29;
L29: ;
  v123 = (v122 == ((u32)1ULL));
  if (v123) {
    goto L30;
  } else {
    goto L31;
  }
L30: ;
  _ZNSt16_Sp_counted_baseILN9__gnu_cxx12_Lock_policyE2EE24_M_release_last_use_coldEv(v102);
  goto L31;
L31: ;
  goto L32;
L32: ;
  return;
L33: ;
  v125 = (struct S34_class_std____weak_ptr*)(&(*v0).f0);
  _ZNSt12__shared_ptrIN14OpenVolumeMesh19PropertyStorageBaseELN9__gnu_cxx12_Lock_policyE2EED2Ev(v125);
  v_exc = 1; return;
L34: ;
  __CPROVER_assume(0);
}

void _ZNK14OpenVolumeMesh15ResourceManager22internal_find_propertyIjNS_6Entity4EdgeEEESt8optionalINS_11PropertyPtrIT_T0_EEERKNSt7__cxx1112basic_stringIcSt11char_traitsIcESaIcEEE(struct S57_class_std__optional_433* a0, struct S52_class_OpenVolumeMesh__ResourceManager* a1, struct S27_class_std____cxx11__basic_string* a2) {
  struct S27_class_std____cxx11__basic_string* v0; struct S27_class_std____cxx11__basic_string v0_m;
  struct S44_class_OpenVolumeMesh__PropertyPtr_431* v1; struct S44_class_OpenVolumeMesh__PropertyPtr_431 v1_m;
  u64* v2;
  u64 v3;
  u1 v4;
  u8* v5;
  u8* v6;
  u8* v7;
  u8* v8;
  struct S11_struct_std___Rb_tree_node_base** v9;
  struct S11_struct_std___Rb_tree_node_base* v10;
  u8* v11;
  struct S11_struct_std___Rb_tree_node_base* v12;
  u1 v13;
  u64 v14;
  u8** v15;
  u8* v16;
  u64* v17;
  u64 v18;
  u8** v19;
  u8* v20;
  struct S11_struct_std___Rb_tree_node_base* v21; struct S11_struct_std___Rb_tree_node_base* v21_t;
  struct S11_struct_std___Rb_tree_node_base* v22;
  struct S16_class_OpenVolumeMesh__PropertyStorageBas** v23;
  struct S16_class_OpenVolumeMesh__PropertyStorageBas* v24;
  u8* v25;
  u8 v26;
  u1 v27;
  u64* v28;
  u64 v29;
  u1 v30;
  u1 v31;
  u8** v32;
  u8* v33;
  u32 v34;
  u1 v35;
  u64* v36;
  u64 v37;
  u1 v38;
  u1 v39;
  u8** v40;
  u8* v41;
  u32 v42;
  u1 v43;
  u8* v44;
  fnptr_t** v45;
  struct S38_class_OpenVolumeMesh__PropertyStorageT_3** v46;
  struct S38_class_OpenVolumeMesh__PropertyStorageT_3** v47;
  struct S38_class_OpenVolumeMesh__PropertyStorageT_3* v48;
  struct S13_class_std___Sp_counted_base** v49;
  struct S13_class_std___Sp_counted_base** v50;
  struct S13_class_std___Sp_counted_base* v51;
  u1 v52;
  u32* v53;
  u8 v54;
  u1 v55;
  u32 v56;
  u32 v57;
  u32 v58;
  u32 v59;
  fnptr_t** v60;
  u8* v61;
  fnptr_t** v62;
  struct S13_class_std___Sp_counted_base* v63;
  u1 v64;
  u32* v65;
  u64* v66;
  u64 v67;
  u1 v68;
  u32* v69;
  fnptr_t** v70;
  fnptr_t* v71;
  fnptr_t* v72;
  fnptr_t v73;
  fnptr_t* v74;
  fnptr_t* v75;
  fnptr_t v76;
  u8 v77;
  u1 v78;
  u32 v79;
  u32 v80;
  u32 v81;
  u32 v82;
  u32 v83; u32 v83_t;
  u1 v84;
  struct S63 v85;
  u8** v86;
  u8* v87;
  struct S66_union_anon* v88;
  u8* v89;
  u1 v90;
  struct S11_struct_std___Rb_tree_node_base* v91;
  u1 v92;
  u8* v93;
  u8** v94;
  u8* v95;
  struct S66_union_anon* v96;
  u8* v97;
  u1 v98;
L0: ;
  v0 = &v0_m;
  v1 = &v1_m;
  v2 = (u64*)(&(*a2).f1);
  v3 = *v2;
  v4 = (v3 == ((u64)0ULL));
  if (v4) {
    goto L1;
  } else {
    goto L2;
  }
L1: ;
  v5 = (u8*)(&(*a0).f0.f0.f0.f0.f1);
  *v5 = ((u8)0ULL);
  goto L33;
L2: ;
  v6 = (u8*)v0;
  _ZN14OpenVolumeMesh6detail18internal_type_nameB5cxx11ERKSt9type_info(v0, ((struct S48_class_std__type_info*)(&_ZTIj)));
  if (v_exc) return;
  v7 = (u8*)(&(*a1).f2.f0.f0.e[(s64)((s64)((u64)1ULL))].f1.f0.f0.f0.f0.f0);
  v8 = (u8*)&(*a1).f2.f0.f0.e[1].f1.f0.f0.f1.f0.f2;
  v9 = (struct S11_struct_std___Rb_tree_node_base**)&(*a1).f2.f0.f0.e[1].f1.f0.f0.f1.f0.f2;
  v10 = *v9;
  v11 = (u8*)&(*a1).f2.f0.f0.e[1].f1.f0.f0.f1.f0.f0;
  v12 = (struct S11_struct_std___Rb_tree_node_base*)&(*a1).f2.f0.f0.e[1].f1.f0.f0.f1.f0;
  v13 = ((u8*)v10 == (u8*)v12);
  if (v13) {
    goto L29;
  } else {
    goto L3;
  }
L3: ;
  v14 = *v2;
  v15 = (u8**)(&(*a2).f0.f0);
  v16 = *v15;
  v17 = (u64*)(&(*v0).f1);
  v18 = *v17;
  v19 = (u8**)(&(*v0).f0.f0);
  v20 = *v19;
  v21 = v10;
  goto L4;
L4: ;
  v22 = (struct S11_struct_std___Rb_tree_node_base*)(v21 + (s64)((s64)((u64)1ULL)));
  v23 = (struct S16_class_OpenVolumeMesh__PropertyStorageBas**)v22;
  v24 = *v23;
  v25 = (u8*)(&(*v24).f6);
  v26 = *v25;
  v27 = (v26 == ((u8)0ULL));
  if (v27) {
    goto L26;
  } else {
    goto L5;
  }
L5: ;
  v28 = (u64*)(&(*v24).f2.f1);
  v29 = *v28;
  v30 = (v29 == v14);
  if (v30) {
    goto L6;
  } else {
    goto L26;
  }
L6: ;
  v31 = (v29 == ((u64)0ULL));
  if (v31) {
    goto L8;
  } else {
    goto L7;
  }
L7: ;
  v32 = (u8**)(&(*v24).f2.f0.f0);
  v33 = *v32;
  v34 = bcmp(v33, v16, v29);
  v35 = (v34 == ((u32)0ULL));
  if (v35) {
    goto L8;
  } else {
    goto L26;
  }
L8: ;
  v36 = (u64*)(&(*v24).f3.f1);
  v37 = *v36;
  v38 = (v37 == v18);
  if (v38) {
    goto L9;
  } else {
    goto L26;
  }
L9: ;
  v39 = (v37 == ((u64)0ULL));
  if (v39) {
    goto L11;
  } else {
    goto L10;
  }
L10: ;
  v40 = (u8**)(&(*v24).f3.f0.f0);
  v41 = *v40;
  v42 = bcmp(v41, v20, v37);
  v43 = (v42 == ((u32)0ULL));
  if (v43) {
    goto L11;
  } else {
    goto L26;
  }
L11: ;
  v44 = (u8*)v1;
  _ZN14OpenVolumeMesh15ResourceManager21prop_ptr_from_storageIjNS_6Entity4EdgeEEENS_11PropertyPtrIT_T0_EEPNS_19PropertyStorageBaseE(v1, v24);
  if (v_exc) {
    goto L25;
  }
  goto L12;
L12: ;
  v45 = (fnptr_t**)(&(*a0).f0.f0.f0.f0.f0.f0.f0.f0.f0);
  *v45 = ((fnptr_t*)((u8**)(&(*(&_ZTVN14OpenVolumeMesh18PropertyStoragePtrIjEE)).f0.e[(s64)((s64)((u64)2ULL))])));
  v46 = (struct S38_class_OpenVolumeMesh__PropertyStorageT_3**)(&(*a0).f0.f0.f0.f0.f0.f0.f0.f0.f1.f0.f0);
  v47 = (struct S38_class_OpenVolumeMesh__PropertyStorageT_3**)(&(*v1).f0.f0.f1.f0.f0);
  v48 = *v47;
  *v46 = v48;
  v49 = (struct S13_class_std___Sp_counted_base**)(&(*a0).f0.f0.f0.f0.f0.f0.f0.f0.f1.f0.f1.f0);
  v50 = (struct S13_class_std___Sp_counted_base**)(&(*v1).f0.f0.f1.f0.f1.f0);
  v51 = *v50;
  *v49 = v51;
  v52 = ((u8*)v51 == (u8*)((struct S13_class_std___Sp_counted_base*)0));
  if (v52) {
    goto L16;
  } else {
    goto L13;
  }
L13: ;
  v53 = (u32*)(&(*v51).f1);
  v54 = *(&__libc_single_threaded);
  v55 = (v54 == ((u8)0ULL));
  if (v55) {
    goto L15;
  } else {
    goto L14;
  }
L14: ;
  v56 = *v53;
  v57 = ((u32)(v56 + ((u32)1ULL)));
  *v53 = v57;
  goto L16;
L15: ;
  v58 = *v53;
  v59 = ((u32)(v58 + ((u32)1ULL)));
  *v53 = v59;
  goto L16;
L16: ;
  *v45 = ((fnptr_t*)((u8**)(&(*(&_ZTVN14OpenVolumeMesh14HandleIndexingINS_6Entity4EdgeENS_18PropertyStoragePtrIjEEEE)).f0.e[(s64)((s64)((u64)2ULL))])));
  v60 = (fnptr_t**)(&(*a0).f0.f0.f0.f0.f0.f0.f1.f0);
  *v60 = ((fnptr_t*)((u8**)(&(*(&_ZTVN14OpenVolumeMesh15BasePropertyPtrE)).f0.e[(s64)((s64)((u64)2ULL))])));
  *v45 = ((fnptr_t*)((u8**)(&(*(&_ZTVN14OpenVolumeMesh11PropertyPtrIjNS_6Entity4EdgeEEE)).f0.e[(s64)((s64)((u64)2ULL))])));
  *v60 = ((fnptr_t*)((u8**)(&(*(&_ZTVN14OpenVolumeMesh11PropertyPtrIjNS_6Entity4EdgeEEE)).f1.e[(s64)((s64)((u64)2ULL))])));
  v61 = (u8*)(&(*a0).f0.f0.f0.f0.f1);
  *v61 = ((u8)1ULL);
  v62 = (fnptr_t**)(&(*v1).f0.f0.f0);
  *v62 = ((fnptr_t*)((u8**)(&(*(&_ZTVN14OpenVolumeMesh18PropertyStoragePtrIjEE)).f0.e[(s64)((s64)((u64)2ULL))])));
  v63 = *v50;
  v64 = ((u8*)v63 == (u8*)((struct S13_class_std___Sp_counted_base*)0));
  if (v64) {
    goto L24;
  } else {
    goto L17;
  }
L17: ;
  v65 = (u32*)(&(*v63).f1);
  v66 = (u64*)v65;
  v67 = (((u64)(*v63).f1 << 0) | ((u64)(*v63).f2 << 32));
  v68 = (v67 == ((u64)4294967297ULL));
  if (v68) {
    goto L18;
  } else {
    goto L19;
  }
L18: ;
  *v65 = ((u32)0ULL);
  v69 = (u32*)(&(*v63).f2);
  *v69 = ((u32)0ULL);
  v70 = (fnptr_t**)&(*v63).f0;
  v71 = *v70;
  v72 = (fnptr_t*)(v71 + (s64)((s64)((u64)2ULL)));
  v73 = *v72;
  ((FT0)v73)(v63);
  v74 = *v70;
  v75 = (fnptr_t*)(v74 + (s64)((s64)((u64)3ULL)));
  v76 = *v75;
  ((FT0)v76)(v63);
  goto L24;
L19: ;
  v77 = *(&__libc_single_threaded);
  v78 = (v77 == ((u8)0ULL));
  if (v78) {
    goto L21;
  } else {
    goto L20;
  }
L20: ;
  v79 = *v65;
  v80 = ((u32)(v79 + ((u32)4294967295ULL)));
  *v65 = v80;
  v83 = v79;
  goto L22;
L21: ;
  v81 = *v65;
  v82 = ((u32)(v81 + ((u32)4294967295ULL)));
  *v65 = v82;
  v83 = v81;
  goto L22;
L22: ;
  v84 = (v83 == ((u32)1ULL));
  if (v84) {
    goto L23;
  } else {
    goto L24;
  }
L23: ;
  _ZNSt16_Sp_counted_baseILN9__gnu_cxx12_Lock_policyE2EE24_M_release_last_use_coldEv(v63);
  goto L24;
L24: ;
  goto L30;
L25: ;
  v85.f0 = v_exc_obj;
  v85.f1 = 0;
  v_exc = 0;
  v86 = (u8**)(&(*v0).f0.f0);
  v87 = *v86;
  v88 = (struct S66_union_anon*)(&(*v0).f2);
  v89 = (u8*)v88;
  v90 = ((u8*)v87 == (u8*)v89);
  if (v90) {
    goto L28;
  } else {
    goto L27;
  }
L26: ;
  v91 = _ZSt18_Rb_tree_incrementPKSt18_Rb_tree_node_base(v21);
  v92 = ((u8*)v91 == (u8*)v12);
  if (v92) {
    goto L29;
  } else {
    v21 = v91;
    goto L4;
  }
L27: ;
  _ZdlPv(v87);
  goto L28;
L28: ;
  v_exc = 1; return;
L29: ;
  v93 = (u8*)(&(*a0).f0.f0.f0.f0.f1);
  *v93 = ((u8)0ULL);
  goto L30;
L30: ;
  v94 = (u8**)(&(*v0).f0.f0);
  v95 = *v94;
  v96 = (struct S66_union_anon*)(&(*v0).f2);
  v97 = (u8*)v96;
  v98 = ((u8*)v95 == (u8*)v97);
  if (v98) {
    goto L32;
  } else {
    goto L31;
  }
L31: ;
  _ZdlPv(v95);
  goto L32;
L32: ;
  goto L33;
L33: ;
  return;
}

void _ZNK14OpenVolumeMesh15ResourceManager24internal_create_propertyIjNS_6Entity4EdgeEEENS_11PropertyPtrIT_T0_EENSt7__cxx1112basic_stringIcSt11char_traitsIcESaIcEEERKS5_b(struct S44_class_OpenVolumeMesh__PropertyPtr_431* a0, struct S52_class_OpenVolumeMesh__ResourceManager* a1, struct S27_class_std____cxx11__basic_string* a2, u32* a3, u1 a4) {
  struct S0_class_std__ios_base__Init* v0; struct S0_class_std__ios_base__Init v0_m;
  u8* v1; u8 v1_m;
  struct S55_class_std__shared_ptr_348* v2; struct S55_class_std__shared_ptr_348 v2_m;
  struct S39_class_OpenVolumeMesh__detail__Tracker** v3; struct S39_class_OpenVolumeMesh__detail__Tracker* v3_m;
  u8* v4; u8 v4_m;
  u8 v5;
  u8* v6;
  u8* v7;
  struct S39_class_OpenVolumeMesh__detail__Tracker* v8;
  u8* v9;
  struct S43_class_std____shared_ptr_349* v10;
  struct S38_class_OpenVolumeMesh__PropertyStorageT_3** v11;
  struct S38_class_OpenVolumeMesh__PropertyStorageT_3* v12;
  u64 v13;
  struct S40_class_std__vector_322* v14;
  u32** v15;
  u32* v16;
  u32** v17;
  u32* v18;
  u64 v19;
  u64 v20;
  u64 v21;
  u64 v22;
  u1 v23;
  u32* v24;
  u64 v25;
  u1 v26;
  u32* v27;
  u1 v28;
  struct S38_class_OpenVolumeMesh__PropertyStorageT_3** v29;
  struct S38_class_OpenVolumeMesh__PropertyStorageT_3* v30;
  struct S13_class_std___Sp_counted_base** v31;
  struct S13_class_std___Sp_counted_base* v32;
  fnptr_t** v33;
  u8* v34;
  struct S38_class_OpenVolumeMesh__PropertyStorageT_3** v35;
  struct S13_class_std___Sp_counted_base** v36;
  fnptr_t** v37;
  struct S13_class_std___Sp_counted_base** v38;
  struct S13_class_std___Sp_counted_base* v39;
  u1 v40;
  u32* v41;
  u64* v42;
  u64 v43;
  u1 v44;
  u32* v45;
  fnptr_t** v46;
  fnptr_t* v47;
  fnptr_t* v48;
  fnptr_t v49;
  fnptr_t* v50;
  fnptr_t* v51;
  fnptr_t v52;
  u8 v53;
  u1 v54;
  u32 v55;
  u32 v56;
  u32 v57;
  u32 v58;
  u32 v59; u32 v59_t;
  u1 v60;
  struct S63 v61;
L0: ;
  v0 = &v0_m;
  v1 = &v1_m;
  v2 = &v2_m;
  v3 = &v3_m;
  v4 = &v4_m;
  v5 = ((u8)(a4));
  *v1 = v5;
  v6 = (u8*)v2;
  v7 = (u8*)v3;
  v8 = (struct S39_class_OpenVolumeMesh__detail__Tracker*)(&(*a1).f2.f0.f0.e[(s64)((s64)((u64)1ULL))]);
  *v3 = v8;
  *v4 = ((u8)1ULL);
  v9 = (u8*)(&(*v0).f0);
  v10 = (struct S43_class_std____shared_ptr_349*)(&(*v2).f0);
  _ZNSt12__shared_ptrIN14OpenVolumeMesh16PropertyStorageTIjEELN9__gnu_cxx12_Lock_policyE2EEC2ISaIvEJPNS0_6detail7TrackerINS0_19PropertyStorageBaseEEENSt7__cxx1112basic_stringIcSt11char_traitsIcESaIcEEENS0_10EntityTypeERKjRbEEESt20_Sp_alloc_shared_tagIT_EDpOT0_(v10, v0, v3, a2, v4, a3, v1);
  if (v_exc) return;
  v11 = (struct S38_class_OpenVolumeMesh__PropertyStorageT_3**)(&(*v2).f0.f0);
  v12 = *v11;
  v13 = _ZNK14OpenVolumeMesh15ResourceManager1nINS_6Entity4EdgeEEEmv(a1);
  if (v_exc) {
    goto L15;
  }
  goto L1;
L1: ;
  v14 = (struct S40_class_std__vector_322*)(&(*v12).f2);
  v15 = (u32**)(&(*v12).f2.f0.f0.f0.f1);
  v16 = *v15;
  v17 = (u32**)(&(*v14).f0.f0.f0.f0);
  v18 = *v17;
  v19 = ((u64)((u64)v16));
  v20 = ((u64)((u64)v18));
  v21 = v_pdiff((u8*)v16, (u8*)v18);
  v22 = ((u64)(((s64)v21) >> ((u64)2ULL)));
  v23 = (v13 > v22);
  if (v23) {
    goto L2;
  } else {
    goto L3;
  }
L2: ;
  v24 = (u32*)(&(*v12).f3);
  v25 = ((u64)(v13 - v22));
  _ZNSt6vectorIjSaIjEE14_M_fill_insertEN9__gnu_cxx17__normal_iteratorIPjS1_EEmRKj(v14, v16, v25, v24);
  if (v_exc) {
    goto L15;
  }
  goto L6;
L3: ;
  v26 = (v13 < v22);
  if (v26) {
    goto L4;
  } else {
    goto L6;
  }
L4: ;
  v27 = (u32*)(v18 + (s64)((s64)v13));
  v28 = ((u8*)v16 == (u8*)v27);
  if (v28) {
    goto L6;
  } else {
    goto L5;
  }
L5: ;
  *v15 = v27;
  goto L6;
L6: ;
  v29 = (struct S38_class_OpenVolumeMesh__PropertyStorageT_3**)(&(*v2).f0.f0);
  v30 = *v29;
  v31 = (struct S13_class_std___Sp_counted_base**)(&(*v2).f0.f1.f0);
  v32 = *v31;
  v33 = (fnptr_t**)(&(*a0).f0.f0.f0);
  v34 = (u8*)v2;
  (*v2).f0.f0 = (struct S38_class_OpenVolumeMesh__PropertyStorageT_3*)0;
  (*v2).f0.f1.f0 = (struct S13_class_std___Sp_counted_base*)0;
  *v33 = ((fnptr_t*)((u8**)(&(*(&_ZTVN14OpenVolumeMesh18PropertyStoragePtrIjEE)).f0.e[(s64)((s64)((u64)2ULL))])));
  v35 = (struct S38_class_OpenVolumeMesh__PropertyStorageT_3**)(&(*a0).f0.f0.f1.f0.f0);
  *v35 = v30;
  v36 = (struct S13_class_std___Sp_counted_base**)(&(*a0).f0.f0.f1.f0.f1.f0);
  *v36 = v32;
  *v33 = ((fnptr_t*)((u8**)(&(*(&_ZTVN14OpenVolumeMesh14HandleIndexingINS_6Entity4EdgeENS_18PropertyStoragePtrIjEEEE)).f0.e[(s64)((s64)((u64)2ULL))])));
  v37 = (fnptr_t**)(&(*a0).f1.f0);
  *v37 = ((fnptr_t*)((u8**)(&(*(&_ZTVN14OpenVolumeMesh15BasePropertyPtrE)).f0.e[(s64)((s64)((u64)2ULL))])));
  *v33 = ((fnptr_t*)((u8**)(&(*(&_ZTVN14OpenVolumeMesh11PropertyPtrIjNS_6Entity4EdgeEEE)).f0.e[(s64)((s64)((u64)2ULL))])));
  *v37 = ((fnptr_t*)((u8**)(&(*(&_ZTVN14OpenVolumeMesh11PropertyPtrIjNS_6Entity4EdgeEEE)).f1.e[(s64)((s64)((u64)2ULL))])));
  v38 = (struct S13_class_std___Sp_counted_base**)(&(*v2).f0.f1.f0);
  v39 = *v38;
  v40 = ((u8*)v39 == (u8*)((struct S13_class_std___Sp_counted_base*)0));
  if (v40) {
    goto L14;
  } else {
    goto L7;
  }
L7: ;
  v41 = (u32*)(&(*v39).f1);
  v42 = (u64*)v41;
  v43 = (((u64)(*v39).f1 << 0) | ((u64)(*v39).f2 << 32));
  v44 = (v43 == ((u64)4294967297ULL));
  if (v44) {
    goto L8;
  } else {
    goto L9;
  }
L8: ;
  *v41 = ((u32)0ULL);
  v45 = (u32*)(&(*v39).f2);
  *v45 = ((u32)0ULL);
  v46 = (fnptr_t**)&(*v39).f0;
  v47 = *v46;
  v48 = (fnptr_t*)(v47 + (s64)((s64)((u64)2ULL)));
  v49 = *v48;
  ((FT0)v49)(v39);
  v50 = *v46;
  v51 = (fnptr_t*)(v50 + (s64)((s64)((u64)3ULL)));
  v52 = *v51;
  ((FT0)v52)(v39);
  goto L14;
L9: ;
  v53 = *(&__libc_single_threaded);
  v54 = (v53 == ((u8)0ULL));
  if (v54) {
    goto L11;
  } else {
    goto L10;
  }
L10: ;
  v55 = *v41;
  v56 = ((u32)(v55 + ((u32)4294967295ULL)));
  *v41 = v56;
  v59 = v55;
  goto L12;
L11: ;
  v57 = *v41;
  v58 = ((u32)(v57 + ((u32)4294967295ULL)));
  *v41 = v58;
  v59 = v57;
  goto L12;
L12: ;
  v60 = (v59 == ((u32)1ULL));
  if (v60) {
    goto L13;
  } else {
    goto L14;
  }
L13: ;
  _ZNSt16_Sp_counted_baseILN9__gnu_cxx12_Lock_policyE2EE24_M_release_last_use_coldEv(v39);
  goto L14;
L14: ;
  return;
L15: ;
  v61.f0 = v_exc_obj;
  v61.f1 = 0;
  v_exc = 0;
  _ZNSt12__shared_ptrIN14OpenVolumeMesh16PropertyStorageTIjEELN9__gnu_cxx12_Lock_policyE2EED2Ev(v10);
  v_exc = 1; return;
}

void _ZNSt14_Optional_baseIN14OpenVolumeMesh11PropertyPtrIjNS0_6Entity4EdgeEEELb0ELb0EED2Ev(struct S58_struct_std___Optional_base_434* a0) {
  u8* v0;
  u8 v1;
  u1 v2;
  fnptr_t** v3;
  struct S13_class_std___Sp_counted_base** v4;
  struct S13_class_std___Sp_counted_base* v5;
  u1 v6;
  u32* v7;
  u64* v8;
  u64 v9;
  u1 v10;
  u32* v11;
  fnptr_t** v12;
  fnptr_t* v13;
  fnptr_t* v14;
  fnptr_t v15;
  fnptr_t* v16;
  fnptr_t* v17;
  fnptr_t v18;
  u8 v19;
  u1 v20;
  u32 v21;
  u32 v22;
  u32 v23;
  u32 v24;
  u32 v25; u32 v25_t;
  u1 v26;
L0: ;
  v0 = (u8*)(&(*a0).f0.f0.f0.f1);
  v1 = *v0;
  v2 = (v1 == ((u8)0ULL));
  if (v2) {
    goto L9;
  } else {
    goto L1;
  }
L1: ;
  *v0 = ((u8)0ULL);
  v3 = (fnptr_t**)(&(*a0).f0.f0.f0.f0.f0.f0.f0.f0);
  *v3 = ((fnptr_t*)((u8**)(&(*(&_ZTVN14OpenVolumeMesh18PropertyStoragePtrIjEE)).f0.e[(s64)((s64)((u64)2ULL))])));
  v4 = (struct S13_class_std___Sp_counted_base**)(&(*a0).f0.f0.f0.f0.f0.f0.f0.f1.f0.f1.f0);
  v5 = *v4;
  v6 = ((u8*)v5 == (u8*)((struct S13_class_std___Sp_counted_base*)0));
  if (v6) {
    goto L9;
  } else {
    goto L2;
  }
L2: ;
  v7 = (u32*)(&(*v5).f1);
  v8 = (u64*)v7;
  v9 = (((u64)(*v5).f1 << 0) | ((u64)(*v5).f2 << 32));
  v10 = (v9 == ((u64)4294967297ULL));
  if (v10) {
    goto L3;
  } else {
    goto L4;
  }
L3: ;
  *v7 = ((u32)0ULL);
  v11 = (u32*)(&(*v5).f2);
  *v11 = ((u32)0ULL);
  v12 = (fnptr_t**)&(*v5).f0;
  v13 = *v12;
  v14 = (fnptr_t*)(v13 + (s64)((s64)((u64)2ULL)));
  v15 = *v14;
  ((FT0)v15)(v5);
  v16 = *v12;
  v17 = (fnptr_t*)(v16 + (s64)((s64)((u64)3ULL)));
  v18 = *v17;
  ((FT0)v18)(v5);
  goto L9;
L4: ;
  v19 = *(&__libc_single_threaded);
  v20 = (v19 == ((u8)0ULL));
  if (v20) {
    goto L6;
  } else {
    goto L5;
  }
L5: ;
  v21 = *v7;
  v22 = ((u32)(v21 + ((u32)4294967295ULL)));
  *v7 = v22;
  v25 = v21;
  goto L7;
L6: ;
  v23 = *v7;
  v24 = ((u32)(v23 + ((u32)4294967295ULL)));
  *v7 = v24;
  v25 = v23;
  goto L7;
L7: ;
  v26 = (v25 == ((u32)1ULL));
  if (v26) {
    goto L8;
  } else {
    goto L9;
  }
L8: ;
  _ZNSt16_Sp_counted_baseILN9__gnu_cxx12_Lock_policyE2EE24_M_release_last_use_coldEv(v5);
  goto L9;
L9: ;
  return;
}

void _ZN14OpenVolumeMesh15ResourceManager21prop_ptr_from_storageIjNS_6Entity4EdgeEEENS_11PropertyPtrIT_T0_EEPNS_19PropertyStorageBaseE(struct S44_class_OpenVolumeMesh__PropertyPtr_431* a0, struct S16_class_OpenVolumeMesh__PropertyStorageBas* a1) {
  struct S13_class_std___Sp_counted_base** v0;
  struct S13_class_std___Sp_counted_base* v1;
  u1 v2;
  u32* v3;
  u32 v4;
  u32 v5; u32 v5_t;
  u1 v6;
  u32 v7;
  u32 v8;
  u1 v9;
  u32 v10;
  struct S69 v11;
  struct S69 v12;
  u1 v13;
  u32 v14;
  u8* v15;
  u64* v16;
  fnptr_t** v17;
  struct S16_class_OpenVolumeMesh__PropertyStorageBas** v18;
  struct S38_class_OpenVolumeMesh__PropertyStorageT_3** v19;
  struct S38_class_OpenVolumeMesh__PropertyStorageT_3* v20;
  u8 v21;
  u1 v22;
  u32 v23;
  u32 v24;
  u32 v25;
  u32 v26;
  u64* v27;
  u64 v28;
  u1 v29;
  u32* v30;
  fnptr_t** v31;
  fnptr_t* v32;
  fnptr_t* v33;
  fnptr_t v34;
  fnptr_t* v35;
  fnptr_t* v36;
  fnptr_t v37;
  u8 v38;
  u1 v39;
  u32 v40;
  u32 v41;
  u32 v42;
  u32 v43;
  u32 v44; u32 v44_t;
  u1 v45;
  fnptr_t** v46;
  struct S38_class_OpenVolumeMesh__PropertyStorageT_3** v47;
  struct S13_class_std___Sp_counted_base** v48;
  fnptr_t** v49;
L0: ;
  v0 = (struct S13_class_std___Sp_counted_base**)(&(*a1).f1.f0.f0.f1.f0);
  v1 = *v0;
  v2 = ((u8*)v1 == (u8*)((struct S13_class_std___Sp_counted_base*)0));
  if (v2) {
    goto L4;
  } else {
    goto L1;
  }
L1: ;
  v3 = (u32*)(&(*v1).f1);
  v4 = *v3;
  v5 = v4;
  goto L2;
L2: ;
  v6 = (v5 == ((u32)0ULL));
  if (v6) {
    goto L4;
  } else {
    goto L3;
  }
L3: ;
  v7 = ((u32)(v5 + ((u32)1ULL)));
  v8 = *v3;
  v9 = (v8 == v5);
  v10 = (v9 ? v7 : v8);
  *v3 = v10;
  v11.f0 = v8;
  v12 = v11;
  v12.f1 = v9;
  v13 = v12.f1;
  v14 = v12.f0;
  if (v13) {
    goto L5;
  } else {
    v5 = v14;
    goto L2;
  }
L4: ;
  v15 = __cxa_allocate_exception(((u64)8ULL));
  v16 = (u64*)v15;
  *v16 = ((u64)0ULL);
  v17 = (fnptr_t**)v15;
  *v17 = ((fnptr_t*)((u8**)(&(*(&_ZTVSt12bad_weak_ptr)).f0.e[(s64)((s64)((u64)2ULL))])));
  __cxa_throw(v15, ((u8*)(&_ZTISt12bad_weak_ptr)), ((u8*)((fnptr_t)_ZNSt12bad_weak_ptrD1Ev)));
  if (v_exc) return;
  __CPROVER_assume(0);
L5: ;
  v18 = (struct S16_class_OpenVolumeMesh__PropertyStorageBas**)(&(*a1).f1.f0.f0.f0);
  v19 = (struct S38_class_OpenVolumeMesh__PropertyStorageT_3**)&(*a1).f1.f0.f0.f0;
  v20 = *v19;
  v21 = *(&__libc_single_threaded);
  v22 = (v21 == ((u8)0ULL));
  if (v22) {
    goto L7;
  } else {
    goto L6;
  }
L6: ;
  v23 = *v3;
  v24 = ((u32)(v23 + ((u32)1ULL)));
  *v3 = v24;
  goto L8;
L7: ;
  v25 = *v3;
  v26 = ((u32)(v25 + ((u32)1ULL)));
  *v3 = v26;
  goto L8;
L8: ;
  v27 = (u64*)v3;
  v28 = (((u64)(*v1).f1 << 0) | ((u64)(*v1).f2 << 32));
  v29 = (v28 == ((u64)4294967297ULL));
  if (v29) {
    goto L9;
  } else {
    goto L10;
  }
L9: ;
  *v3 = ((u32)0ULL);
  v30 = (u32*)(&(*v1).f2);
  *v30 = ((u32)0ULL);
  v31 = (fnptr_t**)&(*v1).f0;
  v32 = *v31;
  v33 = (fnptr_t*)(v32 + (s64)((s64)((u64)2ULL)));
  v34 = *v33;
  ((FT0)v34)(v1);
  v35 = *v31;
  v36 = (fnptr_t*)(v35 + (s64)((s64)((u64)3ULL)));
  v37 = *v36;
  ((FT0)v37)(v1);
  goto L15;
L10: ;
  v38 = *(&__libc_single_threaded);
  v39 = (v38 == ((u8)0ULL));
  if (v39) {
    goto L12;
  } else {
    goto L11;
  }
L11: ;
  v40 = *v3;
  v41 = ((u32)(v40 + ((u32)4294967295ULL)));
  *v3 = v41;
  v44 = v40;
  goto L13;
L12: ;
  v42 = *v3;
  v43 = ((u32)(v42 + ((u32)4294967295ULL)));
  *v3 = v43;
  v44 = v42;
  goto L13;
L13: ;
  v45 = (v44 == ((u32)1ULL));
  if (v45) {
    goto L14;
  } else {
    goto L15;
  }
L14: ;
  _ZNSt16_Sp_counted_baseILN9__gnu_cxx12_Lock_policyE2EE24_M_release_last_use_coldEv(v1);
  goto L15;
L15: ;
  v46 = (fnptr_t**)(&(*a0).f0.f0.f0);
  *v46 = ((fnptr_t*)((u8**)(&(*(&_ZTVN14OpenVolumeMesh18PropertyStoragePtrIjEE)).f0.e[(s64)((s64)((u64)2ULL))])));
  v47 = (struct S38_class_OpenVolumeMesh__PropertyStorageT_3**)(&(*a0).f0.f0.f1.f0.f0);
  *v47 = v20;
  v48 = (struct S13_class_std___Sp_counted_base**)(&(*a0).f0.f0.f1.f0.f1.f0);
  *v48 = v1;
  *v46 = ((fnptr_t*)((u8**)(&(*(&_ZTVN14OpenVolumeMesh14HandleIndexingINS_6Entity4EdgeENS_18PropertyStoragePtrIjEEEE)).f0.e[(s64)((s64)((u64)2ULL))])));
  v49 = (fnptr_t**)(&(*a0).f1.f0);
  *v49 = ((fnptr_t*)((u8**)(&(*(&_ZTVN14OpenVolumeMesh15BasePropertyPtrE)).f0.e[(s64)((s64)((u64)2ULL))])));
  *v46 = ((fnptr_t*)((u8**)(&(*(&_ZTVN14OpenVolumeMesh11PropertyPtrIjNS_6Entity4EdgeEEE)).f0.e[(s64)((s64)((u64)2ULL))])));
  *v49 = ((fnptr_t*)((u8**)(&(*(&_ZTVN14OpenVolumeMesh11PropertyPtrIjNS_6Entity4EdgeEEE)).f1.e[(s64)((s64)((u64)2ULL))])));
  return;
}

void _ZN14OpenVolumeMesh15ResourceManager16request_propertyIjNS_6Entity6VertexEEENS_11PropertyPtrIT_T0_EERKNSt7__cxx1112basic_stringIcSt11char_traitsIcESaIcEEERKS5_(struct S44_class_OpenVolumeMesh__PropertyPtr_431* a0, struct S52_class_OpenVolumeMesh__ResourceManager* a1, struct S27_class_std____cxx11__basic_string* a2, u32* a3) {
  u64* v0; u64 v0_m;
  struct S57_class_std__optional_433* v1; struct S57_class_std__optional_433 v1_m;
  struct S27_class_std____cxx11__basic_string* v2; struct S27_class_std____cxx11__basic_string v2_m;
  u8* v3;
  u8* v4;
  u8 v5;
  u1 v6;
  fnptr_t** v7;
  struct S38_class_OpenVolumeMesh__PropertyStorageT_3** v8;
  struct S38_class_OpenVolumeMesh__PropertyStorageT_3** v9;
  struct S38_class_OpenVolumeMesh__PropertyStorageT_3* v10;
  struct S13_class_std___Sp_counted_base** v11;
  struct S13_class_std___Sp_counted_base** v12;
  struct S13_class_std___Sp_counted_base* v13;
  u1 v14;
  u32* v15;
  u8 v16;
  u1 v17;
  u32 v18;
  u32 v19;
  u32 v20;
  u32 v21;
  fnptr_t** v22;
  u64* v23;
  u64 v24;
  u1 v25;
  struct S66_union_anon* v26;
  struct S66_union_anon** v27;
  u8** v28;
  u8* v29;
  u8* v30;
  u1 v31;
  u8* v32;
  u8** v33;
  u64 v34;
  u64* v35;
  u8** v36;
  u8* v37;
  u8 v38;
  u64 v39;
  u64* v40;
  u8* v41;
  u8* v42;
  u8* v43;
  u8* v44;
  u1 v45;
  struct S63 v46;
  struct S63 v47;
  u8* v48;
  u8* v49;
  u1 v50;
  struct S63 v51; struct S63 v51_t;
  struct S58_struct_std___Optional_base_434* v52;
  u8* v53;
  u8 v54;
  u1 v55;
  fnptr_t** v56;
  struct S13_class_std___Sp_counted_base** v57;
  struct S13_class_std___Sp_counted_base* v58;
  u1 v59;
  u32* v60;
  u64* v61;
  u64 v62;
  u1 v63;
  u32* v64;
  fnptr_t** v65;
  fnptr_t* v66;
  fnptr_t* v67;
  fnptr_t v68;
  fnptr_t* v69;
  fnptr_t* v70;
  fnptr_t v71;
  u8 v72;
  u1 v73;
  u32 v74;
  u32 v75;
  u32 v76;
  u32 v77;
  u32 v78; u32 v78_t;
  u1 v79;
L0: ;
  v0 = &v0_m;
  v1 = &v1_m;
  v2 = &v2_m;
  v3 = (u8*)v1;
  _ZNK14OpenVolumeMesh15ResourceManager22internal_find_propertyIjNS_6Entity6VertexEEESt8optionalINS_11PropertyPtrIT_T0_EEERKNSt7__cxx1112basic_stringIcSt11char_traitsIcESaIcEEE(v1, a1, a2);
  if (v_exc) return;
  v4 = (u8*)(&(*v1).f0.f0.f0.f0.f1);
  v5 = *v4;
  v6 = (v5 == ((u8)0ULL));
  if (v6) {
    goto L6;
  } else {
    goto L1;
  }
L1: ;
  v7 = (fnptr_t**)(&(*a0).f0.f0.f0);
  *v7 = ((fnptr_t*)((u8**)(&(*(&_ZTVN14OpenVolumeMesh18PropertyStoragePtrIjEE)).f0.e[(s64)((s64)((u64)2ULL))])));
  v8 = (struct S38_class_OpenVolumeMesh__PropertyStorageT_3**)(&(*a0).f0.f0.f1.f0.f0);
  v9 = (struct S38_class_OpenVolumeMesh__PropertyStorageT_3**)(&(*v1).f0.f0.f0.f0.f0.f0.f0.f0.f1.f0.f0);
  v10 = *v9;
  *v8 = v10;
  v11 = (struct S13_class_std___Sp_counted_base**)(&(*a0).f0.f0.f1.f0.f1.f0);
  v12 = (struct S13_class_std___Sp_counted_base**)(&(*v1).f0.f0.f0.f0.f0.f0.f0.f0.f1.f0.f1.f0);
  v13 = *v12;
  *v11 = v13;
  v14 = ((u8*)v13 == (u8*)((struct S13_class_std___Sp_counted_base*)0));
  if (v14) {
    goto L5;
  } else {
    goto L2;
  }
L2: ;
  v15 = (u32*)(&(*v13).f1);
  v16 = *(&__libc_single_threaded);
  v17 = (v16 == ((u8)0ULL));
  if (v17) {
    goto L4;
  } else {
    goto L3;
  }
L3: ;
  v18 = *v15;
  v19 = ((u32)(v18 + ((u32)1ULL)));
  *v15 = v19;
  goto L5;
L4: ;
  v20 = *v15;
  v21 = ((u32)(v20 + ((u32)1ULL)));
  *v15 = v21;
  goto L5;
L5: ;
  *v7 = ((fnptr_t*)((u8**)(&(*(&_ZTVN14OpenVolumeMesh14HandleIndexingINS_6Entity6VertexENS_18PropertyStoragePtrIjEEEE)).f0.e[(s64)((s64)((u64)2ULL))])));
  v22 = (fnptr_t**)(&(*a0).f1.f0);
  *v22 = ((fnptr_t*)((u8**)(&(*(&_ZTVN14OpenVolumeMesh15BasePropertyPtrE)).f0.e[(s64)((s64)((u64)2ULL))])));
  *v7 = ((fnptr_t*)((u8**)(&(*(&_ZTVN14OpenVolumeMesh11PropertyPtrIjNS_6Entity6VertexEEE)).f0.e[(s64)((s64)((u64)2ULL))])));
  *v22 = ((fnptr_t*)((u8**)(&(*(&_ZTVN14OpenVolumeMesh11PropertyPtrIjNS_6Entity6VertexEEE)).f1.e[(s64)((s64)((u64)2ULL))])));
  goto L19;
L6: ;
  v23 = (u64*)(&(*a2).f1);
  v24 = *v23;
  v25 = (v24 != ((u64)0ULL));
  v26 = (struct S66_union_anon*)(&(*v2).f2);
  v27 = (struct S66_union_anon**)&(*v2).f0.f0;
  *v27 = v26;
  v28 = (u8**)(&(*a2).f0.f0);
  v29 = *v28;
  v30 = (u8*)v0;
  *v0 = v24;
  v31 = (v24 > ((u64)15ULL));
  if (v31) {
    goto L7;
  } else {
    goto L9;
  }
L7: ;
  v32 = _ZNSt7__cxx1112basic_stringIcSt11char_traitsIcESaIcEE9_M_createERmm(v2, v0, ((u64)0ULL));
  if (v_exc) {
    goto L15;
  }
  goto L8;
L8: ;
  v33 = (u8**)(&(*v2).f0.f0);
  *v33 = v32;
  v34 = *v0;
  v35 = (u64*)(&(*v2).f2.f0.e[0]);
  *v35 = v34;
  goto L9;
L9: ;
  v36 = (u8**)(&(*v2).f0.f0);
  v37 = *v36;
  switch (v24) {
  case ((u64)1ULL): {
    goto L10;
  }
  case ((u64)0ULL): {
    goto L12;
  }
  default: {
    goto L11;
  }
  }
L10: ;
  v38 = *v29;
  *v37 = v38;
  goto L12;
L11: ;
  v_memcpy((u8*)v37, (u8*)v29, (u64)v24);
  goto L12;
L12: ;
  v39 = *v0;
  v40 = (u64*)(&(*v2).f1);
  *v40 = v39;
  v41 = *v36;
  v42 = (u8*)(v41 + (s64)((s64)v39));
  *v42 = ((u8)0ULL);
  _ZNK14OpenVolumeMesh15ResourceManager24internal_create_propertyIjNS_6Entity6VertexEEENS_11PropertyPtrIT_T0_EENSt7__cxx1112basic_stringIcSt11char_traitsIcESaIcEEERKS5_b(a0, a1, v2, a3, v25);
  if (v_exc) {
    goto L16;
  }
  goto L13;
L13: ;
  v43 = *v36;
  v44 = (u8*)v26;
  v45 = ((u8*)v43 == (u8*)v44);
  if (v45) {
    goto L19;
  } else {
    goto L14;
  }
L14: ;
  _ZdlPv(v43);
  goto L19;
L15: ;
  v46.f0 = v_exc_obj;
  v46.f1 = 0;
  v_exc = 0;
  v51 = v46;
  goto L18;
L16: ;
  v47.f0 = v_exc_obj;
  v47.f1 = 0;
  v_exc = 0;
  v48 = *v36;
  v49 = (u8*)v26;
  v50 = ((u8*)v48 == (u8*)v49);
  if (v50) {
    v51 = v47;
    goto L18;
  } else {
    goto L17;
  }
L17: ;
  _ZdlPv(v48);
  v51 = v47;
  goto L18;
L18: ;
  v52 = (struct S58_struct_std___Optional_base_434*)(&(*v1).f0);
  _ZNSt14_Optional_baseIN14OpenVolumeMesh11PropertyPtrIjNS0_6Entity6VertexEEELb0ELb0EED2Ev(v52);
  v_exc = 1; return;
L19: ;
  v53 = (u8*)(&(*v1).f0.f0.f0.f0.f1);
  v54 = *v53;
  v55 = (v54 == ((u8)0ULL));
  if (v55) {
    goto L28;
  } else {
    goto L20;
  }
L20: ;
  *v53 = ((u8)0ULL);
  v56 = (fnptr_t**)(&(*v1).f0.f0.f0.f0.f0.f0.f0.f0.f0);
  *v56 = ((fnptr_t*)((u8**)(&(*(&_ZTVN14OpenVolumeMesh18PropertyStoragePtrIjEE)).f0.e[(s64)((s64)((u64)2ULL))])));
  v57 = (struct S13_class_std___Sp_counted_base**)(&(*v1).f0.f0.f0.f0.f0.f0.f0.f0.f1.f0.f1.f0);
  v58 = *v57;
  v59 = ((u8*)v58 == (u8*)((struct S13_class_std___Sp_counted_base*)0));
  if (v59) {
    goto L28;
  } else {
    goto L21;
  }
L21: ;
  v60 = (u32*)(&(*v58).f1);
  v61 = (u64*)v60;
  v62 = (((u64)(*v58).f1 << 0) | ((u64)(*v58).f2 << 32));
  v63 = (v62 == ((u64)4294967297ULL));
  if (v63) {
    goto L22;
  } else {
    goto L23;
  }
L22: ;
  *v60 = ((u32)0ULL);
  v64 = (u32*)(&(*v58).f2);
  *v64 = ((u32)0ULL);
  v65 = (fnptr_t**)&(*v58).f0;
  v66 = *v65;
  v67 = (fnptr_t*)(v66 + (s64)((s64)((u64)2ULL)));
  v68 = *v67;
  ((FT0)v68)(v58);
  v69 = *v65;
  v70 = (fnptr_t*)(v69 + (s64)((s64)((u64)3ULL)));
  v71 = *v70;
  ((FT0)v71)(v58);
  goto L28;
L23: ;
  v72 = *(&__libc_single_threaded);
  v73 = (v72 == ((u8)0ULL));
  if (v73) {
    goto L25;
  } else {
    goto L24;
  }
L24: ;
  v74 = *v60;
  v75 = ((u32)(v74 + ((u32)4294967295ULL)));
  *v60 = v75;
  v78 = v74;
  goto L26;
L25: ;
  v76 = *v60;
  v77 = ((u32)(v76 + ((u32)4294967295ULL)));
  *v60 = v77;
  v78 = v76;
  goto L26;
L26: ;
  v79 = (v78 == ((u32)1ULL));
  if (v79) {
    goto L27;
  } else {
    goto L28;
  }
L27: ;
  _ZNSt16_Sp_counted_baseILN9__gnu_cxx12_Lock_policyE2EE24_M_release_last_use_coldEv(v58);
  goto L28;
L28: ;
  return;
}

void _ZN14OpenVolumeMesh15ResourceManager14set_persistentIjNS_6Entity6VertexEEEvRNS_11PropertyPtrIT_T0_EEb(struct S52_class_OpenVolumeMesh__ResourceManager* a0, struct S44_class_OpenVolumeMesh__PropertyPtr_431* a1, u1 a2) {
  struct S33_class_std__weak_ptr* v0; struct S33_class_std__weak_ptr v0_m;
  struct S38_class_OpenVolumeMesh__PropertyStorageT_3** v1;
  struct S16_class_OpenVolumeMesh__PropertyStorageBas** v2;
  struct S16_class_OpenVolumeMesh__PropertyStorageBas* v3;
  u8* v4;
  u8 v5;
  u1 v6;
  u1 v7;
  u8* v8;
  struct S55_class_std__shared_ptr_348* v9;
  struct S16_class_OpenVolumeMesh__PropertyStorageBas** v10;
  struct S16_class_OpenVolumeMesh__PropertyStorageBas* v11;
  struct S16_class_OpenVolumeMesh__PropertyStorageBas** v12;
  struct S13_class_std___Sp_counted_base** v13;
  struct S13_class_std___Sp_counted_base** v14;
  struct S13_class_std___Sp_counted_base* v15;
  u1 v16;
  u32* v17;
  u8 v18;
  u1 v19;
  u32 v20;
  u32 v21;
  u32 v22;
  u32 v23;
  struct S16_class_OpenVolumeMesh__PropertyStorageBas* v24;
  u8* v25;
  u8 v26;
  u1 v27;
  u8* v28;
  struct S20_class_std__runtime_error* v29;
  struct S63 v30;
  struct S63 v31;
  struct S10_class_std___Rb_tree* v32;
  struct S23 v33;
  struct S26_class_std__map* v34;
  u8* v35;
  u8* v36;
  struct S35_struct_std___Rb_tree_node_84** v37;
  u8* v38;
  struct S11_struct_std___Rb_tree_node_base* v39;
  struct S35_struct_std___Rb_tree_node_84* v40;
  u1 v41;
  struct S16_class_OpenVolumeMesh__PropertyStorageBas* v42;
  struct S35_struct_std___Rb_tree_node_84* v43; struct S35_struct_std___Rb_tree_node_84* v43_t;
  struct S11_struct_std___Rb_tree_node_base* v44; struct S11_struct_std___Rb_tree_node_base* v44_t;
  struct S67_struct___gnu_cxx____aligned_membuf_85* v45;
  struct S16_class_OpenVolumeMesh__PropertyStorageBas** v46;
  struct S16_class_OpenVolumeMesh__PropertyStorageBas* v47;
  u1 v48;
  struct S11_struct_std___Rb_tree_node_base** v49;
  u1 v50;
  struct S11_struct_std___Rb_tree_node_base* v51;
  struct S11_struct_std___Rb_tree_node_base** v52;
  struct S35_struct_std___Rb_tree_node_84** v53;
  struct S35_struct_std___Rb_tree_node_84* v54;
  struct S11_struct_std___Rb_tree_node_base** v55;
  struct S35_struct_std___Rb_tree_node_84** v56;
  struct S35_struct_std___Rb_tree_node_84* v57;
  u1 v58;
  struct S35_struct_std___Rb_tree_node_84* v59; struct S35_struct_std___Rb_tree_node_84* v59_t;
  struct S11_struct_std___Rb_tree_node_base* v60; struct S11_struct_std___Rb_tree_node_base* v60_t;
  struct S67_struct___gnu_cxx____aligned_membuf_85* v61;
  struct S16_class_OpenVolumeMesh__PropertyStorageBas** v62;
  struct S16_class_OpenVolumeMesh__PropertyStorageBas* v63;
  u1 v64;
  struct S11_struct_std___Rb_tree_node_base** v65;
  struct S11_struct_std___Rb_tree_node_base* v66;
  struct S11_struct_std___Rb_tree_node_base** v67;
  struct S11_struct_std___Rb_tree_node_base* v68;
  struct S11_struct_std___Rb_tree_node_base** v69;
  struct S35_struct_std___Rb_tree_node_84** v70;
  struct S35_struct_std___Rb_tree_node_84* v71;
  u1 v72;
  struct S11_struct_std___Rb_tree_node_base* v73; struct S11_struct_std___Rb_tree_node_base* v73_t;
  u1 v74;
  struct S35_struct_std___Rb_tree_node_84* v75; struct S35_struct_std___Rb_tree_node_84* v75_t;
  struct S11_struct_std___Rb_tree_node_base* v76; struct S11_struct_std___Rb_tree_node_base* v76_t;
  struct S67_struct___gnu_cxx____aligned_membuf_85* v77;
  struct S16_class_OpenVolumeMesh__PropertyStorageBas** v78;
  struct S16_class_OpenVolumeMesh__PropertyStorageBas* v79;
  u1 v80;
  struct S11_struct_std___Rb_tree_node_base* v81;
  struct S11_struct_std___Rb_tree_node_base** v82;
  struct S11_struct_std___Rb_tree_node_base** v83;
  struct S11_struct_std___Rb_tree_node_base* v84;
  struct S11_struct_std___Rb_tree_node_base** v85;
  struct S35_struct_std___Rb_tree_node_84** v86;
  struct S35_struct_std___Rb_tree_node_84* v87;
  u1 v88;
  struct S11_struct_std___Rb_tree_node_base* v89; struct S11_struct_std___Rb_tree_node_base* v89_t;
  struct S11_struct_std___Rb_tree_node_base** v90; struct S11_struct_std___Rb_tree_node_base** v90_t;
  struct S35_struct_std___Rb_tree_node_84** v91;
  struct S35_struct_std___Rb_tree_node_84* v92;
  u1 v93;
  struct S11_struct_std___Rb_tree_node_base* v94; struct S11_struct_std___Rb_tree_node_base* v94_t;
  struct S11_struct_std___Rb_tree_node_base* v95; struct S11_struct_std___Rb_tree_node_base* v95_t;
  struct S10_class_std___Rb_tree* v96;
  struct S16_class_OpenVolumeMesh__PropertyStorageBas** v97;
  struct S16_class_OpenVolumeMesh__PropertyStorageBas* v98;
  u8 v99;
  u8* v100;
  struct S13_class_std___Sp_counted_base** v101;
  struct S13_class_std___Sp_counted_base* v102;
  u1 v103;
  u32* v104;
  u64* v105;
  u64 v106;
  u1 v107;
  u32* v108;
  fnptr_t** v109;
  fnptr_t* v110;
  fnptr_t* v111;
  fnptr_t v112;
  fnptr_t* v113;
  fnptr_t* v114;
  fnptr_t v115;
  u8 v116;
  u1 v117;
  u32 v118;
  u32 v119;
  u32 v120;
  u32 v121;
  u32 v122; u32 v122_t;
  u1 v123;
  struct S63 v124; struct S63 v124_t;
  struct S34_class_std____weak_ptr* v125;
L0: ;
  v0 = &v0_m;
  v1 = (struct S38_class_OpenVolumeMesh__PropertyStorageT_3**)(&(*a1).f0.f0.f1.f0.f0);
  v2 = (struct S16_class_OpenVolumeMesh__PropertyStorageBas**)&(*a1).f0.f0.f1.f0.f0;
  v3 = *v2;
  v4 = (u8*)(&(*v3).f5);
  v5 = *v4;
  v6 = (v5 != ((u8)0ULL));
  v7 = ((u1)((v6 ^ a2)&1));
  if (v7) {
    goto L1;
  } else {
    goto L32;
  }
L1: ;
  v8 = (u8*)v0;
  v9 = (struct S55_class_std__shared_ptr_348*)(&(*a1).f0.f0.f1);
  v10 = (struct S16_class_OpenVolumeMesh__PropertyStorageBas**)&(*a1).f0.f0.f1.f0.f0;
  v11 = *v10;
  v12 = (struct S16_class_OpenVolumeMesh__PropertyStorageBas**)(&(*v0).f0.f0);
  *v12 = v11;
  v13 = (struct S13_class_std___Sp_counted_base**)(&(*v0).f0.f1.f0);
  v14 = (struct S13_class_std___Sp_counted_base**)(&(*a1).f0.f0.f1.f0.f1.f0);
  v15 = *v14;
  *v13 = v15;
  v16 = ((u8*)v15 == (u8*)((struct S13_class_std___Sp_counted_base*)0));
  if (v16) {
    goto L5;
  } else {
    goto L2;
  }
L2: ;
  v17 = (u32*)(&(*v15).f1);
  v18 = *(&__libc_single_threaded);
  v19 = (v18 == ((u8)0ULL));
  if (v19) {
    goto L4;
  } else {
    goto L3;
  }
L3: ;
  v20 = *v17;
  v21 = ((u32)(v20 + ((u32)1ULL)));
  *v17 = v21;
  goto L5;
L4: ;
  v22 = *v17;
  v23 = ((u32)(v22 + ((u32)1ULL)));
  *v17 = v23;
  goto L5;
L5: ;
  if (a2) {
    goto L6;
  } else {
    goto L12;
  }
L6: ;
  v24 = *v2;
  v25 = (u8*)(&(*v24).f6);
  v26 = *v25;
  v27 = (v26 == ((u8)0ULL));
  if (v27) {
    goto L7;
  } else {
    goto L11;
  }
L7: ;
  v28 = __cxa_allocate_exception(((u64)16ULL));
  v29 = (struct S20_class_std__runtime_error*)v28;
  _ZNSt13runtime_errorC1EPKc(v29, ((u8*)(&(*(&_str_4)).e[(s64)((s64)((u64)0ULL))])));
  if (v_exc) {
    goto L10;
  }
  goto L8;
L8: ;
  __cxa_throw(v28, ((u8*)(&_ZTISt13runtime_error)), ((u8*)((fnptr_t)_ZNSt13runtime_errorD1Ev)));
  if (v_exc) {
    goto L9;
  }
  goto L34;
L9: ;
  v30.f0 = v_exc_obj;
  v30.f1 = 0;
  v_exc = 0;
  v124 = v30;
  goto L33;
L10: ;
  v31.f0 = v_exc_obj;
  v31.f1 = 0;
  v_exc = 0;
  __cxa_free_exception(v28);
  v124 = v31;
  goto L33;
L11: ;
  v32 = (struct S10_class_std___Rb_tree*)(&(*a0).f1.f0.f0.e[(s64)((s64)((u64)0ULL))].f0);
  v33 = _ZNSt8_Rb_treeISt10shared_ptrIN14OpenVolumeMesh19PropertyStorageBaseEES3_St9_IdentityIS3_ESt4lessIS3_ESaIS3_EE16_M_insert_uniqueIRKS3_EESt4pairISt17_Rb_tree_iteratorIS3_EbEOT_(v32, v0);
  if (v_exc) {
    goto L9;
  }
  goto L23;
L12: ;
  v34 = (struct S26_class_std__map*)(&(*a0).f1.f0.f0.e[(s64)((s64)((u64)0ULL))]);
  v35 = (u8*)(&(*v34).f0.f0.f0.f0.f0);
  v36 = (u8*)&(*a0).f1.f0.f0.e[0].f0.f0.f1.f0.f1;
  v37 = (struct S35_struct_std___Rb_tree_node_84**)&(*a0).f1.f0.f0.e[0].f0.f0.f1.f0.f1;
  v38 = (u8*)&(*a0).f1.f0.f0.e[0].f0.f0.f1.f0.f0;
  v39 = (struct S11_struct_std___Rb_tree_node_base*)&(*a0).f1.f0.f0.e[0].f0.f0.f1.f0;
  v40 = *v37;
  v41 = ((u8*)v40 == (u8*)((struct S35_struct_std___Rb_tree_node_84*)0));
  if (v41) {
    v94_t = v39;
    v95_t = v39;
    v94 = v94_t;
    v95 = v95_t;
    goto L22;
  } else {
    goto L13;
  }
L13: ;
  v42 = *v12;
  v43_t = v40;
  v44_t = v39;
  v43 = v43_t;
  v44 = v44_t;
  goto L14;
L14: ;
  v45 = (struct S67_struct___gnu_cxx____aligned_membuf_85*)(&(*v43).f1);
  v46 = (struct S16_class_OpenVolumeMesh__PropertyStorageBas**)v45;
  v47 = *v46;
  v48 = v_plt((u8*)v47, (u8*)v42);
  if (v48) {
    goto L15;
  } else {
    goto L16;
  }
L15: ;
  v49 = (struct S11_struct_std___Rb_tree_node_base**)(&(*v43).f0.f3);
  v89_t = v44;
  v90_t = v49;
  v89 = v89_t;
  v90 = v90_t;
  goto L21;
L16: ;
  v50 = v_plt((u8*)v42, (u8*)v47);
  v51 = (struct S11_struct_std___Rb_tree_node_base*)(&(*v43).f0);
  v52 = (struct S11_struct_std___Rb_tree_node_base**)(&(*v43).f0.f2);
  if (v50) {
    v89_t = v51;
    v90_t = v52;
    v89 = v89_t;
    v90 = v90_t;
    goto L21;
  } else {
    goto L17;
  }
L17: ;
  v53 = (struct S35_struct_std___Rb_tree_node_84**)&(*v43).f0.f2;
  v54 = *v53;
  v55 = (struct S11_struct_std___Rb_tree_node_base**)(&(*v43).f0.f3);
  v56 = (struct S35_struct_std___Rb_tree_node_84**)&(*v43).f0.f3;
  v57 = *v56;
  v58 = ((u8*)v54 == (u8*)((struct S35_struct_std___Rb_tree_node_84*)0));
  if (v58) {
    v73 = v51;
    goto L19;
  } else {
    v59_t = v54;
    v60_t = v51;
    v59 = v59_t;
    v60 = v60_t;
    goto L18;
  }
L18: ;
  v61 = (struct S67_struct___gnu_cxx____aligned_membuf_85*)(&(*v59).f1);
  v62 = (struct S16_class_OpenVolumeMesh__PropertyStorageBas**)v61;
  v63 = *v62;
  v64 = v_plt((u8*)v63, (u8*)v42);
  v65 = (struct S11_struct_std___Rb_tree_node_base**)(&(*v59).f0.f3);
  v66 = (struct S11_struct_std___Rb_tree_node_base*)(&(*v59).f0);
  v67 = (struct S11_struct_std___Rb_tree_node_base**)(&(*v59).f0.f2);
  v68 = (v64 ? v60 : v66);
  v69 = (v64 ? v65 : v67);
  v70 = (struct S35_struct_std___Rb_tree_node_84**)v69;
  v71 = *v70;
  v72 = ((u8*)v71 == (u8*)((struct S35_struct_std___Rb_tree_node_84*)0));
  if (v72) {
    v73 = v68;
    goto L19;
  } else {
    v59_t = v71;
    v60_t = v68;
    v59 = v59_t;
    v60 = v60_t;
    goto L18;
  }
L19: ;
  v74 = ((u8*)v57 == (u8*)((struct S35_struct_std___Rb_tree_node_84*)0));
  if (v74) {
    v94_t = v73;
    v95_t = v44;
    v94 = v94_t;
    v95 = v95_t;
    goto L22;
  } else {
    v75_t = v57;
    v76_t = v44;
    v75 = v75_t;
    v76 = v76_t;
    goto L20;
  }
L20: ;
  v77 = (struct S67_struct___gnu_cxx____aligned_membuf_85*)(&(*v75).f1);
  v78 = (struct S16_class_OpenVolumeMesh__PropertyStorageBas**)v77;
  v79 = *v78;
  v80 = v_plt((u8*)v42, (u8*)v79);
  v81 = (struct S11_struct_std___Rb_tree_node_base*)(&(*v75).f0);
  v82 = (struct S11_struct_std___Rb_tree_node_base**)(&(*v75).f0.f2);
  v83 = (struct S11_struct_std___Rb_tree_node_base**)(&(*v75).f0.f3);
  v84 = (v80 ? v81 : v76);
  v85 = (v80 ? v82 : v83);
  v86 = (struct S35_struct_std___Rb_tree_node_84**)v85;
  v87 = *v86;
  v88 = ((u8*)v87 == (u8*)((struct S35_struct_std___Rb_tree_node_84*)0));
  if (v88) {
    v94_t = v73;
    v95_t = v84;
    v94 = v94_t;
    v95 = v95_t;
    goto L22;
  } else {
    v75_t = v87;
    v76_t = v84;
    v75 = v75_t;
    v76 = v76_t;
    goto L20;
  }
L21: ;
  v91 = (struct S35_struct_std___Rb_tree_node_84**)v90;
  v92 = *v91;
  v93 = ((u8*)v92 == (u8*)((struct S35_struct_std___Rb_tree_node_84*)0));
  if (v93) {
    v94_t = v89;
    v95_t = v89;
    v94 = v94_t;
    v95 = v95_t;
    goto L22;
  } else {
    v43_t = v92;
    v44_t = v89;
    v43 = v43_t;
    v44 = v44_t;
    goto L14;
  }
L22: ;
  v96 = (struct S10_class_std___Rb_tree*)(&(*v34).f0);
  _ZNSt8_Rb_treeISt10shared_ptrIN14OpenVolumeMesh19PropertyStorageBaseEES3_St9_IdentityIS3_ESt4lessIS3_ESaIS3_EE12_M_erase_auxESt23_Rb_tree_const_iteratorIS3_ESB_(v96, v94, v95);
  if (v_exc) {
    goto L9;
  }
  goto L23;
L23: ;
  v97 = (struct S16_class_OpenVolumeMesh__PropertyStorageBas**)(&(*v0).f0.f0);
  v98 = *v97;
  v99 = ((u8)(a2));
  v100 = (u8*)(&(*v98).f5);
  *v100 = v99;
  v101 = (struct S13_class_std___Sp_counted_base**)(&(*v0).f0.f1.f0);
  v102 = *v101;
  v103 = ((u8*)v102 == (u8*)((struct S13_class_std___Sp_counted_base*)0));
  if (v103) {
    goto L31;
  } else {
    goto L24;
  }
L24: ;
  v104 = (u32*)(&(*v102).f1);
  v105 = (u64*)v104;
  v106 = (((u64)(*v102).f1 << 0) | ((u64)(*v102).f2 << 32));
  v107 = (v106 == ((u64)4294967297ULL));
  if (v107) {
    goto L25;
  } else {
    goto L26;
  }
L25: ;
  *v104 = ((u32)0ULL);
  v108 = (u32*)(&(*v102).f2);
  *v108 = ((u32)0ULL);
  v109 = (fnptr_t**)&(*v102).f0;
  v110 = *v109;
  v111 = (fnptr_t*)(v110 + (s64)((s64)((u64)2ULL)));
  v112 = *v111;
  ((FT0)v112)(v102);
  v113 = *v109;
  v114 = (fnptr_t*)(v113 + (s64)((s64)((u64)3ULL)));
  v115 = *v114;
  ((FT0)v115)(v102);
  goto L31;
L26: ;
  v116 = *(&__libc_single_threaded);
  v117 = (v116 == ((u8)0ULL));
  if (v117) {
    goto L28;
  } else {
    goto L27;
  }
L27: ;
  v118 = *v104;
  v119 = ((u32)(v118 + ((u32)4294967295ULL)));
  *v104 = v119;
  v122 = v118;
  goto L29;
L28: ;
  v120 = *v104;
  v121 = ((u32)(v120 + ((u32)4294967295ULL)));
  *v104 = v121;
  v122 = v120;
  goto L29;
L29: ;
  v123 = (v122 == ((u32)1ULL));
  if (v123) {
    goto L30;
  } else {
    goto L31;
  }
L30: ;
  _ZNSt16_Sp_counted_baseILN9__gnu_cxx12_Lock_policyE2EE24_M_release_last_use_coldEv(v102);
  goto L31;
L31: ;
  goto L32;
L32: ;
  return;
L33: ;
  v125 = (struct S34_class_std____weak_ptr*)(&(*v0).f0);
  _ZNSt12__shared_ptrIN14OpenVolumeMesh19PropertyStorageBaseELN9__gnu_cxx12_Lock_policyE2EED2Ev(v125);
  v_exc = 1; return;
L34: ;
  __CPROVER_assume(0);
}

void _ZNK14OpenVolumeMesh15ResourceManager22internal_find_propertyIjNS_6Entity6VertexEEESt8optionalINS_11PropertyPtrIT_T0_EEERKNSt7__cxx1112basic_stringIcSt11char_traitsIcESaIcEEE(struct S57_class_std__optional_433* a0, struct S52_class_OpenVolumeMesh__ResourceManager* a1, struct S27_class_std____cxx11__basic_string* a2) {
  struct S27_class_std____cxx11__basic_string* v0; struct S27_class_std____cxx11__basic_string v0_m;
  struct S44_class_OpenVolumeMesh__PropertyPtr_431* v1; struct S44_class_OpenVolumeMesh__PropertyPtr_431 v1_m;
  u64* v2;
  u64 v3;
  u1 v4;
  u8* v5;
  u8* v6;
  u8* v7;
  u8* v8;
  struct S11_struct_std___Rb_tree_node_base** v9;
  struct S11_struct_std___Rb_tree_node_base* v10;
  u8* v11;
  struct S11_struct_std___Rb_tree_node_base* v12;
  u1 v13;
  u64 v14;
  u8** v15;
  u8* v16;
  u64* v17;
  u64 v18;
  u8** v19;
  u8* v20;
  struct S11_struct_std___Rb_tree_node_base* v21; struct S11_struct_std___Rb_tree_node_base* v21_t;
  struct S11_struct_std___Rb_tree_node_base* v22;
  struct S16_class_OpenVolumeMesh__PropertyStorageBas** v23;
  struct S16_class_OpenVolumeMesh__PropertyStorageBas* v24;
  u8* v25;
  u8 v26;
  u1 v27;
  u64* v28;
  u64 v29;
  u1 v30;
  u1 v31;
  u8** v32;
  u8* v33;
  u32 v34;
  u1 v35;
  u64* v36;
  u64 v37;
  u1 v38;
  u1 v39;
  u8** v40;
  u8* v41;
  u32 v42;
  u1 v43;
  u8* v44;
  fnptr_t** v45;
  struct S38_class_OpenVolumeMesh__PropertyStorageT_3** v46;
  struct S38_class_OpenVolumeMesh__PropertyStorageT_3** v47;
  struct S38_class_OpenVolumeMesh__PropertyStorageT_3* v48;
  struct S13_class_std___Sp_counted_base** v49;
  struct S13_class_std___Sp_counted_base** v50;
  struct S13_class_std___Sp_counted_base* v51;
  u1 v52;
  u32* v53;
  u8 v54;
  u1 v55;
  u32 v56;
  u32 v57;
  u32 v58;
  u32 v59;
  fnptr_t** v60;
  u8* v61;
  fnptr_t** v62;
  struct S13_class_std___Sp_counted_base* v63;
  u1 v64;
  u32* v65;
  u64* v66;
  u64 v67;
  u1 v68;
  u32* v69;
  fnptr_t** v70;
  fnptr_t* v71;
  fnptr_t* v72;
  fnptr_t v73;
  fnptr_t* v74;
  fnptr_t* v75;
  fnptr_t v76;
  u8 v77;
  u1 v78;
  u32 v79;
  u32 v80;
  u32 v81;
  u32 v82;
  u32 v83; u32 v83_t;
  u1 v84;
  struct S63 v85;
  u8** v86;
  u8* v87;
  struct S66_union_anon* v88;
  u8* v89;
  u1 v90;
  struct S11_struct_std___Rb_tree_node_base* v91;
  u1 v92;
  u8* v93;
  u8** v94;
  u8* v95;
  struct S66_union_anon* v96;
  u8* v97;
  u1 v98;
L0: ;
  v0 = &v0_m;
  v1 = &v1_m;
  v2 = (u64*)(&(*a2).f1);
  v3 = *v2;
  v4 = (v3 == ((u64)0ULL));
  if (v4) {
    goto L1;
  } else {
    goto L2;
  }
L1: ;
  v5 = (u8*)(&(*a0).f0.f0.f0.f0.f1);
  *v5 = ((u8)0ULL);
  goto L33;
L2: ;
  v6 = (u8*)v0;
  _ZN14OpenVolumeMesh6detail18internal_type_nameB5cxx11ERKSt9type_info(v0, ((struct S48_class_std__type_info*)(&_ZTIj)));
  if (v_exc) return;
  v7 = (u8*)(&(*a1).f2.f0.f0.e[(s64)((s64)((u64)0ULL))].f1.f0.f0.f0.f0.f0);
  v8 = (u8*)&(*a1).f2.f0.f0.e[0].f1.f0.f0.f1.f0.f2;
  v9 = (struct S11_struct_std___Rb_tree_node_base**)&(*a1).f2.f0.f0.e[0].f1.f0.f0.f1.f0.f2;
  v10 = *v9;
  v11 = (u8*)&(*a1).f2.f0.f0.e[0].f1.f0.f0.f1.f0.f0;
  v12 = (struct S11_struct_std___Rb_tree_node_base*)&(*a1).f2.f0.f0.e[0].f1.f0.f0.f1.f0;
  v13 = ((u8*)v10 == (u8*)v12);
  if (v13) {
    goto L29;
  } else {
    goto L3;
  }
L3: ;
  v14 = *v2;
  v15 = (u8**)(&(*a2).f0.f0);
  v16 = *v15;
  v17 = (u64*)(&(*v0).f1);
  v18 = *v17;
  v19 = (u8**)(&(*v0).f0.f0);
  v20 = *v19;
  v21 = v10;
  goto L4;
L4: ;
  v22 = (struct S11_struct_std___Rb_tree_node_base*)(v21 + (s64)((s64)((u64)1ULL)));
  v23 = (struct S16_class_OpenVolumeMesh__PropertyStorageBas**)v22;
  v24 = *v23;
  v25 = (u8*)(&(*v24).f6);
  v26 = *v25;
  v27 = (v26 == ((u8)0ULL));
  if (v27) {
    goto L26;
  } else {
    goto L5;
  }
L5: ;
  v28 = (u64*)(&(*v24).f2.f1);
  v29 = *v28;
  v30 = (v29 == v14);
  if (v30) {
    goto L6;
  } else {
    goto L26;
  }
L6: ;
  v31 = (v29 == ((u64)0ULL));
  if (v31) {
    goto L8;
  } else {
    goto L7;
  }
L7: ;
  v32 = (u8**)(&(*v24).f2.f0.f0);
  v33 = *v32;
  v34 = bcmp(v33, v16, v29);
  v35 = (v34 == ((u32)0ULL));
  if (v35) {
    goto L8;
  } else {
    goto L26;
  }
L8: ;
  v36 = (u64*)(&(*v24).f3.f1);
  v37 = *v36;
  v38 = (v37 == v18);
  if (v38) {
    goto L9;
  } else {
    goto L26;
  }
L9: ;
  v39 = (v37 == ((u64)0ULL));
  if (v39) {
    goto L11;
  } else {
    goto L10;
  }
L10: ;
  v40 = (u8**)(&(*v24).f3.f0.f0);
  v41 = *v40;
  v42 = bcmp(v41, v20, v37);
  v43 = (v42 == ((u32)0ULL));
  if (v43) {
    goto L11;
  } else {
    goto L26;
  }
L11: ;
  v44 = (u8*)v1;
  _ZN14OpenVolumeMesh15ResourceManager21prop_ptr_from_storageIjNS_6Entity6VertexEEENS_11PropertyPtrIT_T0_EEPNS_19PropertyStorageBaseE(v1, v24);
  if (v_exc) {
    goto L25;
  }
  goto L12;
L12: ;
  v45 = (fnptr_t**)(&(*a0).f0.f0.f0.f0.f0.f0.f0.f0.f0);
  *v45 = ((fnptr_t*)((u8**)(&(*(&_ZTVN14OpenVolumeMesh18PropertyStoragePtrIjEE)).f0.e[(s64)((s64)((u64)2ULL))])));
  v46 = (struct S38_class_OpenVolumeMesh__PropertyStorageT_3**)(&(*a0).f0.f0.f0.f0.f0.f0.f0.f0.f1.f0.f0);
  v47 = (struct S38_class_OpenVolumeMesh__PropertyStorageT_3**)(&(*v1).f0.f0.f1.f0.f0);
  v48 = *v47;
  *v46 = v48;
  v49 = (struct S13_class_std___Sp_counted_base**)(&(*a0).f0.f0.f0.f0.f0.f0.f0.f0.f1.f0.f1.f0);
  v50 = (struct S13_class_std___Sp_counted_base**)(&(*v1).f0.f0.f1.f0.f1.f0);
  v51 = *v50;
  *v49 = v51;
  v52 = ((u8*)v51 == (u8*)((struct S13_class_std___Sp_counted_base*)0));
  if (v52) {
    goto L16;
  } else {
    goto L13;
  }
L13: ;
  v53 = (u32*)(&(*v51).f1);
  v54 = *(&__libc_single_threaded);
  v55 = (v54 == ((u8)0ULL));
  if (v55) {
    goto L15;
  } else {
    goto L14;
  }
L14: ;
  v56 = *v53;
  v57 = ((u32)(v56 + ((u32)1ULL)));
  *v53 = v57;
  goto L16;
L15: ;
  v58 = *v53;
  v59 = ((u32)(v58 + ((u32)1ULL)));
  *v53 = v59;
  goto L16;
L16: ;
  *v45 = ((fnptr_t*)((u8**)(&(*(&_ZTVN14OpenVolumeMesh14HandleIndexingINS_6Entity6VertexENS_18PropertyStoragePtrIjEEEE)).f0.e[(s64)((s64)((u64)2ULL))])));
  v60 = (fnptr_t**)(&(*a0).f0.f0.f0.f0.f0.f0.f1.f0);
  *v60 = ((fnptr_t*)((u8**)(&(*(&_ZTVN14OpenVolumeMesh15BasePropertyPtrE)).f0.e[(s64)((s64)((u64)2ULL))])));
  *v45 = ((fnptr_t*)((u8**)(&(*(&_ZTVN14OpenVolumeMesh11PropertyPtrIjNS_6Entity6VertexEEE)).f0.e[(s64)((s64)((u64)2ULL))])));
  *v60 = ((fnptr_t*)((u8**)(&(*(&_ZTVN14OpenVolumeMesh11PropertyPtrIjNS_6Entity6VertexEEE)).f1.e[(s64)((s64)((u64)2ULL))])));
  v61 = (u8*)(&(*a0).f0.f0.f0.f0.f1);
  *v61 = ((u8)1ULL);
  v62 = (fnptr_t**)(&(*v1).f0.f0.f0);
  *v62 = ((fnptr_t*)((u8**)(&(*(&_ZTVN14OpenVolumeMesh18PropertyStoragePtrIjEE)).f0.e[(s64)((s64)((u64)2ULL))])));
  v63 = *v50;
  v64 = ((u8*)v63 == (u8*)((struct S13_class_std___Sp_counted_base*)0));
  if (v64) {
    goto L24;
  } else {
    goto L17;
  }
L17: ;
  v65 = (u32*)(&(*v63).f1);
  v66 = (u64*)v65;
  v67 = (((u64)(*v63).f1 << 0) | ((u64)(*v63).f2 << 32));
  v68 = (v67 == ((u64)4294967297ULL));
  if (v68) {
    goto L18;
  } else {
    goto L19;
  }
L18: ;
  *v65 = ((u32)0ULL);
  v69 = (u32*)(&(*v63).f2);
  *v69 = ((u32)0ULL);
  v70 = (fnptr_t**)&(*v63).f0;
  v71 = *v70;
  v72 = (fnptr_t*)(v71 + (s64)((s64)((u64)2ULL)));
  v73 = *v72;
  ((FT0)v73)(v63);
  v74 = *v70;
  v75 = (fnptr_t*)(v74 + (s64)((s64)((u64)3ULL)));
  v76 = *v75;
  ((FT0)v76)(v63);
  goto L24;
L19: ;
  v77 = *(&__libc_single_threaded);
  v78 = (v77 == ((u8)0ULL));
  if (v78) {
    goto L21;
  } else {
    goto L20;
  }
L20: ;
  v79 = *v65;
  v80 = ((u32)(v79 + ((u32)4294967295ULL)));
  *v65 = v80;
  v83 = v79;
  goto L22;
L21: ;
  v81 = *v65;
  v82 = ((u32)(v81 + ((u32)4294967295ULL)));
  *v65 = v82;
  v83 = v81;
  goto L22;
L22: ;
  v84 = (v83 == ((u32)1ULL));
  if (v84) {
    goto L23;
  } else {
    goto L24;
  }
L23: ;
  _ZNSt16_Sp_counted_baseILN9__gnu_cxx12_Lock_policyE2EE24_M_release_last_use_coldEv(v63);
  goto L24;
L24: ;
  goto L30;
L25: ;
  v85.f0 = v_exc_obj;
  v85.f1 = 0;
  v_exc = 0;
  v86 = (u8**)(&(*v0).f0.f0);
  v87 = *v86;
  v88 = (struct S66_union_anon*)(&(*v0).f2);
  v89 = (u8*)v88;
  v90 = ((u8*)v87 == (u8*)v89);
  if (v90) {
    goto L28;
  } else {
    goto L27;
  }
L26: ;
  v91 = _ZSt18_Rb_tree_incrementPKSt18_Rb_tree_node_base(v21);
  v92 = ((u8*)v91 == (u8*)v12);
  if (v92) {
    goto L29;
  } else {
    v21 = v91;
    goto L4;
  }
L27: ;
  _ZdlPv(v87);
  goto L28;
L28: ;
  v_exc = 1; return;
L29: ;
  v93 = (u8*)(&(*a0).f0.f0.f0.f0.f1);
  *v93 = ((u8)0ULL);
  goto L30;
L30: ;
  v94 = (u8**)(&(*v0).f0.f0);
  v95 = *v94;
  v96 = (struct S66_union_anon*)(&(*v0).f2);
  v97 = (u8*)v96;
  v98 = ((u8*)v95 == (u8*)v97);
  if (v98) {
    goto L32;
  } else {
    goto L31;
  }
L31: ;
  _ZdlPv(v95);
  goto L32;
L32: ;
  goto L33;
L33: ;
  return;
}

void _ZNK14OpenVolumeMesh15ResourceManager24internal_create_propertyIjNS_6Entity6VertexEEENS_11PropertyPtrIT_T0_EENSt7__cxx1112basic_stringIcSt11char_traitsIcESaIcEEERKS5_b(struct S44_class_OpenVolumeMesh__PropertyPtr_431* a0, struct S52_class_OpenVolumeMesh__ResourceManager* a1, struct S27_class_std____cxx11__basic_string* a2, u32* a3, u1 a4) {
  struct S0_class_std__ios_base__Init* v0; struct S0_class_std__ios_base__Init v0_m;
  u8* v1; u8 v1_m;
  struct S55_class_std__shared_ptr_348* v2; struct S55_class_std__shared_ptr_348 v2_m;
  struct S39_class_OpenVolumeMesh__detail__Tracker** v3; struct S39_class_OpenVolumeMesh__detail__Tracker* v3_m;
  u8* v4; u8 v4_m;
  u8 v5;
  u8* v6;
  u8* v7;
  struct S39_class_OpenVolumeMesh__detail__Tracker* v8;
  u8* v9;
  struct S43_class_std____shared_ptr_349* v10;
  struct S38_class_OpenVolumeMesh__PropertyStorageT_3** v11;
  struct S38_class_OpenVolumeMesh__PropertyStorageT_3* v12;
  u64 v13;
  struct S40_class_std__vector_322* v14;
  u32** v15;
  u32* v16;
  u32** v17;
  u32* v18;
  u64 v19;
  u64 v20;
  u64 v21;
  u64 v22;
  u1 v23;
  u32* v24;
  u64 v25;
  u1 v26;
  u32* v27;
  u1 v28;
  struct S38_class_OpenVolumeMesh__PropertyStorageT_3** v29;
  struct S38_class_OpenVolumeMesh__PropertyStorageT_3* v30;
  struct S13_class_std___Sp_counted_base** v31;
  struct S13_class_std___Sp_counted_base* v32;
  fnptr_t** v33;
  u8* v34;
  struct S38_class_OpenVolumeMesh__PropertyStorageT_3** v35;
  struct S13_class_std___Sp_counted_base** v36;
  fnptr_t** v37;
  struct S13_class_std___Sp_counted_base** v38;
  struct S13_class_std___Sp_counted_base* v39;
  u1 v40;
  u32* v41;
  u64* v42;
  u64 v43;
  u1 v44;
  u32* v45;
  fnptr_t** v46;
  fnptr_t* v47;
  fnptr_t* v48;
  fnptr_t v49;
  fnptr_t* v50;
  fnptr_t* v51;
  fnptr_t v52;
  u8 v53;
  u1 v54;
  u32 v55;
  u32 v56;
  u32 v57;
  u32 v58;
  u32 v59; u32 v59_t;
  u1 v60;
  struct S63 v61;
L0: ;
  v0 = &v0_m;
  v1 = &v1_m;
  v2 = &v2_m;
  v3 = &v3_m;
  v4 = &v4_m;
  v5 = ((u8)(a4));
  *v1 = v5;
  v6 = (u8*)v2;
  v7 = (u8*)v3;
  v8 = (struct S39_class_OpenVolumeMesh__detail__Tracker*)(&(*a1).f2.f0.f0.e[(s64)((s64)((u64)0ULL))]);
  *v3 = v8;
  *v4 = ((u8)0ULL);
  v9 = (u8*)(&(*v0).f0);
  v10 = (struct S43_class_std____shared_ptr_349*)(&(*v2).f0);
  _ZNSt12__shared_ptrIN14OpenVolumeMesh16PropertyStorageTIjEELN9__gnu_cxx12_Lock_policyE2EEC2ISaIvEJPNS0_6detail7TrackerINS0_19PropertyStorageBaseEEENSt7__cxx1112basic_stringIcSt11char_traitsIcESaIcEEENS0_10EntityTypeERKjRbEEESt20_Sp_alloc_shared_tagIT_EDpOT0_(v10, v0, v3, a2, v4, a3, v1);
  if (v_exc) return;
  v11 = (struct S38_class_OpenVolumeMesh__PropertyStorageT_3**)(&(*v2).f0.f0);
  v12 = *v11;
  v13 = _ZNK14OpenVolumeMesh15ResourceManager1nINS_6Entity6VertexEEEmv(a1);
  if (v_exc) {
    goto L15;
  }
  goto L1;
L1: ;
  v14 = (struct S40_class_std__vector_322*)(&(*v12).f2);
  v15 = (u32**)(&(*v12).f2.f0.f0.f0.f1);
  v16 = *v15;
  v17 = (u32**)(&(*v14).f0.f0.f0.f0);
  v18 = *v17;
  v19 = ((u64)((u64)v16));
  v20 = ((u64)((u64)v18));
  v21 = v_pdiff((u8*)v16, (u8*)v18);
  v22 = ((u64)(((s64)v21) >> ((u64)2ULL)));
  v23 = (v13 > v22);
  if (v23) {
    goto L2;
  } else {
    goto L3;
  }
L2: ;
  v24 = (u32*)(&(*v12).f3);
  v25 = ((u64)(v13 - v22));
  _ZNSt6vectorIjSaIjEE14_M_fill_insertEN9__gnu_cxx17__normal_iteratorIPjS1_EEmRKj(v14, v16, v25, v24);
  if (v_exc) {
    goto L15;
  }
  goto L6;
L3: ;
  v26 = (v13 < v22);
  if (v26) {
    goto L4;
  } else {
    goto L6;
  }
L4: ;
  v27 = (u32*)(v18 + (s64)((s64)v13));
  v28 = ((u8*)v16 == (u8*)v27);
  if (v28) {
    goto L6;
  } else {
    goto L5;
  }
L5: ;
  *v15 = v27;
  goto L6;
L6: ;
  v29 = (struct S38_class_OpenVolumeMesh__PropertyStorageT_3**)(&(*v2).f0.f0);
  v30 = *v29;
  v31 = (struct S13_class_std___Sp_counted_base**)(&(*v2).f0.f1.f0);
  v32 = *v31;
  v33 = (fnptr_t**)(&(*a0).f0.f0.f0);
  v34 = (u8*)v2;
  (*v2).f0.f0 = (struct S38_class_OpenVolumeMesh__PropertyStorageT_3*)0;
  (*v2).f0.f1.f0 = (struct S13_class_std___Sp_counted_base*)0;
  *v33 = ((fnptr_t*)((u8**)(&(*(&_ZTVN14OpenVolumeMesh18PropertyStoragePtrIjEE)).f0.e[(s64)((s64)((u64)2ULL))])));
  v35 = (struct S38_class_OpenVolumeMesh__PropertyStorageT_3**)(&(*a0).f0.f0.f1.f0.f0);
  *v35 = v30;
  v36 = (struct S13_class_std___Sp_counted_base**)(&(*a0).f0.f0.f1.f0.f1.f0);
  *v36 = v32;
  *v33 = ((fnptr_t*)((u8**)(&(*(&_ZTVN14OpenVolumeMesh14HandleIndexingINS_6Entity6VertexENS_18PropertyStoragePtrIjEEEE)).f0.e[(s64)((s64)((u64)2ULL))])));
  v37 = (fnptr_t**)(&(*a0).f1.f0);
  *v37 = ((fnptr_t*)((u8**)(&(*(&_ZTVN14OpenVolumeMesh15BasePropertyPtrE)).f0.e[(s64)((s64)((u64)2ULL))])));
  *v33 = ((fnptr_t*)((u8**)(&(*(&_ZTVN14OpenVolumeMesh11PropertyPtrIjNS_6Entity6VertexEEE)).f0.e[(s64)((s64)((u64)2ULL))])));
  *v37 = ((fnptr_t*)((u8**)(&(*(&_ZTVN14OpenVolumeMesh11PropertyPtrIjNS_6Entity6VertexEEE)).f1.e[(s64)((s64)((u64)2ULL))])));
  v38 = (struct S13_class_std___Sp_counted_base**)(&(*v2).f0.f1.f0);
  v39 = *v38;
  v40 = ((u8*)v39 == (u8*)((struct S13_class_std___Sp_counted_base*)0));
  if (v40) {
    goto L14;
  } else {
    goto L7;
  }
L7: ;
  v41 = (u32*)(&(*v39).f1);
  v42 = (u64*)v41;
  v43 = (((u64)(*v39).f1 << 0) | ((u64)(*v39).f2 << 32));
  v44 = (v43 == ((u64)4294967297ULL));
  if (v44) {
    goto L8;
  } else {
    goto L9;
  }
L8: ;
  *v41 = ((u32)0ULL);
  v45 = (u32*)(&(*v39).f2);
  *v45 = ((u32)0ULL);
  v46 = (fnptr_t**)&(*v39).f0;
  v47 = *v46;
  v48 = (fnptr_t*)(v47 + (s64)((s64)((u64)2ULL)));
  v49 = *v48;
  ((FT0)v49)(v39);
  v50 = *v46;
  v51 = (fnptr_t*)(v50 + (s64)((s64)((u64)3ULL)));
  v52 = *v51;
  ((FT0)v52)(v39);
  goto L14;
L9: ;
  v53 = *(&__libc_single_threaded);
  v54 = (v53 == ((u8)0ULL));
  if (v54) {
    goto L11;
  } else {
    goto L10;
  }
L10: ;
  v55 = *v41;
  v56 = ((u32)(v55 + ((u32)4294967295ULL)));
  *v41 = v56;
  v59 = v55;
  goto L12;
L11: ;
  v57 = *v41;
  v58 = ((u32)(v57 + ((u32)4294967295ULL)));
  *v41 = v58;
  v59 = v57;
  goto L12;
L12: ;
  v60 = (v59 == ((u32)1ULL));
  if (v60) {
    goto L13;
  } else {
    goto L14;
  }
L13: ;
  _ZNSt16_Sp_counted_baseILN9__gnu_cxx12_Lock_policyE2EE24_M_release_last_use_coldEv(v39);
  goto L14;
L14: ;
  return;
L15: ;
  v61.f0 = v_exc_obj;
  v61.f1 = 0;
  v_exc = 0;
  _ZNSt12__shared_ptrIN14OpenVolumeMesh16PropertyStorageTIjEELN9__gnu_cxx12_Lock_policyE2EED2Ev(v10);
  v_exc = 1; return;
}

void _ZNSt14_Optional_baseIN14OpenVolumeMesh11PropertyPtrIjNS0_6Entity6VertexEEELb0ELb0EED2Ev(struct S58_struct_std___Optional_base_434* a0) {
  u8* v0;
  u8 v1;
  u1 v2;
  fnptr_t** v3;
  struct S13_class_std___Sp_counted_base** v4;
  struct S13_class_std___Sp_counted_base* v5;
  u1 v6;
  u32* v7;
  u64* v8;
  u64 v9;
  u1 v10;
  u32* v11;
  fnptr_t** v12;
  fnptr_t* v13;
  fnptr_t* v14;
  fnptr_t v15;
  fnptr_t* v16;
  fnptr_t* v17;
  fnptr_t v18;
  u8 v19;
  u1 v20;
  u32 v21;
  u32 v22;
  u32 v23;
  u32 v24;
  u32 v25; u32 v25_t;
  u1 v26;
L0: ;
  v0 = (u8*)(&(*a0).f0.f0.f0.f1);
  v1 = *v0;
  v2 = (v1 == ((u8)0ULL));
  if (v2) {
    goto L9;
  } else {
    goto L1;
  }
L1: ;
  *v0 = ((u8)0ULL);
  v3 = (fnptr_t**)(&(*a0).f0.f0.f0.f0.f0.f0.f0.f0);
  *v3 = ((fnptr_t*)((u8**)(&(*(&_ZTVN14OpenVolumeMesh18PropertyStoragePtrIjEE)).f0.e[(s64)((s64)((u64)2ULL))])));
  v4 = (struct S13_class_std___Sp_counted_base**)(&(*a0).f0.f0.f0.f0.f0.f0.f0.f1.f0.f1.f0);
  v5 = *v4;
  v6 = ((u8*)v5 == (u8*)((struct S13_class_std___Sp_counted_base*)0));
  if (v6) {
    goto L9;
  } else {
    goto L2;
  }
L2: ;
  v7 = (u32*)(&(*v5).f1);
  v8 = (u64*)v7;
  v9 = (((u64)(*v5).f1 << 0) | ((u64)(*v5).f2 << 32));
  v10 = (v9 == ((u64)4294967297ULL));
  if (v10) {
    goto L3;
  } else {
    goto L4;
  }
L3: ;
  *v7 = ((u32)0ULL);
  v11 = (u32*)(&(*v5).f2);
  *v11 = ((u32)0ULL);
  v12 = (fnptr_t**)&(*v5).f0;
  v13 = *v12;
  v14 = (fnptr_t*)(v13 + (s64)((s64)((u64)2ULL)));
  v15 = *v14;
  ((FT0)v15)(v5);
  v16 = *v12;
  v17 = (fnptr_t*)(v16 + (s64)((s64)((u64)3ULL)));
  v18 = *v17;
  ((FT0)v18)(v5);
  goto L9;
L4: ;
  v19 = *(&__libc_single_threaded);
  v20 = (v19 == ((u8)0ULL));
  if (v20) {
    goto L6;
  } else {
    goto L5;
  }
L5: ;
  v21 = *v7;
  v22 = ((u32)(v21 + ((u32)4294967295ULL)));
  *v7 = v22;
  v25 = v21;
  goto L7;
L6: ;
  v23 = *v7;
  v24 = ((u32)(v23 + ((u32)4294967295ULL)));
  *v7 = v24;
  v25 = v23;
  goto L7;
L7: ;
  v26 = (v25 == ((u32)1ULL));
  if (v26) {
    goto L8;
  } else {
    goto L9;
  }
L8: ;
  _ZNSt16_Sp_counted_baseILN9__gnu_cxx12_Lock_policyE2EE24_M_release_last_use_coldEv(v5);
  goto L9;
L9: ;
  return;
}

void _ZN14OpenVolumeMesh15ResourceManager21prop_ptr_from_storageIjNS_6Entity6VertexEEENS_11PropertyPtrIT_T0_EEPNS_19PropertyStorageBaseE(struct S44_class_OpenVolumeMesh__PropertyPtr_431* a0, struct S16_class_OpenVolumeMesh__PropertyStorageBas* a1) {
  struct S13_class_std___Sp_counted_base** v0;
  struct S13_class_std___Sp_counted_base* v1;
  u1 v2;
  u32* v3;
  u32 v4;
  u32 v5; u32 v5_t;
  u1 v6;
  u32 v7;
  u32 v8;
  u1 v9;
  u32 v10;
  struct S69 v11;
  struct S69 v12;
  u1 v13;
  u32 v14;
  u8* v15;
  u64* v16;
  fnptr_t** v17;
  struct S16_class_OpenVolumeMesh__PropertyStorageBas** v18;
  struct S38_class_OpenVolumeMesh__PropertyStorageT_3** v19;
  struct S38_class_OpenVolumeMesh__PropertyStorageT_3* v20;
  u8 v21;
  u1 v22;
  u32 v23;
  u32 v24;
  u32 v25;
  u32 v26;
  u64* v27;
  u64 v28;
  u1 v29;
  u32* v30;
  fnptr_t** v31;
  fnptr_t* v32;
  fnptr_t* v33;
  fnptr_t v34;
  fnptr_t* v35;
  fnptr_t* v36;
  fnptr_t v37;
  u8 v38;
  u1 v39;
  u32 v40;
  u32 v41;
  u32 v42;
  u32 v43;
  u32 v44; u32 v44_t;
  u1 v45;
  fnptr_t** v46;
  struct S38_class_OpenVolumeMesh__PropertyStorageT_3** v47;
  struct S13_class_std___Sp_counted_base** v48;
  fnptr_t** v49;
L0: ;
  v0 = (struct S13_class_std___Sp_counted_base**)(&(*a1).f1.f0.f0.f1.f0);
  v1 = *v0;
  v2 = ((u8*)v1 == (u8*)((struct S13_class_std___Sp_counted_base*)0));
  if (v2) {
    goto L4;
  } else {
    goto L1;
  }
L1: ;
  v3 = (u32*)(&(*v1).f1);
  v4 = *v3;
  v5 = v4;
  goto L2;
L2: ;
  v6 = (v5 == ((u32)0ULL));
  if (v6) {
    goto L4;
  } else {
    goto L3;
  }
L3: ;
  v7 = ((u32)(v5 + ((u32)1ULL)));
  v8 = *v3;
  v9 = (v8 == v5);
  v10 = (v9 ? v7 : v8);
  *v3 = v10;
  v11.f0 = v8;
  v12 = v11;
  v12.f1 = v9;
  v13 = v12.f1;
  v14 = v12.f0;
  if (v13) {
    goto L5;
  } else {
    v5 = v14;
    goto L2;
  }
L4: ;
  v15 = __cxa_allocate_exception(((u64)8ULL));
  v16 = (u64*)v15;
  *v16 = ((u64)0ULL);
  v17 = (fnptr_t**)v15;
  *v17 = ((fnptr_t*)((u8**)(&(*(&_ZTVSt12bad_weak_ptr)).f0.e[(s64)((s64)((u64)2ULL))])));
  __cxa_throw(v15, ((u8*)(&_ZTISt12bad_weak_ptr)), ((u8*)((fnptr_t)_ZNSt12bad_weak_ptrD1Ev)));
  if (v_exc) return;
  __CPROVER_assume(0);
L5: ;
  v18 = (struct S16_class_OpenVolumeMesh__PropertyStorageBas**)(&(*a1).f1.f0.f0.f0);
  v19 = (struct S38_class_OpenVolumeMesh__PropertyStorageT_3**)&(*a1).f1.f0.f0.f0;
  v20 = *v19;
  v21 = *(&__libc_single_threaded);
  v22 = (v21 == ((u8)0ULL));
  if (v22) {
    goto L7;
  } else {
    goto L6;
  }
L6: ;
  v23 = *v3;
  v24 = ((u32)(v23 + ((u32)1ULL)));
  *v3 = v24;
  goto L8;
L7: ;
  v25 = *v3;
  v26 = ((u32)(v25 + ((u32)1ULL)));
  *v3 = v26;
  goto L8;
L8: ;
  v27 = (u64*)v3;
  v28 = (((u64)(*v1).f1 << 0) | ((u64)(*v1).f2 << 32));
  v29 = (v28 == ((u64)4294967297ULL));
  if (v29) {
    goto L9;
  } else {
    goto L10;
  }
L9: ;
  *v3 = ((u32)0ULL);
  v30 = (u32*)(&(*v1).f2);
  *v30 = ((u32)0ULL);
  v31 = (fnptr_t**)&(*v1).f0;
  v32 = *v31;
  v33 = (fnptr_t*)(v32 + (s64)((s64)((u64)2ULL)));
  v34 = *v33;
  ((FT0)v34)(v1);
  v35 = *v31;
  v36 = (fnptr_t*)(v35 + (s64)((s64)((u64)3ULL)));
  v37 = *v36;
  ((FT0)v37)(v1);
  goto L15;
L10: ;
  v38 = *(&__libc_single_threaded);
  v39 = (v38 == ((u8)0ULL));
  if (v39) {
    goto L12;
  } else {
    goto L11;
  }
L11: ;
  v40 = *v3;
  v41 = ((u32)(v40 + ((u32)4294967295ULL)));
  *v3 = v41;
  v44 = v40;
  goto L13;
L12: ;
  v42 = *v3;
  v43 = ((u32)(v42 + ((u32)4294967295ULL)));
  *v3 = v43;
  v44 = v42;
  goto L13;
L13: ;
  v45 = (v44 == ((u32)1ULL));
  if (v45) {
    goto L14;
  } else {
    goto L15;
  }
L14: ;
  _ZNSt16_Sp_counted_baseILN9__gnu_cxx12_Lock_policyE2EE24_M_release_last_use_coldEv(v1);
  goto L15;
L15: ;
  v46 = (fnptr_t**)(&(*a0).f0.f0.f0);
  *v46 = ((fnptr_t*)((u8**)(&(*(&_ZTVN14OpenVolumeMesh18PropertyStoragePtrIjEE)).f0.e[(s64)((s64)((u64)2ULL))])));
  v47 = (struct S38_class_OpenVolumeMesh__PropertyStorageT_3**)(&(*a0).f0.f0.f1.f0.f0);
  *v47 = v20;
  v48 = (struct S13_class_std___Sp_counted_base**)(&(*a0).f0.f0.f1.f0.f1.f0);
  *v48 = v1;
  *v46 = ((fnptr_t*)((u8**)(&(*(&_ZTVN14OpenVolumeMesh14HandleIndexingINS_6Entity6VertexENS_18PropertyStoragePtrIjEEEE)).f0.e[(s64)((s64)((u64)2ULL))])));
  v49 = (fnptr_t**)(&(*a0).f1.f0);
  *v49 = ((fnptr_t*)((u8**)(&(*(&_ZTVN14OpenVolumeMesh15BasePropertyPtrE)).f0.e[(s64)((s64)((u64)2ULL))])));
  *v46 = ((fnptr_t*)((u8**)(&(*(&_ZTVN14OpenVolumeMesh11PropertyPtrIjNS_6Entity6VertexEEE)).f0.e[(s64)((s64)((u64)2ULL))])));
  *v49 = ((fnptr_t*)((u8**)(&(*(&_ZTVN14OpenVolumeMesh11PropertyPtrIjNS_6Entity6VertexEEE)).f1.e[(s64)((s64)((u64)2ULL))])));
  return;
}

void _ZNSt23_Sp_counted_ptr_inplaceIN14OpenVolumeMesh2IO16PropertyDecoderTIjNS1_6Codecs15SimplePropCodecINS3_9PrimitiveIjEEEEEESaIvELN9__gnu_cxx12_Lock_policyE2EED0Ev(struct S59_class_std___Sp_counted_ptr_inplace_41* a0) {
  u8* v0;
L0: ;
  v0 = (u8*)a0;
  _ZdlPv(v0);
  return;
}

void _ZNSt23_Sp_counted_ptr_inplaceIN14OpenVolumeMesh2IO16PropertyDecoderTIjNS1_6Codecs15SimplePropCodecINS3_9PrimitiveIjEEEEEESaIvELN9__gnu_cxx12_Lock_policyE2EE10_M_disposeEv(struct S59_class_std___Sp_counted_ptr_inplace_41* a0) {
  struct S75_struct___gnu_cxx____aligned_buffer_42* v0;
  struct S19_class_std__bad_cast* v1;
  fnptr_t** v2;
  fnptr_t* v3;
  fnptr_t v4;
L0: ;
  v0 = (struct S75_struct___gnu_cxx____aligned_buffer_42*)(&(*a0).f1.f0);
  v1 = (struct S19_class_std__bad_cast*)&(*a0).f1.f0.f0;
  v2 = (fnptr_t**)&(*a0).f1.f0.f0.f0.f0;
  v3 = *v2;
  v4 = *v3;
  ((FT4)v4)(v1);
  return;
}

void _ZNSt23_Sp_counted_ptr_inplaceIN14OpenVolumeMesh2IO16PropertyDecoderTIjNS1_6Codecs15SimplePropCodecINS3_9PrimitiveIjEEEEEESaIvELN9__gnu_cxx12_Lock_policyE2EE10_M_destroyEv(struct S59_class_std___Sp_counted_ptr_inplace_41* a0) {
  u8* v0;
L0: ;
  v0 = (u8*)a0;
  _ZdlPv(v0);
  return;
}

u8* _ZNSt23_Sp_counted_ptr_inplaceIN14OpenVolumeMesh2IO16PropertyDecoderTIjNS1_6Codecs15SimplePropCodecINS3_9PrimitiveIjEEEEEESaIvELN9__gnu_cxx12_Lock_policyE2EE14_M_get_deleterERKSt9type_info(struct S59_class_std___Sp_counted_ptr_inplace_41* a0, struct S48_class_std__type_info* a1) {
  u1 v0;
  u8** v1;
  u8* v2;
  u1 v3;
  u8 v4;
  u1 v5;
  u32 v6;
  u1 v7;
  u8* v8;
  u8* v9; u8* v9_t;
L0: ;
  v0 = ((u8*)a1 == (u8*)((struct S48_class_std__type_info*)(&_ZZNSt19_Sp_make_shared_tag5_S_tiEvE5__tag)));
  if (v0) {
    goto L4;
  } else {
    goto L1;
  }
L1: ;
  v1 = (u8**)(&(*a1).f1);
  v2 = *v1;
  v3 = ((u8*)v2 == (u8*)((u8*)(&(*(&_ZTSSt19_Sp_make_shared_tag)).e[(s64)((s64)((u64)0ULL))])));
  if (v3) {
    goto L4;
  } else {
    goto L2;
  }
L2: ;
  v4 = *v2;
  v5 = (v4 == ((u8)42ULL));
  if (v5) {
    v9 = ((u8*)0);
    goto L5;
  } else {
    goto L3;
  }
L3: ;
  v6 = strcmp(v2, ((u8*)(&(*(&_ZTSSt19_Sp_make_shared_tag)).e[(s64)((s64)((u64)0ULL))])));
  v7 = (v6 == ((u32)0ULL));
  if (v7) {
    goto L4;
  } else {
    v9 = ((u8*)0);
    goto L5;
  }
L4: ;
  v8 = (u8*)(&(*a0).f1.f0.f0.f0.f0);
  v9 = v8;
  goto L5;
L5: ;
  return v9;
}

void _ZN14OpenVolumeMesh2IO16PropertyEncoderTIjNS0_6Codecs15SimplePropCodecINS2_9PrimitiveIjEEEEED0Ev(struct S60_class_OpenVolumeMesh__IO__PropertyEncode* a0) {
  fnptr_t** v0;
  u8** v1;
  u8* v2;
  struct S66_union_anon* v3;
  u8* v4;
  u1 v5;
  u8* v6;
L0: ;
  v0 = (fnptr_t**)(&(*a0).f0.f0);
  *v0 = ((fnptr_t*)((u8**)(&(*(&_ZTVN14OpenVolumeMesh2IO19PropertyEncoderBaseE)).f0.e[(s64)((s64)((u64)2ULL))])));
  v1 = (u8**)(&(*a0).f0.f1.f0.f0);
  v2 = *v1;
  v3 = (struct S66_union_anon*)(&(*a0).f0.f1.f2);
  v4 = (u8*)v3;
  v5 = ((u8*)v2 == (u8*)v4);
  if (v5) {
    goto L2;
  } else {
    goto L1;
  }
L1: ;
  _ZdlPv(v2);
  goto L2;
L2: ;
  v6 = (u8*)a0;
  _ZdlPv(v6);
  return;
}

void _ZNK14OpenVolumeMesh2IO16PropertyEncoderTIjNS0_6Codecs15SimplePropCodecINS2_9PrimitiveIjEEEEE17serialize_defaultEPKNS_19PropertyStorageBaseERNS0_6detail11WriteBufferE(struct S60_class_OpenVolumeMesh__IO__PropertyEncode* a0, struct S16_class_OpenVolumeMesh__PropertyStorageBas* a1, struct S61_class_OpenVolumeMesh__IO__detail__WriteB* a2) {
  struct S62_class_OpenVolumeMesh__IO__detail__Encode* v0; struct S62_class_OpenVolumeMesh__IO__detail__Encode v0_m;
  u8* v1;
  struct S61_class_OpenVolumeMesh__IO__detail__WriteB** v2;
  struct S38_class_OpenVolumeMesh__PropertyStorageT_3* v3;
  u32* v4;
  u32 v5;
L0: ;
  v0 = &v0_m;
  v1 = (u8*)v0;
  v2 = (struct S61_class_OpenVolumeMesh__IO__detail__WriteB**)(&(*v0).f0);
  *v2 = a2;
  v3 = _ZNK14OpenVolumeMesh19PropertyStorageBase16cast_to_StorageTIjEEPKNS_16PropertyStorageTIT_EEv(a1);
  if (v_exc) return;
  v4 = (u32*)(&(*v3).f3);
  v5 = *v4;
  _ZN14OpenVolumeMesh2IO6detail7Encoder3u32Ej(v0, v5);
  if (v_exc) return;
  return;
}

void _ZNK14OpenVolumeMesh2IO16PropertyEncoderTIjNS0_6Codecs15SimplePropCodecINS2_9PrimitiveIjEEEEE9serializeEPKNS_19PropertyStorageBaseERNS0_6detail11WriteBufferEmm(struct S60_class_OpenVolumeMesh__IO__PropertyEncode* a0, struct S16_class_OpenVolumeMesh__PropertyStorageBas* a1, struct S61_class_OpenVolumeMesh__IO__detail__WriteB* a2, u64 a3, u64 a4) {
  struct S62_class_OpenVolumeMesh__IO__detail__Encode* v0; struct S62_class_OpenVolumeMesh__IO__detail__Encode v0_m;
  struct S38_class_OpenVolumeMesh__PropertyStorageT_3* v1;
  u8* v2;
  struct S61_class_OpenVolumeMesh__IO__detail__WriteB** v3;
  u1 v4;
  u32** v5;
  u64 v6; u64 v6_t;
  u32* v7;
  u32* v8;
  u32 v9;
  u64 v10;
  u1 v11;
L0: ;
  v0 = &v0_m;
  v1 = _ZNK14OpenVolumeMesh19PropertyStorageBase16cast_to_StorageTIjEEPKNS_16PropertyStorageTIT_EEv(a1);
  if (v_exc) return;
  v2 = (u8*)v0;
  v3 = (struct S61_class_OpenVolumeMesh__IO__detail__WriteB**)(&(*v0).f0);
  *v3 = a2;
  v4 = (a3 < a4);
  if (v4) {
    goto L1;
  } else {
    goto L3;
  }
L1: ;
  v5 = (u32**)(&(*v1).f2.f0.f0.f0.f0);
  v6 = a3;
  goto L2;
L2: ;
  v7 = *v5;
  v8 = (u32*)(v7 + (s64)((s64)v6));
  v9 = *v8;
  _ZN14OpenVolumeMesh2IO6detail7Encoder3u32Ej(v0, v9);
  if (v_exc) return;
  v10 = ((u64)(v6 + ((u64)1ULL)));
  v11 = (v10 == a4);
  if (v11) {
    goto L3;
  } else {
    v6 = v10;
    goto L2;
  }
L3: ;
  return;
}

void _ZNSt23_Sp_counted_ptr_inplaceIN14OpenVolumeMesh2IO16PropertyEncoderTIjNS1_6Codecs15SimplePropCodecINS3_9PrimitiveIjEEEEEESaIvELN9__gnu_cxx12_Lock_policyE2EED0Ev(struct S49_class_std___Sp_counted_ptr_inplace* a0) {
  u8* v0;
L0: ;
  v0 = (u8*)a0;
  _ZdlPv(v0);
  return;
}

void _ZNSt23_Sp_counted_ptr_inplaceIN14OpenVolumeMesh2IO16PropertyEncoderTIjNS1_6Codecs15SimplePropCodecINS3_9PrimitiveIjEEEEEESaIvELN9__gnu_cxx12_Lock_policyE2EE10_M_disposeEv(struct S49_class_std___Sp_counted_ptr_inplace* a0) {
  struct S74_struct___gnu_cxx____aligned_buffer* v0;
  struct S60_class_OpenVolumeMesh__IO__PropertyEncode* v1;
  fnptr_t** v2;
  fnptr_t* v3;
  fnptr_t v4;
L0: ;
  v0 = (struct S74_struct___gnu_cxx____aligned_buffer*)(&(*a0).f1.f0);
  v1 = (struct S60_class_OpenVolumeMesh__IO__PropertyEncode*)&(*a0).f1.f0.f0;
  v2 = (fnptr_t**)&(*a0).f1.f0.f0.f0.f0;
  v3 = *v2;
  v4 = *v3;
  ((FT5)v4)(v1);
  return;
}

void _ZNSt23_Sp_counted_ptr_inplaceIN14OpenVolumeMesh2IO16PropertyEncoderTIjNS1_6Codecs15SimplePropCodecINS3_9PrimitiveIjEEEEEESaIvELN9__gnu_cxx12_Lock_policyE2EE10_M_destroyEv(struct S49_class_std___Sp_counted_ptr_inplace* a0) {
  u8* v0;
L0: ;
  v0 = (u8*)a0;
  _ZdlPv(v0);
  return;
}

u8* _ZNSt23_Sp_counted_ptr_inplaceIN14OpenVolumeMesh2IO16PropertyEncoderTIjNS1_6Codecs15SimplePropCodecINS3_9PrimitiveIjEEEEEESaIvELN9__gnu_cxx12_Lock_policyE2EE14_M_get_deleterERKSt9type_info(struct S49_class_std___Sp_counted_ptr_inplace* a0, struct S48_class_std__type_info* a1) {
  u1 v0;
  u8** v1;
  u8* v2;
  u1 v3;
  u8 v4;
  u1 v5;
  u32 v6;
  u1 v7;
  u8* v8;
  u8* v9; u8* v9_t;
L0: ;
  v0 = ((u8*)a1 == (u8*)((struct S48_class_std__type_info*)(&_ZZNSt19_Sp_make_shared_tag5_S_tiEvE5__tag)));
  if (v0) {
    goto L4;
  } else {
    goto L1;
  }
L1: ;
  v1 = (u8**)(&(*a1).f1);
  v2 = *v1;
  v3 = ((u8*)v2 == (u8*)((u8*)(&(*(&_ZTSSt19_Sp_make_shared_tag)).e[(s64)((s64)((u64)0ULL))])));
  if (v3) {
    goto L4;
  } else {
    goto L2;
  }
L2: ;
  v4 = *v2;
  v5 = (v4 == ((u8)42ULL));
  if (v5) {
    v9 = ((u8*)0);
    goto L5;
  } else {
    goto L3;
  }
L3: ;
  v6 = strcmp(v2, ((u8*)(&(*(&_ZTSSt19_Sp_make_shared_tag)).e[(s64)((s64)((u64)0ULL))])));
  v7 = (v6 == ((u32)0ULL));
  if (v7) {
    goto L4;
  } else {
    v9 = ((u8*)0);
    goto L5;
  }
L4: ;
  v8 = (u8*)(&(*a0).f1.f0.f0.f0.f0);
  v9 = v8;
  goto L5;
L5: ;
  return v9;
}

struct S21_class_OpenVolumeMesh__IO__PropertyDecode* _ZNK14OpenVolumeMesh2IO14PropertyCodecs11get_decoderERKNSt7__cxx1112basic_stringIcSt11char_traitsIcESaIcEEE(struct S37_class_OpenVolumeMesh__IO__PropertyCodecs* a0, struct S27_class_std____cxx11__basic_string* a1) {
  struct S10_class_std___Rb_tree* v0;
  struct S11_struct_std___Rb_tree_node_base* v1;
  u8* v2;
  u8* v3;
  struct S11_struct_std___Rb_tree_node_base* v4;
  u1 v5;
  struct S11_struct_std___Rb_tree_node_base* v6;
  struct S21_class_OpenVolumeMesh__IO__PropertyDecode** v7;
  struct S21_class_OpenVolumeMesh__IO__PropertyDecode* v8;
  struct S21_class_OpenVolumeMesh__IO__PropertyDecode* v9; struct S21_class_OpenVolumeMesh__IO__PropertyDecode* v9_t;
L0: ;
  v0 = (struct S10_class_std___Rb_tree*)(&(*a0).f0.f0);
  v1 = _ZNKSt8_Rb_treeINSt7__cxx1112basic_stringIcSt11char_traitsIcESaIcEEESt4pairIKS5_St10shared_ptrIN14OpenVolumeMesh2IO19PropertyDecoderBaseEEESt10_Select1stISD_ESt4lessIS5_ESaISD_EE4findERS7_(v0, a1);
  if (v_exc) return (struct S21_class_OpenVolumeMesh__IO__PropertyDecode*)0;
  v2 = (u8*)(&(*a0).f0.f0.f0.f0.f0.f0);
  v3 = (u8*)&(*a0).f0.f0.f0.f1.f0.f0;
  v4 = (struct S11_struct_std___Rb_tree_node_base*)&(*a0).f0.f0.f0.f1.f0;
  v5 = ((u8*)v1 == (u8*)v4);
  if (v5) {
    v9 = ((struct S21_class_OpenVolumeMesh__IO__PropertyDecode*)0);
    goto L2;
  } else {
    goto L1;
  }
L1: ;
  v6 = (struct S11_struct_std___Rb_tree_node_base*)(v1 + (s64)((s64)((u64)2ULL)));
  v7 = (struct S21_class_OpenVolumeMesh__IO__PropertyDecode**)v6;
  v8 = *v7;
  v9 = v8;
  goto L2;
L2: ;
  return v9;
}

struct S11_struct_std___Rb_tree_node_base* _ZNKSt8_Rb_treeINSt7__cxx1112basic_stringIcSt11char_traitsIcESaIcEEESt4pairIKS5_St10shared_ptrIN14OpenVolumeMesh2IO19PropertyDecoderBaseEEESt10_Select1stISD_ESt4lessIS5_ESaISD_EE4findERS7_(struct S10_class_std___Rb_tree* a0, struct S27_class_std____cxx11__basic_string* a1) {
  u8* v0;
  u8* v1;
  struct S12_struct_std___Rb_tree_node** v2;
  struct S12_struct_std___Rb_tree_node* v3;
  u8* v4;
  struct S11_struct_std___Rb_tree_node_base* v5;
  u1 v6;
  u64* v7;
  u64 v8;
  u8** v9;
  u8* v10;
  struct S12_struct_std___Rb_tree_node* v11; struct S12_struct_std___Rb_tree_node* v11_t;
  struct S11_struct_std___Rb_tree_node_base* v12; struct S11_struct_std___Rb_tree_node_base* v12_t;
  u8* v13;
  u64* v14;
  u64 v15;
  u1 v16;
  u64 v17;
  u1 v18;
  struct S64_struct___gnu_cxx____aligned_membuf* v19;
  u8** v20;
  u8* v21;
  u32 v22;
  u32 v23; u32 v23_t;
  u1 v24;
  u64 v25;
  u1 v26;
  u64 v27;
  u1 v28;
  u64 v29;
  u32 v30;
  u32 v31; u32 v31_t;
  u1 v32;
  struct S11_struct_std___Rb_tree_node_base** v33;
  struct S11_struct_std___Rb_tree_node_base* v34;
  struct S11_struct_std___Rb_tree_node_base** v35;
  struct S11_struct_std___Rb_tree_node_base* v36;
  struct S11_struct_std___Rb_tree_node_base** v37;
  struct S12_struct_std___Rb_tree_node** v38;
  struct S12_struct_std___Rb_tree_node* v39;
  u1 v40;
  struct S11_struct_std___Rb_tree_node_base* v41; struct S11_struct_std___Rb_tree_node_base* v41_t;
  u1 v42;
  u64* v43;
  u64 v44;
  struct S11_struct_std___Rb_tree_node_base** v45;
  u64* v46;
  u64 v47;
  u1 v48;
  u64 v49;
  u1 v50;
  struct S11_struct_std___Rb_tree_node_base* v51;
  u8** v52;
  u8* v53;
  u8** v54;
  u8* v55;
  u32 v56;
  u32 v57; u32 v57_t;
  u1 v58;
  u64 v59;
  u1 v60;
  u64 v61;
  u1 v62;
  u64 v63;
  u32 v64;
  u32 v65; u32 v65_t;
  u1 v66;
  struct S11_struct_std___Rb_tree_node_base* v67;
  struct S11_struct_std___Rb_tree_node_base* v68; struct S11_struct_std___Rb_tree_node_base* v68_t;
L0: ;
  v0 = (u8*)(&(*a0).f0.f0.f0.f0);
  v1 = (u8*)&(*a0).f0.f1.f0.f1;
  v2 = (struct S12_struct_std___Rb_tree_node**)&(*a0).f0.f1.f0.f1;
  v3 = *v2;
  v4 = (u8*)&(*a0).f0.f1.f0.f0;
  v5 = (struct S11_struct_std___Rb_tree_node_base*)&(*a0).f0.f1.f0;
  v6 = ((u8*)v3 == (u8*)((struct S12_struct_std___Rb_tree_node*)0));
  if (v6) {
    v41 = v5;
    goto L7;
  } else {
    goto L1;
  }
L1: ;
  v7 = (u64*)(&(*a1).f1);
  v8 = *v7;
  v9 = (u8**)(&(*a1).f0.f0);
  v10 = *v9;
  v11_t = v3;
  v12_t = v5;
  v11 = v11_t;
  v12 = v12_t;
  goto L2;
L2: ;
  v13 = (u8*)(&(*v11).f1.f0.e[(s64)((s64)((u64)8ULL))]);
  v14 = (u64*)v13;
  v15 = (((u64)(*v11).f1.f0.e[8] << 0) | ((u64)(*v11).f1.f0.e[9] << 8) | ((u64)(*v11).f1.f0.e[10] << 16) | ((u64)(*v11).f1.f0.e[11] << 24) | ((u64)(*v11).f1.f0.e[12] << 32) | ((u64)(*v11).f1.f0.e[13] << 40) | ((u64)(*v11).f1.f0.e[14] << 48) | ((u64)(*v11).f1.f0.e[15] << 56));
  v16 = (v15 > v8);
  v17 = (v16 ? v8 : v15);
  v18 = (v17 == ((u64)0ULL));
  if (v18) {
    v23 = ((u32)0ULL);
    goto L4;
  } else {
    goto L3;
  }
L3: ;
  v19 = (struct S64_struct___gnu_cxx____aligned_membuf*)(&(*v11).f1);
  v20 = (u8**)v19;
  v21 = *v20;
  v22 = memcmp(v21, v10, v17);
  v23 = v22;
  goto L4;
L4: ;
  v24 = (v23 == ((u32)0ULL));
  if (v24) {
    goto L5;
  } else {
    v31 = v23;
    goto L6;
  }
L5: ;
  v25 = ((u64)(v15 - v8));
  v26 = (((s64)v25) > ((s64)((u64)18446744071562067968ULL)));
  v27 = (v26 ? v25 : ((u64)18446744071562067968ULL));
  v28 = (((s64)v27) < ((s64)((u64)2147483647ULL)));
  v29 = (v28 ? v27 : ((u64)2147483647ULL));
  v30 = ((u32)(v29));
  v31 = v30;
  goto L6;
L6: ;
  v32 = (((s32)v31) < ((s32)((u32)0ULL)));
  v33 = (struct S11_struct_std___Rb_tree_node_base**)(&(*v11).f0.f3);
  v34 = (struct S11_struct_std___Rb_tree_node_base*)(&(*v11).f0);
  v35 = (struct S11_struct_std___Rb_tree_node_base**)(&(*v11).f0.f2);
  v36 = (v32 ? v12 : v34);
  v37 = (v32 ? v33 : v35);
  v38 = (struct S12_struct_std___Rb_tree_node**)v37;
  v39 = *v38;
  v40 = ((u8*)v39 == (u8*)((struct S12_struct_std___Rb_tree_node*)0));
  if (v40) {
    v41 = v36;
    goto L7;
  } else {
    v11_t = v39;
    v12_t = v36;
    v11 = v11_t;
    v12 = v12_t;
    goto L2;
  }
L7: ;
  v42 = ((u8*)v41 == (u8*)v5);
  if (v42) {
    v68 = v5;
    goto L13;
  } else {
    goto L8;
  }
L8: ;
  v43 = (u64*)(&(*a1).f1);
  v44 = *v43;
  v45 = (struct S11_struct_std___Rb_tree_node_base**)(&(v41)[(s64)((s64)((u64)1ULL))].f1);
  v46 = (u64*)v45;
  v47 = *v46;
  v48 = (v44 > v47);
  v49 = (v48 ? v47 : v44);
  v50 = (v49 == ((u64)0ULL));
  if (v50) {
    v57 = ((u32)0ULL);
    goto L10;
  } else {
    goto L9;
  }
L9: ;
  v51 = (struct S11_struct_std___Rb_tree_node_base*)(v41 + (s64)((s64)((u64)1ULL)));
  v52 = (u8**)v51;
  v53 = *v52;
  v54 = (u8**)(&(*a1).f0.f0);
  v55 = *v54;
  v56 = memcmp(v55, v53, v49);
  v57 = v56;
  goto L10;
L10: ;
  v58 = (v57 == ((u32)0ULL));
  if (v58) {
    goto L11;
  } else {
    v65 = v57;
    goto L12;
  }
L11: ;
  v59 = ((u64)(v44 - v47));
  v60 = (((s64)v59) > ((s64)((u64)18446744071562067968ULL)));
  v61 = (v60 ? v59 : ((u64)18446744071562067968ULL));
  v62 = (((s64)v61) < ((s64)((u64)2147483647ULL)));
  v63 = (v62 ? v61 : ((u64)2147483647ULL));
  v64 = ((u32)(v63));
  v65 = v64;
  goto L12;
L12: ;
  v66 = (((s32)v65) < ((s32)((u32)0ULL)));
  v67 = (v66 ? v5 : v41);
  v68 = v67;
  goto L13;
L13: ;
  return v68;
}

void _GLOBAL__sub_I_Decoder_cc(void) {
  u32 v0;
L0: ;
  _ZNSt8ios_base4InitC1Ev((&_ZStL8__ioinit_12));
  if (v_exc) return;
  v0 = __cxa_atexit(((fnptr_t)((fnptr_t)_ZNSt8ios_base4InitD1Ev)), ((u8*)(&(*(&_ZStL8__ioinit_12)).f0)), (&__dso_handle));
  return;
}

u32 _ZN14OpenVolumeMesh2IO6detail7Decoder3u32Ev(struct S54_class_OpenVolumeMesh__IO__detail__Decode* a0) {
  u8** v0;
  u8* v1;
  u8 v2;
  u32 v3;
  u8* v4;
  u8 v5;
  u32 v6;
  u32 v7;
  u32 v8;
  u8* v9;
  u8 v10;
  u32 v11;
  u32 v12;
  u32 v13;
  u8* v14;
  u8 v15;
  u32 v16;
  u32 v17;
  u32 v18;
  u8* v19;
L0: ;
  v0 = (u8**)(&(*a0).f1);
  v1 = *v0;
  v2 = *v1;
  v3 = ((u32)(v2));
  v4 = (u8*)(v1 + (s64)((s64)((u64)1ULL)));
  v5 = *v4;
  v6 = ((u32)(v5));
  v7 = ((u32)(v6 << ((u32)8ULL)));
  v8 = ((u32)(v7 | v3));
  v9 = (u8*)(v1 + (s64)((s64)((u64)2ULL)));
  v10 = *v9;
  v11 = ((u32)(v10));
  v12 = ((u32)(v11 << ((u32)16ULL)));
  v13 = ((u32)(v8 | v12));
  v14 = (u8*)(v1 + (s64)((s64)((u64)3ULL)));
  v15 = *v14;
  v16 = ((u32)(v15));
  v17 = ((u32)(v16 << ((u32)24ULL)));
  v18 = ((u32)(v13 | v17));
  v19 = (u8*)(v1 + (s64)((s64)((u64)4ULL)));
  *v0 = v19;
  return v18;
}

void _GLOBAL__sub_I_Encoder_cc(void) {
  u32 v0;
L0: ;
  _ZNSt8ios_base4InitC1Ev((&_ZStL8__ioinit_32));
  if (v_exc) return;
  v0 = __cxa_atexit(((fnptr_t)((fnptr_t)_ZNSt8ios_base4InitD1Ev)), ((u8*)(&(*(&_ZStL8__ioinit_32)).f0)), (&__dso_handle));
  return;
}

void _ZN14OpenVolumeMesh2IO6detail7Encoder3u32Ej(struct S62_class_OpenVolumeMesh__IO__detail__Encode* a0, u32 a1) {
  struct S61_class_OpenVolumeMesh__IO__detail__WriteB** v0;
  struct S61_class_OpenVolumeMesh__IO__detail__WriteB* v1;
  u8* v2;
  u64 v3; u64 v3_t;
  u32 v4;
  u32 v5;
  u32 v6;
  u8 v7;
  u8* v8;
  u64 v9;
  u1 v10;
L0: ;
  v0 = (struct S61_class_OpenVolumeMesh__IO__detail__WriteB**)(&(*a0).f0);
  v1 = *v0;
  v2 = _ZN14OpenVolumeMesh2IO6detail11WriteBuffer14bytes_to_writeEm(v1, ((u64)4ULL));
  if (v_exc) return;
  v3 = ((u64)0ULL);
  goto L2;
L1: ;
  return;
L2: ;
  v4 = ((u32)(v3));
  v5 = ((u32)(v4 << ((u32)3ULL)));
  v6 = ((u32)(a1 >> v5));
  v7 = ((u8)(v6));
  v8 = (u8*)(v2 + (s64)((s64)v3));
  *v8 = v7;
  v9 = ((u64)(v3 + ((u64)1ULL)));
  v10 = (v9 == ((u64)4ULL));
  if (v10) {
    goto L1;
  } else {
    v3 = v9;
    goto L2;
  }
}

void _GLOBAL__sub_I_WriteBuffer_cc(void) {
  u32 v0;
L0: ;
  _ZNSt8ios_base4InitC1Ev((&_ZStL8__ioinit_49));
  if (v_exc) return;
  v0 = __cxa_atexit(((fnptr_t)((fnptr_t)_ZNSt8ios_base4InitD1Ev)), ((u8*)(&(*(&_ZStL8__ioinit_49)).f0)), (&__dso_handle));
  return;
}

void _ZNSt6vectorIhSaIhEE17_M_default_appendEm(struct S53_class_std__vector* a0, u64 a1) {
  u1 v0;
  u8** v1;
  u8* v2;
  u8** v3;
  u8* v4;
  u64 v5;
  u64 v6;
  u64 v7;
  u8** v8;
  u8* v9;
  u64 v10;
  u64 v11;
  u1 v12;
  u64 v13;
  u1 v14;
  u1 v15;
  u8* v16;
  u64 v17;
  u1 v18;
  u8* v19;
  u8* v20; u8* v20_t;
  u1 v21;
  u1 v22;
  u64 v23;
  u64 v24;
  u1 v25;
  u1 v26;
  u1 v27;
  u64 v28;
  u1 v29;
  u1 v30;
  u8* v31;
  u8* v32; u8* v32_t;
  u8* v33;
  u64 v34;
  u1 v35;
  u8* v36;
  u1 v37;
  u1 v38;
  u8* v39;
  u8* v40;
L0: ;
  v0 = (a1 == ((u64)0ULL));
  if (v0) {
    goto L18;
  } else {
    goto L1;
  }
L1: ;
  v1 = (u8**)(&(*a0).f0.f0.f0.f1);
  v2 = *v1;
  v3 = (u8**)(&(*a0).f0.f0.f0.f0);
  v4 = *v3;
  v5 = ((u64)((u64)v2));
  v6 = ((u64)((u64)v4));
  v7 = v_pdiff((u8*)v2, (u8*)v4);
  v8 = (u8**)(&(*a0).f0.f0.f0.f2);
  v9 = *v8;
  v10 = ((u64)((u64)v9));
  v11 = v_pdiff((u8*)v9, (u8*)v2);
  v12 = (((s64)v7) > ((s64)((u64)18446744073709551615ULL)));
  v13 = ((u64)(v7 ^ ((u64)9223372036854775807ULL)));
  v14 = (v11 <= v13);
  v15 = (v11 < a1);
  if (v15) {
    goto L5;
  } else {
    goto L2;
  }
L2: ;
  *v2 = ((u8)0ULL);
  v16 = (u8*)(v2 + (s64)((s64)((u64)1ULL)));
  v17 = ((u64)(a1 + ((u64)18446744073709551615ULL)));
  v18 = (v17 == ((u64)0ULL));
  if (v18) {
    v20 = v16;
    goto L4;
  } else {
    goto L3;
  }
L3: ;
  v19 = (u8*)(v2 + (s64)((s64)a1));
  v_memset((u8*)v16, ((u8)0ULL), (u64)v17);
  v20 = v19;
  goto L4;
L4: ;
  *v1 = v20;
  goto L18;
L5: ;
  v21 = (v13 < a1);
  if (v21) {
    goto L6;
  } else {
    goto L7;
  }
L6: ;
  _ZSt20__throw_length_errorPKc(((u8*)(&(*(&_str_50)).e[(s64)((s64)((u64)0ULL))])));
  if (v_exc) return;
  __CPROVER_assume(0);
L7: ;
  v22 = (v7 < a1);
  v23 = (v22 ? a1 : v7);
  v24 = ((u64)(v23 + v7));
  v25 = (v24 < v7);
  v26 = (((s64)v24) < ((s64)((u64)0ULL)));
  v27 = ((u1)((v25 | v26)&1));
  v28 = (v27 ? ((u64)9223372036854775807ULL) : v24);
  v29 = (v28 == ((u64)0ULL));
  if (v29) {
    v32 = ((u8*)0);
    goto L11;
  } else {
    goto L8;
  }
L8: ;
  v30 = (((s64)v28) < ((s64)((u64)0ULL)));
  if (v30) {
    goto L9;
  } else {
    goto L10;
  }
L9: ;
  _ZSt17__throw_bad_allocv();
  if (v_exc) return;
  __CPROVER_assume(0);
L10: ;
  v31 = _Znwm(v28);
  if (v_exc) return;
  v32 = v31;
  goto L11;
L11: ;
  v33 = (u8*)(v32 + (s64)((s64)v7));
  *v33 = ((u8)0ULL);
  v34 = ((u64)(a1 + ((u64)18446744073709551615ULL)));
  v35 = (v34 == ((u64)0ULL));
  if (v35) {
    goto L13;
  } else {
    goto L12;
  }
L12: ;
  v36 = (u8*)(v33 + (s64)((s64)((u64)1ULL)));
  v_memset((u8*)v36, ((u8)0ULL), (u64)v34);
  goto L13;
L13: ;
  v37 = (((s64)v7) > ((s64)((u64)0ULL)));
  if (v37) {
    goto L14;
  } else {
    goto L15;
  }
L14: ;
  v_memmove((u8*)v32, (u8*)v4, (u64)v7);
  goto L15;
L15: ;
  v38 = ((u8*)v4 == (u8*)((u8*)0));
  if (v38) {
    goto L17;
  } else {
    goto L16;
  }
L16: ;
  _ZdlPv(v4);
  goto L17;
L17: ;
  *v3 = v32;
  v39 = (u8*)(v33 + (s64)((s64)a1));
  *v1 = v39;
  v40 = (u8*)(v32 + (s64)((s64)v28));
  *v8 = v40;
  goto L18;
L18: ;
  return;
}

u8* _ZN14OpenVolumeMesh2IO6detail11WriteBuffer14bytes_to_writeEm(struct S61_class_OpenVolumeMesh__IO__detail__WriteB* a0, u64 a1) {
  struct S53_class_std__vector* v0;
  u8** v1;
  u8* v2;
  u8** v3;
  u8* v4;
  u64 v5;
  u64 v6;
  u64 v7;
  u64* v8;
  u64 v9;
  u64 v10;
  u1 v11;
  u64 v12;
  u1 v13;
  u64 v14;
  u1 v15;
  u8* v16;
  u1 v17;
  u64 v18;
  u8** v19;
  u8* v20;
  u8* v21;
  u64 v22;
L0: ;
  v0 = (struct S53_class_std__vector*)(&(*a0).f0);
  v1 = (u8**)(&(*a0).f0.f0.f0.f0.f1);
  v2 = *v1;
  v3 = (u8**)(&(*a0).f0.f0.f0.f0.f0);
  v4 = *v3;
  v5 = ((u64)((u64)v2));
  v6 = ((u64)((u64)v4));
  v7 = v_pdiff((u8*)v2, (u8*)v4);
  v8 = (u64*)(&(*a0).f1);
  v9 = *v8;
  v10 = ((u64)(v7 - v9));
  v11 = (v10 < a1);
  if (v11) {
    goto L1;
  } else {
    goto L6;
  }
L1: ;
  v12 = ((u64)(v9 + a1));
  v13 = (v12 > v7);
  if (v13) {
    goto L2;
  } else {
    goto L3;
  }
L2: ;
  v14 = ((u64)(v12 - v7));
  _ZNSt6vectorIhSaIhEE17_M_default_appendEm(v0, v14);
  if (v_exc) return (u8*)0;
  goto L6;
L3: ;
  v15 = (v12 < v7);
  if (v15) {
    goto L4;
  } else {
    goto L6;
  }
L4: ;
  v16 = (u8*)(v4 + (s64)((s64)v12));
  v17 = ((u8*)v2 == (u8*)v16);
  if (v17) {
    goto L6;
  } else {
    goto L5;
  }
L5: ;
  *v1 = v16;
  goto L6;
L6: ;
  v18 = *v8;
  v19 = (u8**)(&(*a0).f0.f0.f0.f0.f0);
  v20 = *v19;
  v21 = (u8*)(v20 + (s64)((s64)v18));
  v22 = ((u64)(v18 + a1));
  *v8 = v22;
  return v21;
}

void _GLOBAL__sub_I_ResourceManager_cc(void) {
  u32 v0;
L0: ;
  _ZNSt8ios_base4InitC1Ev((&_ZStL8__ioinit_57));
  if (v_exc) return;
  v0 = __cxa_atexit(((fnptr_t)((fnptr_t)_ZNSt8ios_base4InitD1Ev)), ((u8*)(&(*(&_ZStL8__ioinit_57)).f0)), (&__dso_handle));
  return;
}

u64 _ZNK14OpenVolumeMesh15ResourceManager1nINS_6Entity6VertexEEEmv(struct S52_class_OpenVolumeMesh__ResourceManager* a0) {
  fnptr_t** v0;
  fnptr_t* v1;
  fnptr_t* v2;
  fnptr_t v3;
  u64 v4;
L0: ;
  v0 = (fnptr_t**)&(*a0).f0;
  v1 = *v0;
  v2 = (fnptr_t*)(v1 + (s64)((s64)((u64)2ULL)));
  v3 = *v2;
  v4 = ((FT6)v3)(a0);
  if (v_exc) return (u64)0;
  return v4;
}

u64 _ZNK14OpenVolumeMesh15ResourceManager1nINS_6Entity4EdgeEEEmv(struct S52_class_OpenVolumeMesh__ResourceManager* a0) {
  fnptr_t** v0;
  fnptr_t* v1;
  fnptr_t* v2;
  fnptr_t v3;
  u64 v4;
L0: ;
  v0 = (fnptr_t**)&(*a0).f0;
  v1 = *v0;
  v2 = (fnptr_t*)(v1 + (s64)((s64)((u64)3ULL)));
  v3 = *v2;
  v4 = ((FT6)v3)(a0);
  if (v_exc) return (u64)0;
  return v4;
}

u64 _ZNK14OpenVolumeMesh15ResourceManager1nINS_6Entity8HalfEdgeEEEmv(struct S52_class_OpenVolumeMesh__ResourceManager* a0) {
  fnptr_t** v0;
  fnptr_t* v1;
  fnptr_t* v2;
  fnptr_t v3;
  u64 v4;
L0: ;
  v0 = (fnptr_t**)&(*a0).f0;
  v1 = *v0;
  v2 = (fnptr_t*)(v1 + (s64)((s64)((u64)4ULL)));
  v3 = *v2;
  v4 = ((FT6)v3)(a0);
  if (v_exc) return (u64)0;
  return v4;
}

u64 _ZNK14OpenVolumeMesh15ResourceManager1nINS_6Entity4FaceEEEmv(struct S52_class_OpenVolumeMesh__ResourceManager* a0) {
  fnptr_t** v0;
  fnptr_t* v1;
  fnptr_t* v2;
  fnptr_t v3;
  u64 v4;
L0: ;
  v0 = (fnptr_t**)&(*a0).f0;
  v1 = *v0;
  v2 = (fnptr_t*)(v1 + (s64)((s64)((u64)5ULL)));
  v3 = *v2;
  v4 = ((FT6)v3)(a0);
  if (v_exc) return (u64)0;
  return v4;
}

u64 _ZNK14OpenVolumeMesh15ResourceManager1nINS_6Entity8HalfFaceEEEmv(struct S52_class_OpenVolumeMesh__ResourceManager* a0) {
  fnptr_t** v0;
  fnptr_t* v1;
  fnptr_t* v2;
  fnptr_t v3;
  u64 v4;
L0: ;
  v0 = (fnptr_t**)&(*a0).f0;
  v1 = *v0;
  v2 = (fnptr_t*)(v1 + (s64)((s64)((u64)6ULL)));
  v3 = *v2;
  v4 = ((FT6)v3)(a0);
  if (v_exc) return (u64)0;
  return v4;
}

u64 _ZNK14OpenVolumeMesh15ResourceManager1nINS_6Entity4CellEEEmv(struct S52_class_OpenVolumeMesh__ResourceManager* a0) {
  fnptr_t** v0;
  fnptr_t* v1;
  fnptr_t* v2;
  fnptr_t v3;
  u64 v4;
L0: ;
  v0 = (fnptr_t**)&(*a0).f0;
  v1 = *v0;
  v2 = (fnptr_t*)(v1 + (s64)((s64)((u64)7ULL)));
  v3 = *v2;
  v4 = ((FT6)v3)(a0);
  if (v_exc) return (u64)0;
  return v4;
}

u64 _ZNK14OpenVolumeMesh15ResourceManager1nINS_6Entity4MeshEEEmv(struct S52_class_OpenVolumeMesh__ResourceManager* a0) {
L0: ;
  return ((u64)1ULL);
}

void _GLOBAL__sub_I_PropertyStorageBase_cc(void) {
  u32 v0;
L0: ;
  _ZNSt8ios_base4InitC1Ev((&_ZStL8__ioinit_73));
  if (v_exc) return;
  v0 = __cxa_atexit(((fnptr_t)((fnptr_t)_ZNSt8ios_base4InitD1Ev)), ((u8*)(&(*(&_ZStL8__ioinit_73)).f0)), (&__dso_handle));
  return;
}

void _ZN14OpenVolumeMesh6detail18internal_type_nameB5cxx11ERKSt9type_info(struct S27_class_std____cxx11__basic_string* a0, struct S48_class_std__type_info* a1) {
  u64* v0; u64 v0_m;
  u8** v1;
  u8* v2;
  u8 v3;
  u1 v4;
  u64 v5;
  u8* v6;
  struct S66_union_anon* v7;
  struct S66_union_anon** v8;
  u1 v9;
  u64 v10;
  u8* v11;
  u1 v12;
  u8* v13;
  u8** v14;
  u64 v15;
  u64* v16;
  u8** v17;
  u8* v18;
  u8 v19;
  u64 v20;
  u64* v21;
  u8* v22;
  u8* v23;
L0: ;
  v0 = &v0_m;
  v1 = (u8**)(&(*a1).f1);
  v2 = *v1;
  v3 = *v2;
  v4 = (v3 == ((u8)42ULL));
  v5 = ((u64)(v4));
  v6 = (u8*)(v2 + (s64)((s64)v5));
  v7 = (struct S66_union_anon*)(&(*a0).f2);
  v8 = (struct S66_union_anon**)&(*a0).f0.f0;
  *v8 = v7;
  v9 = ((u8*)v6 == (u8*)((u8*)0));
  if (v9) {
    goto L1;
  } else {
    goto L2;
  }
L1: ;
  _ZSt19__throw_logic_errorPKc(((u8*)(&(*(&_str_76)).e[(s64)((s64)((u64)0ULL))])));
  if (v_exc) return;
  __CPROVER_assume(0);
L2: ;
  v10 = strlen(v6);
  v11 = (u8*)v0;
  *v0 = v10;
  v12 = (v10 > ((u64)15ULL));
  if (v12) {
    goto L3;
  } else {
    goto L4;
  }
L3: ;
  v13 = _ZNSt7__cxx1112basic_stringIcSt11char_traitsIcESaIcEE9_M_createERmm(a0, v0, ((u64)0ULL));
  if (v_exc) return;
  v14 = (u8**)(&(*a0).f0.f0);
  *v14 = v13;
  v15 = *v0;
  v16 = (u64*)(&(*a0).f2.f0.e[0]);
  *v16 = v15;
  goto L4;
L4: ;
  v17 = (u8**)(&(*a0).f0.f0);
  v18 = *v17;
  switch (v10) {
  case ((u64)1ULL): {
    goto L5;
  }
  case ((u64)0ULL): {
    goto L7;
  }
  default: {
    goto L6;
  }
  }
L5: ;
  v19 = *v6;
  *v18 = v19;
  goto L7;
L6: ;
  v_memcpy((u8*)v18, (u8*)v6, (u64)v10);
  goto L7;
L7: ;
  v20 = *v0;
  v21 = (u64*)(&(*a0).f1);
  *v21 = v20;
  v22 = *v17;
  v23 = (u8*)(v22 + (s64)((s64)v20));
  *v23 = ((u8)0ULL);
  return;
}

struct S11_struct_std___Rb_tree_node_base* _ZSt18_Rb_tree_incrementPSt18_Rb_tree_node_base(struct S11_struct_std___Rb_tree_node_base* a0) {
  struct S11_struct_std___Rb_tree_node_base** v0;
  struct S11_struct_std___Rb_tree_node_base* v1;
  u1 v2;
  struct S11_struct_std___Rb_tree_node_base* v3; struct S11_struct_std___Rb_tree_node_base* v3_t;
  struct S11_struct_std___Rb_tree_node_base** v4;
  struct S11_struct_std___Rb_tree_node_base* v5;
  u1 v6;
  struct S11_struct_std___Rb_tree_node_base* v7; struct S11_struct_std___Rb_tree_node_base* v7_t;
  struct S11_struct_std___Rb_tree_node_base** v8;
  struct S11_struct_std___Rb_tree_node_base* v9;
  struct S11_struct_std___Rb_tree_node_base** v10;
  struct S11_struct_std___Rb_tree_node_base* v11;
  u1 v12;
  struct S11_struct_std___Rb_tree_node_base** v13;
  struct S11_struct_std___Rb_tree_node_base* v14;
  u1 v15;
  struct S11_struct_std___Rb_tree_node_base* v16;
  struct S11_struct_std___Rb_tree_node_base* v17; struct S11_struct_std___Rb_tree_node_base* v17_t;
L0: ;
  v0 = (struct S11_struct_std___Rb_tree_node_base**)(&(*a0).f3);
  v1 = *v0;
  v2 = ((u8*)v1 == (u8*)((struct S11_struct_std___Rb_tree_node_base*)0));
  if (v2) {
    v7 = a0;
    goto L2;
  } else {
    v3 = v1;
    goto L1;
  }
L1: ;
  v4 = (struct S11_struct_std___Rb_tree_node_base**)(&(*v3).f2);
  v5 = *v4;
  v6 = ((u8*)v5 == (u8*)((struct S11_struct_std___Rb_tree_node_base*)0));
  if (v6) {
    v17 = v3;
    goto L4;
  } else {
    v3 = v5;
    goto L1;
  }
L2: ;
  v8 = (struct S11_struct_std___Rb_tree_node_base**)(&(*v7).f1);
  v9 = *v8;
  v10 = (struct S11_struct_std___Rb_tree_node_base**)(&(*v9).f3);
  v11 = *v10;
  v12 = ((u8*)v7 == (u8*)v11);
  if (v12) {
    v7 = v9;
    goto L2;
  } else {
    goto L3;
  }
L3: ;
  v13 = (struct S11_struct_std___Rb_tree_node_base**)(&(*v7).f3);
  v14 = *v13;
  v15 = ((u8*)v14 == (u8*)v9);
  v16 = (v15 ? v7 : v9);
  v17 = v16;
  goto L4;
L4: ;
  return v17;
}

struct S11_struct_std___Rb_tree_node_base* _ZSt18_Rb_tree_incrementPKSt18_Rb_tree_node_base(struct S11_struct_std___Rb_tree_node_base* a0) {
  struct S11_struct_std___Rb_tree_node_base** v0;
  struct S11_struct_std___Rb_tree_node_base* v1;
  u1 v2;
  struct S11_struct_std___Rb_tree_node_base* v3; struct S11_struct_std___Rb_tree_node_base* v3_t;
  struct S11_struct_std___Rb_tree_node_base** v4;
  struct S11_struct_std___Rb_tree_node_base* v5;
  u1 v6;
  struct S11_struct_std___Rb_tree_node_base* v7; struct S11_struct_std___Rb_tree_node_base* v7_t;
  struct S11_struct_std___Rb_tree_node_base** v8;
  struct S11_struct_std___Rb_tree_node_base* v9;
  struct S11_struct_std___Rb_tree_node_base** v10;
  struct S11_struct_std___Rb_tree_node_base* v11;
  u1 v12;
  struct S11_struct_std___Rb_tree_node_base** v13;
  struct S11_struct_std___Rb_tree_node_base* v14;
  u1 v15;
  struct S11_struct_std___Rb_tree_node_base* v16;
  struct S11_struct_std___Rb_tree_node_base* v17; struct S11_struct_std___Rb_tree_node_base* v17_t;
L0: ;
  v0 = (struct S11_struct_std___Rb_tree_node_base**)(&(*a0).f3);
  v1 = *v0;
  v2 = ((u8*)v1 == (u8*)((struct S11_struct_std___Rb_tree_node_base*)0));
  if (v2) {
    v7 = a0;
    goto L2;
  } else {
    v3 = v1;
    goto L1;
  }
L1: ;
  v4 = (struct S11_struct_std___Rb_tree_node_base**)(&(*v3).f2);
  v5 = *v4;
  v6 = ((u8*)v5 == (u8*)((struct S11_struct_std___Rb_tree_node_base*)0));
  if (v6) {
    v17 = v3;
    goto L4;
  } else {
    v3 = v5;
    goto L1;
  }
L2: ;
  v8 = (struct S11_struct_std___Rb_tree_node_base**)(&(*v7).f1);
  v9 = *v8;
  v10 = (struct S11_struct_std___Rb_tree_node_base**)(&(*v9).f3);
  v11 = *v10;
  v12 = ((u8*)v7 == (u8*)v11);
  if (v12) {
    v7 = v9;
    goto L2;
  } else {
    goto L3;
  }
L3: ;
  v13 = (struct S11_struct_std___Rb_tree_node_base**)(&(*v7).f3);
  v14 = *v13;
  v15 = ((u8*)v14 == (u8*)v9);
  v16 = (v15 ? v7 : v9);
  v17 = v16;
  goto L4;
L4: ;
  return v17;
}

struct S11_struct_std___Rb_tree_node_base* _ZSt18_Rb_tree_decrementPSt18_Rb_tree_node_base(struct S11_struct_std___Rb_tree_node_base* a0) {
  u32* v0;
  u32 v1;
  u1 v2;
  struct S11_struct_std___Rb_tree_node_base** v3;
  struct S11_struct_std___Rb_tree_node_base* v4;
  struct S11_struct_std___Rb_tree_node_base** v5;
  struct S11_struct_std___Rb_tree_node_base* v6;
  u1 v7;
  struct S11_struct_std___Rb_tree_node_base** v8;
  struct S11_struct_std___Rb_tree_node_base* v9;
  struct S11_struct_std___Rb_tree_node_base** v10;
  struct S11_struct_std___Rb_tree_node_base* v11;
  u1 v12;
  struct S11_struct_std___Rb_tree_node_base* v13; struct S11_struct_std___Rb_tree_node_base* v13_t;
  struct S11_struct_std___Rb_tree_node_base** v14;
  struct S11_struct_std___Rb_tree_node_base* v15;
  u1 v16;
  struct S11_struct_std___Rb_tree_node_base* v17; struct S11_struct_std___Rb_tree_node_base* v17_t;
  struct S11_struct_std___Rb_tree_node_base** v18;
  struct S11_struct_std___Rb_tree_node_base* v19;
  struct S11_struct_std___Rb_tree_node_base** v20;
  struct S11_struct_std___Rb_tree_node_base* v21;
  u1 v22;
  struct S11_struct_std___Rb_tree_node_base* v23; struct S11_struct_std___Rb_tree_node_base* v23_t;
L0: ;
  v0 = (u32*)(&(*a0).f0);
  v1 = *v0;
  v2 = (v1 == ((u32)0ULL));
  if (v2) {
    goto L1;
  } else {
    goto L3;
  }
L1: ;
  v3 = (struct S11_struct_std___Rb_tree_node_base**)(&(*a0).f1);
  v4 = *v3;
  v5 = (struct S11_struct_std___Rb_tree_node_base**)(&(*v4).f1);
  v6 = *v5;
  v7 = ((u8*)v6 == (u8*)a0);
  if (v7) {
    goto L2;
  } else {
    goto L3;
  }
L2: ;
  v8 = (struct S11_struct_std___Rb_tree_node_base**)(&(*a0).f3);
  v9 = *v8;
  v23 = v9;
  goto L6;
L3: ;
  v10 = (struct S11_struct_std___Rb_tree_node_base**)(&(*a0).f2);
  v11 = *v10;
  v12 = ((u8*)v11 == (u8*)((struct S11_struct_std___Rb_tree_node_base*)0));
  if (v12) {
    v17 = a0;
    goto L5;
  } else {
    v13 = v11;
    goto L4;
  }
L4: ;
  v14 = (struct S11_struct_std___Rb_tree_node_base**)(&(*v13).f3);
  v15 = *v14;
  v16 = ((u8*)v15 == (u8*)((struct S11_struct_std___Rb_tree_node_base*)0));
  if (v16) {
    v23 = v13;
    goto L6;
  } else {
    v13 = v15;
    goto L4;
  }
L5: ;
  v18 = (struct S11_struct_std___Rb_tree_node_base**)(&(*v17).f1);
  v19 = *v18;
  v20 = (struct S11_struct_std___Rb_tree_node_base**)(&(*v19).f2);
  v21 = *v20;
  v22 = ((u8*)v17 == (u8*)v21);
  if (v22) {
    v17 = v19;
    goto L5;
  } else {
    v23 = v19;
    goto L6;
  }
L6: ;
  return v23;
}

void _ZSt29_Rb_tree_insert_and_rebalancebPSt18_Rb_tree_node_baseS0_RS_(u1 a0, struct S11_struct_std___Rb_tree_node_base* a1, struct S11_struct_std___Rb_tree_node_base* a2, struct S11_struct_std___Rb_tree_node_base* a3) {
  struct S11_struct_std___Rb_tree_node_base** v0;
  struct S11_struct_std___Rb_tree_node_base** v1;
  u32* v2;
  u8* v3;
  struct S11_struct_std___Rb_tree_node_base** v4;
  u1 v5;
  struct S11_struct_std___Rb_tree_node_base** v6;
  struct S11_struct_std___Rb_tree_node_base** v7;
  struct S11_struct_std___Rb_tree_node_base** v8;
  struct S11_struct_std___Rb_tree_node_base* v9;
  u1 v10;
  struct S11_struct_std___Rb_tree_node_base** v11;
  struct S11_struct_std___Rb_tree_node_base** v12;
  struct S11_struct_std___Rb_tree_node_base* v13;
  u1 v14;
  struct S11_struct_std___Rb_tree_node_base** v15; struct S11_struct_std___Rb_tree_node_base** v15_t;
L0: ;
  v0 = (struct S11_struct_std___Rb_tree_node_base**)(&(*a1).f1);
  *v0 = a2;
  v1 = (struct S11_struct_std___Rb_tree_node_base**)(&(*a1).f2);
  v2 = (u32*)(&(*a1).f0);
  v3 = (u8*)v1;
  (*a1).f2 = (struct S11_struct_std___Rb_tree_node_base*)0;
  (*a1).f3 = (struct S11_struct_std___Rb_tree_node_base*)0;
  *v2 = ((u32)1ULL);
  if (a0) {
    goto L1;
  } else {
    goto L4;
  }
L1: ;
  v4 = (struct S11_struct_std___Rb_tree_node_base**)(&(*a2).f2);
  *v4 = a1;
  v5 = ((u8*)a2 == (u8*)a3);
  if (v5) {
    goto L2;
  } else {
    goto L3;
  }
L2: ;
  v6 = (struct S11_struct_std___Rb_tree_node_base**)(&(*a3).f1);
  *v6 = a1;
  v7 = (struct S11_struct_std___Rb_tree_node_base**)(&(*a3).f3);
  v15 = v7;
  goto L5;
L3: ;
  v8 = (struct S11_struct_std___Rb_tree_node_base**)(&(*a3).f2);
  v9 = *v8;
  v10 = ((u8*)v9 == (u8*)a2);
  if (v10) {
    v15 = v8;
    goto L5;
  } else {
    goto L6;
  }
L4: ;
  v11 = (struct S11_struct_std___Rb_tree_node_base**)(&(*a2).f3);
  *v11 = a1;
  v12 = (struct S11_struct_std___Rb_tree_node_base**)(&(*a3).f3);
  v13 = *v12;
  v14 = ((u8*)v13 == (u8*)a2);
  if (v14) {
    v15 = v12;
    goto L5;
  } else {
    goto L6;
  }
L5: ;
  *v15 = a1;
  goto L6;
L6: ;
  return;
}

struct S11_struct_std___Rb_tree_node_base* _ZSt28_Rb_tree_rebalance_for_erasePSt18_Rb_tree_node_baseRS_(struct S11_struct_std___Rb_tree_node_base* a0, struct S11_struct_std___Rb_tree_node_base* a1) {
  struct S11_struct_std___Rb_tree_node_base** v0;
  struct S11_struct_std___Rb_tree_node_base** v1;
  struct S11_struct_std___Rb_tree_node_base** v2;
  struct S11_struct_std___Rb_tree_node_base** v3;
  struct S11_struct_std___Rb_tree_node_base* v4;
  u1 v5;
  struct S11_struct_std___Rb_tree_node_base** v6;
  struct S11_struct_std___Rb_tree_node_base* v7;
  u1 v8;
  struct S11_struct_std___Rb_tree_node_base* v9; struct S11_struct_std___Rb_tree_node_base* v9_t;
  struct S11_struct_std___Rb_tree_node_base** v10;
  struct S11_struct_std___Rb_tree_node_base* v11;
  u1 v12;
  struct S11_struct_std___Rb_tree_node_base** v13;
  struct S11_struct_std___Rb_tree_node_base* v14;
  struct S11_struct_std___Rb_tree_node_base* v15; struct S11_struct_std___Rb_tree_node_base* v15_t;
  struct S11_struct_std___Rb_tree_node_base* v16; struct S11_struct_std___Rb_tree_node_base* v16_t;
  u1 v17;
  struct S11_struct_std___Rb_tree_node_base** v18;
  struct S11_struct_std___Rb_tree_node_base** v19;
  struct S11_struct_std___Rb_tree_node_base** v20;
  struct S11_struct_std___Rb_tree_node_base* v21;
  u1 v22;
  u1 v23;
  struct S11_struct_std___Rb_tree_node_base** v24;
  struct S11_struct_std___Rb_tree_node_base* v25;
  struct S11_struct_std___Rb_tree_node_base** v26;
  struct S11_struct_std___Rb_tree_node_base** v27;
  struct S11_struct_std___Rb_tree_node_base* v28;
  struct S11_struct_std___Rb_tree_node_base** v29;
  struct S11_struct_std___Rb_tree_node_base** v30;
  struct S11_struct_std___Rb_tree_node_base* v31;
  struct S11_struct_std___Rb_tree_node_base** v32;
  struct S11_struct_std___Rb_tree_node_base* v33;
  u1 v34;
  struct S11_struct_std___Rb_tree_node_base** v35;
  struct S11_struct_std___Rb_tree_node_base* v36;
  struct S11_struct_std___Rb_tree_node_base** v37;
  struct S11_struct_std___Rb_tree_node_base* v38;
  u1 v39;
  struct S11_struct_std___Rb_tree_node_base** v40;
  struct S11_struct_std___Rb_tree_node_base** v41;
  struct S11_struct_std___Rb_tree_node_base** v42; struct S11_struct_std___Rb_tree_node_base** v42_t;
  struct S11_struct_std___Rb_tree_node_base** v43;
  struct S11_struct_std___Rb_tree_node_base* v44;
  struct S11_struct_std___Rb_tree_node_base** v45;
  u1 v46;
  struct S11_struct_std___Rb_tree_node_base** v47;
  struct S11_struct_std___Rb_tree_node_base* v48;
  struct S11_struct_std___Rb_tree_node_base** v49;
  struct S11_struct_std___Rb_tree_node_base* v50;
  u1 v51;
  struct S11_struct_std___Rb_tree_node_base** v52;
  struct S11_struct_std___Rb_tree_node_base* v53;
  struct S11_struct_std___Rb_tree_node_base** v54;
  struct S11_struct_std___Rb_tree_node_base* v55;
  u1 v56;
  struct S11_struct_std___Rb_tree_node_base** v57;
  struct S11_struct_std___Rb_tree_node_base** v58;
  struct S11_struct_std___Rb_tree_node_base** v59; struct S11_struct_std___Rb_tree_node_base** v59_t;
  struct S11_struct_std___Rb_tree_node_base* v60;
  u1 v61;
  struct S11_struct_std___Rb_tree_node_base** v62;
  struct S11_struct_std___Rb_tree_node_base* v63;
  u1 v64;
  struct S11_struct_std___Rb_tree_node_base** v65;
  struct S11_struct_std___Rb_tree_node_base* v66;
  struct S11_struct_std___Rb_tree_node_base* v67; struct S11_struct_std___Rb_tree_node_base* v67_t;
  struct S11_struct_std___Rb_tree_node_base** v68;
  struct S11_struct_std___Rb_tree_node_base* v69;
  u1 v70;
  struct S11_struct_std___Rb_tree_node_base* v71; struct S11_struct_std___Rb_tree_node_base* v71_t;
  struct S11_struct_std___Rb_tree_node_base* v72;
  u1 v73;
  struct S11_struct_std___Rb_tree_node_base* v74;
  u1 v75;
  struct S11_struct_std___Rb_tree_node_base** v76;
  struct S11_struct_std___Rb_tree_node_base* v77;
  struct S11_struct_std___Rb_tree_node_base* v78; struct S11_struct_std___Rb_tree_node_base* v78_t;
  struct S11_struct_std___Rb_tree_node_base** v79;
  struct S11_struct_std___Rb_tree_node_base* v80;
  u1 v81;
  struct S11_struct_std___Rb_tree_node_base* v82; struct S11_struct_std___Rb_tree_node_base* v82_t;
L0: ;
  v0 = (struct S11_struct_std___Rb_tree_node_base**)(&(*a1).f1);
  v1 = (struct S11_struct_std___Rb_tree_node_base**)(&(*a1).f2);
  v2 = (struct S11_struct_std___Rb_tree_node_base**)(&(*a1).f3);
  v3 = (struct S11_struct_std___Rb_tree_node_base**)(&(*a0).f2);
  v4 = *v3;
  v5 = ((u8*)v4 == (u8*)((struct S11_struct_std___Rb_tree_node_base*)0));
  v6 = (struct S11_struct_std___Rb_tree_node_base**)(&(*a0).f3);
  v7 = *v6;
  if (v5) {
    v15_t = a0;
    v16_t = v7;
    v15 = v15_t;
    v16 = v16_t;
    goto L4;
  } else {
    goto L1;
  }
L1: ;
  v8 = ((u8*)v7 == (u8*)((struct S11_struct_std___Rb_tree_node_base*)0));
  if (v8) {
    v15_t = a0;
    v16_t = v4;
    v15 = v15_t;
    v16 = v16_t;
    goto L4;
  } else {
    v9 = v7;
    goto L2;
  }
L2: ;
  v10 = (struct S11_struct_std___Rb_tree_node_base**)(&(*v9).f2);
  v11 = *v10;
  v12 = ((u8*)v11 == (u8*)((struct S11_struct_std___Rb_tree_node_base*)0));
  if (v12) {
    goto L3;
  } else {
    v9 = v11;
    goto L2;
  }
L3: ;
  v13 = (struct S11_struct_std___Rb_tree_node_base**)(&(*v9).f3);
  v14 = *v13;
  v15_t = v9;
  v16_t = v14;
  v15 = v15_t;
  v16 = v16_t;
  goto L4;
L4: ;
  v17 = ((u8*)v15 == (u8*)a0);
  if (v17) {
    goto L12;
  } else {
    goto L5;
  }
L5: ;
  v18 = (struct S11_struct_std___Rb_tree_node_base**)(&(*v4).f1);
  *v18 = v15;
  v19 = (struct S11_struct_std___Rb_tree_node_base**)(&(*v15).f2);
  *v19 = v4;
  v20 = (struct S11_struct_std___Rb_tree_node_base**)(&(*a0).f3);
  v21 = *v20;
  v22 = ((u8*)v15 == (u8*)v21);
  if (v22) {
    goto L9;
  } else {
    goto L6;
  }
L6: ;
  v23 = ((u8*)v16 == (u8*)((struct S11_struct_std___Rb_tree_node_base*)0));
  if (v23) {
    goto L8;
  } else {
    goto L7;
  }
L7: ;
  v24 = (struct S11_struct_std___Rb_tree_node_base**)(&(*v15).f1);
  v25 = *v24;
  v26 = (struct S11_struct_std___Rb_tree_node_base**)(&(*v16).f1);
  *v26 = v25;
  goto L8;
L8: ;
  v27 = (struct S11_struct_std___Rb_tree_node_base**)(&(*v15).f1);
  v28 = *v27;
  v29 = (struct S11_struct_std___Rb_tree_node_base**)(&(*v28).f2);
  *v29 = v16;
  v30 = (struct S11_struct_std___Rb_tree_node_base**)(&(*v15).f3);
  *v30 = v21;
  v31 = *v20;
  v32 = (struct S11_struct_std___Rb_tree_node_base**)(&(*v31).f1);
  *v32 = v15;
  goto L9;
L9: ;
  v33 = *v0;
  v34 = ((u8*)v33 == (u8*)a0);
  if (v34) {
    v42 = v0;
    goto L11;
  } else {
    goto L10;
  }
L10: ;
  v35 = (struct S11_struct_std___Rb_tree_node_base**)(&(*a0).f1);
  v36 = *v35;
  v37 = (struct S11_struct_std___Rb_tree_node_base**)(&(*v36).f2);
  v38 = *v37;
  v39 = ((u8*)v38 == (u8*)a0);
  v40 = (struct S11_struct_std___Rb_tree_node_base**)(&(*v36).f3);
  v41 = (v39 ? v37 : v40);
  v42 = v41;
  goto L11;
L11: ;
  *v42 = v15;
  v43 = (struct S11_struct_std___Rb_tree_node_base**)(&(*a0).f1);
  v44 = *v43;
  v45 = (struct S11_struct_std___Rb_tree_node_base**)(&(*v15).f1);
  *v45 = v44;
  v82 = a0;
  goto L26;
L12: ;
  v46 = ((u8*)v16 == (u8*)((struct S11_struct_std___Rb_tree_node_base*)0));
  if (v46) {
    goto L14;
  } else {
    goto L13;
  }
L13: ;
  v47 = (struct S11_struct_std___Rb_tree_node_base**)(&(*v15).f1);
  v48 = *v47;
  v49 = (struct S11_struct_std___Rb_tree_node_base**)(&(*v16).f1);
  *v49 = v48;
  goto L14;
L14: ;
  v50 = *v0;
  v51 = ((u8*)v50 == (u8*)a0);
  if (v51) {
    v59 = v0;
    goto L16;
  } else {
    goto L15;
  }
L15: ;
  v52 = (struct S11_struct_std___Rb_tree_node_base**)(&(*a0).f1);
  v53 = *v52;
  v54 = (struct S11_struct_std___Rb_tree_node_base**)(&(*v53).f2);
  v55 = *v54;
  v56 = ((u8*)v55 == (u8*)a0);
  v57 = (struct S11_struct_std___Rb_tree_node_base**)(&(*v53).f3);
  v58 = (v56 ? v54 : v57);
  v59 = v58;
  goto L16;
L16: ;
  *v59 = v16;
  v60 = *v1;
  v61 = ((u8*)v60 == (u8*)a0);
  if (v61) {
    goto L17;
  } else {
    goto L21;
  }
L17: ;
  v62 = (struct S11_struct_std___Rb_tree_node_base**)(&(*a0).f3);
  v63 = *v62;
  v64 = ((u8*)v63 == (u8*)((struct S11_struct_std___Rb_tree_node_base*)0));
  if (v64) {
    goto L18;
  } else {
    v67 = v16;
    goto L19;
  }
L18: ;
  v65 = (struct S11_struct_std___Rb_tree_node_base**)(&(*a0).f1);
  v66 = *v65;
  v71 = v66;
  goto L20;
L19: ;
  v68 = (struct S11_struct_std___Rb_tree_node_base**)(&(*v67).f2);
  v69 = *v68;
  v70 = ((u8*)v69 == (u8*)((struct S11_struct_std___Rb_tree_node_base*)0));
  if (v70) {
    v71 = v67;
    goto L20;
  } else {
    v67 = v69;
    goto L19;
  }
L20: ;
  *v1 = v71;
  goto L21;
L21: ;
  v72 = *v2;
  v73 = ((u8*)v72 == (u8*)a0);
  if (v73) {
    goto L22;
  } else {
    v82 = v15;
    goto L26;
  }
L22: ;
  v74 = *v3;
  v75 = ((u8*)v74 == (u8*)((struct S11_struct_std___Rb_tree_node_base*)0));
  if (v75) {
    goto L23;
  } else {
    v78 = v16;
    goto L24;
  }
L23: ;
  v76 = (struct S11_struct_std___Rb_tree_node_base**)(&(*a0).f1);
  v77 = *v76;
  *v2 = v77;
  v82 = v15;
  goto L26;
L24: ;
  v79 = (struct S11_struct_std___Rb_tree_node_base**)(&(*v78).f3);
  v80 = *v79;
  v81 = ((u8*)v80 == (u8*)((struct S11_struct_std___Rb_tree_node_base*)0));
  if (v81) {
    goto L25;
  } else {
    v78 = v80;
    goto L24;
  }
L25: ;
  *v2 = v78;
  v82 = v15;
  goto L26;
L26: ;
  return v82;
}

void _ZSt20__throw_length_errorPKc(u8* a0) {
L0: ;
  v_throw_std(((u32)1ULL));
  if (v_exc) return;
  __CPROVER_assume(0);
}

void _ZSt17__throw_bad_allocv(void) {
L0: ;
  v_throw_std(((u32)2ULL));
  if (v_exc) return;
  __CPROVER_assume(0);
}

void _ZSt28__throw_bad_array_new_lengthv(void) {
L0: ;
  v_throw_std(((u32)3ULL));
  if (v_exc) return;
  __CPROVER_assume(0);
}

void _ZSt19__throw_logic_errorPKc(u8* a0) {
L0: ;
  v_throw_std(((u32)5ULL));
  if (v_exc) return;
  __CPROVER_assume(0);
}

u8* _ZNSt7__cxx1112basic_stringIcSt11char_traitsIcESaIcEE9_M_createERmm(struct S27_class_std____cxx11__basic_string* a0, u64* a1, u64 a2) {
  u64 v0;
  u1 v1;
  u1 v2;
  u64 v3;
  u1 v4;
  u1 v5;
  u64 v6;
  u64 v7;
  u64 v8;
  u1 v9;
  u8* v10;
L0: ;
  v0 = *a1;
  v1 = (v0 > ((u64)4611686018427387903ULL));
  if (v1) {
    goto L1;
  } else {
    goto L2;
  }
L1: ;
  _ZSt20__throw_length_errorPKc(((u8*)0));
  if (v_exc) return (u8*)0;
  __CPROVER_assume(0);
L2: ;
  v2 = (v0 > a2);
  if (v2) {
    goto L3;
  } else {
    goto L5;
  }
L3: ;
  v3 = ((u64)(a2 << ((u64)1ULL)));
  v4 = (v0 < v3);
  if (v4) {
    goto L4;
  } else {
    goto L5;
  }
L4: ;
  v5 = (v3 < ((u64)4611686018427387903ULL));
  v6 = (v5 ? v3 : ((u64)4611686018427387903ULL));
  *a1 = v6;
  goto L5;
L5: ;
  v7 = *a1;
  v8 = ((u64)(v7 + ((u64)1ULL)));
  v9 = (((s64)v8) < ((s64)((u64)0ULL)));
  if (v9) {
    goto L6;
  } else {
    goto L7;
  }
L6: ;
  _ZSt17__throw_bad_allocv();
  if (v_exc) return (u8*)0;
  __CPROVER_assume(0);
L7: ;
  v10 = _Znwm(v8);
  if (v_exc) return (u8*)0;
  return v10;
}

void _ZNSt8bad_castD1Ev(struct S19_class_std__bad_cast* a0) { }
void _ZNSt13runtime_errorC1EPKc(struct S20_class_std__runtime_error* a0, u8* a1) { }
void _ZNSt13runtime_errorD1Ev(struct S20_class_std__runtime_error* a0) { }
struct S17_class_std__basic_ostream* _ZNSo3putEc(struct S17_class_std__basic_ostream* a0, u8 a1) { return a0; }
struct S17_class_std__basic_ostream* _ZNSo5flushEv(struct S17_class_std__basic_ostream* a0) { return a0; }
void _ZNSt13runtime_errorD2Ev(struct S20_class_std__runtime_error* a0) { }
void _ZNSt13runtime_errorC2EPKc(struct S20_class_std__runtime_error* a0, u8* a1) { }
u8* _ZNKSt13runtime_error4whatEv(struct S20_class_std__runtime_error* a0) { static u8 empty[1]; return (u8*)empty; }
struct S17_class_std__basic_ostream* _ZNSo9_M_insertImEERSoT_(struct S17_class_std__basic_ostream* a0, u64 a1) { return a0; }
void v_run_static_init(void) {
  static int done; if (done) return; done = 1;
  _GLOBAL__sub_I_C07_codec_short_cpp();
  _GLOBAL__sub_I_Decoder_cc();
  _GLOBAL__sub_I_Encoder_cc();
  _GLOBAL__sub_I_WriteBuffer_cc();
  _GLOBAL__sub_I_ResourceManager_cc();
  _GLOBAL__sub_I_PropertyStorageBase_cc();
}
u1 v_exc_match(u8* want) {
  if (v_exc_ti == (u8*)&_ZTISt11_Mutex_baseILN9__gnu_cxx12_Lock_policyE2EE) return 0 || want == (u8*)&_ZTISt11_Mutex_baseILN9__gnu_cxx12_Lock_policyE2EE;
  if (v_exc_ti == (u8*)&_ZTISt16_Sp_counted_baseILN9__gnu_cxx12_Lock_policyE2EE) return 0 || want == (u8*)&_ZTISt11_Mutex_baseILN9__gnu_cxx12_Lock_policyE2EE || want == (u8*)&_ZTISt16_Sp_counted_baseILN9__gnu_cxx12_Lock_policyE2EE;
  if (v_exc_ti == (u8*)&_ZTIN14OpenVolumeMesh2IO19PropertyEncoderBaseE) return 0 || want == (u8*)&_ZTIN14OpenVolumeMesh2IO19PropertyEncoderBaseE;
  if (v_exc_ti == (u8*)&_ZTISt8bad_cast) return 0 || want == (u8*)&_ZTISt8bad_cast;
  if (v_exc_ti == (u8*)&_ZTIN14OpenVolumeMesh2IO19PropertyDecoderBaseE) return 0 || want == (u8*)&_ZTIN14OpenVolumeMesh2IO19PropertyDecoderBaseE;
  if (v_exc_ti == (u8*)&_ZTIN14OpenVolumeMesh15BasePropertyPtrE) return 0 || want == (u8*)&_ZTIN14OpenVolumeMesh15BasePropertyPtrE;
  if (v_exc_ti == (u8*)&_ZTISt23enable_shared_from_thisIN14OpenVolumeMesh19PropertyStorageBaseEE) return 0 || want == (u8*)&_ZTISt23enable_shared_from_thisIN14OpenVolumeMesh19PropertyStorageBaseEE;
  if (v_exc_ti == (u8*)&_ZTIN14OpenVolumeMesh6detail7TrackedINS_19PropertyStorageBaseEEE) return 0 || want == (u8*)&_ZTIN14OpenVolumeMesh6detail7TrackedINS_19PropertyStorageBaseEEE;
  if (v_exc_ti == (u8*)&_ZTIN14OpenVolumeMesh19PropertyStorageBaseE) return 0 || want == (u8*)&_ZTIN14OpenVolumeMesh19PropertyStorageBaseE || want == (u8*)&_ZTIN14OpenVolumeMesh6detail7TrackedINS_19PropertyStorageBaseEEE || want == (u8*)&_ZTISt23enable_shared_from_thisIN14OpenVolumeMesh19PropertyStorageBaseEE;
  if (v_exc_ti == (u8*)&_ZTISt23_Sp_counted_ptr_inplaceIN14OpenVolumeMesh2IO16PropertyEncoderTIjNS1_6Codecs15SimplePropCodecINS3_9PrimitiveIjEEEEEESaIvELN9__gnu_cxx12_Lock_policyE2EE) return 0 || want == (u8*)&_ZTISt11_Mutex_baseILN9__gnu_cxx12_Lock_policyE2EE || want == (u8*)&_ZTISt16_Sp_counted_baseILN9__gnu_cxx12_Lock_policyE2EE || want == (u8*)&_ZTISt23_Sp_counted_ptr_inplaceIN14OpenVolumeMesh2IO16PropertyEncoderTIjNS1_6Codecs15SimplePropCodecINS3_9PrimitiveIjEEEEEESaIvELN9__gnu_cxx12_Lock_policyE2EE;
  if (v_exc_ti == (u8*)&_ZTIN14OpenVolumeMesh2IO16PropertyEncoderTIjNS0_6Codecs15SimplePropCodecINS2_9PrimitiveIjEEEEEE) return 0 || want == (u8*)&_ZTIN14OpenVolumeMesh2IO16PropertyEncoderTIjNS0_6Codecs15SimplePropCodecINS2_9PrimitiveIjEEEEEE || want == (u8*)&_ZTIN14OpenVolumeMesh2IO19PropertyEncoderBaseE;
  if (v_exc_ti == (u8*)&_ZTIj) return 0 || want == (u8*)&_ZTIj;
  if (v_exc_ti == (u8*)&_ZTISt23_Sp_counted_ptr_inplaceIN14OpenVolumeMesh2IO16PropertyDecoderTIjNS1_6Codecs15SimplePropCodecINS3_9PrimitiveIjEEEEEESaIvELN9__gnu_cxx12_Lock_policyE2EE) return 0 || want == (u8*)&_ZTISt11_Mutex_baseILN9__gnu_cxx12_Lock_policyE2EE || want == (u8*)&_ZTISt16_Sp_counted_baseILN9__gnu_cxx12_Lock_policyE2EE || want == (u8*)&_ZTISt23_Sp_counted_ptr_inplaceIN14OpenVolumeMesh2IO16PropertyDecoderTIjNS1_6Codecs15SimplePropCodecINS3_9PrimitiveIjEEEEEESaIvELN9__gnu_cxx12_Lock_policyE2EE;
  if (v_exc_ti == (u8*)&_ZTIN14OpenVolumeMesh2IO16PropertyDecoderTIjNS0_6Codecs15SimplePropCodecINS2_9PrimitiveIjEEEEEE) return 0 || want == (u8*)&_ZTIN14OpenVolumeMesh2IO16PropertyDecoderTIjNS0_6Codecs15SimplePropCodecINS2_9PrimitiveIjEEEEEE || want == (u8*)&_ZTIN14OpenVolumeMesh2IO19PropertyDecoderBaseE;
  if (v_exc_ti == (u8*)&_ZTIN14OpenVolumeMesh18PropertyStoragePtrIjEE) return 0 || want == (u8*)&_ZTIN14OpenVolumeMesh18PropertyStoragePtrIjEE;
  if (v_exc_ti == (u8*)&_ZTIN14OpenVolumeMesh14HandleIndexingINS_6Entity6VertexENS_18PropertyStoragePtrIjEEEE) return 0 || want == (u8*)&_ZTIN14OpenVolumeMesh14HandleIndexingINS_6Entity6VertexENS_18PropertyStoragePtrIjEEEE || want == (u8*)&_ZTIN14OpenVolumeMesh18PropertyStoragePtrIjEE;
  if (v_exc_ti == (u8*)&_ZTIN14OpenVolumeMesh11PropertyPtrIjNS_6Entity6VertexEEE) return 0 || want == (u8*)&_ZTIN14OpenVolumeMesh11PropertyPtrIjNS_6Entity6VertexEEE || want == (u8*)&_ZTIN14OpenVolumeMesh14HandleIndexingINS_6Entity6VertexENS_18PropertyStoragePtrIjEEEE || want == (u8*)&_ZTIN14OpenVolumeMesh15BasePropertyPtrE || want == (u8*)&_ZTIN14OpenVolumeMesh18PropertyStoragePtrIjEE;
  if (v_exc_ti == (u8*)&_ZTISt23_Sp_counted_ptr_inplaceIN14OpenVolumeMesh16PropertyStorageTIjEESaIvELN9__gnu_cxx12_Lock_policyE2EE) return 0 || want == (u8*)&_ZTISt11_Mutex_baseILN9__gnu_cxx12_Lock_policyE2EE || want == (u8*)&_ZTISt16_Sp_counted_baseILN9__gnu_cxx12_Lock_policyE2EE || want == (u8*)&_ZTISt23_Sp_counted_ptr_inplaceIN14OpenVolumeMesh16PropertyStorageTIjEESaIvELN9__gnu_cxx12_Lock_policyE2EE;
  if (v_exc_ti == (u8*)&_ZTIN14OpenVolumeMesh16PropertyStorageTIjEE) return 0 || want == (u8*)&_ZTIN14OpenVolumeMesh16PropertyStorageTIjEE || want == (u8*)&_ZTIN14OpenVolumeMesh19PropertyStorageBaseE || want == (u8*)&_ZTIN14OpenVolumeMesh6detail7TrackedINS_19PropertyStorageBaseEEE || want == (u8*)&_ZTISt23enable_shared_from_thisIN14OpenVolumeMesh19PropertyStorageBaseEE;
  if (v_exc_ti == (u8*)&_ZTIN14OpenVolumeMesh14HandleIndexingINS_6Entity4EdgeENS_18PropertyStoragePtrIjEEEE) return 0 || want == (u8*)&_ZTIN14OpenVolumeMesh14HandleIndexingINS_6Entity4EdgeENS_18PropertyStoragePtrIjEEEE || want == (u8*)&_ZTIN14OpenVolumeMesh18PropertyStoragePtrIjEE;
  if (v_exc_ti == (u8*)&_ZTIN14OpenVolumeMesh11PropertyPtrIjNS_6Entity4EdgeEEE) return 0 || want == (u8*)&_ZTIN14OpenVolumeMesh11PropertyPtrIjNS_6Entity4EdgeEEE || want == (u8*)&_ZTIN14OpenVolumeMesh14HandleIndexingINS_6Entity4EdgeENS_18PropertyStoragePtrIjEEEE || want == (u8*)&_ZTIN14OpenVolumeMesh15BasePropertyPtrE || want == (u8*)&_ZTIN14OpenVolumeMesh18PropertyStoragePtrIjEE;
  if (v_exc_ti == (u8*)&_ZTIN14OpenVolumeMesh14HandleIndexingINS_6Entity8HalfEdgeENS_18PropertyStoragePtrIjEEEE) return 0 || want == (u8*)&_ZTIN14OpenVolumeMesh14HandleIndexingINS_6Entity8HalfEdgeENS_18PropertyStoragePtrIjEEEE || want == (u8*)&_ZTIN14OpenVolumeMesh18PropertyStoragePtrIjEE;
  if (v_exc_ti == (u8*)&_ZTIN14OpenVolumeMesh11PropertyPtrIjNS_6Entity8HalfEdgeEEE) return 0 || want == (u8*)&_ZTIN14OpenVolumeMesh11PropertyPtrIjNS_6Entity8HalfEdgeEEE || want == (u8*)&_ZTIN14OpenVolumeMesh14HandleIndexingINS_6Entity8HalfEdgeENS_18PropertyStoragePtrIjEEEE || want == (u8*)&_ZTIN14OpenVolumeMesh15BasePropertyPtrE || want == (u8*)&_ZTIN14OpenVolumeMesh18PropertyStoragePtrIjEE;
  if (v_exc_ti == (u8*)&_ZTIN14OpenVolumeMesh14HandleIndexingINS_6Entity4FaceENS_18PropertyStoragePtrIjEEEE) return 0 || want == (u8*)&_ZTIN14OpenVolumeMesh14HandleIndexingINS_6Entity4FaceENS_18PropertyStoragePtrIjEEEE || want == (u8*)&_ZTIN14OpenVolumeMesh18PropertyStoragePtrIjEE;
  if (v_exc_ti == (u8*)&_ZTIN14OpenVolumeMesh11PropertyPtrIjNS_6Entity4FaceEEE) return 0 || want == (u8*)&_ZTIN14OpenVolumeMesh11PropertyPtrIjNS_6Entity4FaceEEE || want == (u8*)&_ZTIN14OpenVolumeMesh14HandleIndexingINS_6Entity4FaceENS_18PropertyStoragePtrIjEEEE || want == (u8*)&_ZTIN14OpenVolumeMesh15BasePropertyPtrE || want == (u8*)&_ZTIN14OpenVolumeMesh18PropertyStoragePtrIjEE;
  if (v_exc_ti == (u8*)&_ZTIN14OpenVolumeMesh14HandleIndexingINS_6Entity8HalfFaceENS_18PropertyStoragePtrIjEEEE) return 0 || want == (u8*)&_ZTIN14OpenVolumeMesh14HandleIndexingINS_6Entity8HalfFaceENS_18PropertyStoragePtrIjEEEE || want == (u8*)&_ZTIN14OpenVolumeMesh18PropertyStoragePtrIjEE;
  if (v_exc_ti == (u8*)&_ZTIN14OpenVolumeMesh11PropertyPtrIjNS_6Entity8HalfFaceEEE) return 0 || want == (u8*)&_ZTIN14OpenVolumeMesh11PropertyPtrIjNS_6Entity8HalfFaceEEE || want == (u8*)&_ZTIN14OpenVolumeMesh14HandleIndexingINS_6Entity8HalfFaceENS_18PropertyStoragePtrIjEEEE || want == (u8*)&_ZTIN14OpenVolumeMesh15BasePropertyPtrE || want == (u8*)&_ZTIN14OpenVolumeMesh18PropertyStoragePtrIjEE;
  if (v_exc_ti == (u8*)&_ZTIN14OpenVolumeMesh14HandleIndexingINS_6Entity4CellENS_18PropertyStoragePtrIjEEEE) return 0 || want == (u8*)&_ZTIN14OpenVolumeMesh14HandleIndexingINS_6Entity4CellENS_18PropertyStoragePtrIjEEEE || want == (u8*)&_ZTIN14OpenVolumeMesh18PropertyStoragePtrIjEE;
  if (v_exc_ti == (u8*)&_ZTIN14OpenVolumeMesh11PropertyPtrIjNS_6Entity4CellEEE) return 0 || want == (u8*)&_ZTIN14OpenVolumeMesh11PropertyPtrIjNS_6Entity4CellEEE || want == (u8*)&_ZTIN14OpenVolumeMesh14HandleIndexingINS_6Entity4CellENS_18PropertyStoragePtrIjEEEE || want == (u8*)&_ZTIN14OpenVolumeMesh15BasePropertyPtrE || want == (u8*)&_ZTIN14OpenVolumeMesh18PropertyStoragePtrIjEE;
  if (v_exc_ti == (u8*)&_ZTIN14OpenVolumeMesh14HandleIndexingINS_6Entity4MeshENS_18PropertyStoragePtrIjEEEE) return 0 || want == (u8*)&_ZTIN14OpenVolumeMesh14HandleIndexingINS_6Entity4MeshENS_18PropertyStoragePtrIjEEEE || want == (u8*)&_ZTIN14OpenVolumeMesh18PropertyStoragePtrIjEE;
  if (v_exc_ti == (u8*)&_ZTIN14OpenVolumeMesh11PropertyPtrIjNS_6Entity4MeshEEE) return 0 || want == (u8*)&_ZTIN14OpenVolumeMesh11PropertyPtrIjNS_6Entity4MeshEEE || want == (u8*)&_ZTIN14OpenVolumeMesh14HandleIndexingINS_6Entity4MeshENS_18PropertyStoragePtrIjEEEE || want == (u8*)&_ZTIN14OpenVolumeMesh15BasePropertyPtrE || want == (u8*)&_ZTIN14OpenVolumeMesh18PropertyStoragePtrIjEE;
  if (v_exc_ti == (u8*)&_ZTIN14OpenVolumeMesh2IO6detail11parse_errorE) return 0 || want == (u8*)&_ZTIN14OpenVolumeMesh2IO6detail11parse_errorE || want == (u8*)&_ZTIN14OpenVolumeMesh2IO6detail8io_errorE || want == (u8*)&_ZTISt13runtime_error;
  if (v_exc_ti == (u8*)&_ZTISt13runtime_error) return 0 || want == (u8*)&_ZTISt13runtime_error;
  if (v_exc_ti == (u8*)&_ZTIN14OpenVolumeMesh2IO6detail8io_errorE) return 0 || want == (u8*)&_ZTIN14OpenVolumeMesh2IO6detail8io_errorE || want == (u8*)&_ZTISt13runtime_error;
  if (v_exc_ti == (u8*)&_ZTISt12bad_weak_ptr) return 0 || want == (u8*)&_ZTISt12bad_weak_ptr;
  return 0;
}
