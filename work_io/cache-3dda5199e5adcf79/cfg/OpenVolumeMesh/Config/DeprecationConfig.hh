#pragma once

#define OVM_ENABLE_DEPRECATED_APIS 0

